------------------------------ MODULE GrammarOps ------------------------------
(***************************************************************************)
(* Temporal ISO 8601 / RFC 9557 string grammar.                             *)
(*  Part 1  text helpers, character classes                                 *)
(*  Part 2  character-level RECOGNIZER over arrays of 1-character strings   *)
(*          (non-ASCII / control characters travel as tokens "U+XXXX"):     *)
(*          productions (date, time, offset, annotations, duration, ...),   *)
(*          then the per-type rules:  Outcome(goal, c), Accepts, Value.     *)
(*  Part 3  token-level GENERATOR state machine (Grammar_gen section):      *)
(*          actions append optional parts; at most Budget deviations from   *)
(*          the canonical form, at most one of them a catalogued mutation.  *)
(* The recognizer follows the proposal text, not the ixdtf crate.           *)
(***************************************************************************)
EXTENDS Integers, Sequences, FiniteSets, TLC, Gregorian, TemporalBase

(* ======================= Part 1: text helpers ======================= *)
Chars(s) == [i \in 1..Len(s) |-> SubSeq(s, i, i)]
RECURSIVE Join(_)
Join(cs) == IF cs = <<>> THEN "" ELSE cs[1] \o Join(Tail(cs))
MinOf(S) == CHOOSE x \in S : \A y \in S : x <= y
RECURSIVE SortedSeq(_)
SortedSeq(S) == IF S = {} THEN <<>> ELSE LET x == MinOf(S) IN <<x>> \o SortedSeq(S \ {x})

P10 == <<1, 10, 100, 1000, 10000, 100000, 1000000, 10000000, 100000000, 1000000000>>
Pow10I(k) == P10[k + 1]
\* decimal text of n >= 0 left-padded with zeros to width w
RECURSIVE PadN(_, _)
PadN(n, w) == IF w <= 1 /\ n < 10 THEN ToString(n) ELSE PadN(n \div 10, w - 1) \o ToString(n % 10)
Pad2(n) == PadN(n, 2)

Digit == {"0", "1", "2", "3", "4", "5", "6", "7", "8", "9"}
DVal == [x \in Digit |-> CASE x = "0" -> 0 [] x = "1" -> 1 [] x = "2" -> 2 [] x = "3" -> 3 [] x = "4" -> 4
                           [] x = "5" -> 5 [] x = "6" -> 6 [] x = "7" -> 7 [] x = "8" -> 8 [] x = "9" -> 9]
LowerSeq == <<"a","b","c","d","e","f","g","h","i","j","k","l","m","n","o","p","q","r","s","t","u","v","w","x","y","z">>
UpperSeq == <<"A","B","C","D","E","F","G","H","I","J","K","L","M","N","O","P","Q","R","S","T","U","V","W","X","Y","Z">>
Lower == {LowerSeq[i] : i \in 1..26}
Upper == {UpperSeq[i] : i \in 1..26}
Alpha == Lower \cup Upper
LowFn == [x \in Upper |-> LowerSeq[CHOOSE i \in 1..26 : UpperSeq[i] = x]]
LowCh(x) == IF x \in Upper THEN LowFn[x] ELSE x
LowSeq(cs) == [i \in 1..Len(cs) |-> LowCh(cs[i])]

TZLead == Alpha \cup {".", "_"}
TZChar == TZLead \cup Digit \cup {"-", "+"}
AKeyLead == Lower \cup {"_"}
AKeyChar == AKeyLead \cup Digit \cup {"-"}
AValChar == Alpha \cup Digit
MinusSign == "U+2212"      \* proposal revisions differ on U+2212 as a sign: nothing is asserted for strings containing it

\* calendars: identifiers Calendar::from_str accepts today; aliases / ids on which revisions differ are unasserted
KnownCalSeq == <<"iso8601", "gregory", "japanese", "buddhist", "chinese", "coptic", "dangi", "ethioaa", "ethiopic", "hebrew",
                 "indian", "islamic", "islamic-civil", "islamic-tbla", "islamic-umalqura", "persian", "roc", "japanext">>
KnownCals == {KnownCalSeq[i] : i \in 1..Len(KnownCalSeq)}
AliasCals == {"islamicc", "gregorian", "ethiopic-amete-alem", "islamic-rgsa", "julian"}
KnownCalChars == {Chars(k) : k \in KnownCals}
AliasCalChars == {Chars(k) : k \in AliasCals}
UCa == <<"u", "-", "c", "a">>

(* ======================= Part 2: recognizer ======================= *)
Fail(w) == [ok |-> FALSE, why |-> w, late |-> FALSE]
\* a failure after the date/time part was read completely (annotations, ambiguity rule): the production did apply
Late(f) == [f EXCEPT !.late = TRUE]
Ch(c, i) == IF i >= 1 /\ i <= Len(c) THEN c[i] ELSE ""
IsD(c, i) == Ch(c, i) \in Digit
N2(c, i) == IF IsD(c, i) /\ IsD(c, i + 1) THEN DVal[c[i]] * 10 + DVal[c[i + 1]] ELSE -1
RECURSIVE DV(_, _, _)
DV(c, a, b) == IF b < a THEN 0 ELSE DV(c, a, b - 1) * 10 + DVal[c[b]]        \* at most 9 digits
RECURSIVE Run(_, _)
Run(c, k) == IF IsD(c, k) THEN 1 + Run(c, k + 1) ELSE 0                      \* length of the digit run starting at k
RECURSIVE BigDigits(_, _, _)
BigDigits(c, a, b) == IF b < a THEN Zero ELSE Add(MulSmall(BigDigits(c, a, b - 1), 10), FromInt(DVal[c[b]]))

\* DateYear: four digits, or sign + six digits (not -000000)
YearAt(c, i) ==
  IF Ch(c, i) \in {"+", "-"} THEN
    IF \A k \in 1..6 : IsD(c, i + k) THEN
      LET v == DV(c, i + 1, i + 6)
      IN IF c[i] = "-" /\ v = 0 THEN Fail("negative-zero-year")
         ELSE [ok |-> TRUE, j |-> i + 7, y |-> IF c[i] = "-" THEN -v ELSE v, six |-> TRUE]
    ELSE Fail("year-digits")
  ELSE IF \A k \in 0..3 : IsD(c, i + k) THEN [ok |-> TRUE, j |-> i + 4, y |-> DV(c, i, i + 3), six |-> FALSE]
  ELSE Fail("year-digits")

\* Date: DateYear [-] MM [-] DD, both separators or none; day valid for the month of that year
DateAt(c, i) ==
  LET yr == YearAt(c, i) IN
  IF ~yr.ok THEN yr ELSE
  LET ext == Ch(c, yr.j) = "-"
      mi == IF ext THEN yr.j + 1 ELSE yr.j
      m == N2(c, mi)
  IN IF m < 0 THEN Fail("month-digits")
     ELSE IF m < 1 \/ m > 12 THEN Fail("month-range")
     ELSE IF ext /\ Ch(c, mi + 2) # "-" THEN Fail(IF IsD(c, mi + 2) THEN "date-separator-mixing" ELSE "date-incomplete")
     ELSE IF ~ext /\ Ch(c, mi + 2) = "-" THEN Fail("date-separator-mixing")
     ELSE LET di == IF ext THEN mi + 3 ELSE mi + 2
              d == N2(c, di)
          IN IF d < 0 THEN Fail(IF Ch(c, di) = "" THEN "date-incomplete" ELSE "day-digits")
             ELSE IF d < 1 \/ d > 31 THEN Fail("day-range")
             ELSE IF d > DIM(yr.y, m) THEN Fail("day-exceeds-month")
             ELSE [ok |-> TRUE, j |-> di + 2, y |-> yr.y, m |-> m, d |-> d, ext |-> ext]

NoFrac(k) == [ok |-> TRUE, j |-> k, has |-> FALSE, fr |-> 0, nd |-> 0]
\* optional fraction: . or , followed by 1..9 digits; value in units of 10^-9
FracAt(c, k) ==
  IF Ch(c, k) \notin {".", ","} THEN NoFrac(k)
  ELSE LET n == Run(c, k + 1)
       IN IF n = 0 THEN Fail("fraction-no-digits")
          ELSE IF n > 9 THEN Fail("fraction-over-9-digits")
          ELSE [ok |-> TRUE, j |-> k + 1 + n, has |-> TRUE, fr |-> DV(c, k + 1, k + n) * Pow10I(9 - n), nd |-> n]

TimeRec(j, h, mi, s, f, form) == [ok |-> TRUE, j |-> j, h |-> h, mi |-> mi, s |-> s, fr |-> f.fr, hasfr |-> f.has, form |-> form]
\* Time: HH | HH:MM | HHMM | HH:MM:SS[frac] | HHMMSS[frac]
TimeAt(c, i) ==
  LET h == N2(c, i) IN
  IF h < 0 THEN Fail("hour-digits")
  ELSE IF h > 23 THEN Fail(IF h = 24 THEN "hour-24" ELSE "hour-range")
  ELSE IF Ch(c, i + 2) = ":" THEN
    LET mi == N2(c, i + 3) IN
    IF mi < 0 \/ mi > 59 THEN Fail("minute")
    ELSE IF Ch(c, i + 5) = ":" THEN
      LET s == N2(c, i + 6) IN
      IF s < 0 \/ s > 60 THEN Fail("second")
      ELSE LET f == FracAt(c, i + 8) IN IF ~f.ok THEN f ELSE TimeRec(f.j, h, mi, s, f, "H:M:S")
    ELSE IF IsD(c, i + 5) THEN Fail("time-separator-mixing")
    ELSE TimeRec(i + 5, h, mi, 0, NoFrac(0), "H:M")
  ELSE IF IsD(c, i + 2) THEN
    LET mi == N2(c, i + 2) IN
    IF mi < 0 \/ mi > 59 THEN Fail("minute")
    ELSE IF IsD(c, i + 4) THEN
      LET s == N2(c, i + 4) IN
      IF s < 0 \/ s > 60 THEN Fail("second")
      ELSE LET f == FracAt(c, i + 6) IN IF ~f.ok THEN f ELSE TimeRec(f.j, h, mi, s, f, "HMS")
    ELSE IF Ch(c, i + 4) = ":" THEN Fail("time-separator-mixing")
    ELSE TimeRec(i + 4, h, mi, 0, NoFrac(0), "HM")
  ELSE TimeRec(i + 2, h, 0, 0, NoFrac(0), "H")

OffRec(j, sg, h, m, s, fr, sub, form) ==
  [ok |-> TRUE, j |-> j, k |-> "num", sg |-> sg, h |-> h, m |-> m, s |-> s, fr |-> fr, sub |-> sub, form |-> form]
\* numeric UTC offset at i (c[i] is + or -): +HH | +HH:MM | +HHMM | +HH:MM:SS[frac] | +HHMMSS[frac]
OffAt(c, i) ==
  LET sg == IF c[i] = "-" THEN -1 ELSE 1
      h == N2(c, i + 1) IN
  IF h < 0 \/ h > 23 THEN Fail("offset-hour")
  ELSE IF Ch(c, i + 3) = ":" THEN
    LET m == N2(c, i + 4) IN
    IF m < 0 \/ m > 59 THEN Fail("offset-minute")
    ELSE IF Ch(c, i + 6) = ":" THEN
      LET s == N2(c, i + 7) IN
      IF s < 0 \/ s > 59 THEN Fail("offset-second")
      ELSE LET f == FracAt(c, i + 9) IN IF ~f.ok THEN Fail("offset-" \o f.why) ELSE OffRec(f.j, sg, h, m, s, f.fr, TRUE, "H:M:S")
    ELSE IF IsD(c, i + 6) THEN Fail("offset-separator-mixing")
    ELSE OffRec(i + 6, sg, h, m, 0, 0, FALSE, "H:M")
  ELSE IF IsD(c, i + 3) THEN
    LET m == N2(c, i + 3) IN
    IF m < 0 \/ m > 59 THEN Fail("offset-minute")
    ELSE IF IsD(c, i + 5) THEN
      LET s == N2(c, i + 5) IN
      IF s < 0 \/ s > 59 THEN Fail("offset-second")
      ELSE LET f == FracAt(c, i + 7) IN IF ~f.ok THEN Fail("offset-" \o f.why) ELSE OffRec(f.j, sg, h, m, s, f.fr, TRUE, "HMS")
    ELSE IF Ch(c, i + 5) = ":" THEN Fail("offset-separator-mixing")
    ELSE OffRec(i + 5, sg, h, m, 0, 0, FALSE, "HM")
  ELSE OffRec(i + 3, sg, h, 0, 0, 0, FALSE, "H")
NoOff(j) == [ok |-> TRUE, j |-> j, k |-> "none"]
ZOff(j) == [ok |-> TRUE, j |-> j, k |-> "z"]
\* optional DateTimeUTCOffset at i
AnyOffAt(c, i) == IF Ch(c, i) \in {"Z", "z"} THEN ZOff(i + 1)
                  ELSE IF Ch(c, i) \in {"+", "-"} THEN OffAt(c, i) ELSE NoOff(i)
OffMinutes(o) == o.sg * (o.h * 60 + o.m)
OffsetText(min) == (IF min < 0 THEN "-" ELSE "+") \o Pad2(AbsI(min) \div 60) \o ":" \o Pad2(AbsI(min) % 60)

(* ---- annotations ---- *)
RECURSIVE FindClose(_, _)
FindClose(c, k) == IF k > Len(c) THEN 0 ELSE IF c[k] = "]" THEN k ELSE FindClose(c, k + 1)
RECURSIVE Groups(_, _)
\* bracket groups from p on, and what stops the sequence ("" = end of input)
Groups(c, p) ==
  IF p > Len(c) THEN [gs |-> <<>>, tail |-> ""]
  ELSE IF c[p] # "[" THEN [gs |-> <<>>, tail |-> IF Len(c[p]) > 1 THEN "non-ascii" ELSE "trailing-junk"]
  ELSE LET q == FindClose(c, p + 1) IN
       IF q = 0 THEN [gs |-> <<>>, tail |-> "annotation-unclosed"]
       ELSE LET r == Groups(c, q + 1) IN [gs |-> <<[a |-> p + 1, b |-> q - 1]>> \o r.gs, tail |-> r.tail]

KeyOK(c, a, b) == a <= b /\ c[a] \in AKeyLead /\ \A k \in (a + 1)..b : c[k] \in AKeyChar
ValOK(c, a, b) == /\ a <= b
                  /\ \A k \in a..b : c[k] \in AValChar \cup {"-"}
                  /\ c[a] # "-" /\ c[b] # "-"
                  /\ \A k \in a..(b - 1) : ~(c[k] = "-" /\ c[k + 1] = "-")
NameOK(c, a, b) == /\ a <= b
                   /\ \A k \in a..b : c[k] \in TZChar \cup {"/"}
                   /\ c[a] \in TZLead /\ c[b] # "/"
                   /\ \A k \in a..(b - 1) : c[k] = "/" => c[k + 1] \in TZLead

\* one bracket group; only the first one may be a time-zone annotation
Ann(c, g, first) ==
  LET crit == Ch(c, g.a) = "!"
      a == IF crit THEN g.a + 1 ELSE g.a
      b == g.b
      eqs == {k \in a..b : c[k] = "="}
  IN IF a > b THEN Fail("annotation-empty")
     ELSE IF eqs # {} THEN
       LET e == MinOf(eqs) IN
       IF ~KeyOK(c, a, e - 1) THEN Fail("annotation-key")
       ELSE IF ~ValOK(c, e + 1, b) THEN Fail("annotation-value")
       ELSE [ok |-> TRUE, k |-> "kv", key |-> SubSeq(c, a, e - 1), val |-> SubSeq(c, e + 1, b), crit |-> crit]
     ELSE IF ~first THEN Fail("time-zone-annotation-not-first")
     ELSE IF c[a] \in {"+", "-"} THEN
       LET o == OffAt(c, a) IN
       IF ~o.ok THEN Fail("tz-annotation-" \o o.why)
       ELSE IF o.j # b + 1 THEN Fail("tz-annotation-offset-junk")
       ELSE IF o.sub THEN Fail("tz-annotation-sub-minute-offset")
       ELSE [ok |-> TRUE, k |-> "tz", tzk |-> "offset", min |-> OffMinutes(o), crit |-> crit, form |-> o.form]
     ELSE IF ~NameOK(c, a, b) THEN Fail("tz-annotation-name")
     ELSE [ok |-> TRUE, k |-> "tz", tzk |-> "name", id |-> SubSeq(c, a, b), crit |-> crit]

\* a hyphen-separated component of one character inside a longer annotation value
OneCharComponent(v) == Len(v) > 1 /\ \E k \in 1..Len(v) : v[k] # "-" /\ (k = 1 \/ v[k - 1] = "-") /\ (k = Len(v) \/ v[k + 1] = "-")
NoTz == [k |-> "none"]
\* everything from position p to the end: [tz annotation] annotations*; calendar = first u-ca (lower-cased), <<>> if none
AnnotsAt(c, p) ==
  LET g == Groups(c, p)
      n == Len(g.gs)
      as == [k \in 1..n |-> Ann(c, g.gs[k], k = 1)]
      bad == {k \in 1..n : ~as[k].ok}
  IN IF bad # {} THEN as[MinOf(bad)]          \* failures are reported in reading order
     ELSE IF g.tail # "" THEN Fail(g.tail) ELSE
     LET cals == {k \in 1..n : as[k].k = "kv" /\ as[k].key = UCa}
         unk == {k \in 1..n : as[k].k = "kv" /\ as[k].key # UCa}
     IN IF \E k \in unk : as[k].crit THEN Fail("unknown-critical-annotation")
        ELSE IF \E k1, k2 \in cals : k1 # k2 /\ as[k1].crit THEN Fail("calendar-annotations-critical-conflict")
        ELSE [ok |-> TRUE,
              tz |-> IF n >= 1 /\ as[1].k = "tz" THEN as[1] ELSE NoTz,
              cal |-> IF cals = {} THEN <<>> ELSE LowSeq(as[MinOf(cals)].val),
              ncal |-> Cardinality(cals), nunk |-> Cardinality(unk),
              k1 |-> \E k \in 1..n : as[k].k = "kv" /\ Len(as[k].key) = 1,
              v1 |-> \E k \in 1..n : as[k].k = "kv" /\ Len(as[k].val) = 1,
              vc1 |-> \E k \in 1..n : as[k].k = "kv" /\ OneCharComponent(as[k].val)]

(* ---- the four date/time productions; each returns a parse record R ---- *)
NoTime == [has |-> FALSE, h |-> 0, mi |-> 0, s |-> 0, fr |-> 0]
TimeOf(t) == [has |-> TRUE, h |-> t.h, mi |-> t.mi, s |-> t.s, fr |-> t.fr]
OffOf(o) == IF o.k = "num" THEN [k |-> "num", sg |-> o.sg, h |-> o.h, m |-> o.m, s |-> o.s, fr |-> o.fr, sub |-> o.sub]
            ELSE [k |-> o.k]
TzOf(t) == IF t.k = "none" THEN NoTz
           ELSE IF t.tzk = "offset" THEN [k |-> "offset", min |-> t.min, crit |-> t.crit]
           ELSE [k |-> "name", id |-> t.id, crit |-> t.crit]
PRec(form, date, time, off, a, des) ==
  [ok |-> TRUE, form |-> form, date |-> date, time |-> time, off |-> off, tz |-> TzOf(a.tz), cal |-> a.cal,
   des |-> des, k1 |-> a.k1, v1 |-> a.v1, vc1 |-> a.vc1]

\* AnnotatedDateTime: Date [sep Time [offset]] annotations
ParseDT(c) ==
  LET d == DateAt(c, 1) IN
  IF ~d.ok THEN d ELSE
  IF Ch(c, d.j) \in {"T", "t", " "} THEN
    LET t == TimeAt(c, d.j + 1) IN
    IF ~t.ok THEN t ELSE
    LET o == AnyOffAt(c, t.j) IN
    IF ~o.ok THEN o ELSE
    LET a == AnnotsAt(c, o.j) IN
    IF ~a.ok THEN Late(a) ELSE PRec("dt", Date(d.y, d.m, d.d), TimeOf(t), OffOf(o), a, FALSE)
  ELSE LET a == AnnotsAt(c, d.j) IN
       IF ~a.ok THEN Late(a) ELSE PRec("dt", Date(d.y, d.m, d.d), NoTime, [k |-> "none"], a, FALSE)

\* DateSpecYearMonth / DateSpecMonthDay spanning exactly c[1..e] (used for the ambiguity rule of time strings)
IsYMSpan(c, e) == LET yr == YearAt(c, 1) IN
                  yr.ok /\ LET mi == IF Ch(c, yr.j) = "-" THEN yr.j + 1 ELSE yr.j
                           IN N2(c, mi) \in 1..12 /\ mi + 1 = e
IsMDSpan(c, e) == LET m == N2(c, 1)
                      di == IF Ch(c, 3) = "-" THEN 4 ELSE 3
                  IN m \in 1..12 /\ N2(c, di) >= 1 /\ N2(c, di) <= DIM(1972, m) /\ di + 1 = e

\* AnnotatedTime: [T] Time [offset] annotations; without T it must not read as a year-month or month-day
ParseTimeForm(c) ==
  LET des == Ch(c, 1) \in {"T", "t"}
      t == TimeAt(c, IF des THEN 2 ELSE 1) IN
  IF ~t.ok THEN t ELSE
  LET o == AnyOffAt(c, t.j) IN
  IF ~o.ok THEN o ELSE
  LET a == AnnotsAt(c, o.j) IN
  IF ~a.ok THEN Late(a)
  ELSE IF ~des /\ IsYMSpan(c, o.j - 1) THEN Late(Fail("time-ambiguous-with-year-month"))
  ELSE IF ~des /\ IsMDSpan(c, o.j - 1) THEN Late(Fail("time-ambiguous-with-month-day"))
  ELSE PRec("time", Date(0, 0, 0), TimeOf(t), OffOf(o), a, des)

\* AnnotatedYearMonth: DateYear [-] MM annotations
ParseYMForm(c) ==
  LET yr == YearAt(c, 1) IN
  IF ~yr.ok THEN yr ELSE
  LET mi == IF Ch(c, yr.j) = "-" THEN yr.j + 1 ELSE yr.j
      m == N2(c, mi)
  IN IF m < 0 THEN Fail("month-digits") ELSE IF m < 1 \/ m > 12 THEN Fail("month-range")
     ELSE LET a == AnnotsAt(c, mi + 2) IN
          IF ~a.ok THEN Late(a) ELSE PRec("ym", Date(yr.y, m, 1), NoTime, [k |-> "none"], a, FALSE)

\* AnnotatedMonthDay: [--] MM [-] DD annotations (day valid in a leap year)
ParseMDForm(c) ==
  LET i0 == IF Ch(c, 1) = "-" /\ Ch(c, 2) = "-" THEN 3 ELSE 1
      m == N2(c, i0)
  IN IF m < 0 THEN Fail("month-digits") ELSE IF m < 1 \/ m > 12 THEN Fail("month-range")
     ELSE LET di == IF Ch(c, i0 + 2) = "-" THEN i0 + 3 ELSE i0 + 2
              d == N2(c, di)
          IN IF d < 0 THEN Fail("day-digits") ELSE IF d < 1 \/ d > 31 THEN Fail("day-range")
             ELSE IF d > DIM(1972, m) THEN Fail("day-exceeds-month")
             ELSE LET a == AnnotsAt(c, di + 2) IN
                  IF ~a.ok THEN Late(a) ELSE PRec("md", Date(1972, m, d), NoTime, [k |-> "none"], a, i0 = 3)

(* ---- durations ---- *)
DurRank(inT, x) == LET u == LowCh(x) IN
  IF ~inT THEN (CASE u = "y" -> 1 [] u = "m" -> 2 [] u = "w" -> 3 [] u = "d" -> 4 [] OTHER -> 0)
  ELSE (CASE u = "h" -> 5 [] u = "m" -> 6 [] u = "s" -> 7 [] OTHER -> 0)
RECURSIVE DurScan(_, _, _, _)
DurScan(c, i, inT, rank) ==
  IF i > Len(c) THEN [ok |-> TRUE, ps |-> <<>>]
  ELSE IF ~inT /\ c[i] \in {"T", "t"} THEN
    (IF ~IsD(c, i + 1) THEN Fail("duration-T-without-time-part") ELSE DurScan(c, i + 1, TRUE, 4))
  ELSE LET n == Run(c, i) IN
    IF n = 0 THEN Fail(IF Len(c[i]) > 1 THEN "non-ascii" ELSE "duration-junk") ELSE
    LET f == FracAt(c, i + n) IN
    IF ~f.ok THEN Fail("duration-" \o f.why) ELSE
    LET r == DurRank(inT, Ch(c, f.j)) IN
    IF r = 0 THEN Fail("duration-designator")
    ELSE IF r = rank THEN Fail("duration-unit-repeated")
    ELSE IF r < rank THEN Fail("duration-unit-order")
    ELSE IF f.has /\ ~inT THEN Fail("duration-fraction-on-date-unit")
    ELSE IF f.has /\ f.j < Len(c) THEN Fail("duration-fraction-not-on-last-unit")
    ELSE LET rest == DurScan(c, f.j + 1, inT, r) IN
         IF ~rest.ok THEN rest
         ELSE [ok |-> TRUE, ps |-> <<[r |-> r, v |-> BigDigits(c, i, i + n - 1), fr |-> f.fr, hasfr |-> f.has]>> \o rest.ps]

Two32 == Add(MulSmall(FromInt(65536), 65536), Zero)
Two53Ns == K9([s |-> 1, l |-> <<992, 5474, 1992, 9007>>])          \* 2^53 seconds in nanoseconds
DurTotalNs(D) == Add(K9(MulSmall(D.d, 86400)), TimeNs(D))
DurValid(D) == /\ Lt(Abs(D.y), Two32) /\ Lt(Abs(D.mo), Two32) /\ Lt(Abs(D.w), Two32)
               /\ Lt(Abs(DurTotalNs(D)), Two53Ns)
\* split an exact number of nanoseconds (big, >= 0, < 3600e9) into [mi, s, ms, us, ns]
SplitNs(b) == LET a1 == TruncDivSmall(b, 1000)
                  a2 == TruncDivSmall(a1.q, 1000)
                  a3 == TruncDivSmall(a2.q, 1000)
                  secs == ToInt(a3.q)
              IN [mi |-> secs \div 60, s |-> secs % 60, ms |-> a3.r, us |-> a2.r, ns |-> a1.r]
ParseDur(c) ==
  LET sgn == Ch(c, 1) \in {"+", "-"}
      i0 == IF sgn THEN 2 ELSE 1 IN
  IF Ch(c, i0) \notin {"P", "p"} THEN Fail(IF Len(Ch(c, i0)) > 1 THEN "non-ascii" ELSE "duration-designator-P")
  ELSE IF i0 = Len(c) THEN Fail("duration-empty")
  ELSE LET sc == DurScan(c, i0 + 1, FALSE, 0) IN
  IF ~sc.ok THEN sc ELSE
  LET ps == sc.ps
      get(r) == LET S == {k \in 1..Len(ps) : ps[k].r = r} IN IF S = {} THEN Zero ELSE ps[MinOf(S)].v
      fs == {k \in 1..Len(ps) : ps[k].hasfr}
      fp == IF fs = {} THEN [r |-> 0, fr |-> 0] ELSE ps[MinOf(fs)]
      sub == IF fp.r = 5 THEN SplitNs(MulSmall(FromInt(fp.fr), 3600))
             ELSE IF fp.r = 6 THEN SplitNs(MulSmall(FromInt(fp.fr), 60))
             ELSE SplitNs(FromInt(fp.fr))
      sg == IF sgn /\ c[1] = "-" THEN -1 ELSE 1
      S(b) == IF sg = -1 THEN Neg(b) ELSE b
      D == Dur10(S(get(1)), S(get(2)), S(get(3)), S(get(4)), S(get(5)),
                 S(IF fp.r = 5 THEN FromInt(sub.mi) ELSE get(6)),
                 S(IF fp.r \in {5, 6} THEN FromInt(sub.s) ELSE get(7)),
                 S(FromInt(sub.ms)), S(FromInt(sub.us)), S(FromInt(sub.ns)))
  IN [ok |-> TRUE, form |-> "dur", dur |-> D, fr |-> fp.r, n |-> Len(ps)]

(* ---- small goals ---- *)
\* UTC offset string (whole string)
ParseOffsetStr(c) ==
  IF Ch(c, 1) \notin {"+", "-"} THEN Fail(IF Len(Ch(c, 1)) > 1 THEN "non-ascii" ELSE "offset-sign")
  ELSE LET o == OffAt(c, 1) IN
       IF ~o.ok THEN o ELSE IF o.j # Len(c) + 1 THEN Fail("offset-trailing-junk") ELSE o
\* month code: M dd [L]
ParseMonthCode(c) ==
  IF Len(c) \notin {3, 4} THEN Fail("month-code-length")
  ELSE IF c[1] # "M" THEN Fail("month-code-M")
  ELSE IF N2(c, 2) < 0 THEN Fail("month-code-digits")
  ELSE IF Len(c) = 4 /\ c[4] # "L" THEN Fail("month-code-L")
  ELSE [ok |-> TRUE, n |-> N2(c, 2), leap |-> Len(c) = 4]

(* ======================= per-type rules ======================= *)
Types == {"PlainDate", "PlainDateTime", "PlainTime", "PlainYearMonth", "PlainMonthDay", "Instant", "ZonedDateTime", "Duration"}
Accept(v) == [kind |-> "ok", val |-> v, why |-> ""]
AcceptNoVal(w) == [kind |-> "ok", why |-> w]              \* accepted; the value is outside what this specification computes
Reject(w) == [kind |-> "range", why |-> w]
Unasserted(w) == [kind |-> "any", why |-> w]

CalStatus(R) == IF R.cal = <<>> \/ R.cal \in KnownCalChars THEN "known"
                ELSE IF R.cal \in AliasCalChars THEN "alias" ELSE "unknown"
CalId(R) == IF R.cal = <<>> THEN "iso8601" ELSE CHOOSE k \in KnownCals : Chars(k) = R.cal
IsIso(R) == R.cal = <<>> \/ R.cal = Chars("iso8601")

Sec(t) == IF t.s = 60 THEN 59 ELSE t.s                   \* a leap second reads as :59
Sod(t) == t.h * 3600 + t.mi * 60 + Sec(t)
TimeVal(t) == [h |-> t.h, mi |-> t.mi, s |-> Sec(t), ms |-> t.fr \div 1000000, us |-> (t.fr \div 1000) % 1000, ns |-> t.fr % 1000]
DateTimeInRange(n, t) == (n > MinDay /\ n <= MaxDay) \/ (n = MinDay /\ (Sod(t) > 0 \/ t.fr > 0))
YMInRange(y, m) == (y > -271821 \/ (y = -271821 /\ m >= 4)) /\ (y < 275760 \/ (y = 275760 /\ m <= 9))

NsMaxInstant == K9(MulSmall(FromInt(100000000), 86400))
\* exact epoch nanoseconds of (day number n, second of day sod, ns) shifted back by (offsec seconds, offns)
EpochNs(n, sod, ns, offsec, offns) ==
  Add(K9(Add(MulSmall(FromInt(n), 86400), FromInt(sod - offsec))), FromInt(ns - offns))
InstantOK(b) == Le(Abs(b), NsMaxInstant)
OffSec(o) == o.sg * (o.h * 3600 + o.m * 60 + o.s)
OffNs(o) == o.sg * o.fr

\* first form that matches, for goals with two productions; the reported reason of a double failure is the
\* date-time one when the string starts like a full date, otherwise the short form's
TwoForms(short, c) == IF short.ok THEN short
                      ELSE LET dt == ParseDT(c) IN
                           IF dt.ok THEN dt ELSE IF DateAt(c, 1).ok THEN dt ELSE short

HasMinus(c) == \E k \in 1..Len(c) : c[k] = MinusSign
NonAscii(c) == \E k \in 1..Len(c) : Len(c[k]) > 1

DateOutcome(R) ==
  IF R.off.k = "z" THEN Reject("utc-designator-on-plain-type")
  ELSE IF CalStatus(R) = "alias" THEN Unasserted("calendar-alias")
  ELSE IF CalStatus(R) = "unknown" THEN Reject("unknown-calendar")
  ELSE IF ~InDateRange(DFC(R.date)) THEN Reject("date-outside-limits")
  ELSE Accept([y |-> R.date.y, m |-> R.date.m, d |-> R.date.d, cal |-> CalId(R)])
DateTimeOutcome(R) ==
  IF R.off.k = "z" THEN Reject("utc-designator-on-plain-type")
  ELSE IF CalStatus(R) = "alias" THEN Unasserted("calendar-alias")
  ELSE IF CalStatus(R) = "unknown" THEN Reject("unknown-calendar")
  ELSE IF ~DateTimeInRange(DFC(R.date), R.time) THEN Reject("date-time-outside-limits")
  ELSE Accept([y |-> R.date.y, m |-> R.date.m, d |-> R.date.d, cal |-> CalId(R)] @@ TimeVal(R.time))
TimeOutcome(R) ==
  IF R.form = "dt" /\ ~R.time.has THEN Reject("time-string-without-time")
  ELSE IF R.off.k = "z" THEN Reject("utc-designator-on-plain-type")
  ELSE Accept(TimeVal(R.time))
YearMonthOutcome(R) ==
  IF R.off.k = "z" THEN Reject("utc-designator-on-plain-type")
  ELSE IF R.form = "ym" /\ ~IsIso(R) THEN Reject("non-iso-calendar-on-year-month-string")
  ELSE IF CalStatus(R) = "alias" THEN Unasserted("calendar-alias")
  ELSE IF CalStatus(R) = "unknown" THEN Reject("unknown-calendar")
  ELSE IF ~YMInRange(R.date.y, R.date.m) THEN Reject("year-month-outside-limits")
  ELSE IF ~IsIso(R) THEN AcceptNoVal("full-date-with-non-iso-calendar")
  ELSE Accept([y |-> R.date.y, m |-> R.date.m, cal |-> "iso8601"])
MonthDayOutcome(R) ==
  IF R.off.k = "z" THEN Reject("utc-designator-on-plain-type")
  ELSE IF R.form = "md" /\ ~IsIso(R) THEN Reject("non-iso-calendar-on-month-day-string")
  ELSE IF CalStatus(R) = "alias" THEN Unasserted("calendar-alias")
  ELSE IF CalStatus(R) = "unknown" THEN Reject("unknown-calendar")
  \* ISO calendar: the year of a full date is dropped (reference year 1972), so the date need not lie within the limits of a
  \* PlainDate (ToTemporalMonthDay checks ISODateWithinLimits only on the non-ISO path); for other calendars nothing is asserted there
  ELSE IF R.form = "dt" /\ ~IsIso(R) /\ ~InDateRange(DFC(R.date)) THEN Unasserted("month-day-from-date-outside-limits")
  ELSE IF ~IsIso(R) THEN AcceptNoVal("full-date-with-non-iso-calendar")
  ELSE Accept([m |-> R.date.m, d |-> R.date.d, cal |-> "iso8601"])
InstantOutcome(R) ==
  IF ~R.time.has THEN Reject("instant-without-time")
  ELSE IF R.off.k = "none" THEN Reject("instant-without-offset")
  ELSE LET o == R.off
           b == IF o.k = "z" THEN EpochNs(DFC(R.date), Sod(R.time), R.time.fr, 0, 0)
                ELSE EpochNs(DFC(R.date), Sod(R.time), R.time.fr, OffSec(o), OffNs(o))
       IN IF ~InstantOK(b) THEN Reject("instant-outside-limits") ELSE Accept(b)
ZonedOutcome(R) ==
  IF R.tz.k = "none" THEN Reject("zoned-without-time-zone-annotation")
  ELSE IF CalStatus(R) = "alias" THEN Unasserted("calendar-alias")
  ELSE IF CalStatus(R) = "unknown" THEN Reject("unknown-calendar")
  ELSE IF R.tz.k = "name" /\ R.tz.id # Chars("UTC") THEN Unasserted("named-time-zone")
  ELSE LET zmin == IF R.tz.k = "offset" THEN R.tz.min ELSE 0
           o == R.off
           mismatch == o.k = "num" /\ ~(OffSec(o) = zmin * 60 /\ o.fr = 0)
           b == IF o.k = "z" THEN EpochNs(DFC(R.date), Sod(R.time), R.time.fr, 0, 0)
                ELSE EpochNs(DFC(R.date), Sod(R.time), R.time.fr, zmin * 60, 0)
       IN IF mismatch THEN Reject("offset-does-not-match-time-zone")
          \* InterpretISODateTimeOffset step 7 (offset option reject): CheckISODaysRange of the WALL date, so the first local day of the
          \* range in a zone west of UTC (-271821-04-19) cannot be read with an explicit offset although its instant is valid
          ELSE IF o.k = "num" /\ (DFC(R.date) < -100000000 \/ DFC(R.date) > 100000000) THEN Reject("wall-date-outside-iso-days-range")
          ELSE IF ~InstantOK(b) THEN Reject("instant-outside-limits")
          ELSE Accept([ns |-> b, tz |-> IF R.tz.k = "offset" THEN Chars(OffsetText(zmin)) ELSE R.tz.id, cal |-> CalId(R)])

\* which production a goal reads the string with
ParseFor(goal, c) ==
  CASE goal \in {"PlainDate", "PlainDateTime", "Instant", "ZonedDateTime"} -> ParseDT(c)
    [] goal = "PlainTime" -> TwoForms(ParseTimeForm(c), c)
    [] goal = "PlainYearMonth" -> TwoForms(ParseYMForm(c), c)
    [] goal = "PlainMonthDay" -> TwoForms(ParseMDForm(c), c)
    [] goal = "Duration" -> ParseDur(c)

\* first production that reads the whole string as some ISO date/time string, else the most informative failure
AnyIsoForm(c) ==
  LET dt == ParseDT(c)
      tm == ParseTimeForm(c)
      ym == ParseYMForm(c)
      md == ParseMDForm(c)
  IN IF dt.ok THEN dt ELSE IF tm.ok THEN tm ELSE IF ym.ok THEN ym ELSE IF md.ok THEN md
     ELSE IF DateAt(c, 1).ok THEN dt ELSE IF tm.late THEN tm ELSE IF ym.late THEN ym ELSE IF md.late THEN md ELSE Fail("not-an-iso-string")
TzIdOutcome(c) ==
  IF Ch(c, 1) \in {"+", "-"} THEN
    LET o == ParseOffsetStr(c) IN
    IF ~o.ok THEN Reject(o.why) ELSE IF o.sub THEN Reject("sub-minute-offset-as-time-zone")
    ELSE Accept([k |-> "offset", min |-> OffMinutes(o), str |-> Chars(OffsetText(OffMinutes(o)))])
  ELSE IF c = <<"Z">> THEN Unasserted("Z-as-identifier")
  ELSE IF NameOK(c, 1, Len(c)) THEN Accept([k |-> "name", str |-> c])
  ELSE Reject(IF NonAscii(c) THEN "non-ascii" ELSE "time-zone-name")

\* ParseTemporalTimeZoneString: an identifier, else any ISO string carrying a bracketed zone, Z or an offset
TimeZoneOutcome(c) ==
  LET id == TzIdOutcome(c) IN
  IF id.kind # "range" THEN id ELSE
  LET R == AnyIsoForm(c)
  IN IF ~R.ok THEN Reject(IF R.why = "not-an-iso-string" THEN id.why ELSE R.why)
     ELSE IF R.tz.k = "offset" THEN Accept([k |-> "offset", min |-> R.tz.min, str |-> Chars(OffsetText(R.tz.min))])
     ELSE IF R.tz.k = "name" THEN Accept([k |-> "name", str |-> R.tz.id])
     ELSE IF R.off.k = "z" THEN Accept([k |-> "name", str |-> Chars("UTC")])
     ELSE IF R.off.k = "num" THEN
       (IF R.off.sub THEN Reject("sub-minute-offset-as-time-zone")
        ELSE Accept([k |-> "offset", min |-> OffMinutes(R.off), str |-> Chars(OffsetText(OffMinutes(R.off)))]))
     ELSE Reject("no-time-zone-in-string")

\* ParseTemporalCalendarString: a calendar identifier, else the calendar annotation of any ISO string (default iso8601)
CalendarOutcome(c) ==
  IF LowSeq(c) \in KnownCalChars THEN Accept(LowSeq(c))
  ELSE IF LowSeq(c) \in AliasCalChars THEN Unasserted("calendar-alias")
  ELSE LET R == AnyIsoForm(c) IN
       IF ~R.ok THEN Reject(IF R.why = "not-an-iso-string" THEN "unknown-calendar" ELSE R.why)
       ELSE IF CalStatus(R) = "alias" THEN Unasserted("calendar-alias")
       ELSE IF CalStatus(R) = "unknown" THEN Reject("unknown-calendar")
       ELSE Accept(IF R.cal = <<>> THEN Chars("iso8601") ELSE R.cal)

Outcome(goal, c) ==
  IF HasMinus(c) THEN Unasserted("U+2212-sign")
  ELSE IF goal = "UtcOffset" THEN
    LET o == ParseOffsetStr(c) IN
    \* UTCOffset[+SubMinutePrecision] (the offset field of a property bag): a seconds part with up to nine fraction digits is grammatical and
    \* must be accepted; which minute value an implementation with minute precision keeps for it is not asserted
    IF ~o.ok THEN Reject(o.why) ELSE IF o.sub THEN AcceptNoVal("sub-minute-utc-offset")
    ELSE Accept([min |-> OffMinutes(o), str |-> Chars(OffsetText(OffMinutes(o)))])
  ELSE IF goal = "TimeZoneId" THEN TzIdOutcome(c)
  ELSE IF goal = "TimeZone" THEN TimeZoneOutcome(c)
  ELSE IF goal = "MonthCode" THEN
    LET m == ParseMonthCode(c) IN
    IF ~m.ok THEN Reject(IF NonAscii(c) THEN "non-ascii" ELSE m.why)
    ELSE IF m.n < 1 \/ m.n > 13 THEN Unasserted("month-code-number-out-of-1-13")
    ELSE Accept([str |-> c, n |-> m.n, leap |-> m.leap])
  ELSE IF goal = "Calendar" THEN CalendarOutcome(c)
  ELSE LET R == ParseFor(goal, c) IN
    IF ~R.ok THEN Reject(R.why)
    ELSE CASE goal = "PlainDate" -> DateOutcome(R)
           [] goal = "PlainDateTime" -> DateTimeOutcome(R)
           [] goal = "PlainTime" -> TimeOutcome(R)
           [] goal = "PlainYearMonth" -> YearMonthOutcome(R)
           [] goal = "PlainMonthDay" -> MonthDayOutcome(R)
           [] goal = "Instant" -> InstantOutcome(R)
           [] goal = "ZonedDateTime" -> ZonedOutcome(R)
           [] goal = "Duration" -> IF DurValid(R.dur) THEN Accept(R.dur) ELSE Reject("duration-outside-limits")

Accepts(goal, c) == Outcome(goal, c).kind = "ok"
Value(goal, c) == Outcome(goal, c).val
\* what replay / trace validation compare with: kind and (where computed) value
Expected(goal, c) == LET o == Outcome(goal, c) IN
                     IF o.kind = "ok" /\ "val" \in DOMAIN o THEN [kind |-> "ok", val |-> o.val] ELSE [kind |-> o.kind]

\* does an observed outcome agree with what the specification expects? (unasserted: any orderly outcome)
Agrees(x, out) == IF x.kind = "any" THEN out.kind \in {"ok", "range", "type", "syntax"}
                  ELSE IF "val" \in DOMAIN x THEN out = x
                  ELSE out.kind = x.kind

\* feature label of a string the specification ACCEPTS (used in class labels when the implementation disagrees)
Feature(goal, c) ==
  IF goal \in {"UtcOffset", "TimeZoneId", "MonthCode"} THEN "accepted"
  ELSE LET R == IF goal \in {"TimeZone", "Calendar"} THEN AnyIsoForm(c) ELSE ParseFor(goal, c) IN
    IF ~R.ok THEN "identifier"
    ELSE IF goal = "Duration" THEN
      (IF \E f \in {R.dur.y, R.dur.mo, R.dur.w} : Abs(f) = Sub(Two32, FromInt(1)) THEN "field-of-4294967295"
       ELSE IF R.fr = 5 THEN "fractional-hours" ELSE IF R.fr = 6 THEN "fractional-minutes" ELSE IF R.fr = 7 THEN "fractional-seconds" ELSE "integer-units")
    \* (the annotation features first: they name the cause whatever the form of the string before them)
    ELSE IF R.tz.k = "name" /\ \A k \in 1..Len(R.tz.id) : R.tz.id[k] \in AKeyChar THEN "time-zone-name-of-annotation-key-characters"
    ELSE IF R.k1 THEN "annotation-key-of-one-character"
    ELSE IF R.v1 THEN "annotation-value-of-one-character"
    ELSE IF R.vc1 THEN "annotation-value-with-one-character-component"
    ELSE IF goal \in {"PlainYearMonth", "PlainMonthDay"} /\ R.form = "dt" /\ ~IsIso(R) THEN "full-date-form-non-iso-calendar"
    \* a month-day written as a full date: the year is dropped, also when that date lies outside the limits of a PlainDate
    ELSE IF goal = "PlainMonthDay" /\ R.form = "dt" THEN (IF R.date.y < -271820 \/ R.date.y > 275759 THEN "full-date-form-year-at-limit" ELSE "full-date-form")
    ELSE IF goal = "ZonedDateTime" /\ R.off.k = "z" THEN "utc-designator-with-time-zone-annotation"
    ELSE IF goal = "ZonedDateTime" /\ R.off.k = "num" /\ R.off.m # 0 THEN "offset-with-non-zero-minutes"
    ELSE IF goal = "ZonedDateTime" /\ R.off.k = "num" /\ R.off.sub THEN "offset-with-seconds"
    ELSE IF R.time.has /\ R.time.s = 60 THEN "second-60"
    ELSE IF R.form \in {"dt", "ym"} /\ (R.date.y < -271820 \/ R.date.y > 275759) THEN "year-at-limit"
    ELSE R.form \o "-form"
\* class label of one parser observation: type / reason the specification rejects, or type / accepted-feature
ParseCls(goal, c) == LET o == Outcome(goal, c) IN
                     goal \o "/" \o (IF o.kind = "ok" THEN "accepts:" \o Feature(goal, c) ELSE o.why)

=============================================================================
