SPECIFICATION Spec
CONSTANTS
  Rels <- QRels
  Durs <- QDurs
  Opts <- QOpts
  TotalUnits <- AllTotalUnits
  OneStep = TRUE
INVARIANTS SignLaw WindowLaw DirectionLaw BalanceLaw MultipleLaw CompareLaw NearLaw TotalLaw DateDiffLaw 
CHECK_DEADLOCK FALSE
