---------------------------- MODULE MC_RoundEntry ----------------------------
EXTENDS RoundEntryMachine, TLC, Json
AllTargets == {"PlainTime.round", "PlainTime.diff", "Instant.round", "Instant.diff"}
QQuick == {1, 2}
QThorough == {0, 1, 2, 3}
Emit == last.op = "none" \/ PrintT("CASE " \o ToJson(last))
=============================================================================
