SPECIFICATION GSpec
CONSTANTS
  GenForms <- FSmall
  GenYears <- OneYear
  Budget = 0
INVARIANTS StructureRecovered DurationRecovered GeneratedAccepted MutationsRejected SmallGoals OutcomesWellFormed
CHECK_DEADLOCK FALSE
