---------------------------- MODULE Trace_NoPanic ----------------------------
(* impl -> spec for C03: every logged outcome must be in the alphabet of explainable outcomes. *)
(* `syn` remembers the synthetic TZif files of the session (`Tzdb.define`) and, once the parser's reading has been logged *)
(* (`Tzdb.table`), the kind of their footer: the class label of a query on such a zone is computed from it.              *)
EXTENDS TemporalBase, TraceBase
VARIABLES l, syn
tvars == <<l, syn>>
E == Rec[l]
ProviderBacked == {"RealZone.probe", "TzifBytes.probe", "Parse.ZonedDateTime", "Parse.TimeZone", "Tzdb.define", "Tzdb.table", "Tzdb.offset", "Tzdb.local"}
Alphabet(e) == IF e.op \in ProviderBacked THEN OkKinds \cup {"generic"} ELSE OkKinds
Good(e) == e.out.kind \in Alphabet(e)
Put(f, k, v) == [x \in DOMAIN f \cup {k} |-> IF x = k THEN v ELSE f[x]]
FooterKind(f) == IF f.kind = "none" THEN "no-footer" ELSE IF f.kind = "fixed" THEN "fixed-footer"
                 ELSE IF f.start.k = f.end.k THEN "rule-" \o f.start.k ELSE "rule-mixed"
ClsOf(e) == IF e.op = "RealZone.probe" THEN e.args.call \o "/" \o e.args.lbl
            ELSE IF e.op = "TzifBytes.probe" THEN "corrupted-file/" \o e.out.phase
            ELSE IF e.op \in {"Tzdb.define", "Tzdb.table", "Tzdb.offset", "Tzdb.local"} /\ e.args.zone \in DOMAIN syn THEN "synthetic-tzif/" \o syn[e.args.zone]
            ELSE "outcome"
TInit == l = 1 /\ syn = [z \in {} |-> ""]
TNext == /\ l <= NEv /\ l' = l + 1
         /\ \/ E.op = "reset"
            \/ E.op # "reset" /\ Good(E)
            \/ E.op # "reset" /\ ~Good(E) /\ Report(l, E.op, ClsOf(E), "an outcome in {ok, type, range, syntax}", E.out)
         /\ syn' = IF E.op = "reset" THEN [z \in {} |-> ""]
                   ELSE IF E.op = "Tzdb.define" THEN Put(syn, E.args.zone, "undetermined")
                   ELSE IF E.op = "Tzdb.table" /\ E.args.zone \in DOMAIN syn /\ E.out.kind = "ok" THEN Put(syn, E.args.zone, FooterKind(E.out.val.footer))
                   ELSE syn
TSpec == TInit /\ [][TNext]_tvars
=============================================================================
