\* EXPECTED VIOLATION: with PoisonBehaviour = "error" TLC must find the counterexample to FailureIsolation
\* (a panic under the lock, then another call -> LockErr instead of F(call)). The pipeline asserts that it does.
SPECIFICATION Spec
CONSTANTS
  Threads = {1, 2, 3}
  Zones = {"za", "zb", "zc"}
  ZoneOpts = {"za", "zb", "zc", "-"}
  PanicZones = {"za", "zb", "zc", "-"}
  Kinds = {"ok", "unknown", "range", "panic"}
  NCalls = 2
  KeepHist = FALSE
  PoisonBehaviour = "error"
INVARIANTS FailureIsolation
CHECK_DEADLOCK TRUE
