SPECIFICATION Spec
CONSTANTS
  Window <- QWindow
  DurSet <- NoDur
  LargestSet <- AllLargest
  OneStep = TRUE
INVARIANTS InverseLaw ClosedEqualsLiteral DiffShape DayIsDistance AddWellFormed SubIsAddNeg RejectRule 
CHECK_DEADLOCK FALSE
