SPECIFICATION Spec
CONSTANTS
  Receivers <- BadReceivers
  ArgPool <- QPool
  OneStep = TRUE
INVARIANTS DistinctFields
CHECK_DEADLOCK FALSE
