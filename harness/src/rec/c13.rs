//! C13 / C14 sessions over random synthetic zones (0..3 transitions at least two days apart; jumps from minutes to a day,
//! LMT-like second offsets), with wall readings and instants concentrated around the transitions.
use super::Tracer;
use crate::gen::*;
use crate::rng::Rng;
use serde_json::{json, Value};

pub fn rand_zone(r: &mut Rng) -> (Value, Vec<i64>) {
    let pick_off = |r: &mut Rng| -> i64 { match r.range(0, 5) { 0 => r.range(-14, 14) * 3600, 1 => r.range(-28, 28) * 1800, 2 => r.range(-50_000, 50_000), 3 => r.range(-13, 13) * 3600 + 900, _ => r.range(-12, 14) * 3600 } };
    let mut off = pick_off(r); let init = off;
    let n = r.range(0, 3); let mut at = r.range(-3, 1) * 86_400 + r.range(0, 86_399);
    let mut trans = Vec::new(); let mut ats = Vec::new();
    for _ in 0..n {
        let new = match r.range(0, 4) { 0 => off + 3600, 1 => off - 3600, 2 => off + 1800, 3 => pick_off(r), _ => if off < 0 { off + 86_400 } else { off - 86_400 } };
        let new = new.clamp(-86_399 + 3600, 86_399 - 3600);
        if new == off { continue; }
        trans.push(json!({"at": at, "off": new})); ats.push(at); off = new;
        at += r.range(2, 9) * 86_400 + r.range(0, 86_399);
    }
    (json!({"init": init, "trans": trans}), ats)
}
fn near(r: &mut Rng, ats: &[i64], spread: i64) -> i64 {
    if ats.is_empty() || r.chance(1, 4) { return r.range(-4 * 86_400, 30 * 86_400); }
    *r.pick(ats) + match r.range(0, 3) { 0 => r.range(-3, 3), 1 => r.range(-spread, spread), _ => r.range(-100_000, 100_000) }
}
const DIS: [&str; 4] = ["compatible", "earlier", "later", "reject"];
const VIAS: [&str; 5] = ["direct", "now", "instant", "rezone", "string"];
const OFFOPT: [&str; 4] = ["use", "ignore", "prefer", "reject"];

pub fn drive(t: &mut Tracer, r: &mut Rng, n: usize) {
    while t.n < n {
        let (zone, ats) = rand_zone(r);
        let offs: Vec<i64> = std::iter::once(zone["init"].as_i64().unwrap()).chain(zone["trans"].as_array().unwrap().iter().map(|x| x["off"].as_i64().unwrap())).collect();
        for _ in 0..r.range(6, 20) {
            match r.range(0, 5) {
                0 | 1 => { // wall reading near a transition's local image
                    let o = *r.pick(&offs); let w = near(r, &ats, 90_000) + o;
                    t.call("Zoned.fromLocal", json!({"zone": zone, "w": w, "dis": *r.pick(&DIS)})); }
                2 if r.chance(1, 5) => { let day = near(r, &ats, 90_000).div_euclid(86_400);
                    t.call("Zoned.fromDate", json!({"zone": zone, "day": day, "tt": *r.pick(&["none", "midnight"])})); }
                2 if r.chance(1, 4) => { let near_t = if r.chance(1, 2) && !ats.is_empty() { *r.pick(&ats) - r.range(1, 61) } else { near(r, &ats, 4000) };
                    t.call("Zoned.text", json!({"zone": zone, "t": near_t, "fd": r.range(0, 9), "unit": *r.pick(&[1, 60]),
                                                "mode": *r.pick(&["trunc", "ceil", "expand", "floor", "halfExpand", "halfTrunc", "halfCeil", "halfFloor"]), "via": *r.pick(&["zoned", "instant"])})); }
                2 => { if r.chance(1, 2) { t.call("Zoned.wall", json!({"zone": zone, "t": near(r, &ats, 4000)})); }
                       else { t.call("Zoned.views", json!({"zone": zone, "t": near(r, &ats, 4000), "via": *r.pick(&VIAS)})); } }
                _ => { let o = *r.pick(&offs); let w = near(r, &ats, 50_000) + o;
                    let (k, off) = match r.range(0, 5) { 0 => ("none", 0), 1 => ("z", 0), 2 => ("offset", *r.pick(&offs)), 3 => { let x = *r.pick(&offs); ("offset", ((x.abs() + 30) / 60 * 60) * x.signum()) }, _ => ("offset", r.range(-14, 14) * 3600 + r.range(0, 59) * 60) };
                    if k != "z" && off % 60 == 0 && r.chance(1, 2) {
                        // the same input as a property bag (offset of whole minutes)
                        t.call("Zoned.fromPartial", json!({"zone": zone, "w": w, "offk": k, "offmin": off / 60, "dis": *r.pick(&DIS), "offopt": *r.pick(&OFFOPT)}));
                    } else {
                        if r.chance(1, 4) { t.call("Zoned.relTo", json!({"zone": zone, "w": w, "offk": k, "off": off})); }
                        else { t.call("Zoned.fromStr", json!({"zone": zone, "w": w, "offk": k, "off": off, "dis": *r.pick(&DIS), "offopt": *r.pick(&OFFOPT)})); }
                    } }
            }
        }
        t.reset();
    }
}
