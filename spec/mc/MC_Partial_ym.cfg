SPECIFICATION Spec
CONSTANTS
  Receivers <- YmReceivers
  PartialsOf <- YmP
  FromTypes <- FromYm
  NewArgs <- NoSet
  IdentityOn = TRUE
  OneStep = TRUE
INVARIANTS UsesOnlySupplied DefaultsAreZero IdentityLaw ClampNearest RejectSound RejectComplete ConstrainComplete RejectRefinesConstrain TypeErrorIff WellFormed
CHECK_DEADLOCK FALSE
