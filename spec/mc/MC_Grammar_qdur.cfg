SPECIFICATION GSpec
CONSTANTS
  GenForms <- FDur
  GenYears <- OneYear
  Budget = 2
INVARIANTS StructureRecovered DurationRecovered GeneratedAccepted MutationsRejected SmallGoals OutcomesWellFormed
CHECK_DEADLOCK FALSE
