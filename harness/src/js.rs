//! JSON helpers. All integers that TLC will read must be < 2^31 in magnitude
//! (TLC's JSON reader silently wraps larger ones), so every integer emitted goes
//! through `int()`, which asserts that; anything larger is emitted as limbs (`big`).
use serde_json::{json, Map, Value};

pub fn int(v: i64) -> Value {
    assert!(v.abs() < (1i64 << 31), "integer {} too large for TLC; emit as big", v);
    json!(v)
}

/// sign + little-endian base-10^4 limbs, normal form
pub fn big(v: i128) -> Value {
    let s = v.signum() as i64;
    let mut m = v.unsigned_abs();
    let mut l = Vec::new();
    while m > 0 {
        l.push(json!((m % 10000) as i64));
        m /= 10000;
    }
    json!({"s": s, "l": l})
}

pub fn unbig(v: &Value) -> i128 {
    // accumulated as a negative number, so that the whole i128 range - i128::MIN included - decodes
    let s = v["s"].as_i64().expect("big.s") as i128;
    let mut m: i128 = 0;
    for x in v["l"].as_array().expect("big.l").iter().rev() {
        m = m.checked_mul(10000).and_then(|v| v.checked_sub(x.as_i64().unwrap() as i128)).expect("HARNESS big does not fit i128");
    }
    if s < 0 { m } else if s > 0 { m.checked_neg().expect("HARNESS big does not fit i128") } else { 0 }
}

/// exact integer value of an integral f64 as big; non-integral flagged
pub fn big_f64(x: f64) -> Value {
    if !x.is_finite() || x.fract() != 0.0 {
        return json!({"nonint": format!("{:?}", x)});
    }
    big(f64_to_i128_exact(x))
}

pub fn f64_to_i128_exact(x: f64) -> i128 {
    // integral doubles below 2^127 convert exactly
    assert!(x.abs() < 1.0e38);
    x as i128
}

pub fn i(v: &Value, k: &str) -> i64 {
    v[k].as_i64().unwrap_or_else(|| panic!("missing int field {} in {}", k, v))
}
pub fn s<'a>(v: &'a Value, k: &str) -> &'a str {
    v[k].as_str().unwrap_or_else(|| panic!("missing str field {} in {}", k, v))
}
pub fn opt_s<'a>(v: &'a Value, k: &str) -> Option<&'a str> {
    v.get(k).and_then(|x| x.as_str())
}
pub fn has(v: &Value, k: &str) -> bool {
    v.get(k).map(|x| !x.is_null()).unwrap_or(false)
}
pub fn obj(pairs: Vec<(&str, Value)>) -> Value {
    let mut m = Map::new();
    for (k, v) in pairs {
        m.insert(k.to_string(), v);
    }
    Value::Object(m)
}
