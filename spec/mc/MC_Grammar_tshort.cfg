SPECIFICATION GSpec
CONSTANTS
  GenForms <- FShort
  GenYears <- BoundaryYears
  Budget = 3
INVARIANTS StructureRecovered DurationRecovered GeneratedAccepted MutationsRejected SmallGoals OutcomesWellFormed
CHECK_DEADLOCK FALSE
