"""C08 — Duration round/total/compare relative to a plain date equal add-then-remeasure."""
from . import lib
from .props import quick, corrupt_first, bump_big, head_of


def run(run):
    b = lib.build_harness("dev")
    q = quick(run)
    cases, n = run.gen("mc/MC_RelativeRound.tla", "gen/Gen_C08_q.cfg" if q else "gen/Gen_C08_t.cfg", workers=8, name="rel", timeout=3000)
    run.replay(b, cases, label="rel")
    run.negative_control_replay(b, cases, corrupt_first(lambda e: e["op"] == "Duration.round" and e["out"]["kind"] == "ok", lambda e: bump_big(e["out"]["val"]["mo"])), limit=3000)
    tr = run.record(b, "c08", 6000 if q else 100000)
    run.validate("trace/Trace_Relative.tla", "trace/Trace_Relative.cfg", tr, timeout=3000)
    small = head_of(run, tr, 300, "c08.small.trace.ndjson")
    run.negative_control_trace("trace/Trace_Relative.tla", "trace/Trace_Relative.cfg", small,
                               corrupt_first(lambda e: e.get("op") == "Duration.compare" and e["out"]["kind"] == "ok" and e["out"]["val"] != 0,
                                             lambda e: e["out"].__setitem__("val", -e["out"]["val"])))
    run.cov["rule"] = ("replay: every (reference date, duration, largest, smallest, increment, mode) round transition, every total unit and every compare pair of the bounded RelativeRound instance; "
                      "traces: seeded reference dates over the whole range, mixed-unit durations of both signs, every valid option set, plus PlainDate/PlainDateTime until/since with rounding")
    run.cov["distinct_nontrivial"] = run.cov["evaluations"]
    run.assumptions += ["totals are doubles: accepted iff exact for integral results up to 2^53, else within relative error 2^-51",
                        "the algorithmic model (re-measure, nudge, bubble with exact integer fractions) is checked on the model against the declarative laws Sign, Window, Direction, Balance, Multiple, Compare, Total; the candidate law Idempotent was refuted by TLC and dropped"]
