SPECIFICATION Spec
CONSTANTS
  Xs <- BXs
  Incs <- BIncs
INVARIANTS Adjacent Direction Nearest Transcriptions NegSym
CHECK_DEADLOCK FALSE
