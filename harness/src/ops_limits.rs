//! Extra entry points for the range-boundary campaign (C02) and the extreme-argument campaign (C03).
use crate::js::{self, big, int};
use crate::ops::{utc, FS};
use crate::proj::*;
use serde_json::{json, Value};
use std::str::FromStr;
use temporal_rs::options::*;
use temporal_rs::*;

pub fn year_str(y: i64) -> String { if (0..=9999).contains(&y) { format!("{:04}", y) } else { format!("{}{:06}", if y < 0 { '-' } else { '+' }, y.abs()) } }

pub fn exec(op: &str, a: &Value) -> Option<Value> {
    Some(match op {
        "PlainDate.toPlainDateTime" => run(|| arg_date(&a["recv"])?.to_plain_date_time(Some(arg_time(&a["time"])?)), p_datetime),
        // the receiver is the date at noon (valid on every day of the range); its time is then replaced
        "PlainDateTime.withTime" => run(|| { let d = arg_date(&a["recv"])?; PlainDateTime::try_new(d.iso_year(), d.iso_month(), d.iso_day(), 12, 0, 0, 0, 0, 0, iso())?.with_time(arg_time(&a["time"])?) }, p_datetime),
        // numeric primitives: a double is the exact integer `v` plus (frac) one half away from zero, or a non-number
        // Default::default() of the date types, read through getters (days in month: a getter that needs a real date)
        "Default.date" => run(|| Ok(match js::s(a, "ty") {
            "PlainDate" => { let d = PlainDate::default(); (d.year() as i64, d.month() as i64, d.day() as i64, d.days_in_month() as i64) }
            "PlainDateTime" => { let d = PlainDateTime::default(); (d.year() as i64, d.month() as i64, d.day() as i64, d.days_in_month() as i64) }
            "PlainYearMonth" => { let d = PlainYearMonth::default(); (d.year() as i64, d.month() as i64, 1, d.days_in_month() as i64) }
            "PlainMonthDay" => { let d = PlainMonthDay::default(); (d.iso_year() as i64, d.iso_month() as i64, d.iso_day() as i64, 31) }
            k => panic!("HARNESS: ty {k}") }), |t| json!({"y": int(t.0), "m": int(t.1), "d": int(t.2), "dim": int(t.3)})),
        "Prim.epochNs" => run(|| { use temporal_rs::time::EpochNanoseconds as E; let v = num(&a["v"]);
            let f = || -> f64 { match js::s(a, "special") { "" => { let x = v as f64; assert!(x as i128 == v, "HARNESS: not a double: {}", v);
                if a["frac"].as_bool().unwrap() { assert!(v.abs() < (1i128 << 51)); x + if v < 0 { -0.5 } else { 0.5 } } else { x } }, sp => crate::ops_wrap::special(sp) } };
            match js::s(a, "src") { "i128" => E::try_from(v), "u128" => E::try_from(if js::s(a, "special") == "max" { u128::MAX } else { u128::try_from(v).expect("HARNESS: u128") }), "f64" => E::try_from(f()), k => panic!("HARNESS: src {k}") } },
            |e| big(e.as_i128())),
        "Prim.truncated" | "Prim.integral" | "Prim.positive" => run(|| { use temporal_rs::primitive::FiniteF64 as F; let v = num(&a["v"]);
            let x = v as f64; assert!(x as i128 == v, "HARNESS: not a double: {}", v);
            let x = if a["frac"].as_bool().unwrap() { x + if v < 0 { -0.5 } else { 0.5 } } else { x };
            let f = F::try_from(x)?;
            macro_rules! go { ($t:ty) => { match op { "Prim.truncated" => Ok(f.as_integer_with_truncation::<$t>() as i128), "Prim.integral" => f.as_integer_if_integral::<$t>().map(|y| y as i128),
                                                      _ => f.as_positive_integer_with_truncation::<$t>().map(|y| y as i128) } } }
            match js::s(a, "ty") { "u8" => go!(u8), "u32" => go!(u32), "i32" => go!(i32), "i64" => go!(i64), k => panic!("HARNESS: ty {k}") } }, |y| big(*y)),
        "PlainDateTime.fromDateAndTime" => run(|| PlainDateTime::from_date_and_time(arg_date(&a["recv"])?, arg_time(&a["time"])?), p_datetime),
        // the infallible conversion: the value is projected through getters (its Display may panic)
        "PlainDateTime.fromPlainDate" => run(|| Ok(PlainDateTime::from(arg_date(&a["recv"])?)), p_datetime),
        "PlainDate.toZonedUtc" => run(|| FS.with(|p| { let t = if a.get("time").is_some() { Some(arg_time(&a["time"])?) } else { None };
            arg_date(&a["recv"])?.to_zoned_date_time_with_provider(utc(), t, p) }), |z| big(z.epoch_nanoseconds().as_i128())),
        // a date built under the constrain option: an out-of-range YEAR is never clamped
        "PlainDate.newConstrain" => run(|| { let d = &a["d"]; PlainDate::new_with_overflow(js::i(d, "y") as i32, js::i(d, "m") as u8, js::i(d, "d") as u8, iso(), ArithmeticOverflow::Constrain) }, p_date),
        // a wall-clock date-time read in a fixed-offset zone (offset in minutes)
        "PlainDateTime.toZonedOffset" => run(|| FS.with(|p| { let m = js::i(a, "off");
            let tz = TimeZone::try_from_str(&format!("{}{:02}:{:02}", if m < 0 { '-' } else { '+' }, m.abs() / 60, m.abs() % 60))?;
            arg_datetime(&a["dt"])?.to_zoned_date_time_with_provider(&tz, Disambiguation::Compatible, p) }), |z| big(z.epoch_nanoseconds().as_i128())),
        "ZonedDateTime.fromDateOnlyStr" => run(|| FS.with(|p| { let m = js::i(a, "off"); let d = &a["d"];
            let off = format!("{}{:02}:{:02}", if m < 0 { '-' } else { '+' }, m.abs() / 60, m.abs() % 60);
            let s = format!("{}-{:02}-{:02}[{}]", year_str(js::i(d, "y")), js::i(d, "m"), js::i(d, "d"), off);
            ZonedDateTime::from_str_with_provider(&s, Disambiguation::Compatible, OffsetDisambiguation::Reject, p) }), |z| big(z.epoch_nanoseconds().as_i128())),
        "ZonedDateTime.fromStrOffset" => run(|| FS.with(|p| { let m = js::i(a, "off"); let d = &a["dt"];
            let off = format!("{}{:02}:{:02}", if m < 0 { '-' } else { '+' }, m.abs() / 60, m.abs() % 60);
            let s = format!("{}-{:02}-{:02}T{:02}:{:02}:{:02}.{:03}{:03}{:03}{}[{}]", year_str(js::i(d, "y")), js::i(d, "m"), js::i(d, "d"),
                js::i(d, "h"), js::i(d, "mi"), js::i(d, "s"), js::i(d, "ms"), js::i(d, "us"), js::i(d, "ns"), off, off);
            ZonedDateTime::from_str_with_provider(&s, Disambiguation::Compatible, OffsetDisambiguation::from_str(js::s(a, "offopt")).expect("offopt"), p) }),
            |z| big(z.epoch_nanoseconds().as_i128())),
        "PlainDate.fromStr" => run(|| { let d = &a["d"]; PlainDate::from_str(&format!("{}-{:02}-{:02}", year_str(js::i(d, "y")), js::i(d, "m"), js::i(d, "d"))) }, p_date),
        "PlainDateTime.fromStr" => run(|| { let d = &a["dt"]; PlainDateTime::from_str(&format!("{}-{:02}-{:02}T{:02}:{:02}:{:02}.{:03}{:03}{:03}", year_str(js::i(d, "y")), js::i(d, "m"), js::i(d, "d"),
            js::i(d, "h"), js::i(d, "mi"), js::i(d, "s"), js::i(d, "ms"), js::i(d, "us"), js::i(d, "ns"))) }, p_datetime),
        "Instant.fromStr" => run(|| { let d = &a["dt"]; Instant::from_str(&format!("{}-{:02}-{:02}T{:02}:{:02}:{:02}.{:03}{:03}{:03}Z", year_str(js::i(d, "y")), js::i(d, "m"), js::i(d, "d"),
            js::i(d, "h"), js::i(d, "mi"), js::i(d, "s"), js::i(d, "ms"), js::i(d, "us"), js::i(d, "ns"))) }, p_instant),
        "RealZone.probe" => real_zone_probe(a),
        "TzifBytes.probe" => tzif_bytes_probe(a),
        // the public formatter records of temporal_rs::parsers, with any field values (their fields are public): writing never panics
        "FmtbX.date" => run(|| { use temporal_rs::parsers::*; let (y, m, d) = (js::i(a, "y") as i32, js::i(a, "m") as u8, js::i(a, "d") as u8);
            let cal = FormattableCalendar { show: DisplayCalendar::Always, calendar: "iso8601" };
            let _ = FormattableDate(y, m, d).to_string();
            let _ = FormattableYearMonth { date: FormattableDate(y, m, d), calendar: FormattableCalendar { show: DisplayCalendar::Auto, calendar: "gregory" } }.to_string();
            let _ = FormattableMonthDay { date: FormattableDate(y, m, d), calendar: cal }.to_string();
            let _ = FormattableIxdtf { date: Some(FormattableDate(y, m, d)), time: None, utc_offset: None, timezone: None, calendar: None }.to_string();
            Ok(()) }, |_| json!(null)),
        "FmtbX.time" => run(|| { use temporal_rs::parsers::*; let p = match js::i(a, "prec") { -1 => Precision::Auto, -2 => Precision::Minute, n => Precision::Digit(n as u8) };
            let t = || FormattableTime { hour: js::i(a, "h") as u8, minute: js::i(a, "mi") as u8, second: js::i(a, "s") as u8, nanosecond: js::i(a, "ns") as u32, precision: p, include_sep: js::i(a, "h") % 2 == 0 };
            let _ = t().to_string();
            let _ = FormattableOffset { sign: if js::i(a, "s") % 2 == 0 { Sign::Positive } else { Sign::Negative }, time: t() }.to_string();
            Ok(()) }, |_| json!(null)),
        "FmtbX.duration" => run(|| { use temporal_rs::parsers::*; let v = |k: &str| -> u64 { if js::i(a, k) < 0 { u64::MAX } else { js::i(a, k) as u64 } }; let w = |k: &str| -> u32 { if js::i(a, k) < 0 { u32::MAX } else { js::i(a, k) as u32 } };
            let fr = if js::i(a, "fr") == 0 { None } else { Some(w("fr")) };
            let time = match js::s(a, "form") { "hours" => Some(FormattableTimeDuration::Hours(v("h"), fr)), "minutes" => Some(FormattableTimeDuration::Minutes(v("h"), v("mi"), fr)),
                "seconds" => Some(FormattableTimeDuration::Seconds(v("h"), v("mi"), v("s"), fr)), _ => None };
            let p = match js::i(a, "prec") { -1 => Precision::Auto, -2 => Precision::Minute, n => Precision::Digit(n as u8) };
            let date = if js::i(a, "date") == 0 { None } else { Some(FormattableDateDuration { years: w("y"), months: w("y"), weeks: w("y"), days: v("d") }) };
            let _ = FormattableDuration { precision: p, sign: if js::i(a, "prec") % 2 == 0 { Sign::Negative } else { Sign::Positive }, date, time }.to_string();
            Ok(()) }, |_| json!(null)),
        "MiscX.deepZoneId" => run(|| { let n = js::i(a, "n") as usize; let s = format!("{}a", "a/".repeat(n.saturating_sub(1)));
            TimeZone::try_from_identifier_str(&s).map(|_| ()).and(TimeZone::try_from_str(&s).map(|_| ())) }, |_| json!(null)),
        "MiscX.farProviderQuery" => run(|| FS.with(|p| { use temporal_rs::provider::TimeZoneProvider;
            let sec = 10i128.pow(js::i(a, "k") as u32) * if a["neg"].as_bool().unwrap() { -1 } else { 1 };
            p.get_named_tz_offset_nanoseconds(js::s(a, "zone"), sec * 1_000_000_000).map(|_| ()) }), |_| json!(null)),
        "MiscX.instantTextNoData" => run(|| Instant::try_new(num(&a["ns"]))?.to_ixdtf_string_with_provider(None, ToStringRoundingOptions::default(), &temporal_rs::provider::NeverProvider).map(|_| ()), |_| json!(null)),
        "MiscX.longDigits" => run(|| { let n = js::i(a, "n") as usize; let d: String = "1234567890".chars().cycle().take(n).collect();
            match js::s(a, "where") {
                "offset-fraction" => { let s = format!("+01:00:00.{}", d); let _ = UtcOffset::from_str(&s); let _ = TimeZone::try_from_identifier_str(&s); TimeZone::try_from_str(&s).map(|_| ()) }
                "time-fraction" => { let _ = PlainTime::from_str(&format!("12:00:00.{}", d)); Instant::from_str(&format!("2020-01-01T12:00:00.{}Z", d)).map(|_| ()) }
                "zone-offset-fraction" => Instant::from_str(&format!("2020-01-01T12:00:00+01:00:00.{}", d)).map(|_| ()),
                "duration-field" => { let _ = Duration::from_str(&format!("P{}Y", d)); Duration::from_str(&format!("PT{}S", d)).map(|_| ()) }
                "duration-fraction" => Duration::from_str(&format!("PT1.{}S", d)).map(|_| ()),
                _ => { let _ = PlainDate::from_str(&format!("+{}-01-01", d)); PlainYearMonth::from_str(&format!("{}-01", d)).map(|_| ()) }
            } }, |_| json!(null)),
        // year given as a bare `year` (era = false) or as the era year of the calendar's first listed era where it has one
        "MiscX.partialYear" => run(|| { let cal = Calendar::from_str(js::s(a, "cal"))?; let y = js::i(a, "year") as i32;
            let mut p = temporal_rs::partial::PartialDate::new().with_month(Some(1)).with_day(Some(1)).with_calendar(cal.clone());
            p = if a["era"].as_bool().unwrap() { let e = match js::s(a, "cal") { "gregory" | "japanese" => "ce", "roc" => "roc", "buddhist" => "be", "coptic" => "coptic", "ethiopic" => "ethiopic",
                    "indian" => "saka", "persian" => "persian", "islamic-civil" | "islamic-tbla" => "ah", _ => "" };
                if e.is_empty() { p.with_year(Some(y)) } else { p.with_era(Some(TinyAsciiStr::<19>::try_from_str(e).expect("era"))).with_era_year(Some(y)) } } else { p.with_year(Some(y)) };
            PlainDate::from_partial(p, None).and_then(|d| { let _ = (d.year(), d.month(), d.day(), d.era(), d.era_year(), d.day_of_year(), d.days_in_month(), d.in_leap_year(), d.month_code()); Ok(()) }) }, |_| json!(null)),
        _ if op.starts_with("ZonedX.") => zoned_extreme(op, a),
        "ZonedDateTime.new" => run(|| ZonedDateTime::try_new(num(&a["ns"]), iso(), utc()), |z| big(z.epoch_nanoseconds().as_i128())),
        _ => return None,
    })
}

/// C03: a bundle of public ZonedDateTime / TimeZone calls on a real IANA zone through the bundled file-system provider.
/// Returns, per call, the outcome kind; the overall kind is "panic" if any call panicked.
pub fn real_zone_probe(a: &Value) -> Value {
    use std::panic::{catch_unwind, AssertUnwindSafe};
    let zone = js::s(a, "zone").to_string();
    let ns = num(&a["ns"]);
    let what = js::s(a, "call");
    let kind = |r: std::thread::Result<TemporalResult<()>>| -> &'static str { match r { Ok(Ok(())) => "ok", Ok(Err(e)) => kind_of(&e), Err(_) => "panic" } };
    let k = FS.with(|p| {
        let tz = match TimeZone::try_from_str(&zone) { Ok(t) => t, Err(e) => return kind_of(&e) };
        let z = match ZonedDateTime::try_new(ns, iso(), tz.clone()) { Ok(z) => z, Err(e) => return kind_of(&e) };
        match what {
            "fields" => kind(catch_unwind(AssertUnwindSafe(|| { z.year_with_provider(p)?; z.hour_with_provider(p)?; z.offset_with_provider(p)?; z.day_of_week_with_provider(p)?; Ok(()) }))),
            "toString" => kind(catch_unwind(AssertUnwindSafe(|| z.to_string_with_provider(p).map(|_| ())))),
            "startOfDay" => kind(catch_unwind(AssertUnwindSafe(|| z.start_of_day_with_provider(p).map(|_| ())))),
            "hoursInDay" => kind(catch_unwind(AssertUnwindSafe(|| z.hours_in_day_with_provider(p).map(|_| ())))),
            "addDay" => kind(catch_unwind(AssertUnwindSafe(|| { let d = Duration::from(DateDuration::new(ffz(), ffz(), ffz(), temporal_rs::primitive::FiniteF64::from(1i8))?); z.add_with_provider(&d, None, p).map(|_| ()) }))),
            "subMonth" => kind(catch_unwind(AssertUnwindSafe(|| { let d = Duration::from(DateDuration::new(ffz(), temporal_rs::primitive::FiniteF64::from(1i8), ffz(), ffz())?); z.subtract_with_provider(&d, None, p).map(|_| ()) }))),
            "untilEpoch" => kind(catch_unwind(AssertUnwindSafe(|| { let o = ZonedDateTime::try_new(0, iso(), tz.clone())?; let mut st = DifferenceSettings::default(); st.largest_unit = Some(Unit::Year); z.until_with_provider(&o, st, p).map(|_| ()) }))),
            "fromLocal" => kind(catch_unwind(AssertUnwindSafe(|| { let dt = z.to_plain_datetime_with_provider(p)?; dt.to_zoned_date_time_with_provider(&tz, Disambiguation::Compatible, p).map(|_| ()) }))),
            "withPlainTime" => kind(catch_unwind(AssertUnwindSafe(|| z.with_plain_time_and_provider(PlainTime::try_new(2, 30, 0, 0, 0, 0)?, p).map(|_| ())))),
            _ => "unknown-call",
        }
    });
    json!({"kind": k})
}
fn ffz() -> temporal_rs::primitive::FiniteF64 { temporal_rs::primitive::FiniteF64::from(0i8) }

/// C03: ZonedDateTime operations on a synthetic zone with extreme receivers and arguments; only the outcome kind is projected.
fn zoned_extreme(op: &str, a: &Value) -> Value {
    use crate::synth_tz::*;
    let z = if op == "ZonedX.absurd" { Zone { init: 0, trans: vec![] } } else { Zone::from_json(&a["zone"]) };
    let p = SynthProvider::with_zone(z.clone());
    let tz = time_zone_for(&z, false);
    // receiver: absolute epoch ns (big) or seconds relative to the synthetic base day
    let at = |v: &Value| -> i128 { if v.get("rel").is_some() { (js::i(v, "rel") as i128 + BASE_SEC as i128) * 1_000_000_000 + 5 } else { num(&v["abs"]) } };
    let recv = || ZonedDateTime::try_new(at(&a["recv"]), iso(), tz.clone());
    fn unit<T>(_: &T) -> Value { Value::Null }
    match op {
        // a provider that reports an impossible offset (hundreds of years): every reading must still end in a value or an error
        "ZonedX.absurd" => {
            let off = num(&a["off"]).clamp(i64::MIN as i128, i64::MAX as i128) as i64;
            let zz = Zone { init: off, trans: vec![] };
            let pp = SynthProvider::with_zone(zz.clone());
            let tzz = time_zone_for(&zz, true);
            run(|| { let x = ZonedDateTime::try_new(at(&a["recv"]), iso(), tzz.clone())?;
                let _ = x.to_plain_datetime_with_provider(&pp); let _ = x.hour_with_provider(&pp); let _ = x.offset_with_provider(&pp); let _ = x.to_string_with_provider(&pp);
                let _ = x.start_of_day_with_provider(&pp); let _ = x.hours_in_day_with_provider(&pp);
                x.add_with_provider(&Duration::from(DateDuration::new(ffz(), ffz(), ffz(), temporal_rs::primitive::FiniteF64::from(1i8))?), None, &pp) }, unit)
        }
        "ZonedX.add" => run(|| recv()?.add_with_provider(&arg_duration(&a["dur"])?, arg_ovf(a), &p), unit),
        "ZonedX.subtract" => run(|| recv()?.subtract_with_provider(&arg_duration(&a["dur"])?, arg_ovf(a), &p), unit),
        "ZonedX.until" => run(|| recv()?.until_with_provider(&ZonedDateTime::try_new(at(&a["other"]), iso(), tz.clone())?, arg_settings(&a["st"])?, &p), unit),
        "ZonedX.since" => run(|| recv()?.since_with_provider(&ZonedDateTime::try_new(at(&a["other"]), iso(), tz.clone())?, arg_settings(&a["st"])?, &p), unit),
        "ZonedX.startOfDay" => run(|| recv()?.start_of_day_with_provider(&p), unit),
        "ZonedX.hoursInDay" => run(|| recv()?.hours_in_day_with_provider(&p), unit),
        "ZonedX.fields" => run(|| { let x = recv()?; x.year_with_provider(&p)?; x.day_with_provider(&p)?; x.hour_with_provider(&p)?; x.nanosecond_with_provider(&p)?; x.offset_with_provider(&p)?;
            x.day_of_week_with_provider(&p)?; x.day_of_year_with_provider(&p)?; x.week_of_year_with_provider(&p)?; x.days_in_month_with_provider(&p)?; x.in_leap_year_with_provider(&p)?; x.to_plain_datetime_with_provider(&p) }, unit),
        "ZonedX.toString" => run(|| recv()?.to_string_with_provider(&p), unit),
        "ZonedX.withPlainTime" => run(|| recv()?.with_plain_time_and_provider(arg_time(&a["time"])?, &p), unit),
        "ZonedX.fromLocal" => run(|| arg_datetime(&a["dt"])?.to_zoned_date_time_with_provider(&tz, Disambiguation::from_str(js::s(a, "dis")).expect("HARNESS dis"), &p), unit),
        _ => json!({"kind": "harness-error", "what": "unknown ZonedX op"}),
    }
}

/// C03 "whatever time-zone data": the bytes of a bundled TZif file with a few bytes overwritten and/or a truncation go through
/// Tzif::from_bytes; when they are accepted, offset and wall-clock queries are made at instants around the table.
fn tzif_bytes_probe(a: &Value) -> Value {
    use temporal_rs::tzdb::Tzif;
    use tzif::data::time::Seconds;
    let path = format!("/usr/share/zoneinfo/{}", js::s(a, "zone"));
    let Ok(mut bytes) = std::fs::read(&path) else { return json!({"kind": "generic"}) };
    if let Some(t) = a.get("trunc").and_then(|v| v.as_u64()) { let keep = bytes.len() * (t as usize) / 1000; bytes.truncate(keep); }
    for m in a["muts"].as_array().map(|v| v.as_slice()).unwrap_or(&[]) {
        // position in per-mille of the file plus a byte offset, so that the same case means the same thing for every file size
        let n = bytes.len(); if n == 0 { break; }
        let pos = ((m[0].as_u64().unwrap_or(0) as usize) * n / 1000 + m[1].as_u64().unwrap_or(0) as usize) % n;
        bytes[pos] = m[2].as_u64().unwrap_or(0) as u8;
    }
    // two observed phases: parsing the bytes, then querying the accepted table
    let parsed = run(|| Tzif::from_bytes(&bytes), |_| Value::Null);
    if parsed["kind"] != "ok" { let mut p = parsed; p["phase"] = json!("from_bytes"); return p; }
    let mut out = run(|| {
        let t = Tzif::from_bytes(&bytes)?;
        let mut probes: Vec<i64> = vec![-8_640_000_000_000, -2_208_988_800, -1, 0, 1, 1_615_705_200, 2_208_988_800, 253_402_300_799, 8_640_000_000_000];
        if let Ok(db) = t.get_data_block2() { for x in db.transition_times.iter().take(3).chain(db.transition_times.iter().rev().take(3)) { probes.extend([x.0.saturating_sub(1), x.0, x.0.saturating_add(3600)]); } }
        // the instants and wall-clock readings Temporal can ask about lie within +-1e8 days (plus a day) of the epoch
        probes.retain(|s| s.abs() <= 8_640_000_086_400);
        let mut answered = 0u32;
        for s in probes { if t.get(&Seconds(s)).is_ok() { answered += 1; } if t.v2_estimate_tz_pair(&Seconds(s)).is_ok() { answered += 1; } }
        Ok(answered)
    }, |n| json!(*n));
    out["phase"] = json!("queries");
    out
}
