SPECIFICATION TSpec
CONSTANTS
  GenForms = {}
  GenYears = {}
  Budget = 0
  FValues = {}
  FOpts <- NoOpts
INVARIANT CursorOK
POSTCONDITION Accepted
CHECK_DEADLOCK FALSE
