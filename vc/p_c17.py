"""C17 - with / from_partial use only supplied fields; constrain clamps, reject errors.
Partial.tla / PartialMachine.tla model checked on bounded instances (all subsets of fields x boundary values x month-vs-monthCode
x both overflows), every transition replayed through the real API, seeded full-range sessions judged by Trace_Partial."""
import json, os
from . import lib
from .lib import ToolError, log

QUICK = ["date", "ym", "time", "datetime", "dtlimits", "zoned"]
THOROUGH = ["tdate", "tym", "ttime", "datetime", "dtlimits", "zoned"]


def _nontrivial(cases_path):
    """distinct cases whose class says that something had to be decided (a field out of range, a conflict, a missing or
    empty record, a limit, a receiver day that no longer fits) - everything but the plain 'ok' merges"""
    seen = set()
    with open(cases_path) as f:
        for l in f:
            c = json.loads(l)
            if "/ok/" not in c.get("cls", ""):
                seen.add(l)
    return len(seen)


OPS = {f"{t}.{k}" for t in ("PlainDate", "PlainTime", "PlainDateTime") for k in ("with", "from_partial", "new_with_overflow")} | \
      {"PlainYearMonth.with", "PlainYearMonth.from_partial", "ZonedDateTime.from_partial"}
PROBLEMS = {"ok", "empty", "missing", "badcode", "month!=code", "month=0", "month>12", "year-limits", "day=0", "day>dim", "recvday>dim",
            "hour>23", "minute>59", "second>59", "ms>999", "us>999", "ns>999", "limits"}


def _vacuity(paths):
    """non-vacuity of the generated instance: every operation and every problem class the laws talk about occurs,
    under both overflow modes, with the month given by month / monthCode / both / neither"""
    ops, probs, ovfs, srcs = set(), set(), set(), set()
    for p in paths:
        with open(p) as f:
            for l in f:
                c = json.loads(l)
                ops.add(c["op"])
                src, pr, ov = c["cls"].split("/")[:3]
                probs.add(pr); ovfs.add(ov); srcs.add(src)
    missing = (OPS - ops) | (PROBLEMS - probs) | ({"constrain", "reject"} - ovfs) | ({"m", "c", "mc", "-", "*"} - srcs)
    if missing:
        raise ToolError(f"vacuous C17 instance: never generated {sorted(missing)}")


def corrupt_case(lines):
    for e in lines:
        if e["out"].get("kind") == "ok" and isinstance(e["out"].get("val"), dict) and "m" in e["out"]["val"] and e["op"].endswith(".with"):
            e["out"]["val"]["m"] = e["out"]["val"]["m"] % 12 + 1
            return True
    return False


def corrupt_event(evs):
    for e in evs:
        if e.get("op", "").endswith(".with") and e["out"]["kind"] == "ok":
            v = e["out"]["val"]
            k = "d" if "d" in v else ("mi" if "mi" in v else "m")
            v[k] = v[k] % 12 + 1
            return True
    return False


def run(run):
    b = lib.build_harness("dev")
    q = run.tier == "quick"
    nontrivial = 0
    first = None
    files = []
    for c in (QUICK if q else THOROUGH):
        # the generator run is the model-checking run of the instance: all laws of PartialMachine as invariants, plus Emit
        cases, n = run.gen("mc/MC_Partial.tla", f"gen/Gen_C17_{c}.cfg", workers=4, name=c, timeout=1500)
        run.replay(b, cases, label=c)
        nontrivial += _nontrivial(cases)
        first = first or cases
        files.append(cases)
    _vacuity(files)
    # zoned records over zones with transitions (TimeZoneMachine, bag steps only): a record with date fields only, or with time fields that are
    # all zero, is midnight's wall-clock reading under the disambiguation option (skipped / repeated midnights included); full records with
    # and without an offset of whole minutes under the four offset options
    cases, n = run.gen("mc/MC_TimeZone.tla", "gen/Gen_C17_zonedbag.cfg", workers=8, name="zonedbag", timeout=1500)
    run.replay(b, cases, label="zonedbag")
    run.negative_control_replay(b, first, corrupt_case, limit=4000)
    if not q:
        # wrapping (release) arithmetic: the limit cases again
        br = lib.build_harness("release")
        for c in ("tdate", "tym"):
            run.replay(br, os.path.join(run.dir, c + ".cases.ndjson"), label=c, profile="release")
    tr = run.record(b, "c17", 40000 if q else 600000)
    run.validate("trace/Trace_Partial.tla", "trace/Trace_Partial.cfg", tr)
    small = os.path.join(run.dir, "c17.small.trace.ndjson")
    with open(tr) as f, open(small, "w") as g:
        for i, l in enumerate(f):
            if i < 600:
                g.write(l)
    run.negative_control_trace("trace/Trace_Partial.tla", "trace/Trace_Partial.cfg", small, corrupt_event)
    with open(tr) as f:
        nontrivial += sum(1 for l in f if '"kind":"ok"' not in l and '"reset"' not in l)
    run.cov["rule"] = ("replay: every (receiver, partial record, overflow) / (partial record, overflow) / (constructor arguments, overflow) transition of the bounded "
                       "PartialMachine instances is one distinct case (TLC distinct states); non-trivial = its spec-computed class is not a plain in-range merge "
                       "(some field out of range, month/monthCode conflict or foreign code, empty or incomplete record, limit exceeded, receiver day that no longer fits); "
                       "traces: seeded sessions over the full u8/u16/i32 field ranges, non-trivial = calls whose outcome is an error")
    run.cov["distinct_nontrivial"] = nontrivial
    run.assumptions += ["the harness maps a JSON partial record to PartialDate/PartialTime field by field (ops_partial.rs) and projects results through public getters; "
                        "the hidden reference day of a year-month is read from to_ixdtf_string(DisplayCalendar::Always)",
                        "ISO calendar, plus gregory receivers of PlainDate.with for era / eraYear designations and for day and month clamping outside ISO; ZonedDateTime partials in fixed-offset zones (+00:00 in the bounded PartialMachine instance; +05:30, -08:00, +14:00 in sessions) and, for the time-less / zero-time / full records of the TimeZoneMachine bag steps, in the 169 synthetic zones of C13's instance",
                        "a record that lacks a required field must be a TypeError even if a supplied field is also out of range (Temporal's order of checks)"]
