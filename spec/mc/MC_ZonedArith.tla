---------------------------- MODULE MC_ZonedArith ----------------------------
EXTENDS ZonedArithMachine, TLC, Json
H == 3600
MCZones == {[init |-> -5 * H, trans |-> <<[at |-> 7 * H, off |-> -4 * H], [at |-> 20 * 86400 + 6 * H, off |-> -5 * H]>>],      \* +1 h DST pair (spring forward 02:00 local, fall back)
            [init |-> H, trans |-> <<[at |-> 2 * H, off |-> 0]>>],                                                          \* -1 h
            [init |-> 10 * H, trans |-> <<[at |-> 16 * H, off |-> 10 * H + 1800]>>],                                        \* 30 min
            [init |-> -10 * H, trans |-> <<[at |-> 10 * H, off |-> 14 * H]>>],                                              \* 24 h skip (date line)
            [init |-> 14 * H, trans |-> <<[at |-> 10 * H, off |-> -10 * H]>>],                                              \* 24 h repeat
            \* gaps that swallow midnight and begin before it: 23:30 -> 00:30 and 23:00 -> 01:00 (the day before ends early, the next day starts late)
            [init |-> -5 * H, trans |-> <<[at |-> 4 * H + 1800, off |-> -4 * H]>>], [init |-> -5 * H, trans |-> <<[at |-> 4 * H, off |-> -3 * H]>>],
            \* days of 23 3/4 h and 22 1/2 h (a quarter-hour change at 03:00 local, a 90-minute one): hours-in-day must be a neighbouring integer, arithmetic exact to the minute
            [init |-> 5 * H + 1800, trans |-> <<[at |-> -3 * H + 1800, off |-> 5 * H + 2700]>>], [init |-> -3 * H, trans |-> <<[at |-> 4 * H, off |-> -H - 1800]>>],
            [init |-> 5 * H + 1800, trans |-> <<>>], [init |-> 0, trans |-> <<>>]}
Grid(lo, hi, step) == {lo + k * step : k \in 0..((hi - lo) \div step)}
MCInstants == Grid(-2 * 86400, 3 * 86400, 1800 * 3) \cup Grid(20 * 86400 - 12 * H, 20 * 86400 + 18 * H, 3 * H) \cup {30 * 86400, 31 * 86400 + 5 * H, 59 * 86400 + 7 * H, 60 * 86400}
GInstants == Grid(-86400 - 6 * H, 2 * 86400 + 12 * H, 6 * H) \cup Grid(20 * 86400 - 12 * H, 20 * 86400 + 18 * H, 6 * H) \cup {7 * H, 7 * H - 1800, 10 * H, 30 * 86400, 59 * 86400 + 7 * H}
             \* one day before / after a skipped and a repeated wall-clock time of the DST zone (02:30 and 01:30): +-P1D lands inside the gap / the fold
             \cup {7 * H + 1800 - 86400, 8 * H + 1800 + 86400 - 3600, 19 * 86400 + 5 * H + 1800, 21 * 86400 + 6 * H + 1800}
Dz(y, mo, w, d, h, mi) == Dur10(FromInt(y), FromInt(mo), FromInt(w), FromInt(d), FromInt(h), FromInt(mi), Zero, Zero, Zero, Zero)
MCDurs == {Dz(0, 0, 0, 1, 0, 0), Dz(0, 0, 0, -1, 0, 0), Dz(0, 1, 0, 0, 0, 0), Dz(0, 0, 0, 0, 24, 0), Dz(0, 0, 0, 1, 1, 30), Dz(0, 0, 1, 0, 0, 0), Dz(0, -1, 0, -1, -2, 0), Dz(0, 0, 0, 0, 0, 90), Dz(0, 0, 0, 2, 0, 0)}
MCLargests == {"year", "month", "week", "day", "hour", "second"}
Cls == last.op \o (IF last.op \in {"until", "since"} THEN "/" \o last.lg ELSE "") \o (IF NT(last.z) = 0 THEN "/fixed" ELSE IF AbsI(last.z.trans[1].off - last.z.init) >= 23 * H THEN "/24h" ELSE "/dst")
ZJ(z) == z
CaseOf ==
  CASE last.op \in {"add", "subtract"} -> [op |-> "Zoned." \o last.op, cls |-> Cls, args |-> [zone |-> last.z, t |-> last.t, dur |-> last.dur, ovf |-> last.ovf], out |-> last.out]
    [] last.op \in {"until", "since"} /\ "oz" \in DOMAIN last -> [op |-> "Zoned." \o last.op, cls |-> Cls \o "/other-zone", args |-> [zone |-> last.z, t |-> last.t, other |-> last.t2, oz |-> last.oz, st |-> [largest |-> last.lg]], out |-> last.out]
    [] last.op \in {"until", "since"} -> [op |-> "Zoned." \o last.op, cls |-> Cls, args |-> [zone |-> last.z, t |-> last.t, other |-> last.t2, st |-> [largest |-> last.lg]], out |-> last.out]
    [] last.op = "withPlainTime" -> [op |-> "Zoned.withPlainTime", cls |-> Cls \o "/" \o Classify(last.z, (Wall(last.z, last.t) \div 86400) * 86400 + last.sod),
                                     args |-> [zone |-> last.z, t |-> last.t, sod |-> last.sod], out |-> last.out]
    [] last.op = "startOfDay" -> [op |-> "Zoned.startOfDay", cls |-> Cls, args |-> [zone |-> last.z, t |-> last.t], out |-> last.out]
    [] last.op = "dayLength" -> [op |-> "Zoned.hoursInDay", cls |-> Cls \o (IF last.out.val % 3600 = 0 THEN "/whole-hours" ELSE "/fractional-hours"),
                                 args |-> [zone |-> last.z, t |-> last.t], out |-> IF last.out.val % 3600 = 0 THEN Ok(last.out.val \div 3600) ELSE [kind |-> "within", lo |-> last.out.val \div 3600, hi |-> last.out.val \div 3600 + 1]]
Emit == last.op = "none" \/ PrintT("CASE " \o ToJson(CaseOf))
=============================================================================
