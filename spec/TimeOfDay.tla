----------------------------- MODULE TimeOfDay -----------------------------
(***************************************************************************)
(* Wall-clock times as integers modulo 24 h at nanosecond resolution, and   *)
(* exact-time durations. Times are six-field records; totals are BigInt.    *)
(* Two independent definitions of addition (BigInt modular sum vs. field-   *)
(* wise ripple carry = Temporal's BalanceTime) are checked equal by TLC.    *)
(***************************************************************************)
EXTENDS Rounding

Time(h, mi, s, ms, us, ns) == [h |-> h, mi |-> mi, s |-> s, ms |-> ms, us |-> us, ns |-> ns]
Midnight == Time(0, 0, 0, 0, 0, 0)
ValidTime(t) == t.h \in 0..23 /\ t.mi \in 0..59 /\ t.s \in 0..59 /\ t.ms \in 0..999 /\ t.us \in 0..999 /\ t.ns \in 0..999

DayNsBig == K9(FromInt(86400))
UnitNsBig(u) == CASE u = "nanosecond" -> FromInt(1) [] u = "microsecond" -> FromInt(1000)
                  [] u = "millisecond" -> K6(FromInt(1)) [] u = "second" -> K9(FromInt(1))
                  [] u = "minute" -> K9(FromInt(60)) [] u = "hour" -> K9(FromInt(3600))
                  [] u = "day" -> DayNsBig
IncNs(inc, u) == Mul(FromInt(inc), UnitNsBig(u))

SecOfDay(t) == (t.h * 60 + t.mi) * 60 + t.s
SubSecNs(t) == (t.ms * 1000 + t.us) * 1000 + t.ns
TimeNsOf(t) == Add(K9(FromInt(SecOfDay(t))), FromInt(SubSecNs(t)))
\* 0 <= b < DayNs
TimeFromBig(b) == LET a == TruncDivSmall(b, 1000)  c == TruncDivSmall(a.q, 1000)  d == TruncDivSmall(c.q, 1000)
                      sod == ToInt(d.q)
                  IN Time(sod \div 3600, (sod \div 60) % 60, sod % 60, d.r, c.r, a.r)

\* add an exact nanosecond count to a time: days carried + new time
AddNs(t, nsBig) == LET dm == FloorDivMod(Add(TimeNsOf(t), nsBig), DayNsBig)
                   IN [days |-> dm.q, time |-> TimeFromBig(dm.r)]

\* Temporal's BalanceTime on small ints (ripple carry), independent of BigInt
BalanceTimeI(h, mi, s, ms, us, ns) ==
  LET us2 == us + ns \div 1000    ms2 == ms + us2 \div 1000    s2 == s + ms2 \div 1000
      mi2 == mi + s2 \div 60      h2 == h + mi2 \div 60
  IN [days |-> h2 \div 24, time |-> Time(h2 % 24, mi2 % 60, s2 % 60, ms2 % 1000, us2 % 1000, ns % 1000)]

\* balance an exact signed ns total into a duration whose largest unit is `largest` (sign-uniform, truncating);
\* each field is then stored as a double (exact up to 2^53)
BalanceDur(nsBig, largest) ==
  LET sg == nsBig.s
      a == Abs(nsBig)
      li == UnitIdx(largest)
      n1 == IF li >= 2 THEN TruncDivSmall(a, 1000) ELSE [q |-> Zero, r |-> 0]          \* us total, ns rem
      nsF == IF li >= 2 THEN FromInt(n1.r) ELSE a
      n2 == IF li >= 3 THEN TruncDivSmall(n1.q, 1000) ELSE [q |-> Zero, r |-> 0]
      usF == IF li >= 3 THEN FromInt(n2.r) ELSE n1.q
      n3 == IF li >= 4 THEN TruncDivSmall(n2.q, 1000) ELSE [q |-> Zero, r |-> 0]
      msF == IF li >= 4 THEN FromInt(n3.r) ELSE n2.q
      n4 == IF li >= 5 THEN TruncDivSmall(n3.q, 60) ELSE [q |-> Zero, r |-> 0]
      sF == IF li >= 5 THEN FromInt(n4.r) ELSE n3.q
      n5 == IF li >= 6 THEN TruncDivSmall(n4.q, 60) ELSE [q |-> Zero, r |-> 0]
      miF == IF li >= 6 THEN FromInt(n5.r) ELSE n4.q
      n6 == IF li >= 7 THEN TruncDivSmall(n5.q, 24) ELSE [q |-> Zero, r |-> 0]
      hF == IF li >= 7 THEN FromInt(n6.r) ELSE n5.q
      dF == IF li >= 7 THEN n6.q ELSE Zero
      S(b) == IF sg < 0 THEN Neg(b) ELSE b
  IN DurF64(Dur10(Zero, Zero, Zero, S(dF), S(hF), S(miF), S(sF), S(msF), S(usF), S(nsF)))

\* total ns of a duration's day + time fields (a day counting 24 h)
DayTimeNs(D) == Add(Mul(D.d, DayNsBig), TimeNs(D))

\* PlainTime.add / subtract: date units (incl. days) are ignored
PlainTimeAdd(t, D) == Ok(AddNs(t, TimeNs(D)).time)
PlainTimeSub(t, D) == Ok(AddNs(t, Neg(TimeNs(D))).time)
\* PlainTime.round(unit, inc, mode) = Temporal's RoundTime: the quantity that is rounded is the time counted from the
\* start of the unit's enclosing unit (from midnight for hour); admissible increments divide the enclosing unit, so the
\* candidate multiples are the same instants as when counting from midnight - only the parity used by halfEven differs.
ParentNsBig(u) == CASE u = "hour" -> DayNsBig [] u = "minute" -> UnitNsBig("hour") [] u = "second" -> UnitNsBig("minute")
                    [] u = "millisecond" -> UnitNsBig("second") [] u = "microsecond" -> UnitNsBig("millisecond")
                    [] u = "nanosecond" -> UnitNsBig("microsecond") [] u = "day" -> DayNsBig
RoundQuantity(t, u) == FloorDivMod(TimeNsOf(t), ParentNsBig(u)).r
RoundTimeTotal(t, u, inc, mode) == Add(Sub(TimeNsOf(t), RoundQuantity(t, u)), RoundBig(RoundQuantity(t, u), IncNs(inc, u), mode))
PlainTimeRound(t, u, inc, mode) == Ok(AddNs(Midnight, RoundTimeTotal(t, u, inc, mode)).time)
\* PlainTime.until/since with resolved settings
PlainTimeDiff(t1, t2, largest, smallest, inc, mode, isSince) ==
  LET diff == Sub(TimeNsOf(t2), TimeNsOf(t1))
      m == IF isSince THEN NegateMode(mode) ELSE mode
      bal == BalanceDur(RoundBig(diff, IncNs(inc, smallest), m), largest)
  IN Ok(IF isSince THEN NegDur(bal) ELSE bal)
=============================================================================
