#![allow(unused_imports, dead_code)]
mod js;
mod rng;
mod gen;
mod proj;
mod ops;
mod ops_date;
mod replay;
mod c01;
mod rec;

fn main() {
    std::panic::set_hook(Box::new(|_| {}));
    let a: Vec<String> = std::env::args().collect();
    let cmd = a.get(1).map(|s| s.as_str()).unwrap_or("");
    match cmd {
        "replay" => replay::main(&a[2..]),
        "record" => rec::main(&a[2..]),
        "c01" => c01::main(&a[2..]),
        "exec" => {
            // exec one case from a replay file: tvh exec '<json line>'
            let v: serde_json::Value = serde_json::from_str(&a[2]).expect("json");
            println!("{}", ops::exec(v["op"].as_str().unwrap(), &v["args"]));
        }
        _ => {
            eprintln!("usage: tvh replay <cases> <report> | record <driver> <seed> <n> <out> | c01 <table> <tier> <report> | exec <json>");
            std::process::exit(2);
        }
    }
}
