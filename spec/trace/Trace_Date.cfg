SPECIFICATION TSpec
CONSTANTS
  Window = {}
  DurSet = {}
  LargestSet = {}
  OneStep = FALSE
INVARIANT CursorOK
POSTCONDITION Accepted
CHECK_DEADLOCK FALSE
