#!/usr/bin/env python3
"""List known-finding entries that no given vcheck log reports (python3 vc/staleness.py Cxx log1 log2 ...).
An entry that is never observed any more hides a regression of whatever repaired it, so stale entries are removed from known_findings.d/."""
import json, re, sys, os
ROOT = os.path.dirname(os.path.dirname(os.path.abspath(__file__)))


def main():
    prop, logs = sys.argv[1], sys.argv[2:]
    seen = set()
    for f in logs:
        for l in open(f, errors="replace"):
            m = re.search(r"\[key=(\S+) absorbed=(\d+)\]", l)
            if m:
                seen.add(m.group(1))
    k = json.load(open(os.path.join(ROOT, "known_findings.d", prop + ".json")))
    stale = [x for x in k["findings"] if x["id"] not in seen]
    print(f"{prop}: {len(k['findings'])} entries, {len(k['findings']) - len(stale)} observed in {len(logs)} logs, {len(stale)} never observed")
    for x in stale:
        print("  STALE", x["id"], json.dumps(x["key"]))
    if "--prune" in os.environ.get("STALE_ACTION", ""):
        k["findings"] = [x for x in k["findings"] if x["id"] in seen]
        json.dump(k, open(os.path.join(ROOT, "known_findings.d", prop + ".json"), "w"), indent=1)


if __name__ == "__main__":
    main()
