//! C07 sessions: values constructed as q*n + r with exact multiples, ties and tie +- 1 ns over-sampled, through every rounding entry point.
use super::Tracer;
use crate::gen::*;
use crate::js::big;
use crate::rng::Rng;
use serde_json::json;

pub fn drive(t: &mut Tracer, r: &mut Rng, n: usize) {
    while t.n < n {
        let u = *r.pick(&TIME_UNITS);
        let mode = *r.pick(&MODES);
        match r.range(0, 5) {
            0 => { // PlainTime.round
                let inc = *r.pick(&time_incs(u)); let nn = inc as i128 * unit_ns(u);
                let q = r.range128(0, DAY_NS / nn - 1);
                let x = q * nn + tie_biased_rem(r, nn);
                let mut st = json!({"smallest": u, "inc": inc, "mode": mode});
                if r.chance(1, 8) { st.as_object_mut().unwrap().remove("mode"); }
                if inc == 1 && r.chance(1, 2) { st.as_object_mut().unwrap().remove("inc"); }
                t.call("PlainTime.round", json!({"recv": time_json(x), "st": st}));
            }
            1 => { // Instant.round: increments dividing a day
                let per_day = DAY_NS / unit_ns(u);
                let cands: Vec<i128> = [1i128, 2, 3, 4, 5, 6, 8, 10, 12, 15, 20, 24, 25, 27, 30, 45, 60, 90, 125, 512, 675, 720, 1000, 1440, 3600, 43200, 86400, 1_000_000, 86_400_000, 864_000_000, 1_000_000_000]
                    .iter().cloned().filter(|d| per_day % d == 0 && *d <= 1_000_000_000).collect();
                let inc = *r.pick(&cands); let nn = inc * unit_ns(u);
                let qmax = MAX_INSTANT / nn;
                let q = match r.range(0, 3) { 0 => r.range128(0, 3), 1 => qmax - r.range128(0, 1).min(qmax), _ => r.range128(0, qmax - 1) };
                let mut x = q * nn + tie_biased_rem(r, nn);
                if x > MAX_INSTANT { x = MAX_INSTANT; }
                if r.chance(1, 2) { x = -x; }
                t.call("Instant.round", json!({"recv": big(x), "st": {"smallest": u, "inc": inc as i64, "mode": mode}}));
            }
            2 | 3 => { // until / since with rounding
                let inc = *r.pick(&time_incs(u)); let nn = inc as i128 * unit_ns(u);
                let lgs: Vec<&str> = TIME_UNITS.iter().cloned().filter(|l| unit_rank(l) >= unit_rank(u)).collect();
                let lg = *r.pick(&lgs);
                let since = r.chance(1, 2);
                if r.chance(1, 2) {
                    let q = r.range128(0, DAY_NS / nn - 1);
                    let x = q * nn + tie_biased_rem(r, nn);
                    let a = r.range128(0, DAY_NS - 1 - x);
                    let (recv, other) = if r.chance(1, 2) { (a, a + x) } else { (a + x, a) };
                    t.call(if since { "PlainTime.since" } else { "PlainTime.until" }, json!({"recv": time_json(recv), "other": time_json(other), "st": {"largest": lg, "smallest": u, "inc": inc, "mode": mode}}));
                } else {
                    let q = r.range128(0, (MAX_INSTANT / nn).min(1 << 40));
                    let x = q * nn + tie_biased_rem(r, nn);
                    let a = r.range128(-MAX_INSTANT, MAX_INSTANT - x);
                    let (recv, other) = if r.chance(1, 2) { (a, a + x) } else { (a + x, a) };
                    t.call(if since { "Instant.since" } else { "Instant.until" }, json!({"recv": big(recv), "other": big(other), "st": {"largest": lg, "smallest": u, "inc": inc, "mode": mode}}));
                }
            }
            _ => { // the rounder itself through the hook
                let nn = match r.range(0, 3) { 0 => r.range(1, 20) as i128, 1 => r.range(1, 1_000_000_000) as i128 * unit_ns(u), _ => r.range128(1, 1_000_000_000_000_000_000_000) };
                let q = r.range128(0, 9_000_000_000_000_000_000_000_000 / nn);
                let mut x = q * nn + tie_biased_rem(r, nn);
                if r.chance(1, 2) { x = -x; }
                t.call("Round.i128", json!({"x": big(x), "inc": big(nn), "mode": mode}));
            }
        }
        t.reset();
    }
}
