---------------------------- MODULE TzifClasses ----------------------------
(***************************************************************************)
(* Class labels for queries against a zone table, computed from the table   *)
(* only. Used by the trace spec (impl -> spec) and by the case generator    *)
(* (spec -> impl); known findings key on (op, cls).                         *)
(***************************************************************************)
EXTENDS Tzif

(* Computed from the table only. offset queries:                                                          *)
(*   offset / <position> [/ <transition kind> [/first]] [/ <rule shape> / <rule position>] [/subsecond-before-transition] *)
(* local queries:                                                                                         *)
(*   local-<unique|gap|overlap> / <position> [...] [/trunc-sensitive]                                     *)
MaxS(S) == CHOOSE x \in S : \A y \in S : y <= x
MinS(S) == CHOOSE x \in S : \A y \in S : x <= y
\* rule position, refined: within a calendar month (UTC, give or take a day) of one of the two rule transitions, or elsewhere;
\* for footers with Jn / n day rules, rule times outside the day or offsets beyond +-14 h: within 31 days of a rule transition
MOnly(F) == F.start.k = "M" /\ F.end.k = "M"
\* rule times outside the day (Mm.w.d/-1, /26, ... /167) move the transition out of the rule's day, even out of its month
OddTime(F) == F.start.t \notin 0..86400 \/ F.end.t \notin 0..86400
\* offsets beyond those of real zones (-12 h .. +14 h): the UTC day can be two days away from the local day
BigOff(F) == F.std \notin -50400..50400 \/ F.dst \notin -50400..50400
RuleMonth(F, t) == IF MOnly(F) /\ ~OddTime(F) /\ ~BigOff(F)
                   THEN (IF {CivilFromDays(t.d + j).m : j \in {-1, 0, 1}} \cap {F.start.m, F.end.m} # {}
                         THEN "/transition-month" ELSE "/other-month")
                   ELSE (IF \E e \in RuleEvents(F, YearOf(t)) : e.at.d - t.d \in -31..31
                         THEN "/transition-month" ELSE "/other-month")
\* the day kinds of a rule footer: nothing for Mm.w.d rules on both sides (all real zones), otherwise a tag
RuleKindTag(F) == IF F.kind # "rule" \/ MOnly(F) THEN ""
                  ELSE IF F.start.k = F.end.k THEN "/rule-" \o F.start.k
                  ELSE "/rule-mixed"
FooterCls(F, t) == RuleShape(F) \o RuleKindTag(F)
                   \o (IF F.kind = "rule"
                       THEN "/" \o RulePos(F, t) \o (IF RulePos(F, t) \in {"in-dst", "in-std"} THEN RuleMonth(F, t) ELSE "")
                       ELSE "")
OffsetCls(Z, t, ns) ==
  LET pos == PosClass(Z, t)  i == Idx(Z, t) IN
  "offset/" \o pos
  \o (IF pos = "at-transition" THEN "/" \o TransKind(Z, i) \o (IF i = 1 THEN "/first" ELSE "")
      ELSE IF pos \in {"after-last-footer", "no-transitions-footer"} THEN "/" \o FooterCls(Z.footer, t)
      ELSE "")
  \* a sub-second instant before the epoch whose next whole second is a transition second
  \o (IF ns # 0 /\ t.d < 0 /\ PosClass(Z, Shift(t, 1)) = "at-transition" THEN "/subsecond-before-transition" ELSE "")
\* a wall-clock reading L can only belong to instants in [L - maxOff, L - minOff]
LocalPos(Z, L) ==
  LET lo == Shift(L, -MaxS(Offsets(Z)))  hi == Shift(L, -MinS(Offsets(Z)))
      near == {i \in 1..NT(Z) : Le(Shift(lo, -1), Pt(Z.trans[i])) /\ Le(Pt(Z.trans[i]), Shift(hi, 1))}
      F == Z.footer
      nearEv == IF F.kind = "rule" THEN {e \in RuleEvents(F, YearOf(L)) : Le(Shift(lo, -1), e.at) /\ Le(e.at, Shift(hi, 1))} ELSE {}
      \* where the reading sits relative to the rule transitions of the footer
      footerPos == RuleShape(F) \o RuleKindTag(F)
                   \o (IF F.kind # "rule" THEN ""
                       ELSE IF nearEv # {} THEN (IF \E e \in nearEv : e.toDst THEN "/near-rule-start" ELSE "/near-rule-end")
                       ELSE (IF InDst(F, lo) THEN "/in-dst" ELSE "/in-std") \o RuleMonth(F, lo))
  IN IF NT(Z) = 0 THEN (IF HasFooter(Z) THEN "no-transitions-footer/" \o footerPos ELSE "no-transitions")
     ELSE IF near # {} THEN LET i == MinS(near) IN
            "near-transition/" \o TransKind(Z, i) \o (IF i = 1 THEN "/first" ELSE IF i = NT(Z) THEN "/last" ELSE "")
            \* more than one table transition can bear on the reading (transitions closer together than the zone's offsets span)
            \o (IF Cardinality(near) > 1 THEN "/several-transitions" ELSE "")
            \* a rule transition of the footer, after the last table transition, can bear on the reading as well
            \o (IF \E e \in nearEv : Lt(Pt(Z.trans[NT(Z)]), e.at) THEN "/and-rule-transition" ELSE "")
     ELSE IF Lt(hi, Pt(Z.trans[1])) THEN "before-first"
     ELSE IF Lt(Pt(Z.trans[NT(Z)]), lo) THEN
            (IF ~HasFooter(Z) THEN "after-last"
             \* a rule transition lies between the end of the table and the reading, which is less than 26 h (the bound RFC 8536
             \* recommends for offsets, and the reach of a table lookup) after the last table transition: one label whatever the rule
             ELSE IF F.kind = "rule" /\ Le(L, Shift(Pt(Z.trans[NT(Z)]), 93600))
                     /\ \E e \in RuleEvents(F, YearOf(L)) : Lt(Pt(Z.trans[NT(Z)]), e.at) /\ Le(e.at, Shift(hi, 1))
                  THEN "after-last-footer/table-end-within-26h"
             ELSE "after-last-footer/" \o footerPos)
     ELSE IF Idx(Z, hi) = 1 THEN "between/first-interval"
     ELSE "between"
LocalCls(Z, L, ns) ==
  "local-" \o LocalKind(Z, L) \o "/" \o LocalPos(Z, L)
  \* a sub-second reading before 1970 whose answer differs from that of the next whole second
  \o (IF ns # 0 /\ L.d < 0 /\ {Shift(t, 1) : t \in LocalToInstants(Z, L)} # LocalToInstants(Z, Shift(L, 1))
      THEN "/trunc-sensitive" ELSE "")
=============================================================================
