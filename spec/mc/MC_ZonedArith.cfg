SPECIFICATION Spec
CONSTANTS
  Zones <- MCZones
  Instants <- MCInstants
  Durs <- MCDurs
  Largests <- MCLargests
  OneStep = TRUE
INVARIANTS DiffLaws SodLaws WptLaws LenLaws
CHECK_DEADLOCK FALSE
