//! Operations for C16 (see ops.rs): calendar-derived getters of PlainDate, rebuilding a date from calendar
//! fields, with_calendar, calendar identifiers.
//!
//! Conventions of the projections used here:
//!   * optional values (`era`, `era_year`) are 0/1-element arrays (`[]` = None), so TLC never sees a JSON null;
//!   * strings the specification inspects character by character (month codes, identifiers) are arrays of
//!     1-character strings (`p_chars`);
//!   * the ISO date of a result is read through `iso_year/iso_month/iso_day`.
use crate::js::{self, big, int};
use crate::ops::{utc, FS};
use crate::proj::*;
use serde_json::{json, Value};
use std::str::FromStr;
use temporal_rs::options::*;
use temporal_rs::partial::PartialDate;
use temporal_rs::*;

fn chars_to_string(v: &Value) -> String {
    v.as_array().expect("array of chars").iter().map(|c| c.as_str().expect("char")).collect()
}
/// a calendar argument: a plain string, or an array of 1-character strings (when the spec must inspect the spelling)
fn cal_of(a: &Value, k: &str) -> TemporalResult<Calendar> {
    if a[k].is_array() { Calendar::from_str(&chars_to_string(&a[k])) } else { Calendar::from_str(js::s(a, k)) }
}
fn iso_date_in(a: &Value, cal: Calendar) -> TemporalResult<PlainDate> {
    let d = &a["iso"];
    PlainDate::try_new(js::i(d, "y") as i32, js::i(d, "m") as u8, js::i(d, "d") as u8, cal)
}
fn p_iso(d: &PlainDate) -> Value {
    json!({"y": int(d.iso_year() as i64), "m": int(d.iso_month() as i64), "d": int(d.iso_day() as i64)})
}

/// every calendar-derived getter of the date
pub fn p_fields(d: &PlainDate, with_era_name: bool) -> Value {
    let mut v = json!({
        "ey": d.era_year().map(|y| vec![int(y as i64)]).unwrap_or_default(),
        "year": int(d.year() as i64),
        "month": int(d.month() as i64),
        "mc": p_chars(d.month_code().as_str()),
        "day": int(d.day() as i64),
        "doy": int(d.day_of_year() as i64),
        "dim": int(d.days_in_month() as i64),
        "diy": int(d.days_in_year() as i64),
        "miy": int(d.months_in_year() as i64),
        "leap": d.in_leap_year(),
    });
    if with_era_name {
        v["era"] = json!(d.era().map(|e| vec![e.as_str().to_string()]).unwrap_or_default());
    }
    v
}

fn partial_of(a: &Value) -> TemporalResult<PartialDate> {
    let cal = cal_of(a, "cal")?;
    let mut p = PartialDate::default();
    p.calendar = cal;
    if js::has(a, "year") { p.year = Some(js::i(a, "year") as i32); }
    if js::has(a, "month") { p.month = Some(js::i(a, "month") as u8); }
    if js::has(a, "mc") { p.month_code = Some(MonthCode::from_str(&chars_to_string(&a["mc"]))?); }
    if js::has(a, "day") { p.day = Some(js::i(a, "day") as u8); }
    if js::has(a, "era") {
        // an alias longer than the field can hold cannot be passed at all: reported as the error the caller would see
        p.era = Some(TinyAsciiStr::<19>::try_from_utf8(js::s(a, "era").as_bytes()).map_err(|_| TemporalError::range())?);
    }
    if js::has(a, "ey") { p.era_year = Some(js::i(a, "ey") as i32); }
    Ok(p)
}

pub fn exec(op: &str, a: &Value) -> Option<Value> {
    Some(match op {
        // all getters of the date `iso` seen through calendar `cal`
        "Cal.Day" => run(|| iso_date_in(a, cal_of(a, "cal")?), |d| p_fields(d, true)),
        // the same without the era *name* (generated cases: names are judged as classes, see Cal.EraIn)
        "Cal.Fields" => run(|| iso_date_in(a, cal_of(a, "cal")?), |d| p_fields(d, false)),
        // is the reported era one of `names`?
        "Cal.EraIn" => run(|| iso_date_in(a, cal_of(a, "cal")?), |d| {
            let e = d.era().map(|e| e.as_str().to_string());
            json!(a["names"].as_array().expect("names").iter().any(|n| Some(n.as_str().unwrap().to_string()) == e))
        }),
        // PlainDate::from_partial (or Calendar::date_from_partial with via = "calendar") -> ISO date + calendar id
        "Cal.Rebuild" | "Cal.Conflict" => run(|| {
            let p = partial_of(a)?;
            let ovf = arg_ovf(a);
            if js::opt_s(a, "via") == Some("calendar") {
                let c = p.calendar.clone();
                c.date_from_partial(&p, ovf.unwrap_or(ArithmeticOverflow::Constrain))
            } else {
                PlainDate::from_partial(p, ovf)
            }
        }, |d| json!({"iso": p_iso(d), "id": d.calendar().identifier()})),
        // date `iso` in calendar `from`, then with_calendar(`to`)
        "Cal.WithCalendar" => run(|| {
            let d = iso_date_in(a, cal_of(a, "from")?)?;
            let e = d.with_calendar(cal_of(a, "to")?)?;
            Ok((d, e))
        }, |(d, e)| json!({"iso": p_iso(e), "id": e.calendar().identifier(), "cmp": p_ord(d.compare_iso(e))})),
        // with({day: k}) on the date in its own calendar
        "Cal.WithDay" => run(|| {
            let d = iso_date_in(a, cal_of(a, "from")?)?;
            d.with(temporal_rs::partial::PartialDate::new().with_day(Some(js::i(a, "k") as u8)), None)
        }, |e| json!({"iso": p_iso(e)})),
        // the same for a date-time: `iso` at 12:34:56.789 in calendar `from`, then PlainDateTime::with_calendar(`to`)
        "Cal.WithCalendarDT" => run(|| {
            let d = &a["iso"];
            let x = PlainDateTime::try_new(js::i(d, "y") as i32, js::i(d, "m") as u8, js::i(d, "d") as u8, 12, 34, 56, 789, 0, 0, cal_of(a, "from")?)?;
            x.with_calendar(cal_of(a, "to")?)
        }, |e| json!({"iso": {"y": int(e.iso_year() as i64), "m": int(e.iso_month() as i64), "d": int(e.iso_day() as i64)}, "id": e.calendar().identifier(),
                      "time": [e.hour(), e.minute(), e.second(), e.millisecond()]})),
        // Calendar::from_str / from_utf8 of a spelling -> identifier(); and the identifier parsed again
        "Cal.Id" => run(|| {
            let s = chars_to_string(&a["s"]);
            if js::opt_s(a, "via") == Some("utf8") { Calendar::from_utf8(s.as_bytes()) } else { Calendar::from_str(&s) }
        }, |c| {
            let id = c.identifier();
            let again = match Calendar::from_str(id) { Ok(c2) => p_chars(c2.identifier()), Err(_) => json!(["?"]) };
            json!({"id": p_chars(id), "again": again})
        }),
        _ => return None,
    })
}
