"""Maintenance tool (not part of any check): regenerate the `C15-synth-*` entries of known_findings.d/C15.json.

The synthetic TZif sessions of C15 (rec/c15.rs `synth`) disagree with the unchanged library in a few hundred classes that
all belong to three root causes (see "roots" in the file). One entry per (op, cls, observed) is required, each with a failing
input; this tool records the synthetic sessions for several seeds in the quick and the thorough configuration, validates
them with Trace_Tzif, and writes one entry per class that is not covered by a hand-written entry, with the smallest
failing input it saw.

    python3 -m vc.harvest_c15_synth [--seeds 1,2,3,4,5,6] [--dir out/harvest] [--reuse]

--reuse: take the traces / TLC outputs already in --dir (files <tag><seed>_<part>.ndjson / .out).
"""
import argparse, collections, json, os, subprocess, sys
from concurrent.futures import ThreadPoolExecutor
from . import lib

CONFIGS = [("q", 84, 24), ("t", 588, 40)]     # tag, zones, cap  (p_c15.py: SYNTH_ZONES_QUICK / _THOROUGH)
NPARTS = 4
TARGET = os.path.join(lib.ROOT, "known_findings.d", "C15.json")

ROOTS = {
    "close-transitions": "resolve_local_seconds (shared by Tzif::v2_estimate_tz_pair and the POSIX footer) returns at the first offset change whose two wall-clock readings "
                         "bracket the value, without looking at its neighbours, and its result type holds at most two instants: wrong when another change lies within the "
                         "span of the zone's offsets (a local time type in force for less time than the offset changes by; three or more instants for one reading). "
                         "proposed_fixes/C15-close-transitions.patch repairs all but the readings with three or more instants (the result type holds two).",
    "all-year-dst": "zic writes daylight saving time that never ends as a rule whose end coincides with the next start (\"XXX3YYY2,0/0,J365/25\", also J1/0,J365/25): the "
                    "standard time lasts zero seconds, but resolve_local_seconds treats the end of one year as an ordinary change back to standard time, so the wall-clock "
                    "readings of the (dst - std) span after each New Year are reported as repeated (two instants, one of them reading back differently). An instance of "
                    "close-transitions (two changes at the same second); proposed_fixes/C15-close-transitions.patch.",
    "table-end-near-rule": "Wall-clock readings up to 26 h after the last table transition are answered from the table alone (v2_estimate_tz_pair), although "
                           "a rule transition of the footer already lies in that stretch. proposed_fixes/C15-close-transitions.patch.",
}
CAUSE = {
    "close-transitions": "Cause: resolve_local_seconds stops at the first offset change whose two readings bracket the value and can hold at most two instants; see roots; repair (up to two instants): proposed_fixes/C15-close-transitions.patch",
    "all-year-dst": "Cause: the end of the year's daylight saving time and the next start fall on the same second; resolve_local_seconds takes the end as a change of its own; see roots; repair: proposed_fixes/C15-close-transitions.patch",
    "table-end-near-rule": "Cause: readings within 26 h after the last table transition never consult the footer; see roots; repair: proposed_fixes/C15-close-transitions.patch",
}


def root_of(op, cls):
    if "all-year-dst" in cls:
        return "all-year-dst"
    if "several-transitions" in cls:
        return "close-transitions"
    if "and-rule-transition" in cls or "table-end-within-26h" in cls:
        return "table-end-near-rule"
    raise SystemExit(f"class outside the recorded root causes, triage by hand: {op} {cls}")


def civil(d):
    z = d + 719468
    era, doe = divmod(z, 146097)
    yoe = (doe - doe // 1460 + doe // 36524 - doe // 146096) // 365
    doy = doe - (365 * yoe + yoe // 4 - yoe // 100)
    mp = (5 * doy + 2) // 153
    dd = doy - (153 * mp + 2) // 5 + 1
    m = mp + 3 if mp < 10 else mp - 9
    return (yoe + era * 400 + (1 if m <= 2 else 0), m, dd)


def pt(p):
    y, m, d = civil(p["d"])
    s = p["s"]
    ns = p.get("ns", 0)
    return "%04d-%02d-%02dT%02d:%02d:%02d%sZ" % (y, m, d, s // 3600, s % 3600 // 60, s % 60, (".%09d" % ns) if ns else "")


def show(o):
    if not isinstance(o, dict) or o.get("kind") != "ok":
        return o.get("kind") if isinstance(o, dict) else str(o)
    v = o["val"]
    return str(v["off"]) if isinstance(v, dict) else "[" + ", ".join(pt(x) for x in v) + "]"


def describe(desc, ev):
    """the failing input: the whole description when it is small, else the footer and the table transitions near the query"""
    tr = desc["trans"]
    if len(tr) <= 4:
        return "define " + json.dumps(desc, separators=(",", ":"))
    a = ev["args"]
    if "t" in a:
        qd = a["t"]["d"]
    else:
        l = a["local"]
        y, m = l["y"], l["m"]
        y2 = y - 1 if m <= 2 else y
        era, yoe = divmod(y2, 400)
        doy = (153 * ((m + 9) % 12) + 2) // 5 + l["d"] - 1
        qd = era * 146097 + yoe * 365 + yoe // 4 - yoe // 100 + doy - 719468
    near = [t for t in tr if abs(t["d"] - qd) <= 3] or tr[-1:]
    i0 = tr.index(near[0])
    before = desc["types"][tr[i0 - 1]["ty"] - 1] if i0 > 0 else desc["types"][0]
    return ("define {footer %s, %d types, %d transitions; near the query: offset %d until %s" % (json.dumps(desc["footer"]), len(desc["types"]), len(tr), before["off"],
            ", then ".join("%s -> %d%s" % (pt(t), desc["types"][t["ty"] - 1]["off"], " (dst)" if desc["types"][t["ty"] - 1]["dst"] else "") for t in near))
            + ("; that is the last transition" if near[-1] is tr[-1] else "") + "}")


def query_text(ev):
    a = ev["args"]
    if "t" in a:
        return "offset(" + pt(a["t"]) + ")"
    l = a["local"]
    sub = l["ms"] * 1000000 + l["us"] * 1000 + l["ns"]
    return "instants(%04d-%02d-%02dT%02d:%02d:%02d%s)" % (l["y"], l["m"], l["d"], l["h"], l["mi"], l["s"], (".%09d" % sub) if sub else "")


def produce(binp, d, seeds):
    os.makedirs(d, exist_ok=True)
    jobs = []
    for tag, nz, cap in CONFIGS:
        for s in seeds:
            for p in range(NPARTS):
                tr = os.path.join(d, f"{tag}{s}_{p}.ndjson")
                if binp is None:
                    jobs.append(tr)
                    continue
                subprocess.run([binp, "record", "c15", str(s), str(cap), tr, "synth", str(nz), str(p), str(NPARTS)], check=True, stdout=subprocess.DEVNULL,
                               env=dict(os.environ, VERIF_TIER="thorough" if tag == "t" else "quick"))
                jobs.append(tr)

    def val(tr):
        env = dict(os.environ, TRACE=tr, TLCX_JAVA="-Dtlc2.tool.queue.IStateQueue=StateDeque")
        with open(tr.replace(".ndjson", ".out"), "w") as f:
            subprocess.run([os.path.join(lib.ROOT, "bin", "tlcx"), "trace/Trace_Tzif.tla", "trace/Trace_Tzif.cfg", "1", "3000"], env=env, stdout=f, stderr=subprocess.STDOUT)
    with ThreadPoolExecutor(max_workers=4) as ex:
        list(ex.map(val, jobs))


def collect(d):
    best = {}
    cnt = collections.Counter()
    for f in sorted(os.listdir(d)):
        if not f.endswith(".ndjson"):
            continue
        outp = os.path.join(d, f.replace(".ndjson", ".out"))
        txt = open(outp, errors="replace").read()
        if "TRACE-ACCEPTED" not in txt:
            raise SystemExit(f"validation did not complete: {outp}")
        evs = [json.loads(l) for l in open(os.path.join(d, f))]
        descs = {e["args"]["zone"]: e["args"]["desc"] for e in evs if e.get("op") == "Tzdb.define"}
        for line in txt.splitlines():
            if not line.startswith('"MISMATCH '):
                continue
            m = json.loads(json.loads(line)[9:])
            ob = m["observed"]
            k = (m["op"], m["cls"], ob.get("kind") if isinstance(ob, dict) else None)
            cnt[k] += 1
            ev = evs[m["i"] - 1]
            desc = descs.get(ev["args"].get("zone"))
            if desc is None:
                continue
            size = (len(desc["trans"]), len(desc["types"]), len(desc["footer"]))
            if k not in best or size < best[k][0]:
                best[k] = (size, m, ev, desc)
    return best, cnt


def main():
    ap = argparse.ArgumentParser()
    ap.add_argument("--seeds", default="1,2,3,4,5,6")
    ap.add_argument("--dir", default=os.path.join(lib.OUT, "harvest"))
    ap.add_argument("--reuse", action="store_true")
    ap.add_argument("--revalidate", action="store_true", help="keep the recorded traces of --dir, run TLC again (after a change of the class labels)")
    a = ap.parse_args()
    a.dir = os.path.abspath(a.dir)
    if a.revalidate:
        produce(None, a.dir, [int(x) for x in a.seeds.split(",")])
    elif not a.reuse:
        produce(lib.build_harness("dev"), a.dir, [int(x) for x in a.seeds.split(",")])
    best, cnt = collect(a.dir)
    kf = json.load(open(TARGET))
    hand = [f for f in kf["findings"] if not f["id"].startswith("C15-synth-")]
    covered = {(f["key"]["op"], f["key"]["cls"], f["key"].get("observed")) for f in hand}
    kf["roots"].update(ROOTS)
    new = []
    per_root = collections.Counter()
    for k in sorted(best):
        if k in covered:
            continue
        op, cls, obs = k
        if obs != "ok":
            raise SystemExit(f"unexpected observed kind, triage by hand: {k}")
        _, m, ev, desc = best[k]
        root = root_of(op, cls)
        per_root[root] += 1
        what = "[%s] synthetic TZif data: %s; %s: table says %s, provider answers %s. %s" % (
            root, describe(desc, ev), query_text(ev), show(m["expected"]), show(m["observed"]), CAUSE[root])
        new.append({"id": "C15-synth-%s-%03d" % (root, per_root[root]), "property": "C15", "key": {"op": op, "cls": cls, "observed": obs}, "what": what})
    kf["findings"] = hand + new
    with open(TARGET, "w") as f:
        json.dump(kf, f, indent=1, ensure_ascii=False)
        f.write("\n")
    print(f"{len(new)} synthetic-data entries written ({dict(per_root)}); {len(hand)} hand-written entries kept")


if __name__ == "__main__":
    main()
