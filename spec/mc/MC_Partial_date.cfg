SPECIFICATION Spec
CONSTANTS
  Receivers <- DateReceivers
  PartialsOf <- DateP
  FromTypes <- FromDate
  NewArgs <- DateNew
  IdentityOn = TRUE
  OneStep = TRUE
INVARIANTS UsesOnlySupplied DefaultsAreZero IdentityLaw ClampNearest RejectSound RejectComplete ConstrainComplete RejectRefinesConstrain TypeErrorIff WellFormed
CHECK_DEADLOCK FALSE
