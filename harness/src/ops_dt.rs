//! PlainDateTime operations (C05).
use crate::js::{self, big, int};
use crate::proj::*;
use serde_json::{json, Value};
use temporal_rs::options::*;
use temporal_rs::*;

pub fn exec(op: &str, a: &Value) -> Option<Value> {
    Some(match op {
        "PlainDateTime.new" => run(|| arg_datetime(&a["dt"]), p_datetime),
        "PlainDateTime.add" => run(|| arg_datetime(&a["recv"])?.add(&arg_duration(&a["dur"])?, arg_ovf(a)), p_datetime),
        "PlainDateTime.subtract" => run(|| arg_datetime(&a["recv"])?.subtract(&arg_duration(&a["dur"])?, arg_ovf(a)), p_datetime),
        "PlainDateTime.until" => run(|| arg_datetime(&a["recv"])?.until(&arg_datetime(&a["other"])?, arg_settings(&a["st"])?), p_duration),
        "PlainDateTime.since" => run(|| arg_datetime(&a["recv"])?.since(&arg_datetime(&a["other"])?, arg_settings(&a["st"])?), p_duration),
        "PlainDateTime.round" => run(|| arg_datetime(&a["recv"])?.round(arg_rounding(&a["st"])?), p_datetime),
        "PlainDateTime.compare" => run(|| Ok(arg_datetime(&a["recv"])?.compare_iso(&arg_datetime(&a["other"])?)), |o| p_ord(*o)),
        _ => return None,
    })
}
