//! Projection functions: real values -> abstract JSON, and JSON arguments -> real values.
//! This (with js.rs) is the only trusted glue between the code under test and the specification.
use crate::js::{self, big, big_f64, int};
use serde_json::{json, Value};
use std::panic::{catch_unwind, AssertUnwindSafe};
use std::str::FromStr;
use temporal_rs::error::ErrorKind;
use temporal_rs::options::*;
use temporal_rs::primitive::FiniteF64;
use temporal_rs::*;

pub fn kind_of(e: &TemporalError) -> &'static str {
    match e.kind() {
        ErrorKind::Generic => "generic",
        ErrorKind::Type => "type",
        ErrorKind::Range => "range",
        ErrorKind::Syntax => "syntax",
        ErrorKind::Assert => "assert",
    }
}

pub fn err(k: &str) -> Value { json!({"kind": k}) }
pub fn ok(v: Value) -> Value { json!({"kind": "ok", "val": v}) }

/// Run one public call; panics are data ("panic"), errors are classified by kind.
pub fn run<T>(f: impl FnOnce() -> TemporalResult<T>, p: impl FnOnce(&T) -> Value) -> Value {
    match catch_unwind(AssertUnwindSafe(|| f().map(|t| p(&t)))) {
        Ok(Ok(v)) => ok(v),
        Ok(Err(e)) => err(kind_of(&e)),
        Err(p) => err(panic_kind(&p)),
    }
}
/// a panic raised by the harness itself (bad generated input) is not an outcome of the code under test
pub fn panic_kind(p: &Box<dyn std::any::Any + Send>) -> &'static str {
    let msg = p.downcast_ref::<String>().map(|s| s.as_str()).or_else(|| p.downcast_ref::<&str>().cloned()).unwrap_or("");
    if msg.starts_with("HARNESS") { "harness-error" } else { "panic" }
}
/// Infallible call (may still panic).
pub fn run_inf<T>(f: impl FnOnce() -> T, p: impl FnOnce(&T) -> Value) -> Value {
    match catch_unwind(AssertUnwindSafe(|| p(&f()))) {
        Ok(v) => ok(v),
        Err(p) => err(panic_kind(&p)),
    }
}

// ---------- arguments ----------
pub fn iso() -> Calendar { Calendar::default() }

pub fn num(v: &Value) -> i128 {
    if let Some(n) = v.as_i64() { n as i128 } else if v.is_object() { js::unbig(v) } else { panic!("not a number: {}", v) }
}
pub fn f64_exact(v: &Value) -> f64 {
    let n = num(v);
    let f = n as f64;
    assert!(f as i128 == n, "HARNESS: generator produced a value not exactly representable as f64: {}", n);
    f
}
pub fn ff(v: &Value) -> FiniteF64 { FiniteF64::try_from(f64_exact(v)).expect("finite") }

pub fn arg_date(v: &Value) -> TemporalResult<PlainDate> {
    let cal = match v.get("cal").and_then(|c| c.as_str()) { Some(c) => Calendar::from_str(c)?, None => iso() };
    PlainDate::try_new(js::i(v, "y") as i32, js::i(v, "m") as u8, js::i(v, "d") as u8, cal)
}
pub fn arg_time(v: &Value) -> TemporalResult<PlainTime> {
    PlainTime::try_new(js::i(v, "h") as u8, js::i(v, "mi") as u8, js::i(v, "s") as u8,
        js::i(v, "ms") as u16, js::i(v, "us") as u16, js::i(v, "ns") as u16)
}
pub fn arg_datetime(v: &Value) -> TemporalResult<PlainDateTime> {
    PlainDateTime::try_new(js::i(v, "y") as i32, js::i(v, "m") as u8, js::i(v, "d") as u8,
        js::i(v, "h") as u8, js::i(v, "mi") as u8, js::i(v, "s") as u8,
        js::i(v, "ms") as u16, js::i(v, "us") as u16, js::i(v, "ns") as u16,
        match v.get("cal").and_then(|c| c.as_str()) { Some(c) => Calendar::from_str(c)?, None => iso() })
}
pub fn arg_instant(v: &Value) -> TemporalResult<Instant> { Instant::try_new(num(v)) }

const DUR_KEYS: [&str; 10] = ["y", "mo", "w", "d", "h", "mi", "s", "ms", "us", "ns"];
pub fn arg_duration(v: &Value) -> TemporalResult<Duration> {
    let f = |k: &str| v.get(k).map(ff).unwrap_or(FiniteF64::from(0i8));
    Duration::new(f("y"), f("mo"), f("w"), f("d"), f("h"), f("mi"), f("s"), f("ms"), f("us"), f("ns"))
}
pub fn arg_unit(s: &str) -> Unit { Unit::from_str(s).unwrap_or_else(|_| match s { "millisecond" => Unit::Millisecond, _ => panic!("unit {}", s) }) }
pub fn arg_mode(s: &str) -> RoundingMode { RoundingMode::from_str(s).unwrap_or_else(|_| panic!("mode {}", s)) }
pub fn arg_ovf(v: &Value) -> Option<ArithmeticOverflow> {
    v.get("ovf").and_then(|o| o.as_str()).map(|s| ArithmeticOverflow::from_str(s).unwrap_or_else(|_| panic!("ovf")))
}
/// {"largest"?, "smallest"?, "inc"?, "mode"?}; an increment outside 1..=1e9 is not constructible -> Err
pub fn arg_settings(v: &Value) -> TemporalResult<DifferenceSettings> {
    let mut st = DifferenceSettings::default();
    if let Some(u) = js::opt_s(v, "largest") { st.largest_unit = Some(arg_unit(u)); }
    if let Some(u) = js::opt_s(v, "smallest") { st.smallest_unit = Some(arg_unit(u)); }
    if let Some(m) = js::opt_s(v, "mode") { st.rounding_mode = Some(arg_mode(m)); }
    if js::has(v, "inc") { st.increment = Some(RoundingIncrement::try_new(js::i(v, "inc") as u32)?); }
    Ok(st)
}
pub fn arg_rounding(v: &Value) -> TemporalResult<RoundingOptions> {
    let mut st = RoundingOptions::default(); st.largest_unit = None; st.smallest_unit = None; st.rounding_mode = None; st.increment = None;
    if let Some(u) = js::opt_s(v, "largest") { st.largest_unit = Some(arg_unit(u)); }
    if let Some(u) = js::opt_s(v, "smallest") { st.smallest_unit = Some(arg_unit(u)); }
    if let Some(m) = js::opt_s(v, "mode") { st.rounding_mode = Some(arg_mode(m)); }
    if js::has(v, "inc") { st.increment = Some(RoundingIncrement::try_new(js::i(v, "inc") as u32)?); }
    Ok(st)
}

// ---------- projections (through public getters) ----------
pub fn p_date(d: &PlainDate) -> Value {
    json!({"y": int(d.year() as i64), "m": int(d.month() as i64), "d": int(d.day() as i64)})
}
pub fn p_time(t: &PlainTime) -> Value {
    json!({"h": t.hour(), "mi": t.minute(), "s": t.second(), "ms": t.millisecond(), "us": t.microsecond(), "ns": t.nanosecond()})
}
pub fn p_datetime(t: &PlainDateTime) -> Value {
    json!({"y": int(t.iso_year() as i64), "m": t.iso_month(), "d": t.iso_day(),
           "h": t.hour(), "mi": t.minute(), "s": t.second(), "ms": t.millisecond(), "us": t.microsecond(), "ns": t.nanosecond()})
}
pub fn p_instant(i: &Instant) -> Value { big(i.as_i128()) }
pub fn p_duration(d: &Duration) -> Value {
    json!({"y": big_f64(d.years().as_inner()), "mo": big_f64(d.months().as_inner()), "w": big_f64(d.weeks().as_inner()),
           "d": big_f64(d.days().as_inner()), "h": big_f64(d.hours().as_inner()), "mi": big_f64(d.minutes().as_inner()),
           "s": big_f64(d.seconds().as_inner()), "ms": big_f64(d.milliseconds().as_inner()),
           "us": big_f64(d.microseconds().as_inner()), "ns": big_f64(d.nanoseconds().as_inner())})
}
pub fn p_ord(o: std::cmp::Ordering) -> Value { json!(o as i8) }
pub fn p_str(s: &str) -> Value { json!(s) }
pub fn p_chars(s: &str) -> Value { Value::Array(s.chars().map(|c| json!(c.to_string())).collect()) }
pub fn dur_keys() -> &'static [&'static str] { &DUR_KEYS }

/// exact decomposition of a double: x = m * 2^e with m an integer (as big) — for totals
pub fn p_f64(x: f64) -> Value {
    if x == 0.0 { return json!({"m": big(0), "e": 0}); }
    let bits = x.to_bits();
    let sign: i128 = if (bits >> 63) == 1 { -1 } else { 1 };
    let exp = ((bits >> 52) & 0x7ff) as i64;
    let frac = (bits & ((1u64 << 52) - 1)) as i128;
    let (mut m, mut e) = if exp == 0 { (frac, -1074i64) } else { (frac | (1i128 << 52), exp - 1075) };
    while m % 2 == 0 && e < 0 { m /= 2; e += 1; }
    json!({"m": big(sign * m), "e": int(e)})
}
pub fn arg_relative(v: &Value) -> TemporalResult<Option<temporal_rs::options::RelativeTo>> {
    if v.is_null() { return Ok(None); }
    Ok(Some(temporal_rs::options::RelativeTo::PlainDate(arg_date(v)?)))
}
