SPECIFICATION Spec
CONSTANTS
  DaySec = 24
  Disk0 <- ToyDisk
  Workload <- OffsetQueries
  Once = FALSE
  OneStep = TRUE
INVARIANTS LawIdx LawAnswer LawPiecewise LawBeforeFirst
CHECK_DEADLOCK FALSE
