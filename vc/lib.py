"""Shared machinery for bin/vcheck: TLC runs, harness runs, findings, evidence."""
import json, os, re, shutil, subprocess, sys, time, hashlib

ROOT = os.path.dirname(os.path.dirname(os.path.abspath(__file__)))
SPEC = os.path.join(ROOT, "spec")
HARNESS = os.path.join(ROOT, "harness")
OUT = os.path.join(ROOT, "out")
EVID = os.path.join(ROOT, "evidence")
KNOWN = os.path.join(ROOT, "known_findings.json")
# The registered checks always run against /repo. VERIF_REPO points the same machinery at a scratch copy
# (used only to try seeded breaking changes without disturbing /repo).
REPO = os.environ.get("VERIF_REPO", "/repo")
DEFAULT_SEED = 20260927


class ToolError(Exception):
    pass


def log(*a):
    print(*a, flush=True)


def sh(cmd, cwd=None, env=None, timeout=None, stdout=None):
    e = dict(os.environ)
    if env:
        e.update(env)
    return subprocess.run(cmd, cwd=cwd, env=e, timeout=timeout, stdout=stdout or subprocess.PIPE,
                          stderr=subprocess.STDOUT, text=True, shell=isinstance(cmd, str))


_built = {}


def build_harness(profile="dev"):
    """cargo build the harness against /repo's current working tree."""
    if profile in _built:
        return _built[profile]
    hdir = HARNESS
    if REPO != "/repo":
        # scratch copy of the harness whose path dependencies point at the alternative tree
        hdir = os.path.join(OUT, "harness_alt_" + hashlib.md5(REPO.encode()).hexdigest()[:8])
        os.makedirs(hdir, exist_ok=True)
        sh(["rsync", "-a", "--delete", "--exclude", "target", HARNESS + "/", hdir + "/"])
        ct = open(os.path.join(hdir, "Cargo.toml")).read().replace('"/repo', '"' + REPO)
        open(os.path.join(hdir, "Cargo.toml"), "w").write(ct)
    lock = os.path.join(hdir, "Cargo.lock")
    if not os.path.exists(lock):
        shutil.copy(os.path.join(REPO, "Cargo.lock"), lock)
    cmd = ["cargo", "build", "--offline", "-q"] + (["--release"] if profile == "release" else [])
    t0 = time.time()
    env = {"CARGO_NET_OFFLINE": "true"}
    # serialise concurrent builds (several vcheck processes may run at once)
    import fcntl
    with open(os.path.join(hdir, ".build.lock"), "w") as lk:
        fcntl.flock(lk, fcntl.LOCK_EX)
        r = sh(cmd, cwd=hdir, env=env, timeout=1800)
    if r.returncode != 0:
        # a tree that does not compile is a tool error, not a verdict
        raise ToolError("harness build failed:\n" + r.stdout[-4000:])
    binp = os.path.join(hdir, "target", "release" if profile == "release" else "debug", "tvh")
    log(f"[build] harness ({profile}) {time.time()-t0:.1f}s")
    _built[profile] = binp
    return binp


class Run:
    def __init__(self, prop, tier, seed):
        self.prop, self.tier, self.seed = prop, tier, seed
        self.t0 = time.time()
        self.dir = os.path.join(OUT, prop)
        shutil.rmtree(self.dir, ignore_errors=True)
        os.makedirs(self.dir, exist_ok=True)
        self.cov = dict(states=0, transitions=0, traces_validated_against_impl=0, samples=[],
                        evaluations=0, distinct_nontrivial=0, rule="", mc_runs=[], replay_runs=[],
                        trace_runs=[], negative_controls=[], apalache=[])
        self.mismatches = []      # candidate violations: dict(op, cls, ...)
        self.assumptions = []
        self.exhaustive = False
        self._distinct = set()

    # ---------- TLC ----------
    def _tlc(self, module, cfg, workers, timeout, extra_env=None, extra_args=None, tag=None):
        tag = tag or os.path.splitext(os.path.basename(cfg))[0]
        meta = os.path.join(self.dir, "tlc_" + tag)
        shutil.rmtree(meta, ignore_errors=True)
        outp = os.path.join(self.dir, tag + ".tlc.out")
        jopts = "-DTLA-Library=" + SPEC + ":" + os.path.join(SPEC, "mc") + ":" + os.path.join(SPEC, "gen") + ":" + os.path.join(SPEC, "trace")
        env = {"JAVA_TOOL_OPTIONS": jopts + " -Xss1g"}
        if extra_env:
            if "JAVA_TOOL_OPTIONS" in extra_env:
                env["JAVA_TOOL_OPTIONS"] += " " + extra_env.pop("JAVA_TOOL_OPTIONS")
            env.update(extra_env)
        cmd = ["timeout", str(timeout), "tlc", "-workers", str(workers), "-metadir", meta, "-cleanup",
               "-noGenerateSpecTE", "-config", cfg] + (extra_args or []) + [module]
        t0 = time.time()
        with open(outp, "w") as f:
            r = sh(cmd, cwd=os.path.dirname(module), env=env, stdout=f)
        shutil.rmtree(meta, ignore_errors=True)
        txt = open(outp, errors="replace").read()
        return r.returncode, txt, outp, time.time() - t0

    @staticmethod
    def _stats(txt):
        m = re.search(r"(\d+) states generated, (\d+) distinct states found", txt)
        if not m:
            return 0, 0
        return int(m.group(2)), int(m.group(1))

    def mc(self, module, cfg, workers=8, timeout=1200, coverage=True, require_actions=()):
        """Model-check a bounded instance. Any failure here is a *spec/tool* error (exit 2)."""
        module = os.path.join(SPEC, module)
        cfg = os.path.join(SPEC, cfg)
        args = ["-coverage", "1"] if coverage else []
        rc, txt, outp, dt = self._tlc(module, cfg, workers, timeout, extra_args=args)
        states, trans = self._stats(txt)
        if rc != 0 or "No error has been found" not in txt:
            raise ToolError(f"model checking failed for {cfg} (rc={rc}); see {outp}\n" + _tail(txt))
        if states == 0:
            raise ToolError(f"vacuous model (0 states) {cfg}")
        # vacuity: every action named in require_actions must have been taken
        for a in require_actions:
            m = re.search(r"<%s line[^>]*>: (\d+):(\d+)" % re.escape(a), txt)
            if not m or int(m.group(2)) == 0:
                raise ToolError(f"action {a} never taken in {cfg} (vacuity guard)")
        self.cov["states"] += states
        self.cov["transitions"] += trans
        self.cov["mc_runs"].append(dict(cfg=os.path.relpath(cfg, ROOT), states=states, transitions=trans, wall_s=round(dt, 1)))
        log(f"[mc] {os.path.basename(cfg)}: {states} distinct states, {trans} transitions, {dt:.1f}s")
        return states, trans

    def gen(self, module, cfg, workers=8, timeout=1200, extra_args=None, name=None):
        """Run a generator spec; collect the CASE lines it prints into an NDJSON file."""
        module = os.path.join(SPEC, module)
        cfg = os.path.join(SPEC, cfg)
        rc, txt, outp, dt = self._tlc(module, cfg, workers, timeout, extra_args=extra_args, tag="gen_" + (name or os.path.splitext(os.path.basename(cfg))[0]))
        if rc != 0 or ("No error has been found" not in txt and "Finished in" not in txt) or "Error:" in txt:
            raise ToolError(f"generator failed for {cfg} (rc={rc}); see {outp}\n" + _tail(txt))
        cases = os.path.join(self.dir, (name or os.path.splitext(os.path.basename(cfg))[0]) + ".cases.ndjson")
        n = 0
        with open(cases, "w") as f:
            for line in txt.splitlines():
                if line.startswith('"CASE '):
                    s = json.loads(line)[5:]
                    f.write(s + "\n")
                    n += 1
        if n == 0:
            raise ToolError(f"generator produced no cases: {cfg}")
        states, trans = self._stats(txt)
        self.cov["states"] += states
        self.cov["transitions"] += trans
        self.cov["mc_runs"].append(dict(cfg=os.path.relpath(cfg, ROOT), states=states, transitions=trans, cases=n, wall_s=round(dt, 1)))
        log(f"[gen] {os.path.basename(cfg)}: {n} cases ({states} states), {dt:.1f}s")
        return cases, n

    # ---------- harness ----------
    def harness(self, binp, args, timeout=3600, env=None):
        t0 = time.time()
        e = {"VERIF_SEED": str(self.seed), "VERIF_TIER": self.tier}
        if env:
            e.update(env)
        r = sh([binp] + [str(a) for a in args], cwd=self.dir, env=e, timeout=timeout)
        if r.returncode != 0:
            raise ToolError(f"harness {' '.join(map(str,args))} failed rc={r.returncode}\n" + _tail(r.stdout))
        return r.stdout, time.time() - t0

    def replay(self, binp, cases, label=None, profile="dev", extra=()):
        """Step the real API through generated cases. Returns number of cases; mismatches are recorded."""
        label = label or os.path.basename(cases).replace(".cases.ndjson", "")
        rep = os.path.join(self.dir, f"{label}.{profile}.report.ndjson")
        out, dt = self.harness(binp, ["replay", cases, rep] + list(extra))
        summ = json.loads(out.strip().splitlines()[-1])
        mm = [json.loads(l) for l in open(rep)]
        for m in mm:
            m["direction"] = "replay"
            m["profile"] = profile
            m["source"] = os.path.relpath(cases, ROOT)
        self.mismatches += mm
        self.cov["evaluations"] += summ["cases"]
        self.cov["replay_runs"].append(dict(cases=summ["cases"], mismatches=len(mm), label=label, profile=profile,
                                            wall_s=round(dt, 1), **{k: v for k, v in summ.items() if k not in ("cases", "mismatches", "samples")}))
        for s in summ.get("samples", [])[:2]:
            self._sample(s)
        log(f"[replay] {label} ({profile}): {summ['cases']} cases, {len(mm)} mismatches, {dt:.1f}s")
        return summ

    def record(self, binp, driver, n, label=None, profile="dev", extra=()):
        label = label or driver
        tr = os.path.join(self.dir, f"{label}.{profile}.trace.ndjson")
        out, dt = self.harness(binp, ["record", driver, self.seed, n, tr] + list(extra))
        if os.path.exists(tr + ".timeout"):      # the watchdog ended the recording: the call that did not return is the last event
            with open(tr, "a") as f:
                f.write(open(tr + ".timeout").read())
            log(f"[record] {label} ({profile}): a call did not return within the watchdog limit; recorded as outcome 'timeout'")
        cnt = sum(1 for _ in open(tr))
        log(f"[record] {label} ({profile}): {cnt} events, {dt:.1f}s")
        return tr

    def validate(self, module, cfg, trace, timeout=1800, label=None, count=True, expect_reject=False, split=40000, jobs=5):
        """impl -> spec: TLC decides whether the recorded trace is a behaviour of the trace spec.
        Trace validation is a single chain (one TLC worker); a long trace is cut at session boundaries ("reset" events, after
        which every trace spec is back in its initial state) and the parts are validated by concurrent TLC processes."""
        label = label or os.path.basename(trace).replace(".trace.ndjson", "")
        if not expect_reject:
            parts = self._split_trace(trace, split)
            if len(parts) > 1:
                from concurrent.futures import ThreadPoolExecutor
                with ThreadPoolExecutor(max_workers=jobs) as ex:
                    res = list(ex.map(lambda kp: self._validate_one(module, cfg, kp[1], timeout, f"{label}.p{kp[0]:02d}", count, False), enumerate(parts)))
                return all(r[0] for r in res), [m for r in res for m in r[1]]
        return self._validate_one(module, cfg, trace, timeout, label, count, expect_reject)

    def _split_trace(self, trace, split):
        lines = open(trace).read().splitlines(True)
        if len(lines) <= split * 3 // 2:
            return [trace]
        parts, cur = [], []
        for ln in lines:
            cur.append(ln)
            if len(cur) >= split and ln.startswith('{"op":"reset"'):
                parts.append(cur)
                cur = []
        if cur:
            parts.append(cur)
        if len(parts) < 2:
            return [trace]
        out = []
        for k, p_ in enumerate(parts):
            f = trace.replace(".trace.ndjson", "") + f".p{k:02d}.trace.ndjson"
            with open(f, "w") as fh:
                fh.writelines(p_)
            out.append(f)
        return out

    def _validate_one(self, module, cfg, trace, timeout=1800, label=None, count=True, expect_reject=False):
        module_p = os.path.join(SPEC, module)
        cfg_p = os.path.join(SPEC, cfg)
        env = {"TRACE": trace, "JAVA_TOOL_OPTIONS": "-Dtlc2.tool.queue.IStateQueue=StateDeque"}
        label = label or os.path.basename(trace).replace(".trace.ndjson", "")
        rc, txt, outp, dt = self._tlc(module_p, cfg_p, 1, timeout, extra_env=env, tag="val_" + label)
        nev = sum(1 for _ in open(trace))
        mm = []
        for line in txt.splitlines():
            if line.startswith('"MISMATCH '):
                mm.append(json.loads(json.loads(line)[9:]))
        accepted = "TRACE-ACCEPTED" in txt and "No error has been found" in txt
        # an invariant of the trace spec (e.g. "the cursor is a well-formed in-range value") violated by a state that was
        # resynchronised from what the implementation reported is a verdict about the implementation, not a tool error
        inv = re.search(r"Error: Invariant (\w+) is violated", txt)
        inv_mm = None
        if inv and not accepted:
            ls = [int(x) for x in re.findall(r"^/\\ l = (\d+)", txt, flags=re.M)]
            at = (max(ls) - 1) if ls else 0
            inv_mm = dict(i=at, op=None, cls="invariant/" + inv.group(1), expected="trace-spec invariant " + inv.group(1) + " holds in every state",
                          observed=dict(kind="invariant-violated"))
        # TLC could not even evaluate the trace spec on an event (an operator applied outside its domain: index out of range,
        # missing record field, non-enumerable value ...). The trace specs are total on every well-formed outcome, and on the
        # unchanged tree this never happens; when it does, the implementation logged something outside the specification's
        # vocabulary. It is reported as a candidate violation of class "spec-evaluation-failed" at the event reached.
        if not accepted and inv_mm is None and re.search(r"Error: (TLC threw|The error occurred|Attempted to|The first argument|In evaluation)", txt) and not expect_reject:
            ls = [int(x) for x in re.findall(r"^/\\ l = (\d+)", txt, flags=re.M)]
            at = max(ls) if ls else 0
            reason = re.search(r"(Attempted to[^\n]*|The first argument[^\n]*|which is out of bounds[^\n]*)", txt)
            inv_mm = dict(i=at, op=None, cls="spec-evaluation-failed", expected="an outcome within the specification's vocabulary",
                          observed=dict(kind="unexplainable", reason=reason.group(1) if reason else "TLC evaluation error"))
        if expect_reject:
            return (not accepted) or len(mm) > 0, mm
        if not accepted and inv_mm is None:
            raise ToolError(f"trace validation did not complete for {trace} (rc={rc}); see {outp}\n" + _tail(txt))
        sessions = 0
        with open(trace) as f:
            evs = [json.loads(l) for l in f]
        sessions = sum(1 for e in evs if e.get("op") == "reset") + 1
        if inv_mm is not None:
            if 1 <= inv_mm["i"] <= len(evs):
                inv_mm["op"] = evs[inv_mm["i"] - 1].get("op")
                inv_mm["observed"]["val"] = evs[inv_mm["i"] - 1].get("out")
            mm.append(inv_mm)
            log(f"[validate] {label}: trace-spec invariant violated at event {inv_mm['i']} (events after it were not examined)")
        for m in mm:
            m["direction"] = "trace"
            m["source"] = os.path.relpath(trace, ROOT)
            i = m.get("i")
            if i and 1 <= i <= len(evs):
                m["event"] = evs[i - 1]
        self.mismatches += mm
        if count:
            self.cov["traces_validated_against_impl"] += sessions
            self.cov["evaluations"] += nev
            self.cov["trace_runs"].append(dict(label=label, events=nev, sessions=sessions, mismatches=len(mm), wall_s=round(dt, 1)))
            for e in evs[:400:150]:
                self._sample(e)
        log(f"[validate] {label}: {nev} events in {sessions} sessions, {len(mm)} mismatches, {dt:.1f}s")
        return accepted, mm

    def negative_control_trace(self, module, cfg, trace, corrupt):
        """Corrupt one field of a recorded trace; the trace spec must object."""
        evs = [json.loads(l) for l in open(trace)]
        ok = corrupt(evs)
        if not ok:
            raise ToolError("negative control could not find an event to corrupt")
        bad = trace.replace(".trace.ndjson", ".corrupt.trace.ndjson")
        with open(bad, "w") as f:
            for e in evs:
                f.write(json.dumps(e) + "\n")
        rejected, mm = self.validate(module, cfg, bad, label="negctl_" + os.path.basename(trace)[:20], count=False, expect_reject=True)
        self.cov["negative_controls"].append(dict(kind="trace", rejected=bool(rejected)))
        if not rejected:
            raise ToolError("negative control: corrupted trace was ACCEPTED (binding broken)")
        log("[negctl] corrupted trace rejected as expected")

    def negative_control_replay(self, binp, cases, corrupt, limit=400):
        lines = []
        with open(cases) as f:
            for i, l in enumerate(f):
                if i >= limit:
                    break
                lines.append(json.loads(l))
        if not corrupt(lines):
            raise ToolError("negative control could not find a case to corrupt")
        bad = os.path.join(self.dir, "negctl.cases.ndjson")
        with open(bad, "w") as f:
            for e in lines:
                f.write(json.dumps(e) + "\n")
        rep = os.path.join(self.dir, "negctl.report.ndjson")
        self.harness(binp, ["replay", bad, rep])
        n = sum(1 for _ in open(rep))
        self.cov["negative_controls"].append(dict(kind="replay", detected=n))
        if n == 0:
            raise ToolError("negative control: corrupted expectation was NOT detected by replay")
        log(f"[negctl] corrupted case detected by replay ({n} mismatch lines)")

    def apalache(self, module, inv, length=0, init=None, timeout=900, cinit=None):
        module_p = os.path.join(SPEC, "apa", module)
        od = os.path.join(self.dir, "apalache_" + inv)
        cmd = ["timeout", str(timeout), "apalache-mc", "check", f"--inv={inv}", f"--length={length}", f"--out-dir={od}"]
        if init:
            cmd.append(f"--init={init}")
        if cinit:
            cmd.append(f"--cinit={cinit}")
        cmd.append(module_p)
        t0 = time.time()
        r = sh(cmd, cwd=os.path.join(SPEC, "apa"))
        dt = time.time() - t0
        shutil.rmtree(od, ignore_errors=True)
        ok = "The outcome is: NoError" in r.stdout
        self.cov["apalache"].append(dict(module=module, inv=inv, ok=ok, wall_s=round(dt, 1)))
        if not ok:
            raise ToolError(f"apalache {module} {inv} failed:\n" + _tail(r.stdout))
        log(f"[apalache] {module} {inv}: NoError, {dt:.1f}s")

    # ---------- bookkeeping ----------
    def _sample(self, s):
        if len(self.cov["samples"]) < 8:
            self.cov["samples"].append(s)

    def distinct(self, key):
        self._distinct.add(key)

    def finish(self):
        known = load_known()
        mine = [k for k in known.get("findings", []) if k["property"] == self.prop]
        hit = {}
        viol = []
        for m in self.mismatches:
            k = match_known(m, mine)
            if k is None:
                viol.append(m)
            else:
                hit.setdefault(k["id"], [k, 0])
                hit[k["id"]][1] += 1
        for kid, (k, cnt) in sorted(hit.items()):
            log(f"KNOWN-FINDING: property={self.prop} {k['what']} [key={k['id']} absorbed={cnt}]")
        self.cov["known_findings_absorbed"] = {kid: c for kid, (k, c) in hit.items()}
        rc = 0
        if viol:
            rc = 1
            groups = {}
            for m in viol:
                groups.setdefault((m.get("op"), m.get("cls"), obs_kind(m)), []).append(m)
            vdir = os.path.join(self.dir, "violations")
            os.makedirs(vdir, exist_ok=True)
            for gi, ((op, cls, ok_), ms) in enumerate(sorted(groups.items(), key=lambda x: str(x[0]))):
                path = os.path.join(vdir, f"v{gi:03d}.json")
                with open(path, "w") as f:
                    json.dump(dict(property=self.prop, op=op, cls=cls, count=len(ms), seed=self.seed, first=ms[0], more=ms[1:5]), f, indent=1)
                log(f"VIOLATION property={self.prop} replay={path}   ({len(ms)} x op={op} cls={cls} observed={ok_})")
        self.write_evidence(len(viol))
        return rc

    def write_evidence(self, nviol):
        cov = self.cov
        if not cov["samples"]:
            cov["samples"] = [{"note": "no sample captured"}]
        if self._distinct:
            cov["distinct_nontrivial"] = len(self._distinct)
        cov["exhaustive"] = bool(self.exhaustive)
        ev = dict(property_id=self.prop, tier=self.tier, seed=int(self.seed), level="model_checking",
                  coverage=cov, assumptions=self.assumptions, wall_s=round(time.time() - self.t0, 1), violations=nviol)
        # a run against a scratch copy of the repository (VERIF_REPO, used to try the checks on changed code) is not evidence
        # about /repo: its record goes next to its other outputs
        evid = EVID if not os.environ.get("VERIF_REPO") else self.dir
        os.makedirs(evid, exist_ok=True)
        with open(os.path.join(evid, self.prop + (".json" if evid == EVID else ".evidence.json")), "w") as f:
            json.dump(ev, f, indent=1)


def load_known():
    """known_findings.json plus per-property files known_findings.d/*.json (same shape)."""
    import glob
    known = json.load(open(KNOWN)) if os.path.exists(KNOWN) else {"findings": [], "fixed": []}
    for f in sorted(glob.glob(os.path.join(ROOT, "known_findings.d", "*.json"))):
        k = json.load(open(f))
        known["findings"] += k.get("findings", [])
        known["fixed"] += k.get("fixed", [])
    return known


def obs_kind(m):
    o = m.get("observed")
    return o.get("kind") if isinstance(o, dict) else None


def match_known(m, known):
    """A known finding silences exactly its own (op, cls[, observed kind])."""
    for k in known:
        key = k["key"]
        if key.get("op") != m.get("op"):
            continue
        if "cls" in key and key["cls"] != m.get("cls"):
            continue
        if "observed" in key and key["observed"] != obs_kind(m):
            continue
        return k
    return None


def _tail(txt, n=40):
    ls = [l for l in txt.splitlines() if not l.startswith('"CASE ')]
    return "\n".join(ls[-n:])


def main_wrapper(fn, prop, tier, seed):
    run = Run(prop, tier, seed)
    try:
        fn(run)
        rc = run.finish()
    except ToolError as e:
        log(f"TOOL-ERROR property={prop}: {e}")
        rc = 2
        # disagreements found before the pipeline broke are reported all the same: a change that breaks the property often
        # breaks a later step's preconditions too (nothing left for a negative control to corrupt), and that must not hide it
        if run.mismatches:
            try:
                if run.finish() == 1:
                    rc = 1
            except Exception:
                pass
    except subprocess.TimeoutExpired as e:
        log(f"TOOL-ERROR property={prop}: timeout {e}")
        rc = 2
    except Exception:
        # a defect of the machinery itself is a tool error too, never a verdict (an uncaught exception would exit with 1)
        import traceback
        log(f"TOOL-ERROR property={prop}: unexpected exception in the pipeline\n" + traceback.format_exc())
        rc = 2
    log(f"[done] {prop} {tier} rc={rc} wall={time.time()-run.t0:.1f}s")
    return rc
