//! Enum conversions of the FFI layer (`#[diplomat::enum_convert]`): every variant through `From` in both directions.
//!
//! FFI enums derive nothing but Clone/Copy, so a variant is identified by the identifier token it is written with
//! here (`stringify!` of the very token that selects the variant) and by its C discriminant; core enums by their
//! `Debug` name. `capi.enum.<E>` (FFI side): variant token -> {disc, to_core: Debug of From<ffi>};
//! `enum.<E>` (core side): variant token -> {disc: discriminant of From<core>, to_core: Debug of the core variant}.
use super::capi::{runc, CErr};
use super::*;
use icu_calendar::any_calendar::AnyCalendarKind as IcuKind;
use temporal_capi::calendar::ffi as fc;
use temporal_capi::duration::ffi as fd;
use temporal_capi::error::ffi as fe;
use temporal_capi::options::ffi as fo;

macro_rules! table {
    ($f:ident, $c:ident, $lf:ident, $lc:ident, $ffi:ty, $core:ty, [$($v:ident),*] $(, $wild:tt)?) => {
        fn $f(variant: &str) -> Option<Value> {
            $( if variant == stringify!($v) { let f = <$ffi>::$v; let c: $core = f.into(); return Some(json!({"disc": f as i64, "to_core": format!("{:?}", c)})); } )*
            None
        }
        fn $c(variant: &str) -> Option<Value> {
            $( if variant == stringify!($v) { let c = <$core>::$v; let f: $ffi = c.into(); return Some(json!({"disc": f as i64, "to_core": format!("{:?}", c)})); } )*
            None
        }
        /// compile-time completeness of the variant list on both sides
        #[allow(dead_code, unreachable_patterns)]
        fn $lf(x: $ffi) -> &'static str { match x { $( <$ffi>::$v => stringify!($v), )* } }
        #[allow(dead_code, unreachable_patterns)]
        fn $lc(x: $core) -> &'static str { match x { $( <$core>::$v => stringify!($v), )* $( $wild => "?", )? } }
    };
}

table!(unit_f, unit_c, unit_lf, unit_lc, fo::Unit, Unit, [Auto, Nanosecond, Microsecond, Millisecond, Second, Minute, Hour, Day, Week, Month, Year]);
table!(mode_f, mode_c, mode_lf, mode_lc, fo::RoundingMode, RoundingMode, [Ceil, Floor, Expand, Trunc, HalfCeil, HalfFloor, HalfExpand, HalfTrunc, HalfEven]);
table!(umode_f, umode_c, umode_lf, umode_lc, fo::UnsignedRoundingMode, UnsignedRoundingMode, [Infinity, Zero, HalfInfinity, HalfZero, HalfEven]);
table!(ovf_f, ovf_c, ovf_lf, ovf_lc, fo::ArithmeticOverflow, ArithmeticOverflow, [Constrain, Reject]);
table!(dovf_f, dovf_c, dovf_lf, dovf_lc, fo::DurationOverflow, DurationOverflow, [Constrain, Balance]);
table!(dis_f, dis_c, dis_lf, dis_lc, fo::Disambiguation, Disambiguation, [Compatible, Earlier, Later, Reject]);
table!(odis_f, odis_c, odis_lf, odis_lc, fo::OffsetDisambiguation, OffsetDisambiguation, [Use, Prefer, Ignore, Reject]);
table!(dcal_f, dcal_c, dcal_lf, dcal_lc, fo::DisplayCalendar, DisplayCalendar, [Auto, Always, Never, Critical]);
table!(doff_f, doff_c, doff_lf, doff_lc, fo::DisplayOffset, DisplayOffset, [Auto, Never]);
table!(dtz_f, dtz_c, dtz_lf, dtz_lc, fo::DisplayTimeZone, DisplayTimeZone, [Auto, Never, Critical]);
table!(sign_f, sign_c, sign_lf, sign_lc, fd::Sign, Sign, [Positive, Zero, Negative]);
table!(ek_f, ek_c, ek_lf, ek_lc, fe::ErrorKind, temporal_rs::error::ErrorKind, [Generic, Type, Range, Syntax, Assert]);
table!(kind_f, kind_c, kind_lf, kind_lc, fc::AnyCalendarKind, IcuKind, [Buddhist, Chinese, Coptic, Dangi, Ethiopian, EthiopianAmeteAlem, Gregorian, Hebrew, Indian,
    IslamicCivil, IslamicObservational, IslamicTabular, IslamicUmmAlQura, Iso, Japanese, JapaneseExtended, Persian, Roc], _);

fn wrap(v: Option<Value>) -> Value {
    match v { Some(v) => ok(v), None => json!({"kind": "unknown-variant"}) }
}
fn guarded(f: impl FnOnce() -> Option<Value> + std::panic::UnwindSafe) -> Value {
    match std::panic::catch_unwind(f) { Ok(v) => wrap(v), Err(_) => err("panic") }
}

pub fn ffi(e: &str, a: &Value) -> Option<Value> {
    let v = a.get("variant").and_then(|x| x.as_str()).unwrap_or("").to_string();
    Some(match e {
        "Unit" => guarded(move || unit_f(&v)), "RoundingMode" => guarded(move || mode_f(&v)), "UnsignedRoundingMode" => guarded(move || umode_f(&v)),
        "ArithmeticOverflow" => guarded(move || ovf_f(&v)), "DurationOverflow" => guarded(move || dovf_f(&v)), "Disambiguation" => guarded(move || dis_f(&v)),
        "OffsetDisambiguation" => guarded(move || odis_f(&v)), "DisplayCalendar" => guarded(move || dcal_f(&v)), "DisplayOffset" => guarded(move || doff_f(&v)),
        "DisplayTimeZone" => guarded(move || dtz_f(&v)), "Sign" => guarded(move || sign_f(&v)), "ErrorKind" => guarded(move || ek_f(&v)),
        "AnyCalendarKind" => guarded(move || kind_f(&v)),
        _ => return None,
    })
}
pub fn core(e: &str, a: &Value) -> Option<Value> {
    let v = a.get("variant").and_then(|x| x.as_str()).unwrap_or("").to_string();
    Some(match e {
        "Unit" => guarded(move || unit_c(&v)), "RoundingMode" => guarded(move || mode_c(&v)), "UnsignedRoundingMode" => guarded(move || umode_c(&v)),
        "ArithmeticOverflow" => guarded(move || ovf_c(&v)), "DurationOverflow" => guarded(move || dovf_c(&v)), "Disambiguation" => guarded(move || dis_c(&v)),
        "OffsetDisambiguation" => guarded(move || odis_c(&v)), "DisplayCalendar" => guarded(move || dcal_c(&v)), "DisplayOffset" => guarded(move || doff_c(&v)),
        "DisplayTimeZone" => guarded(move || dtz_c(&v)), "Sign" => guarded(move || sign_c(&v)), "ErrorKind" => guarded(move || ek_c(&v)),
        "AnyCalendarKind" => guarded(move || kind_c(&v)),
        _ => return None,
    })
}

const KINDS: [(&str, fc::AnyCalendarKind, IcuKind); 18] = [
    ("Buddhist", fc::AnyCalendarKind::Buddhist, IcuKind::Buddhist), ("Chinese", fc::AnyCalendarKind::Chinese, IcuKind::Chinese),
    ("Coptic", fc::AnyCalendarKind::Coptic, IcuKind::Coptic), ("Dangi", fc::AnyCalendarKind::Dangi, IcuKind::Dangi),
    ("Ethiopian", fc::AnyCalendarKind::Ethiopian, IcuKind::Ethiopian), ("EthiopianAmeteAlem", fc::AnyCalendarKind::EthiopianAmeteAlem, IcuKind::EthiopianAmeteAlem),
    ("Gregorian", fc::AnyCalendarKind::Gregorian, IcuKind::Gregorian), ("Hebrew", fc::AnyCalendarKind::Hebrew, IcuKind::Hebrew),
    ("Indian", fc::AnyCalendarKind::Indian, IcuKind::Indian), ("IslamicCivil", fc::AnyCalendarKind::IslamicCivil, IcuKind::IslamicCivil),
    ("IslamicObservational", fc::AnyCalendarKind::IslamicObservational, IcuKind::IslamicObservational), ("IslamicTabular", fc::AnyCalendarKind::IslamicTabular, IcuKind::IslamicTabular),
    ("IslamicUmmAlQura", fc::AnyCalendarKind::IslamicUmmAlQura, IcuKind::IslamicUmmAlQura), ("Iso", fc::AnyCalendarKind::Iso, IcuKind::Iso),
    ("Japanese", fc::AnyCalendarKind::Japanese, IcuKind::Japanese), ("JapaneseExtended", fc::AnyCalendarKind::JapaneseExtended, IcuKind::JapaneseExtended),
    ("Persian", fc::AnyCalendarKind::Persian, IcuKind::Persian), ("Roc", fc::AnyCalendarKind::Roc, IcuKind::Roc),
];

/// capi.AnyCalendarKind.get_for_bcp47_string: the FFI variant is named through its discriminant and the list above
pub fn kind_ffi(m: &str, a: &Value) -> Option<Value> {
    Some(match m {
        "get_for_bcp47_string" => runc(|| Ok::<_, CErr>(fc::AnyCalendarKind::get_for_bcp47_string(js::s(a, "src").as_bytes())), |k| match k {
            Some(k) => KINDS.iter().find(|x| x.1 as i64 == *k as i64).map(|x| json!([x.0])).unwrap_or(json!(["?"])),
            None => json!([]),
        }),
        _ => return None,
    })
}
pub fn kind_core(m: &str, a: &Value) -> Option<Value> {
    Some(match m {
        "get_for_bcp47_bytes" => run(|| Ok(IcuKind::get_for_bcp47_bytes(js::s(a, "src").as_bytes())), |k| match k { Some(k) => json!([format!("{:?}", k)]), None => json!([]) }),
        _ => return None,
    })
}
pub fn calendar_create_ffi(a: &Value) -> Option<Value> {
    Some(runc(|| { let k = KINDS.iter().find(|x| x.0 == js::s(a, "kind")).expect("kind"); Ok::<_, CErr>(fc::Calendar::create(k.1)) }, |c| json!(c.identifier())))
}
pub fn calendar_new_core(a: &Value) -> Option<Value> {
    Some(run(|| { let k = KINDS.iter().find(|x| x.0 == js::s(a, "kind")).expect("kind"); Ok(Calendar::new(k.2)) }, |c| json!(c.identifier())))
}
