SPECIFICATION Spec
CONSTANTS
  Receivers <- TReceivers
  ArgPool <- TPool
  OneStep = TRUE
INVARIANTS DistinctFields NoOverclaim ExpectedWellFormed
CHECK_DEADLOCK FALSE
