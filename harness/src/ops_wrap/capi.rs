//! Dispatch table 3: the `temporal_capi` FFI functions called from Rust (the `ffi` modules of the diplomat bridge),
//! keyed `<Type>.<ffi fn>`. Every entry calls exactly the function it is named after. Results are observed only
//! through what a C/C++ caller could observe (the FFI getters, written strings, error kinds), except `Instant`
//! whose inner value is a public field (used so that a defect of the `epoch_nanoseconds` getter stays confined
//! to its own row).
use super::*;
use diplomat_runtime::{DiplomatOption, DiplomatWrite};
use temporal_capi::calendar::ffi as fc;
use temporal_capi::duration::ffi as fd;
use temporal_capi::error::ffi as fe;
use temporal_capi::instant::ffi as fi;
use temporal_capi::iso::ffi as fiso;
use temporal_capi::options::ffi as fo;
use temporal_capi::plain_date::ffi as fpd;
use temporal_capi::plain_date_time::ffi as fpdt;
use temporal_capi::plain_month_day::ffi as fmd;
use temporal_capi::plain_time::ffi as fpt;
use temporal_capi::plain_year_month::ffi as fym;

extern "C" {
    // #[no_mangle] functions of diplomat-runtime (not re-exported as Rust items)
    fn diplomat_buffer_write_get_bytes(this: &DiplomatWrite) -> *mut u8;
    fn diplomat_buffer_write_len(this: &DiplomatWrite) -> usize;
}

/// run an FFI function that writes a string; returns (its result, the written text)
pub fn wr<R>(f: impl FnOnce(&mut DiplomatWrite) -> R) -> (R, String) {
    let w = diplomat_runtime::diplomat_buffer_write_create(32);
    let r = f(unsafe { &mut *w });
    let s = unsafe {
        let p = diplomat_buffer_write_get_bytes(&*w);
        let n = diplomat_buffer_write_len(&*w);
        if p.is_null() { String::new() } else { String::from_utf8_lossy(std::slice::from_raw_parts(p, n)).into_owned() }
    };
    unsafe { diplomat_runtime::diplomat_buffer_write_destroy(w) };
    (r, s)
}

pub type CErr = fe::TemporalError;
pub fn ckind(e: &CErr) -> &'static str {
    match e.kind {
        fe::ErrorKind::Generic => "generic",
        fe::ErrorKind::Type => "type",
        fe::ErrorKind::Range => "range",
        fe::ErrorKind::Syntax => "syntax",
        fe::ErrorKind::Assert => "assert",
    }
}
pub fn runc<T>(f: impl FnOnce() -> Result<T, CErr>, p: impl FnOnce(&T) -> Value) -> Value {
    match std::panic::catch_unwind(std::panic::AssertUnwindSafe(|| f().map(|t| p(&t)))) {
        Ok(Ok(v)) => ok(v),
        Ok(Err(e)) => err(ckind(&e)),
        Err(_) => err("panic"),
    }
}

// ---------- FFI-side argument construction (names -> FFI variants by this file's own tables) ----------
pub fn c_unit(s: &str) -> fo::Unit {
    match s { "auto" => fo::Unit::Auto, "nanosecond" => fo::Unit::Nanosecond, "microsecond" => fo::Unit::Microsecond, "millisecond" => fo::Unit::Millisecond,
        "second" => fo::Unit::Second, "minute" => fo::Unit::Minute, "hour" => fo::Unit::Hour, "day" => fo::Unit::Day, "week" => fo::Unit::Week,
        "month" => fo::Unit::Month, "year" => fo::Unit::Year, _ => panic!("unit {}", s) }
}
pub fn c_mode(s: &str) -> fo::RoundingMode {
    match s { "ceil" => fo::RoundingMode::Ceil, "floor" => fo::RoundingMode::Floor, "expand" => fo::RoundingMode::Expand, "trunc" => fo::RoundingMode::Trunc,
        "halfCeil" => fo::RoundingMode::HalfCeil, "halfFloor" => fo::RoundingMode::HalfFloor, "halfExpand" => fo::RoundingMode::HalfExpand,
        "halfTrunc" => fo::RoundingMode::HalfTrunc, "halfEven" => fo::RoundingMode::HalfEven, _ => panic!("mode {}", s) }
}
fn c_ovf_name(s: &str) -> fo::ArithmeticOverflow { match s { "constrain" => fo::ArithmeticOverflow::Constrain, "reject" => fo::ArithmeticOverflow::Reject, _ => panic!("ovf {}", s) } }
fn c_ovf_opt(a: &Value) -> Option<fo::ArithmeticOverflow> { js::opt_s(a, "ovf").map(c_ovf_name) }
fn c_ovf(a: &Value) -> fo::ArithmeticOverflow { c_ovf_name(js::s(a, "ovf")) }
fn c_dcal(s: &str) -> fo::DisplayCalendar { match s { "auto" => fo::DisplayCalendar::Auto, "always" => fo::DisplayCalendar::Always, "never" => fo::DisplayCalendar::Never, "critical" => fo::DisplayCalendar::Critical, _ => panic!("dcal {}", s) } }
fn dopt<T>(o: Option<T>) -> DiplomatOption<T> { o.into() }
fn c_settings(v: &Value) -> fo::DifferenceSettings {
    fo::DifferenceSettings { largest_unit: dopt(js::opt_s(v, "largest").map(c_unit)), smallest_unit: dopt(js::opt_s(v, "smallest").map(c_unit)),
        rounding_mode: dopt(js::opt_s(v, "mode").map(c_mode)), increment: dopt(if js::has(v, "inc") { Some(js::i(v, "inc") as u32) } else { None }) }
}
fn c_rounding(v: &Value) -> fo::RoundingOptions {
    fo::RoundingOptions { largest_unit: dopt(js::opt_s(v, "largest").map(c_unit)), smallest_unit: dopt(js::opt_s(v, "smallest").map(c_unit)),
        rounding_mode: dopt(js::opt_s(v, "mode").map(c_mode)), increment: dopt(if js::has(v, "inc") { Some(js::i(v, "inc") as u32) } else { None }) }
}
fn c_tsro(v: &Value) -> fo::ToStringRoundingOptions {
    let (is_minute, digits) = match v.get("precision") {
        // ("digits" next to "minute": the FFI struct can carry both at once - the minute flag decides)
        Some(p) if p.as_str() == Some("minute") => (true, v.get("digits").and_then(|d| d.as_i64()).map(|d| d as u8)),
        Some(p) if p.is_i64() => (false, Some(p.as_i64().unwrap() as u8)),
        _ => (false, None),
    };
    fo::ToStringRoundingOptions { precision: fo::Precision { is_minute, precision: dopt(digits) },
        smallest_unit: dopt(js::opt_s(v, "smallest").map(c_unit)), rounding_mode: dopt(js::opt_s(v, "mode").map(c_mode)) }
}
fn cal_id(v: &Value) -> &str { v.get("cal").and_then(|c| c.as_str()).unwrap_or("iso8601") }
fn c_cal_id(id: &str) -> Result<Box<fc::Calendar>, CErr> { fc::Calendar::from_utf8(id.as_bytes()) }
fn c_cal(v: &Value) -> Result<Box<fc::Calendar>, CErr> { c_cal_id(cal_id(v)) }
fn c_date(v: &Value) -> Result<Box<fpd::PlainDate>, CErr> { fpd::PlainDate::try_create(js::i(v, "y") as i32, js::i(v, "m") as u8, js::i(v, "d") as u8, &*c_cal(v)?) }
fn c_time(v: &Value) -> Result<Box<fpt::PlainTime>, CErr> {
    fpt::PlainTime::try_create(js::i(v, "h") as u8, js::i(v, "mi") as u8, js::i(v, "s") as u8, js::i(v, "ms") as u16, js::i(v, "us") as u16, js::i(v, "ns") as u16)
}
fn c_dt(v: &Value) -> Result<Box<fpdt::PlainDateTime>, CErr> {
    fpdt::PlainDateTime::try_create(js::i(v, "y") as i32, js::i(v, "m") as u8, js::i(v, "d") as u8, js::i(v, "h") as u8, js::i(v, "mi") as u8, js::i(v, "s") as u8,
        js::i(v, "ms") as u16, js::i(v, "us") as u16, js::i(v, "ns") as u16, &*c_cal(v)?)
}
const DK: [&str; 10] = ["y", "mo", "w", "d", "h", "mi", "s", "ms", "us", "ns"];
fn c_dur(v: &Value) -> Result<Box<fd::Duration>, CErr> {
    let f = |k: &str| v.get(k).map(f64_exact).unwrap_or(0.0);
    if super::dur_is_mixed(v) { return fd::Duration::from_day_and_time(f("d"), &*fd::TimeDuration::new(f("h"), f("mi"), f("s"), f("ms"), f("us"), f("ns"))?); }
    fd::Duration::create(f(DK[0]), f(DK[1]), f(DK[2]), f(DK[3]), f(DK[4]), f(DK[5]), f(DK[6]), f(DK[7]), f(DK[8]), f(DK[9]))
}
fn farr(v: &Value, n: usize) -> Vec<f64> { f_array(&json!({"f": v}), "f", n) }
fn c_tdur(v: &Value) -> Result<Box<fd::TimeDuration>, CErr> { let f = farr(v, 6); fd::TimeDuration::new(f[0], f[1], f[2], f[3], f[4], f[5]) }
fn c_ddur(v: &Value) -> Result<Box<fd::DateDuration>, CErr> { let f = farr(v, 4); fd::DateDuration::new(f[0], f[1], f[2], f[3]) }
/// receiver instants are built through the public inner field (NOT through the FFI constructor under test)
fn c_inst(v: &Value) -> Result<Box<fi::Instant>, CErr> { Ok(Box::new(fi::Instant(temporal_rs::Instant::try_new(ens(v))?))) }
fn c_ym(v: &Value) -> Result<Box<fym::PlainYearMonth>, CErr> {
    fym::PlainYearMonth::create_with_overflow(js::i(v, "y") as i32, js::i(v, "m") as u8, None, &*c_cal(v)?, fo::ArithmeticOverflow::Reject)
}
fn c_md(v: &Value) -> Result<Box<fmd::PlainMonthDay>, CErr> {
    fmd::PlainMonthDay::create_with_overflow(js::i(v, "m") as u8, js::i(v, "d") as u8, &*c_cal(v)?, fo::ArithmeticOverflow::Reject, v.get("y").and_then(|y| y.as_i64()).map(|y| y as i32))
}
fn c_iso(v: &Value) -> fiso::IsoDate { fiso::IsoDate { year: js::i(v, "y") as i32, month: js::i(v, "m") as u8, day: js::i(v, "d") as u8 } }
fn oi(v: &Value, k: &str) -> Option<i64> { v.get(k).and_then(|x| x.as_i64()) }
fn c_pdate<'a>(v: &'a Value, cal: &'a fc::Calendar) -> fpd::PartialDate<'a> {
    fpd::PartialDate { year: dopt(oi(v, "year").map(|x| x as i32)), month: dopt(oi(v, "month").map(|x| x as u8)),
        month_code: js::opt_s(v, "month_code").unwrap_or("").as_bytes().into(), day: dopt(oi(v, "day").map(|x| x as u8)),
        era: js::opt_s(v, "era").unwrap_or("").as_bytes().into(), era_year: dopt(oi(v, "era_year").map(|x| x as i32)), calendar: cal }
}
fn c_ptime(v: &Value) -> fpt::PartialTime {
    fpt::PartialTime { hour: dopt(oi(v, "hour").map(|x| x as u8)), minute: dopt(oi(v, "minute").map(|x| x as u8)), second: dopt(oi(v, "second").map(|x| x as u8)),
        millisecond: dopt(oi(v, "millisecond").map(|x| x as u16)), microsecond: dopt(oi(v, "microsecond").map(|x| x as u16)), nanosecond: dopt(oi(v, "nanosecond").map(|x| x as u16)) }
}
fn c_pdur(v: &Value) -> fd::PartialDuration {
    let f = |k: &str| -> DiplomatOption<f64> { dopt(pdur_field(v, k)) };
    fd::PartialDuration { years: f("years"), months: f("months"), weeks: f("weeks"), days: f("days"), hours: f("hours"), minutes: f("minutes"),
        seconds: f("seconds"), milliseconds: f("milliseconds"), microseconds: f("microseconds"), nanoseconds: f("nanoseconds") }
}

// ---------- FFI-side projections (FFI getters only) ----------
fn wcal(mut o: Value, id: &str) -> Value { if id != "iso8601" { o["cal"] = json!(id); } o }
fn cj_date(d: &Box<fpd::PlainDate>) -> Value { wcal(json!({"y": int(d.iso_year() as i64), "m": d.iso_month(), "d": d.iso_day()}), d.calendar().identifier()) }
fn cj_time(t: &Box<fpt::PlainTime>) -> Value { json!({"h": t.hour(), "mi": t.minute(), "s": t.second(), "ms": t.millisecond(), "us": t.microsecond(), "ns": t.nanosecond()}) }
fn cj_dt(t: &Box<fpdt::PlainDateTime>) -> Value {
    wcal(json!({"y": int(t.iso_year() as i64), "m": t.iso_month(), "d": t.iso_day(), "h": t.hour(), "mi": t.minute(), "s": t.second(),
        "ms": t.millisecond(), "us": t.microsecond(), "ns": t.nanosecond()}), t.calendar().identifier())
}
fn cj_dur_ref(d: &fd::Duration) -> Value {
    json!({"y": big_f64(d.years()), "mo": big_f64(d.months()), "w": big_f64(d.weeks()), "d": big_f64(d.days()), "h": big_f64(d.hours()), "mi": big_f64(d.minutes()),
           "s": big_f64(d.seconds()), "ms": big_f64(d.milliseconds()), "us": big_f64(d.microseconds()), "ns": big_f64(d.nanoseconds())})
}
fn cj_dur(d: &Box<fd::Duration>) -> Value { cj_dur_ref(d) }
/// a TimeDuration has no getters: a C caller observes it as the time part of Duration::from_day_and_time(0, t)
fn cj_tdur_ref(t: &fd::TimeDuration) -> Value {
    match fd::Duration::from_day_and_time(0.0, t) {
        Ok(d) => json!({"h": big_f64(d.hours()), "mi": big_f64(d.minutes()), "s": big_f64(d.seconds()), "ms": big_f64(d.milliseconds()), "us": big_f64(d.microseconds()), "ns": big_f64(d.nanoseconds())}),
        Err(e) => json!({"unobservable": ckind(&e)}),
    }
}
fn cj_tdur(t: &Box<fd::TimeDuration>) -> Value { cj_tdur_ref(t) }
/// a DateDuration has no getters at all: only its sign is observable
fn cj_ddur_ref(t: &fd::DateDuration) -> Value { json!({"sign": t.sign() as i8}) }
fn cj_ddur(t: &Box<fd::DateDuration>) -> Value { cj_ddur_ref(t) }
fn cj_inst(i: &Box<fi::Instant>) -> Value { j_eparts(i.0.as_i128()) }
fn cj_ym(d: &Box<fym::PlainYearMonth>) -> Value { wcal(json!({"y": int(d.iso_year() as i64), "m": d.iso_month()}), d.calendar().identifier()) }
fn cj_md(d: &Box<fmd::PlainMonthDay>) -> Value { wcal(json!({"y": int(d.iso_year() as i64), "m": d.iso_month(), "d": d.iso_day()}), d.calendar().identifier()) }
fn cj_sign(s: &fd::Sign) -> Value { json!(*s as i8) }
/// "writes an empty string for no era"
fn era_str(s: String) -> Value { if s.is_empty() { json!([]) } else { json!([s]) } }
/// the documented I128Nanoseconds scheme: bit-by-bit (two's complement) split, value = high * 2^64 + low
fn i128_decode(n: &fi::I128Nanoseconds) -> i128 { ((n.high as i128) << 64) | n.low as i128 }
fn i128_encode(v: i128) -> fi::I128Nanoseconds { fi::I128Nanoseconds { high: (v >> 64) as i64, low: v as u64 } }

pub fn call(key: &str, a: &Value) -> Option<Value> {
    let (ty, m) = key.split_once('.')?;
    match ty {
        "PlainDate" => date(m, a),
        "PlainDateTime" => pdt(m, a),
        "PlainTime" => time(m, a),
        "Duration" => dur(m, a),
        "TimeDuration" => tdur(m, a),
        "DateDuration" => ddur(m, a),
        "PartialDuration" => Some(match m {
            "is_empty" => runc(|| Ok(c_pdur(&a["partial"]).is_empty()), jb),
            _ => return None,
        }),
        "Instant" => inst(m, a),
        "PlainYearMonth" => ym(m, a),
        "PlainMonthDay" => md(m, a),
        "Calendar" => cal(m, a),
        "AnyCalendarKind" => super::enums::kind_ffi(m, a),
        "enum" => super::enums::ffi(m, a),
        _ => None,
    }
}

fn date(m: &str, a: &Value) -> Option<Value> {
    let d = || c_date(&a["recv"]);
    let f = &a["f"];
    let y = |v: &Value| js::i(v, "y") as i32;
    let mo = |v: &Value| js::i(v, "m") as u8;
    let dd = |v: &Value| js::i(v, "d") as u8;
    Some(match m {
        "create" => runc(|| fpd::PlainDate::create(y(f), mo(f), dd(f), &*c_cal(f)?), cj_date),
        "try_create" => runc(|| fpd::PlainDate::try_create(y(f), mo(f), dd(f), &*c_cal(f)?), cj_date),
        "create_with_overflow" => runc(|| fpd::PlainDate::create_with_overflow(y(f), mo(f), dd(f), &*c_cal(f)?, c_ovf(a)), cj_date),
        "from_partial" => runc(|| { let c = c_cal(&a["partial"])?; fpd::PlainDate::from_partial(c_pdate(&a["partial"], &c), c_ovf_opt(a)) }, cj_date),
        "with" => runc(|| { let c = c_cal(&a["partial"])?; d()?.with(c_pdate(&a["partial"], &c), c_ovf_opt(a)) }, cj_date),
        "with_calendar" => runc(|| d()?.with_calendar(&*c_cal_id(js::s(a, "cal"))?), cj_date),
        "iso_year" => runc(|| Ok(d()?.iso_year()), ji),
        "iso_month" => runc(|| Ok(d()?.iso_month()), ji),
        "iso_day" => runc(|| Ok(d()?.iso_day()), ji),
        "calendar" => runc(|| Ok(d()?.calendar().identifier().to_string()), js_),
        "is_valid" => runc(|| Ok(d()?.is_valid()), jb),
        "add" => runc(|| d()?.add(&*c_dur(&a["dur"])?, c_ovf_opt(a)), cj_date),
        "subtract" => runc(|| d()?.subtract(&*c_dur(&a["dur"])?, c_ovf_opt(a)), cj_date),
        "until" => runc(|| d()?.until(&*c_date(&a["other"])?, c_settings(&a["st"])), cj_dur),
        "since" => runc(|| d()?.since(&*c_date(&a["other"])?, c_settings(&a["st"])), cj_dur),
        "year" => runc(|| Ok(d()?.year()), ji),
        "month" => runc(|| Ok(d()?.month()), ji),
        "month_code" => runc(|| { let x = d()?; Ok(wr(|w| x.month_code(w)).1) }, js_),
        "day" => runc(|| Ok(d()?.day()), ji),
        "day_of_week" => runc(|| Ok(d()?.day_of_week()), ji),
        "day_of_year" => runc(|| Ok(d()?.day_of_year()), ji),
        "week_of_year" => runc(|| d()?.week_of_year(), jo),
        "year_of_week" => runc(|| d()?.year_of_week(), jo),
        "days_in_week" => runc(|| d()?.days_in_week(), ji),
        "days_in_month" => runc(|| Ok(d()?.days_in_month()), ji),
        "days_in_year" => runc(|| Ok(d()?.days_in_year()), ji),
        "months_in_year" => runc(|| Ok(d()?.months_in_year()), ji),
        "in_leap_year" => runc(|| Ok(d()?.in_leap_year()), jb),
        "era" => runc(|| { let x = d()?; Ok(wr(|w| x.era(w)).1) }, |s| era_str(s.clone())),
        "era_year" => runc(|| Ok(d()?.era_year()), jo),
        "to_plain_date_time" => runc(|| { let t = if js::has(a, "time") { Some(c_time(&a["time"])?) } else { None }; d()?.to_plain_date_time(t.as_deref()) }, cj_dt),
        "to_plain_month_day" => runc(|| d()?.to_plain_month_day(), cj_md),
        "to_plain_year_month" => runc(|| d()?.to_plain_year_month(), cj_ym),
        "to_ixdtf_string" => runc(|| { let x = d()?; Ok(wr(|w| x.to_ixdtf_string(c_dcal(js::s(a, "dcal")), w)).1) }, js_),
        _ => return None,
    })
}

fn pdt(m: &str, a: &Value) -> Option<Value> {
    let d = || c_dt(&a["recv"]);
    let f = &a["f"];
    let g8 = |k: &str| js::i(f, k) as u8;
    let g16 = |k: &str| js::i(f, k) as u16;
    Some(match m {
        "create" => runc(|| fpdt::PlainDateTime::create(js::i(f, "y") as i32, g8("m"), g8("d"), g8("h"), g8("mi"), g8("s"), g16("ms"), g16("us"), g16("ns"), &*c_cal(f)?), cj_dt),
        "try_create" => runc(|| fpdt::PlainDateTime::try_create(js::i(f, "y") as i32, g8("m"), g8("d"), g8("h"), g8("mi"), g8("s"), g16("ms"), g16("us"), g16("ns"), &*c_cal(f)?), cj_dt),
        "from_partial" => runc(|| { let c = c_cal(&a["partial"]["date"])?; fpdt::PlainDateTime::from_partial(fpdt::PartialDateTime { date: c_pdate(&a["partial"]["date"], &c), time: c_ptime(&a["partial"]["time"]) }, c_ovf_opt(a)) }, cj_dt),
        "with" => runc(|| { let c = c_cal(&a["partial"]["date"])?; d()?.with(fpdt::PartialDateTime { date: c_pdate(&a["partial"]["date"], &c), time: c_ptime(&a["partial"]["time"]) }, c_ovf_opt(a)) }, cj_dt),
        "with_time" => runc(|| d()?.with_time(&*c_time(&a["time"])?), cj_dt),
        "with_calendar" => runc(|| d()?.with_calendar(&*c_cal_id(js::s(a, "cal"))?), cj_dt),
        "iso_year" => runc(|| Ok(d()?.iso_year()), ji),
        "iso_month" => runc(|| Ok(d()?.iso_month()), ji),
        "iso_day" => runc(|| Ok(d()?.iso_day()), ji),
        "hour" => runc(|| Ok(d()?.hour()), ji),
        "minute" => runc(|| Ok(d()?.minute()), ji),
        "second" => runc(|| Ok(d()?.second()), ji),
        "millisecond" => runc(|| Ok(d()?.millisecond()), ji),
        "microsecond" => runc(|| Ok(d()?.microsecond()), ji),
        "nanosecond" => runc(|| Ok(d()?.nanosecond()), ji),
        "calendar" => runc(|| Ok(d()?.calendar().identifier().to_string()), js_),
        "year" => runc(|| Ok(d()?.year()), ji),
        "month" => runc(|| Ok(d()?.month()), ji),
        "month_code" => runc(|| { let x = d()?; Ok(wr(|w| x.month_code(w)).1) }, js_),
        "day" => runc(|| Ok(d()?.day()), ji),
        "day_of_week" => runc(|| Ok(d()?.day_of_week()), ji),
        "day_of_year" => runc(|| Ok(d()?.day_of_year()), ji),
        "week_of_year" => runc(|| d()?.week_of_year(), jo),
        "year_of_week" => runc(|| d()?.year_of_week(), jo),
        "days_in_week" => runc(|| d()?.days_in_week(), ji),
        "days_in_month" => runc(|| Ok(d()?.days_in_month()), ji),
        "days_in_year" => runc(|| Ok(d()?.days_in_year()), ji),
        "months_in_year" => runc(|| Ok(d()?.months_in_year()), ji),
        "in_leap_year" => runc(|| Ok(d()?.in_leap_year()), jb),
        "era" => runc(|| { let x = d()?; Ok(wr(|w| x.era(w)).1) }, |s| era_str(s.clone())),
        "era_year" => runc(|| Ok(d()?.era_year()), jo),
        "add" => runc(|| d()?.add(&*c_dur(&a["dur"])?, c_ovf_opt(a)), cj_dt),
        "subtract" => runc(|| d()?.subtract(&*c_dur(&a["dur"])?, c_ovf_opt(a)), cj_dt),
        "until" => runc(|| d()?.until(&*c_dt(&a["other"])?, c_settings(&a["st"])), cj_dur),
        "since" => runc(|| d()?.since(&*c_dt(&a["other"])?, c_settings(&a["st"])), cj_dur),
        "round" => runc(|| d()?.round(c_rounding(&a["opts"])), cj_dt),
        "to_plain_date" => runc(|| d()?.to_plain_date(), cj_date),
        "to_plain_time" => runc(|| d()?.to_plain_time(), cj_time),
        "to_ixdtf_string" => runc(|| { let x = d()?; let (r, s) = wr(|w| x.to_ixdtf_string(c_tsro(&a["opts"]), c_dcal(js::s(a, "dcal")), w)); r.map(|_| s) }, js_),
        _ => return None,
    })
}

fn time(m: &str, a: &Value) -> Option<Value> {
    let t = || c_time(&a["recv"]);
    let f = &a["f"];
    let g8 = |k: &str| js::i(f, k) as u8;
    let g16 = |k: &str| js::i(f, k) as u16;
    Some(match m {
        "create" => runc(|| fpt::PlainTime::create(g8("h"), g8("mi"), g8("s"), g16("ms"), g16("us"), g16("ns")), cj_time),
        "try_create" => runc(|| fpt::PlainTime::try_create(g8("h"), g8("mi"), g8("s"), g16("ms"), g16("us"), g16("ns")), cj_time),
        "from_partial" => runc(|| fpt::PlainTime::from_partial(c_ptime(&a["partial"]), c_ovf_opt(a)), cj_time),
        "with" => runc(|| t()?.with(c_ptime(&a["partial"]), c_ovf_opt(a)), cj_time),
        "hour" => runc(|| Ok(t()?.hour()), ji),
        "minute" => runc(|| Ok(t()?.minute()), ji),
        "second" => runc(|| Ok(t()?.second()), ji),
        "millisecond" => runc(|| Ok(t()?.millisecond()), ji),
        "microsecond" => runc(|| Ok(t()?.microsecond()), ji),
        "nanosecond" => runc(|| Ok(t()?.nanosecond()), ji),
        "add" => runc(|| t()?.add(&*c_dur(&a["dur"])?), cj_time),
        "subtract" => runc(|| t()?.subtract(&*c_dur(&a["dur"])?), cj_time),
        "add_time_duration" => runc(|| t()?.add_time_duration(&*c_tdur(&a["tdur"])?), cj_time),
        "subtract_time_duration" => runc(|| t()?.subtract_time_duration(&*c_tdur(&a["tdur"])?), cj_time),
        "until" => runc(|| t()?.until(&*c_time(&a["other"])?, c_settings(&a["st"])), cj_dur),
        "since" => runc(|| t()?.since(&*c_time(&a["other"])?, c_settings(&a["st"])), cj_dur),
        "round" => runc(|| t()?.round(c_unit(js::s(a, "unit")), if js::has(a, "inc") { Some(a_f64(&a["inc"])) } else { None }, js::opt_s(a, "mode").map(c_mode)), cj_time),
        "to_ixdtf_string" => runc(|| { let x = t()?; let (r, s) = wr(|w| x.to_ixdtf_string(c_tsro(&a["opts"]), w)); r.map(|_| s) }, js_),
        _ => return None,
    })
}

fn dur(m: &str, a: &Value) -> Option<Value> {
    let d = || c_dur(&a["recv"]);
    let jf = |f: &f64| big_f64(*f);
    Some(match m {
        "create" => runc(|| { let f = f_array(a, "f", 10); fd::Duration::create(f[0], f[1], f[2], f[3], f[4], f[5], f[6], f[7], f[8], f[9]) }, cj_dur),
        "from_day_and_time" => runc(|| fd::Duration::from_day_and_time(f_scalar(a, "day"), &*c_tdur(&a["time"])?), cj_dur),
        "from_partial_duration" => runc(|| fd::Duration::from_partial_duration(c_pdur(&a["partial"])), cj_dur),
        "is_time_within_range" => runc(|| Ok(d()?.is_time_within_range()), jb),
        "time" => runc(|| Ok(d()?), |x| cj_tdur_ref(x.time())),
        "date" => runc(|| Ok(d()?), |x| cj_ddur_ref(x.date())),
        "years" => runc(|| Ok(d()?.years()), jf),
        "months" => runc(|| Ok(d()?.months()), jf),
        "weeks" => runc(|| Ok(d()?.weeks()), jf),
        "days" => runc(|| Ok(d()?.days()), jf),
        "hours" => runc(|| Ok(d()?.hours()), jf),
        "minutes" => runc(|| Ok(d()?.minutes()), jf),
        "seconds" => runc(|| Ok(d()?.seconds()), jf),
        "milliseconds" => runc(|| Ok(d()?.milliseconds()), jf),
        "microseconds" => runc(|| Ok(d()?.microseconds()), jf),
        "nanoseconds" => runc(|| Ok(d()?.nanoseconds()), jf),
        "sign" => runc(|| Ok(d()?.sign()), cj_sign),
        "is_zero" => runc(|| Ok(d()?.is_zero()), jb),
        "abs" => runc(|| Ok(d()?.abs()), cj_dur),
        "negated" => runc(|| Ok(d()?.negated()), cj_dur),
        "add" => runc(|| d()?.add(&*c_dur(&a["other"])?), cj_dur),
        "subtract" => runc(|| d()?.subtract(&*c_dur(&a["other"])?), cj_dur),
        _ => return None,
    })
}
fn tdur(m: &str, a: &Value) -> Option<Value> {
    let t = || c_tdur(&a["recv"]);
    Some(match m {
        "new" => runc(|| { let f = f_array(a, "f", 6); fd::TimeDuration::new(f[0], f[1], f[2], f[3], f[4], f[5]) }, cj_tdur),
        "abs" => runc(|| Ok(t()?.abs()), cj_tdur),
        "negated" => runc(|| Ok(t()?.negated()), cj_tdur),
        "is_within_range" => runc(|| Ok(t()?.is_within_range()), jb),
        "sign" => runc(|| Ok(t()?.sign()), cj_sign),
        _ => return None,
    })
}
fn ddur(m: &str, a: &Value) -> Option<Value> {
    let t = || c_ddur(&a["recv"]);
    Some(match m {
        "new" => runc(|| { let f = f_array(a, "f", 4); fd::DateDuration::new(f[0], f[1], f[2], f[3]) }, cj_ddur),
        "abs" => runc(|| Ok(t()?.abs()), cj_ddur),
        "negated" => runc(|| Ok(t()?.negated()), cj_ddur),
        "sign" => runc(|| Ok(t()?.sign()), cj_sign),
        _ => return None,
    })
}

fn inst(m: &str, a: &Value) -> Option<Value> {
    let i = || c_inst(&a["recv"]);
    Some(match m {
        "try_new" => runc(|| fi::Instant::try_new(i128_encode(ens(&a["ns"]))), cj_inst),
        "from_epoch_milliseconds" => runc(|| fi::Instant::from_epoch_milliseconds(num(&a["ms"]) as i64), cj_inst),
        "add" => runc(|| i()?.add(&*c_dur(&a["dur"])?), cj_inst),
        "add_time_duration" => runc(|| i()?.add_time_duration(&*c_tdur(&a["tdur"])?), cj_inst),
        "subtract" => runc(|| i()?.subtract(&*c_dur(&a["dur"])?), cj_inst),
        "subtract_time_duration" => runc(|| i()?.subtract_time_duration(&*c_tdur(&a["tdur"])?), cj_inst),
        "since" => runc(|| i()?.since(&*c_inst(&a["other"])?, c_settings(&a["st"])), cj_dur),
        "until" => runc(|| i()?.until(&*c_inst(&a["other"])?, c_settings(&a["st"])), cj_dur),
        "round" => runc(|| i()?.round(c_rounding(&a["opts"])), cj_inst),
        "epoch_milliseconds" => runc(|| Ok(i()?.epoch_milliseconds()), j_i64),
        "epoch_nanoseconds" => runc(|| Ok(i()?.epoch_nanoseconds()), |n| j_eparts(i128_decode(n))),
        _ => return None,
    })
}

fn ym(m: &str, a: &Value) -> Option<Value> {
    let d = || c_ym(&a["recv"]);
    let f = &a["f"];
    Some(match m {
        "create_with_overflow" => runc(|| fym::PlainYearMonth::create_with_overflow(js::i(f, "y") as i32, js::i(f, "m") as u8, oi(f, "rd").map(|x| x as u8), &*c_cal(f)?, c_ovf(a)), cj_ym),
        "with" => runc(|| { let c = c_cal(&a["partial"])?; d()?.with(c_pdate(&a["partial"], &c), c_ovf_opt(a)) }, cj_ym),
        "iso_year" => runc(|| Ok(d()?.iso_year()), ji),
        "padded_iso_year_string" => runc(|| { let x = d()?; Ok(wr(|w| x.padded_iso_year_string(w)).1) }, js_),
        "iso_month" => runc(|| Ok(d()?.iso_month()), ji),
        "year" => runc(|| Ok(d()?.year()), ji),
        "month" => runc(|| Ok(d()?.month()), ji),
        "month_code" => runc(|| { let x = d()?; Ok(wr(|w| x.month_code(w)).1) }, js_),
        "in_leap_year" => runc(|| Ok(d()?.in_leap_year()), jb),
        "days_in_month" => runc(|| Ok(d()?.days_in_month()), ji),
        "days_in_year" => runc(|| Ok(d()?.days_in_year()), ji),
        "months_in_year" => runc(|| Ok(d()?.months_in_year()), ji),
        "era" => runc(|| { let x = d()?; Ok(wr(|w| x.era(w)).1) }, |s| era_str(s.clone())),
        "era_year" => runc(|| Ok(d()?.era_year()), jo),
        "calendar" => runc(|| Ok(d()?.calendar().identifier().to_string()), js_),
        "add" => runc(|| d()?.add(&*c_dur(&a["dur"])?, c_ovf(a)), cj_ym),
        "subtract" => runc(|| d()?.subtract(&*c_dur(&a["dur"])?, c_ovf(a)), cj_ym),
        "until" => runc(|| d()?.until(&*c_ym(&a["other"])?, c_settings(&a["st"])), cj_dur),
        "since" => runc(|| d()?.since(&*c_ym(&a["other"])?, c_settings(&a["st"])), cj_dur),
        "to_plain_date" => runc(|| d()?.to_plain_date(), cj_date),
        _ => return None,
    })
}

fn md(m: &str, a: &Value) -> Option<Value> {
    let d = || c_md(&a["recv"]);
    let f = &a["f"];
    Some(match m {
        "create_with_overflow" => runc(|| fmd::PlainMonthDay::create_with_overflow(js::i(f, "m") as u8, js::i(f, "d") as u8, &*c_cal(f)?, c_ovf(a), oi(f, "y").map(|x| x as i32)), cj_md),
        "iso_year" => runc(|| Ok(d()?.iso_year()), ji),
        "iso_month" => runc(|| Ok(d()?.iso_month()), ji),
        "iso_day" => runc(|| Ok(d()?.iso_day()), ji),
        "calendar" => runc(|| Ok(d()?.calendar().identifier().to_string()), js_),
        "month_code" => runc(|| { let x = d()?; Ok(wr(|w| x.month_code(w)).1) }, js_),
        _ => return None,
    })
}

fn cal(m: &str, a: &Value) -> Option<Value> {
    let c = || c_cal_id(js::s(a, "recv"));
    let iso = || c_iso(&a["date"]);
    Some(match m {
        "create" => return super::enums::calendar_create_ffi(a),
        "from_utf8" => runc(|| fc::Calendar::from_utf8(js::s(a, "src").as_bytes()), |c| json!(c.identifier())),
        "is_iso" => runc(|| Ok(c()?.is_iso()), jb),
        "identifier" => runc(|| Ok(c()?.identifier().to_string()), js_),
        "date_from_partial" => runc(|| { let pc = c_cal(&a["partial"])?; c()?.date_from_partial(c_pdate(&a["partial"], &pc), c_ovf(a)) }, cj_date),
        "month_day_from_partial" => runc(|| { let pc = c_cal(&a["partial"])?; c()?.month_day_from_partial(c_pdate(&a["partial"], &pc), c_ovf(a)) }, cj_md),
        "year_month_from_partial" => runc(|| { let pc = c_cal(&a["partial"])?; c()?.year_month_from_partial(c_pdate(&a["partial"], &pc), c_ovf(a)) }, cj_ym),
        "date_add" => runc(|| c()?.date_add(iso(), &*c_dur(&a["dur"])?, c_ovf(a)), cj_date),
        "date_until" => runc(|| c()?.date_until(iso(), c_iso(&a["other"]), c_unit(js::s(a, "unit"))), cj_dur),
        "era" => runc(|| { let x = c()?; let (r, s) = wr(|w| x.era(iso(), w)); r.map(|_| s) }, |s| era_str(s.clone())),
        "era_year" => runc(|| Ok(c()?.era_year(iso())), jo),
        "year" => runc(|| Ok(c()?.year(iso())), ji),
        "month" => runc(|| Ok(c()?.month(iso())), ji),
        "month_code" => runc(|| { let x = c()?; let (r, s) = wr(|w| x.month_code(iso(), w)); r.map(|_| s) }, js_),
        "day" => runc(|| Ok(c()?.day(iso())), ji),
        "day_of_week" => runc(|| Ok(c()?.day_of_week(iso())), ji),
        "day_of_year" => runc(|| Ok(c()?.day_of_year(iso())), ji),
        "week_of_year" => runc(|| c()?.week_of_year(iso()), jo),
        "year_of_week" => runc(|| c()?.year_of_week(iso()), jo),
        "days_in_week" => runc(|| c()?.days_in_week(iso()), ji),
        "days_in_month" => runc(|| Ok(c()?.days_in_month(iso())), ji),
        "days_in_year" => runc(|| Ok(c()?.days_in_year(iso())), ji),
        "months_in_year" => runc(|| Ok(c()?.months_in_year(iso())), ji),
        "in_leap_year" => runc(|| Ok(c()?.in_leap_year(iso())), jb),
        _ => return None,
    })
}
