//! C05 sessions: PlainDateTime add/subtract (exact time carry + date part), until/since with every largest unit
//! (pairs whose time-of-day order is opposite to their date order over-sampled), round near midnight.
use super::Tracer;
use crate::gen::*;
use crate::rng::Rng;
use serde_json::{json, Value};

fn dt_json(day: i64, tns: i128) -> Value {
    let (y, m, d) = civil(day);
    let t = time_json(tns);
    json!({"y": y, "m": m, "d": d, "h": t["h"], "mi": t["mi"], "s": t["s"], "ms": t["ms"], "us": t["us"], "ns": t["ns"]})
}
fn rand_tns(r: &mut Rng) -> i128 {
    match r.range(0, 6) { 0 => 0, 1 => 1, 2 => DAY_NS - 1, 3 => DAY_NS / 2, 4 => DAY_NS - 1 - r.range(0, 2_000_000_000) as i128, _ => r.range128(0, DAY_NS - 1) }
}
fn in_range(day: i64, tns: i128) -> bool { (day > MIN_DAY || (day == MIN_DAY && tns > 0)) && day <= MAX_DAY }
fn val_dt(v: &Value) -> Option<(i64, i128)> {
    let g = |k: &str| v[k].as_i64();
    let day = days_from_civil(g("y")?, g("m")?, g("d")?);
    Some((day, (((g("h")? * 60 + g("mi")?) * 60 + g("s")?) as i128) * 1_000_000_000 + ((g("ms")? * 1000 + g("us")?) * 1000 + g("ns")?) as i128))
}
const UNITS10: [&str; 10] = ["nanosecond", "microsecond", "millisecond", "second", "minute", "hour", "day", "week", "month", "year"];

pub fn drive(t: &mut Tracer, r: &mut Rng, n: usize) {
    while t.n < n {
        let (mut day, mut tns) = (any_day(r), rand_tns(r));
        if !in_range(day, tns) { tns = 1; }
        for _ in 0..r.range(3, 12) {
            let recv = dt_json(day, tns);
            match r.range(0, 9) {
                0..=3 => {
                    let sg: i128 = if r.chance(1, 2) { 1 } else { -1 };
                    let m = |r: &mut Rng, small: i64, big_: i64| -> i128 { (match r.range(0, 9) { 0..=4 => 0, 5..=7 => r.range(0, small), _ => r.range(0, big_) }) as i128 };
                    let huge_t = r.chance(1, 12);
                    let dur = dur10(sg * m(r, 3, 400_000), sg * m(r, 30, 5_000_000), sg * m(r, 8, 20_000_000), sg * m(r, 70, 150_000_000),
                        sg * (if huge_t { exact_f64_int(r, 1 << 40) } else { m(r, 100, 3_000_000) }), sg * m(r, 200, 2_000_000_000), sg * m(r, 100_000, 2_000_000_000),
                        sg * m(r, 1000, 2_000_000_000), sg * m(r, 1000, 2_000_000_000), sg * (if huge_t { exact_f64_int(r, 1 << 80) } else { m(r, 2_000_000_000, 2_000_000_000) }));
                    let op = if r.chance(1, 2) { "PlainDateTime.add" } else { "PlainDateTime.subtract" };
                    let mut args = json!({"recv": recv, "dur": dur});
                    if r.chance(2, 3) { args["ovf"] = json!(if r.chance(1, 2) { "constrain" } else { "reject" }); }
                    let out = t.call(op, args);
                    if out["kind"] == "ok" { match val_dt(&out["val"]) { Some((d2, t2)) if in_range(d2, t2) && (0..DAY_NS).contains(&t2) => { day = d2; tns = t2; } _ => break } }
                }
                4..=7 => {
                    // other date-time: near or far; half of the time with the time-of-day order opposite to the date order
                    let od = match r.range(0, 4) { 0 => day + r.range(-2, 2), 1 => day + r.range(-40, 40), 2 => day + r.range(-800, 800), _ => any_day(r) }.clamp(MIN_DAY, MAX_DAY);
                    let mut ot = rand_tns(r);
                    if r.chance(1, 2) { if od > day && ot > tns { ot = r.range128(0, tns) } else if od < day && ot < tns { ot = r.range128(tns, DAY_NS - 1) } }
                    if !in_range(od, ot) { ot = 1; }
                    let op = if r.chance(1, 2) { "PlainDateTime.until" } else { "PlainDateTime.since" };
                    let st = if r.chance(1, 8) { json!({}) } else { json!({"largest": *r.pick(&UNITS10)}) };
                    t.call(op, json!({"recv": recv, "other": dt_json(od, ot), "st": st}));
                }
                _ => {
                    let u = *r.pick(&["day", "hour", "minute", "second", "millisecond", "microsecond", "nanosecond"]);
                    let inc = if u == "day" { 1 } else { *r.pick(&time_incs(u)) };
                    // move the time within one increment of midnight / of a multiple
                    let nn = inc as i128 * unit_ns(u);
                    let q = if r.chance(1, 2) { DAY_NS / nn - 1 } else { r.range128(0, DAY_NS / nn - 1) };
                    let t2 = (q * nn + tie_biased_rem(r, nn)).clamp(0, DAY_NS - 1);
                    let (d2, t2) = if in_range(day, t2) { (day, t2) } else { (day, tns) };
                    let out = t.call("PlainDateTime.round", json!({"recv": dt_json(d2, t2), "st": {"smallest": u, "inc": inc, "mode": *r.pick(&MODES)}}));
                    let _ = out; break; // (the receiver was re-positioned: end the session here)
                }
            }
        }
        t.reset();
    }
}
