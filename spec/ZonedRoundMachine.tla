-------------------------- MODULE ZonedRoundMachine --------------------------
(* State machine over ZonedRound: a (zone, instant) reference and a duration; one step per round / total / compare call. *)
EXTENDS ZonedRound
CONSTANTS Zones, Instants, Durs, Opts, TotalUnits, DiffModes, OneStep        \* Opts: [lg, sm, inc, mode]; DiffModes: modes tried for until / since
VARIABLES cur, last
vars == <<cur, last>>
None == [op |-> "none"]
Init == cur \in [z : Zones, t : Instants, dur : Durs] /\ last = None
\* option sets Temporal accepts: smallest <= largest; an increment > 1 on a date unit only when largest = smallest;
\* time increments divide the next unit
IncOK(o) == /\ UnitLe(o.sm, o.lg)
            /\ (o.sm \in DateUnits /\ o.inc > 1 => o.lg = o.sm)
            /\ (o.sm = "nanosecond" => o.inc = 1)
            /\ (o.sm = "hour" => 24 % o.inc = 0 /\ o.inc < 24) /\ (o.sm \in {"minute", "second"} => 60 % o.inc = 0 /\ o.inc < 60)
RoundAct(o) == last' = [op |-> "round", z |-> cur.z, t |-> cur.t, dur |-> cur.dur, o |-> o, out |-> ZRoundRel(cur.z, cur.t, cur.dur, o.lg, o.sm, o.inc, o.mode)] /\ UNCHANGED cur
TotalAct(u) == last' = [op |-> "total", z |-> cur.z, t |-> cur.t, dur |-> cur.dur, u |-> u, out |-> ZTotalRel(cur.z, cur.t, cur.dur, u)] /\ UNCHANGED cur
DiffRAct(t2, o, since) == last' = [op |-> IF since THEN "sinceR" ELSE "untilR", z |-> cur.z, t |-> cur.t, t2 |-> t2, o |-> o, dur |-> cur.dur,
                                      out |-> ZDiffRounded(cur.z, cur.t, t2, o.lg, o.sm, o.inc, o.mode, since)] /\ UNCHANGED cur
CmpAct(b) == last' = [op |-> "compare", z |-> cur.z, t |-> cur.t, dur |-> cur.dur, b |-> b, out |-> ZCompareRel(cur.z, cur.t, cur.dur, b)] /\ UNCHANGED cur
Next == /\ (OneStep => last = None)
        /\ \/ \E o \in Opts : IncOK(o) /\ RoundAct(o)
           \/ \E u \in TotalUnits : TotalAct(u)
           \/ \E b \in Durs : CmpAct(b)
           \* until / since with rounding options: the other instant is where the state's duration leads (so every duration is also a pair)
           \/ \E o \in Opts, since \in BOOLEAN : IncOK(o) /\ o.mode \in DiffModes /\ ZAdd(cur.z, cur.t, cur.dur, "constrain").kind = "ok"
                  /\ DiffRAct(ZAdd(cur.z, cur.t, cur.dur, "constrain").val, o, since)
Spec == Init /\ [][Next]_vars

IsRound == last.op = "round" /\ last.out.kind = "ok"
\* since is until with the mode negated and the result negated
SinceLawZ == (last.op = "sinceR" /\ last.out.kind = "ok") =>
  LET u == ZDiffRounded(last.z, last.t, last.t2, last.o.lg, last.o.sm, last.o.inc, NegateMode(last.o.mode), FALSE) IN u.kind = "ok" => u.val = NegDur(last.out.val)
\* Candidate law, REFUTED by TLC on the model and therefore not checked: "rounding to whole seconds with increment 1 gives the re-measured
\* duration itself". NudgeToZonedTime turns a time part that spans the whole (23 h) day into one day: from 02:00 the day after a
\* spring-forward gap, -P1D leads to 03:00 the day before (23 h earlier); re-measured that is -PT23H, rounded to seconds it is -P1D.
NoopLawRefuted == (IsRound /\ last.o.sm = "second" /\ last.o.inc = 1 /\ last.o.lg \in DateUnits) =>
  LET u == ZUntil(last.z, last.t, ZAdd(last.z, last.t, last.dur, "constrain").val, last.o.lg) IN u.kind = "ok" => u.val = last.out.val
\* the result has the sign of the elapsed time (or is zero), and nothing above the largest / below the smallest unit
SignLawZ == IsRound => LET e == ZAdd(last.z, last.t, last.dur, "constrain").val - last.t
                           s == DurSign(last.out.val)
                       \* (a zero duration from the second occurrence of a repeated wall-clock time is measured from the first occurrence
                       \* and can round up to one positive unit: nothing is claimed for e = 0)
                       IN e = 0 \/ s = 0 \/ s = SgnI(e)
WindowLawZ == IsRound =>
  /\ \A i \in 1..10 : (UnitIdx(IF last.o.lg \in DateUnits THEN last.o.lg ELSE last.o.lg) < 11 - i) => IsZero(DurFields(last.out.val)[i])
  /\ \A i \in 1..10 : (11 - i < UnitIdx(last.o.sm)) => IsZero(DurFields(last.out.val)[i])
\* compare is antisymmetric, and consistent with the totals in seconds
CompareLawZ == (last.op = "compare" /\ last.out.kind = "ok") => ZCompareRel(last.z, last.t, last.b, last.dur) = Ok(-last.out.val)
\* the total in a time unit is the elapsed time
TotalLawZ == (last.op = "total" /\ last.out.kind = "ok" /\ last.u = "second") =>
  last.out.val.n = ZAdd(last.z, last.t, last.dur, "constrain").val - last.t
=============================================================================
