---------------------------- MODULE Trace_Partial ----------------------------
(* impl -> spec for C17 sessions: every logged with / from_partial / new_with_overflow call must be a step of PartialMachine. *)
EXTENDS PartialMachine, TraceBase

VARIABLE l
tvars == <<cur, last, l>>
Nil == [ty |-> "nil", v |-> <<>>]
NoPartials(ty) == {}

E == Rec[l]
Ovf(a) == Get(a, "ovf", "constrain")

Ops == [date |-> "PlainDate", time |-> "PlainTime", datetime |-> "PlainDateTime", yearmonth |-> "PlainYearMonth", zoned |-> "ZonedDateTime"]
TyOf(op) == CHOOSE ty \in Types : \E k \in {".with", ".from_partial", ".new_with_overflow"} : op = Ops[ty] \o k
KindOf(op) == LET ty == TyOf(op) IN IF op = Ops[ty] \o ".with" THEN "with" ELSE IF op = Ops[ty] \o ".from_partial" THEN "from_partial" ELSE "new"
Known(op) == \E ty \in Types : \E k \in {".with", ".from_partial", ".new_with_overflow"} : op = Ops[ty] \o k

\* fixed-offset zones used by the driver
OffsetOf(tz) == CASE tz = "+00:00" -> 0 [] tz = "+05:30" -> 19800 [] tz = "-08:00" -> -28800 [] tz = "+14:00" -> 50400
RecvOf(e) == LET r == e.args.recv IN IF TyOf(e.op) = "yearmonth" THEN YM(r.y, r.m, Get(r, "rd", 1)) ELSE r
NewVal(ty, a) == CASE ty = "date" -> Date(a.y, a.m, a.d) [] ty = "time" -> TimeOf(a) [] ty = "datetime" -> DT(DateOf(a), TimeOf(a))

Expected(e) ==
  LET ty == TyOf(e.op)  k == KindOf(e.op)
  IN CASE k = "with" -> With(ty, RecvOf(e), e.args.p, Ovf(e.args))
       \* an explicit offset (minutes) must be the zone's own under the default offset option (reject); the record's own errors come first
       [] k = "from_partial" -> IF ty = "zoned" THEN LET x == FromPartialZoned(e.args.p, Ovf(e.args), OffsetOf(e.args.tz))
                                                      IN IF x.kind = "ok" /\ Has(e.args, "xoff") /\ e.args.xoff * 60 # OffsetOf(e.args.tz) THEN ErrRange ELSE x
                                ELSE FromPartial(ty, e.args.p, Ovf(e.args))
       [] k = "new" -> New(ty, NewVal(ty, e.args), Ovf(e.args))
ClsOf(e) ==
  LET ty == TyOf(e.op)  k == KindOf(e.op)
  IN Cls(ty, k, IF k = "with" THEN RecvOf(e) ELSE IF ty = "yearmonth" THEN YM(0, 0, 1) ELSE DT(Date(0, 0, 0), MidnightRec),
         IF k = "new" THEN NewAsPartial(ty, NewVal(ty, e.args)) ELSE e.args.p, Ovf(e.args))

\* a session follows the value it produced: the receiver of `with` is the current value
Chained(e) == KindOf(e.op) = "with" => (cur = Nil \/ (cur.ty = TyOf(e.op) /\ RecvOf(e) = cur.v))
\* the value the zone reports back carries the instant too; the cursor keeps the value as reported
After(e) == IF e.out.kind = "ok" THEN [ty |-> TyOf(e.op), v |-> IF TyOf(e.op) = "yearmonth" THEN YM(e.out.val.y, e.out.val.m, e.out.val.rd) ELSE e.out.val]
            ELSE IF KindOf(e.op) = "with" THEN cur ELSE Nil

TInit == l = 1 /\ cur = Nil /\ last = None
Reset == E.op = "reset" /\ cur' = Nil /\ last' = None
Match == /\ E.op # "reset" /\ Known(E.op) /\ Chained(E)
         /\ Agrees(Expected(E), E.out)
         /\ cur' = After(E)
         /\ last' = [op |-> E.op]
Mismatch == /\ E.op # "reset"
            /\ ~(Known(E.op) /\ Chained(E) /\ Agrees(Expected(E), E.out))
            /\ Report(l, E.op, IF Known(E.op) THEN ClsOf(E) ELSE "unknown-op",
                      IF ~Known(E.op) THEN "unknown-op" ELSE IF Chained(E) THEN Expected(E) ELSE "session-chain-broken", E.out)
            /\ cur' = IF Known(E.op) /\ E.out.kind = "ok" THEN After(E) ELSE Nil
            /\ last' = [op |-> "mismatch"]
TNext == l <= NEv /\ l' = l + 1 /\ (Reset \/ Match \/ Mismatch)
TSpec == TInit /\ [][TNext]_tvars

\* evaluated at every step: whatever the session holds is a well-formed value within the limits of its type
CursorOK ==
  \/ cur = Nil
  \/ /\ cur.ty \in {"date", "datetime", "zoned"} => ValidDate(DateOf(cur.v)) /\ DateInLimits(DateOf(cur.v))
     /\ cur.ty \in {"time", "datetime", "zoned"} => TimeOK(TimeOf(cur.v))
     /\ cur.ty = "datetime" => DateTimeInLimits(DateOf(cur.v), TimeOf(cur.v))
     /\ cur.ty = "yearmonth" => cur.v.m \in 1..12 /\ YmInLimits(cur.v.y, cur.v.m)
=============================================================================
