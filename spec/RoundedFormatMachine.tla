----------------------- MODULE RoundedFormatMachine -----------------------
(* The bounded generator machine over RoundedFormat: one step per (cell, rounding mode); laws on the printed text. *)
EXTENDS RoundedFormat
CONSTANTS RTimes, RDates, RInstants, RPrecs, RZones, RDurs
VARIABLES cell, last
vars == <<cell, last>>
None == [op |-> "none"]

Cells == {[ty |-> "PlainTime", t |-> t, p |-> p] : t \in RTimes, p \in RPrecs}
         \cup {[ty |-> "PlainDateTime", d |-> d, t |-> t, p |-> p] : d \in RDates, t \in RTimes, p \in RPrecs}
         \cup {[ty |-> "Instant", i |-> i, p |-> p] : i \in RInstants, p \in RPrecs}
         \cup {[ty |-> "Duration", D |-> D, p |-> p] : D \in RDurs, p \in RPrecs}
         \cup {[ty |-> "ZonedDateTime", i |-> i, tz |-> z, p |-> p] : i \in RInstants, z \in RZones, p \in RPrecs}
         \cup {[ty |-> "PlainTime", t |-> t, p |-> -2, viaPrec |-> TRUE] : t \in RTimes} \cup {[ty |-> "Instant", i |-> i, p |-> -2, viaPrec |-> TRUE] : i \in RInstants}
         \cup {[ty |-> "PlainDateTime", d |-> d, t |-> t, p |-> -2, viaPrec |-> TRUE] : d \in RDates, t \in RTimes}
         \* (a duration has no minute precision, however it is asked for)
         \cup {[ty |-> "Duration", D |-> D, p |-> -2, viaPrec |-> TRUE] : D \in RDurs}
         \* smallestUnit together with a disagreeing digit count
         \cup {[ty |-> "PlainTime", t |-> t, p |-> p, both |-> TRUE] : t \in RTimes, p \in RPrecs \cap {-2, 0, 3, 6, 9}}
         \cup {[ty |-> "Instant", i |-> i, p |-> p, both |-> TRUE] : i \in RInstants, p \in RPrecs \cap {-2, 0, 3, 6, 9}}
         \cup {[ty |-> "Duration", D |-> D, p |-> p, both |-> TRUE] : D \in RDurs, p \in RPrecs \cap {0, 3, 6, 9}}

Init == cell \in Cells /\ last = None
Step(mode) == last = None /\ last' = (CaseFor(cell, mode) @@ [cls |-> ClsOf(cell, mode)]) /\ UNCHANGED cell
Next == \E mode \in Modes : Step(mode)
Spec == Init /\ [][Next]_vars

(* laws on the model: the printed text has exactly the requested digits, and rounding with trunc agrees with the plain writer *)
Produced == last.op # "none" /\ last.out.kind = "ok"
DigitsLaw == Produced /\ cell.p >= 0 =>
  LET s == last.out.val
      dot == {i \in 1..Len(s) : s[i] = "."}
  IN IF cell.p = 0 THEN dot = {}
     ELSE /\ Cardinality(dot) = 1
          /\ LET i == CHOOSE k \in dot : TRUE IN \A k \in 1..cell.p : s[i + k] \in {"0", "1", "2", "3", "4", "5", "6", "7", "8", "9"}
\* cell.p digits exactly: the character after them is not a digit
DigitsExact == Produced /\ cell.p > 0 =>
  LET s == last.out.val
      i == CHOOSE k \in 1..Len(s) : s[k] = "."
  IN i + cell.p = Len(s) \/ s[i + cell.p + 1] \notin {"0", "1", "2", "3", "4", "5", "6", "7", "8", "9"}
=============================================================================
