----------------------------- MODULE ZonedArith -----------------------------
(***************************************************************************)
(* ZonedDateTime arithmetic (C14): date units on the wall clock (re-resolved *)
(* with the compatible rule), time units on the exact timeline; differences *)
(* per Temporal's DifferenceZonedDateTime (day-correction loop transcribed  *)
(* literally, it is bounded by 2); start of day; hours in day.              *)
(* Instants and wall readings are whole seconds relative to the base day    *)
(* (TimeZone.tla); BaseDay is that day's epoch-day number.                  *)
(***************************************************************************)
EXTENDS TimeZone, DateArith, Instant

BaseDay == 15340                                  \* 2012-01-01
\* wall reading (relative seconds) <-> (civil date, second of day)
WDay(w) == BaseDay + (w \div 86400)                \* TLA+ \div is floor
WSod(w) == w % 86400
WDate(w) == CivilFromDays(WDay(w))
WOf(date, sod) == (DFC(date) - BaseDay) * 86400 + sod

\* whole seconds of a duration's time fields (generators use h/mi/s only, so sub-second parts never change)
TimeSec(D) == ToInt(D.h) * 3600 + ToInt(D.mi) * 60 + ToInt(D.s)
HasDatePart(D) == ~IsZero(D.y) \/ ~IsZero(D.mo) \/ ~IsZero(D.w) \/ ~IsZero(D.d)

\* AddZonedDateTime
ZAdd(z, t, D, ovf) ==
  IF ~HasDatePart(D) THEN Ok(t + TimeSec(D))
  ELSE LET w == Wall(z, t)
           o == AddDateI(WDate(w), ToInt(D.y), ToInt(D.mo), ToInt(D.w), ToInt(D.d), ovf)
       IN IF o.kind # "ok" THEN o
          ELSE LET r == Disambiguate(z, WOf(o.val, WSod(w)), "compatible")
               IN IF r.kind # "ok" THEN r ELSE Ok(r.val + TimeSec(D))
ZSub(z, t, D, ovf) == ZAdd(z, t, NegDur(D), ovf)

\* DifferenceZonedDateTime -> [y, mo, w, d, t (seconds)]
ZDiffRec(z, t1, t2, largest) ==
  IF t1 = t2 THEN [y |-> 0, mo |-> 0, w |-> 0, d |-> 0, t |-> 0, defined |-> TRUE]
  ELSE LET w1 == Wall(z, t1)   w2 == Wall(z, t2)
           sign == IF t2 < t1 THEN -1 ELSE 1
           maxC == IF sign = 1 THEN 2 ELSE 1
           td0 == WSod(w2) - WSod(w1)
           c0 == IF SgnI(td0) = -sign THEN 1 ELSE 0
           \* the loop, unrolled (dayCorrection = c0, c0 + 1, c0 + 2 while <= maxC)
           Try(c) == LET idate == CivilFromDays(WDay(w2) - c * sign)
                         ins == Disambiguate(z, WOf(idate, WSod(w1)), "compatible").val
                         td == t2 - ins
                     IN [ok |-> SgnI(td) # -sign, idate |-> idate, td |-> td]
           c == IF Try(c0).ok THEN c0 ELSE IF c0 + 1 <= maxC /\ Try(c0 + 1).ok THEN c0 + 1 ELSE c0 + 2
           \* Temporal asserts that the loop succeeds within maxDayCorrection. With a repeated wall-clock interval near the end point
           \* (the intermediate reading is re-resolved to the earlier occurrence while the end point is the later one) it may not:
           \* then the proposal says nothing and `defined` is FALSE.
           defined == c <= maxC /\ Try(c).ok
           r == Try(c)
           dd == Diff(WDate(w1), r.idate, UnitMax(largest, "day"))
       IN IF WDay(w1) = WDay(w2) THEN [y |-> 0, mo |-> 0, w |-> 0, d |-> 0, t |-> t2 - t1, defined |-> TRUE]
          ELSE [y |-> dd.y, mo |-> dd.mo, w |-> dd.w, d |-> dd.d, t |-> r.td, defined |-> defined]
\* as a Duration; a time largest unit gives the exact elapsed time
ZUntil(z, t1, t2, largest) ==
  IF largest \in TimeUnits THEN Ok(BalanceDur(K9(FromInt(t2 - t1)), largest))
  ELSE LET r == ZDiffRec(z, t1, t2, largest)
           tb == BalanceDur(K9(FromInt(r.t)), "hour")
           dsign == IF r.y # 0 THEN SgnI(r.y) ELSE IF r.mo # 0 THEN SgnI(r.mo) ELSE IF r.w # 0 THEN SgnI(r.w) ELSE SgnI(r.d)
       \* where the local date order is opposite to the order of the instants (a backward jump of about a day between them) the
       \* date and time parts get opposite signs; Temporal's CombineDateAndTimeDuration asserts that away: nothing is specified
       IN IF ~r.defined \/ (dsign # 0 /\ SgnI(r.t) # 0 /\ dsign # SgnI(r.t)) THEN [kind |-> "any"] ELSE
          Ok(Dur10(FromInt(r.y), FromInt(r.mo), FromInt(r.w), FromInt(r.d), tb.h, tb.mi, tb.s, tb.ms, tb.us, tb.ns))
ZSince(z, t1, t2, largest) == LET o == ZUntil(z, t1, t2, largest) IN IF o.kind # "ok" THEN o ELSE Ok(NegDur(o.val))

\* withPlainTime(time): the receiver's local date with another wall-clock time, read with the compatible rule
\* (sod: seconds since local midnight; absent time = start of the day)
ZWithPlainTime(z, t, sod) == Disambiguate(z, WOf(WDate(Wall(z, t)), sod), "compatible")

\* start of the local calendar day containing instant t, and that day's real length in seconds
ZStartOfDay(z, t) == StartOfDay(z, (Wall(z, t) \div 86400) * 86400)
DayLength(z, t) == LET d0 == (Wall(z, t) \div 86400) * 86400 IN StartOfDay(z, d0 + 86400) - StartOfDay(z, d0)
\* the other operand of until / since in the fixed-offset zone `oz`: it is ANOTHER zone unless the receiver's zone is that very offset
OzSec(oz) == CASE oz = "+03:00" -> 10800 [] oz = "-09:30" -> -34200 [] oz = "+00:00" -> 0
IsOtherZone(z, oz) == ~(NT(z) = 0 /\ z.init = OzSec(oz))
=============================================================================
