//! Special runner `tvh c16 ...` for C16: discovery helpers shared with the recorder (rec/c16.rs).
//!   tvh c16 ids                       -> calendar identifiers the crate accepts (probed through Calendar::from_str)
//!   tvh c16 aliases                   -> (calendar, era alias) pairs read from the crate's own tables at run time
//!   tvh c16 probe <cal> <y> <m> <d> [count]  -> Cal.Day lines for consecutive days (debugging aid)
use crate::gen::{civil, days_from_civil};
use crate::ops;
use serde_json::{json, Value};
use std::str::FromStr;
use temporal_rs::Calendar;

/// Candidate spellings probed through the public parser; what it accepts is the list of supported calendars.
/// (BCP-47 `ca` values known to CLDR plus a few spellings that must be rejected or are aliases.)
pub const CANDIDATES: &[&str] = &[
    "iso8601", "iso", "buddhist", "chinese", "coptic", "dangi", "ethioaa", "ethiopic", "ethiopic-amete-alem", "gregory", "gregorian",
    "hebrew", "indian", "islamic", "islamic-civil", "islamicc", "islamic-rgsa", "islamic-tbla", "islamic-umalqura",
    "japanese", "japanext", "persian", "roc", "julian",
];

/// identifiers accepted by the crate: (spelling, canonical identifier)
pub fn accepted() -> Vec<(String, String)> {
    let mut v = Vec::new();
    for c in CANDIDATES {
        if let Ok(Ok(cal)) = std::panic::catch_unwind(|| Calendar::from_str(c)) {
            v.push((c.to_string(), cal.identifier().to_string()));
        }
    }
    v
}
/// canonical identifiers (deduplicated, in candidate order)
pub fn calendars() -> Vec<String> {
    let mut v: Vec<String> = Vec::new();
    for (_, id) in accepted() { if !v.contains(&id) { v.push(id); } }
    v
}

fn kind_to_id(kind: &str) -> Option<&'static str> {
    Some(match kind {
        "Buddhist" => "buddhist", "Chinese" => "chinese", "Coptic" => "coptic", "Dangi" => "dangi",
        "Ethiopian" => "ethiopic", "EthiopianAmeteAlem" => "ethioaa", "Gregorian" => "gregory", "Hebrew" => "hebrew",
        "Indian" => "indian", "IslamicCivil" => "islamic-civil", "IslamicObservational" => "islamic",
        "IslamicTabular" => "islamic-tbla", "IslamicUmmAlQura" => "islamic-umalqura", "Iso" => "iso8601",
        "Japanese" => "japanese", "JapaneseExtended" => "japanext", "Persian" => "persian", "Roc" => "roc",
        _ => return None,
    })
}

fn literals(s: &str) -> Vec<String> {
    let mut out = Vec::new();
    let mut rest = s;
    while let Some(i) = rest.find('"') {
        let r = &rest[i + 1..];
        if let Some(j) = r.find('"') { out.push(r[..j].to_string()); rest = &r[j + 1..]; } else { break; }
    }
    out
}

/// (calendar id, alias) pairs accepted by `Calendar::get_era_info`, read from the crate's source at run time
/// (the tables are pub(crate); reading the files keeps this list in step with the tree under test).
/// Falls back to an empty list (the recorder then uses only the era names the getters report plus its built-in list).
pub fn crate_aliases() -> Vec<(String, String)> {
    let root = std::env::var("VERIF_REPO").unwrap_or_else(|_| "/repo".to_string());
    let era_rs = std::fs::read_to_string(format!("{root}/src/builtins/core/calendar/era.rs")).unwrap_or_default();
    let cal_rs = std::fs::read_to_string(format!("{root}/src/builtins/core/calendar.rs")).unwrap_or_default();
    // const NAME: [TinyAsciiStr<19>; n] = [ era_identifier!("a"), ... ];
    let mut consts: Vec<(String, Vec<String>)> = Vec::new();
    for chunk in era_rs.split("pub(crate) const ").skip(1) {
        let name: String = chunk.chars().take_while(|c| c.is_ascii_alphanumeric() || *c == '_').collect();
        if let Some(end) = chunk.find(';') {
            // the array type itself contains ';' ("[T; 2]"): take up to the closing "];"
            let body_end = chunk.find("];").map(|e| e + 1).unwrap_or(end);
            let body = &chunk[..body_end];
            if body.contains("era_identifier!") { consts.push((name, literals(body))); }
        }
    }
    let mut out: Vec<(String, String)> = Vec::new();
    let Some(start) = cal_rs.find("fn get_era_info") else { return out; };
    let body = &cal_rs[start..];
    let body = &body[..body.find("fn get_calendar_default_era").unwrap_or(body.len())];
    for arm in body.split("AnyCalendarKind::").skip(1) {
        let kind: String = arm.chars().take_while(|c| c.is_ascii_alphanumeric()).collect();
        let Some(id) = kind_to_id(&kind) else { continue; };
        let guard = &arm[..arm.find("=>").unwrap_or(arm.len())];
        if let Some(p) = guard.find("era::") {
            let cname: String = guard[p + 5..].chars().take_while(|c| c.is_ascii_alphanumeric() || *c == '_').collect();
            if let Some((_, ls)) = consts.iter().find(|(n, _)| *n == cname) {
                for l in ls { out.push((id.to_string(), l.clone())); }
            }
        } else {
            for l in literals(guard) { out.push((id.to_string(), l)); }
        }
    }
    out.dedup();
    out
}

pub fn main(a: &[String]) {
    match a.first().map(|s| s.as_str()).unwrap_or("") {
        "ids" => println!("{}", json!({"accepted": accepted(), "calendars": calendars()})),
        "aliases" => println!("{}", json!(crate_aliases())),
        "probe" | "probe-loud" => {
            if a[0] == "probe-loud" { let _ = std::panic::take_hook(); }
            let (y, m, d): (i64, i64, i64) = (a[2].parse().unwrap(), a[3].parse().unwrap(), a[4].parse().unwrap());
            let cnt: i64 = a.get(5).map(|s| s.parse().unwrap()).unwrap_or(1);
            let n0 = days_from_civil(y, m, d);
            for n in n0..n0 + cnt {
                let (y, m, d) = civil(n);
                let out = ops::exec("Cal.Day", &json!({"cal": a[1], "n": n, "iso": {"y": y, "m": m, "d": d}}));
                println!("{y:+07}-{m:02}-{d:02} {out}");
            }
        }
        "scan" => {
            // tvh c16 scan <cal> <y0> <y1> <step-years>: where do the getters panic?
            let (y0, y1, st): (i64, i64, i64) = (a[2].parse().unwrap(), a[3].parse().unwrap(), a[4].parse().unwrap());
            let mut y = y0;
            let mut last = String::new();
            while y <= y1 {
                let n = days_from_civil(y, 6, 15);
                let (yy, m, d) = civil(n);
                let out = ops::exec("Cal.Day", &json!({"cal": a[1], "n": n, "iso": {"y": yy, "m": m, "d": d}}));
                let k = out["kind"].as_str().unwrap().to_string();
                if k != last { println!("{y} {k}"); last = k; }
                y += st;
            }
        }
        "exec" => {
            let v: Value = serde_json::from_str(&a[1]).expect("json");
            println!("{}", ops::exec(v["op"].as_str().unwrap(), &v["args"]));
        }
        _ => { eprintln!("usage: tvh c16 ids | aliases | probe <cal> <y> <m> <d> [count]"); std::process::exit(2); }
    }
}
