//! C15 sessions against the bundled tz provider.
//!
//! `tvh record c15 <seed> <cap> <out> lookup <part> <nparts>`: for every zone of the tier (quick: ~40 chosen
//! zones, thorough: every Zone/Link name of tzdata.zi; zones with index % nparts == part), in provider
//! sessions of a few zones each: a `Tzdb.table` event (the table read with the tzif crate's parser), then
//! `Tzdb.offset` / `Tzdb.local` queries around table transitions (at most `cap` per zone), around rule-based
//! transitions after the table, at year starts, and in unknown zones; earlier queries are asked again later
//! in the session (history). `... ids`: `Tzdb.names`, then `Tzdb.check` for every name in four spellings
//! and for mutated non-names.
//!
//! `... synth <nzones> [part nparts]`: synthetic TZif data (harness/src/synth_tzif.rs): for each of `nzones` seeded descriptions
//! (table shape x footer shape, see `synth_desc`): `Tzdb.define` (bytes written and handed to `Tzif::from_bytes`),
//! `Tzdb.table` (the tzif crate's parse of those bytes), then the same kinds of queries as for real zones.
//!
//! The driver only chooses inputs (its own arithmetic below is used for nothing else); every answer is
//! judged by spec/trace/Trace_Tzif.tla from the table event.
use super::Tracer;
use crate::gen::*;
use crate::ops_tzdb::iana_names;
use crate::rng::Rng;
use serde_json::{json, Value};

pub const QUICK_ZONES: [&str; 48] = [
    // (the first six: zones sharing a 16-byte identifier prefix with different rules, queried in the same provider sessions)
    "America/Indiana/Indianapolis", "America/Indiana/Knox", "America/Indiana/Tell_City", "America/Argentina/Buenos_Aires", "America/Argentina/San_Luis", "America/Argentina/Ushuaia",
    "Europe/Dublin", "America/New_York", "Australia/Sydney", "Asia/Kolkata", "Africa/Casablanca", "Etc/GMT+5", "UTC",
    "Pacific/Apia", "America/St_Johns", "Asia/Kathmandu", "Europe/London", "Europe/Berlin", "Europe/Lisbon", "Europe/Moscow",
    "Europe/Chisinau", "Asia/Gaza", "Asia/Jerusalem", "Asia/Tehran", "Asia/Tokyo", "Asia/Kabul", "Asia/Pyongyang",
    "Africa/Cairo", "Africa/Monrovia", "Africa/Windhoek", "Africa/El_Aaiun", "Africa/Juba", "America/Santiago", "America/Sao_Paulo",
    "America/Nuuk", "America/Scoresbysund", "America/Havana", "America/Caracas", "America/Phoenix", "America/Anchorage",
    "Antarctica/Troll", "Antarctica/Casey", "Australia/Lord_Howe", "Pacific/Chatham", "Pacific/Kiritimati", "Pacific/Norfolk",
    "Atlantic/Azores", "Etc/GMT-14",
];

// ---------- input helpers ----------
fn pt(sec: i64, ns: i64) -> Value { json!({"d": sec.div_euclid(86_400), "s": sec.rem_euclid(86_400), "ns": ns}) }
fn local_json(sec: i64, ns: i64) -> Value {
    let (y, m, d) = civil(sec.div_euclid(86_400));
    let s = sec.rem_euclid(86_400);
    json!({"y": y, "m": m, "d": d, "h": s / 3600, "mi": s % 3600 / 60, "s": s % 60, "ms": ns / 1_000_000, "us": ns / 1000 % 1000, "ns": ns % 1000})
}
fn is_leap(y: i64) -> bool { (y % 4 == 0 && y % 100 != 0) || y % 400 == 0 }
fn dim(y: i64, m: i64) -> i64 { match m { 2 => if is_leap(y) { 29 } else { 28 }, 4 | 6 | 9 | 11 => 30, _ => 31 } }
/// local second (relative to the epoch, as if local were UTC) at which rule `r` fires in year y
fn rule_local(r: &Value, y: i64) -> i64 {
    let t = r["t"].as_i64().unwrap();
    let day = match r["k"].as_str().unwrap() {
        "J" => { let n = r["n"].as_i64().unwrap(); days_from_civil(y, 1, 1) + n - 1 + if is_leap(y) && n >= 60 { 1 } else { 0 } }
        "N" => days_from_civil(y, 1, 1) + r["n"].as_i64().unwrap(),
        _ => {
            let (m, w, d) = (r["m"].as_i64().unwrap(), r["w"].as_i64().unwrap(), r["d"].as_i64().unwrap());
            let first = days_from_civil(y, m, 1);
            let dow = (first + 4).rem_euclid(7); // 0 = Sunday
            let mut c = first + (d - dow).rem_euclid(7) + 7 * (w - 1);
            if c >= first + dim(y, m) { c -= 7; }
            c
        }
    };
    day * 86_400 + t
}

pub struct Q { pub op: &'static str, pub args: Value }

pub fn queries_for(zone: &str, tab: &Value, r: &mut Rng, cap: usize, thorough: bool) -> Vec<Q> {
    let mut q: Vec<Q> = Vec::new();
    let off_q = |q: &mut Vec<Q>, sec: i64, ns: i64| q.push(Q { op: "Tzdb.offset", args: json!({"zone": zone, "t": pt(sec, ns)}) });
    let loc_q = |q: &mut Vec<Q>, sec: i64, ns: i64| q.push(Q { op: "Tzdb.local", args: json!({"zone": zone, "local": local_json(sec, ns)}) });
    // around a change from offset a to offset b at UTC second t
    let around = |q: &mut Vec<Q>, r: &mut Rng, t: i64, a: i64, b: i64, subsec: bool| {
        for dt in [-1, 0, 1] { off_q(q, t + dt, 0); }
        if subsec { off_q(q, t - 1, 999_999_999); off_q(q, t, 1); }
        let (lo, hi) = (a.min(b), a.max(b));
        let mut ls = vec![t + lo - 1, t + lo, t + hi - 1, t + hi, t + hi + 1];
        if hi - lo > 2 { ls.push(t + lo + r.range(1, hi - lo - 1)); }
        ls.sort(); ls.dedup();
        for l in ls { loc_q(q, l, 0); }
        if subsec { loc_q(q, t + lo - 1, 999_999_999); loc_q(q, t + hi, 500_000_000); }
    };
    let types = tab["types"].as_array().unwrap();
    let trans = tab["trans"].as_array().unwrap();
    let tsec = |i: usize| trans[i]["d"].as_i64().unwrap() * 86_400 + trans[i]["s"].as_i64().unwrap();
    let toff = |ty: i64| types[(ty - 1) as usize]["off"].as_i64().unwrap();
    // which table transitions
    let n = trans.len();
    let mut pick: Vec<usize> = (0..n).collect();
    if n > cap {
        let edge = (cap / 4).max(2);
        let mut s: Vec<usize> = (0..edge).chain(n - edge..n).collect();
        while s.len() < cap { let i = r.range(0, n as i64 - 1) as usize; if !s.contains(&i) { s.push(i); } }
        s.sort(); pick = s;
    }
    for (k, &i) in pick.iter().enumerate() {
        let prev = if i == 0 { 1 } else { trans[i - 1]["ty"].as_i64().unwrap() };
        around(&mut q, r, tsec(i), toff(prev), toff(trans[i]["ty"].as_i64().unwrap()), thorough || k % 3 == 0);
    }
    // far before the first / after the last transition, year starts
    let years: &[i64] = &[1, 1000, 1800, 1850, 1900, 1950, 1970, 2000, 2037, 2038, 2039, 2100, 2400, 9999];
    for &y in years {
        let s = days_from_civil(y, 1, 1) * 86_400;
        off_q(&mut q, s, 0);
        loc_q(&mut q, s + 43_200, 0);
        loc_q(&mut q, days_from_civil(y, 7, 1) * 86_400 + 43_200, 0);
    }
    off_q(&mut q, days_from_civil(9999, 12, 31) * 86_400 + 86_399, 999_999_999);
    off_q(&mut q, 2_147_483_647, 0); off_q(&mut q, 2_147_483_648, 0); off_q(&mut q, -2_147_483_648, 0); off_q(&mut q, -2_147_483_649, 0);
    off_q(&mut q, 0, 0); off_q(&mut q, -1, 999_999_999);
    if n > 0 { off_q(&mut q, tsec(0) - 31_536_000, 0); off_q(&mut q, tsec(n - 1) + 1, 0); off_q(&mut q, tsec(n - 1) + 315_360_000, 0); }
    // a wall-clock reading whose instant is outside the representable range, between two identical answerable questions:
    // the failing call must not change the second answer (one of the two range ends fails, depending on the sign of the offset)
    for far in [days_from_civil(275760, 9, 13) * 86_400 + 43_200, days_from_civil(-271821, 4, 20) * 86_400 + 1] {
        let t0 = days_from_civil(2001, 9, 9) * 86_400 + 6400 + r.range(0, 86_399);
        loc_q(&mut q, t0, 0); loc_q(&mut q, far, 0); loc_q(&mut q, t0, 0);
    }
    // rule-based transitions after the table
    let f = &tab["footer"];
    if f["kind"] == "rule" {
        let (std, dst) = (f["std"].as_i64().unwrap(), f["dst"].as_i64().unwrap());
        let last_year = if n > 0 { civil(tsec(n - 1).div_euclid(86_400)).0 } else { 1969 };
        let mut ys: Vec<i64> = if thorough { (2038..=2100).collect() } else { vec![2038, 2039, 2040, 2050, 2099, 2100, r.range(2041, 2098), r.range(2101, 2399)] };
        ys.extend([2400, 9999, last_year + 1]);
        // century years (leap only every fourth of them): a rule's weekday arithmetic meets every alignment of the 1st of its month there
        ys.extend([2200, 2300, 2500, 2700, 3100, 100 * r.range(22, 99)]);
        if n == 0 { ys.extend([1, 1900, 1970, 2000]); }
        ys.sort(); ys.dedup();
        for (k, y) in ys.into_iter().enumerate() {
            if y <= last_year { continue; }
            around(&mut q, r, rule_local(&f["start"], y) - std, std, dst, thorough || k % 4 == 0);
            around(&mut q, r, rule_local(&f["end"], y) - dst, dst, std, thorough || k % 4 == 1);
            // mid-summer and mid-winter
            off_q(&mut q, days_from_civil(y, 1, 15) * 86_400 + 43_200, 0);
            off_q(&mut q, days_from_civil(y, 7, 15) * 86_400 + 43_200, 0);
        }
    }
    q
}


// ---------- synthetic TZif descriptions ----------
// Everything below only chooses inputs. The footer is kept consistent with the last table transition (RFC 8536 3.3) by
// the driver's own reading of the rule; if that reading were wrong the trace spec would report `table-ill-formed`.
#[derive(Clone, Debug)]
pub struct Rule { pub k: char, pub m: i64, pub w: i64, pub d: i64, pub n: i64, pub t: i64 }
impl Rule {
    fn json(&self) -> Value { match self.k { 'M' => json!({"k": "M", "m": self.m, "w": self.w, "d": self.d, "t": self.t}), 'J' => json!({"k": "J", "n": self.n, "t": self.t}), _ => json!({"k": "N", "n": self.n, "t": self.t}) } }
    fn text(&self) -> String {
        let day = match self.k { 'M' => format!("M{}.{}.{}", self.m, self.w, self.d), 'J' => format!("J{}", self.n), _ => format!("{}", self.n) };
        if self.t == 7200 { day } else { format!("{}/{}", day, hms(self.t)) }
    }
}
/// [+|-]h[:mm[:ss]]. The tzif crate's parser reads "-0:30" as +0:30, so values in (-3600, 0) are never produced (see `avoid`).
fn hms(v: i64) -> String {
    let a = v.abs(); let (h, m, s) = (a / 3600, a % 3600 / 60, a % 60);
    assert!(!(v < 0 && h == 0), "HARNESS: -0:mm is not representable for the parser");
    let mut o = format!("{}{}", if v < 0 { "-" } else { "" }, h);
    if m != 0 || s != 0 { o += &format!(":{:02}", m); }
    if s != 0 { o += &format!(":{:02}", s); }
    o
}
/// move a value out of (-3600, 0)
fn avoid(v: i64) -> i64 { if v < 0 && v > -3600 { v - 3600 } else { v } }
#[derive(Clone, Debug)]
pub struct Footer { pub std: i64, pub dst: Option<(i64, Rule, Rule)> }
impl Footer {
    /// POSIX offsets are west-positive
    fn text(&self) -> String {
        match &self.dst { None => format!("AAA{}", hms(-self.std)),
                          Some((d, s, e)) => format!("AAA{}BBB{},{},{}", hms(-self.std), hms(-d), s.text(), e.text()) }
    }
    /// the driver's reading: DST on [start - std, end - dst) per year, running into the next year when start comes after end
    fn off_at(&self, t: i64) -> i64 {
        let Some((dst, s, e)) = &self.dst else { return self.std };
        let y0 = civil(t.div_euclid(86_400)).0;
        for y in y0 - 1..=y0 + 1 {
            let a = rule_local(&s.json(), y) - self.std; let b = rule_local(&e.json(), y) - dst;
            let b = if a < b { b } else { rule_local(&e.json(), y + 1) - dst };
            if a <= t && t < b { return *dst; }
        }
        self.std
    }
}
/// an east offset that the POSIX string can carry: |hours| <= 24 and not in (0, 3600) (west-positive "-0:mm")
fn footer_off(v: i64) -> i64 { let v = v.clamp(-24 * 3600 - 3599, 24 * 3600 + 3599); if v > 0 && v < 3600 { v + 3600 } else { v } }
fn rule_time(r: &mut Rng, odd: bool) -> i64 {
    if !odd { return *r.pick(&[7200i64, 7200, 3600, 0, 10_800, 9000]); }
    avoid(match r.range(0, 6) { 0 => -3600, 1 => 26 * 3600, 2 => -r.range(1, 167) * 3600, 3 => r.range(25, 167) * 3600, 4 => 24 * 3600, 5 => r.range(-100_000, 200_000), _ => -(r.range(3600, 90_000)) })
}
fn m_rule(r: &mut Rng, m: i64, odd: bool, k: usize) -> Rule {
    // week 5 ("last") and every weekday come up deterministically with k
    let w = if k % 2 == 0 { 5 } else { r.range(1, 4) };
    Rule { k: 'M', m, w, d: (k as i64 / 2) % 7, n: 0, t: rule_time(r, odd) }
}
/// footer shapes; `k` counts how often this shape has been used (varies the deterministic parameters)
pub const FOOTER_SHAPES: usize = 12;
pub fn synth_footer(r: &mut Rng, shape: usize, k: usize) -> Option<Footer> {
    let base = footer_off(*r.pick(&[0i64, 3600, -18_000, 19_800, 34_200, 43_200, -39_600, 46_800, -12_600]));
    let plus = |std: i64, d: i64| footer_off(std + d);
    // two months / day numbers at least two months apart in both directions
    let m1 = r.range(1, 12); let gap = r.range(2, 10); let m2 = (m1 - 1 + gap) % 12 + 1;
    let (lo, hi) = (m1.min(m2), m1.max(m2));
    let n1 = r.range(1, 365); let n2 = (n1 - 1 + r.range(45, 320)) % 365 + 1;
    let special_j = [1i64, 59, 60, 61, 365, 200];
    let special_n = [0i64, 58, 59, 60, 364, 365, 150];
    Some(match shape {
        0 => Footer { std: if k % 2 == 0 { base } else { footer_off(r.range(-50_000, 50_000)) }, dst: None },
        1 => Footer { std: base, dst: Some((plus(base, 3600), m_rule(r, lo, false, k), m_rule(r, hi, false, k + 7))) },              // north
        2 => Footer { std: base, dst: Some((plus(base, 3600), m_rule(r, hi, false, k), m_rule(r, lo, false, k + 3))) },              // south
        3 => Footer { std: base, dst: Some((plus(base, -3600), if k % 2 == 0 { m_rule(r, hi, false, k) } else { m_rule(r, lo, false, k) },
                                             if k % 2 == 0 { m_rule(r, lo, false, k + 1) } else { m_rule(r, hi, false, k + 1) })) }, // negative DST
        4 => { let a = if k % 2 == 0 { special_j[(k / 2) % special_j.len()] } else { n1 }; let b = (a - 1 + r.range(45, 320)) % 365 + 1;
               Footer { std: base, dst: Some((plus(base, 3600), Rule { k: 'J', m: 0, w: 0, d: 0, n: a, t: rule_time(r, false) }, Rule { k: 'J', m: 0, w: 0, d: 0, n: b, t: rule_time(r, false) })) } }
        5 => { let a = if k % 2 == 0 { special_n[(k / 2) % special_n.len()] } else { n1 - 1 }; let b = (a + r.range(45, 320)) % 365;
               Footer { std: base, dst: Some((plus(base, 3600), Rule { k: 'N', m: 0, w: 0, d: 0, n: a, t: rule_time(r, false) }, Rule { k: 'N', m: 0, w: 0, d: 0, n: b, t: rule_time(r, false) })) } }
        // mixed day kinds in one footer (valid POSIX): J60 with M11.1.0 first, then every pairing
        6 => { let j = Rule { k: 'J', m: 0, w: 0, d: 0, n: if k == 0 { 60 } else { r.range(50, 120) }, t: 7200 };
               let m = if k == 0 { Rule { k: 'M', m: 11, w: 1, d: 0, n: 0, t: 7200 } } else { let mm = r.range(8, 11); m_rule(r, mm, false, k) };
               let n = Rule { k: 'N', m: 0, w: 0, d: 0, n: r.range(240, 330), t: 7200 };
               let (s, e) = match k % 6 { 0 => (j, m), 1 => (m, j), 2 => (j, n), 3 => (n, j), 4 => (Rule { n: r.range(50, 120), ..n }, m), _ => (m, Rule { n: r.range(50, 120), ..n }) };
               Footer { std: base, dst: Some((plus(base, 3600), s, e)) } }
        // rule times that are negative or beyond 24 h: M3.5.0/-1 and M10.5.0/26 first
        7 => { let (s, e) = if k == 0 { (Rule { k: 'M', m: 3, w: 5, d: 0, n: 0, t: -3600 }, Rule { k: 'M', m: 10, w: 5, d: 0, n: 0, t: 26 * 3600 }) }
                            else if k % 2 == 0 { (m_rule(r, lo, true, k), m_rule(r, hi, true, k + 1)) } else { (m_rule(r, hi, true, k), m_rule(r, lo, true, k + 1)) };
               Footer { std: base, dst: Some((plus(base, 3600), s, e)) } }
        // offsets with seconds, large offsets, DST steps other than one hour
        8 => { let std = footer_off(match k % 4 { 0 => r.range(-50_000, 50_000), 1 => *r.pick(&[54_000i64, -54_000, 86_400, -86_400, 89_999, -89_999]), 2 => r.range(50_000, 89_999), _ => -r.range(50_000, 89_999) });
               let step = *r.pick(&[3600i64, 1800, 7200, 1200, 3601, 5400]);
               let dst = footer_off(if std + step > 89_999 { std - step } else { std + step });
               Footer { std, dst: Some((dst, m_rule(r, lo, false, k), m_rule(r, hi, false, k + 2))) } }
        // no footer at all (the empty TZ string of RFC 8536)
        9 => return None,
        // J / N rules with odd times and other steps, north and south
        10 => { let (a, b) = if k % 2 == 0 { (n1, n2) } else { (n2, n1) };
                let mk = |r: &mut Rng, kind: char, n: i64| Rule { k: kind, m: 0, w: 0, d: 0, n: if kind == 'N' { n - 1 } else { n }, t: rule_time(r, true) };
                let kind = if k % 4 < 2 { 'J' } else { 'N' };
                Footer { std: base, dst: Some((plus(base, *r.pick(&[3600i64, 1800, 7200, -3600])), mk(r, kind, a), mk(r, kind, b))) } }
        // all-year DST, the way zic writes it (start J1/0 or 0/0, end J365/25 or J365/23): DST never ends
        _ => { let dst = plus(base, 3600);
               let s = if k % 2 == 0 { Rule { k: 'N', m: 0, w: 0, d: 0, n: 0, t: 0 } } else { Rule { k: 'J', m: 0, w: 0, d: 0, n: 1, t: 0 } };
               Footer { std: base, dst: Some((dst, s, Rule { k: 'J', m: 0, w: 0, d: 0, n: 365, t: 24 * 3600 + (dst - base) })) } }
    })
}

/// table shapes: (types, transitions) with strictly increasing times
pub const TABLE_SHAPES: usize = 7;
pub fn synth_table(r: &mut Rng, shape: usize, k: usize) -> (Vec<(i64, bool)>, Vec<(i64, usize)>) {
    let day = |y: i64, m: i64, d: i64| days_from_civil(y, m, d) * 86_400;
    let t0 = day(r.range(1850, 2030), r.range(1, 12), r.range(1, 28)) + r.range(0, 86_399);
    match shape {
        0 => (vec![(*r.pick(&[0i64, 3600, -28_800, 20_700]), false)], vec![]),
        1 => { let a = r.range(-50_000, 50_000); let b = *r.pick(&[a + 3600, a - 3600, a / 900 * 900, a + 1, a - 86_400 + 100, a]);
               (vec![(a, false), (b, k % 2 == 1)], vec![(t0, 1)]) }
        // yearly DST pairs, like real zones
        2 => { let o = *r.pick(&[0i64, 3600, -18_000, 34_200, 45_900]); let y0 = r.range(1900, 2030);
               let mut tr = Vec::new();
               for y in y0..y0 + r.range(3, 9) { tr.push((day(y, 3, r.range(1, 31)) + r.range(0, 86_399), 1)); tr.push((day(y, 10, r.range(1, 31)) + r.range(0, 86_399), 0)); }
               (vec![(o, false), (o + 3600, true)], tr) }
        // irregular and close transitions: seconds, minutes, an hour apart, around the sizes of the offset changes
        3 => { let o = *r.pick(&[0i64, 7200, -10_800, 19_800]);
               let types = vec![(o, false), (o + 3600, true), (o + 1800, false), (o - 3600, false), (o + 7200, true)];
               let gaps = [1i64, 1, 2, 59, 60, 61, 600, 1799, 1800, 1801, 3599, 3600, 3601, 7199, 7200, 7201, 86_399, 86_400, 86_401, 40 * 86_400];
               let mut tr = Vec::new(); let mut t = t0; let mut cur = 0usize;
               for i in 0..r.range(6, 14) { let mut ty = r.range(0, 4) as usize; if ty == cur { ty = (ty + 1) % 5; }
                   tr.push((t, ty)); cur = ty; t += if i as usize % 5 == k % 5 { 1 } else { *r.pick(&gaps) }; }
               (types, tr) }
        // many local time types, offsets with seconds
        4 => { let nt = r.range(12, 40) as usize;
               let types: Vec<(i64, bool)> = (0..nt).map(|i| (if i % 3 == 0 { r.range(-50_400, 50_400) } else { r.range(-56, 56) * 900 }, r.chance(1, 3))).collect();
               let mut tr = Vec::new(); let mut t = t0 - 50 * 365 * 86_400;
               for i in 0..r.range(nt as i64, 60) { tr.push((t, if (i as usize) < nt { (i as usize + 1) % nt } else { r.range(0, nt as i64 - 1) as usize }));
                   t += match r.range(0, 3) { 0 => r.range(3600, 200_000), 1 => r.range(200_000, 30 * 86_400), _ => r.range(30 * 86_400, 3 * 365 * 86_400) }; }
               (types, tr) }
        // large offsets: +-15 h .. +-25 h, date-line style jumps of a whole day
        5 => { let big = [54_000i64, -54_000, 64_800, -64_800, 86_400, -86_400, 89_999, -89_999, 93_599, 50_400, -43_200, 46_800];
               let nt = r.range(3, 7) as usize;
               let types: Vec<(i64, bool)> = (0..nt).map(|i| (if i == 1 && k % 2 == 0 { -43_200 } else if i == 2 && k % 2 == 0 { 43_200 } else { *r.pick(&big) }, r.chance(1, 4))).collect();
               let mut tr = Vec::new(); let mut t = t0;
               for i in 0..r.range(3, 10) { tr.push((t, (i as usize + 1) % nt)); t += r.range(2 * 86_400, 4 * 365 * 86_400); }
               (types, tr) }
        // local mean time with seconds, then changes of the DST flag / designation only (same offset)
        _ => { let lmt = r.range(-50_000, 50_000); let o = (lmt + 450).div_euclid(900) * 900;
               let types = vec![(lmt, false), (o, false), (o, true), (o + 3600, true), (o, false)];
               (types, vec![(t0 - 80 * 365 * 86_400, 1), (t0, 2), (t0 + r.range(1, 400) * 86_400, 3), (t0 + 500 * 86_400, 4), (t0 + 500 * 86_400 + r.range(1, 7200), 1)]) }
    }
}

/// the i-th synthetic description: table shape x footer shape (both cycle, so every shape comes up every few zones)
pub fn synth_desc(r: &mut Rng, i: usize) -> Value {
    // zone i = TABLE_SHAPES * a + ts: for every table shape the footer shape runs through all of them as a grows, and
    // consecutive zones differ in both (84 zones = the full cross product)
    let shape_of = |j: usize| (j % TABLE_SHAPES, (j / TABLE_SHAPES + 5 * (j % TABLE_SHAPES)) % FOOTER_SHAPES);
    let (ts, fs) = shape_of(i);
    let (mut types, mut trans) = synth_table(r, ts, i / TABLE_SHAPES);
    // RFC 8536: utoff SHOULD be in [-89999, 93599] (the library assumes |offset| < 26 h)
    for t in types.iter_mut() { t.0 = t.0.clamp(-89_999, 93_599); }
    // how often this footer shape has come up before: the deterministic variants of a shape come in that order
    let footer = synth_footer(r, fs, (0..i).filter(|j| shape_of(*j).1 == fs).count());
    if let (Some(f), Some(&(last, _))) = (&footer, trans.last()) {
        // the footer continues the table: one more transition, into the type the footer prescribes at that second
        let mut t = last + match r.range(0, 3) { 0 => 1, 1 => r.range(2, 86_400), _ => r.range(86_400, 2 * 365 * 86_400) };
        // every fourth zone: the table ends less than a day before a rule transition of the footer
        if let (Some((dst, s, _)), true) = (&f.dst, i % 4 == 1) {
            let y = civil(t.div_euclid(86_400)).0 + 1;
            let ev = rule_local(&s.json(), y) - f.std.min(*dst) - r.range(1, 80_000);
            if ev > last { t = ev; }
        }
        let off = f.off_at(t);
        let is_dst = f.dst.as_ref().map(|d| d.0 == off && d.0 != f.std).unwrap_or(false);
        let ty = types.iter().position(|x| *x == (off, is_dst)).unwrap_or_else(|| { types.push((off, is_dst)); types.len() - 1 });
        trans.push((t, ty));
    }
    json!({"types": types.iter().map(|(o, d)| json!({"off": o, "dst": d})).collect::<Vec<_>>(),
           "trans": trans.iter().map(|(t, ty)| json!({"d": t.div_euclid(86_400), "s": t.rem_euclid(86_400), "ty": ty + 1})).collect::<Vec<_>>(),
           "footer": footer.map(|f| f.text()).unwrap_or_default()})
}

fn synth(t: &mut Tracer, r: &mut Rng, cap: usize, nzones: usize, part: usize, nparts: usize) {
    // writer self-check (not part of the trace): real files re-written from their parsed content parse to the same tables
    for z in ["Europe/Dublin", "America/New_York", "Africa/Casablanca", "Australia/Lord_Howe", "UTC", "America/Nuuk"] {
        if let Err(e) = crate::synth_tzif::roundtrip_real(z) { panic!("HARNESS: TZif writer round trip failed for {}: {}", z, e); }
    }
    let mine: Vec<usize> = (0..nzones).filter(|i| i % nparts == part).collect();
    let base = r.0;
    for group in mine.chunks(3) {
        t.call("Tzdb.fresh", json!({}));
        let mut asked: Vec<(String, Value)> = Vec::new();
        for &i in group {
            // every zone has its own stream: the i-th description does not depend on how the zones are split into parts
            let mut zr = Rng::new(base ^ (i as u64).wrapping_mul(0x9E37_79B9_7F4A_7C15));
            let z = format!("synth/{}", i);
            let desc = synth_desc(&mut zr, i);
            t.call("Tzdb.define", json!({"zone": z, "desc": desc}));
            let tab = t.call("Tzdb.table", json!({"zone": z}));
            if tab["kind"] != "ok" {
                // bytes rejected by the parser: the zone does not exist for the provider either
                t.call("Tzdb.offset", json!({"zone": z, "t": pt(1_000_000_000, 0)}));
                t.call("Tzdb.local", json!({"zone": z, "local": local_json(1_000_000_000, 0)}));
                continue;
            }
            // (the thorough tier has seven times the zones and a larger cap, not the every-year sweep of the real zones)
            let qs = queries_for(&z, &tab["val"], &mut zr, cap, false);
            for (j, q) in qs.into_iter().enumerate() {
                t.call(q.op, q.args.clone());
                if j % 37 == 5 { asked.push((q.op.to_string(), q.args)); }
            }
            // the days around the rule transitions of three years (after the table): noon, as an instant and as a wall-clock reading
            let f = &tab["val"]["footer"];
            if f["kind"] == "rule" {
                let tr = tab["val"]["trans"].as_array().unwrap();
                let after = tr.last().map(|x| civil(x["d"].as_i64().unwrap()).0 + 1).unwrap_or(1965);
                let (std, dst) = (f["std"].as_i64().unwrap(), f["dst"].as_i64().unwrap());
                for y in [after, after.max(2037) + 3, after.max(2100) + zr.range(1, 200)] {
                    for (rule, off) in [(&f["start"], std), (&f["end"], dst)] {
                        let ev = rule_local(rule, y) - off;
                        for dd in [-20i64, -9, -4, -2, -1, 1, 2, 4, 9, 20] {
                            let at = (ev + dd * 86_400).div_euclid(86_400) * 86_400 + 43_200;
                            t.call("Tzdb.offset", json!({"zone": z, "t": pt(at, 0)}));
                            t.call("Tzdb.local", json!({"zone": z, "local": local_json(at, 0)}));
                        }
                    }
                }
            }
        }
        for _ in 0..asked.len().min(20) { let (op, args) = r.pick(&asked).clone(); t.call(&op, args); }
        t.reset();
    }
}

/// One provider, many zones: four real zones are asked first, then about fifty distinct zones with tiny tables (the fixed-offset
/// Etc/GMT+n family and the UTC aliases), then the first questions again - a bounded or keyed cache that confuses entries once
/// it has seen more zones than it has room for would answer them from another zone's data.
fn long_session(t: &mut Tracer) {
    t.call("Tzdb.fresh", json!({}));
    let first = ["America/New_York", "Europe/Dublin", "Asia/Kolkata", "Australia/Sydney"];
    let at = [pt(1_600_000_000, 0), pt(1_610_000_000, 0), pt(-1_000_000_000, 0)];
    let mut asked: Vec<Value> = Vec::new();
    for z in first { t.call("Tzdb.table", json!({"zone": z})); for a in &at { let q = json!({"zone": z, "t": a}); t.call("Tzdb.offset", q.clone()); asked.push(q); } }
    let names = iana_names();
    let small: Vec<&String> = names.iter().filter(|n| n.starts_with("Etc/") || ["GMT", "GMT0", "GMT+0", "GMT-0", "Greenwich", "UCT", "UTC", "Universal", "Zulu", "EST", "MST", "HST"].contains(&n.as_str())).collect();
    for (i, z) in small.iter().enumerate() {
        t.call("Tzdb.table", json!({"zone": z}));
        let q = json!({"zone": z, "t": at[i % 3]}); t.call("Tzdb.offset", q.clone());
        if i < 8 { asked.push(q); }
    }
    for q in asked { t.call("Tzdb.offset", q); }
    t.reset();
}

fn lookup(t: &mut Tracer, r: &mut Rng, cap: usize, part: usize, nparts: usize) {
    let thorough = std::env::var("VERIF_TIER").map(|v| v == "thorough").unwrap_or(false);
    if part == 0 { long_session(t); }
    let all: Vec<String> = if thorough { iana_names() } else { QUICK_ZONES.iter().map(|s| s.to_string()).collect() };
    let zones: Vec<&String> = all.iter().enumerate().filter(|(i, _)| i % nparts == part).map(|(_, z)| z).collect();
    for (gi, group) in zones.chunks(3).enumerate() {
        t.call("Tzdb.fresh", json!({}));
        let mut asked: Vec<(String, Value)> = Vec::new();
        // a failing query first in every other session: it must leave nothing behind
        // (alternately a name without any data and the database directory the session's first zone lives in - "Europe",
        // "America/Indiana": a failed lookup of the directory must not change what its zones answer afterwards)
        if gi % 2 == 0 {
            let dir = group[0].rsplit_once('/').map(|(d, _)| d.to_string());
            // (or the session's first zone in the wrong case: the data lookup is by file name and fails - and that failure must not
            // stick to the properly spelled name asked next)
            let bad = match dir { Some(d) if gi % 4 == 0 => d, _ if gi % 6 == 2 => group[0].to_ascii_lowercase(), _ if gi % 10 == 6 => "tzdata.zi".to_string(), _ => "Nowhere/Land".to_string() };
            t.call("Tzdb.table", json!({"zone": bad}));
            t.call("Tzdb.offset", json!({"zone": bad, "t": pt(1_000_000_000, 0)}));
        }
        for z in group {
            let tab = t.call("Tzdb.table", json!({"zone": z}));
            if tab["kind"] != "ok" { continue; }
            let qs = queries_for(z, &tab["val"], r, cap, thorough);
            for (i, q) in qs.into_iter().enumerate() {
                t.call(q.op, q.args.clone());
                if i % 37 == 5 { asked.push((q.op.to_string(), q.args)); }
            }
            if gi % 2 == 1 {
                t.call("Tzdb.table", json!({"zone": "Atlantis/Capital"}));
                t.call("Tzdb.local", json!({"zone": "Atlantis/Capital", "local": local_json(1_000_000_000, 0)}));
            }
        }
        // the same questions again, now that other zones (and failures) are in the provider's history
        for _ in 0..asked.len().min(40) {
            let (op, args) = r.pick(&asked).clone();
            t.call(&op, args);
        }
        t.reset();
    }
}

fn chars(s: &str) -> Value { Value::Array(s.chars().map(|c| json!(c.to_string())).collect()) }

fn ids(t: &mut Tracer, r: &mut Rng) {
    t.call("Tzdb.fresh", json!({}));
    t.call("Tzdb.names", json!({}));
    let names = iana_names();
    for n in &names {
        let mixed: String = n.chars().map(|c| if r.chance(1, 2) { c.to_ascii_uppercase() } else { c.to_ascii_lowercase() }).collect();
        for s in [n.clone(), n.to_ascii_uppercase(), n.to_ascii_lowercase(), mixed] { t.call("Tzdb.check", json!({"chars": chars(&s)})); }
        // mutations (some of them are names again, e.g. Etc/GMT+1 -> Etc/GMT+10: the spec decides)
        let cs: Vec<char> = n.chars().collect();
        let i = r.range(0, cs.len() as i64 - 1) as usize;
        let mut del = cs.clone(); del.remove(i);
        let mut ins = cs.clone(); ins.insert(i, *r.pick(&['a', 'Z', '_', '/', '0', ' ', '-']));
        let mut rep = cs.clone(); rep[i] = if cs[i] == 'x' { 'y' } else { 'x' };
        // characters that Unicode case mapping folds onto ASCII letters (KELVIN SIGN -> k, LONG S -> S, dotted capital I -> i...): not names
        let fold = |from: &[char], to: char| -> Option<String> { n.chars().position(|c| from.contains(&c)).map(|i| n.chars().enumerate().map(|(j, c)| if j == i { to } else { c }).collect()) };
        for m in [fold(&['k', 'K'], '\u{212A}'), fold(&['s', 'S'], '\u{17F}'), fold(&['i', 'I'], '\u{130}'), fold(&['i'], '\u{131}'), fold(&['a', 'A'], '\u{C5}')].into_iter().flatten() {
            if r.chance(1, 3) { t.call("Tzdb.check", json!({"chars": chars(&m)})); }
        }
        let muts: Vec<String> = vec![del.iter().collect(), ins.iter().collect(), rep.iter().collect(), format!("{} ", n), format!("/{}", n),
                                     n.replace('/', "_"), n.replace('_', " "), format!("{}0", n), n[..n.len() - 1].to_string()];
        for _ in 0..3 { let m = r.pick(&muts).clone(); t.call("Tzdb.check", json!({"chars": chars(&m)})); }
    }
    for s in ["", " ", "/", "UTC ", "Z", "+00:00", "utc", "gmt", "Etc/Unknown", "posix/UTC", "right/UTC", "posixrules", "localtime", "tzdata.zi", "Europe", "America/Argentina", "../UTC"] {
        t.call("Tzdb.check", json!({"chars": chars(s)}));
    }
    // history: what the provider has read must not change what it says about identifiers. Files of the database directory that are
    // no IANA names (and names in another case) are looked up - successfully or not - and then checked again in the same spelling.
    for s in ["posixrules", "Factory", "localtime", "posix/UTC", "right/UTC", "Nowhere/Land", "europe/berlin", "Europe/Berlin", "EUROPE/BERLIN"] {
        t.call("Tzdb.table", json!({"zone": s}));
        t.call("Tzdb.offset", json!({"zone": s, "t": pt(1_000_000_000, 0)}));
        t.call("Tzdb.check", json!({"chars": chars(s)}));
        t.call("Tzdb.local", json!({"zone": s, "local": local_json(1_000_000_000, 0)}));
        t.call("Tzdb.check", json!({"chars": chars(s)}));
    }
}

fn nparts_or(a: &[String], i: usize) -> usize { a.get(i).and_then(|s| s.parse().ok()).unwrap_or(0) }
pub fn drive(t: &mut Tracer, r: &mut Rng, n: usize) {
    // extra arguments after `record c15 <seed> <n> <out>`: mode [part nparts]
    let a: Vec<String> = std::env::args().collect();
    let mode = a.get(6).map(|s| s.as_str()).unwrap_or("lookup");
    let part: usize = a.get(7).and_then(|s| s.parse().ok()).unwrap_or(0);
    let nparts: usize = a.get(8).and_then(|s| s.parse().ok()).unwrap_or(1);
    match mode {
        "ids" => ids(t, r),
        // synth <nzones> [part nparts]
        "synth" => synth(t, r, n.max(4), part.max(1), nparts_or(&a, 8), a.get(9).and_then(|s| s.parse().ok()).unwrap_or(1)),
        _ => lookup(t, r, n.max(4), part, nparts),
    }
}
