------------------------------- MODULE Format -------------------------------
(* The session state machine value --Format--> text --Parse--> value on top of the writer operators of FormatOps. *)
EXTENDS Grammar, FormatOps
(* ---------------- session state machine ---------------- *)
\* cur = [ph |-> "value" | "text" | "value2" | "text2", ty, v, o, str]; FormatAct prints, ParseAct reads back
CONSTANTS FValues,     \* set of [ty, v] to start from
          FOpts(_)     \* type -> set of option records
FInit == cur \in {[ph |-> "value", ty |-> x.ty, v |-> x.v, o |-> DefaultOpts, str |-> ""] : x \in FValues} /\ last = None
FormatAct(o) ==
  /\ cur.ph \in {"value", "value2"}
  /\ cur.ph = "value2" => o = cur.o
  /\ LET out == FormatOut(cur.ty, cur.v, o)
         s == IF out.kind = "ok" THEN Format(cur.ty, cur.v, o) ELSE ""
     IN
     /\ last' = [op |-> "format", ty |-> cur.ty, v |-> cur.v, o |-> o, out |-> out, str |-> s, first |-> cur.ph = "value", prev |-> cur.str]
     /\ cur' = [cur EXCEPT !.ph = IF out.kind # "ok" THEN "end" ELSE IF cur.ph = "value" THEN "text" ELSE "text2", !.o = o, !.str = s]
ParseAct ==
  /\ cur.ph = "text"
  /\ LET out == Outcome(cur.ty, Chars(cur.str)) IN
     /\ last' = [op |-> "parse", ty |-> cur.ty, v |-> cur.v, o |-> cur.o, str |-> cur.str, out |-> out]
     /\ cur' = IF out.kind = "ok" /\ "val" \in DOMAIN out /\ KeepsInfo(cur.ty, cur.v, cur.o)
               THEN [cur EXCEPT !.ph = "value2", !.v = IF cur.ty \in {"PlainYearMonth", "PlainMonthDay"} THEN cur.v ELSE out.val]
               ELSE [cur EXCEPT !.ph = "end"]
FNext == \/ \E o \in FOpts(cur.ty) : FormatAct(o)
         \/ ParseAct
FSpec == FInit /\ [][FNext]_gvars

(* laws *)
\* parsing what was printed returns the value (durations: folded) whenever the options keep the information
RoundTrip == (last.op = "parse" /\ KeepsInfo(last.ty, last.v, last.o)) =>
                /\ last.out.kind = "ok"
                /\ ("val" \in DOMAIN last.out => last.out.val = Canon(last.ty, last.v))
\* in every case the text is a string of the type's grammar that reads back as the value at the printed precision,
\* except that a zoned date-time without its bracket is not a zoned date-time string
Readable == last.op = "parse" =>
               IF last.ty = "ZonedDateTime" /\ last.o.zd = "never" THEN last.out.kind = "range"
               ELSE last.out.kind = "ok" /\ ("val" \in DOMAIN last.out => last.out.val = Readback(last.ty, last.v, last.o))
\* formatting is idempotent through a parse
Idempotent == (last.op = "format" /\ ~last.first) => last.out.kind = "ok" /\ last.str = last.prev
\* shape of the text: year padding, fraction digits, offset, annotation order
YearShape == (last.op = "format" /\ last.out.kind = "ok" /\ last.ty \in {"PlainDate", "PlainDateTime", "PlainYearMonth"}) =>
                LET c == Chars(last.str) IN
                IF last.v.y >= 0 /\ last.v.y <= 9999 THEN c[1] \in Digit /\ c[5] = "-" ELSE c[1] \in {"+", "-"} /\ c[8] = "-"
FractionShape == (last.op = "format" /\ last.out.kind = "ok" /\ last.ty = "PlainTime") =>
                LET c == Chars(last.str)
                    p == EffPrec(last.o.p, last.o.su)
                    dot == {k \in 1..Len(c) : c[k] = "."}
                IN CASE p = -2 -> Len(c) = 5
                     [] p = 0 -> Len(c) = 8
                     [] p > 0 -> Len(c) = 9 + p /\ dot = {9}
                     [] OTHER -> IF SubNs(last.v) = 0 THEN Len(c) = 8 ELSE dot = {9} /\ c[Len(c)] # "0"
MaxOf(S) == CHOOSE x \in S : \A y \in S : x >= y
AnnotationOrder == (last.op = "format" /\ last.out.kind = "ok" /\ last.ty = "ZonedDateTime" /\ last.o.zd # "never" /\ CalAnn(last.v.cal, last.o.cd) # "") =>
                LET c == Chars(last.str)
                    opens == {k \in 1..Len(c) : c[k] = "["}
                    k2 == MaxOf(opens)
                    j == IF c[k2 + 1] = "!" THEN k2 + 2 ELSE k2 + 1
                IN Cardinality(opens) = 2 /\ SubSeq(c, j, j + 4) = Chars("u-ca=") /\ c[Len(c)] = "]"
\* class label of a formatting observation: type / year bucket or duration shape / effective precision and display options
YearBucket(y) == IF y < 0 THEN "year<0" ELSE IF y = 9999 THEN "year=9999" ELSE IF y > 9999 THEN "year>9999" ELSE "year-0..9998"
DurShape(D) == LET A == AbsDur(D) IN
               IF SecNs(A).s # 0 /\ A.s.s = 0 /\ DefaultLargest(A) # "second" THEN "subseconds-without-seconds-under-larger-unit"
               ELSE IF SecNs(A).s = 0 THEN (IF DefaultLargest(A) = "second" THEN "zero" ELSE "no-seconds")
               ELSE IF A.ms.s # 0 \/ A.us.s # 0 \/ A.ns.s # 0 THEN "with-subseconds" ELSE "whole-seconds"
OptTag(ty, o) == LET p == EffPrec(o.p, o.su) IN
                 (IF ty \in {"PlainDateTime", "PlainTime", "Instant", "ZonedDateTime", "Duration"} THEN "p=" \o ToString(p) ELSE "")
                 \o (IF ty \in {"PlainDate", "PlainDateTime", "PlainYearMonth", "PlainMonthDay", "ZonedDateTime"} /\ o.cd # "auto" THEN ",cal=" \o o.cd ELSE "")
                 \o (IF ty = "ZonedDateTime" /\ o.od # "auto" THEN ",offset=" \o o.od ELSE "")
                 \o (IF ty = "ZonedDateTime" /\ o.zd # "auto" THEN ",tz=" \o o.zd ELSE "")
                 \o (IF ty = "Instant" /\ o.tz # <<>> THEN ",zone" ELSE "")
FmtCls(ty, v, o) ==
  ty \o "/" \o (CASE ty \in {"PlainDate", "PlainDateTime", "PlainYearMonth"} -> YearBucket(v.y) \o (IF v.cal = "iso8601" THEN "" ELSE ",non-iso")
                  [] ty = "PlainMonthDay" -> IF v.cal = "iso8601" THEN "iso" ELSE "non-iso"
                  [] ty = "Duration" -> DurShape(v)
                  [] ty = "ZonedDateTime" -> (IF ~(Ch(v.tz, 1) \in {"+", "-"} \/ v.tz = Chars("UTC")) THEN "named-zone" ELSE IF ZoneMinutes(v.tz) % 60 # 0 THEN "offset-minutes" ELSE "offset-hours") \o (IF v.cal = "iso8601" THEN "" ELSE ",non-iso")
                  [] ty = "Instant" -> (IF v.s = -1 THEN "before-epoch" ELSE "epoch-or-later") \o (IF FloorBig(v, EffPrec(o.p, o.su)) = v THEN "" ELSE ",truncating")
                  [] OTHER -> "any")
     \o "/" \o (IF ty = "Instant" /\ FloorBig(v, EffPrec(o.p, o.su)) # v THEN "p<9" \o (IF o.tz # <<>> THEN ",zone" ELSE "") ELSE OptTag(ty, o))
EnumRoundTrip == \A e \in Enums : \A i \in 1..Len(EnumTable[e]) :
                    LET row == EnumTable[e][i] IN EnumParse(e, row[2]) = row[1] /\ EnumText(e, row[1]) = row[2]
=============================================================================
