"""C16 - non-ISO calendar fields describe the same day as the ISO date.

model check : CalendarWalk on (a) every walk the three step rules allow within small bounds ("free"): the rules imply
              the order-preserving bijection, the bounds, unique rebuild keys; (b) a table-driven toy calendar with an
              inverse era, a leap month and an era starting mid-year: obeys the rules, Rebuild is the identity,
              WithCalendar keeps the day; (c) the same toy with seeded defects: TLC must report a violated invariant
              (expected-failure runs: the rules are not vacuous).
spec -> impl: the fixed-offset calendars as DEFINED by the spec (gregory, iso8601, roc, buddhist, japanese, japanext)
              walked over their era boundaries; every state becomes CASE lines (fields, era row, rebuild in every
              combination and through every era alias, with_calendar) replayed into the real API.
impl -> spec: the recorder walks every calendar identifier the crate accepts in dense windows; Trace_Cal.tla accepts the
              walk only as a behaviour of CalendarWalk and decides every Rebuild / WithCalendar / identifier event.
"""
import json, os, re, concurrent.futures
from . import lib
from .lib import ToolError, log

MC = "mc/MC_CalendarWalk.tla"
# seeded toy defects -> invariants any of which may report it first
BUGS = [("dim", {"WalkRule"}), ("doy-from-zero", {"Bounds"}), ("month-is-code-number", {"WalkRule", "Bounds", "ToyRebuildUnique", "RebuildKeysInjective"}),
        ("leap-code", {"WalkRule", "ToyRebuildUnique", "RebuildKeysInjective", "Bounds"}), ("era-year-continues", {"WalkRule"}),
        ("month-by-number", {"RebuildIdentity", "Bounds"}), ("year-offset", {"RebuildIdentity"})]


def expect_violation(run, bug, allowed):
    """An expected-failure model-checking run: the seeded defect must violate one of `allowed`."""
    cfg = os.path.join(lib.SPEC, "mc", f"MC_CalendarWalk_toybug_{bug}.cfg")
    rc, txt, outp, dt = run._tlc(os.path.join(lib.SPEC, MC), cfg, 2, 300)
    m = re.search(r"Invariant (\w+) is violated", txt)
    if not m:
        raise ToolError(f"seeded toy defect '{bug}' was NOT detected by any invariant (vacuous rules?); see {outp}")
    if m.group(1) not in allowed:
        raise ToolError(f"seeded toy defect '{bug}' violated {m.group(1)}, expected one of {sorted(allowed)}; see {outp}")
    run.cov["negative_controls"].append(dict(kind="model", bug=bug, violated=m.group(1), wall_s=round(dt, 1)))
    log(f"[mc] toy with seeded defect '{bug}': invariant {m.group(1)} violated as expected, {dt:.1f}s")


def split_by_calendar(path, k):
    """Split a trace at session boundaries into <= k files without separating the sessions of one calendar
    (the trace spec keeps per-calendar statistics across sessions)."""
    groups, cur, key = [], [], None
    sess = []

    def cal_of(lines):
        for l in lines:
            e = json.loads(l)
            a = e.get("args") or {}
            if "cal" in a:
                return a["cal"]
            if "from" in a:
                return a["from"]
        return "-"
    with open(path) as f:
        for l in f:
            sess.append(l)
            if l.startswith('{"op":"reset"'):
                c = cal_of(sess)
                if c != key and cur:
                    groups.append(cur); cur = []
                key = c
                cur += sess; sess = []
    cur += sess
    if cur:
        groups.append(cur)
    # greedy balance into k bins, keeping order inside a bin
    bins = [[] for _ in range(k)]
    for g in sorted(groups, key=len, reverse=True):
        min(bins, key=lambda b: sum(len(x) for x in b)).append(g)
    out = []
    for i, b in enumerate(x for x in bins if x):
        p = path.replace(".trace.ndjson", f".part{i}.trace.ndjson")
        with open(p, "w") as f:
            for g in b:
                f.writelines(g)
        out.append(p)
    return out


def clean_session(trace, cal, limit=700):
    """The first sessions of a calendar that has no known findings, for the negative control."""
    out, take = [], False
    with open(trace) as f:
        for l in f:
            if not take and f'"cal":"{cal}"' in l and '"op":"Cal.Day"' in l:
                take = True
            if take:
                out.append(l)
                if len(out) >= limit and l.startswith('{"op":"reset"'):
                    break
                if len(out) >= 4 * limit:
                    break
    return out


def run(run):
    b = lib.build_harness("dev")
    q = run.tier == "quick"
    # ---- model checking
    # (no -coverage on the free model: it triples the run time; action coverage is checked on the toy instance)
    run.mc(MC, "mc/MC_CalendarWalk_free.cfg" if q else "mc/MC_CalendarWalk_free_t.cfg", workers=4, timeout=1500, coverage=False)
    run.mc(MC, "mc/MC_CalendarWalk_toy.cfg", workers=4, require_actions=("Step", "Rebuild", "WithCalendar"))
    for bug, allowed in (BUGS if not q else [x for x in BUGS if x[0] in ("dim", "month-is-code-number", "month-by-number", "era-year-continues")]):
        expect_violation(run, bug, allowed)
    # ---- spec -> impl
    cases, n = run.gen(MC, "gen/Gen_C16_offset.cfg", workers=4, name="offset")
    run.replay(b, cases, label="offset")

    # negative control on a subset that replays cleanly (the full set carries known findings, which would mask the control)
    clean = [json.loads(l) for l in open(cases)]
    clean = [c for c in clean if c["op"] in ("Cal.Fields", "Cal.EraIn", "Cal.WithCalendar") and c["args"].get("cal", c["args"].get("from")) in ("gregory", "japanese", "buddhist")]
    if len(clean) < 20:
        raise ToolError("negative control: too few clean generated cases")
    cl = os.path.join(run.dir, "negctl_clean.cases.ndjson")
    with open(cl, "w") as f:
        for c in clean:
            f.write(json.dumps(c) + "\n")
    rep0 = os.path.join(run.dir, "negctl_clean.report.ndjson")
    run.harness(b, ["replay", cl, rep0])
    if sum(1 for _ in open(rep0)) != 0:
        raise ToolError("negative control baseline (gregory/japanese/buddhist field cases) does not replay cleanly; see " + rep0)

    def corrupt_fields(cs):
        done = set()
        for c in cs:
            if c["op"] == "Cal.Fields" and "f" not in done:
                c["out"]["val"]["doy"] += 1; done.add("f")
            elif c["op"] == "Cal.EraIn" and "e" not in done:
                c["args"]["names"] = ["no-such-era"]; done.add("e")
            elif c["op"] == "Cal.WithCalendar" and "w" not in done:
                c["out"]["val"]["iso"]["d"] = c["out"]["val"]["iso"]["d"] % 27 + 1; done.add("w")
        return len(done) == 3
    run.negative_control_replay(b, cl, corrupt_fields, limit=100000)
    bad_n = sum(1 for _ in open(os.path.join(run.dir, "negctl.report.ndjson")))
    if bad_n != 3:
        raise ToolError(f"negative control: 3 corrupted expectations, {bad_n} reported")
    # ---- impl -> spec
    tr = run.record(b, "c16", 10 ** 9)
    parts = split_by_calendar(tr, 4 if q else 6)
    with concurrent.futures.ThreadPoolExecutor(max_workers=len(parts)) as ex:
        futs = [ex.submit(run.validate, "trace/Trace_Cal.tla", "trace/Trace_Cal.cfg", p, 3000) for p in parts]
        for f in futs:
            f.result()
    # ---- negative control on the trace: a calendar without findings; corrupt one getter value, one rebuild result, one identifier
    sess = clean_session(tr, "persian")
    if len(sess) < 50:
        raise ToolError("negative control: no persian session in the trace")
    ids = [l for l in open(tr) if '"op":"Cal.Id"' in l][:40]
    small = os.path.join(run.dir, "negctl_clean.trace.ndjson")
    with open(small, "w") as f:
        f.writelines(ids); f.write('{"op":"reset"}\n'); f.writelines(sess)
    ok, mm = run.validate("trace/Trace_Cal.tla", "trace/Trace_Cal.cfg", small, label="negctl_clean", count=False)
    if mm:
        # the mismatches are already recorded as candidate violations by validate(); the control itself cannot be run on a dirty baseline
        log(f"[negctl] skipped: the baseline session is not accepted ({len(mm)} mismatches, first: {mm[0].get('op')} {mm[0].get('cls')})")
    else:
        evs = [json.loads(l) for l in open(small)]
        want = set()
        days = [e for e in evs if e.get("op") == "Cal.Day" and e["out"]["kind"] == "ok"]
        days[len(days) // 2]["out"]["val"]["dim"] += 1; want.add("Cal.Day")
        rb = [e for e in evs if e.get("op") == "Cal.Rebuild" and e["out"]["kind"] == "ok"]
        rb[len(rb) // 2]["out"]["val"]["iso"]["d"] = rb[len(rb) // 2]["out"]["val"]["iso"]["d"] % 27 + 1; want.add("Cal.Rebuild")
        wc = [e for e in evs if e.get("op") == "Cal.WithCalendar" and e["out"]["kind"] == "ok"]
        if wc:
            wc[0]["out"]["val"]["iso"]["y"] += 1; want.add("Cal.WithCalendar")
        idv = [e for e in evs if e.get("op") == "Cal.Id" and e["out"]["kind"] == "ok" and e["args"]["s"] != e["out"]["val"]["id"]]
        if idv:
            idv[0]["out"] = {"kind": "range"}; want.add("Cal.Id")
        bad = os.path.join(run.dir, "negctl_corrupt.trace.ndjson")
        with open(bad, "w") as f:
            for e in evs:
                f.write(json.dumps(e) + "\n")
        rejected, mm = run.validate("trace/Trace_Cal.tla", "trace/Trace_Cal.cfg", bad, label="negctl_corrupt", count=False, expect_reject=True)
        got = {m["op"] for m in mm}
        run.cov["negative_controls"].append(dict(kind="trace", corrupted=sorted(want), flagged=sorted(got), rejected=bool(rejected)))
        if not want <= got:
            raise ToolError(f"negative control: corrupted events of kinds {sorted(want - got)} were ACCEPTED (binding broken)")
        log(f"[negctl] corrupted trace: {len(mm)} mismatches flagged in {sorted(got)} as expected")
    # ---- bookkeeping
    distinct = set()
    cal_days = {}
    for p in [tr, cases]:
        with open(p) as f:
            for l in f:
                e = json.loads(l)
                if e.get("op") in (None, "reset"):
                    continue
                distinct.add(e["op"] + json.dumps(e["args"], sort_keys=True))
                if e["op"] == "Cal.Day":
                    cal_days[e["args"]["cal"]] = cal_days.get(e["args"]["cal"], 0) + 1
    run.cov["distinct_nontrivial"] = len(distinct)
    run._distinct = set()
    run.cov["calendar_days_walked"] = cal_days
    run.cov["rule"] = ("one case = one public call with distinct arguments: (calendar, ISO day) for the getters, (calendar, day, year part, month part, era alias) "
                      "for from_partial, (calendar, day, target) for with_calendar, one spelling for identifiers; windows are consecutive ISO days around every era "
                      "boundary, year ends, leap months, the calendar's epoch, ISO year 0, both ends of the ISO range and random far dates; generated cases are the "
                      "transitions of the offset-calendar instance")
    run.assumptions += [
        "era names are compared as rows of synonyms (intl-era-monthcode table the crate copied + names icu_calendar 2.0.0-beta2 reports); Japanese eras are asserted from 1873-01-01 (Meiji 6) on",
        "absolute astronomical correctness of icu_calendar is not asserted: the lunisolar / lunar calendars are judged only by the generic walk rules, bounds, rebuild identity",
        "`year` of roc / buddhist is defined as ISO year - 1911 / + 543 (Temporal's arithmetic year)",
        "chinese, dangi, islamic, islamic-umalqura: random far windows stay within ISO years +-8000 (the library's astronomical approximations assert beyond; the range ends are visited and their panics are a recorded finding)",
        "islamic, islamic-umalqura: windows outside 1850..2150 are shortened (30 ms .. 1 s per conversion)",
        "trusted: TLC, harness projection glue (ops_cal.rs, proj.rs, js.rs)"]
