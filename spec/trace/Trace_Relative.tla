--------------------------- MODULE Trace_Relative ---------------------------
(* impl -> spec for Duration round / total / compare relative to a plain date, and PlainDate/PlainDateTime until/since with rounding (C08). *)
EXTENDS RelativeRound, TraceBase
VARIABLES l
tvars == <<l>>
E == Rec[l]
St(e) == e.args.st
InDT(j) == DT(Date(j.y, j.m, j.d), Time(j.h, j.mi, j.s, j.ms, j.us, j.ns))
\* until/since with rounding between two date-times a -> b (plain dates: midnight)
DiffRounded(a, b, lg, sm, inc, mode, isSince) ==
  LET m == IF isSince THEN NegateMode(mode) ELSE mode
  IN IF CmpDT(a, b) = 0 THEN Ok(ZeroDur)
     ELSE LET diff == DiffDTRec(a, b, lg)
              rr == IF sm = "nanosecond" /\ inc = 1 THEN [kind |-> "ok", dur |-> diff, outside |-> FALSE] ELSE RoundRelative(diff, EpochNsOf(b), a, lg, inc, sm, m)
          IN IF rr.kind # "ok" THEN ErrRange
             ELSE IF rr.outside THEN [kind |-> "any"]
             ELSE LET o == DurNew(ToDur(rr.dur, lg)) IN IF o.kind = "ok" /\ isSince THEN Ok(NegDur(o.val)) ELSE o
Expected(e) ==
  CASE e.op = "Duration.round" -> RoundRel(e.args.rel, e.args.recv, St(e).largest, St(e).smallest, St(e).inc, St(e).mode)
    [] e.op = "Duration.total" -> TotalRel(e.args.rel, e.args.recv, e.args.unit)
    [] e.op = "Duration.compare" -> CompareRel(e.args.rel, e.args.recv, e.args.other)
    [] e.op \in {"PlainDate.until", "PlainDate.since"} ->
         DiffRounded(DT(e.args.recv, Midnight), DT(e.args.other, Midnight), St(e).largest, St(e).smallest, St(e).inc, St(e).mode, e.op = "PlainDate.since")
    [] e.op \in {"PlainDateTime.until", "PlainDateTime.since"} ->
         DiffRounded(InDT(e.args.recv), InDT(e.args.other), St(e).largest, St(e).smallest, St(e).inc, St(e).mode, e.op = "PlainDateTime.since")
    \* year-months count whole months from the first of the month (C18), rounded like plain dates
    [] e.op \in {"PlainYearMonth.until", "PlainYearMonth.since"} ->
         DiffRounded(DT(Date(e.args.recv.y, e.args.recv.m, 1), Midnight), DT(Date(e.args.other.y, e.args.other.m, 1), Midnight),
                     St(e).largest, St(e).smallest, St(e).inc, St(e).mode, e.op = "PlainYearMonth.since")
Matches(e) ==
  LET x == Expected(e)
  IN IF e.op = "Duration.total" /\ x.kind = "ok"
     THEN e.out.kind = "ok" /\ F64Approximates(e.out.val.m, e.out.val.e, x.val.n, x.val.d)
     ELSE IF x.kind = "any" THEN e.out.kind \in OkKinds
     ELSE x = e.out
Eom(d) == IF d.d > 28 THEN "/eom" ELSE "/mid"
ClsOf(e) ==
  CASE e.op = "Duration.round" -> "sm-" \o St(e).smallest \o "/lg-" \o St(e).largest \o Eom(e.args.rel) \o (IF DurSign(e.args.recv) < 0 THEN "/neg" ELSE "/pos")
    [] e.op = "Duration.total" -> e.args.unit \o Eom(e.args.rel) \o (IF DurSign(e.args.recv) < 0 THEN "/neg" ELSE "/pos")
    [] e.op = "Duration.compare" -> (IF HasCalendarUnits(e.args.recv) \/ HasCalendarUnits(e.args.other) THEN "calendar" ELSE "days-time")
    [] e.op \in {"PlainYearMonth.until", "PlainYearMonth.since"} -> "sm-" \o St(e).smallest \o "/lg-" \o St(e).largest \o (IF St(e).inc = 1 THEN "/inc1" ELSE "/inc>1")
    [] OTHER -> "sm-" \o St(e).smallest \o "/lg-" \o St(e).largest \o Eom(e.args.recv)
TInit == l = 1
TNext == /\ l <= NEv /\ l' = l + 1
         /\ \/ E.op = "reset"
            \/ E.op # "reset" /\ Matches(E)
            \/ E.op # "reset" /\ ~Matches(E) /\ Report(l, E.op, ClsOf(E), Expected(E), E.out)
TSpec == TInit /\ [][TNext]_tvars
=============================================================================
