//! ZonedDateTime / TimeZone operations over synthetic zones (C13, C14).
use crate::js::{self, big, int};
use crate::proj::*;
use crate::synth_tz::*;
use serde_json::{json, Value};
use std::str::FromStr;
use temporal_rs::options::*;
use temporal_rs::*;

const SUB_NS: i64 = 123_456_789; // every value carries this sub-second part; operations must leave it alone

fn rel_of(ns: i128) -> Value {
    // relative whole seconds; the sub-second part must be SUB_NS
    let sec = ns.div_euclid(1_000_000_000) - BASE_SEC as i128; let sub = ns.rem_euclid(1_000_000_000);
    if sub as i64 != SUB_NS { return json!({"bad_subsecond": sub as i64, "sec": int(sec as i64)}); }
    int(sec as i64)
}
fn abs_ns(t: i64) -> i128 { (t as i128 + BASE_SEC as i128) * 1_000_000_000 + SUB_NS as i128 }
fn local_dt(w: i64) -> TemporalResult<PlainDateTime> {
    let f = fields_of(w, SUB_NS);
    PlainDateTime::try_new(f.0, f.1, f.2, f.3, f.4, f.5, f.6, f.7, f.8, iso())
}
fn dis(a: &Value) -> Disambiguation { Disambiguation::from_str(js::opt_s(a, "dis").unwrap_or("compatible")).expect("dis") }
fn offopt(a: &Value) -> OffsetDisambiguation { OffsetDisambiguation::from_str(js::s(a, "offopt")).expect("offopt") }
fn zdt(z: &Zone, t: i64) -> TemporalResult<ZonedDateTime> { ZonedDateTime::try_new(abs_ns(t), iso(), time_zone_for(z, false)) }
/// the other operand of until / since: in the receiver's zone, or (arg "oz") at the same instant in a fixed-offset zone
fn other_zdt(z: &Zone, a: &Value) -> TemporalResult<ZonedDateTime> {
    match js::opt_s(a, "oz") {
        Some(oz) => ZonedDateTime::try_new(abs_ns(js::i(a, "other")), iso(), TimeZone::UtcOffset(UtcOffset::from_str(oz)?)),
        None => zdt(z, js::i(a, "other")),
    }
}
fn offset_string(o: i64) -> String {
    let s = if o < 0 { '-' } else { '+' }; let a = o.abs();
    if a % 60 == 0 { format!("{}{:02}:{:02}", s, a / 3600, (a / 60) % 60) } else { format!("{}{:02}:{:02}:{:02}", s, a / 3600, (a / 60) % 60, a % 60) }
}

pub fn exec(op: &str, a: &Value) -> Option<Value> {
    if !op.starts_with("Zoned.") && !op.starts_with("ZDur.") { return None; }
    let z = Zone::from_json(&a["zone"]);
    let p = SynthProvider::with_zone(z.clone());
    Some(match op {
        "Zoned.fromLocal" => run(|| local_dt(js::i(a, "w"))?.to_zoned_date_time_with_provider(&time_zone_for(&z, false), dis(a), &p), |x| rel_of(x.epoch_nanoseconds().as_i128())),
        "Zoned.wall" => run(|| { let x = zdt(&z, js::i(a, "t"))?; let dt = x.to_plain_datetime_with_provider(&p)?; let off = x.offset_nanoseconds_with_provider(&p)?; Ok((dt, off)) }, |(dt, off)| {
            let day = crate::gen::days_from_civil(dt.iso_year() as i64, dt.iso_month() as i64, dt.iso_day() as i64);
            let w = day * 86_400 + (dt.hour() as i64 * 60 + dt.minute() as i64) * 60 + dt.second() as i64 - BASE_SEC;
            let sub = (dt.millisecond() as i64 * 1000 + dt.microsecond() as i64) * 1000 + dt.nanosecond() as i64;
            if sub != SUB_NS { return json!({"bad_subsecond": sub}); }
            json!({"w": int(w), "off": int(*off as i64 / 1_000_000_000)})
        }),
        // one instant seen through the different routes that must agree: the zoned date-time itself, Temporal.Now with explicit system
        // information, Instant.toZonedDateTimeISO, withTimeZone from another zone, and a string round trip
        "Zoned.views" => run(|| {
            let tz = time_zone_for(&z, false); let ns = abs_ns(js::i(a, "t")); let via = js::s(a, "via");
            let x = match via {
                "direct" => zdt(&z, js::i(a, "t"))?,
                "now" => Now::zoneddatetime_iso_with_system_info(temporal_rs::time::EpochNanoseconds::try_from(ns)?, tz.clone())?,
                "instant" => Instant::try_new(ns)?.to_zoned_date_time_iso(tz.clone()),
                "rezone" => ZonedDateTime::try_new(ns, iso(), TimeZone::UtcOffset(UtcOffset::from_str("+03:00")?))?.with_timezone(tz.clone())?,
                "string" => { let s = zdt(&z, js::i(a, "t"))?.to_ixdtf_string_with_provider(DisplayOffset::Auto, DisplayTimeZone::Auto, DisplayCalendar::Auto, ToStringRoundingOptions::default(), &p)?;
                    ZonedDateTime::from_str_with_provider(&s, Disambiguation::Compatible, OffsetDisambiguation::Reject, &p)? }
                _ => panic!("HARNESS: via {via}"),
            };
            let (dt, d, t) = if via == "now" {
                let e = temporal_rs::time::EpochNanoseconds::try_from(ns)?;
                (Now::plain_datetime_iso_with_provider_and_system_info(e, tz.clone(), &p)?, Now::plain_date_iso_with_provider_and_system_info(e, tz.clone(), &p)?, Now::plain_time_iso_with_provider_and_system_info(e, tz.clone(), &p)?)
            } else { (x.to_plain_datetime_with_provider(&p)?, x.to_plain_date_with_provider(&p)?, x.to_plain_time_with_provider(&p)?) };
            let off = x.offset_nanoseconds_with_provider(&p)?;
            let me = x.epoch_nanoseconds().as_i128();
            let ord = |o: std::cmp::Ordering| o as i8 as i64;
            // the neighbours live in another zone (+03:00): only the instants are compared
            let other = |d: i128| ZonedDateTime::try_new(me + d, iso(), TimeZone::UtcOffset(UtcOffset::from_str("+03:00")?));
            let cmp = [ord(x.compare_instant(&other(-1_000_000_000)?)), ord(x.compare_instant(&x.clone())), ord(x.compare_instant(&other(1_000_000_000)?))];
            Ok((me, dt, d, t, off, x.to_instant().epoch_nanoseconds().as_i128(), cmp))
        }, |(ns, dt, d, t, off, ti, cmp)| {
            let day = crate::gen::days_from_civil(dt.iso_year() as i64, dt.iso_month() as i64, dt.iso_day() as i64);
            let w = day * 86_400 + (dt.hour() as i64 * 60 + dt.minute() as i64) * 60 + dt.second() as i64 - BASE_SEC;
            let sub = (dt.millisecond() as i64 * 1000 + dt.microsecond() as i64) * 1000 + dt.nanosecond() as i64;
            let tsub = (t.millisecond() as i64 * 1000 + t.microsecond() as i64) * 1000 + t.nanosecond() as i64;
            if sub != SUB_NS || tsub != SUB_NS { return json!({"bad_subsecond": [sub, tsub]}); }
            let dday = crate::gen::days_from_civil(d.iso_year() as i64, d.iso_month() as i64, d.iso_day() as i64) - BASE_SEC / 86_400;
            json!({"t": rel_of(*ns), "w": int(w), "day": int(dday), "sod": int((t.hour() as i64 * 60 + t.minute() as i64) * 60 + t.second() as i64), "off": int(*off as i64 / 1_000_000_000),
                   "ti": rel_of(*ti), "cmp": [int(cmp[0]), int(cmp[1]), int(cmp[2])]})
        }),
        // toString with smallestUnit minute / second and a rounding mode, of the zoned date-time or of the instant shown in the zone:
        // the text is read back as (wall-clock reading, printed offset)
        "Zoned.text" => run(|| {
            let ns = (js::i(a, "t") as i128 + BASE_SEC as i128) * 1_000_000_000 + js::i(a, "fd") as i128 * 100_000_000;
            let o = ToStringRoundingOptions { precision: temporal_rs::parsers::Precision::Auto, smallest_unit: Some(if js::i(a, "unit") == 60 { Unit::Minute } else { Unit::Second }),
                                              rounding_mode: Some(RoundingMode::from_str(js::s(a, "mode"))?) };
            let tz = time_zone_for(&z, false);
            if js::s(a, "via") == "instant" { Instant::try_new(ns)?.to_ixdtf_string_with_provider(Some(&tz), o, &p) }
            else { ZonedDateTime::try_new(ns, iso(), tz)?.to_ixdtf_string_with_provider(DisplayOffset::Auto, DisplayTimeZone::Auto, DisplayCalendar::Auto, o, &p) }
        }, |s| {
            let body = s.split('[').next().unwrap_or("");
            let num = |x: &str| x.parse::<i64>().ok();
            let parsed = (|| {
                if body.len() < 22 || !body.is_ascii() { return None; }
                let (dt, off) = body.split_at(body.len() - 6);
                let sign = match &off[0..1] { "+" => 1, "-" => -1, _ => return None };
                let o = sign * (num(&off[1..3])? * 3600 + num(&off[4..6])? * 60);
                let (date, time) = dt.split_once('T')?;
                let mut dp = date.rsplitn(3, '-'); let d = num(dp.next()?)?; let m = num(dp.next()?)?; let y = num(dp.next()?)?;
                let tp: Vec<&str> = time.split(':').collect();
                let sec = if tp.len() > 2 { num(tp[2])? } else { 0 };
                let w = crate::gen::days_from_civil(y, m, d) * 86_400 + (num(tp[0])? * 60 + num(tp[1])?) * 60 + sec - BASE_SEC;
                Some(json!({"w": int(w), "off": int(o)}))
            })();
            parsed.unwrap_or_else(|| json!({"unreadable": s}))
        }),
        // PlainDate.toZonedDateTime without a time (start of day) or with the time 00:00 (wall-clock midnight, compatible)
        "Zoned.fromDate" => run(|| { let f = fields_of(js::i(a, "day") * 86_400, 0);
            let d = PlainDate::try_new(f.0, f.1, f.2, iso())?;
            let t = if js::s(a, "tt") == "none" { None } else { Some(PlainTime::try_new(0, 0, 0, 0, 0, 0)?) };
            d.to_zoned_date_time_with_provider(time_zone_for(&z, false), t, &p) }, |x| rel_of_plain(x.epoch_nanoseconds().as_i128())),
        // a property bag with date fields only, or with time fields that are all zero: midnight's wall-clock reading under the disambiguation option
        "Zoned.fromBagDate" => run(|| { let f = fields_of(js::i(a, "day") * 86_400, 0);
            let date = temporal_rs::partial::PartialDate::new().with_year(Some(f.0)).with_month(Some(f.1)).with_day(Some(f.2));
            let time = if js::s(a, "tf") == "none" { temporal_rs::partial::PartialTime::new() } else { temporal_rs::partial::PartialTime::new().with_hour(Some(0)).with_nanosecond(Some(0)) };
            let pz = temporal_rs::partial::PartialZonedDateTime::new().with_date(date).with_time(time).with_timezone(Some(time_zone_for(&z, false)));
            ZonedDateTime::from_partial_with_provider(pz, None, Some(dis(a)), None, &p) }, |x| rel_of_plain(x.epoch_nanoseconds().as_i128())),
        // the same kind of string given as a relativeTo option
        "Zoned.relTo" => run(|| {
            let f = fields_of(js::i(a, "w"), SUB_NS);
            let year = if (0..=9999).contains(&f.0) { format!("{:04}", f.0) } else { format!("{}{:06}", if f.0 < 0 { '-' } else { '+' }, f.0.abs()) };
            let off = match js::s(a, "offk") { "none" => String::new(), "z" => "Z".to_string(), _ => offset_string(js::i(a, "off")) };
            let tz = time_zone_for(&z, false).identifier()?;
            let s = format!("{}-{:02}-{:02}T{:02}:{:02}:{:02}.{:03}{:03}{:03}{}[{}]", year, f.1, f.2, f.3, f.4, f.5, f.6, f.7, f.8, off, tz);
            match temporal_rs::options::RelativeTo::try_from_str_with_provider(&s, &p)? {
                temporal_rs::options::RelativeTo::ZonedDateTime(x) => Ok(x),
                _ => Err(TemporalError::general("HARNESS: a string with a zone annotation gave a plain relativeTo")),
            }
        }, |x| rel_of(x.epoch_nanoseconds().as_i128())),
        "Zoned.fromStr" => run(|| {
            let f = fields_of(js::i(a, "w"), SUB_NS);
            let year = if (0..=9999).contains(&f.0) { format!("{:04}", f.0) } else { format!("{}{:06}", if f.0 < 0 { '-' } else { '+' }, f.0.abs()) };
            let off = match js::s(a, "offk") { "none" => String::new(), "z" => "Z".to_string(), _ => offset_string(js::i(a, "off")) };
            let tz = time_zone_for(&z, false).identifier()?;
            let s = format!("{}-{:02}-{:02}T{:02}:{:02}:{:02}.{:03}{:03}{:03}{}[{}]", year, f.1, f.2, f.3, f.4, f.5, f.6, f.7, f.8, off, tz);
            ZonedDateTime::from_str_with_provider(&s, dis(a), offopt(a), &p)
        }, |x| rel_of(x.epoch_nanoseconds().as_i128())),
        // the same through a property bag: date and time fields, the zone, and (offk = "offset") an offset of whole minutes
        "Zoned.fromPartial" => run(|| {
            let f = fields_of(js::i(a, "w"), SUB_NS);
            let date = temporal_rs::partial::PartialDate::new().with_year(Some(f.0)).with_month(Some(f.1)).with_day(Some(f.2));
            let time = temporal_rs::partial::PartialTime::new().with_hour(Some(f.3)).with_minute(Some(f.4)).with_second(Some(f.5))
                .with_millisecond(Some(f.6)).with_microsecond(Some(f.7)).with_nanosecond(Some(f.8));
            let mut pz = temporal_rs::partial::PartialZonedDateTime::new().with_date(date).with_time(time).with_timezone(Some(time_zone_for(&z, false)));
            if js::s(a, "offk") == "offset" { pz = pz.with_offset(Some(UtcOffset::from_str(&offset_string(js::i(a, "offmin") * 60))?)); }
            ZonedDateTime::from_partial_with_provider(pz, None, Some(dis(a)), Some(offopt(a)), &p)
        }, |x| rel_of(x.epoch_nanoseconds().as_i128())),
        "Zoned.startOfDay" => run(|| zdt(&z, js::i(a, "t"))?.start_of_day_with_provider(&p), |x| rel_of_plain(x.epoch_nanoseconds().as_i128())),
        "Zoned.withPlainTime" => run(|| { let sod = js::i(a, "sod");
            let time = PlainTime::try_new((sod / 3600) as u8, (sod / 60 % 60) as u8, (sod % 60) as u8, (SUB_NS / 1_000_000) as u16, (SUB_NS / 1000 % 1000) as u16, (SUB_NS % 1000) as u16)?;
            zdt(&z, js::i(a, "t"))?.with_plain_time_and_provider(time, &p) }, |x| rel_of(x.epoch_nanoseconds().as_i128())),
        "Zoned.hoursInDay" => run(|| zdt(&z, js::i(a, "t"))?.hours_in_day_with_provider(&p), |h| json!(*h)),
        "Zoned.add" => run(|| zdt(&z, js::i(a, "t"))?.add_with_provider(&arg_duration(&a["dur"])?, arg_ovf(a), &p), |x| rel_of(x.epoch_nanoseconds().as_i128())),
        "Zoned.subtract" => run(|| zdt(&z, js::i(a, "t"))?.subtract_with_provider(&arg_duration(&a["dur"])?, arg_ovf(a), &p), |x| rel_of(x.epoch_nanoseconds().as_i128())),
        "Zoned.until" => run(|| zdt(&z, js::i(a, "t"))?.until_with_provider(&other_zdt(&z, a)?, arg_settings(&a["st"])?, &p), p_duration),
        // Duration round / total / compare relative to a zoned date-time of the synthetic zone
        "ZDur.round" => run(|| { let rel = temporal_rs::options::RelativeTo::ZonedDateTime(zdt(&z, js::i(a, "t"))?);
            arg_duration(&a["recv"])?.round_with_provider(arg_rounding(&a["st"])?, Some(rel), &p) }, p_duration),
        "ZDur.total" => run(|| { let rel = temporal_rs::options::RelativeTo::ZonedDateTime(zdt(&z, js::i(a, "t"))?);
            arg_duration(&a["recv"])?.total_with_provider(arg_unit(js::s(a, "unit")), Some(rel), &p) }, |t| p_f64(t.as_inner())),
        "ZDur.compare" => run(|| { let rel = temporal_rs::options::RelativeTo::ZonedDateTime(zdt(&z, js::i(a, "t"))?);
            arg_duration(&a["recv"])?.compare_with_provider(&arg_duration(&a["other"])?, Some(rel), &p) }, |o| p_ord(*o)),
        "Zoned.since" => run(|| zdt(&z, js::i(a, "t"))?.since_with_provider(&other_zdt(&z, a)?, arg_settings(&a["st"])?, &p), p_duration),
        _ => return None,
    })
}
/// start of day: whole seconds, no sub-second part
fn rel_of_plain(ns: i128) -> Value {
    let sec = ns.div_euclid(1_000_000_000) - BASE_SEC as i128; let sub = ns.rem_euclid(1_000_000_000);
    if sub != 0 { return json!({"bad_subsecond": sub as i64, "sec": int(sec as i64)}); }
    int(sec as i64)
}
