//! Small deterministic PRNG (splitmix64) so traces are reproducible from VERIF_SEED.
pub struct Rng(pub u64);
impl Rng {
    pub fn new(seed: u64) -> Self { Rng(seed ^ 0x9E37_79B9_7F4A_7C15) }
    pub fn next(&mut self) -> u64 {
        self.0 = self.0.wrapping_add(0x9E37_79B9_7F4A_7C15);
        let mut z = self.0;
        z = (z ^ (z >> 30)).wrapping_mul(0xBF58_476D_1CE4_E5B9);
        z = (z ^ (z >> 27)).wrapping_mul(0x94D0_49BB_1331_11EB);
        z ^ (z >> 31)
    }
    /// uniform in [lo, hi]
    pub fn range(&mut self, lo: i64, hi: i64) -> i64 {
        assert!(lo <= hi);
        let span = (hi as i128 - lo as i128 + 1) as u128;
        (lo as i128 + (self.next() as u128 % span) as i128) as i64
    }
    pub fn range128(&mut self, lo: i128, hi: i128) -> i128 {
        let span = (hi - lo + 1) as u128;
        let r = ((self.next() as u128) << 64) | self.next() as u128;
        lo + (r % span) as i128
    }
    pub fn pick<'a, T>(&mut self, xs: &'a [T]) -> &'a T { &xs[(self.next() % xs.len() as u64) as usize] }
    pub fn chance(&mut self, num: u64, den: u64) -> bool { self.next() % den < num }
}
