//! C08 sessions: Duration round / total / compare relative to a plain date; PlainDate / PlainDateTime until/since with a
//! calendar smallest unit (the same re-measure / nudge / bubble machinery).
use super::Tracer;
use crate::gen::*;
use crate::rng::Rng;
use serde_json::{json, Value};

const UNITS: [&str; 10] = ["nanosecond", "microsecond", "millisecond", "second", "minute", "hour", "day", "week", "month", "year"];
fn mixed_dur(r: &mut Rng) -> Value {
    let sg: i128 = if r.chance(1, 2) { 1 } else { -1 };
    let m = |r: &mut Rng, hi: i64| -> i128 { if r.chance(1, 2) { 0 } else { r.range(0, hi) as i128 } };
    dur10(sg * m(r, 3), sg * m(r, 30), sg * m(r, 9), sg * m(r, 400), sg * m(r, 50), sg * m(r, 100), sg * m(r, 5000), 0, 0, sg * m(r, 1_999_999_999))
}
fn opts(r: &mut Rng) -> Value {
    let si = r.range(0, 9) as usize; let li = r.range(si as i64, 9) as usize;
    let sm = UNITS[si]; let lg = UNITS[li];
    let inc = match sm { "hour" | "minute" | "second" | "millisecond" | "microsecond" | "nanosecond" => *r.pick(&time_incs(sm)), _ => *r.pick(&[1i64, 1, 1, 2, 3, 5, 7, 10]) };
    json!({"largest": lg, "smallest": sm, "inc": inc, "mode": *r.pick(&MODES)})
}
fn rel_day(r: &mut Rng) -> i64 { match r.range(0, 3) { 0 => r.range(-40_000, 40_000), 1 => r.range(-700_000, 700_000), _ => any_day(r).clamp(MIN_DAY + 400_000, MAX_DAY - 400_000) } }

/// year-month until/since with year/month smallest units, increments and modes (also the second trace leg of C18)
pub fn ym_diff(t: &mut Tracer, r: &mut Rng) {
    let a = r.range(-3_000_000, 3_000_000); let b = a + match r.range(0, 2) { 0 => r.range(-30, 30), 1 => r.range(-400, 400), _ => r.range(-200_000, 200_000) };
    let ym = |i: i64| json!({"y": i.div_euclid(12), "m": i.rem_euclid(12) + 1});
    let si = r.range(8, 9) as usize; let li = r.range(si as i64, 9) as usize;
    let st = json!({"largest": UNITS[li], "smallest": UNITS[si], "inc": *r.pick(&[1i64, 1, 2, 3, 5, 7, 12]), "mode": *r.pick(&MODES)});
    t.call(if r.chance(1, 2) { "PlainYearMonth.until" } else { "PlainYearMonth.since" }, json!({"recv": ym(a), "other": ym(b), "st": st}));
}
pub fn drive_ym(t: &mut Tracer, r: &mut Rng, n: usize) { while t.n < n { ym_diff(t, r); t.reset(); } }

pub fn drive(t: &mut Tracer, r: &mut Rng, n: usize) {
    while t.n < n {
        if r.chance(1, 10) { ym_diff(t, r); t.reset(); continue; }
        let rel = date_json(rel_day(r));
        match r.range(0, 9) {
            0..=3 => { t.call("Duration.round", json!({"recv": mixed_dur(r), "rel": rel, "st": opts(r)})); }
            4 | 5 => { t.call("Duration.total", json!({"recv": mixed_dur(r), "rel": rel, "unit": *r.pick(&UNITS)})); }
            6 => { let a = mixed_dur(r); let b = if r.chance(1, 4) { a.clone() } else { mixed_dur(r) };
                   t.call("Duration.compare", json!({"recv": a.clone(), "other": b.clone(), "rel": rel.clone()})); t.call("Duration.compare", json!({"recv": b, "other": a, "rel": rel})); }
            7 | 8 => { // PlainDate until/since with a calendar (or day, increment > 1) smallest unit
                let a = rel_day(r); let b = a + match r.range(0, 2) { 0 => r.range(-60, 60), 1 => r.range(-800, 800), _ => r.range(-40_000, 40_000) };
                let si = r.range(6, 9) as usize; let li = r.range(si as i64, 9) as usize;
                let st = json!({"largest": UNITS[li], "smallest": UNITS[si], "inc": *r.pick(&[1i64, 1, 2, 3, 5]), "mode": *r.pick(&MODES)});
                t.call(if r.chance(1, 2) { "PlainDate.until" } else { "PlainDate.since" }, json!({"recv": date_json(a), "other": date_json(b), "st": st})); }
            _ => { // PlainDateTime until/since with rounding
                let a = rel_day(r); let b = a + r.range(-500, 500);
                let dt = |day: i64, tns: i128| { let (y, m, d) = civil(day); let tj = time_json(tns); json!({"y": y, "m": m, "d": d, "h": tj["h"], "mi": tj["mi"], "s": tj["s"], "ms": tj["ms"], "us": tj["us"], "ns": tj["ns"]}) };
                t.call(if r.chance(1, 2) { "PlainDateTime.until" } else { "PlainDateTime.since" },
                       json!({"recv": dt(a, r.range128(0, DAY_NS - 1)), "other": dt(b, r.range128(0, DAY_NS - 1)), "st": opts(r)})); }
        }
        t.reset();
    }
}
