//! C17 sessions: a value is built with from_partial / new_with_overflow from random field records (any subset of
//! fields, values over the whole u8 / u16 / i32 ranges, valid and invalid, month vs monthCode agreeing or not),
//! then updated by a chain of `with` calls; both overflow modes and the default. PlainDate, PlainTime,
//! PlainDateTime, PlainYearMonth and ZonedDateTime partials in fixed-offset zones.
use super::Tracer;
use crate::gen::*;
use crate::rng::Rng;
use serde_json::{json, Map, Value};

const TIME_KEYS: [(&str, &str, i64, i64); 6] = [("hour", "h", 23, 255), ("minute", "mi", 59, 255), ("second", "s", 59, 255),
    ("millisecond", "ms", 999, 65535), ("microsecond", "us", 999, 65535), ("nanosecond", "ns", 999, 65535)];

pub fn any_year(r: &mut Rng) -> i64 {
    match r.range(0, 19) {
        0..=8 => r.range(1, 3000),
        9 | 10 => -271_821 + r.range(-2, 2),
        11 | 12 => 275_760 + r.range(-2, 2),
        13 | 14 => r.range(-300_000, 300_000),
        15 => r.range(-2_147_483_648, 2_147_483_647),
        16 => *r.pick(&[2_147_483_647i64, -2_147_483_648, 5_879_611, -5_879_611, 1_471_746, 0, -1]),
        _ => r.range(-5, 5) * 400 + r.range(0, 4),
    }
}
/// a field value in 0..=tmax: mostly valid (0..=vmax), sometimes just beyond, sometimes anywhere in the type's range
fn field(r: &mut Rng, lo: i64, vmax: i64, tmax: i64) -> i64 {
    match r.range(0, 9) {
        0..=5 => r.range(lo, vmax),
        6 => *r.pick(&[0, lo, vmax, vmax + 1, tmax]),
        7 => r.range(vmax + 1, tmax),
        _ => r.range(0, tmax),
    }
}
fn month_code(r: &mut Rng, near: i64) -> String {
    match r.range(0, 9) {
        0..=5 => format!("M{:02}", if (1..=12).contains(&near) && r.chance(2, 3) { near } else { r.range(1, 12) }),
        6 => format!("M{:02}L", r.range(1, 12)),
        7 => "M13".to_string(),
        8 => "M00".to_string(),
        _ => format!("M{:02}", r.range(13, 99)),
    }
}
/// random date fields; `all` forces year, (month | monthCode) and day to be present most of the time
fn date_fields(r: &mut Rng, m: &mut Map<String, Value>, with_day: bool, all: bool) {
    let want = |r: &mut Rng| if all { r.chance(19, 20) } else { r.chance(1, 3) };
    if want(r) { m.insert("year".into(), json!(any_year(r))); }
    let mut month = -1;
    let has_m = want(r);
    if has_m && (r.chance(3, 4) || all && r.chance(1, 2)) { month = field(r, 1, 12, 255); m.insert("month".into(), json!(month)); }
    if (has_m && month < 0) || r.chance(1, 5) { m.insert("monthCode".into(), json!(month_code(r, month))); }
    if with_day && want(r) { let hi = 28 + r.range(0, 3); m.insert("day".into(), json!(field(r, 1, hi, 255))); }
}
fn time_fields(r: &mut Rng, m: &mut Map<String, Value>, density: u64) {
    for (k, _, vmax, tmax) in TIME_KEYS.iter() {
        if r.chance(density, 6) { m.insert((*k).into(), json!(field(r, 0, *vmax, *tmax))); }
    }
}
fn ovf(r: &mut Rng, args: &mut Value) {
    match r.range(0, 4) { 0 | 1 => { args["ovf"] = json!("constrain"); } 2 | 3 => { args["ovf"] = json!("reject"); } _ => {} }
}
fn positional(r: &mut Rng, ty: &str) -> Value {
    let mut m = Map::new();
    if ty != "time" {
        m.insert("y".into(), json!(any_year(r)));
        m.insert("m".into(), json!(field(r, 1, 12, 255)));
        let hi = 28 + r.range(0, 3);
        m.insert("d".into(), json!(field(r, 1, hi, 255)));
    }
    if ty != "date" {
        for (_, s, vmax, tmax) in TIME_KEYS.iter() { m.insert((*s).into(), json!(field(r, 0, *vmax, *tmax))); }
    }
    m.insert("ovf".into(), json!(if r.chance(1, 2) { "constrain" } else { "reject" }));
    Value::Object(m)
}

pub fn drive(t: &mut Tracer, r: &mut Rng, n: usize) {
    let types = ["date", "time", "datetime", "yearmonth", "zoned", "date", "datetime"];
    let names = |ty: &str| match ty { "date" => "PlainDate", "time" => "PlainTime", "datetime" => "PlainDateTime", "yearmonth" => "PlainYearMonth", _ => "ZonedDateTime" };
    while t.n < n {
        let ty = *r.pick(&types);
        let name = names(ty);
        // ---- obtain a value
        let mut cur: Option<Value> = None;
        for _ in 0..3 {
            let out = if ty != "yearmonth" && ty != "zoned" && r.chance(1, 4) {
                t.call(&format!("{}.new_with_overflow", name), positional(r, ty))
            } else {
                let mut m = Map::new();
                if ty != "time" { let all = !r.chance(1, 8); date_fields(r, &mut m, ty != "yearmonth", all); }
                if ty != "date" && ty != "yearmonth" { let d = r.range(0, 4) as u64; time_fields(r, &mut m, d); }
                let mut args = json!({"p": Value::Object(m)});
                ovf(r, &mut args);
                if ty == "zoned" {
                    args["tz"] = json!(*r.pick(&["+00:00", "+00:00", "+05:30", "-08:00", "+14:00"]));
                    // an explicit offset (minutes) next to the zone: the zone's own, or another one (the default offset option is reject)
                    if r.chance(1, 3) { args["xoff"] = json!(*r.pick(&[0i64, 0, 330, -480, 840, 60][..])); }
                }
                t.call(&format!("{}.from_partial", name), args)
            };
            if out["kind"] == "ok" { cur = Some(out["val"].clone()); break; }
        }
        // ---- update it (ZonedDateTime::with is not implemented: nothing to chain)
        if ty != "zoned" {
            let mut recv = match cur { Some(v) => v, None => { t.reset(); continue; } };
            for _ in 0..r.range(2, 10) {
                let mut m = Map::new();
                if r.chance(1, 40) {
                    // empty record
                } else if r.chance(1, 8) {
                    // some of the value's own fields (identity)
                    let own: Vec<(&str, &str)> = match ty {
                        "date" => vec![("year", "y"), ("month", "m"), ("day", "d")],
                        "yearmonth" => vec![("year", "y"), ("month", "m")],
                        "time" => TIME_KEYS.iter().map(|k| (k.0, k.1)).collect(),
                        _ => vec![("year", "y"), ("month", "m"), ("day", "d")].into_iter().chain(TIME_KEYS.iter().map(|k| (k.0, k.1))).collect(),
                    };
                    for (k, s) in own { if r.chance(1, 2) { m.insert(k.into(), recv[s].clone()); } }
                    if ty != "time" && r.chance(1, 2) { m.insert("monthCode".into(), json!(format!("M{:02}", recv["m"].as_i64().unwrap_or(1)))); }
                } else {
                    if ty != "time" && r.chance(3, 4) { date_fields(r, &mut m, ty != "yearmonth", false); }
                    if (ty == "time" || ty == "datetime") && (ty == "time" || r.chance(1, 2)) { let d = r.range(1, 3) as u64; time_fields(r, &mut m, d); }
                }
                if m.is_empty() && !r.chance(1, 30) {
                    if ty == "time" || (ty == "datetime" && r.chance(1, 2)) { let k = r.pick(&TIME_KEYS); m.insert(k.0.into(), json!(field(r, 0, k.2, k.3))); }
                    else if r.chance(1, 2) { m.insert("month".into(), json!(field(r, 1, 12, 255))); }
                    else { m.insert("year".into(), json!(any_year(r))); }
                }
                let mut args = json!({"recv": recv, "p": Value::Object(m)});
                ovf(r, &mut args);
                let out = t.call(&format!("{}.with", name), args);
                if out["kind"] == "ok" { recv = out["val"].clone(); }
            }
        }
        t.reset();
    }
}
