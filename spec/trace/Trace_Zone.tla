----------------------------- MODULE Trace_Zone -----------------------------
(* impl -> spec for ZonedDateTime / TimeZone calls over synthetic zones (C13, C14): the zone travels with every event. *)
EXTENDS ZonedRound, Duration, TraceBase
VARIABLES l
tvars == <<l>>
E == Rec[l]
Z(e) == e.args.zone
St(e) == Get(e.args, "st", [x |-> 0])
Largest(e) == LET u == Get(St(e), "largest", "auto") IN IF u = "auto" THEN "hour" ELSE u
\* largestUnit auto / absent: the larger of hour and the smallest unit
LargestR(e) == LET u == Get(St(e), "largest", "auto") IN IF u = "auto" THEN UnitMax("hour", St(e).smallest) ELSE u
Expected(e) ==
  CASE e.op = "Zoned.fromLocal" -> Disambiguate(Z(e), e.args.w, e.args.dis)
    [] e.op = "Zoned.wall" -> Ok([w |-> Wall(Z(e), e.args.t), off |-> OffsetAt(Z(e), e.args.t)])
    [] e.op = "Zoned.views" -> IF e.args.via = "string" THEN (LET r == StringTrip(Z(e), e.args.t) IN IF r.kind = "ok" THEN Ok(Views(Z(e), r.val)) ELSE r) ELSE Ok(Views(Z(e), e.args.t))
    [] e.op = "Zoned.text" -> Ok(RoundedText(Z(e), e.args.t, e.args.fd, e.args.unit, e.args.mode))
    [] e.op = "Zoned.fromPartial" -> InterpretBag(Z(e), e.args.w, e.args.offk, e.args.offmin * 60, e.args.dis, e.args.offopt)
    [] e.op = "Zoned.fromDate" -> IF e.args.tt = "none" THEN Ok(StartOfDay(Z(e), e.args.day * 86400)) ELSE Disambiguate(Z(e), e.args.day * 86400, "compatible")
    [] e.op = "Zoned.relTo" -> Interpret(Z(e), e.args.w, e.args.offk, e.args.off, "compatible", "reject", TRUE)
    [] e.op = "Zoned.fromStr" -> Interpret(Z(e), e.args.w, e.args.offk, e.args.off, e.args.dis, e.args.offopt, TRUE)
    [] e.op = "Zoned.add" -> ZAdd(Z(e), e.args.t, e.args.dur, Get(e.args, "ovf", "constrain"))
    [] e.op = "Zoned.subtract" -> ZSub(Z(e), e.args.t, e.args.dur, Get(e.args, "ovf", "constrain"))
    [] e.op \in {"Zoned.until", "Zoned.since"} /\ Has(e.args, "oz") /\ IsOtherZone(Z(e), e.args.oz) /\ (IF Has(St(e), "smallest") THEN LargestR(e) ELSE Largest(e)) \in DateUnits -> ErrRange
    [] e.op \in {"Zoned.until", "Zoned.since"} ->
         IF Has(St(e), "smallest")
         THEN ZDiffRounded(Z(e), e.args.t, e.args.other, LargestR(e), St(e).smallest, Get(St(e), "inc", 1), Get(St(e), "mode", "trunc"), e.op = "Zoned.since")
         ELSE IF e.op = "Zoned.until" THEN ZUntil(Z(e), e.args.t, e.args.other, Largest(e)) ELSE ZSince(Z(e), e.args.t, e.args.other, Largest(e))
    [] e.op = "Zoned.withPlainTime" -> ZWithPlainTime(Z(e), e.args.t, e.args.sod)
    [] e.op = "Zoned.startOfDay" -> Ok(ZStartOfDay(Z(e), e.args.t))
    [] e.op = "ZDur.round" -> ZRoundRel(Z(e), e.args.t, e.args.recv, St(e).largest, St(e).smallest, St(e).inc, St(e).mode)
    [] e.op = "ZDur.total" -> ZTotalRel(Z(e), e.args.t, e.args.recv, e.args.unit)
    [] e.op = "ZDur.compare" -> ZCompareRel(Z(e), e.args.t, e.args.recv, e.args.other)
    [] e.op = "Zoned.hoursInDay" -> LET n == DayLength(Z(e), e.args.t) IN IF n % 3600 = 0 THEN Ok(n \div 3600) ELSE [kind |-> "within", lo |-> n \div 3600, hi |-> n \div 3600 + 1]
Matches(e) == LET x == Expected(e)
              IN IF x.kind = "any" THEN e.out.kind \in {"ok", "range"}
                 ELSE IF x.kind = "within" THEN e.out.kind = "ok" /\ e.out.val \in x.lo..x.hi   \* an integer-typed answer to a fractional quantity: one of the two neighbouring integers
                 ELSE IF e.op = "ZDur.total" /\ x.kind = "ok" THEN e.out.kind = "ok" /\ F64Approximates(e.out.val.m, e.out.val.e, FromInt(x.val.n), FromInt(x.val.d))
                 ELSE x = e.out
ZoneTag(z) == (IF NT(z) = 0 THEN "fixed" ELSE IF \E i \in 1..NT(z) : AbsI(SegOff(z, i) - SegOff(z, i - 1)) > 3 * 3600 THEN "big-jump" ELSE "small-jump")
              \o (IF CloseTransitions(z) THEN "/close-transitions" ELSE "")
ClsOf(e) ==
  CASE e.op = "Zoned.fromLocal" -> Classify(Z(e), e.args.w) \o "/" \o e.args.dis \o "/" \o ZoneTag(Z(e))
    [] e.op = "Zoned.fromPartial" -> "bag/" \o e.args.offk \o "/" \o e.args.offopt \o "/" \o Classify(Z(e), e.args.w) \o "/" \o ZoneTag(Z(e))
    [] e.op = "Zoned.fromDate" -> "fromDate/" \o e.args.tt \o "/" \o Classify(Z(e), e.args.day * 86400) \o "/" \o ZoneTag(Z(e))
    [] e.op = "Zoned.relTo" -> "relativeTo/" \o e.args.offk \o "/" \o Classify(Z(e), e.args.w) \o "/" \o ZoneTag(Z(e))
    [] e.op = "Zoned.fromStr" -> e.args.offk \o "/" \o e.args.offopt \o "/" \o Classify(Z(e), e.args.w) \o "/" \o ZoneTag(Z(e))
    [] e.op \in {"Zoned.until", "Zoned.since"} -> Largest(e) \o "/" \o ZoneTag(Z(e)) \o (IF Has(e.args, "oz") THEN "/other-zone" ELSE "")
    [] e.op = "ZDur.round" -> "lg-" \o St(e).largest \o "/sm-" \o St(e).smallest \o "/" \o ZoneTag(Z(e))
    [] e.op = "ZDur.total" -> e.args.unit \o "/" \o ZoneTag(Z(e))
    [] e.op = "Zoned.views" -> "views/" \o e.args.via \o "/" \o ZoneTag(Z(e))
    [] e.op = "Zoned.text" -> "text/" \o e.args.via \o "/" \o e.args.mode \o "/" \o ZoneTag(Z(e))
    [] OTHER -> ZoneTag(Z(e))
TInit == l = 1
TNext == /\ l <= NEv /\ l' = l + 1
         /\ \/ E.op = "reset"
            \/ E.op # "reset" /\ Matches(E)
            \/ E.op # "reset" /\ ~Matches(E) /\ Report(l, E.op, ClsOf(E), Expected(E), E.out)
TSpec == TInit /\ [][TNext]_tvars
=============================================================================
