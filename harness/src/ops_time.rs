//! Operations for C06 (see ops.rs). Fill in: return Some(outcome) for the ops this module owns.
use crate::js::{self, big, int};
use crate::ops::{utc, FS};
use crate::proj::*;
use serde_json::{json, Value};
use temporal_rs::options::*;
use temporal_rs::*;

pub fn exec(op: &str, a: &Value) -> Option<Value> {
    let _ = a;
    match op {
        _ => None,
    }
}
