SPECIFICATION Spec
CONSTANTS
  Window <- AddWindow
  DurSet <- QDurSet
  LargestSet <- NoDur
  OneStep = TRUE
INVARIANTS InverseLaw ClosedEqualsLiteral DiffShape DayIsDistance AddWellFormed SubIsAddNeg RejectRule 
CHECK_DEADLOCK FALSE
