"""C09 — durations form a consistent signed quantity without a reference date."""
from . import lib
from .props import quick, corrupt_first, bump_big, head_of


def run(run):
    b = lib.build_harness("dev")
    q = quick(run)
    cases, n = run.gen("mc/MC_Duration.tla", "gen/Gen_C09.cfg", workers=8, name="dur")
    run.replay(b, cases, label="dur")
    run.negative_control_replay(b, cases, corrupt_first(lambda e: e["op"] == "Duration.negated", lambda e: bump_big(e["out"]["val"]["ns"])), limit=3000)
    tr = run.record(b, "c09", 12000 if q else 200000)
    run.validate("trace/Trace_Duration.tla", "trace/Trace_Duration.cfg", tr)
    small = head_of(run, tr, 400, "c09.small.trace.ndjson")
    run.negative_control_trace("trace/Trace_Duration.tla", "trace/Trace_Duration.cfg", small,
                               corrupt_first(lambda e: e.get("op") == "Duration.compare" and e["out"]["kind"] == "ok" and e["out"]["val"] != 0,
                                             lambda e: e["out"].__setitem__("val", -e["out"]["val"])))
    run.cov["rule"] = ("replay: every transition of the bounded Duration machine (33 boundary durations x {new on 52 candidate vectors, negated, abs, sign, add/subtract/compare with each of the 33, "
                      "round under 200+ option sets, total in 8 units}); traces: seeded vectors/durations incl. fields up to the limits")
    run.cov["distinct_nontrivial"] = run.cov["evaluations"]
    run.assumptions += ["totals are doubles: accepted iff exact for integral results up to 2^53, else within relative error 2^-51 (Duration!F64Approximates)"]
