SPECIFICATION TSpec
CONSTANTS
  GenForms = {}
  GenYears = {}
  Budget = 0
INVARIANT Deterministic
POSTCONDITION Accepted
CHECK_DEADLOCK FALSE
