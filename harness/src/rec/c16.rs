//! C16 sessions: for every calendar identifier the crate accepts, walk consecutive ISO days in dense windows
//! (every era boundary of the calendar, +-800 days around year ends / leap months, the calendar's own epoch,
//! both ends of the ISO range, random far windows) logging every calendar-derived getter (`Cal.Day`), then
//! rebuild the date from the reported fields in every supported combination and through every era alias
//! (`Cal.Rebuild`), change calendars (`Cal.WithCalendar`), and parse identifier spellings (`Cal.Id`).
//! The driver decides nothing: windows are chosen from the implementation's own answers only to *place* them
//! (where does the era name change, where does the year number change); all judging is done by Trace_Cal.tla.
use super::Tracer;
use crate::gen::*;
use crate::ops;
use crate::rng::Rng;
use crate::sp_c16::{calendars, crate_aliases, CANDIDATES};
use serde_json::{json, Value};
use std::str::FromStr;
use temporal_rs::{Calendar, PlainDate};

/// era synonyms of the intl-era-monthcode table the crate's era.rs was copied from (only used to pick which
/// aliases to try on a day whose reported era is in the same row; the trace spec has its own table and re-decides).
const SYNONYMS: &[(&str, &[&str])] = &[
    ("buddhist", &["buddhist", "be"]),
    ("coptic", &["coptic"]), ("coptic", &["coptic-inverse"]),
    ("ethiopic", &["ethiopic", "incar"]), ("ethiopic", &["ethiopic-inverse"]), ("ethiopic", &["ethioaa", "ethiopic-amete-alem", "mundi"]),
    ("ethioaa", &["ethioaa", "ethiopic-amete-alem", "mundi"]),
    ("gregory", &["gregory", "ce", "ad"]), ("gregory", &["gregory-inverse", "bc", "bce"]),
    ("hebrew", &["hebrew", "am"]), ("indian", &["indian", "saka"]),
    ("islamic", &["islamic", "ah"]), ("islamic-civil", &["islamic-civil", "islamicc", "ah"]),
    ("islamic-tbla", &["islamic-tbla", "ah"]), ("islamic-umalqura", &["islamic-umalqura", "ah"]),
    ("japanese", &["meiji"]), ("japanese", &["taisho"]), ("japanese", &["showa"]), ("japanese", &["heisei"]), ("japanese", &["reiwa"]),
    ("japanese", &["japanese", "gregory", "ce", "ad"]), ("japanese", &["japanese-inverse", "gregory-inverse", "bc", "bce"]),
    ("japanext", &["japanese", "gregory", "ce", "ad"]), ("japanext", &["japanese-inverse", "gregory-inverse", "bc", "bce"]),
    ("persian", &["persian", "ap"]),
    ("roc", &["roc", "minguo"]), ("roc", &["roc-inverse", "before-roc"]),
];
/// eras that describe a day by a different year count than the reported one: (calendar, names, eraYear = year + offset, only when year <= max_year)
const ALT_ERAS: &[(&str, &[&str], i64, i64)] = &[("ethiopic", &["ethioaa", "ethiopic-amete-alem", "mundi"], 5500, 0)];

/// per-calendar event buffer (calendars are walked on parallel threads, then written in a fixed order)
struct Local { lines: Vec<String>, n: usize }
impl Local {
    fn call(&mut self, op: &str, args: Value) -> Value {
        let out = ops::exec(op, &args);
        self.lines.push(json!({"op": op, "args": args, "out": out}).to_string());
        self.n += 1;
        out
    }
    fn reset(&mut self) { self.lines.push(json!({"op": "reset"}).to_string()); self.n += 1; }
}

fn day_args(cal: &str, n: i64) -> Value { json!({"cal": cal, "n": n, "iso": date_json(n)}) }
/// placement probe (era name and year only; never logged, never judged)
fn peek(cal: &str, n: i64) -> Value {
    let (y, m, d) = civil(n);
    let c = cal.to_string();
    match std::panic::catch_unwind(move || {
        let date = PlainDate::try_new(y as i32, m as u8, d as u8, Calendar::from_str(&c).ok()?).ok()?;
        Some((date.era().map(|e| e.as_str().to_string()), date.year()))
    }) {
        Ok(Some((e, y))) => json!({"val": {"era": e.map(|e| vec![e]).unwrap_or_default(), "year": y}}),
        _ => json!({}),
    }
}
fn era_of(v: &Value) -> String { v["val"]["era"].get(0).and_then(|e| e.as_str()).unwrap_or("").to_string() }
fn year_of(v: &Value) -> Option<i64> { v["val"]["year"].as_i64() }
/// calendars whose conversions outside the library's precomputed tables cost 10..1000 ms per call
fn slow(cal: &str) -> bool { cal == "islamic" || cal == "islamic-umalqura" }
/// calendars computed from astronomical approximations: tens of thousands of years from now the library's own
/// assertions fail (calendrical_calculations: "diff == 29 || diff == 30", "Found year .. with length 482"), so the
/// random far windows stay within +-8000 ISO years ("where the calendar library allows") and only a few days at
/// each end of the ISO range are visited (they panic; recorded as a finding, also relevant to C03)
fn astro(cal: &str) -> bool { matches!(cal, "chinese" | "dangi" | "islamic" | "islamic-umalqura") }

/// first n in (lo, hi] whose key differs from key(lo) (bisect; assumes one change in between)
fn bisect<K: PartialEq>(cal: &str, mut lo: i64, mut hi: i64, key: &dyn Fn(&Value) -> K) -> i64 {
    let k0 = key(&peek(cal, lo));
    while hi - lo > 1 {
        let mid = lo + (hi - lo) / 2;
        if key(&peek(cal, mid)) == k0 { lo = mid } else { hi = mid }
    }
    hi
}

/// ISO days at which the reported era name changes (scan + bisect), within [lo, hi]
fn era_boundaries(cal: &str, lo: i64, hi: i64, stride: i64) -> Vec<i64> {
    let mut out = Vec::new();
    let mut prev_n = lo;
    let mut prev = era_of(&peek(cal, lo));
    let mut n = lo + stride;
    while n <= hi {
        let e = era_of(&peek(cal, n));
        if e != prev { out.push(bisect(cal, prev_n, n, &era_of)); }
        prev = e; prev_n = n; n += stride;
    }
    out
}

/// the ISO day on which the calendar's year number becomes >= 1 (the calendar's epoch), if inside the range
fn epoch_day(cal: &str) -> Option<i64> {
    let (mut lo, mut hi) = (MIN_DAY + 1, MAX_DAY);
    let pos = |n: i64| year_of(&peek(cal, n)).map(|y| y >= 1);
    if pos(lo)? || !pos(hi)? { return None; }
    while hi - lo > 1 {
        let mid = lo + (hi - lo) / 2;
        if pos(mid)? { hi = mid } else { lo = mid }
    }
    Some(hi)
}

struct Plan { cal: String, lo: i64, hi: i64, why: &'static str }

fn clampw(lo: i64, hi: i64) -> (i64, i64) { (lo.max(MIN_DAY), hi.min(MAX_DAY)) }

fn plan(cal: &str, thorough: bool, r: &mut Rng) -> Vec<Plan> {
    let mut w: Vec<(i64, i64, &'static str)> = Vec::new();
    let d = |y, m, dd| days_from_civil(y, m, dd);
    // era boundaries: coarse scan over ISO years -6000..2200 (eras shorter than four years exist only in the
    // Japanese calendars, which get a fine scan); the two astronomical Islamic calendars have a single era and
    // cost ~30 ms per call out there, so they are not scanned
    let mut bs = if slow(cal) { Vec::new() } else { era_boundaries(cal, d(-6000, 1, 1), d(2200, 1, 1), 1500) };
    if cal.starts_with("jap") {
        bs.extend(era_boundaries(cal, d(600, 1, 1), d(2030, 1, 1), 13));
        bs.sort(); bs.dedup();
    }
    let modern = d(1860, 1, 1);
    let max_old = if thorough { 400 } else { 24 };
    let old: Vec<i64> = bs.iter().cloned().filter(|b| *b < modern).collect();
    let mut chosen: Vec<i64> = bs.iter().cloned().filter(|b| *b >= modern).collect();
    if old.len() <= max_old { chosen.extend(old) } else {
        // always the earliest and latest pre-modern ones, the rest sampled
        chosen.push(old[0]); chosen.push(old[old.len() - 1]);
        for _ in 0..max_old - 2 { chosen.push(*r.pick(&old)); }
    }
    chosen.sort(); chosen.dedup();
    for b in chosen { w.push((b - 12, b + 12, "era-boundary")); }
    // year ends / leap months: 1600 consecutive days hold >= 4 year ends and, for lunisolar calendars, a leap month
    w.push((d(2022, 6, 1), d(2022, 6, 1) + 1600, "dense-2024"));
    let a = d(r.range(1000, 2150), r.range(1, 12), 1);
    w.push((a, a + if thorough { 3200 } else { 1600 }, "dense-random"));
    if thorough {
        for y in [1899, 2099, 1582, 2299] { w.push((d(y, 1, 1) - 800, d(y, 1, 1) + 800, "dense-table-edge")); }
        for _ in 0..4 { let a = d(r.range(-3000, 3000), r.range(1, 12), 1); w.push((a, a + 1600, "dense-random")); }
    } else {
        w.push((d(1899, 6, 1), d(1899, 6, 1) + 800, "dense-table-edge"));
        w.push((d(2099, 6, 1), d(2099, 6, 1) + 800, "dense-table-edge"));
    }
    // the calendar's own epoch (year 0/1 or the change to an inverse era)
    if let Some(e) = epoch_day(cal) { w.push((e - 400, e + 400, "epoch")); }
    // ISO year 0/1 (negative ISO years)
    w.push((d(0, 1, 1) - 20, d(1, 1, 1) + 20, "iso-year-0"));
    // ends of the supported range
    let k = if astro(cal) { if thorough { 30 } else { 6 } } else if thorough { 800 } else { 400 };
    w.push((MIN_DAY, MIN_DAY + k, "range-min"));
    w.push((MAX_DAY - k, MAX_DAY, "range-max"));
    for _ in 0..(if thorough { 12 } else { 3 }) {
        let a = if astro(cal) { r.range(d(-8000, 1, 1), d(8000, 1, 1)) } else { r.range(MIN_DAY, MAX_DAY - 400) };
        w.push((a, a + if thorough { 400 } else { 200 }, "far-random"));
    }
    w.into_iter().map(|(lo, hi, why)| {
        let (mut lo, mut hi) = clampw(lo, hi);
        if slow(cal) && !(lo >= d(1850, 1, 1) && hi <= d(2150, 1, 1)) {
            // cost cap (see slow()): keep the middle of the window, where the boundary it was placed around is
            let far = lo < d(-9000, 1, 1) || hi > d(9000, 1, 1);
            let len = match (far, thorough) { (true, false) => 3, (true, true) => 12, (false, false) => 60, (false, true) => 400 };
            if hi - lo > len {
                let mid = if why == "range-min" { lo + len / 2 } else if why == "range-max" { hi - len / 2 } else { lo + (hi - lo) / 2 };
                lo = (mid - len / 2).max(lo); hi = (lo + len).min(hi);
            }
        }
        Plan { cal: cal.to_string(), lo, hi, why }
    }).collect()
}

/// placement probe for the alias block: the ISO day of (year, ordinal month, day) in another calendar (never logged, never judged)
fn day_with_same_numbers(cal2: &str, year: i64, month: i64, day: i64) -> Option<i64> {
    let c = cal2.to_string();
    std::panic::catch_unwind(move || {
        let p = temporal_rs::partial::PartialDate::new().with_year(Some(year as i32)).with_month(Some(month as u8)).with_day(Some(day as u8)).with_calendar(Calendar::from_str(&c).ok()?);
        let d = PlainDate::from_partial(p, Some(temporal_rs::options::ArithmeticOverflow::Constrain)).ok()?;
        Some(days_from_civil(d.iso_year() as i64, d.iso_month() as i64, d.iso_day() as i64))
    }).ok().flatten()
}
const LUNISOLAR: [&str; 3] = ["chinese", "dangi", "hebrew"];

fn pick_ovf(r: &mut Rng) -> Option<&'static str> { match r.range(0, 2) { 0 => None, 1 => Some("constrain"), _ => Some("reject") } }

fn rebuild(t: &mut Local, r: &mut Rng, cal: &str, n: i64, f: &Value, year: Option<(&str, i64)>, by: &str) {
    // year: None -> the `year` field; Some((era, era_year)) -> era + eraYear
    let mut a = json!({"cal": cal, "n": n, "day": f["day"]});
    match year { None => { a["year"] = f["year"].clone(); } Some((e, y)) => { a["era"] = json!(e); a["ey"] = json!(y); } }
    if by == "mc" || by == "m+mc" { a["mc"] = f["mc"].clone(); }
    if by == "m" || by == "m+mc" { a["month"] = f["month"].clone(); }
    if let Some(o) = pick_ovf(r) { a["ovf"] = json!(o); }
    if r.chance(1, 5) { a["via"] = json!("calendar"); }
    t.call("Cal.Rebuild", a);
}

fn case_variants(s: &str, r: &mut Rng) -> Vec<String> {
    let mut v = vec![s.to_string(), s.to_uppercase()];
    let mut c = s.chars();
    if let Some(f) = c.next() { v.push(f.to_uppercase().collect::<String>() + c.as_str()); }
    for _ in 0..2 { v.push(s.chars().map(|ch| if r.chance(1, 2) { ch.to_ascii_uppercase() } else { ch }).collect()); }
    v
}

fn walk_calendar(cal: &str, cals: &[String], crate_al: &[(String, String)], thorough: bool, seed: u64, cap: usize) -> Local {
    let mut t = Local { lines: Vec::new(), n: 0 };
    let r = &mut Rng::new(seed);
    let t = &mut t;
    for p in plan(cal, thorough, r) {
        if t.n >= cap { break; }
        let mut prev_era = String::new();
        for day in p.lo..=p.hi {
            let out = t.call("Cal.Day", day_args(&p.cal, day));
            if out["kind"] != "ok" { continue; }
            let f = &out["val"];
            let (dd, dim) = (f["day"].as_i64().unwrap_or(0), f["dim"].as_i64().unwrap_or(0));
            let era = era_of(&out);
            let leapish = f["mc"].as_array().map(|m| m.len() == 4).unwrap_or(false) || f["month"].as_i64().unwrap_or(0) >= 13;
            let dense = dd <= 1 || dd >= dim || era != prev_era || day - p.lo < 2 || p.hi - day < 2
                || r.chance(1, if leapish { 4 } else { 12 }) || p.why == "era-boundary";
            prev_era = era.clone();
            if dense {
                // baseline first: year + monthCode + day; then month ordinal; then both
                rebuild(t, r, cal, day, f, None, "mc");
                rebuild(t, r, cal, day, f, None, "m");
                if r.chance(1, 3) { rebuild(t, r, cal, day, f, None, "m+mc"); }
                // month and monthCode that disagree: the number written inside the code where it is not the ordinal (after a leap month),
                // otherwise a neighbouring ordinal
                let (m, mc) = (f["month"].as_i64().unwrap_or(0), f["mc"].as_array().cloned().unwrap_or_default());
                let num = if mc.len() >= 3 { mc[1].as_str().unwrap_or("0").parse::<i64>().unwrap_or(0) * 10 + mc[2].as_str().unwrap_or("0").parse::<i64>().unwrap_or(0) } else { 0 };
                if num != m || leapish || r.chance(1, 3) {
                    let wrong = if num >= 1 && num != m { num } else if m > 1 && r.chance(1, 2) { m - 1 } else { m + 1 };
                    if (1..=255).contains(&wrong) && m >= 1 {
                        let mut a = json!({"cal": cal, "n": day, "day": f["day"], "year": f["year"], "mc": f["mc"], "month": wrong});
                        if let Some(o) = pick_ovf(r) { a["ovf"] = json!(o); }
                        if r.chance(1, 5) { a["via"] = json!("calendar"); }
                        t.call("Cal.Conflict", a);
                    }
                }
                if !era.is_empty() {
                    let ey = f["ey"][0].as_i64().unwrap_or(0);
                    // the reported name itself first (baseline), then its synonyms
                    let mut names: Vec<String> = vec![era.clone()];
                    for (c, row) in SYNONYMS { if *c == cal && row.contains(&era.as_str()) { for a in *row { if !names.contains(&a.to_string()) { names.push(a.to_string()); } } } }
                    for a in &names { rebuild(t, r, cal, day, f, Some((a, ey)), "mc"); }
                    rebuild(t, r, cal, day, f, Some((&era, ey)), "m");
                    if r.chance(1, 3) { rebuild(t, r, cal, day, f, Some((&era, ey)), "m+mc"); }
                    let year = f["year"].as_i64().unwrap_or(0);
                    for (c, row, off, max_year) in ALT_ERAS {
                        if *c == cal && year <= *max_year { for a in *row { rebuild(t, r, cal, day, f, Some((a, year + off)), "mc"); } }
                    }
                    // aliases of the crate's own table that the synonym table does not know (e.g. misspellings): tried rarely; the spec asserts nothing for them
                    if r.chance(1, 40) {
                        for (c, a) in crate_al {
                            if c == cal && !SYNONYMS.iter().any(|(c2, row)| *c2 == cal && row.contains(&a.as_str())) { rebuild(t, r, cal, day, f, Some((a, ey)), "mc"); }
                        }
                    }
                }
            }
            // alias block (lunisolar calendars): the day with the same year NUMBER and ordinal month in a sibling calendar is rebuilt from
            // its ordinal month, then this day again - anything remembered between calls under the year number alone answers for the wrong calendar
            if dense && LUNISOLAR.contains(&cal) && r.chance(1, 5) {
                let (y, m) = (f["year"].as_i64().unwrap_or(0), f["month"].as_i64().unwrap_or(1));
                for c2 in LUNISOLAR.iter().filter(|c| **c != cal) {
                    if let Some(n2) = day_with_same_numbers(c2, y, m, dd.clamp(1, 29)) {
                        if n2 < MIN_DAY + 400 || n2 > MAX_DAY - 400 { continue; }
                        t.reset();
                        let o2 = t.call("Cal.Day", day_args(c2, n2));
                        if o2["kind"] == "ok" { let f2 = o2["val"].clone(); rebuild(t, r, c2, n2, &f2, None, "m"); rebuild(t, r, c2, n2, &f2, None, "mc"); }
                        t.reset();
                        let o1 = t.call("Cal.Day", day_args(cal, day));
                        if o1["kind"] == "ok" { let f1 = o1["val"].clone(); rebuild(t, r, cal, day, &f1, None, "m"); }
                    }
                }
            }
            if r.chance(1, 25) || (dense && r.chance(1, 6)) {
                let to = r.pick(cals).clone();
                let to = if r.chance(1, 4) { to.to_uppercase() } else { to };
                let to: Vec<String> = to.chars().map(|x| x.to_string()).collect();
                t.call("Cal.WithCalendar", json!({"from": cal, "to": to, "n": day, "iso": date_json(day)}));
                t.call("Cal.WithCalendarDT", json!({"from": cal, "to": to, "n": day, "iso": date_json(day)}));
                t.call("Cal.WithDay", json!({"from": cal, "n": day, "iso": date_json(day), "k": match r.range(0, 3) { 0 => 1, 1 => dim.max(1), 2 => 15, _ => r.range(1, 28) }}));
            }
        }
        t.reset();
    }
    Local { lines: std::mem::take(&mut t.lines), n: t.n }
}

pub fn drive(t: &mut Tracer, r: &mut Rng, n: usize) {
    use std::io::Write;
    let thorough = std::env::var("VERIF_TIER").map(|s| s == "thorough").unwrap_or(false);
    let only = std::env::var("VERIF_C16_CAL").ok();
    // ---- identifiers: every candidate spelling in several case variants (lower-case form first), both parsers
    if only.is_none() {
        for c in CANDIDATES {
            for (i, s) in case_variants(c, r).into_iter().enumerate() {
                let chars: Vec<String> = s.chars().map(|x| x.to_string()).collect();
                t.call("Cal.Id", if i % 2 == 1 { json!({"s": chars, "via": "utf8"}) } else { json!({"s": chars}) });
            }
        }
        t.reset();
    }
    let cals = calendars();
    let crate_al = crate_aliases();
    let todo: Vec<(String, u64)> = cals.iter().filter(|c| only.as_ref().map(|o| o == *c).unwrap_or(true)).map(|c| (c.clone(), r.next())).collect();
    let cap = n / todo.len().max(1) + 1;
    // calendars are independent: walk them on parallel threads (each with its own PRNG stream), write in a fixed order
    let results: Vec<Local> = std::thread::scope(|s| {
        let hs: Vec<_> = todo.iter().map(|(c, seed)| { let (cals, crate_al) = (&cals, &crate_al); s.spawn(move || walk_calendar(c, cals, crate_al, thorough, *seed, cap)) }).collect();
        hs.into_iter().map(|h| h.join().expect("calendar walk")).collect()
    });
    for l in results {
        for line in &l.lines { writeln!(t.f, "{}", line).unwrap(); }
        t.n += l.n;
    }
}
