//! One table of operations over the real public API. Both directions use it:
//! replay compares exec(op,args) with the outcome TLC generated; record logs exec(op,args) for TLC to judge.
use crate::js::{self, big, int};
use crate::proj::*;
use serde_json::{json, Value};
use std::str::FromStr;
use temporal_rs::options::*;
use temporal_rs::tzdb::FsTzdbProvider;
use temporal_rs::*;

thread_local! {
    pub static FS: FsTzdbProvider = FsTzdbProvider::default();
}

pub fn utc() -> TimeZone { TimeZone::try_from_str("+00:00").expect("utc offset zone") }

pub fn exec(op: &str, a: &Value) -> Value {
    if let Some(v) = crate::ops_date::exec(op, a) { return v; }
    json!({"kind": "unknown-op", "op": op})
}
