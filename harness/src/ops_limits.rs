//! Extra entry points for the range-boundary campaign (C02) and the extreme-argument campaign (C03).
use crate::js::{self, big, int};
use crate::ops::{utc, FS};
use crate::proj::*;
use serde_json::{json, Value};
use std::str::FromStr;
use temporal_rs::options::*;
use temporal_rs::*;

pub fn year_str(y: i64) -> String { if (0..=9999).contains(&y) { format!("{:04}", y) } else { format!("{}{:06}", if y < 0 { '-' } else { '+' }, y.abs()) } }

pub fn exec(op: &str, a: &Value) -> Option<Value> {
    Some(match op {
        "PlainDate.toPlainDateTime" => run(|| arg_date(&a["recv"])?.to_plain_date_time(Some(arg_time(&a["time"])?)), p_datetime),
        "PlainDateTime.fromDateAndTime" => run(|| PlainDateTime::from_date_and_time(arg_date(&a["recv"])?, arg_time(&a["time"])?), p_datetime),
        // the infallible conversion: the value is projected through getters (its Display may panic)
        "PlainDateTime.fromPlainDate" => run(|| Ok(PlainDateTime::from(arg_date(&a["recv"])?)), p_datetime),
        "PlainDate.fromStr" => run(|| { let d = &a["d"]; PlainDate::from_str(&format!("{}-{:02}-{:02}", year_str(js::i(d, "y")), js::i(d, "m"), js::i(d, "d"))) }, p_date),
        "PlainDateTime.fromStr" => run(|| { let d = &a["dt"]; PlainDateTime::from_str(&format!("{}-{:02}-{:02}T{:02}:{:02}:{:02}.{:03}{:03}{:03}", year_str(js::i(d, "y")), js::i(d, "m"), js::i(d, "d"),
            js::i(d, "h"), js::i(d, "mi"), js::i(d, "s"), js::i(d, "ms"), js::i(d, "us"), js::i(d, "ns"))) }, p_datetime),
        "Instant.fromStr" => run(|| { let d = &a["dt"]; Instant::from_str(&format!("{}-{:02}-{:02}T{:02}:{:02}:{:02}.{:03}{:03}{:03}Z", year_str(js::i(d, "y")), js::i(d, "m"), js::i(d, "d"),
            js::i(d, "h"), js::i(d, "mi"), js::i(d, "s"), js::i(d, "ms"), js::i(d, "us"), js::i(d, "ns"))) }, p_instant),
        "ZonedDateTime.new" => run(|| ZonedDateTime::try_new(num(&a["ns"]), iso(), utc()), |z| big(z.epoch_nanoseconds().as_i128())),
        _ => return None,
    })
}
