//! C12 sessions: strings for every parser. A seeded writer (independent of the specification) assembles valid
//! strings in all syntactic variants over the full value ranges; each is then parsed as is, after single- or
//! multi-character mutations (replace / delete / insert / duplicate / swap / truncate), or replaced by an arbitrary
//! character or byte string. One event per (parser, string): the characters, accepted?, projected value.
use super::Tracer;
use crate::gen::*;
use crate::ops_parse::chars_tok;
use crate::rng::Rng;
use serde_json::json;

const TYPES: [&str; 8] = ["PlainDate", "PlainDateTime", "PlainTime", "PlainYearMonth", "PlainMonthDay", "Instant", "ZonedDateTime", "Duration"];
const CALS: [&str; 8] = ["iso8601", "gregory", "hebrew", "japanese", "ISO8601", "islamic-civil", "roc", "buddhist"];
const ZONES: [&str; 6] = ["UTC", "America/New_York", "Europe/London", "Etc/GMT+5", "Asia/Kolkata", "utc"];
const ALPHABET: &str = "0123456789-+:.,TtZz []!=PpYyMmWwDdHhSsLu-ca=_/aé\u{2212}\u{0}Xx";

fn year_txt(r: &mut Rng, y: i64) -> String {
    if (0..=9999).contains(&y) && r.chance(4, 5) { format!("{:04}", y) } else { format!("{}{:06}", if y < 0 { '-' } else { '+' }, y.abs()) }
}
fn any_year(r: &mut Rng) -> i64 {
    match r.range(0, 9) { 0 => -271821, 1 => 275760, 2 => r.range(-2, 2), 3 => r.range(9998, 10001), 4 => r.range(-271821, 275760), _ => r.range(1, 3000) }
}
fn dim(y: i64, m: i64) -> i64 {
    match m { 2 => if (y % 4 == 0 && y % 100 != 0) || y % 400 == 0 { 29 } else { 28 }, 4 | 6 | 9 | 11 => 30, _ => 31 }
}
fn date_txt(r: &mut Rng) -> String {
    let y = any_year(r);
    let m = r.range(1, 12);
    let d = match r.range(0, 3) { 0 => dim(y, m), 1 => 1, _ => r.range(1, dim(y, m)) };
    if r.chance(3, 4) { format!("{}-{:02}-{:02}", year_txt(r, y), m, d) } else { format!("{}{:02}{:02}", year_txt(r, y), m, d) }
}
fn frac_txt(r: &mut Rng) -> String {
    if r.chance(1, 2) { return String::new(); }
    let n = if r.chance(1, 3) { 9 } else { r.range(1, 9) as usize };   // the longest allowed fraction is a boundary of the grammar
    let mut s = String::from(if r.chance(4, 5) { "." } else { "," });
    for _ in 0..n { s.push(char::from(b'0' + r.range(0, 9) as u8)); }
    s
}
fn time_txt(r: &mut Rng) -> String {
    let (h, mi) = (r.range(0, 23), r.range(0, 59));
    let s = if r.chance(1, 12) { 60 } else { r.range(0, 59) };
    match r.range(0, 6) {
        0 => format!("{:02}", h),
        1 => format!("{:02}:{:02}", h, mi),
        2 => format!("{:02}{:02}", h, mi),
        3 => format!("{:02}{:02}{:02}{}", h, mi, s, frac_txt(r)),
        _ => format!("{:02}:{:02}:{:02}{}", h, mi, s, frac_txt(r)),
    }
}
fn offset_txt(r: &mut Rng, sub: bool) -> String {
    let sg = if r.chance(1, 2) { '+' } else { '-' };
    let (h, m, s) = (r.range(0, 23), if r.chance(1, 2) { 0 } else { r.range(0, 59) }, r.range(0, 59));
    match r.range(0, if sub { 5 } else { 3 }) {
        0 => format!("{}{:02}", sg, h),
        1 | 2 => format!("{}{:02}:{:02}", sg, h, m),
        3 => format!("{}{:02}{:02}", sg, h, m),
        4 => format!("{}{:02}:{:02}:{:02}{}", sg, h, m, s, frac_txt(r)),
        _ => format!("{}{:02}{:02}{:02}{}", sg, h, m, s, frac_txt(r)),
    }
}
fn annots_txt(r: &mut Rng, want_tz: bool, tz_matching: Option<&str>) -> String {
    let mut s = String::new();
    if want_tz || r.chance(1, 4) {
        let crit = if r.chance(1, 5) { "!" } else { "" };
        match tz_matching {
            Some(o) if r.chance(3, 4) => s += &format!("[{}{}]", crit, o),
            _ => if r.chance(1, 2) { s += &format!("[{}{}]", crit, r.pick(&ZONES)) } else { s += &format!("[{}{}]", crit, offset_txt(r, false)) },
        }
    }
    if r.chance(1, 3) { s += &format!("[{}u-ca={}]", if r.chance(1, 5) { "!" } else { "" }, r.pick(&CALS)); }
    if r.chance(1, 8) { s += &format!("[{}u-ca={}]", if r.chance(1, 4) { "!" } else { "" }, r.pick(&CALS)); }
    if r.chance(1, 6) { s += *r.pick(&["[foo=bar]", "[x-y=a1-b2]", "[!foo=bar]", "[k=v]", "[_a=Zz9]"]); }
    s
}
fn datetime_txt(r: &mut Rng, kind: u8) -> String {
    // kind 0: plain, 1: instant (offset or Z), 2: zoned (bracket)
    let mut s = date_txt(r);
    let mut off: Option<String> = None;
    if kind > 0 || r.chance(3, 4) {
        s.push(*r.pick(&['T', 'T', 'T', 't', ' ']));
        s += &time_txt(r);
        if kind == 1 || r.chance(1, 3) {
            if r.chance(1, 3) { s.push(if r.chance(5, 6) { 'Z' } else { 'z' }); } else { let sub = kind != 2 || r.chance(1, 6); let o = offset_txt(r, sub); s += &o; off = Some(o); }
        }
    }
    // the bracketed zone repeats the offset; for an offset with a seconds part it repeats its hours and minutes half of the time
    // (then the string is right only if the seconds part is zero)
    let cut = r.chance(1, 2);
    let m = off.as_deref().and_then(|o| if o.len() == 6 { Some(o) } else if cut && o.len() > 6 && o.as_bytes()[3] == b':' { Some(&o[..6]) } else { None });
    s + &annots_txt(r, kind == 2, m)
}
fn dur_txt(r: &mut Rng) -> String {
    let mut s = String::from(*r.pick(&["", "", "", "-", "+"]));
    s.push(if r.chance(9, 10) { 'P' } else { 'p' });
    let num = |r: &mut Rng| -> String { match r.range(0, 6) { 0 => "0".into(), 1 => r.range(0, 4_000_000_000).to_string(), 2 => format!("{:05}", r.range(0, 999)), _ => r.range(1, 400).to_string() } };
    let des = |r: &mut Rng, c: char| if r.chance(9, 10) { c } else { c.to_ascii_lowercase() };
    let mut any = false;
    for c in ['Y', 'M', 'W', 'D'] { if r.chance(2, 5) { s += &num(r); s.push(des(r, c)); any = true; } }
    let tu: Vec<char> = ['H', 'M', 'S'].into_iter().filter(|_| r.chance(1, 2)).collect();
    if !tu.is_empty() || !any {
        let tu = if tu.is_empty() { vec!['S'] } else { tu };
        s.push(des(r, 'T'));
        for (i, c) in tu.iter().enumerate() {
            s += &num(r);
            if i + 1 == tu.len() { s += &frac_txt(r); }
            s.push(des(r, *c));
        }
    }
    s
}
fn valid_for(r: &mut Rng, ty: &str) -> String {
    match ty {
        "PlainDate" | "PlainDateTime" => datetime_txt(r, 0),
        "PlainTime" => if r.chance(1, 3) { datetime_txt(r, 0) } else {
            let t = time_txt(r);
            let des = if r.chance(1, 3) { *r.pick(&["T", "t"]) } else { "" };
            format!("{}{}{}{}", des, t, if r.chance(1, 4) { offset_txt(r, true) } else { String::new() }, annots_txt(r, false, None))
        },
        "PlainYearMonth" => if r.chance(1, 3) { datetime_txt(r, 0) } else {
            let y = any_year(r);
            format!("{}{}{:02}{}", year_txt(r, y), if r.chance(3, 4) { "-" } else { "" }, r.range(1, 12), annots_txt(r, false, None))
        },
        "PlainMonthDay" => if r.chance(1, 3) { datetime_txt(r, 0) } else {
            let m = r.range(1, 12);
            format!("{}{:02}{}{:02}{}", if r.chance(1, 4) { "--" } else { "" }, m, if r.chance(3, 4) { "-" } else { "" }, r.range(1, dim(1972, m)), annots_txt(r, false, None))
        },
        "Instant" => datetime_txt(r, 1),
        "ZonedDateTime" => datetime_txt(r, 2),
        "Duration" => dur_txt(r),
        "UtcOffset" | "TimeZoneId" => if ty == "TimeZoneId" && r.chance(1, 2) { r.pick(&ZONES).to_string() } else { let sub = r.chance(1, 4); offset_txt(r, sub) },
        "TimeZone" => match r.range(0, 3) { 0 => r.pick(&ZONES).to_string(), 1 => offset_txt(r, false), _ => { let k = r.range(0, 2) as u8; datetime_txt(r, k) } },
        "MonthCode" => format!("M{:02}{}", r.range(0, 15), if r.chance(1, 3) { "L" } else { "" }),
        _ => if r.chance(1, 2) { r.pick(&CALS).to_string() } else { datetime_txt(r, 0) },
    }
}
fn mutate(r: &mut Rng, s: &str) -> String {
    let mut v: Vec<char> = s.chars().collect();
    let alpha: Vec<char> = ALPHABET.chars().collect();
    let n = match r.range(0, 5) { 0 | 1 | 2 => 1, 3 => 2, _ => r.range(2, 4) };
    for _ in 0..n {
        let len = v.len();
        if len == 0 { v.push(*r.pick(&alpha)); continue; }
        let i = r.range(0, len as i64 - 1) as usize;
        match r.range(0, 6) {
            0 | 1 => v[i] = *r.pick(&alpha),
            2 => { v.remove(i); }
            3 => v.insert(i, *r.pick(&alpha)),
            4 => { let c = v[i]; v.insert(i, c); }
            5 => if i + 1 < len { v.swap(i, i + 1) } else { v.push(*r.pick(&alpha)) },
            _ => v.truncate(i),
        }
    }
    v.into_iter().collect()
}
fn arbitrary(r: &mut Rng) -> String {
    if r.chance(1, 2) {
        let alpha: Vec<char> = ALPHABET.chars().collect();
        (0..r.range(0, 24)).map(|_| *r.pick(&alpha)).collect()
    } else {
        let bytes: Vec<u8> = (0..r.range(0, 16)).map(|_| r.range(0, 255) as u8).collect();
        String::from_utf8_lossy(&bytes).into_owned()
    }
}

/// Deterministic prelude (the same under every seed): every annotation / offset tail at which this crate's parser is known to
/// deviate (harness/data/c12_tails.txt, harvested from the recorded findings, plus hand-written neighbours), behind every kind
/// of core, through every parser that reads annotations - so that each (parser, class) of a recorded finding is visited on
/// every run and a class first met by the random part under some other seed is rare.
const CORES: [&str; 12] = ["2020-01-01", "2020-01-01T12:30:45", "2020-01-01T12:30:45.5", "12:30:45", "T12:30", "2020-01", "01-01", "--01-01",
    "2020-01-01T12:30:45Z", "2020-01-01T12:30:45+01:00", "2020-01-01T12:30:45[UTC]", "2020-01-01T12:30:45+00:00[UTC]"];
const READERS: [&str; 9] = ["PlainDate", "PlainDateTime", "PlainTime", "PlainYearMonth", "PlainMonthDay", "Instant", "ZonedDateTime", "Calendar", "TimeZone"];
pub const PRELUDE: usize = 12 * 9;   // events per tail
fn prelude(t: &mut Tracer) {
    for tail in include_str!("../../data/c12_tails.txt").lines() {
        for core in CORES { for ty in READERS { t.call(&format!("Parse.{}", ty), json!({"chars": chars_tok(&format!("{}{}", core, tail))})); } }
        t.reset();
    }
}

/// ... and U+2212 MINUS SIGN (a multi-byte character) in every position where a sign can stand, through all thirteen parsers
const MINUS_PROBES: [&str; 13] = ["--01-32[UTC]", "\u{2212}PT1H", "\u{2212}P1D", "\u{2212}P", "P\u{2212}1D", "PT\u{2212}1H", "\u{2212}002020-01-01", "\u{2212}002020-01-01T00:00Z", "2020-01-01T00:00\u{2212}05:00",
    "2020-01-01T00:00\u{2212}05:00[\u{2212}05:00]", "T12:30\u{2212}05:00", "\u{2212}05:00", "\u{2212}05"];
const ALL_PARSERS: [&str; 13] = ["PlainDate", "PlainDateTime", "PlainTime", "PlainYearMonth", "PlainMonthDay", "Instant", "ZonedDateTime", "Duration", "UtcOffset", "TimeZoneId", "TimeZone", "MonthCode", "Calendar"];
fn prelude_signs(t: &mut Tracer) {
    for s in MINUS_PROBES { for ty in ALL_PARSERS { t.call(&format!("Parse.{}", ty), json!({"chars": chars_tok(s)})); } }
    t.reset();
}

pub fn drive(t: &mut Tracer, r: &mut Rng, n: usize) {
    let small = ["UtcOffset", "TimeZoneId", "TimeZone", "MonthCode", "Calendar"];
    prelude(t);
    prelude_signs(t);
    let n = n + t.n;   // the prelude does not count against the requested number of random events
    while t.n < n {
        let ty: &str = if r.chance(4, 5) { *r.pick(&TYPES) } else { *r.pick(&small) };
        let base = valid_for(r, ty);
        let s = match r.range(0, 9) { 0 | 1 | 2 => base, 9 => arbitrary(r), _ => mutate(r, &base) };
        // the parser the string was written for, and sometimes another one
        t.call(&format!("Parse.{}", ty), json!({"chars": chars_tok(&s)}));
        if r.chance(1, 3) {
            let other: &str = if small.contains(&ty) { *r.pick(&small) } else { *r.pick(&TYPES) };
            if other != ty { t.call(&format!("Parse.{}", other), json!({"chars": chars_tok(&s)})); }
        }
        if r.chance(1, 40) { t.reset(); }
    }
}
