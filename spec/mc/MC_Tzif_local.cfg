SPECIFICATION Spec
CONSTANTS
  DaySec = 24
  Disk0 <- ToyDisk
  Workload <- LocalQueries
  Once = FALSE
  OneStep = TRUE
INVARIANTS LawAnswer LawLocal
CHECK_DEADLOCK FALSE
