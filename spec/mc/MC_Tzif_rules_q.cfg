SPECIFICATION Spec
CONSTANTS
  DaySec = 24
  Disk0 <- ToyDisk
  Workload <- QYearQueries
  Once = FALSE
  OneStep = TRUE
INVARIANTS LawAnswer LawTable LawRulesNear
CHECK_DEADLOCK FALSE
