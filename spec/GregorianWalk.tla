--------------------------- MODULE GregorianWalk ---------------------------
(***************************************************************************)
(* State machine: a cursor (n, date, wk) walking the day timeline one day   *)
(* at a time (NextDay / PrevDay) using only month-length rules; the         *)
(* invariants tie the walk to the closed forms of Gregorian.                *)
(***************************************************************************)
EXTENDS Gregorian


CONSTANTS StartDay, StartDate, Lo, Hi      \* anchor (StartDay <-> StartDate), window [Lo, Hi]
VARIABLES n, date, wk

vars == <<n, date, wk>>

Init == n = StartDay /\ date = StartDate /\ wk = IsoWeek(StartDate)

NextDay == n < Hi /\ n' = n + 1 /\ date' = Succ(date)
           /\ wk' = IF DayOfWeek(n + 1) # 1 THEN wk
                    ELSE \* a Monday starts a new week: week 1 iff this week contains Jan 4
                         LET thu == Succ(Succ(Succ(Succ(date))))   \* the Thursday of the new week
                         IN IF thu.y # wk.year THEN [week |-> 1, year |-> thu.y]
                            ELSE [week |-> wk.week + 1, year |-> wk.year]
PrevDay == n > Lo /\ n' = n - 1 /\ date' = Pred(date)
           /\ wk' = IsoWeek(Pred(date))
Next == NextDay \/ PrevDay
Spec == Init /\ [][Next]_vars

(* ---------------- invariants ---------------- *)
ClosedFormAgrees == date = CivilFromDays(n) /\ DFC(date) = n
WellFormed == ValidDate(date)
Cycle == DaysFromCivil(date.y + 400, date.m, date.d) = n + 146097
         /\ DayOfWeek(n + 146097) = DayOfWeek(n)
DoyRule == /\ DayOfYear(date) \in 1..DIY(date.y)
           /\ DayOfYear(date) = n - DaysFromCivil(date.y, 1, 1) + 1
\* the walk-maintained week (Monday-start, week-year = year of that week's Thursday)
\* agrees with the closed form; Jan 4 is always in week 1 of its own year
WeekRules == /\ wk = IsoWeek(date)
             /\ (date.m = 1 /\ date.d = 4 => wk = [week |-> 1, year |-> date.y])
             /\ wk.week \in 1..53 /\ wk.year \in {date.y - 1, date.y, date.y + 1}
OrderIso == \* order isomorphism against the neighbours
            /\ CmpDate(date, Succ(date)) = -1
            /\ CmpDate(Pred(date), date) = -1
            /\ DFC(Succ(date)) = n + 1 /\ DFC(Pred(date)) = n - 1
=============================================================================
