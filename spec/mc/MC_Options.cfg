SPECIFICATION Spec
CONSTANTS
  Ops <- OpsAll
  Incs <- AllIncs
  ModeOpts <- FewModeOpts
INVARIANTS AcceptanceIgnoresMode ResolvedCoherent
CHECK_DEADLOCK FALSE
