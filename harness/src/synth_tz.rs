//! Table-driven synthetic time zones (C13, C14): a TimeZoneProvider whose zones are given by the generated case / the
//! recorded event itself as [init offset, transitions (instant, new offset)], in whole seconds relative to BASE.
//! Every answer it gives is a plain table lookup / brute force over the zone's offsets (the same definition as
//! spec/TimeZone.tla: OffsetAt, PossibleSet), and the trace specs re-validate the operations' results against the spec.
use serde_json::Value;
use std::cell::RefCell;
use temporal_rs::iso::IsoDateTime;
use temporal_rs::provider::{TimeZoneOffset, TimeZoneProvider, TransitionDirection};
use temporal_rs::time::EpochNanoseconds;
use temporal_rs::{TemporalError, TemporalResult, TimeZone};

pub const BASE_DAY: i64 = 15_340; // 2012-01-01
pub const BASE_SEC: i64 = BASE_DAY * 86_400;
pub const ZONE_NAME: &str = "Test/Zone";

#[derive(Clone, Debug, Default)]
pub struct Zone { pub init: i64, pub trans: Vec<(i64, i64)> }
impl Zone {
    pub fn from_json(v: &Value) -> Zone {
        Zone { init: v["init"].as_i64().expect("init"), trans: v["trans"].as_array().map(|a| a.iter().map(|t| (t["at"].as_i64().unwrap(), t["off"].as_i64().unwrap())).collect()).unwrap_or_default() }
    }
    /// offset in force at relative instant t
    pub fn offset_at(&self, t: i64) -> i64 { self.trans.iter().rev().find(|(at, _)| *at <= t).map(|(_, o)| *o).unwrap_or(self.init) }
    pub fn last_transition(&self, t: i64) -> Option<i64> { self.trans.iter().rev().find(|(at, _)| *at <= t).map(|(at, _)| *at) }
    pub fn offsets(&self) -> Vec<i64> { let mut v: Vec<i64> = std::iter::once(self.init).chain(self.trans.iter().map(|x| x.1)).collect(); v.sort(); v.dedup(); v }
    /// all relative instants whose wall reading is w, ascending
    pub fn possible(&self, w: i64) -> Vec<i64> { let mut v: Vec<i64> = self.offsets().into_iter().filter(|o| self.offset_at(w - o) == *o).map(|o| w - o).collect(); v.sort(); v.dedup(); v }
    pub fn is_fixed_minutes(&self) -> bool { self.trans.is_empty() && self.init % 60 == 0 }
}

#[derive(Default)]
pub struct SynthProvider { pub zone: RefCell<Zone>, pub queries: RefCell<u64> }
impl SynthProvider {
    pub fn with_zone(z: Zone) -> Self { SynthProvider { zone: RefCell::new(z), queries: RefCell::new(0) } }
}
impl TimeZoneProvider for SynthProvider {
    fn check_identifier(&self, identifier: &str) -> bool { identifier == ZONE_NAME }
    fn get_named_tz_epoch_nanoseconds(&self, identifier: &str, local: IsoDateTime) -> TemporalResult<Vec<EpochNanoseconds>> {
        if identifier != ZONE_NAME { return Err(TemporalError::range().with_message("unknown synthetic zone")); }
        *self.queries.borrow_mut() += 1;
        // the local reading as nanoseconds on the UTC scale, without range checking (readings near the limits are legitimate)
        let ns = local_reading_ns(&local);
        let sec = ns.div_euclid(1_000_000_000); let sub = ns.rem_euclid(1_000_000_000);
        let z = self.zone.borrow();
        z.possible((sec - BASE_SEC as i128) as i64).into_iter().map(|t| EpochNanoseconds::try_from((t as i128 + BASE_SEC as i128) * 1_000_000_000 + sub)).collect()
    }
    fn get_named_tz_offset_nanoseconds(&self, identifier: &str, epoch_ns: i128) -> TemporalResult<TimeZoneOffset> {
        if identifier != ZONE_NAME { return Err(TemporalError::range().with_message("unknown synthetic zone")); }
        *self.queries.borrow_mut() += 1;
        let t = (epoch_ns.div_euclid(1_000_000_000) - BASE_SEC as i128) as i64;
        let z = self.zone.borrow();
        Ok(TimeZoneOffset { offset: z.offset_at(t), transition_epoch: z.last_transition(t).map(|a| a + BASE_SEC) })
    }
    fn get_named_tz_transition(&self, _: &str, _: i128, _: TransitionDirection) -> TemporalResult<Option<EpochNanoseconds>> {
        Err(TemporalError::general("not provided by the synthetic provider"))
    }
}
fn local_reading_ns(dt: &IsoDateTime) -> i128 {
    let days = crate::gen::days_from_civil(dt.date.year as i64, dt.date.month as i64, dt.date.day as i64) as i128;
    let t = &dt.time;
    days * 86_400_000_000_000 + ((t.hour as i128 * 60 + t.minute as i128) * 60 + t.second as i128) * 1_000_000_000
        + (t.millisecond as i128 * 1000 + t.microsecond as i128) * 1000 + t.nanosecond as i128
}
/// the TimeZone value to use for a zone: a fixed-offset identifier when the zone has no transitions and a whole-minute offset
pub fn time_zone_for(z: &Zone, force_named: bool) -> TimeZone {
    if z.is_fixed_minutes() && !force_named {
        let m = z.init / 60; let s = if m < 0 { '-' } else { '+' };
        TimeZone::try_from_str(&format!("{}{:02}:{:02}", s, m.abs() / 60, m.abs() % 60)).expect("offset zone")
    } else { TimeZone::try_from_str(ZONE_NAME).expect("named zone") }
}
/// date/time fields of a relative local reading (seconds) plus sub-second nanoseconds
pub fn fields_of(w: i64, sub_ns: i64) -> (i32, u8, u8, u8, u8, u8, u16, u16, u16) {
    let abs = BASE_SEC + w; let day = abs.div_euclid(86_400); let sod = abs.rem_euclid(86_400);
    let (y, m, d) = crate::gen::civil(day);
    (y as i32, m as u8, d as u8, (sod / 3600) as u8, ((sod / 60) % 60) as u8, (sod % 60) as u8, (sub_ns / 1_000_000) as u16, ((sub_ns / 1000) % 1000) as u16, (sub_ns % 1000) as u16)
}
