//! Dispatch table 1: the compiled-data convenience API (src/builtins/compiled/*.rs), keyed `<Type>.<method>`.
//! Every entry calls exactly the method it is named after (which uses the process-wide TZ_PROVIDER).
use super::*;

pub fn call(row: &str, a: &Value) -> Option<Value> {
    let (ty, m) = row.split_once('.')?;
    match ty {
        "ZonedDateTime" => zdt(m, a),
        "Duration" => dur(m, a),
        "Instant" => inst(m, a),
        "PlainDateTime" => pdt(m, a),
        "RelativeTo" => relto(m, a),
        _ => None,
    }
}

fn zdt(m: &str, a: &Value) -> Option<Value> {
    let z = || a_zdt(&a["recv"]);
    Some(match m {
        "year" => run(|| z()?.year(), ji),
        "month" => run(|| z()?.month(), ji),
        "month_code" => run(|| z()?.month_code(), |c| json!(c.as_str())),
        "day" => run(|| z()?.day(), ji),
        "hour" => run(|| z()?.hour(), ji),
        "minute" => run(|| z()?.minute(), ji),
        "second" => run(|| z()?.second(), ji),
        "millisecond" => run(|| z()?.millisecond(), ji),
        "microsecond" => run(|| z()?.microsecond(), ji),
        "nanosecond" => run(|| z()?.nanosecond(), ji),
        "offset" => run(|| z()?.offset(), js_),
        "offset_nanoseconds" => run(|| z()?.offset_nanoseconds(), j_i64),
        "era" => run(|| z()?.era(), j_era),
        "era_year" => run(|| z()?.era_year(), jo),
        "day_of_week" => run(|| z()?.day_of_week(), ji),
        "day_of_year" => run(|| z()?.day_of_year(), ji),
        "week_of_year" => run(|| z()?.week_of_year(), jo),
        "year_of_week" => run(|| z()?.year_of_week(), jo),
        "days_in_week" => run(|| z()?.days_in_week(), ji),
        "days_in_month" => run(|| z()?.days_in_month(), ji),
        "days_in_year" => run(|| z()?.days_in_year(), ji),
        "months_in_year" => run(|| z()?.months_in_year(), ji),
        "in_leap_year" => run(|| z()?.in_leap_year(), jb),
        "hours_in_day" => run(|| z()?.hours_in_day(), ji),
        "get_time_zone_transition" => run(|| z()?.get_time_zone_transition(dir_name(js::s(a, "dir"))), j_ozdt),
        "with_plain_time" => run(|| z()?.with_plain_time(a_time(&a["time"])?), j_zdt),
        "add" => run(|| z()?.add(&a_dur(&a["dur"])?, a_ovf_opt(a)), j_zdt),
        "subtract" => run(|| z()?.subtract(&a_dur(&a["dur"])?, a_ovf_opt(a)), j_zdt),
        "since" => run(|| z()?.since(&a_zdt(&a["other"])?, a_settings(&a["st"])?), j_dur),
        "until" => run(|| z()?.until(&a_zdt(&a["other"])?, a_settings(&a["st"])?), j_dur),
        "start_of_day" => run(|| z()?.start_of_day(), j_zdt),
        "to_plain_date" => run(|| z()?.to_plain_date(), j_date),
        "to_plain_time" => run(|| z()?.to_plain_time(), j_time),
        "to_plain_datetime" => run(|| z()?.to_plain_datetime(), j_dt),
        "to_ixdtf_string" => run(|| z()?.to_ixdtf_string(doff_name(js::s(a, "doff")), dtz_name(js::s(a, "dtz")), dcal_name(js::s(a, "dcal")), a_tsro(&a["opts"])), js_),
        "from_str" => run(|| ZonedDateTime::from_str(js::s(a, "src"), disamb_name(js::s(a, "dis")), offdis_name(js::s(a, "offopt"))), j_zdt),
        // the Display implementation of the compiled API
        "to_string" => run(|| Ok(z()?.to_string()), js_),
        _ => return None,
    })
}

fn dur(m: &str, a: &Value) -> Option<Value> {
    let d = || a_dur(&a["recv"]);
    Some(match m {
        "round" => run(|| d()?.round(a_rounding(&a["opts"])?, a_relto(&a["rel"])?), j_dur),
        "compare" => run(|| d()?.compare(&a_dur(&a["other"])?, a_relto(&a["rel"])?), |o| p_ord(*o)),
        "total" => run(|| d()?.total(unit_name(js::s(a, "unit")), a_relto(&a["rel"])?), |f| j_f64(f.as_inner())),
        _ => return None,
    })
}

fn inst(m: &str, a: &Value) -> Option<Value> {
    Some(match m {
        "to_ixdtf_string" => run(|| {
            let tz = match js::opt_s(a, "tz") { Some(s) => Some(a_tz(s)?), None => None };
            a_inst(&a["recv"])?.to_ixdtf_string(tz.as_ref(), a_tsro(&a["opts"]))
        }, js_),
        _ => return None,
    })
}

fn pdt(m: &str, a: &Value) -> Option<Value> {
    Some(match m {
        "to_zoned_date_time" => run(|| a_dt(&a["recv"])?.to_zoned_date_time(&a_tz(js::s(a, "tz"))?, disamb_name(js::s(a, "dis"))), j_zdt),
        _ => return None,
    })
}

fn relto(m: &str, a: &Value) -> Option<Value> {
    Some(match m {
        "try_from_str" => run(|| RelativeTo::try_from_str(js::s(a, "src")), j_relto),
        _ => return None,
    })
}

pub fn j_relto(r: &RelativeTo) -> Value {
    match r { RelativeTo::PlainDate(d) => json!({"date": j_date(d)}), RelativeTo::ZonedDateTime(z) => json!({"zdt": j_zdt(z)}) }
}
