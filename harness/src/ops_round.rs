//! The increment rounder through the verification hook (C07).
use crate::js::{self, big, int};
use crate::proj::*;
use serde_json::{json, Value};

pub fn exec(op: &str, a: &Value) -> Option<Value> {
    Some(match op {
        "Round.i128" => run_inf(|| temporal_rs::verif::round_i128(num(&a["x"]), num(&a["inc"]) as u128, arg_mode(js::s(a, "mode"))),
                                |r| match r { Some(v) => big(*v), None => json!("none") }),
        // the value x2/2 (a half-integer) in the f64 instantiation
        "Round.f64" => run_inf(|| temporal_rs::verif::round_f64(js::i(a, "x2") as f64 / 2.0, num(&a["inc"]) as u128, arg_mode(js::s(a, "mode"))),
                               |r| match r { Some(v) => big(*v), None => json!("none") }),
        _ => return None,
    })
}
