SPECIFICATION Spec
CONSTANTS
  YmRoutes <- NoSet
  MdRoutes <- NoSet
  CmpRoutes <- NoSet
  MdCmpRoutes <- NoSet
  Receivers <- QReceivers
  Others <- QOthers
  DurSet <- QDurSet
  Settings <- QSettings
  OneStep = TRUE
INVARIANTS Canonical ExplicitKept ValuesInLimits EqualFieldsEqualValue MdEqualFieldsEqualValue StringsHideReference AddAsDateArithmetic AddInverse UnitsRefused DiffLaws MonthDayDays
CHECK_DEADLOCK FALSE
