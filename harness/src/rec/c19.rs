//! C19 sessions (seeded driver): random receivers and arguments over the full-size domains, one pairwise
//! wrapper-vs-core event per call: `{op: "Wrap.<row>", args: {twin, recv?, ...}, out: {wrapper: outcome, core: outcome}}`.
//! The pairing (row -> twin) and the argument shape come from the table below, a copy of the method table of
//! spec/Wrappers.tla that the trace spec re-checks on every event.
use super::Tracer;
use crate::gen::*;
use crate::js::big;
use crate::rng::Rng;
use serde_json::{json, Map, Value};

const TABLE: &[(&str, &str, &str, &str)] = &include!("c19_table.in");

const UNITS: [&str; 11] = ["auto", "nanosecond", "microsecond", "millisecond", "second", "minute", "hour", "day", "week", "month", "year"];
const MODES: [&str; 9] = ["ceil", "floor", "expand", "trunc", "halfCeil", "halfFloor", "halfExpand", "halfTrunc", "halfEven"];
const CALS: [&str; 6] = ["hebrew", "japanese", "gregory", "buddhist", "roc", "coptic"];
// named zones are sampled between 1900 and 2035 only: later instants hit the provider's known post-2037 failure,
// which panics while the process-wide provider lock is held (C15/C03/C20 subjects, not C19's)
// (44 zones, revisited at random: the process-wide provider behind the compiled-data wrappers keeps per-zone state across calls - more zones than a
// small cache holds - while the core twin gets a fresh provider per call)
const ZONES: [&str; 44] = ["America/New_York", "Europe/London", "Asia/Kolkata", "Australia/Lord_Howe", "Asia/Tokyo", "America/Sao_Paulo",
    "Africa/Cairo", "Pacific/Apia", "Europe/Amsterdam", "America/St_Johns",
    "Europe/Berlin", "Europe/Paris", "Europe/Moscow", "Asia/Shanghai", "Asia/Kathmandu", "Asia/Tehran", "Asia/Dubai", "Asia/Seoul", "Asia/Singapore", "Asia/Jakarta", "Asia/Karachi", "Asia/Dhaka", "Africa/Johannesburg", "Africa/Lagos", "Africa/Nairobi", "Africa/Casablanca", "America/Chicago",
    "America/Denver", "America/Los_Angeles", "America/Anchorage", "America/Mexico_City", "America/Bogota", "America/Argentina/Buenos_Aires", "America/Santiago", "America/Caracas", "America/Halifax", "Pacific/Auckland", "Pacific/Honolulu", "Pacific/Chatham", "Pacific/Kiritimati", "Australia/Sydney", "Australia/Adelaide", "Atlantic/Reykjavik", "Europe/Dublin"];

fn off_str(off: i64) -> String { format!("{}{:02}:{:02}", if off < 0 { "-" } else { "+" }, off.abs() / 3600, off.abs() % 3600 / 60) }
fn subns(r: &mut Rng) -> i64 { match r.range(0, 4) { 0 => 0, 1 => 999_999_999, 2 => r.range(0, 999) * 1_000_000 + r.range(0, 999) * 1000 + r.range(0, 999), _ => r.range(0, 999_999_999) } }
fn maybe_cal(r: &mut Rng, v: &mut Value, den: u64) { if r.chance(1, den) { v["cal"] = json!(*r.pick(&CALS)); } }

fn g_zdt(r: &mut Rng) -> Value {
    let mut v = if r.chance(2, 3) {
        let off = r.range(-1439, 1439) * 60;
        let day = any_day(r).clamp(-100_000_000, 99_999_999);
        json!({"day": day, "sec": r.range(0, 86_399), "ns": subns(r), "tz": off_str(off), "off": off})
    } else if r.chance(1, 6) {
        json!({"day": r.range(-25_000, 24_000), "sec": r.range(0, 86_399), "ns": subns(r), "tz": "UTC", "off": 0})
    } else {
        json!({"day": r.range(-25_000, 24_000), "sec": r.range(0, 86_399), "ns": subns(r), "tz": *r.pick(&ZONES)})
    };
    maybe_cal(r, &mut v, 12);
    v
}
fn g_date(r: &mut Rng) -> Value {
    if r.chance(1, 8) { return json!({"y": r.range(1900, 2100), "m": r.range(1, 12), "d": r.range(1, 28), "cal": *r.pick(&CALS)}); }
    date_json(any_day(r))
}
fn g_time(r: &mut Rng) -> Value { json!({"h": r.range(0, 23), "mi": r.range(0, 59), "s": r.range(0, 59), "ms": r.range(0, 999), "us": r.range(0, 999), "ns": r.range(0, 999)}) }
fn merge(a: &Value, b: &Value) -> Value { let mut m: Map<String, Value> = a.as_object().unwrap().clone(); for (k, v) in b.as_object().unwrap() { m.insert(k.clone(), v.clone()); } Value::Object(m) }
fn g_dt(r: &mut Rng) -> Value { let d = g_date(r); merge(&d, &g_time(r)) }
fn g_dur(r: &mut Rng, date_units: bool, time_units: bool) -> Value {
    let sg: i128 = if r.chance(1, 2) { 1 } else { -1 };
    let mut f = |on: bool, small: i64, big_: i64| -> i128 { if !on { return 0; } sg * (match r.range(0, 5) { 0 | 1 => 0, 2 | 3 => r.range(0, small), _ => r.range(0, big_) }) as i128 };
    let (y, mo, w, d) = (f(date_units, 5, 3000), f(date_units, 30, 40_000), f(date_units, 10, 100_000), f(date_units, 60, 1_000_000));
    let (h, mi, s, ms, us, ns) = (f(time_units, 50, 1_000_000), f(time_units, 200, 10_000_000), f(time_units, 5000, 1_000_000_000), f(time_units, 5000, 2_000_000_000), f(time_units, 5000, 2_000_000_000), f(time_units, 5000, 2_000_000_000));
    dur10(y, mo, w, d, h, mi, s, ms, us, ns)
}
fn g_inst(r: &mut Rng) -> Value {
    match r.range(0, 7) {
        0 => json!({"day": 100_000_000, "sec": 0, "ns": 0}),
        1 => json!({"day": -100_000_000, "sec": 0, "ns": 0}),
        2 => json!({"day": r.range(-213_510, -1), "sec": r.range(0, 86_399), "ns": subns(r)}),      // around and above -2^64 ns
        3 => json!({"day": r.range(-3, 3), "sec": r.range(0, 86_399), "ns": subns(r)}),
        _ => json!({"day": any_day(r).clamp(-100_000_000, 99_999_999), "sec": r.range(0, 86_399), "ns": subns(r)}),
    }
}
fn g_ym(r: &mut Rng) -> Value { let mut v = json!({"y": match r.range(0, 3) { 0 => r.range(-271_000, 275_000), _ => r.range(-50, 3000) }, "m": r.range(1, 12)}); if r.chance(1, 8) { v = json!({"y": r.range(1900, 2100), "m": r.range(1, 12), "cal": *r.pick(&CALS)}); } v }
fn g_md(r: &mut Rng) -> Value { let mut v = json!({"m": r.range(1, 12), "d": r.range(1, 28)}); if r.chance(1, 3) { v["y"] = json!(r.range(1900, 2100)); } maybe_cal(r, &mut v, 8); v }
fn g_cal(r: &mut Rng) -> Value { if r.chance(1, 2) { json!("iso8601") } else { json!(*r.pick(&CALS)) } }
fn g_seq(r: &mut Rng, n: usize) -> Value {
    let sg: i64 = match r.range(0, 5) { 0 => 0, 1 | 2 => -1, _ => 1 };
    let mixed = r.chance(1, 8);
    Value::Array((0..n).map(|_| { let s = if mixed && r.chance(1, 2) { -sg } else { sg }; json!(s * match r.range(0, 3) { 0 => 0, 1 => r.range(0, 60), _ => r.range(0, 2_000_000) }) }).collect())
}
fn g_recv(r: &mut Rng, ty: &str) -> Value {
    match ty { "zdt" => g_zdt(r), "date" => g_date(r), "dt" => g_dt(r), "time" => g_time(r), "dur" => g_dur(r, true, true), "inst" => g_inst(r), "ym" => g_ym(r), "md" => g_md(r),
        "cal" => g_cal(r), "tdur" => g_seq(r, 6), "ddur" => g_seq(r, 4), _ => panic!("receiver type {}", ty) }
}
fn g_other(r: &mut Rng, ty: &str, recv: &Value) -> Value {
    let mut o = g_recv(r, ty);
    // mostly the same calendar / zone as the receiver (otherwise the difference is refused early)
    if let Some(c) = recv.get("cal") { if r.chance(5, 6) { if ty == "date" || ty == "dt" || ty == "ym" { o = g_recv_cal(r, ty, c.as_str().unwrap()); } else { o["cal"] = c.clone(); } } } else if o.get("cal").is_some() && r.chance(5, 6) { o.as_object_mut().unwrap().remove("cal"); if ty != "zdt" { o = loop { let c = g_recv(r, ty); if c.get("cal").is_none() { break c; } }; } }
    if ty == "zdt" && r.chance(1, 2) { o["tz"] = recv["tz"].clone(); match recv.get("off") { Some(x) => { o["off"] = x.clone(); } None => { o.as_object_mut().unwrap().remove("off"); o["day"] = json!(r.range(-25_000, 24_000)); } } }
    o
}
fn g_recv_cal(r: &mut Rng, ty: &str, cal: &str) -> Value {
    let mut v = match ty { "ym" => json!({"y": r.range(1900, 2100), "m": r.range(1, 12)}), _ => json!({"y": r.range(1900, 2100), "m": r.range(1, 12), "d": r.range(1, 28)}) };
    if ty == "dt" { v = merge(&v, &g_time(r)); }
    v["cal"] = json!(cal);
    v
}
fn g_st(r: &mut Rng) -> Value {
    let mut st = json!({});
    if r.chance(2, 3) { st["largest"] = json!(*r.pick(&UNITS)); }
    if r.chance(1, 2) { st["smallest"] = json!(*r.pick(&UNITS)); }
    if r.chance(1, 3) { st["inc"] = json!(*r.pick(&[0i64, 1, 2, 5, 15, 30, 100, 1000, 1_000_000_001])); }
    if r.chance(1, 2) || st.as_object().unwrap().is_empty() { st["mode"] = json!(*r.pick(&MODES)); }
    st
}
fn g_tsro(r: &mut Rng) -> Value {
    let mut o = match r.range(0, 3) { 0 => json!({"precision": "auto"}), 1 => json!({"precision": "minute"}), _ => json!({"precision": r.range(0, 9)}) };
    if r.chance(1, 3) { o["smallest"] = json!(*r.pick(&["minute", "second", "millisecond", "microsecond", "nanosecond", "hour"])); }
    if r.chance(1, 3) { o["mode"] = json!(*r.pick(&MODES)); }
    o
}
fn g_pdate(r: &mut Rng) -> Value {
    let mut p = json!({});
    if r.chance(2, 3) { p["year"] = json!(r.range(-3000, 3000)); }
    match r.range(0, 5) { 0 => {} 1 => { p["month_code"] = json!(if r.chance(1, 8) { (*r.pick(&["M1", "X05", "M5L", "m03", "M123", "M0AL", "13"])).to_string() } else { format!("M{:02}{}", r.range(1, 13), if r.chance(1, 10) { "L" } else { "" }) }); } 2 => { let m = r.range(1, 12); p["month"] = json!(m); p["month_code"] = json!(format!("M{:02}", if r.chance(3, 4) { m } else { r.range(1, 12) })); } _ => { p["month"] = json!(r.range(0, 14)); } }
    if r.chance(2, 3) { p["day"] = json!(r.range(0, 33)); }
    if r.chance(1, 12) { p["era"] = json!(*r.pick(&["ce", "bce", "heisei", "xx"])); p["era_year"] = json!(r.range(1, 2100)); p["cal"] = json!(*r.pick(&["gregory", "japanese"])); }
    // half-supplied era information: an era without an era year, an era year without an era (the core rejects both)
    if r.chance(1, 14) { p["era_year"] = json!(r.range(1, 2100)); if r.chance(1, 2) { p["cal"] = json!(*r.pick(&["gregory", "japanese", "iso8601"])); } }
    else if r.chance(1, 14) { p["era"] = json!(*r.pick(&["ce", "bce", "heisei"])); if r.chance(1, 2) { p["cal"] = json!(*r.pick(&["gregory", "japanese"])); } }
    if p.as_object().unwrap().is_empty() || r.chance(1, 10) { if p.get("cal").is_none() { p["cal"] = json!("iso8601"); } }
    p
}
fn g_ptime(r: &mut Rng) -> Value {
    let mut p = json!({});
    for (k, hi) in [("hour", 25), ("minute", 61), ("second", 61), ("millisecond", 1001), ("microsecond", 1001), ("nanosecond", 1001)] { if r.chance(1, 2) { p[k] = json!(if r.chance(1, 12) { hi } else { r.range(0, hi - 2) }); } }
    if p.as_object().unwrap().is_empty() { p["empty"] = json!(true); }
    p
}
fn g_pdur(r: &mut Rng, finite: bool) -> Value {
    let mut p = json!({});
    let sg: i64 = if r.chance(1, 2) { 1 } else { -1 };
    for k in ["years", "months", "weeks", "days", "hours", "minutes", "seconds", "milliseconds", "microseconds", "nanoseconds"] { if r.chance(1, 3) { p[k] = json!(if r.chance(1, 15) { -sg } else { sg } * r.range(0, 5000)); } }
    if p.as_object().unwrap().is_empty() { p["empty"] = json!(true); }
    else if !finite && r.chance(1, 10) { let k = *r.pick(&["years", "hours", "nanoseconds"]); p[k] = json!(0); p["special"] = json!({"key": k, "val": *r.pick(&["NaN", "inf", "-inf"])}); }
    p
}
fn g_ovf_opt(r: &mut Rng, a: &mut Value) { match r.range(0, 2) { 0 => {} 1 => { a["ovf"] = json!("constrain"); } _ => { a["ovf"] = json!("reject"); } } }
fn g_ovf(r: &mut Rng, a: &mut Value) { a["ovf"] = json!(if r.chance(1, 2) { "constrain" } else { "reject" }); }
fn g_rel(r: &mut Rng, a: &mut Value) { match r.range(0, 3) { 0 => {} 1 => { a["rel"] = json!({"date": date_json(r.range(-40_000, 40_000))}); } _ => { a["rel"] = json!({"zdt": g_zdt(r)}); } } }
fn g_fdate(r: &mut Rng) -> Value {
    let mut v = match r.range(0, 4) { 0 => json!({"y": r.range(-271_821, 275_760), "m": r.range(0, 14), "d": r.range(0, 33)}), 1 => json!({"y": *r.pick(&[-271_821i64, 275_760]), "m": r.range(3, 10), "d": r.range(10, 22)}), _ => date_json(any_day(r)) };
    maybe_cal(r, &mut v, 10);
    v
}
fn g_ftime(r: &mut Rng) -> Value { if r.chance(3, 4) { g_time(r) } else { json!({"h": r.range(0, 25), "mi": r.range(0, 61), "s": r.range(0, 61), "ms": r.range(0, 1001), "us": r.range(0, 1001), "ns": r.range(0, 1001)}) } }
fn ems(i: &Value) -> i128 { (i["day"].as_i64().unwrap() as i128 * 86_400 + i["sec"].as_i64().unwrap() as i128) * 1000 + (i["ns"].as_i64().unwrap() / 1_000_000) as i128 }
fn tz_any(r: &mut Rng) -> String { if r.chance(1, 2) { off_str(r.range(-1439, 1439) * 60) } else if r.chance(1, 6) { "UTC".into() } else { (*r.pick(&ZONES)).to_string() } }
fn special_at(r: &mut Rng, a: &mut Value, n: i64) { if r.chance(1, 10) { a["special"] = json!({"at": r.range(1, n), "val": *r.pick(&["NaN", "inf", "-inf"])}); } }

const ENUMS: &[(&str, &[&str])] = &[
    ("Unit", &["Auto", "Nanosecond", "Microsecond", "Millisecond", "Second", "Minute", "Hour", "Day", "Week", "Month", "Year"]),
    ("RoundingMode", &["Ceil", "Floor", "Expand", "Trunc", "HalfCeil", "HalfFloor", "HalfExpand", "HalfTrunc", "HalfEven"]),
    ("UnsignedRoundingMode", &["Infinity", "Zero", "HalfInfinity", "HalfZero", "HalfEven"]),
    ("ArithmeticOverflow", &["Constrain", "Reject"]), ("DurationOverflow", &["Constrain", "Balance"]),
    ("Disambiguation", &["Compatible", "Earlier", "Later", "Reject"]), ("OffsetDisambiguation", &["Use", "Prefer", "Ignore", "Reject"]),
    ("DisplayCalendar", &["Auto", "Always", "Never", "Critical"]), ("DisplayOffset", &["Auto", "Never"]), ("DisplayTimeZone", &["Auto", "Never", "Critical"]),
    ("Sign", &["Positive", "Zero", "Negative"]), ("ErrorKind", &["Generic", "Type", "Range", "Syntax", "Assert"]),
    ("AnyCalendarKind", &["Buddhist", "Chinese", "Coptic", "Dangi", "Ethiopian", "EthiopianAmeteAlem", "Gregorian", "Hebrew", "Indian", "IslamicCivil", "IslamicObservational",
        "IslamicTabular", "IslamicUmmAlQura", "Iso", "Japanese", "JapaneseExtended", "Persian", "Roc"]),
];

// local date-times inside (or next to) DST gaps and overlaps of named zones, where the disambiguation option decides
const EDGES: [(&str, i64, i64, i64, i64, i64); 12] = [
    ("America/New_York", 2021, 3, 14, 2, 30), ("America/New_York", 2021, 11, 7, 1, 30), ("Europe/London", 2021, 3, 28, 1, 30), ("Europe/London", 2021, 10, 31, 1, 30),
    ("Australia/Lord_Howe", 2021, 10, 3, 2, 15), ("Australia/Lord_Howe", 2021, 4, 4, 1, 45), ("America/Sao_Paulo", 2018, 11, 4, 0, 30), ("America/Sao_Paulo", 2018, 2, 17, 23, 30),
    ("America/St_Johns", 2021, 3, 14, 2, 30), ("America/St_Johns", 2021, 11, 7, 1, 30), ("Africa/Cairo", 2023, 4, 28, 0, 30), ("Africa/Cairo", 2023, 10, 26, 23, 30),
];

fn zsrc(r: &mut Rng) -> String {
    if r.chance(1, 4) {
        let e = r.pick(&EDGES);
        let off = match r.range(0, 3) { 0 => String::new(), 1 => off_str(r.range(-5, 3) * 3600), 2 => off_str(r.range(-4, 2) * 3600 - 1800), _ => "Z".into() };
        return format!("{:04}-{:02}-{:02}T{:02}:{:02}:{:02}{}[{}]", e.1, e.2, e.3, e.4, e.5, r.range(0, 59), off, e.0);
    }
    if r.chance(1, 10) { return (*r.pick(&["garbage", "2021-03-09T13:14:15", "2021-03-09T13:14:15+01:00", ""])).to_string(); }
    let n = r.range(-25_000, 24_000);
    let (y, m, d) = civil(n);
    let (h, mi, s) = (r.range(0, 23), r.range(0, 59), r.range(0, 59));
    let frac = if r.chance(1, 2) { format!(".{:09}", r.range(0, 999_999_999)) } else { String::new() };
    let tz = tz_any(r);
    let off = match r.range(0, 3) { 0 => String::new(), 1 => "Z".into(), 2 => off_str(r.range(-12, 14) * 3600), _ => if tz.starts_with('+') || tz.starts_with('-') { tz.clone() } else { off_str(r.range(-5, 5) * 3600) } };
    let cal = if r.chance(1, 8) { format!("[u-ca={}]", *r.pick(&["hebrew", "iso8601", "gregory", "nope"])) } else { String::new() };
    format!("{:04}-{:02}-{:02}T{:02}:{:02}:{:02}{}{}[{}]{}", y, m, d, h, mi, s, frac, off, tz, cal)
}

fn args_for(r: &mut Rng, ty: &str, sig: &str) -> Value {
    let mut a = json!({});
    if ty != "none" { a["recv"] = g_recv(r, ty); }
    let recv = a.get("recv").cloned().unwrap_or(Value::Null);
    match sig {
        "recv" => {}
        // transitions of named zones are "Not yet implemented" in the bundled provider (out of scope): offset zones only
        "recv+dir" => { while a["recv"].get("off").is_none() || a["recv"]["tz"] == "UTC" { a["recv"] = g_zdt(r); } a["dir"] = json!(if r.chance(1, 2) { "next" } else { "previous" }); }
        "recv+time" => { a["time"] = g_time(r); }
        "recv+time?" => { if r.chance(2, 3) { a["time"] = g_time(r); } }
        "recv+dur+ovf?" => { a["dur"] = if ty == "zdt" && r.chance(1, 2) { g_dur(r, false, true) } else { { let tu = r.chance(1, 2); g_dur(r, true, tu) } }; g_ovf_opt(r, &mut a); }
        "recv+dur+ovf" => { let tu = r.chance(1, 4); a["dur"] = g_dur(r, true, tu); g_ovf(r, &mut a); }
        "recv+dur" => { let du = r.chance(1, 6); a["dur"] = g_dur(r, du, true); }
        "recv+tdur" => { a["tdur"] = g_seq(r, 6); }
        "recv+other+st" => { a["other"] = g_other(r, ty, &recv); a["st"] = g_st(r); }
        "recv+zdisplay" => { a["doff"] = json!(*r.pick(&["auto", "never"])); a["dtz"] = json!(*r.pick(&["auto", "never", "critical"])); a["dcal"] = json!(*r.pick(&["auto", "always", "never", "critical"])); a["opts"] = g_tsro(r); }
        "zsrc" => { a["src"] = json!(zsrc(r)); a["dis"] = json!(*r.pick(&["compatible", "earlier", "later", "reject"])); a["offopt"] = json!(*r.pick(&["use", "prefer", "ignore", "reject"])); }
        "recv+ropts+rel" => { a["opts"] = g_st(r); g_rel(r, &mut a); }
        "recv+otherdur+rel" => { a["other"] = g_dur(r, true, true); g_rel(r, &mut a); }
        "recv+otherdur" => { let du = r.chance(1, 2); a["other"] = g_dur(r, du, true); }
        "recv+unit+rel" => { a["unit"] = json!(*r.pick(&UNITS[1..])); g_rel(r, &mut a); }
        "recv+tz?+tsro" => { if r.chance(3, 4) { let named_ok = recv["day"].as_i64().unwrap() < 24_000 && recv["day"].as_i64().unwrap() > -25_000; a["tz"] = json!(if named_ok { tz_any(r) } else { off_str(r.range(-1439, 1439) * 60) }); } a["opts"] = g_tsro(r); }
        "recv+tz+dis" if r.chance(1, 3) => { let e = *r.pick(&EDGES); a["recv"] = merge(&json!({"y": e.1, "m": e.2, "d": e.3}), &g_time(r)); a["recv"]["h"] = json!(e.4); a["recv"]["mi"] = json!(e.5);
            a["tz"] = json!(e.0); a["dis"] = json!(*r.pick(&["compatible", "earlier", "later", "reject"])); }
        "recv+tz+dis" => { let n = days_from_civil(recv["y"].as_i64().unwrap(), recv["m"].as_i64().unwrap().clamp(1, 12), recv["d"].as_i64().unwrap().clamp(1, 28)); let named_ok = recv.get("cal").is_some() || (n < 24_000 && n > -25_000);
            a["tz"] = json!(if named_ok && recv.get("cal").is_none() { tz_any(r) } else { off_str(r.range(-1439, 1439) * 60) }); a["dis"] = json!(*r.pick(&["compatible", "earlier", "later", "reject"])); }
        "relsrc" => { a["src"] = json!(if r.chance(1, 3) { let (y, m, d) = civil(r.range(-25_000, 24_000)); format!("{:04}-{:02}-{:02}", y, m, d) } else { zsrc(r) }); }
        "fdate" => { a["f"] = g_fdate(r); }
        "fdate+ovf" => { a["f"] = g_fdate(r); g_ovf(r, &mut a); }
        "pdate+ovf?" => { a["partial"] = g_pdate(r); g_ovf_opt(r, &mut a); }
        "recv+pdate+ovf?" => { a["partial"] = g_pdate(r); g_ovf_opt(r, &mut a); }
        "recv+pdate+ovf" => { a["partial"] = g_pdate(r); g_ovf(r, &mut a); }
        "recv+cal" => { a["cal"] = json!(*r.pick(&["iso8601", "gregory", "hebrew", "japanese", "nope", "buddhist"])); }
        "recv+dcal" => { a["dcal"] = json!(*r.pick(&["auto", "always", "never", "critical"])); }
        "fdt" => { let d = g_fdate(r); a["f"] = merge(&d, &g_ftime(r)); }
        "pdt+ovf?" | "recv+pdt+ovf?" => { a["partial"] = json!({"date": g_pdate(r), "time": g_ptime(r)}); g_ovf_opt(r, &mut a); }
        "recv+ropts" => { a["opts"] = g_st(r); }
        "recv+tsro+dcal" => { a["opts"] = g_tsro(r); a["dcal"] = json!(*r.pick(&["auto", "always", "never", "critical"])); }
        "recv+tsro" => { a["opts"] = g_tsro(r); }
        "ftime" => { a["f"] = g_ftime(r); }
        "ptime+ovf?" | "recv+ptime+ovf?" => { a["partial"] = g_ptime(r); g_ovf_opt(r, &mut a); }
        "recv+unit+inc?+mode?" => { a["unit"] = json!(*r.pick(&UNITS)); if r.chance(1, 2) { a["inc"] = json!(*r.pick(&[1i64, 2, 5, 7, 15, 30, 60, 100, 500, 1000])); } if r.chance(1, 2) { a["mode"] = json!(*r.pick(&MODES)); } }
        "fdur" => { a["f"] = g_seq(r, 10); special_at(r, &mut a, 10); }
        "day+ftdur" => { a["day"] = json!(r.range(-1000, 1000)); a["time"] = g_seq(r, 6); if r.chance(1, 10) { a["special"] = json!({"val": *r.pick(&["NaN", "inf", "-inf"])}); } }
        "pdur" => { a["partial"] = g_pdur(r, false); }
        "pdur-finite" => { a["partial"] = g_pdur(r, true); }
        "ftdur" => { a["f"] = g_seq(r, 6); special_at(r, &mut a, 6); }
        "fddur" => { a["f"] = g_seq(r, 4); special_at(r, &mut a, 4); }
        // try_new: only values expressible as the FFI's sign-and-magnitude (high, low) pair (not -2^64 < ns < 0)
        "ns" => { a["ns"] = loop { let i = g_inst(r); let n = crate::ops_wrap::ens(&i); if n >= 0 || n <= -(1i128 << 64) { break i; } }; if r.chance(1, 10) { a["ns"] = json!({"day": *r.pick(&[100_000_000i64, -100_000_001]), "sec": r.range(0, 86_399), "ns": r.range(1, 999_999_999)}); } }
        "ms" => { let i = g_inst(r); let mut m = ems(&i); if r.chance(1, 10) { m = *r.pick(&[8_640_000_000_000_001i128, -8_640_000_000_000_001, 9_000_000_000_000_000_000, -9_000_000_000_000_000_000]); } a["ms"] = big(m); }
        "fym+ovf" => { a["f"] = json!({"y": r.range(-271_821, 275_760), "m": r.range(0, 14)}); if r.chance(1, 3) { a["f"]["rd"] = json!(r.range(0, 32)); } maybe_cal(r, &mut a["f"], 10); g_ovf(r, &mut a); }
        "fmd+ovf" => { a["f"] = json!({"m": r.range(0, 14), "d": r.range(0, 33)}); if r.chance(1, 2) { a["f"]["y"] = json!(r.range(1800, 2200)); } maybe_cal(r, &mut a["f"], 10); g_ovf(r, &mut a); }
        "recv+date" => { a["date"] = date_json(any_day(r)); }
        "recv+date+dur+ovf" => { a["date"] = date_json(any_day(r)); let tu = r.chance(1, 4); a["dur"] = g_dur(r, true, tu); g_ovf(r, &mut a); }
        "recv+date+other+unit" => { a["date"] = date_json(any_day(r)); a["other"] = date_json(any_day(r)); a["unit"] = json!(*r.pick(&UNITS)); }
        "kind" => { a["kind"] = json!(*r.pick(ENUMS[12].1)); }
        "calsrc" => { a["src"] = json!(*r.pick(&["iso8601", "ISO8601", "gregory", "hebrew", "japanese", "islamic-civil", "islamicc", "nope", "", "Gregory", "iso"])); }
        "kindsrc" => { a["src"] = json!(*r.pick(&["iso", "gregory", "hebrew", "islamicc", "islamic-civil", "islamic", "islamic-tbla", "islamic-umalqura", "nope", "japanext", "japanese", "iso8601", "ethioaa", "ethiopic", "roc", "persian", "indian", "dangi", "coptic", "chinese", "buddhist", "Hebrew", ""])); }
        s if s.starts_with("variant:") => { let e = ENUMS.iter().find(|x| x.0 == &s[8..]).expect("enum"); a["variant"] = json!(*r.pick(e.1)); }
        _ => panic!("argument shape {}", sig),
    }
    a
}

pub fn drive(t: &mut Tracer, r: &mut Rng, n: usize) {
    let mut k = 0usize;
    while t.n < n {
        // every row in turn (so that every row is exercised in every run), in a seeded random order per sweep
        let mut order: Vec<usize> = (0..TABLE.len()).collect();
        for i in (1..order.len()).rev() { let j = r.range(0, i as i64) as usize; order.swap(i, j); }
        for &ri in &order {
            if t.n >= n { break; }
            let (row, twin, ty, sig) = TABLE[ri];
            let mut args = args_for(r, ty, sig);
            args["twin"] = json!(twin);
            t.call(&format!("Wrap.{}", row), args);
            // a wrapper panicked where its core twin did not: the shared provider lock is poisoned, nothing further can be compared
            if temporal_rs::verif::provider_lock_poisoned() { return; }
            k += 1;
            if k % 60 == 0 { t.reset(); }
        }
    }
}
