--------------------------- MODULE Trace_Wrappers ---------------------------
(* impl -> spec for C19: every logged pairwise event                                              *)
(*   {op: "Wrap.<row>", args: {twin, recv?, ...}, out: {wrapper: outcome, core: outcome}}         *)
(* must be a step of Wrappers: the row exists in the method table, the driver paired it with the  *)
(* table's twin, the two outcomes are equal (value AND error kind) and - where the specification  *)
(* computes the result (fixed-offset / UTC zones, ISO calendar) - equal to the spec's value.      *)
(* MISMATCH lines carry cls = the method-table row name (refined by ClsOf).                       *)
EXTENDS Wrappers, TraceBase

VARIABLE l
NoPool(sig, c) == <<>>
tvars == <<cur, last, l>>
E == Rec[l]

OutcomeKinds == {"ok", "type", "range", "syntax", "generic", "assert", "panic"}
SameOutcome(a, b) == a.kind = b.kind /\ a.kind \in OutcomeKinds /\ (a.kind # "ok" \/ a.val = b.val)
OpNames == {"Wrap." \o n : n \in RowNames}
RowByOp == [o \in OpNames |-> CHOOSE r \in Table : "Wrap." \o r.name = o]
KnownOp(e) == e.op \in OpNames

\* a panic of the core function itself is C03's subject: the wrapper is then not run (it would poison the shared lock)
BothPanic(e) == e.out.core.kind = "panic" /\ e.out.wrapper.kind = "panic"
Verdict(e) ==
  LET row == RowByOp[e.op]
      exp == Expected(row, e.args)
      paired == e.args.twin = row.twin
      wc == SameOutcome(e.out.wrapper, e.out.core)
      ws == exp.kind = "same" \/ BothPanic(e) \/ SameOutcome(e.out.wrapper, exp)
  IN [ok |-> paired /\ wc /\ ws,
      why |-> IF ~paired THEN "driver-paired-wrong-twin" ELSE IF ~wc THEN "wrapper!=core" ELSE "wrapper=core!=spec",
      exp |-> exp, cls |-> ClsOf(row, e.args)]

\* TLC register 1 counts the events on which the specification claimed a value (non-vacuity, printed at the end)
TInit == l = 1 /\ cur = [t |-> "none"] /\ last = None /\ TLCSet(1, 0) /\ TLCSet(2, 0)
Reset == E.op = "reset" /\ UNCHANGED <<cur, last>>
Match == /\ E.op # "reset" /\ KnownOp(E) /\ Verdict(E).ok
         /\ IF Verdict(E).exp.kind = "same" THEN TLCSet(2, TLCGet(2) + 1) ELSE TLCSet(1, TLCGet(1) + 1)
         /\ cur' = cur /\ last' = [op |-> E.op]
Mismatch == /\ E.op # "reset"
            /\ ~(KnownOp(E) /\ Verdict(E).ok)
            /\ IF KnownOp(E) THEN Report(l, E.op, Verdict(E).cls, [why |-> Verdict(E).why, spec |-> Verdict(E).exp], E.out)
                             ELSE Report(l, E.op, "row-not-in-method-table", [why |-> "unknown-row"], E.out)
            /\ cur' = cur /\ last' = [op |-> "mismatch"]
TNext == l <= NEv /\ l' = l + 1 /\ (Reset \/ Match \/ Mismatch)
TSpec == TInit /\ [][TNext]_tvars

TableSane == TableOK /\ EnumTablesOK
AcceptedC19 == Accepted /\ PrintT("SPEC-CLAIMED " \o ToString(TLCGet(1)) \o " same " \o ToString(TLCGet(2)))
=============================================================================
