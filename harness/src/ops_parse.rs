//! Operations for C12 (and the parse half of C11): `Parse.<Type>` = the type's public string parser applied to a
//! string that travels as an array of one-character strings (TLC cannot index strings).
//! Characters outside printable ASCII travel as tokens "U+XXXX" so that neither TLC's JSON reader nor its
//! console encoding is ever involved in what the string is.
use crate::js::{self, big, int};
use crate::ops::{utc, FS};
use crate::proj::*;
use serde_json::{json, Value};
use std::str::FromStr;
use temporal_rs::options::*;
use temporal_rs::*;

/// string -> array of 1-char strings / "U+XXXX" tokens
pub fn chars_tok(s: &str) -> Value {
    Value::Array(s.chars().map(|c| {
        if (' '..='~').contains(&c) { json!(c.to_string()) } else { json!(format!("U+{:04X}", c as u32)) }
    }).collect())
}
/// inverse of `chars_tok`
pub fn untok(v: &Value) -> String {
    let mut s = String::new();
    for e in v.as_array().expect("chars array") {
        let t = e.as_str().expect("char");
        if t.len() > 2 && t.starts_with("U+") {
            s.push(char::from_u32(u32::from_str_radix(&t[2..], 16).expect("hex")).expect("scalar"));
        } else {
            s.push_str(t);
        }
    }
    s
}

// ---------- projections used by C11/C12 (ISO fields through public getters, calendar by identifier) ----------
pub fn p_date_iso(d: &PlainDate) -> Value {
    json!({"y": int(d.iso_year() as i64), "m": d.iso_month(), "d": d.iso_day(), "cal": d.calendar().identifier()})
}
pub fn p_datetime_iso(t: &PlainDateTime) -> Value {
    json!({"y": int(t.iso_year() as i64), "m": t.iso_month(), "d": t.iso_day(),
           "h": t.hour(), "mi": t.minute(), "s": t.second(), "ms": t.millisecond(), "us": t.microsecond(), "ns": t.nanosecond(),
           "cal": t.calendar().identifier()})
}
pub fn p_ym(t: &PlainYearMonth) -> Value {
    json!({"y": int(t.iso_year() as i64), "m": t.iso_month(), "cal": t.calendar_id()})
}
pub fn p_md(t: &PlainMonthDay) -> Value {
    json!({"m": t.iso_month(), "d": t.iso_day(), "cal": t.calendar_id()})
}
pub fn p_tz(t: &TimeZone) -> Value {
    match t.identifier() { Ok(s) => chars_tok(&s), Err(_) => json!("identifier-error") }
}
pub fn p_zdt(z: &ZonedDateTime) -> Value {
    json!({"ns": big(z.epoch_nanoseconds().as_i128()), "tz": p_tz(z.timezone()), "cal": z.calendar().identifier()})
}
/// "+HH:MM" -> signed minutes (UtcOffset has no numeric getter; its canonical text is its public projection)
pub fn offset_minutes_of(s: &str) -> Value {
    let b = s.as_bytes();
    if b.len() == 6 && (b[0] == b'+' || b[0] == b'-') && b[3] == b':' {
        let d = |i: usize| (b[i] as i64) - 48;
        let m = (d(1) * 10 + d(2)) * 60 + d(4) * 10 + d(5);
        return json!({"min": if b[0] == b'-' { -m } else { m }, "str": chars_tok(s)});
    }
    json!({"str": chars_tok(s)})
}
pub fn p_offset(o: &UtcOffset) -> Value {
    match o.to_string() { Ok(s) => offset_minutes_of(&s), Err(_) => json!("to_string-error") }
}
pub fn p_timezone(t: &TimeZone) -> Value {
    match t {
        TimeZone::UtcOffset(o) => { let mut v = p_offset(o); v["k"] = json!("offset"); v }
        TimeZone::IanaIdentifier(s) => json!({"k": "name", "str": chars_tok(s)}),
    }
}
pub fn p_monthcode(m: &MonthCode) -> Value {
    json!({"str": chars_tok(m.as_str()), "n": m.to_month_integer(), "leap": m.is_leap_month()})
}

fn arg_dis(a: &Value) -> Disambiguation {
    Disambiguation::from_str(js::opt_s(a, "dis").unwrap_or("compatible")).expect("disambiguation")
}
fn arg_offopt(a: &Value) -> OffsetDisambiguation {
    OffsetDisambiguation::from_str(js::opt_s(a, "offopt").unwrap_or("reject")).expect("offset option")
}

pub fn exec(op: &str, a: &Value) -> Option<Value> {
    if !op.starts_with("Parse.") { return None; }
    let s = untok(&a["chars"]);
    Some(match op {
        "Parse.PlainDate" => run(|| PlainDate::from_str(&s), p_date_iso),
        "Parse.PlainDateTime" => run(|| PlainDateTime::from_str(&s), p_datetime_iso),
        "Parse.PlainTime" => run(|| PlainTime::from_str(&s), p_time),
        "Parse.PlainYearMonth" => run(|| PlainYearMonth::from_str(&s), p_ym),
        "Parse.PlainMonthDay" => run(|| PlainMonthDay::from_str(&s), p_md),
        "Parse.Instant" => run(|| Instant::from_str(&s), p_instant),
        "Parse.Duration" => run(|| Duration::from_str(&s), p_duration),
        "Parse.ZonedDateTime" => run(|| FS.with(|p| ZonedDateTime::from_str_with_provider(&s, arg_dis(a), arg_offopt(a), p)), p_zdt),
        "Parse.UtcOffset" => run(|| UtcOffset::from_str(&s), p_offset),
        "Parse.TimeZone" => run(|| TimeZone::try_from_str(&s), p_timezone),
        "Parse.TimeZoneId" => run(|| TimeZone::try_from_identifier_str(&s), p_timezone),
        "Parse.MonthCode" => run(|| MonthCode::from_str(&s), p_monthcode),
        "Parse.Calendar" => run(|| Calendar::from_str(&s), |c| chars_tok(c.identifier())),
        _ => return None,
    })
}
