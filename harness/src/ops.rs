//! One table of operations over the real public API. Both directions use it:
//! replay compares exec(op,args) with the outcome TLC generated; record logs exec(op,args) for TLC to judge.
use serde_json::{json, Value};
use temporal_rs::tzdb::FsTzdbProvider;
use temporal_rs::*;

thread_local! {
    pub static FS: FsTzdbProvider = FsTzdbProvider::default();
}

pub fn utc() -> TimeZone { TimeZone::try_from_str("+00:00").expect("utc offset zone") }

pub fn exec(op: &str, a: &Value) -> Value {
    if let Some(v) = crate::ops_date::exec(op, a) { return v; }
    if let Some(v) = crate::ops_round::exec(op, a) { return v; }
    if let Some(v) = crate::ops_time::exec(op, a) { return v; }
    if let Some(v) = crate::ops_dur::exec(op, a) { return v; }
    if let Some(v) = crate::ops_dt::exec(op, a) { return v; }
    if let Some(v) = crate::ops_zoned::exec(op, a) { return v; }
    if let Some(v) = crate::ops_opts::exec(op, a) { return v; }
    if let Some(v) = crate::ops_limits::exec(op, a) { return v; }
    if let Some(v) = crate::ops_cal::exec(op, a) { return v; }
    if let Some(v) = crate::ops_tzdb::exec(op, a) { return v; }
    if let Some(v) = crate::ops_lock::exec(op, a) { return v; }
    if let Some(v) = crate::ops_fmt::exec(op, a) { return v; }
    if let Some(v) = crate::ops_parse::exec(op, a) { return v; }
    if let Some(v) = crate::ops_wrap::exec(op, a) { return v; }
    if let Some(v) = crate::ops_partial::exec(op, a) { return v; }
    if let Some(v) = crate::ops_ym::exec(op, a) { return v; }
    json!({"kind": "unknown-op", "op": op})
}
