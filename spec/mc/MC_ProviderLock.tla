--------------------------- MODULE MC_ProviderLock ---------------------------
(* Bounded instances of ProviderLock for TLC, and the history emission used by the C20 generators. *)
EXTENDS ProviderLock, Json

\* class label of a step of a history (spec-computed; keys of known findings use it):
\* what kind of failure, if any, precedes the step in lock-acquisition order
StepCls(h, i) ==
  IF \E j \in 1..(i-1) : h[j].res.kind = "panic" THEN "after-panic"
  ELSE IF \E j \in 1..(i-1) : Failed(h[j].res) THEN "after-error"
  ELSE "no-fault"

Labelled(h) == [i \in 1..Len(h) |-> [t |-> h[i].t, kind |-> h[i].kind, zone |-> h[i].zone, res |-> h[i].res,
                                      lk |-> h[i].lk, pz |-> h[i].pz, cls |-> StepCls(h, i)]]

\* generator: one CASE line per complete behaviour (all threads done): the call order, the fault
\* placement and the model's observable state after every step
Emit == AllDone => PrintT("CASE " \o ToJson([op |-> "ProviderLock.history", poison |-> PoisonBehaviour, order |-> Labelled(order)]))
=============================================================================
