SPECIFICATION Spec
CONSTANTS
  Window <- AddWindow
  DurSet <- TDurSet
  LargestSet <- NoDur
  OneStep = TRUE
INVARIANTS InverseLaw ClosedEqualsLiteral DiffShape DayIsDistance AddWellFormed SubIsAddNeg RejectRule 
CHECK_DEADLOCK FALSE
