------------------------------ MODULE Wrappers ------------------------------
(***************************************************************************)
(* C19 - the convenience ("compiled data") API and the C/C++ FFI layer are  *)
(* thin: every wrapper returns exactly what its core twin returns, every    *)
(* accessor is wired to its own field, every converted enum variant maps to *)
(* the variant of the same name.                                            *)
(*                                                                          *)
(*  * abstract value records (ZonedDateTime in a fixed-offset or UTC zone,  *)
(*    PlainDate, PlainDateTime, PlainTime, Duration, Instant, YearMonth,    *)
(*    MonthDay) with every field computed from Gregorian.tla;               *)
(*  * the METHOD TABLE: wrapper name, core twin name, receiver type,        *)
(*    argument shape, and what the call must return (`ret`: a field or an   *)
(*    operation the spec computes, or "same" = nothing claimed beyond       *)
(*    wrapper = core);                                                      *)
(*  * the ENUM TABLES: variant names and C discriminants of every converted *)
(*    enum;                                                                 *)
(*  * the session state machine: `cur` = receiver, `Call(row, x)` yields    *)
(*    `last` = [wrapper, twin, args, expected, cls].                        *)
(***************************************************************************)
EXTENDS Gregorian, TemporalBase, TLC

Same == [kind |-> "same"]        \* nothing claimed beyond "wrapper outcome = core outcome"
ErrK(k) == [kind |-> k]
NoArgs == [k \in {} |-> 0]
HasKey(r, k) == k \in DOMAIN r
GetOr(r, k, dflt) == IF k \in DOMAIN r THEN r[k] ELSE dflt
Opt(x) == <<x>>                  \* Option<T> is projected as a 0/1-element array
NoneV == <<>>

(* ------------------------------------------------------------------ strings *)
Pad2(n) == IF n < 10 THEN "0" \o ToString(n) ELSE ToString(n)
Pad4(n) == IF n < 10 THEN "000" \o ToString(n) ELSE IF n < 100 THEN "00" \o ToString(n)
           ELSE IF n < 1000 THEN "0" \o ToString(n) ELSE ToString(n)
Pad6(n) == IF n < 100000 THEN (IF n < 10000 THEN "00" \o Pad4(n) ELSE "0" \o ToString(n)) ELSE ToString(n)
\* Temporal's ISO year padding: four digits for 0..9999, otherwise sign and six digits
PadYear(y) == IF 0 <= y /\ y <= 9999 THEN Pad4(y) ELSE (IF y < 0 THEN "-" ELSE "+") \o Pad6(AbsI(y))
MonthCodeOf(m) == "M" \o Pad2(m)
\* offset seconds (whole minutes) -> "+HH:MM"
OffStr(off) == (IF off < 0 THEN "-" ELSE "+") \o Pad2(AbsI(off) \div 3600) \o ":" \o Pad2((AbsI(off) % 3600) \div 60)

(* ------------------------------------------------------------ value records *)
IsIso(v) == GetOr(v, "cal", "iso8601") = "iso8601"
TimeRec(h, mi, s, ms, us, ns) == [h |-> h, mi |-> mi, s |-> s, ms |-> ms, us |-> us, ns |-> ns]
Midnight == TimeRec(0, 0, 0, 0, 0, 0)
DtRec(d, t) == [y |-> d.y, m |-> d.m, d |-> d.d, h |-> t.h, mi |-> t.mi, s |-> t.s, ms |-> t.ms, us |-> t.us, ns |-> t.ns]
DateOfDt(x) == Date(x.y, x.m, x.d)
TimeOfDt(x) == TimeRec(x.h, x.mi, x.s, x.ms, x.us, x.ns)
ValidTime(t) == t.h \in 0..23 /\ t.mi \in 0..59 /\ t.s \in 0..59 /\ t.ms \in 0..999 /\ t.us \in 0..999 /\ t.ns \in 0..999
\* PlainDate limits are [MinDay, MaxDay]; a PlainDateTime at MinDay must be after midnight
ValidDt(x) == ValidDate(DateOfDt(x)) /\ ValidTime(TimeOfDt(x)) /\ InDateRange(DFC(DateOfDt(x)))
              /\ (DFC(DateOfDt(x)) = MinDay => TimeOfDt(x) # Midnight)

\* an instant is (epoch day, second of day, nanosecond of second)
EParts(day, sec, ns) == [day |-> day, sec |-> sec, ns |-> ns]
InstOK(i) == (i.day >= -100000000 /\ i.day < 100000000) \/ (i.day = 100000000 /\ i.sec = 0 /\ i.ns = 0)
EnsBig(i) == Add(K9(Add(MulSmall(FromInt(i.day), 86400), FromInt(i.sec))), FromInt(i.ns))
EmsBig(i) == Add(K3(Add(MulSmall(FromInt(i.day), 86400), FromInt(i.sec))), FromInt(i.ns \div 1000000))
Two64 == [s |-> 1, l |-> <<1616, 955, 737, 6744, 1844>>]            \* 18446744073709551616
NegBelow2p64(i) == LET b == EnsBig(i) IN b.s = -1 /\ Cmp(Abs(b), Two64) = -1

\* ZonedDateTime in a fixed-offset (or UTC) zone: instant + offset seconds; named zones carry no "off"
Fixed(z) == HasKey(z, "off")
ZLocalSec(z) == z.sec + z.off
ZLocalDay(z) == z.day + (ZLocalSec(z) \div 86400)
ZSecOfDay(z) == ZLocalSec(z) % 86400
ZDate(z) == CivilFromDays(ZLocalDay(z))
ZTime(z) == LET s == ZSecOfDay(z)
            IN TimeRec(s \div 3600, (s % 3600) \div 60, s % 60, z.ns \div 1000000, (z.ns \div 1000) % 1000, z.ns % 1000)
\* the spec computes fields only where the local date is a representable PlainDate
ZComputable(z) == Fixed(z) /\ IsIso(z) /\ ZLocalDay(z) > MinDay /\ ZLocalDay(z) <= MaxDay
\* local midnight of the local day, back on the epoch line (kept split: day * 86400 does not fit 32 bits)
ZStartOfDay(z) == [day |-> ZLocalDay(z) + ((0 - z.off) \div 86400), sec |-> (0 - z.off) % 86400, ns |-> 0, tz |-> z.tz]

DateFieldNames == {"year", "month", "day", "iso_year", "iso_month", "iso_day", "month_code", "day_of_week", "day_of_year",
                   "week_of_year", "year_of_week", "days_in_week", "days_in_month", "days_in_year", "months_in_year",
                   "in_leap_year", "era", "era_year", "calendar", "is_valid"}
TimeFieldNames == {"hour", "minute", "second", "millisecond", "microsecond", "nanosecond"}
DateField(dt, f) ==
  CASE f \in {"year", "iso_year"} -> dt.y
    [] f \in {"month", "iso_month"} -> dt.m
    [] f \in {"day", "iso_day"} -> dt.d
    [] f = "month_code" -> MonthCodeOf(dt.m)
    [] f = "day_of_week" -> DayOfWeek(DFC(dt))
    [] f = "day_of_year" -> DayOfYear(dt)
    [] f = "week_of_year" -> Opt(IsoWeek(dt).week)
    [] f = "year_of_week" -> Opt(IsoWeek(dt).year)
    [] f = "days_in_week" -> 7
    [] f = "days_in_month" -> DIM(dt.y, dt.m)
    [] f = "days_in_year" -> DIY(dt.y)
    [] f = "months_in_year" -> 12
    [] f = "in_leap_year" -> IsLeap(dt.y)
    [] f = "era" -> NoneV
    [] f = "era_year" -> NoneV
    [] f = "calendar" -> "iso8601"
    [] f = "is_valid" -> TRUE
TimeField(t, f) ==
  CASE f = "hour" -> t.h [] f = "minute" -> t.mi [] f = "second" -> t.s
    [] f = "millisecond" -> t.ms [] f = "microsecond" -> t.us [] f = "nanosecond" -> t.ns

DurFieldNames == {"years", "months", "weeks", "days", "hours", "minutes", "seconds", "milliseconds", "microseconds", "nanoseconds"}
DurField(D, f) ==
  CASE f = "years" -> D.y [] f = "months" -> D.mo [] f = "weeks" -> D.w [] f = "days" -> D.d [] f = "hours" -> D.h
    [] f = "minutes" -> D.mi [] f = "seconds" -> D.s [] f = "milliseconds" -> D.ms [] f = "microseconds" -> D.us [] f = "nanoseconds" -> D.ns
AbsDur(D) == Dur10(Abs(D.y), Abs(D.mo), Abs(D.w), Abs(D.d), Abs(D.h), Abs(D.mi), Abs(D.s), Abs(D.ms), Abs(D.us), Abs(D.ns))
\* ten small integers, in declaration order, as a duration (constructor argument order);
\* a non-finite number travels out of band as `special` (then nothing is claimed beyond wrapper = core)
Plain(a) == ~HasKey(a, "special")
DurOfSeq(f) == Dur10(FromInt(f[1]), FromInt(f[2]), FromInt(f[3]), FromInt(f[4]), FromInt(f[5]),
                     FromInt(f[6]), FromInt(f[7]), FromInt(f[8]), FromInt(f[9]), FromInt(f[10]))
TDurOfSeq(f) == [h |-> FromInt(f[1]), mi |-> FromInt(f[2]), s |-> FromInt(f[3]), ms |-> FromInt(f[4]), us |-> FromInt(f[5]), ns |-> FromInt(f[6])]
SeqSign(f) == LET pos == \E i \in DOMAIN f : f[i] > 0
                  neg == \E i \in DOMAIN f : f[i] < 0
              IN IF pos /\ neg THEN 2 ELSE IF pos THEN 1 ELSE IF neg THEN -1 ELSE 0

(* ------------------------------------------------- partial records (ISO calendar) *)
\* month given by number or by code "Mnn" (only one of the two is interpreted here; both -> nothing claimed)
CodeMonth(c) == CHOOSE m \in 0..99 : MonthCodeOf(m) = c
PartialSimple(p) == ~(HasKey(p, "month") /\ HasKey(p, "month_code")) /\ ~HasKey(p, "era") /\ ~HasKey(p, "era_year") /\ IsIso(p)
                    /\ (HasKey(p, "month_code") => \E m \in 1..12 : MonthCodeOf(m) = p.month_code)     \* plain ISO month codes only
PMonth(p, dflt) == IF HasKey(p, "month") THEN p.month ELSE IF HasKey(p, "month_code") THEN CodeMonth(p.month_code) ELSE dflt
MergeDate(base, p) == Date(GetOr(p, "year", base.y), PMonth(p, base.m), GetOr(p, "day", base.d))
PDateEmpty(p) == ~(\E k \in {"year", "month", "month_code", "day", "era", "era_year"} : HasKey(p, k))
PDateFull(p) == HasKey(p, "year") /\ (HasKey(p, "month") \/ HasKey(p, "month_code")) /\ HasKey(p, "day")
MergeTime(base, p) == TimeRec(GetOr(p, "hour", base.h), GetOr(p, "minute", base.mi), GetOr(p, "second", base.s),
                              GetOr(p, "millisecond", base.ms), GetOr(p, "microsecond", base.us), GetOr(p, "nanosecond", base.ns))
PTimeEmpty(p) == ~(\E k \in {"hour", "minute", "second", "millisecond", "microsecond", "nanosecond"} : HasKey(p, k))
DateOK(d) == ValidDate(d) /\ InDateRange(DFC(d))
OkIfDate(d) == IF DateOK(d) THEN Ok(d) ELSE Same            \* clamping / rejection of invalid fields is C17's subject
OkIfTime(t) == IF ValidTime(t) THEN Ok(t) ELSE Same
OkIfDt(x) == IF ValidDt(x) THEN Ok(x) ELSE Same

(* ---------------------------------------------------------------- enum tables *)
\* variant names in declaration order with their C discriminants (temporal_capi/src/options.rs, error.rs, duration.rs, calendar.rs)
EnumTable ==
  [Unit |-> <<<<"Auto", 0>>, <<"Nanosecond", 1>>, <<"Microsecond", 2>>, <<"Millisecond", 3>>, <<"Second", 4>>, <<"Minute", 5>>,
              <<"Hour", 6>>, <<"Day", 7>>, <<"Week", 8>>, <<"Month", 9>>, <<"Year", 10>>>>,
   RoundingMode |-> <<<<"Ceil", 0>>, <<"Floor", 1>>, <<"Expand", 2>>, <<"Trunc", 3>>, <<"HalfCeil", 4>>, <<"HalfFloor", 5>>,
                      <<"HalfExpand", 6>>, <<"HalfTrunc", 7>>, <<"HalfEven", 8>>>>,
   UnsignedRoundingMode |-> <<<<"Infinity", 0>>, <<"Zero", 1>>, <<"HalfInfinity", 2>>, <<"HalfZero", 3>>, <<"HalfEven", 4>>>>,
   ArithmeticOverflow |-> <<<<"Constrain", 0>>, <<"Reject", 1>>>>,
   DurationOverflow |-> <<<<"Constrain", 0>>, <<"Balance", 1>>>>,
   Disambiguation |-> <<<<"Compatible", 0>>, <<"Earlier", 1>>, <<"Later", 2>>, <<"Reject", 3>>>>,
   OffsetDisambiguation |-> <<<<"Use", 0>>, <<"Prefer", 1>>, <<"Ignore", 2>>, <<"Reject", 3>>>>,
   DisplayCalendar |-> <<<<"Auto", 0>>, <<"Always", 1>>, <<"Never", 2>>, <<"Critical", 3>>>>,
   DisplayOffset |-> <<<<"Auto", 0>>, <<"Never", 1>>>>,
   DisplayTimeZone |-> <<<<"Auto", 0>>, <<"Never", 1>>, <<"Critical", 2>>>>,
   Sign |-> <<<<"Positive", 1>>, <<"Zero", 0>>, <<"Negative", -1>>>>,
   ErrorKind |-> <<<<"Generic", 0>>, <<"Type", 1>>, <<"Range", 2>>, <<"Syntax", 3>>, <<"Assert", 4>>>>,
   AnyCalendarKind |-> <<<<"Buddhist", 0>>, <<"Chinese", 1>>, <<"Coptic", 2>>, <<"Dangi", 3>>, <<"Ethiopian", 4>>, <<"EthiopianAmeteAlem", 5>>,
                         <<"Gregorian", 6>>, <<"Hebrew", 7>>, <<"Indian", 8>>, <<"IslamicCivil", 9>>, <<"IslamicObservational", 10>>,
                         <<"IslamicTabular", 11>>, <<"IslamicUmmAlQura", 12>>, <<"Iso", 13>>, <<"Japanese", 14>>, <<"JapaneseExtended", 15>>,
                         <<"Persian", 16>>, <<"Roc", 17>>>>]
EnumNames == DOMAIN EnumTable
Variants(e) == {EnumTable[e][i][1] : i \in 1..Len(EnumTable[e])}
DiscOf(e, v) == LET i == CHOOSE i \in 1..Len(EnumTable[e]) : EnumTable[e][i][1] = v IN EnumTable[e][i][2]
\* within one enum, names and discriminants are both injective (otherwise "same name" would be ambiguous)
EnumTablesOK == \A e \in EnumNames : \A i, j \in 1..Len(EnumTable[e]) :
                   i # j => EnumTable[e][i][1] # EnumTable[e][j][1] /\ EnumTable[e][i][2] # EnumTable[e][j][2]

(* --------------------------------------------------------------- method table *)
\* name: wrapper (row) name; twin: core function; recv: receiver type ("none" = associated function);
\* sig: argument shape (selects the argument pool); ret: what must be returned (field / operation / "same")
Row(name, twin, recv, sig, ret) == [name |-> name, twin |-> twin, recv |-> recv, sig |-> sig, ret |-> ret]
Acc(prefix, tprefix, recv, fields) == {Row(prefix \o f, tprefix \o f, recv, "recv", f) : f \in fields}

ZdtAccessors == {"year", "month", "month_code", "day", "hour", "minute", "second", "millisecond", "microsecond", "nanosecond",
                 "offset", "offset_nanoseconds", "era", "era_year", "day_of_week", "day_of_year", "week_of_year", "year_of_week",
                 "days_in_week", "days_in_month", "days_in_year", "months_in_year", "in_leap_year"}
CompiledRows ==
  {Row("ZonedDateTime." \o f, "ZonedDateTime." \o f \o "_with_provider", "zdt", "recv", f) : f \in ZdtAccessors}
  \cup {Row("ZonedDateTime.hours_in_day", "ZonedDateTime.hours_in_day_with_provider", "zdt", "recv", "same"),      \* the value is C14's subject
        Row("ZonedDateTime.get_time_zone_transition", "ZonedDateTime.get_time_zone_transition_with_provider", "zdt", "recv+dir", "transition"),
        Row("ZonedDateTime.with_plain_time", "ZonedDateTime.with_plain_time_and_provider", "zdt", "recv+time", "same"),
        Row("ZonedDateTime.add", "ZonedDateTime.add_with_provider", "zdt", "recv+dur+ovf?", "same"),
        Row("ZonedDateTime.subtract", "ZonedDateTime.subtract_with_provider", "zdt", "recv+dur+ovf?", "same"),
        Row("ZonedDateTime.since", "ZonedDateTime.since_with_provider", "zdt", "recv+other+st", "same"),
        Row("ZonedDateTime.until", "ZonedDateTime.until_with_provider", "zdt", "recv+other+st", "same"),
        Row("ZonedDateTime.start_of_day", "ZonedDateTime.start_of_day_with_provider", "zdt", "recv", "start_of_day"),
        Row("ZonedDateTime.to_plain_date", "ZonedDateTime.to_plain_date_with_provider", "zdt", "recv", "to_plain_date"),
        Row("ZonedDateTime.to_plain_time", "ZonedDateTime.to_plain_time_with_provider", "zdt", "recv", "to_plain_time"),
        Row("ZonedDateTime.to_plain_datetime", "ZonedDateTime.to_plain_datetime_with_provider", "zdt", "recv", "to_plain_datetime"),
        Row("ZonedDateTime.to_ixdtf_string", "ZonedDateTime.to_ixdtf_string_with_provider", "zdt", "recv+zdisplay", "same"),
        Row("ZonedDateTime.to_string", "ZonedDateTime.to_string_with_provider", "zdt", "recv", "same"),
        Row("ZonedDateTime.from_str", "ZonedDateTime.from_str_with_provider", "none", "zsrc", "same"),
        Row("Duration.round", "Duration.round_with_provider", "dur", "recv+ropts+rel", "same"),
        Row("Duration.compare", "Duration.compare_with_provider", "dur", "recv+otherdur+rel", "same"),
        Row("Duration.total", "Duration.total_with_provider", "dur", "recv+unit+rel", "same"),
        Row("Instant.to_ixdtf_string", "Instant.to_ixdtf_string_with_provider", "inst", "recv+tz?+tsro", "same"),
        Row("PlainDateTime.to_zoned_date_time", "PlainDateTime.to_zoned_date_time_with_provider", "dt", "recv+tz+dis", "same"),
        Row("RelativeTo.try_from_str", "RelativeTo.try_from_str_with_provider", "none", "relsrc", "same")}

DateAccessors == {"iso_year", "iso_month", "iso_day", "calendar", "is_valid", "year", "month", "month_code", "day", "day_of_week",
                  "day_of_year", "week_of_year", "year_of_week", "days_in_week", "days_in_month", "days_in_year", "months_in_year",
                  "in_leap_year", "era", "era_year"}
CapiDateRows ==
  Acc("capi.PlainDate.", "PlainDate.", "date", DateAccessors)
  \cup {Row("capi.PlainDate.create", "PlainDate.new", "none", "fdate", "mk_date"),
        Row("capi.PlainDate.try_create", "PlainDate.try_new", "none", "fdate", "mk_date"),
        Row("capi.PlainDate.create_with_overflow", "PlainDate.new_with_overflow", "none", "fdate+ovf", "mk_date"),
        Row("capi.PlainDate.from_partial", "PlainDate.from_partial", "none", "pdate+ovf?", "date_from_partial"),
        Row("capi.PlainDate.with", "PlainDate.with", "date", "recv+pdate+ovf?", "date_with"),
        Row("capi.PlainDate.with_calendar", "PlainDate.with_calendar", "date", "recv+cal", "same"),
        Row("capi.PlainDate.add", "PlainDate.add", "date", "recv+dur+ovf?", "same"),
        Row("capi.PlainDate.subtract", "PlainDate.subtract", "date", "recv+dur+ovf?", "same"),
        Row("capi.PlainDate.until", "PlainDate.until", "date", "recv+other+st", "same"),
        Row("capi.PlainDate.since", "PlainDate.since", "date", "recv+other+st", "same"),
        Row("capi.PlainDate.to_plain_date_time", "PlainDate.to_plain_date_time", "date", "recv+time?", "date_to_dt"),
        Row("capi.PlainDate.to_plain_month_day", "PlainDate.to_plain_month_day", "date", "recv", "same"),
        Row("capi.PlainDate.to_plain_year_month", "PlainDate.to_plain_year_month", "date", "recv", "date_to_ym"),
        Row("capi.PlainDate.to_ixdtf_string", "PlainDate.to_ixdtf_string", "date", "recv+dcal", "same")}

DtAccessors == (DateAccessors \ {"is_valid"}) \cup TimeFieldNames
CapiDtRows ==
  Acc("capi.PlainDateTime.", "PlainDateTime.", "dt", DtAccessors)
  \cup {Row("capi.PlainDateTime.create", "PlainDateTime.new", "none", "fdt", "mk_dt"),
        Row("capi.PlainDateTime.try_create", "PlainDateTime.try_new", "none", "fdt", "mk_dt"),
        Row("capi.PlainDateTime.from_partial", "PlainDateTime.from_partial", "none", "pdt+ovf?", "dt_from_partial"),
        Row("capi.PlainDateTime.with", "PlainDateTime.with", "dt", "recv+pdt+ovf?", "dt_with"),
        Row("capi.PlainDateTime.with_time", "PlainDateTime.with_time", "dt", "recv+time", "dt_with_time"),
        Row("capi.PlainDateTime.with_calendar", "PlainDateTime.with_calendar", "dt", "recv+cal", "same"),
        Row("capi.PlainDateTime.add", "PlainDateTime.add", "dt", "recv+dur+ovf?", "same"),
        Row("capi.PlainDateTime.subtract", "PlainDateTime.subtract", "dt", "recv+dur+ovf?", "same"),
        Row("capi.PlainDateTime.until", "PlainDateTime.until", "dt", "recv+other+st", "same"),
        Row("capi.PlainDateTime.since", "PlainDateTime.since", "dt", "recv+other+st", "same"),
        Row("capi.PlainDateTime.round", "PlainDateTime.round", "dt", "recv+ropts", "same"),
        Row("capi.PlainDateTime.to_plain_date", "PlainDateTime.to_plain_date", "dt", "recv", "dt_to_date"),
        Row("capi.PlainDateTime.to_plain_time", "PlainDateTime.to_plain_time", "dt", "recv", "dt_to_time"),
        Row("capi.PlainDateTime.to_ixdtf_string", "PlainDateTime.to_ixdtf_string", "dt", "recv+tsro+dcal", "same")}

CapiTimeRows ==
  Acc("capi.PlainTime.", "PlainTime.", "time", TimeFieldNames)
  \cup {Row("capi.PlainTime.create", "PlainTime.new", "none", "ftime", "mk_time"),
        Row("capi.PlainTime.try_create", "PlainTime.try_new", "none", "ftime", "mk_time"),
        Row("capi.PlainTime.from_partial", "PlainTime.from_partial", "none", "ptime+ovf?", "time_from_partial"),
        Row("capi.PlainTime.with", "PlainTime.with", "time", "recv+ptime+ovf?", "time_with"),
        Row("capi.PlainTime.add", "PlainTime.add", "time", "recv+dur", "same"),
        Row("capi.PlainTime.subtract", "PlainTime.subtract", "time", "recv+dur", "same"),
        Row("capi.PlainTime.add_time_duration", "PlainTime.add_time_duration", "time", "recv+tdur", "same"),
        Row("capi.PlainTime.subtract_time_duration", "PlainTime.subtract_time_duration", "time", "recv+tdur", "same"),
        Row("capi.PlainTime.until", "PlainTime.until", "time", "recv+other+st", "same"),
        Row("capi.PlainTime.since", "PlainTime.since", "time", "recv+other+st", "same"),
        Row("capi.PlainTime.round", "PlainTime.round", "time", "recv+unit+inc?+mode?", "same"),
        Row("capi.PlainTime.to_ixdtf_string", "PlainTime.to_ixdtf_string", "time", "recv+tsro", "same")}

CapiDurRows ==
  Acc("capi.Duration.", "Duration.", "dur", DurFieldNames)
  \cup {Row("capi.Duration.create", "Duration.new", "none", "fdur", "mk_dur"),
        Row("capi.Duration.from_day_and_time", "Duration.from_day_and_time", "none", "day+ftdur", "same"),
        Row("capi.Duration.from_partial_duration", "Duration.from_partial_duration", "none", "pdur", "dur_from_partial"),
        Row("capi.Duration.is_time_within_range", "Duration.is_time_within_range", "dur", "recv", "same"),
        Row("capi.Duration.time", "Duration.time", "dur", "recv", "dur_time"),
        Row("capi.Duration.date", "Duration.date", "dur", "recv", "same"),
        Row("capi.Duration.sign", "Duration.sign", "dur", "recv", "dur_sign"),
        Row("capi.Duration.is_zero", "Duration.is_zero", "dur", "recv", "dur_is_zero"),
        Row("capi.Duration.abs", "Duration.abs", "dur", "recv", "dur_abs"),
        Row("capi.Duration.negated", "Duration.negated", "dur", "recv", "dur_negated"),
        Row("capi.Duration.add", "Duration.add", "dur", "recv+otherdur", "same"),
        Row("capi.Duration.subtract", "Duration.subtract", "dur", "recv+otherdur", "same"),
        Row("capi.PartialDuration.is_empty", "PartialDuration.is_empty", "none", "pdur-finite", "pdur_is_empty"),
        Row("capi.TimeDuration.new", "TimeDuration.new", "none", "ftdur", "mk_tdur"),
        Row("capi.TimeDuration.abs", "TimeDuration.abs", "tdur", "recv", "same"),
        Row("capi.TimeDuration.negated", "TimeDuration.negated", "tdur", "recv", "same"),
        Row("capi.TimeDuration.is_within_range", "TimeDuration.is_within_range", "tdur", "recv", "same"),
        Row("capi.TimeDuration.sign", "TimeDuration.sign", "tdur", "recv", "seq_sign"),
        Row("capi.DateDuration.new", "DateDuration.new", "none", "fddur", "same"),
        Row("capi.DateDuration.abs", "DateDuration.abs", "ddur", "recv", "same"),
        Row("capi.DateDuration.negated", "DateDuration.negated", "ddur", "recv", "same"),
        Row("capi.DateDuration.sign", "DateDuration.sign", "ddur", "recv", "seq_sign")}

CapiInstRows ==
  {Row("capi.Instant.try_new", "Instant.try_new", "none", "ns", "inst_new"),
   Row("capi.Instant.from_epoch_milliseconds", "Instant.from_epoch_milliseconds", "none", "ms", "inst_from_ms"),
   Row("capi.Instant.add", "Instant.add", "inst", "recv+dur", "same"),
   Row("capi.Instant.add_time_duration", "Instant.add_time_duration", "inst", "recv+tdur", "same"),
   Row("capi.Instant.subtract", "Instant.subtract", "inst", "recv+dur", "same"),
   Row("capi.Instant.subtract_time_duration", "Instant.subtract_time_duration", "inst", "recv+tdur", "same"),
   Row("capi.Instant.since", "Instant.since", "inst", "recv+other+st", "same"),
   Row("capi.Instant.until", "Instant.until", "inst", "recv+other+st", "same"),
   Row("capi.Instant.round", "Instant.round", "inst", "recv+ropts", "same"),
   Row("capi.Instant.epoch_milliseconds", "Instant.epoch_milliseconds", "inst", "recv", "epoch_ms"),
   Row("capi.Instant.epoch_nanoseconds", "Instant.epoch_nanoseconds", "inst", "recv", "epoch_ns")}

YmAccessors == {"iso_year", "iso_month", "year", "month", "month_code", "in_leap_year", "days_in_month", "days_in_year", "months_in_year",
                "era", "era_year", "calendar", "padded_iso_year_string"}
CapiYmRows ==
  Acc("capi.PlainYearMonth.", "PlainYearMonth.", "ym", YmAccessors)
  \cup {Row("capi.PlainYearMonth.create_with_overflow", "PlainYearMonth.new_with_overflow", "none", "fym+ovf", "mk_ym"),
        Row("capi.PlainYearMonth.with", "PlainYearMonth.with", "ym", "recv+pdate+ovf?", "same"),
        Row("capi.PlainYearMonth.add", "PlainYearMonth.add", "ym", "recv+dur+ovf", "same"),
        Row("capi.PlainYearMonth.subtract", "PlainYearMonth.subtract", "ym", "recv+dur+ovf", "same"),
        Row("capi.PlainYearMonth.until", "PlainYearMonth.until", "ym", "recv+other+st", "same"),
        Row("capi.PlainYearMonth.since", "PlainYearMonth.since", "ym", "recv+other+st", "same")}

MdAccessors == {"iso_year", "iso_month", "iso_day", "calendar", "month_code"}
CapiMdRows ==
  Acc("capi.PlainMonthDay.", "PlainMonthDay.", "md", MdAccessors)
  \cup {Row("capi.PlainMonthDay.create_with_overflow", "PlainMonthDay.new_with_overflow", "none", "fmd+ovf", "mk_md")}

CalDateFns == {"era", "era_year", "year", "month", "month_code", "day", "day_of_week", "day_of_year", "week_of_year", "year_of_week",
               "days_in_week", "days_in_month", "days_in_year", "months_in_year", "in_leap_year"}
CapiCalRows ==
  {Row("capi.Calendar." \o f, "Calendar." \o f, "cal", "recv+date", f) : f \in CalDateFns}
  \cup {Row("capi.Calendar.create", "Calendar.new", "none", "kind", "same"),
        Row("capi.Calendar.from_utf8", "Calendar.from_utf8", "none", "calsrc", "same"),
        Row("capi.Calendar.is_iso", "Calendar.is_iso", "cal", "recv", "cal_is_iso"),
        Row("capi.Calendar.identifier", "Calendar.identifier", "cal", "recv", "cal_id"),
        Row("capi.Calendar.date_from_partial", "Calendar.date_from_partial", "cal", "recv+pdate+ovf", "same"),
        Row("capi.Calendar.month_day_from_partial", "Calendar.month_day_from_partial", "cal", "recv+pdate+ovf", "same"),
        Row("capi.Calendar.year_month_from_partial", "Calendar.year_month_from_partial", "cal", "recv+pdate+ovf", "same"),
        Row("capi.Calendar.date_add", "Calendar.date_add", "cal", "recv+date+dur+ovf", "same"),
        Row("capi.Calendar.date_until", "Calendar.date_until", "cal", "recv+date+other+unit", "same"),
        Row("capi.AnyCalendarKind.get_for_bcp47_string", "AnyCalendarKind.get_for_bcp47_bytes", "none", "kindsrc", "same")}

EnumRows == {Row("capi.enum." \o e, "enum." \o e, "none", "variant:" \o e, "enum:" \o e) : e \in EnumNames}

Table == CompiledRows \cup CapiDateRows \cup CapiDtRows \cup CapiTimeRows \cup CapiDurRows \cup CapiInstRows
         \cup CapiYmRows \cup CapiMdRows \cup CapiCalRows \cup EnumRows
RowNames == {r.name : r \in Table}
TableOK == \A r1, r2 \in Table : r1.name = r2.name => r1 = r2        \* a name identifies its row
RowOf(n) == CHOOSE r \in Table : r.name = n

\* public functions of the two layers that are known but deliberately not exercised (and why)
Excluded ==
  {[name |-> "Now.plain_datetime_iso", why |-> "reads the clock"], [name |-> "Now.plain_date_iso", why |-> "reads the clock"],
   [name |-> "Now.plain_time_iso", why |-> "reads the clock"],
   [name |-> "PlainDate.to_zoned_date_time", why |-> "dead code: compiled/date.rs is not part of the module tree"],
   [name |-> "capi.PlainYearMonth.to_plain_date", why |-> "core: Not yet implemented"],
   [name |-> "capi.PlainMonthDay.to_plain_date", why |-> "core: Not yet implemented"],
   [name |-> "capi.PlainMonthDay.with", why |-> "core: Not yet implemented"]}

(* ------------------------------------------------------- expected results *)
EnumExpected(e, a) == IF a.variant \in Variants(e) THEN Ok([disc |-> DiscOf(e, a.variant), to_core |-> a.variant]) ELSE Same

ZdtExpected(ret, a) ==
  LET z == a.recv IN
  IF ~ZComputable(z) THEN Same
  ELSE CASE ret \in DateFieldNames -> Ok(DateField(ZDate(z), ret))
         [] ret \in TimeFieldNames -> Ok(TimeField(ZTime(z), ret))
         [] ret = "offset" -> Same                        \* the offset *format* is C11's subject; wiring is covered by wrapper = core
         [] ret = "offset_nanoseconds" -> Ok(K9(FromInt(z.off)))
         [] ret = "to_plain_date" -> Ok(ZDate(z))
         [] ret = "to_plain_time" -> Ok(ZTime(z))
         [] ret = "to_plain_datetime" -> OkIfDt(DtRec(ZDate(z), ZTime(z)))
         [] ret = "start_of_day" -> IF z.tz = OffStr(z.off) THEN Ok(ZStartOfDay(z)) ELSE Same
         [] ret = "transition" -> IF z.tz = OffStr(z.off) THEN Ok(NoneV) ELSE Same      \* offset zones have no transitions
         [] OTHER -> Same

DateExpected(ret, a) ==
  IF HasKey(a, "recv") /\ ~IsIso(a.recv) THEN Same
  ELSE CASE ret \in DateFieldNames -> Ok(DateField(a.recv, ret))
         [] ret = "mk_date" -> IF IsIso(a.f) THEN OkIfDate(Date(a.f.y, a.f.m, a.f.d)) ELSE Same
         [] ret = "date_from_partial" -> IF PartialSimple(a.partial) /\ PDateFull(a.partial) THEN OkIfDate(MergeDate(Date(0, 0, 0), a.partial)) ELSE Same
         [] ret = "date_with" -> IF PartialSimple(a.partial) /\ ~PDateEmpty(a.partial) THEN OkIfDate(MergeDate(a.recv, a.partial)) ELSE Same
         [] ret = "date_to_dt" -> OkIfDt(DtRec(a.recv, IF HasKey(a, "time") THEN a.time ELSE Midnight))
         [] ret = "date_to_ym" -> Ok([y |-> a.recv.y, m |-> a.recv.m])
         [] OTHER -> Same

DtExpected(ret, a) ==
  IF HasKey(a, "recv") /\ ~IsIso(a.recv) THEN Same
  ELSE CASE ret \in DateFieldNames -> Ok(DateField(DateOfDt(a.recv), ret))
         [] ret \in TimeFieldNames -> Ok(TimeField(TimeOfDt(a.recv), ret))
         [] ret = "mk_dt" -> IF IsIso(a.f) THEN OkIfDt([k \in {"y", "m", "d", "h", "mi", "s", "ms", "us", "ns"} |-> a.f[k]]) ELSE Same
         [] ret = "dt_from_partial" ->
              IF PartialSimple(a.partial.date) /\ PDateFull(a.partial.date)
              THEN OkIfDt(DtRec(MergeDate(Date(0, 0, 0), a.partial.date), MergeTime(Midnight, a.partial.time))) ELSE Same
         [] ret = "dt_with" ->
              IF PartialSimple(a.partial.date) /\ ~(PDateEmpty(a.partial.date) /\ PTimeEmpty(a.partial.time))
              THEN OkIfDt(DtRec(MergeDate(DateOfDt(a.recv), a.partial.date), MergeTime(TimeOfDt(a.recv), a.partial.time))) ELSE Same
         [] ret = "dt_with_time" -> OkIfDt(DtRec(DateOfDt(a.recv), a.time))
         [] ret = "dt_to_date" -> Ok(DateOfDt(a.recv))
         [] ret = "dt_to_time" -> Ok(TimeOfDt(a.recv))
         [] OTHER -> Same

TimeExpected(ret, a) ==
  CASE ret \in TimeFieldNames -> Ok(TimeField(a.recv, ret))
    [] ret = "mk_time" -> OkIfTime(a.f)
    [] ret = "time_from_partial" -> IF PTimeEmpty(a.partial) THEN Same ELSE OkIfTime(MergeTime(Midnight, a.partial))
    [] ret = "time_with" -> IF PTimeEmpty(a.partial) THEN Same ELSE OkIfTime(MergeTime(a.recv, a.partial))
    [] OTHER -> Same

PDurKeys == <<"years", "months", "weeks", "days", "hours", "minutes", "seconds", "milliseconds", "microseconds", "nanoseconds">>
PDurSeq(p) == [i \in 1..10 |-> GetOr(p, PDurKeys[i], 0)]
PDurEmpty(p) == \A i \in 1..10 : ~HasKey(p, PDurKeys[i])
DurExpected(ret, a) ==
  CASE ret \in DurFieldNames -> Ok(DurField(a.recv, ret))
    [] ret = "mk_dur" -> IF Plain(a) THEN (IF SeqSign(a.f) = 2 THEN ErrRange ELSE Ok(DurOfSeq(a.f))) ELSE Same
    [] ret = "dur_from_partial" -> IF Plain(a.partial) /\ ~PDurEmpty(a.partial)
                                   THEN (IF SeqSign(PDurSeq(a.partial)) = 2 THEN ErrRange ELSE Ok(DurOfSeq(PDurSeq(a.partial)))) ELSE Same
    [] ret = "pdur_is_empty" -> IF Plain(a.partial) THEN Ok(PDurEmpty(a.partial)) ELSE Same
    [] ret = "dur_time" -> Ok([h |-> a.recv.h, mi |-> a.recv.mi, s |-> a.recv.s, ms |-> a.recv.ms, us |-> a.recv.us, ns |-> a.recv.ns])
    \* (a mixed-sign receiver - from_day_and_time's unchecked value, C09's recorded finding - has no sign: whatever the core says)
    [] ret = "dur_sign" -> IF DurSign(a.recv) = 2 THEN Same ELSE Ok(DurSign(a.recv))
    [] ret = "dur_is_zero" -> Ok(DurSign(a.recv) = 0)
    [] ret = "dur_abs" -> IF DurSign(a.recv) = 2 THEN Same ELSE Ok(AbsDur(a.recv))
    [] ret = "dur_negated" -> Ok(NegDur(a.recv))
    [] ret = "mk_tdur" -> IF Plain(a) THEN (IF SeqSign(a.f) = 2 THEN ErrRange ELSE Ok(TDurOfSeq(a.f))) ELSE Same
    [] ret = "seq_sign" -> IF SeqSign(a.recv) # 2 THEN Ok(SeqSign(a.recv)) ELSE Same
    [] OTHER -> Same

\* epoch milliseconds (a big) -> instant parts
InstFromMs(b) == LET 
                      a1 == FloorDivSmall(b, 1000)                \* seconds, ms remainder
                      a2 == FloorDivSmall(a1.q, 86400)            \* days, second of day
                  IN IF AbsLe(a2.q, 200000000) THEN EParts(ToInt(a2.q), a2.r, a1.r * 1000000) ELSE EParts(200000000, 0, 0)
InstExpected(ret, a) ==
  CASE ret = "inst_new" -> IF InstOK(a.ns) THEN Ok(a.ns) ELSE ErrRange
    [] ret = "inst_from_ms" -> LET i == InstFromMs(a.ms) IN IF InstOK(i) THEN Ok(i) ELSE ErrRange
    [] ret = "epoch_ms" -> Ok(EmsBig(a.recv))
    [] ret = "epoch_ns" -> Ok(a.recv)
    [] OTHER -> Same

YmExpected(ret, a) ==
  IF HasKey(a, "recv") /\ ~IsIso(a.recv) THEN Same
  ELSE CASE ret = "padded_iso_year_string" -> Same    \* year padding is C11's subject (PadYear above is the reference form)
         [] ret \in DateFieldNames -> Ok(DateField(Date(a.recv.y, a.recv.m, 1), ret))
         [] ret = "mk_ym" -> IF IsIso(a.f) /\ DateOK(Date(a.f.y, a.f.m, GetOr(a.f, "rd", 1))) /\ AbsI(a.f.y) < 270000
                             THEN Ok([y |-> a.f.y, m |-> a.f.m]) ELSE Same
         [] OTHER -> Same
MdExpected(ret, a) ==
  IF HasKey(a, "recv") /\ ~IsIso(a.recv) THEN Same
  ELSE CASE ret \in DateFieldNames -> Ok(DateField(Date(GetOr(a.recv, "y", 1972), a.recv.m, a.recv.d), ret))
         [] ret = "mk_md" -> IF IsIso(a.f) /\ DateOK(Date(GetOr(a.f, "y", 1972), a.f.m, a.f.d))
                             THEN Ok(Date(GetOr(a.f, "y", 1972), a.f.m, a.f.d)) ELSE Same
         [] OTHER -> Same
CalExpected(ret, a) ==
  IF a.recv # "iso8601" THEN Same
  ELSE CASE ret = "cal_is_iso" -> Ok(TRUE)
         [] ret = "cal_id" -> Ok("iso8601")
         [] ret \in DateFieldNames -> IF DateOK(a.date) THEN Ok(DateField(a.date, ret)) ELSE Same
         [] OTHER -> Same

Expected(row, a) ==
  IF row.ret = "same" THEN Same
  ELSE IF row.name \in {r.name : r \in EnumRows} THEN EnumExpected(CHOOSE e \in EnumNames : row.ret = "enum:" \o e, a)
  ELSE LET ty == IF row.recv # "none" THEN row.recv
                 ELSE CASE row.ret \in {"mk_date", "date_from_partial"} -> "date"
                        [] row.ret \in {"mk_dt", "dt_from_partial"} -> "dt"
                        [] row.ret \in {"mk_time", "time_from_partial"} -> "time"
                        [] row.ret \in {"mk_dur", "dur_from_partial", "pdur_is_empty", "mk_tdur"} -> "dur"
                        [] row.ret \in {"inst_new", "inst_from_ms"} -> "inst"
                        [] row.ret = "mk_ym" -> "ym"
                        [] row.ret = "mk_md" -> "md"
                        [] OTHER -> "other"
       IN CASE ty = "zdt" -> ZdtExpected(row.ret, a)
            [] ty = "date" -> DateExpected(row.ret, a)
            [] ty = "dt" -> DtExpected(row.ret, a)
            [] ty = "time" -> TimeExpected(row.ret, a)
            [] ty \in {"dur", "tdur", "ddur"} -> DurExpected(row.ret, a)
            [] ty = "inst" -> InstExpected(row.ret, a)
            [] ty = "ym" -> YmExpected(row.ret, a)
            [] ty = "md" -> MdExpected(row.ret, a)
            [] ty = "cal" -> CalExpected(row.ret, a)
            [] OTHER -> Same

\* well-formed month codes: "Mnn" and "MnnL"
WellFormedCode(c) == \E m \in 0..99 : c = MonthCodeOf(m) \/ c = MonthCodeOf(m) \o "L"
PartialOf(a) == IF HasKey(a, "partial") THEN (IF HasKey(a.partial, "date") THEN a.partial.date ELSE a.partial) ELSE NoArgs
MalformedCode(a) == LET p == PartialOf(a) IN HasKey(p, "month_code") /\ ~WellFormedCode(p.month_code)
\* class label of a call: the method-table row, refined where the spec itself distinguishes input classes
ClsOf(row, a) ==
  row.name \o (IF row.name = "capi.Instant.epoch_nanoseconds" /\ NegBelow2p64(a.recv) THEN "/negative-above-minus-2^64"
               ELSE IF MalformedCode(a) THEN "/malformed-month-code" ELSE "")

(* ------------------------------------------------------------ observability *)
\* numeric accessor values of a receiver, by field name: a swapped accessor is observable on a receiver
\* on which the two fields differ
NumFields(t) ==
  CASE t \in {"zdt", "dt"} -> <<"year", "month", "day", "hour", "minute", "second", "millisecond", "microsecond", "nanosecond",
                                 "day_of_week", "day_of_year", "week_of_year", "days_in_week", "days_in_month", "days_in_year", "months_in_year">>
    [] t = "date" -> <<"year", "month", "day", "day_of_week", "day_of_year", "week_of_year", "days_in_week", "days_in_month", "days_in_year", "months_in_year">>
    [] t = "time" -> <<"hour", "minute", "second", "millisecond", "microsecond", "nanosecond">>
    [] t = "dur" -> <<"years", "months", "weeks", "days", "hours", "minutes", "seconds", "milliseconds", "microseconds", "nanoseconds">>
    [] t = "ym" -> <<"year", "month", "days_in_month", "days_in_year", "months_in_year">>
    [] t = "md" -> <<"iso_year", "iso_month", "iso_day">>
    [] OTHER -> <<>>
OptFields == {"week_of_year", "year_of_week"}
FV(f, v) == IF f \in OptFields THEN v[1] ELSE v
FieldVal(t, v, f) ==
  CASE t = "zdt" -> IF f \in TimeFieldNames THEN TimeField(ZTime(v), f) ELSE FV(f, DateField(ZDate(v), f))
    [] t = "dt" -> IF f \in TimeFieldNames THEN TimeField(TimeOfDt(v), f) ELSE FV(f, DateField(DateOfDt(v), f))
    [] t = "date" -> FV(f, DateField(v, f))
    [] t = "time" -> TimeField(v, f)
    [] t = "dur" -> DurField(v, f)
    [] t = "ym" -> FV(f, DateField(Date(v.y, v.m, 1), f))
    [] t = "md" -> FV(f, DateField(Date(GetOr(v, "y", 1972), v.m, v.d), f))
PairwiseDistinct(t, v) == LET fs == NumFields(t) IN \A i, j \in 1..Len(fs) : i < j => FieldVal(t, v, fs[i]) # FieldVal(t, v, fs[j])
SpecComputable(c) == CASE c.t = "zdt" -> ZComputable(c.v)
                       [] c.t \in {"date", "dt", "ym", "md"} -> IsIso(c.v)
                       [] OTHER -> TRUE

(* ---------------------------------------------------------- state machine *)
CONSTANTS Receivers,           \* sequence of [t |-> type, v |-> value, primary |-> BOOLEAN]; [t |-> "none"] stands for associated functions
          ArgPool(_, _),       \* (sig, receiver) -> sequence of argument records (without recv / twin)
          OneStep              \* (sequences, not sets: the records are heterogeneous)
VARIABLES cur, last
vars == <<cur, last>>
None == [op |-> "none"]

Init == (\E i \in 1..Len(Receivers) : cur = Receivers[i]) /\ last = None
ArgsOf(row, c, x) == (IF row.recv = "none" THEN NoArgs ELSE [recv |-> c.v]) @@ x @@ [twin |-> row.twin]
Call(row, x) == /\ row.recv = cur.t
                /\ LET a == ArgsOf(row, cur, x)
                   IN last' = [op |-> "call", wrapper |-> row.name, twin |-> row.twin, args |-> a, expected |-> Expected(row, a), cls |-> ClsOf(row, a)]
                /\ cur' = cur
Next == /\ (OneStep => last = None)
        /\ \E row \in {r \in Table : r.recv = cur.t} : LET pool == ArgPool(row.sig, cur) IN \E i \in 1..Len(pool) : Call(row, pool[i])
Spec == Init /\ [][Next]_vars

(* -------------------------------------------------------------- invariants *)
\* every primary receiver has pairwise distinct numeric fields (so any swapped accessor shows on it)
DistinctFields == (cur.t # "none" /\ cur.primary) => PairwiseDistinct(cur.t, cur.v)
\* the expectation never claims more than "same" for receivers the spec cannot compute
NoOverclaim == (last.op = "call" /\ cur.t # "none" /\ ~SpecComputable(cur)) => last.expected.kind = "same"
ExpectedWellFormed == last.op = "call" => last.expected.kind \in {"ok", "same", "range", "type"}
=============================================================================
