------------------------------ MODULE YearMonth ------------------------------
(***************************************************************************)
(* PlainYearMonth / PlainMonthDay with their hidden reference part (C18).   *)
(* A year-month is [y, m, rd] (rd = hidden reference day), a month-day is   *)
(* [m, d, ry] (ry = hidden reference year).  Every construction route but   *)
(* the explicit reference argument of the low-level constructor yields the  *)
(* canonical hidden part (day 1 / year 1972).  Arithmetic counts whole      *)
(* months from the first of the month (DateArith on [y, m, 1]).             *)
(* Pure operators; the state machine and the laws are in YearMonthMachine.  *)
(*                                                                          *)
(* Outcomes: Ok(v) | ErrRange | ErrType, possibly with a field `alt`: a     *)
(* second acceptable outcome kind where the property's wording leaves two   *)
(* readings (see Either below).                                             *)
(***************************************************************************)
EXTENDS Partial

YMV(y, m, rd) == [y |-> y, m |-> m, rd |-> rd]
MDV(m, d, ry) == [m |-> m, d |-> d, ry |-> ry]
RefYear == 1972

Either(o, altKind) == o @@ [alt |-> altKind]
\* observed outcome `obs` is allowed by specified outcome `exp`
AgreesAlt(exp, obs) ==
  \/ obs.kind = exp.kind /\ (exp.kind = "ok" => obs.val = exp.val)
  \/ ("alt" \in DOMAIN exp /\ obs.kind = exp.alt)
  \/ (exp.kind = "err" /\ obs.kind \in {"type", "range"})

(* ---------------- strings ---------------- *)
\* decimal, zero-padded to at least w digits
RECURSIVE PadN(_, _)
PadN(n, w) == IF w <= 1 THEN ToString(n) ELSE PadN(n \div 10, w - 1) \o ToString(n % 10)
Pad2(n) == PadN(n, 2)
YearStr(y) == IF y >= 0 /\ y <= 9999 THEN PadN(y, 4) ELSE (IF y < 0 THEN "-" ELSE "+") \o PadN(AbsI(y), 6)
CalSuffix == "[u-ca=iso8601]"
YmStr(v) == YearStr(v.y) \o "-" \o Pad2(v.m)
YmStrAlways(v) == YmStr(v) \o "-" \o Pad2(v.rd) \o CalSuffix
MdStr(v) == Pad2(v.m) \o "-" \o Pad2(v.d)
MdStrAlways(v) == YearStr(v.ry) \o "-" \o MdStr(v) \o CalSuffix
\* what the harness projects of a value: fields, hidden part, both strings, month code
YmFull(v) == [y |-> v.y, m |-> v.m, rd |-> v.rd, s |-> YmStr(v), sa |-> YmStrAlways(v), mc |-> CodeOf(v.m)]
MdFull(v) == [m |-> v.m, d |-> v.d, ry |-> v.ry, s |-> MdStr(v), sa |-> MdStrAlways(v), mc |-> CodeOf(v.m)]
FullOf(kind, o) == IF o.kind # "ok" THEN o ELSE [o EXCEPT !.val = IF kind = "ym" THEN YmFull(@) ELSE MdFull(@)]

(* ---------------- construction routes of a year-month ---------------- *)
\* a string: year-month, optionally a day (d = 0: none) and a time-of-day suffix t ("" or "T10:00" ...); the components are
\* what the string was written from, YmRouteStr rebuilds the text
YmRouteStr(r) == YearStr(r.y) \o "-" \o Pad2(r.m) \o (IF r.d = 0 THEN "" ELSE "-" \o Pad2(r.d)) \o r.t
YmFromString(r) ==
  IF r.m \notin 1..12 \/ (r.d # 0 /\ r.d > DIM(r.y, r.m)) \/ (r.d = 0 /\ r.t # "") THEN ErrRange     \* not a date / not a string of the goal
  ELSE IF YmInLimits(r.y, r.m) THEN Ok(YMV(r.y, r.m, 1)) ELSE ErrRange
\* from a plain date (which must itself exist)
IsPlainDate(dt) == YearOK(dt.y) /\ ValidDate(dt) /\ DateInLimits(dt)
YmFromDate(dt) == IF IsPlainDate(dt) THEN Ok(YMV(dt.y, dt.m, 1)) ELSE ErrRange
\* a field record: year, month | monthCode; a day entry is not a field of a year-month (PrepareCalendarFields reads year, month and
\* monthCode only): it is never read - not even to be refused under reject - and never reaches the hidden part
YmFromPartial(p, ovf) == FromPartialYm(Restrict(p, YmKeys), ovf)
\* the low-level constructor: without a reference argument the hidden day is 1; otherwise the explicit reference day (regulated like a date)
YmNew(y, m, hasRef, rd, ovf) ==
  IF ~YearOK(y) THEN ErrRange
  ELSE LET r == RegDate(y, m, IF hasRef THEN rd ELSE 1, ovf)
       IN IF r.kind # "ok" THEN r
          ELSE IF YmInLimits(r.val.y, r.val.m) THEN Ok(YMV(r.val.y, r.val.m, r.val.d)) ELSE ErrRange
YmRoute(r) ==
  CASE r.k = "str" -> YmFromString(r)
    [] r.k = "date" -> YmFromDate(r.d)
    [] r.k = "partial" -> YmFromPartial(r.p, r.ovf)
    [] r.k = "new" -> YmNew(r.y, r.m, Sup(r, "rd"), Fld(r, "rd", 1), r.ovf)
    [] r.k = "with" -> WithYm(r.recv, r.p, r.ovf)
    [] r.k = "default" -> Ok(YMV(1970, 1, 1))
Explicit(r) == r.k = "new" /\ Sup(r, "rd")

(* ---------------- construction routes of a month-day ---------------- *)
\* string forms: "MM-DD", "--MM-DD", "MMDD", "--MMDD"; and a full date "YYYY-MM-DD" (year r.y), whose acceptance as a month-day string
\* is a matter of the grammar (C12): here either a RangeError or the canonical month-day of that date
MdRouteStr(r) == CASE r.f = "MM-DD" -> Pad2(r.m) \o "-" \o Pad2(r.d)
                   [] r.f = "--MM-DD" -> "--" \o Pad2(r.m) \o "-" \o Pad2(r.d)
                   [] r.f = "MMDD" -> Pad2(r.m) \o Pad2(r.d)
                   [] r.f = "--MMDD" -> "--" \o Pad2(r.m) \o Pad2(r.d)
                   [] r.f = "YYYY-MM-DD" -> YearStr(r.y) \o "-" \o Pad2(r.m) \o "-" \o Pad2(r.d)
MdFromString(r) ==
  IF r.f = "YYYY-MM-DD"
  \* (a full date: its year is dropped - also when that date lies outside the limits of a PlainDate)
  THEN (IF r.m \in 1..12 /\ r.d >= 1 /\ r.d <= DIM(r.y, r.m) THEN Ok(MDV(r.m, r.d, RefYear)) ELSE ErrRange)
  ELSE IF r.m \in 1..12 /\ r.d >= 1 /\ r.d <= DIM(RefYear, r.m) THEN Ok(MDV(r.m, r.d, RefYear)) ELSE ErrRange
MdFromDate(dt) == IF IsPlainDate(dt) THEN Ok(MDV(dt.m, dt.d, RefYear)) ELSE ErrRange
\* without a reference argument the hidden year is 1972; otherwise the explicit reference year
MdNew(m, d, hasRef, ry, ovf) ==
  LET y == IF hasRef THEN ry ELSE RefYear
  IN IF ~YearOK(y) THEN ErrRange
     ELSE LET r == DateChecked(RegDate(y, m, d, ovf))
          IN IF r.kind # "ok" THEN r ELSE Ok(MDV(r.val.m, r.val.d, y))
\* a field record (ISOMonthDayFromFields): month | monthCode and day are needed; the day is regulated in the year given, or - without
\* one - in the reference year 1972, a leap year; the result carries the reference year either way
MdFromPartial(p, ovf) ==
  LET q == IF Sup(p, "year") THEN p ELSE [k \in DOMAIN p \cup {"year"} |-> IF k = "year" THEN RefYear ELSE p[k]]
      o == FromPartialDate(q, ovf)
  IN IF o.kind = "ok" THEN Ok(MDV(o.val.m, o.val.d, RefYear)) ELSE o
MdRoute(r) ==
  CASE r.k = "str" -> MdFromString(r)
    [] r.k = "date" -> MdFromDate(r.d)
    [] r.k = "new" -> MdNew(r.m, r.d, Sup(r, "ry"), Fld(r, "ry", RefYear), r.ovf)
    [] r.k = "default" -> Ok(MDV(1, 1, RefYear))
    [] r.k = "partial" -> MdFromPartial(r.p, r.ovf)
MdExplicit(r) == r.k = "new" /\ Sup(r, "ry")

(* ---------------- comparison / equality of two values ---------------- *)
YmCmp(a, b) == CmpDate(Date(a.y, a.m, a.rd), Date(b.y, b.m, b.rd))
YmCmpOut(a, b) == [cmp |-> YmCmp(a, b), eq |-> a = b, same_s |-> YmStr(a) = YmStr(b), same_sa |-> YmStrAlways(a) = YmStrAlways(b)]
MdCmpOut(a, b) == [eq |-> a = b, same_s |-> MdStr(a) = MdStr(b), same_sa |-> MdStrAlways(a) = MdStrAlways(b)]

(* ---------------- arithmetic: whole years and months, from the first of the month ---------------- *)
First(v) == Date(v.y, v.m, 1)
\* is the first of the month itself a representable plain date?  (not for -271821-04, whose dates start on the 19th)
FirstIsDate(y, m) == YearOK(y) /\ InDateRange(DaysFromCivil(y, m, 1))
\* closed form: month index arithmetic, limits of the year-month range
AddYmI(v, yrs, mons) ==
  LET t == BalYM(v.y + yrs, v.m + mons)
  IN IF ~YmInLimits(t.y, t.m) THEN ErrRange
     ELSE IF FirstIsDate(v.y, v.m) /\ FirstIsDate(t.y, t.m) THEN Ok(YMV(t.y, t.m, 1))
     ELSE Either(Ok(YMV(t.y, t.m, 1)), "range")      \* "as plain-date arithmetic" has no date to start from / to land on
\* literally "plain-date arithmetic from the first of the month" (only defined when the first is a date)
AddYmViaDate(v, yrs, mons, ovf) ==
  LET r == AddDateI(First(v), yrs, mons, 0, 0, ovf)
  IN IF r.kind # "ok" THEN r ELSE IF YmInLimits(r.val.y, r.val.m) THEN Ok(YMV(r.val.y, r.val.m, 1)) ELSE ErrRange
\* a duration that also carries weeks, days or hours: "exactly as plain-date arithmetic from the first of the month" - the whole hours
\* count as days (24 h each, toward zero), and the year-month of the date reached is the answer
AddYmFull(v, yrs, mons, wks, days, hours, ovf) ==
  IF ~FirstIsDate(v.y, v.m) THEN [kind |-> "any"]
  ELSE LET hd == IF hours >= 0 THEN hours \div 24 ELSE -((-hours) \div 24)
           r == AddDateI(First(v), yrs, mons, wks, days + hd, ovf)
       IN IF r.kind # "ok" THEN r ELSE IF YmInLimits(r.val.y, r.val.m) THEN Ok(YMV(r.val.y, r.val.m, 1)) ELSE ErrRange
\* with a duration of bigs (trace validation): only year/month durations are specified
YmDurOK(D) == IsZero(D.w) /\ IsZero(D.d) /\ IsZero(D.h) /\ IsZero(D.mi) /\ IsZero(D.s) /\ IsZero(D.ms) /\ IsZero(D.us) /\ IsZero(D.ns)
AddYm(v, D) == IF ~AbsLe(D.y, CapY) \/ ~AbsLe(D.mo, CapMo) THEN ErrRange ELSE AddYmI(v, ToInt(D.y), ToInt(D.mo))
SubYm(v, D) == AddYm(v, NegDur(D))

\* difference settings: largest in {auto, year, month}, smallest in {absent, month}; week / day anywhere are refused
DiffUnitsRefused(st) == Fld(st, "largest", "auto") \in {"week", "day"} \/ Fld(st, "smallest", "month") \in {"week", "day"}
YmLargest(st) == LET u == Fld(st, "largest", "auto") IN IF u = "auto" THEN "year" ELSE u
YmDiffI(a, b, largest) == Diff(First(a), First(b), largest)
YmUntil(a, b, st, sign) ==
  IF DiffUnitsRefused(st) THEN ErrRange
  ELSE LET r == YmDiffI(a, b, YmLargest(st))
           o == Ok(DateDur(sign * r.y, sign * r.mo, 0, 0))
       IN IF FirstIsDate(a.y, a.m) /\ FirstIsDate(b.y, b.m) THEN o ELSE Either(o, "range")

(* ---------------- class labels ---------------- *)
LimitTag(y, m) == IF ~YearOK(y) THEN "beyond" ELSE IF ~YmInLimits(y, Clamp(m, 1, 12)) THEN "beyond"
                  ELSE IF (y = -271821 /\ m <= 4) THEN "min" ELSE IF (y = 275760 /\ m >= 9) THEN "max" ELSE "mid"
YmRouteCls(r) ==
  CASE r.k = "str" -> "str" \o (IF r.d = 0 THEN "" ELSE "+day") \o (IF r.t = "" THEN "" ELSE "+time") \o "/" \o LimitTag(r.y, r.m)
    [] r.k = "date" -> "date/" \o LimitTag(r.d.y, r.d.m)
    [] r.k = "partial" -> IF Sup(r.p, "year") /\ ~YearOK(r.p.year) THEN "partial/beyond/" \o r.ovf
                          ELSE IF Sup(r.p, "day") THEN "partial+day/" \o r.ovf
                          ELSE "partial/" \o MonthSrc(r.p) \o "/" \o r.ovf
    [] r.k = "new" -> "new" \o (IF Sup(r, "rd") THEN "+ref" ELSE "") \o "/" \o LimitTag(r.y, r.m) \o "/" \o r.ovf
    [] r.k = "with" -> "with/" \o Cls("yearmonth", "with", r.recv, r.p, r.ovf)
    [] r.k = "default" -> "default"
MdRouteCls(r) ==
  LET Feb(m, d) == IF m = 2 /\ d = 29 THEN "/feb29" ELSE ""
  IN CASE r.k = "str" -> "str/" \o r.f \o Feb(r.m, r.d)
       [] r.k = "date" -> "date" \o Feb(r.d.m, r.d.d)
       [] r.k = "new" -> IF Sup(r, "ry") THEN "new+ref" \o (IF ~YearOK(r.ry) THEN "/beyond" ELSE Feb(r.m, r.d)) \o "/" \o r.ovf
                         ELSE "new" \o Feb(r.m, r.d) \o "/" \o r.ovf
       [] r.k = "default" -> "default"
       [] r.k = "partial" -> "partial" \o (IF Sup(r.p, "year") THEN "+year" ELSE "") \o "/" \o r.ovf
\* comparisons of two routes: which special kinds of route take part
CmpTag(kind, r) == IF kind = "ym" THEN (IF Explicit(r) THEN "explicit" ELSE IF r.k = "partial" /\ Sup(r.p, "day") THEN "partial+day" ELSE "plain")
                   ELSE (IF MdExplicit(r) THEN "explicit" ELSE "plain")
CmpCls(kind, a, b) == LET ta == CmpTag(kind, a)  tb == CmpTag(kind, b)
                      IN IF ta = tb THEN ta ELSE IF ta = "plain" THEN tb \o "~plain" ELSE IF tb = "plain" THEN ta \o "~plain" ELSE "explicit~partial+day"
RefIsDate(v) == DateInLimits(Date(v.y, v.m, v.rd))
ArithCls(recv, other) ==
  (IF recv.rd # 1 \/ other.rd # 1 THEN "explicit-ref" ELSE "canonical") \o "/"
  \o (IF ~FirstIsDate(recv.y, recv.m) \/ ~FirstIsDate(other.y, other.m) THEN "min-month"
      ELSE IF ~RefIsDate(recv) \/ ~RefIsDate(other) THEN "ref-not-a-date"      \* explicit reference day after +275760-09-13
      ELSE "in-range")
=============================================================================
