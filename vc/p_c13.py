"""C13 — wall-clock <-> instant conversion follows the zone's offsets and the options."""
from . import lib
from .props import quick, corrupt_first, head_of


def run(run):
    b = lib.build_harness("dev")
    q = quick(run)
    cases, n = run.gen("mc/MC_TimeZone.tla", "gen/Gen_C13_q.cfg", workers=8, name="zones", timeout=1500)
    run.replay(b, cases, label="zones")
    run.negative_control_replay(b, cases, corrupt_first(lambda e: e["op"] == "Zoned.fromLocal" and e["out"]["kind"] == "ok", lambda e: e["out"].__setitem__("val", e["out"]["val"] + 1)))
    tr = run.record(b, "c13", 8000 if q else 120000)
    run.validate("trace/Trace_Zone.tla", "trace/Trace_Zone.cfg", tr)
    small = head_of(run, tr, 300, "c13.small.trace.ndjson")
    run.negative_control_trace("trace/Trace_Zone.tla", "trace/Trace_Zone.cfg", small,
                               corrupt_first(lambda e: e.get("op") == "Zoned.fromLocal" and e["out"]["kind"] == "ok", lambda e: e["out"].__setitem__("val", e["out"]["val"] + 60)))
    run.cov["rule"] = ("replay: every (zone, wall reading, disambiguation), (zone, instant) and (zone, wall reading, explicit offset / Z / none, offset option) transition of the bounded TimeZone instance "
                      "(169 zones with 0-2 transitions incl. 30 min, LMT seconds, -10h -> +14h / +16h date-line jumps) on the synthetic provider and on fixed-offset zones; traces: seeded random synthetic zones")
    run.cov["distinct_nontrivial"] = run.cov["evaluations"]
    run.assumptions += ["named zones are exercised through a table-driven synthetic TimeZoneProvider (harness/src/synth_tz.rs) whose answers are OffsetAt / PossibleSet by definition; real IANA data are C15's subject",
                        "every value carries the sub-second part .123456789, which every operation must leave unchanged"]
