SPECIFICATION Spec
CONSTANTS
  Receivers <- DateTimeLimitReceivers
  PartialsOf <- DateTimeLimP
  FromTypes <- FromDateTime
  NewArgs <- NoSet
  IdentityOn = TRUE
  OneStep = TRUE
INVARIANTS UsesOnlySupplied DefaultsAreZero IdentityLaw ClampNearest RejectSound RejectComplete ConstrainComplete RejectRefinesConstrain TypeErrorIff WellFormed
CHECK_DEADLOCK FALSE
