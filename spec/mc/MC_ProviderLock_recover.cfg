\* the design the property states: a poisoned lock is recovered. ALL properties hold.
\* 3 threads x 2 calls x 3 zones (+ the zone-less call) x {ok, unknown zone, out of range, panic}, exhaustive.
SPECIFICATION Spec
CONSTANTS
  Threads = {1, 2, 3}
  Zones = {"za", "zb", "zc"}
  ZoneOpts = {"za", "zb", "zc", "-"}
  PanicZones = {"za", "zb", "zc", "-"}
  Kinds = {"ok", "unknown", "range", "panic"}
  NCalls = 2
  KeepHist = FALSE
  PoisonBehaviour = "recover"
INVARIANTS TypeOK MutualExclusion Linearizable FailureIsolation CacheIsMemo PoisonOnlyByPanic
PROPERTY Termination
CHECK_DEADLOCK TRUE
