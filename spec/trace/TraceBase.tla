----------------------------- MODULE TraceBase -----------------------------
(***************************************************************************)
(* Common part of all trace specifications (impl -> spec).                  *)
(* The harness writes one NDJSON line per public call at its return:        *)
(*   {"op": ..., "args": {...}, "out": {"kind": ..., "val": ...}}           *)
(* `l` is the position in the trace. A trace spec consumes exactly one line *)
(* per step, either by a Match step (the specification's action explains    *)
(* the logged outcome) or by a Mismatch step (it does not: a MISMATCH line  *)
(* is printed with the spec-computed class label and the state is resynced  *)
(* to what the implementation reported, so the rest of the trace is still   *)
(* checked). vcheck turns every MISMATCH into a VIOLATION unless the        *)
(* (op, cls) pair is a listed known finding.                                *)
(***************************************************************************)
EXTENDS Integers, Sequences, Json, IOUtils, TLC

Rec == ndJsonDeserialize(IOEnv.TRACE)
NEv == Len(Rec)

Has(r, k) == k \in DOMAIN r
Get(r, k, dflt) == IF k \in DOMAIN r THEN r[k] ELSE dflt

Report(i, op, cls, expected, observed) ==
  PrintT("MISMATCH " \o ToJson([i |-> i, op |-> op, cls |-> cls, expected |-> expected, observed |-> observed]))

\* POSTCONDITION: every line was consumed (one state per line plus the initial state)
Accepted == LET d == TLCGet("stats").diameter
            IN IF d - 1 = NEv THEN PrintT("TRACE-ACCEPTED " \o ToString(NEv))
               ELSE Print(<<"TRACE-STUCK at event", d, IF d <= NEv THEN Rec[d] ELSE "eof">>, FALSE)
=============================================================================
