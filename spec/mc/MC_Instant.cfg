SPECIFICATION Spec
CONSTANTS
  Insts <- MCInsts
  Durs <- MCDurs
  OneStep = TRUE
INVARIANTS CurInRange AddLaws DiffLaws MsLaw
CHECK_DEADLOCK FALSE
