SPECIFICATION Spec
CONSTANTS
  StartDay <- ZStart
  StartDate <- ZDate
  Lo <- ZStart
  Hi <- ZHi
INVARIANTS ClosedFormAgrees WellFormed Cycle DoyRule WeekRules OrderIso RangeEnds 
CHECK_DEADLOCK FALSE
