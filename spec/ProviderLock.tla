---------------------------- MODULE ProviderLock ----------------------------
(***************************************************************************)
(* C20 - the process-wide time-zone provider behind the convenience         *)
(* ("compiled") API:  TZ_PROVIDER: LazyLock<Mutex<FsTzdbProvider>>, with    *)
(* FsTzdbProvider { cache: RefCell<BTreeMap<String, Tzif>> }.               *)
(*                                                                          *)
(* Processes are caller threads.  Every wrapper call is ONE critical        *)
(* section:  Acquire ; Lookup ; Compute ; (Panic | Release).                *)
(*                                                                          *)
(*   Acquire  blocks while the mutex is held.  std::sync::Mutex hands a      *)
(*            poisoned mutex over as Err(PoisonError(guard)); what the       *)
(*            wrapper does with it is the CONSTANT PoisonBehaviour:          *)
(*              "error"   - lock().map_err(|_| general("Unable to acquire    *)
(*                          lock"))?  : the guard is dropped, the call       *)
(*                          fails (what the code does today);                *)
(*              "recover" - take the guard out of the PoisonError and go on  *)
(*                          (what the property states).                      *)
(*   Lookup   FsTzdbProvider::get : cache hit, or miss + insert, or an I/O   *)
(*            error for an unknown zone (a failed lookup inserts nothing).   *)
(*   Compute  the provider-independent rest of the call: a value, or a       *)
(*            RangeError for an out-of-range value, or a panic.              *)
(*   Panic    unwinding drops the guard: the mutex is released and marked    *)
(*            poisoned.                                                      *)
(*   Release  the guard is dropped normally.                                 *)
(*                                                                          *)
(* A call is [kind, zone]; kind \in {ok, unknown, range, panic}.  F(call)    *)
(* is the result of the call executed alone (sequential semantics).         *)
(***************************************************************************)
EXTENDS Naturals, Sequences, FiniteSets, TLC

CONSTANTS Threads,          \* caller threads (positive integers)
          Zones,            \* zones that exist (have a TZif file)
          ZoneOpts,         \* zones a value-producing call may name: subset of Zones \cup {NoZone}
          PanicZones,       \* zones a panicking call may name (NoZone = the injected fault, which looks nothing up)
          Kinds,            \* subset of {"ok","unknown","range","panic"}
          NCalls,           \* calls per thread
          PoisonBehaviour,  \* "error" | "recover"
          KeepHist          \* TRUE: record the acquisition order and outcomes (for case generation)

None    == 0                \* no holder (threads are numbered from 1)
NoZone  == "-"              \* the call needs no zone file (fixed-offset zone; error before the lookup; injected panic)
BadZone == "?"              \* a zone identifier without a TZif file

ASSUME /\ PoisonBehaviour \in {"error", "recover"}
       /\ Kinds \subseteq {"ok", "unknown", "range", "panic"}
       /\ ZoneOpts \subseteq Zones \cup {NoZone} /\ PanicZones \subseteq Zones \cup {NoZone}
       /\ BadZone \notin Zones /\ NoZone \notin Zones /\ Threads \subseteq Nat \ {None}
       /\ NCalls \in Nat /\ KeepHist \in BOOLEAN

Calls == {[kind |-> k, zone |-> z] : k \in Kinds \cap {"ok", "range"}, z \in ZoneOpts}
         \cup {[kind |-> "panic", zone |-> z] : z \in (IF "panic" \in Kinds THEN PanicZones ELSE {})}
         \cup (IF "unknown" \in Kinds THEN {[kind |-> "unknown", zone |-> BadZone]} ELSE {})

NoCall == [kind |-> "-", zone |-> NoZone]
NoRes  == [kind |-> "-"]

\* results
OkVal(z)  == [kind |-> "ok", val |-> z]      \* the value depends on the zone's data only
IoErr     == [kind |-> "ioerr"]
RangeErr  == [kind |-> "range"]
Panicked  == [kind |-> "panic"]
LockErr   == [kind |-> "lockerr"]

\* the sequential result: what the call returns when it runs alone
F(c) == CASE c.kind = "ok"      -> OkVal(c.zone)
          [] c.kind = "unknown" -> IoErr
          [] c.kind = "range"   -> RangeErr
          [] c.kind = "panic"   -> Panicked

Failed(r) == r.kind # "ok"

\* FsTzdbProvider::get as a function of the cache: what one lookup of zone z observes and leaves behind,
\* `zones` being the identifiers that have a TZif file (shared with the trace specification)
LookupKind(c, z, zones) == IF z = NoZone THEN "none" ELSE IF z \in c THEN "hit" ELSE IF z \in zones THEN "miss" ELSE "fail"
CacheAfter(c, z, zones) == IF z \in zones THEN c \cup {z} ELSE c      \* a failed lookup inserts nothing

\* what acquiring the lock does to the result: only the "error" design lets the poison flag change it
Outcome(fres, poisonedAtAcquire) == IF poisonedAtAcquire /\ PoisonBehaviour = "error" THEN LockErr ELSE fres

(***************************************************************************
--fair algorithm ProviderLock {
  variables holder = None,        \* thread holding the mutex
            poisoned = FALSE,     \* the mutex's poison flag
            cache = {},           \* zones whose TZif has been parsed and memoised
            failed = FALSE,       \* some call has already completed with an error or a panic
            panicked = FALSE,     \* some call has panicked inside the provider (history variable)
            order = << >>;        \* history (KeepHist only): calls in lock-acquisition order with their outcomes

  \* last step of a call: count it, remember that a call failed, record the outcome, forget the locals
  macro finish(pflag) {
    failed := failed \/ Failed(res);
    n := n + 1;
    if (KeepHist) { order[slot] := [t |-> self, kind |-> cl.kind, zone |-> cl.zone, res |-> res, lk |-> lk, pz |-> pflag] };
    cl := NoCall; res := NoRes; lk := "none"; afterFail := FALSE; slot := 0;
  }

  process (t \in Threads)
    variables n = 0,              \* calls completed by this thread
              cl = NoCall,        \* the call in progress
              res = NoRes,        \* its result, once determined (NoRes before)
              lk = "none",        \* what its Lookup did: none | hit | miss | fail
              afterFail = FALSE,  \* the call started after some call had failed
              slot = 0;           \* its position in `order`
  {
   Loop:    while (n < NCalls) {
   Acquire:   await holder = None;
              with (c \in Calls) { cl := c };
              afterFail := failed;
              if (KeepHist) { order := Append(order, [t |-> self, kind |-> cl.kind, zone |-> cl.zone]); slot := Len(order) };
              if (poisoned /\ PoisonBehaviour = "error") {
                 \* lock() returned Err(PoisonError): map_err drops the guard, `?` returns the error
                 res := LockErr;
                 goto Fail
              } else {
                 holder := self
              };
   Lookup:    lk := LookupKind(cache, cl.zone, Zones);
              cache := CacheAfter(cache, cl.zone, Zones);
              if (lk = "fail") { res := IoErr; goto Release };        \* read_tzif failed: nothing inserted
   Compute:   if (cl.kind = "panic") { res := Panicked; goto Panic }
              else if (cl.kind = "range") { res := RangeErr }
              else { res := OkVal(cl.zone) };
   Release:   holder := None;
              finish(poisoned);
              goto Loop;
   Panic:     \* unwinding: MutexGuard::drop sees thread::panicking() and poisons the mutex
              holder := None; poisoned := TRUE; panicked := TRUE;
              finish(TRUE);
              goto Loop;
   Fail:      finish(poisoned);
            }
  }
}
 ***************************************************************************)
\* BEGIN TRANSLATION
VARIABLES pc, holder, poisoned, cache, failed, panicked, order, n, cl, res, 
          lk, afterFail, slot

vars == << pc, holder, poisoned, cache, failed, panicked, order, n, cl, res, 
           lk, afterFail, slot >>

ProcSet == (Threads)

Init == (* Global variables *)
        /\ holder = None
        /\ poisoned = FALSE
        /\ cache = {}
        /\ failed = FALSE
        /\ panicked = FALSE
        /\ order = << >>
        (* Process t *)
        /\ n = [self \in Threads |-> 0]
        /\ cl = [self \in Threads |-> NoCall]
        /\ res = [self \in Threads |-> NoRes]
        /\ lk = [self \in Threads |-> "none"]
        /\ afterFail = [self \in Threads |-> FALSE]
        /\ slot = [self \in Threads |-> 0]
        /\ pc = [self \in ProcSet |-> "Loop"]

Loop(self) == /\ pc[self] = "Loop"
              /\ IF n[self] < NCalls
                    THEN /\ pc' = [pc EXCEPT ![self] = "Acquire"]
                    ELSE /\ pc' = [pc EXCEPT ![self] = "Done"]
              /\ UNCHANGED << holder, poisoned, cache, failed, panicked, order, 
                              n, cl, res, lk, afterFail, slot >>

Acquire(self) == /\ pc[self] = "Acquire"
                 /\ holder = None
                 /\ \E c \in Calls:
                      cl' = [cl EXCEPT ![self] = c]
                 /\ afterFail' = [afterFail EXCEPT ![self] = failed]
                 /\ IF KeepHist
                       THEN /\ order' = Append(order, [t |-> self, kind |-> cl'[self].kind, zone |-> cl'[self].zone])
                            /\ slot' = [slot EXCEPT ![self] = Len(order')]
                       ELSE /\ TRUE
                            /\ UNCHANGED << order, slot >>
                 /\ IF poisoned /\ PoisonBehaviour = "error"
                       THEN /\ res' = [res EXCEPT ![self] = LockErr]
                            /\ pc' = [pc EXCEPT ![self] = "Fail"]
                            /\ UNCHANGED holder
                       ELSE /\ holder' = self
                            /\ pc' = [pc EXCEPT ![self] = "Lookup"]
                            /\ res' = res
                 /\ UNCHANGED << poisoned, cache, failed, panicked, n, lk >>

Lookup(self) == /\ pc[self] = "Lookup"
                /\ lk' = [lk EXCEPT ![self] = LookupKind(cache, cl[self].zone, Zones)]
                /\ cache' = CacheAfter(cache, cl[self].zone, Zones)
                /\ IF lk'[self] = "fail"
                      THEN /\ res' = [res EXCEPT ![self] = IoErr]
                           /\ pc' = [pc EXCEPT ![self] = "Release"]
                      ELSE /\ pc' = [pc EXCEPT ![self] = "Compute"]
                           /\ res' = res
                /\ UNCHANGED << holder, poisoned, failed, panicked, order, n, 
                                cl, afterFail, slot >>

Compute(self) == /\ pc[self] = "Compute"
                 /\ IF cl[self].kind = "panic"
                       THEN /\ res' = [res EXCEPT ![self] = Panicked]
                            /\ pc' = [pc EXCEPT ![self] = "Panic"]
                       ELSE /\ IF cl[self].kind = "range"
                                  THEN /\ res' = [res EXCEPT ![self] = RangeErr]
                                  ELSE /\ res' = [res EXCEPT ![self] = OkVal(cl[self].zone)]
                            /\ pc' = [pc EXCEPT ![self] = "Release"]
                 /\ UNCHANGED << holder, poisoned, cache, failed, panicked, 
                                 order, n, cl, lk, afterFail, slot >>

Release(self) == /\ pc[self] = "Release"
                 /\ holder' = None
                 /\ failed' = (failed \/ Failed(res[self]))
                 /\ n' = [n EXCEPT ![self] = n[self] + 1]
                 /\ IF KeepHist
                       THEN /\ order' = [order EXCEPT ![slot[self]] = [t |-> self, kind |-> cl[self].kind, zone |-> cl[self].zone, res |-> res[self], lk |-> lk[self], pz |-> poisoned]]
                       ELSE /\ TRUE
                            /\ order' = order
                 /\ cl' = [cl EXCEPT ![self] = NoCall]
                 /\ res' = [res EXCEPT ![self] = NoRes]
                 /\ lk' = [lk EXCEPT ![self] = "none"]
                 /\ afterFail' = [afterFail EXCEPT ![self] = FALSE]
                 /\ slot' = [slot EXCEPT ![self] = 0]
                 /\ pc' = [pc EXCEPT ![self] = "Loop"]
                 /\ UNCHANGED << poisoned, cache, panicked >>

Panic(self) == /\ pc[self] = "Panic"
               /\ holder' = None
               /\ poisoned' = TRUE
               /\ panicked' = TRUE
               /\ failed' = (failed \/ Failed(res[self]))
               /\ n' = [n EXCEPT ![self] = n[self] + 1]
               /\ IF KeepHist
                     THEN /\ order' = [order EXCEPT ![slot[self]] = [t |-> self, kind |-> cl[self].kind, zone |-> cl[self].zone, res |-> res[self], lk |-> lk[self], pz |-> TRUE]]
                     ELSE /\ TRUE
                          /\ order' = order
               /\ cl' = [cl EXCEPT ![self] = NoCall]
               /\ res' = [res EXCEPT ![self] = NoRes]
               /\ lk' = [lk EXCEPT ![self] = "none"]
               /\ afterFail' = [afterFail EXCEPT ![self] = FALSE]
               /\ slot' = [slot EXCEPT ![self] = 0]
               /\ pc' = [pc EXCEPT ![self] = "Loop"]
               /\ cache' = cache

Fail(self) == /\ pc[self] = "Fail"
              /\ failed' = (failed \/ Failed(res[self]))
              /\ n' = [n EXCEPT ![self] = n[self] + 1]
              /\ IF KeepHist
                    THEN /\ order' = [order EXCEPT ![slot[self]] = [t |-> self, kind |-> cl[self].kind, zone |-> cl[self].zone, res |-> res[self], lk |-> lk[self], pz |-> poisoned]]
                    ELSE /\ TRUE
                         /\ order' = order
              /\ cl' = [cl EXCEPT ![self] = NoCall]
              /\ res' = [res EXCEPT ![self] = NoRes]
              /\ lk' = [lk EXCEPT ![self] = "none"]
              /\ afterFail' = [afterFail EXCEPT ![self] = FALSE]
              /\ slot' = [slot EXCEPT ![self] = 0]
              /\ pc' = [pc EXCEPT ![self] = "Loop"]
              /\ UNCHANGED << holder, poisoned, cache, panicked >>

t(self) == Loop(self) \/ Acquire(self) \/ Lookup(self) \/ Compute(self)
              \/ Release(self) \/ Panic(self) \/ Fail(self)

(* Allow infinite stuttering to prevent deadlock on termination. *)
Terminating == /\ \A self \in ProcSet: pc[self] = "Done"
               /\ UNCHANGED vars

Next == (\E self \in Threads: t(self))
           \/ Terminating

Spec == /\ Init /\ [][Next]_vars
        /\ WF_vars(Next)

Termination == <>(\A self \in ProcSet: pc[self] = "Done")

\* END TRANSLATION

-----------------------------------------------------------------------------
InCS(th) == pc[th] \in {"Lookup", "Compute", "Release", "Panic"}
\* the result of the call in progress has been determined (it stays visible until the call's last step)
Completed(th) == res[th] # NoRes

TypeOK == /\ holder \in Threads \cup {None} /\ poisoned \in BOOLEAN /\ cache \subseteq Zones
          /\ \A th \in Threads : n[th] \in 0..NCalls /\ cl[th] \in Calls \cup {NoCall}

\* at most one thread is inside the provider, and it is the holder
MutualExclusion == /\ Cardinality({th \in Threads : InCS(th)}) <= 1
                   /\ \A th \in Threads : InCS(th) <=> holder = th

\* every completed call returned what it returns alone - whatever the interleaving and the cache held
Linearizable == \A th \in Threads : Completed(th) => res[th] = F(cl[th])

\* a call that started after some call had failed (error or panic) still returns what it returns alone
FailureIsolation == \A th \in Threads : (Completed(th) /\ afterFail[th]) => res[th] = F(cl[th])

\* what the "error" design still guarantees: only a poisoned lock changes a result, and only into LockErr
LinearizableUnlessPoisoned ==
  \A th \in Threads : Completed(th) => (res[th] = F(cl[th]) \/ (res[th] = LockErr /\ poisoned))

\* the cache is a memo: it only ever holds zones that exist; a failed lookup inserted nothing
CacheIsMemo == cache \subseteq Zones /\ BadZone \notin cache

\* errors do not poison: the flag is set only by a panic under the lock
PoisonOnlyByPanic == poisoned => panicked

AllDone == \A th \in Threads : pc[th] = "Done"
\* Termination (defined by the translation): <>(AllDone), under weak fairness of every thread.
\* Deadlock freedom: TLC's deadlock check (a state without successor other than AllDone).
=============================================================================
