-------------------------- MODULE MC_RelativeRound --------------------------
EXTENDS RelativeRoundMachine, TLC, Json
QRels == {Date(2020, 1, 31), Date(2020, 2, 29), Date(2019, 12, 31), Date(2020, 1, 1)}
TRels == QRels \cup {Date(2021, 2, 28), Date(2021, 11, 30), Date(2020, 3, 31), Date(2020, 8, 31), Date(2019, 3, 1), Date(0, 2, 29), Date(-1, 12, 31)}
Dm(y, mo, w, d, h, mi, s, ns) == Dur10(FromInt(y), FromInt(mo), FromInt(w), FromInt(d), FromInt(h), FromInt(mi), FromInt(s), Zero, Zero, FromInt(ns))
PosDurs == {Dm(0, 0, 0, 0, 0, 0, 0, 0), Dm(0, 11, 0, 20, 0, 0, 0, 0), Dm(1, 0, 0, 0, 0, 0, 0, 0), Dm(0, 1, 0, 0, 0, 0, 0, 0), Dm(0, 0, 0, 45, 0, 0, 0, 0), Dm(0, 14, 0, 0, 0, 0, 0, 0),
            Dm(1, 10, 0, 10, 0, 0, 0, 0), Dm(0, 0, 3, 4, 12, 0, 0, 0), Dm(0, 0, 0, 380, 0, 0, 0, 0), Dm(0, 1, 0, 15, 12, 0, 0, 0), Dm(0, 0, 0, 0, 36, 0, 0, 0),
            Dm(0, 0, 0, 30, 23, 59, 59, 999999999), Dm(0, 5, 5, 5, 0, 0, 0, 1), Dm(2, 0, 0, 0, 0, 0, 0, 0), Dm(0, 0, 0, 14, 0, 0, 0, 0), Dm(0, 0, 0, 15, 12, 0, 0, 0),
            Dm(0, 11, 4, 3, 0, 0, 0, 0), Dm(0, 0, 0, 28, 0, 0, 0, 0), Dm(0, 0, 0, 29, 0, 0, 0, 0), Dm(0, 6, 0, 0, 0, 0, 0, 0), Dm(0, 0, 1, 0, 0, 0, 0, 0)}
TDurs == PosDurs \cup {NegDur(D) : D \in PosDurs}
QPos == {Dm(0, 11, 0, 20, 0, 0, 0, 0), Dm(1, 0, 0, 0, 0, 0, 0, 0), Dm(0, 1, 0, 0, 0, 0, 0, 0), Dm(0, 0, 0, 45, 0, 0, 0, 0), Dm(1, 10, 0, 10, 0, 0, 0, 0), Dm(0, 0, 3, 4, 12, 0, 0, 0),
         Dm(0, 0, 0, 380, 0, 0, 0, 0), Dm(0, 1, 0, 15, 12, 0, 0, 0), Dm(0, 0, 0, 0, 36, 0, 0, 0), Dm(0, 0, 0, 30, 23, 59, 59, 999999999), Dm(0, 5, 5, 5, 0, 0, 0, 1),
         Dm(0, 11, 4, 3, 0, 0, 0, 0), Dm(0, 0, 0, 29, 0, 0, 0, 0),
         \* days and a time part that end PAST the clamped end of the window (Jan 31 + 1 month = Feb 29; Feb 29 + 1 year = Feb 28): more than a whole unit of progress
         Dm(0, 0, 0, 29, 12, 0, 0, 0), Dm(0, 0, 0, 365, 12, 0, 0, 0)}
QDurs == QPos \cup {NegDur(D) : D \in QPos} \cup {Dm(0, 0, 0, 0, 0, 0, 0, 0)}
QOpts == {o \in [lg : {"year", "month", "week", "day", "hour"}, sm : {"year", "month", "week", "day", "hour", "nanosecond"}, inc : {1, 2, 5}, mode : {"ceil", "floor", "trunc", "halfExpand", "halfEven"}] :
            /\ UnitLe(o.sm, o.lg) /\ (o.sm = "hour" => o.inc \in {1, 2}) /\ (o.sm = "nanosecond" => o.inc \in {1, 5})}
TOpts == {o \in [lg : DateUnits \cup {"hour", "minute"}, sm : DateUnits \cup {"hour", "minute", "nanosecond"}, inc : {1, 2, 3, 5, 7}, mode : Modes] :
            /\ UnitLe(o.sm, o.lg) /\ (o.sm = "hour" => o.inc \in {1, 2, 3}) /\ (o.sm = "minute" => o.inc \in {1, 2, 3, 5}) /\ (o.sm = "nanosecond" => o.inc \in {1, 5})}
\* C04: PlainDate.until / since with rounding options only (one trivial duration; date-unit options with more increments and all modes)
C04Rels == QRels \cup {Date(2021, 2, 28), Date(2020, 3, 31), Date(2019, 3, 1)}
C04Durs == {Dm(0, 0, 0, 0, 0, 0, 0, 0)}
C04Opts == {o \in [lg : DateUnits, sm : DateUnits, inc : {1, 2, 3, 7}, mode : Modes] : UnitLe(o.sm, o.lg)}
\* C05: PlainDateTime.until / since with rounding options
C05Opts == {o \in [lg : {"year", "month", "week", "day", "hour", "second"}, sm : {"month", "week", "day", "hour", "minute", "second", "nanosecond"}, inc : {1, 2, 15}, mode : {"trunc", "ceil", "halfExpand"}] :
              /\ UnitLe(o.sm, o.lg) /\ (o.sm = "hour" => o.inc \in {1, 2}) /\ (o.sm = "nanosecond" => o.inc \in {1, 2})}
\* C07: the neighbouring multiple in NudgeToDayOrTime - every hour increment, every mode, totals that are exact ties of whole days plus hours
\* (8 h: three multiples a day, so the parity of a multiple within the day differs from its parity in the total)
C07Rels == {Date(2020, 1, 1), Date(2020, 1, 31)}
C07Durs == {Dm(0, 0, 0, 0, 0, 0, 0, 0), Dm(0, 0, 0, 1, 4, 0, 0, 0), Dm(0, 0, 0, 0, 36, 0, 0, 0), Dm(0, 0, 0, 1, 12, 0, 0, 0), Dm(0, 0, 0, 3, 4, 0, 0, 0), Dm(0, 0, 0, 0, 1, 30, 0, 0),
            NegDur(Dm(0, 0, 0, 1, 4, 0, 0, 0)), NegDur(Dm(0, 0, 0, 0, 36, 0, 0, 0)), Dm(0, 0, 0, 2, 0, 0, 0, 1), Dm(0, 0, 0, 1, 3, 59, 59, 999999999)}
C07Opts == {o \in [lg : {"day", "hour"}, sm : {"hour", "minute"}, inc : {1, 2, 3, 4, 6, 8, 12, 15, 30}, mode : Modes] :
              (o.sm = "hour" => o.inc \in {1, 2, 3, 4, 6, 8, 12}) /\ (o.sm = "minute" => o.inc \in {1, 15, 30})}
AllTotalUnits == {"year", "month", "week", "day", "hour", "second", "nanosecond"}
NoOpts == {}
NoUnits == {}
Carried == IF last.op = "round" /\ last.out.kind = "ok" THEN
             LET tg == TargetOf(last.rel, last.dur)
             IN IF tg.kind = "ok" /\ CmpDT(DT(last.rel, Midnight), tg.val) # 0 /\ ~(O.sm = "nanosecond" /\ O.inc = 1)
                THEN LET diff == DiffDTRec(DT(last.rel, Midnight), tg.val, O.lg)
                         sign == IF IDSign(diff) < 0 THEN -1 ELSE 1
                         n == IF O.sm \in CalendarUnits THEN NudgeCalendar(sign, diff, EpochNsOf(tg.val), DT(last.rel, Midnight), O.inc, O.sm, O.mode)
                              ELSE NudgeDayTime(diff, EpochNsOf(tg.val), O.lg, O.inc, O.sm, O.mode)
                     IN IF n.kind = "ok" /\ n.expanded THEN "expanded" ELSE "kept"
                ELSE "noop"
           ELSE "-"
Cls == CASE last.op = "round" -> "sm-" \o O.sm \o "/lg-" \o O.lg \o "/" \o Carried \o (IF last.rel.d > 28 THEN "/eom" ELSE "/mid") \o (IF Sg < 0 THEN "/neg" ELSE "/pos")
         [] last.op = "total" -> last.u \o (IF last.rel.d > 28 THEN "/eom" ELSE "/mid") \o (IF Sg < 0 THEN "/neg" ELSE "/pos")
         [] last.op = "datediff" -> (IF last.since THEN "since" ELSE "until") \o (IF last.bare THEN "/no-units" ELSE "") \o "/sm-" \o last.o.sm \o "/lg-" \o last.o.lg \o (IF last.rel.d > 28 THEN "/eom" ELSE "/mid")
         [] last.op = "dtdiff" -> (IF last.since THEN "since" ELSE "until") \o (IF last.nomode THEN "/no-mode" ELSE "") \o (IF last.cal = "gregory" THEN "/gregory" ELSE "") \o "/sm-" \o last.o.sm \o "/lg-" \o last.o.lg
                                  \o (IF Cmp(TimeNsOf(last.a.time), TimeNsOf(last.b.time)) < 0 THEN "/t<" ELSE "/t>") \o (IF CmpDT(last.a, last.b) < 0 THEN "/fwd" ELSE "/back")
         [] last.op = "compare" -> (IF HasCalendarUnits(last.dur) \/ HasCalendarUnits(last.b) THEN "calendar" ELSE "days-time")
DTJ2(x, cal) == LET j == [y |-> x.date.y, m |-> x.date.m, d |-> x.date.d, h |-> x.time.h, mi |-> x.time.mi, s |-> x.time.s, ms |-> x.time.ms, us |-> x.time.us, ns |-> x.time.ns]
                IN IF cal = "iso8601" THEN j ELSE j @@ [cal |-> cal]
CaseOf ==
  CASE last.op = "round" /\ "absent" \in DOMAIN last -> [op |-> "Duration.round", cls |-> Cls \o "/largest-left-out", args |-> [recv |-> last.dur, rel |-> last.rel, st |-> [smallest |-> O.sm, inc |-> O.inc, mode |-> O.mode]], out |-> last.out]
    [] last.op = "round" -> [op |-> "Duration.round", cls |-> Cls, args |-> [recv |-> last.dur, rel |-> last.rel, st |-> [largest |-> O.lg, smallest |-> O.sm, inc |-> O.inc, mode |-> O.mode]], out |-> last.out]
    [] last.op = "total" -> [op |-> "Duration.total", cls |-> Cls, args |-> [recv |-> last.dur, rel |-> last.rel, unit |-> last.u],
                             out |-> IF last.out.kind = "ok" THEN [kind |-> "ratio", n |-> last.out.val.n, d |-> last.out.val.d] ELSE last.out]
    [] last.op = "datediff" -> [op |-> IF last.since THEN "PlainDate.since" ELSE "PlainDate.until", cls |-> Cls,
                                args |-> [recv |-> last.rel, other |-> last.b,
                                          st |-> IF last.bare THEN [inc |-> last.o.inc, mode |-> last.o.mode] ELSE [largest |-> last.o.lg, smallest |-> last.o.sm, inc |-> last.o.inc, mode |-> last.o.mode]],
                                out |-> last.out]
    [] last.op = "dtdiff" -> [op |-> IF last.since THEN "PlainDateTime.since" ELSE "PlainDateTime.until", cls |-> Cls,
                              args |-> [recv |-> DTJ2(last.a, last.cal), other |-> DTJ2(last.b, last.cal),
                                        st |-> IF last.nomode THEN [largest |-> last.o.lg, smallest |-> last.o.sm, inc |-> last.o.inc]
                                               ELSE [largest |-> last.o.lg, smallest |-> last.o.sm, inc |-> last.o.inc, mode |-> last.o.mode]],
                              out |-> last.out]
    [] last.op = "compare" -> [op |-> "Duration.compare", cls |-> Cls, args |-> [recv |-> last.dur, other |-> last.b, rel |-> last.rel], out |-> last.out]
Emit == last.op = "none" \/ PrintT("CASE " \o ToJson(CaseOf))
=============================================================================
