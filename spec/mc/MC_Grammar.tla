----------------------------- MODULE MC_Grammar -----------------------------
(* Bounded instances of the Grammar generator; the same runs emit the replay cases. *)
EXTENDS Grammar, Json

\* boundary-rich years: both range ends, around zero, 3/4/5-digit transitions
BoundaryYears == {2020, -271821, -1, 0, 1, 999, 1000, 9999, 10000, 275760}
FewYears == {2020, -1, 0, 9999, 10000, 275760}
OneYear == {2020}
FDateTime == {"dt"}
FTime == {"time"}
FShort == {"ym", "md"}
FDur == {"dur"}
FSmall == {"off", "tzname", "mcode", "calid"}

\* one CASE line per (finished string, parser): expected outcome and class label both come from the recognizer
CaseOf(g) == [op |-> "Parse." \o g, cls |-> ParseCls(g, cur.cs), args |-> [chars |-> cur.cs], out |-> Expected(g, cur.cs)]
Emit == ~Done \/ \A g \in GoalsOf(cur) : PrintT("CASE " \o ToJson(CaseOf(g)))
=============================================================================
