SPECIFICATION Spec
CONSTANTS
  Receivers <- TimeReceivers
  PartialsOf <- TTimeP
  FromTypes <- FromTime
  NewArgs <- TimeNew
  IdentityOn = TRUE
  OneStep = TRUE
INVARIANTS UsesOnlySupplied DefaultsAreZero IdentityLaw ClampNearest RejectSound RejectComplete ConstrainComplete RejectRefinesConstrain TypeErrorIff WellFormed
CHECK_DEADLOCK FALSE
