------------------------------- MODULE Tzif -------------------------------
(***************************************************************************)
(* What a TZif file (RFC 8536) says, and a provider that memoises files.    *)
(*                                                                          *)
(* Part 1  time points as (day, second-of-day) pairs (TLC integers are      *)
(*         32-bit; epoch seconds of year 9999 are not).                     *)
(* Part 2  zone tables: local-time types, sorted transitions, POSIX footer. *)
(* Part 3  POSIX TZ rule evaluation per local year, on top of Gregorian.    *)
(* Part 4  OffsetAt (instant -> offset) and LocalToInstants (wall clock ->  *)
(*         set of instants, by brute force over the zone's offsets).        *)
(* Part 5  the provider state machine: `disk` (the files), `cache` (the     *)
(*         memo), Query / NewProvider; history independence.                *)
(* Part 6  laws checked by TLC on bounded instances (spec/mc/MC_Tzif).      *)
(*                                                                          *)
(* DaySec is a parameter: 86400 for real data, a small number (24) in the   *)
(* toy instances so that TLC can enumerate every tick of several years.     *)
(***************************************************************************)
EXTENDS Gregorian, FiniteSets

CONSTANT DaySec

(* ------------------------------ Part 1: points ------------------------------ *)
P(d, s) == [d |-> d, s |-> s]
Norm(d, s) == [d |-> d + s \div DaySec, s |-> s % DaySec]
Shift(p, k) == Norm(p.d, p.s + k)
Lt(a, b) == a.d < b.d \/ (a.d = b.d /\ a.s < b.s)
Le(a, b) == a.d < b.d \/ (a.d = b.d /\ a.s <= b.s)
Eq(a, b) == a.d = b.d /\ a.s = b.s
Pt(x) == P(x.d, x.s)                 \* forget extra fields (transition records carry `ty`)
YearOf(p) == CivilFromDays(p.d).y

(* ------------------------------ Part 2: tables ------------------------------ *)
(* table  == [types  : Seq([off : Int, dst : BOOLEAN]),          type 0 of the file is types[1]          *)
(*            trans  : Seq([d, s : point, ty : 1..Len(types)]),  strictly increasing                      *)
(*            footer : [kind : "none"]                                                                    *)
(*                   | [kind : "fixed", std : Int]                                                        *)
(*                   | [kind : "rule", std : Int, dst : Int, start : Rule, end : Rule]]                   *)
(* Rule   == [k : "M", m : 1..12, w : 1..5, d : 0..6, t : Int]   Mm.w.d/t  (d: 0 = Sunday)               *)
(*         | [k : "J", n : 1..365, t : Int]                      Jn/t      (Feb 29 is never counted)     *)
(*         | [k : "N", n : 0..365, t : Int]                      n/t       (Feb 29 is counted)           *)
(* Offsets are seconds EAST of UTC (local = UTC + off); rule times `t` are seconds of local time,        *)
(* -167h..167h. `Missing` stands for "no such file".                                                     *)
Missing == [missing |-> TRUE]
IsMissing(Z) == "missing" \in DOMAIN Z

NT(Z) == Len(Z.trans)
TypeOff(Z, i) == Z.types[i].off
\* type in force before transition i (type 0 before the first)
PrevTy(Z, i) == IF i = 1 THEN 1 ELSE Z.trans[i - 1].ty

Sorted(Z) == \A i \in 1..(NT(Z) - 1) : Lt(Pt(Z.trans[i]), Pt(Z.trans[i + 1]))
TypesOK(Z) == Len(Z.types) >= 1 /\ \A i \in 1..NT(Z) : Z.trans[i].ty \in 1..Len(Z.types)
PointsOK(Z) == \A i \in 1..NT(Z) : Z.trans[i].s \in 0..(DaySec - 1)

(* ------------------------------ Part 3: POSIX rule ------------------------------ *)
DowSun(n) == DayOfWeek(n) % 7            \* 0 = Sunday .. 6 = Saturday
\* epoch day on which rule R falls in local year y
RuleDay(R, y) ==
  IF R.k = "J" THEN DaysFromCivil(y, 1, 1) + (R.n - 1) + (IF IsLeap(y) /\ R.n >= 60 THEN 1 ELSE 0)
  ELSE IF R.k = "N" THEN DaysFromCivil(y, 1, 1) + R.n
  ELSE LET first == DaysFromCivil(y, R.m, 1)
           cand  == first + ((R.d - DowSun(first)) % 7) + 7 * (R.w - 1)
       IN IF cand >= first + DIM(y, R.m) THEN cand - 7 ELSE cand

\* the two rule transitions of local year y, as UTC points: DST starts at start.t of *standard* local time,
\* ends at end.t of *daylight* local time
StartUTC(F, y) == Norm(RuleDay(F.start, y), F.start.t - F.std)
EndUTC(F, y) == Norm(RuleDay(F.end, y), F.end.t - F.dst)

\* DST is in force on [start - std, end - dst); when the start of a year comes after its end (southern
\* hemisphere, or "negative DST" zones whose winter time is the `dst` variant) the interval runs into the next year
InDstOfYear(F, y, t) ==
  LET s == StartUTC(F, y) IN
  IF Lt(s, EndUTC(F, y)) THEN Le(s, t) /\ Lt(t, EndUTC(F, y))
  ELSE Le(s, t) /\ Lt(t, EndUTC(F, y + 1))
InDst(F, t) == LET Y == YearOf(t) IN \E y \in (Y - 1)..(Y + 1) : InDstOfYear(F, y, t)

FooterOff(F, t) == IF F.kind = "fixed" THEN F.std
                   ELSE IF InDst(F, t) THEN F.dst ELSE F.std
HasFooter(Z) == Z.footer.kind # "none"

\* rule transitions near t (for class labels and laws): the set of [at, toDst] of three years
RuleEvents(F, Y) == {[at |-> StartUTC(F, y), toDst |-> TRUE] : y \in (Y - 1)..(Y + 1)}
                    \cup {[at |-> EndUTC(F, y), toDst |-> FALSE] : y \in (Y - 1)..(Y + 1)}

(* ------------------------------ Part 4: lookups ------------------------------ *)
\* number of transitions at or before t: declaratively, and by bisection (equal; checked by TLC)
IdxDecl(Z, t) == Cardinality({i \in 1..NT(Z) : Le(Pt(Z.trans[i]), t)})
RECURSIVE Bisect(_, _, _, _)
\* invariant: trans[lo] <= t (or lo = 0) and trans[hi] > t (or hi = NT + 1)
Bisect(Z, t, lo, hi) ==
  IF hi - lo <= 1 THEN lo
  ELSE LET mid == (lo + hi) \div 2
       IN IF Le(Pt(Z.trans[mid]), t) THEN Bisect(Z, t, mid, hi) ELSE Bisect(Z, t, lo, mid)
Idx(Z, t) == Bisect(Z, t, 0, NT(Z) + 1)

\* RFC 8536 3.2 / 3.3: before the first transition -> time type 0; from a transition second on -> its type;
\* strictly after the last transition (or everywhere, if there is none) -> the footer when there is one
OffsetAt(Z, t) ==
  LET i == Idx(Z, t) IN
  IF NT(Z) = 0 THEN (IF HasFooter(Z) THEN FooterOff(Z.footer, t) ELSE TypeOff(Z, 1))
  ELSE IF i = 0 THEN TypeOff(Z, 1)
  ELSE IF i = NT(Z) /\ HasFooter(Z) /\ Lt(Pt(Z.trans[i]), t) THEN FooterOff(Z.footer, t)
  ELSE TypeOff(Z, Z.trans[i].ty)

Wall(Z, t) == Shift(t, OffsetAt(Z, t))

Offsets(Z) == {TypeOff(Z, i) : i \in 1..Len(Z.types)}
              \cup (IF Z.footer.kind = "none" THEN {} ELSE IF Z.footer.kind = "fixed" THEN {Z.footer.std}
                    ELSE {Z.footer.std, Z.footer.dst})
\* all instants whose wall-clock reading is L: try every offset the zone ever uses
LocalToInstants(Z, L) == {t \in {Shift(L, -o) : o \in Offsets(Z)} : Eq(Wall(Z, t), L)}
LocalKind(Z, L) == LET n == Cardinality(LocalToInstants(Z, L))
                   IN IF n = 0 THEN "gap" ELSE IF n = 1 THEN "unique" ELSE "overlap"

\* the footer must continue the table (RFC 8536 3.3); data sanity, reported by the trace spec
FooterConsistent(Z) == (NT(Z) > 0 /\ HasFooter(Z)) =>
  FooterOff(Z.footer, Pt(Z.trans[NT(Z)])) = TypeOff(Z, Z.trans[NT(Z)].ty)
WellFormed(Z) == TypesOK(Z) /\ PointsOK(Z) /\ Sorted(Z) /\ FooterConsistent(Z)

(* ---- class labels (computed from the table; known findings key on them) ---- *)
TransKind(Z, i) ==
  LET a == Z.types[PrevTy(Z, i)]  b == Z.types[Z.trans[i].ty]
  IN IF a.off = b.off THEN "same-offset"
     ELSE IF a.dst = b.dst THEN "non-dst-change"
     ELSE IF b.dst THEN "std-to-dst" ELSE "dst-to-std"
\* zic writes daylight saving time that never ends as a rule whose end coincides with the next start (0/0,J365/25): the
\* standard time of such a footer is never in force
AllYearDst(F) == Eq(EndUTC(F, 2001), StartUTC(F, 2002)) /\ Eq(EndUTC(F, 2003), StartUTC(F, 2004))
RuleShape(F) == IF F.kind = "fixed" THEN "fixed"
                ELSE IF AllYearDst(F) THEN "all-year-dst"
                ELSE IF F.dst < F.std THEN "negative-dst"
                ELSE IF Lt(StartUTC(F, 2001), EndUTC(F, 2001)) THEN "north" ELSE "south"
\* where t sits relative to the rule transitions
RulePos(F, t) == IF F.kind = "fixed" THEN "fixed"
                 ELSE IF \E e \in RuleEvents(F, YearOf(t)) : Eq(e.at, t)
                      THEN (IF InDst(F, t) THEN "at-rule-start" ELSE "at-rule-end")
                 ELSE IF InDst(F, t) THEN "in-dst" ELSE "in-std"
PosClass(Z, t) ==
  LET i == Idx(Z, t) IN
  IF NT(Z) = 0 THEN (IF HasFooter(Z) THEN "no-transitions-footer" ELSE "no-transitions")
  ELSE IF i = 0 THEN "before-first"
  ELSE IF Eq(Pt(Z.trans[i]), t) THEN "at-transition"
  ELSE IF i = NT(Z) THEN (IF HasFooter(Z) THEN "after-last-footer" ELSE "after-last")
  ELSE "between"

(* ------------------------------ Part 5: provider ------------------------------ *)
(* disk  : identifier -> table | Missing      the files (environment; the provider only reads them)   *)
(* cache : identifier -> table                the provider's memo, a subset of the files it has read  *)
(* hist  : sequence of queries answered since the provider was created (kept only when Once)          *)
(* last  : the last query and its answer                                                              *)
(* A query is [zone, kind : "offset" | "local", at : point].                                          *)
CONSTANTS Disk0,          \* initial files (MC instances); << >>-like empty function for traces
          Workload,       \* queries the bounded instance may issue
          Once,           \* TRUE: each workload query at most once per provider (all orders of the workload)
          OneStep         \* TRUE: explore every single query from the initial state once (laws over `last`)
VARIABLES disk, cache, hist, last
vars == <<disk, cache, hist, last>>

Empty == [z \in {} |-> 0]
None == [op |-> "none"]
Fail == [kind |-> "fail"]
OkV(v) == [kind |-> "ok", val |-> v]
Put(f, k, v) == [x \in DOMAIN f \cup {k} |-> IF x = k THEN v ELSE f[x]]
Range(s) == {s[i] : i \in 1..Len(s)}

OnDisk(d, z) == z \in DOMAIN d /\ ~IsMissing(d[z])
\* what the data say
Eval(Z, q) == IF q.kind = "offset" THEN OkV(OffsetAt(Z, q.at)) ELSE OkV(LocalToInstants(Z, q.at))
DataSay(d, q) == IF OnDisk(d, q.zone) THEN Eval(d[q.zone], q) ELSE Fail
\* what a provider whose memo is c answers (reads the file on a miss)
AnswerIn(c, d, q) == IF q.zone \in DOMAIN c THEN Eval(c[q.zone], q) ELSE DataSay(d, q)

Init == disk = Disk0 /\ cache = Empty /\ hist = <<>> /\ last = None

\* the provider answers `ans` to q and memoises the file it had to read
QueryWith(q, ans) ==
  /\ last' = [op |-> "query", q |-> q, ans |-> ans, hit |-> q.zone \in DOMAIN cache]
  /\ cache' = IF q.zone \in DOMAIN cache \/ ~OnDisk(disk, q.zone) THEN cache ELSE Put(cache, q.zone, disk[q.zone])
  /\ hist' = IF Once THEN Append(hist, q) ELSE hist
  /\ UNCHANGED disk
Query(q) == QueryWith(q, AnswerIn(cache, disk, q))
NewProvider == cache' = Empty /\ hist' = <<>> /\ last' = [op |-> "new"] /\ UNCHANGED disk

Next == /\ (OneStep => last = None)
        /\ \E q \in Workload : (Once => q \notin Range(hist)) /\ Query(q)
Spec == Init /\ [][Next]_vars

\* the memo never differs from the files
PureMemo == \A z \in DOMAIN cache : OnDisk(disk, z) /\ cache[z] = disk[z]
\* in every reachable provider state every query of the workload has the answer the data give: no history dependence
HistoryIndependent == \A q \in Workload : AnswerIn(cache, disk, q) = DataSay(disk, q)
LastRight == last.op = "query" => last.ans = DataSay(disk, last.q)
\* failing queries do not leave anything behind
FailLeavesNoTrace == \A z \in DOMAIN cache : \E i \in 1..Len(hist) : hist[i].zone = z /\ OnDisk(disk, z)

(* ------------------------------ Part 6: laws ------------------------------ *)
\* All laws are stated for one table Z over a finite set W of instants (a window of consecutive ticks).
IdxAgrees(Z, W) == \A t \in W : Idx(Z, t) = IdxDecl(Z, t)

\* every instant at which the table or the footer changes type, within the years of W
TableEvents(Z) == {Pt(Z.trans[i]) : i \in 1..NT(Z)}
FooterEvents(Z, W) == IF Z.footer.kind # "rule" THEN {}
                      ELSE {e.at : e \in UNION {RuleEvents(Z.footer, YearOf(t)) : t \in W}}
\* piecewise constant: the offset can only change at a transition second ...
ChangesOnlyAtEvents(Z, W) ==
  \A t \in W : LET u == Shift(t, 1) IN
    OffsetAt(Z, t) # OffsetAt(Z, u) => u \in TableEvents(Z) \cup FooterEvents(Z, W)
\* ... and does change exactly there when the two types differ in offset (new type from the transition second on)
ChangesAtTransitions(Z) ==
  \A i \in 1..NT(Z) : LET T == Pt(Z.trans[i]) IN
    /\ OffsetAt(Z, T) = TypeOff(Z, Z.trans[i].ty)
    /\ OffsetAt(Z, Shift(T, -1)) = (IF i = 1 THEN TypeOff(Z, 1) ELSE TypeOff(Z, Z.trans[i - 1].ty))
BeforeFirstIsType0(Z, W) == \A t \in W : (NT(Z) > 0 /\ Lt(t, Pt(Z.trans[1]))) => OffsetAt(Z, t) = TypeOff(Z, 1)

\* brute force over offsets = brute force over instants (for wall-clock readings whose candidates all lie in W)
Inside(Z, L, W) == \A o \in Offsets(Z) : Shift(L, -o) \in W
LocalIsPreimage(Z, W) ==
  \A t0 \in W : LET L == Wall(Z, t0) IN
    Inside(Z, L, W) => LocalToInstants(Z, L) = {t \in W : Eq(Wall(Z, t), L)}
EveryInstantMapsBack(Z, W) ==
  \A t0 \in W : \A o \in Offsets(Z) : LET L == Shift(t0, o) IN \A t \in LocalToInstants(Z, L) : Eq(Wall(Z, t), L)
\* gap / overlap at a transition whose neighbours are further away than the jump: wall clocks in
\* [T + min, T + max) are skipped when the offset grows and repeated when it shrinks
Isolated(Z, i, k) == /\ (i > 1 => Lt(Shift(Pt(Z.trans[i - 1]), 2 * k), Pt(Z.trans[i])))
                     /\ (i < NT(Z) => Lt(Shift(Pt(Z.trans[i]), 2 * k), Pt(Z.trans[i + 1])))
                     /\ (i = NT(Z) => ~HasFooter(Z))
GapOverlapRule(Z) ==
  \A i \in 1..NT(Z) :
    LET T == Pt(Z.trans[i])
        a == TypeOff(Z, PrevTy(Z, i))  b == TypeOff(Z, Z.trans[i].ty)
        k == IF a < b THEN b - a ELSE a - b
        maxo == IF a < b THEN b ELSE a
        mino == IF a < b THEN a ELSE b
    IN (k > 0 /\ Isolated(Z, i, k)) =>
         /\ \A j \in 0..(k - 1) : LocalKind(Z, Shift(T, mino + j)) = (IF a < b THEN "gap" ELSE "overlap")
         /\ LocalKind(Z, Shift(T, mino - 1)) = "unique"
         /\ LocalKind(Z, Shift(T, maxo)) = "unique"

(* rule evaluation against the calendar: the day chosen by Mm.w.d is in month m of year y, has weekday d,   *)
(* and is the w-th such day of the month (w = 5: the last one). Jn / n count days from January 1.          *)
SameWeekdayBefore(n) == LET c == CivilFromDays(n)
                        IN Cardinality({j \in 1..(c.d - 1) : DowSun(n - c.d + j) = DowSun(n)})
RuleDayRight(R, y) ==
  LET n == RuleDay(R, y)  c == CivilFromDays(n) IN
  IF R.k = "M" THEN /\ c.y = y /\ c.m = R.m /\ DowSun(n) = R.d
                    /\ (R.w < 5 => SameWeekdayBefore(n) = R.w - 1)
                    /\ (R.w = 5 => c.d + 7 > DIM(y, R.m))
  ELSE IF R.k = "N" THEN c.y = y /\ DayOfYear(c) = R.n + 1
  ELSE c.y = y /\ ~(c.m = 2 /\ c.d = 29)
       /\ DayOfYear(c) - (IF IsLeap(y) /\ c.m > 2 THEN 1 ELSE 0) = R.n
\* the interval reading of the rule = "the most recent rule transition decides" (starts win ties)
Later(a, b) == Lt(b.at, a.at) \/ (Eq(a.at, b.at) /\ a.toDst)
MaxEvent(S) == CHOOSE a \in S : \A b \in S : a = b \/ Later(a, b)
InDstByLastEvent(F, t) ==
  LET past == {e \in RuleEvents(F, YearOf(t)) : Le(e.at, t)} IN past # {} /\ MaxEvent(past).toDst
RuleReadingsAgree(F, W) == \A t \in W : InDst(F, t) = InDstByLastEvent(F, t)
\* every year has exactly one start and one end, DST lasts less than the year
RuleAlternates(F, y) == Lt(StartUTC(F, y), StartUTC(F, y + 1)) /\ Lt(EndUTC(F, y), EndUTC(F, y + 1))
=============================================================================
