----------------------------- MODULE Trace_Cal -----------------------------
(***************************************************************************)
(* impl -> spec for C16: a recorded session is a behaviour of CalendarWalk. *)
(*   Cal.Day          consecutive events of one session must be related by  *)
(*                    NextIsoDay; every day must be well formed; for the    *)
(*                    fixed-offset calendars it must equal the definition   *)
(*   Cal.Rebuild      from the fields of the current day -> the same day    *)
(*   Cal.Conflict     month and monthCode that disagree -> RangeError          *)
(*   Cal.WithCalendar the ISO date is unchanged, the calendar is the target *)
(*   Cal.Id           spelling variants behave like the lower-case form;    *)
(*                    a reported identifier is lower-case and idempotent    *)
(* MISMATCH lines carry cls = calendar / event kind / rule that failed.     *)
(***************************************************************************)
EXTENDS CalendarWalk, TraceBase

VARIABLES l, ids, lens
tvars == <<cur, prev, hi, leaps, edir, hist, last, l, ids, lens>>

E == Rec[l]

(* ---------------- strings as character arrays ---------------- *)
UL == [A |-> "a", B |-> "b", C |-> "c", D |-> "d", E |-> "e", F |-> "f", G |-> "g", H |-> "h", I |-> "i", J |-> "j", K |-> "k",
       L |-> "l", M |-> "m", N |-> "n", O |-> "o", P |-> "p", Q |-> "q", R |-> "r", S |-> "s", T |-> "t", U |-> "u", V |-> "v",
       W |-> "w", X |-> "x", Y |-> "y", Z |-> "z"]
LowerC(c) == IF c \in DOMAIN UL THEN UL[c] ELSE c
Lower(s) == [i \in 1..Len(s) |-> LowerC(s[i])]
RECURSIVE Join(_)
Join(s) == IF s = <<>> THEN "" ELSE Head(s) \o Join(Tail(s))

(* ---------------- Cal.Day ---------------- *)
DayRec(e) == e.out.val @@ [cal |-> e.args.cal, n |-> e.args.n]
Trusted == last.op = "day-ok"                      \* the previous day of this session was accepted: the walk continues from it
Consecutive(f) == cur # Nil /\ cur.cal = f.cal /\ cur.n + 1 = f.n
LeapsAfter(f) == IF Trusted /\ Consecutive(f)
                 THEN (IF f.year # cur.year THEN 0 ELSE IF f.month # cur.month /\ McLeap(cur.mc) THEN leaps + 1 ELSE leaps)
                 ELSE LeapsFrom(f)
\* leap-year flag: a leap year is longer than every common year of the same calendar
Stat(c) == IF c \in DOMAIN lens THEN lens[c] ELSE [maxCommon |-> 0, minLeap |-> 1000000]
LeapFlagOK(f) == IF f.leap THEN f.diy > Stat(f.cal).maxCommon ELSE f.diy < Stat(f.cal).minLeap
LensAfter(f) == LET s == Stat(f.cal)
                    t == IF f.leap THEN [s EXCEPT !.minLeap = IF f.diy < @ THEN f.diy ELSE @]
                         ELSE [s EXCEPT !.maxCommon = IF f.diy > @ THEN f.diy ELSE @]
                IN [c \in DOMAIN lens \cup {f.cal} |-> IF c = f.cal THEN t ELSE lens[c]]
DayFail(e) ==
  IF e.out.kind # "ok" THEN e.out.kind
  ELSE IF e.args.iso # IsoOf(e.args.n) THEN "session-chain-broken"
  ELSE LET f == DayRec(e)
       IN IF WFFail(f) # "" THEN WFFail(f)
          ELSE IF cur # Nil /\ ~Consecutive(f) THEN "session-chain-broken"
          ELSE IF Trusted /\ Consecutive(f) /\ StepFail(cur, f, edir) # "" THEN StepFail(cur, f, edir)
          ELSE IF ~McOrdinal(f, LeapsAfter(f)) THEN "ordinal"
          ELSE IF Defined(f.cal, f.n) /\ DefFail(f) # "" THEN DefFail(f)
          ELSE IF ~LeapFlagOK(f) THEN "leap-flag"
          ELSE ""
IsDay == E.op = "Cal.Day"
DayStep == /\ IsDay
           /\ LET bad == DayFail(E)
                  okRec == E.out.kind = "ok"
                  f == IF okRec THEN DayRec(E) ELSE Nil
              IN /\ (bad # "" => Report(l, E.op, E.args.cal \o "/day/" \o bad, [rule |-> bad, after |-> cur], E.out))
                 /\ cur' = f
                 /\ last' = [op |-> IF bad = "" THEN "day-ok" ELSE "day-bad"]
                 /\ leaps' = IF okRec /\ WFFail(f) = "" THEN (IF bad = "" THEN LeapsAfter(f) ELSE LeapsFrom(f)) ELSE 0
                 /\ edir' = IF bad = "" /\ Trusted /\ Consecutive(f) THEN DirAfter(cur, f, edir) ELSE 0
                 /\ lens' = IF okRec /\ bad # "leap-flag" /\ WFFail(f) = "" THEN LensAfter(f) ELSE lens
           /\ UNCHANGED <<prev, hi, hist, ids>>

(* ---------------- Cal.Rebuild ---------------- *)
A == E.args
HasK(k) == k \in DOMAIN A
EraMode == HasK("era")
EraSyn == EraMode /\ cur.era # <<>> /\ SameEra(cur.cal, A.era, cur.era[1])
EraAlt == EraMode /\ \E X \in AltEras(cur.cal) : A.era \in X.names /\ cur.year <= X.maxYear /\ A.ey = cur.year + X.off
RebuildChained == /\ cur # Nil /\ A.cal = cur.cal /\ A.n = cur.n /\ A.day = cur.day
                  /\ (HasK("year") => ~EraMode /\ A.year = cur.year)
                  /\ (HasK("mc") => A.mc = cur.mc)
                  /\ (HasK("month") => A.month = cur.month)
                  /\ (HasK("mc") \/ HasK("month")) /\ (HasK("year") \/ EraMode)
                  /\ (EraSyn => A.ey = cur.ey[1])
\* an era name outside the calendar's rows (e.g. a misspelling in the crate's own table): nothing is asserted but a clean outcome
Unasserted == EraMode /\ ~EraSyn /\ ~EraAlt
ClsRebuild == IF cur # Nil /\ McWF(cur.mc) THEN RebuildCls(cur, A) ELSE A.cal \o "/rebuild/no-current-day"
RebuildOK == IF ~RebuildChained THEN FALSE
             ELSE IF Unasserted \/ ~InBounds(cur) THEN E.out.kind \in {"ok", "range", "type"}   \* (a day reported with day 0 etc. is already a Cal.Day mismatch)
             ELSE E.out = RebuildExpected(cur)
RebuildStep == /\ E.op = "Cal.Rebuild"
               /\ (~RebuildOK => Report(l, E.op, ClsRebuild, IF RebuildChained THEN RebuildExpected(cur) ELSE "session-chain-broken", E.out))
               /\ UNCHANGED <<cur, prev, hi, leaps, edir, hist, last, ids, lens>>

(* ---------------- Cal.Conflict ---------------- *)
\* the current day's year, monthCode and day together with a month number that is NOT the current day's ordinal month: within one year every
\* ordinal month has exactly one code (WalkRule), so the two designations name different months and the record is a RangeError under either
\* overflow (constrain clamps a single field, it never settles a disagreement between two) - also when the number is the one written inside
\* the code (M07 is the eighth month of a Hebrew leap year)
ConflictChained == /\ cur # Nil /\ A.cal = cur.cal /\ A.n = cur.n /\ A.day = cur.day /\ HasK("year") /\ A.year = cur.year
                   /\ HasK("mc") /\ A.mc = cur.mc /\ HasK("month") /\ A.month # cur.month
ConflictCls == A.cal \o "/conflict/" \o (IF cur # Nil /\ McWF(cur.mc) /\ A.month = McNum(cur.mc) THEN "number-inside-the-code" ELSE "neighbouring-month")
ConflictOK == IF ~ConflictChained THEN FALSE
              ELSE IF ~InBounds(cur) \/ ~McWF(cur.mc) THEN E.out.kind \in {"ok", "range", "type"}
              ELSE E.out = ErrRange
ConflictStep == /\ E.op = "Cal.Conflict"
                /\ (~ConflictOK => Report(l, E.op, ConflictCls, IF ConflictChained THEN ErrRange ELSE "session-chain-broken", E.out))
                /\ UNCHANGED <<cur, prev, hi, leaps, edir, hist, last, ids, lens>>

(* ---------------- Cal.WithCalendar ---------------- *)
WcChained == cur # Nil /\ A.from = cur.cal /\ A.n = cur.n /\ A.iso = IsoOf(cur.n)
WcExpected == Ok([iso |-> IsoOf(cur.n), id |-> Join(Lower(A.to)), cmp |-> 0])
WcStep == /\ E.op = "Cal.WithCalendar"
          /\ (~(WcChained /\ E.out = WcExpected) =>
                Report(l, E.op, A.from \o "/with-calendar", IF WcChained THEN WcExpected ELSE "session-chain-broken", E.out))
          /\ UNCHANGED <<cur, prev, hi, leaps, edir, hist, last, ids, lens>>

\* PlainDateTime::with_calendar: the ISO date AND the time of day are unchanged, the calendar is the target
WcDtExpected == Ok([iso |-> IsoOf(cur.n), id |-> Join(Lower(A.to)), time |-> <<12, 34, 56, 789>>])
WcDtStep == /\ E.op = "Cal.WithCalendarDT"
            /\ (~(WcChained /\ E.out = WcDtExpected) =>
                  Report(l, E.op, A.from \o "/with-calendar-datetime", IF WcChained THEN WcDtExpected ELSE "session-chain-broken", E.out))
            /\ UNCHANGED <<cur, prev, hi, leaps, edir, hist, last, ids, lens>>

\* PlainDate::with({day: k}) in the day's own calendar: the same year and month, day k - k - cur.day days away; also to_plain_year_month
\* (the receiver's fields other than the day are kept, whatever era / year designation the calendar has)
WdExpected == IF A.k >= 1 /\ A.k <= cur.dim
              THEN (IF cur.n - cur.day + A.k >= -100000001 /\ cur.n - cur.day + A.k <= 100000000 THEN Ok([iso |-> IsoOf(cur.n - cur.day + A.k)]) ELSE [kind |-> "range"])
              ELSE [kind |-> "any"]
WdOK == IF E.out.kind \in {"ok", "range"} /\ WdExpected.kind = "any" THEN TRUE ELSE E.out = WdExpected
WdStep == /\ E.op = "Cal.WithDay"
          /\ (~(WcChained /\ InBounds(cur) /\ WdOK) /\ ~(WcChained /\ ~InBounds(cur)) =>
                Report(l, E.op, A.from \o "/with-day", IF WcChained THEN WdExpected ELSE "session-chain-broken", E.out))
          /\ UNCHANGED <<cur, prev, hi, leaps, edir, hist, last, ids, lens>>

(* ---------------- Cal.Id ---------------- *)
Accepted1(o) == o.kind = "ok"
Clean(o) == o.kind \in {"ok", "range", "type", "syntax"}
IdFail(e) ==
  LET k == Lower(e.args.s)
      o == e.out
  IN IF ~Clean(o) THEN "kind"
     ELSE IF Accepted1(o) /\ Lower(o.val.id) # o.val.id THEN "canonical-lower-case"
     ELSE IF Accepted1(o) /\ o.val.again # o.val.id THEN "idempotent"
     ELSE IF k \in DOMAIN ids /\ (Accepted1(ids[k]) # Accepted1(o) \/ (Accepted1(o) /\ ids[k].val.id # o.val.id)) THEN "case-insensitive"
     ELSE IF Accepted1(o) /\ o.val.id \in DOMAIN ids /\ Accepted1(ids[o.val.id]) /\ ids[o.val.id].val.id # o.val.id THEN "canonical-fixed-point"
     ELSE ""
IdStep == /\ E.op = "Cal.Id"
          /\ LET bad == IdFail(E)
                 k == Lower(E.args.s)
             IN /\ (bad # "" => Report(l, E.op, "id/" \o bad, IF k \in DOMAIN ids THEN ids[k] ELSE "first-spelling", E.out))
                /\ ids' = IF k \in DOMAIN ids THEN ids ELSE [x \in DOMAIN ids \cup {k} |-> IF x = k THEN E.out ELSE ids[x]]
          /\ UNCHANGED <<cur, prev, hi, leaps, edir, hist, last, lens>>

(* ---------------- the trace ---------------- *)
Empty == [x \in {} |-> 0]
TInit == /\ l = 1 /\ cur = Nil /\ prev = Nil /\ hi = 0 /\ leaps = 0 /\ edir = 0 /\ hist = <<>> /\ last = None
         /\ ids = Empty /\ lens = Empty
Reset == /\ E.op = "reset" /\ cur' = Nil /\ last' = None /\ leaps' = 0 /\ edir' = 0
         /\ UNCHANGED <<prev, hi, hist, ids, lens>>
TNext == l <= NEv /\ l' = l + 1 /\ (Reset \/ DayStep \/ RebuildStep \/ ConflictStep \/ WcStep \/ WcDtStep \/ WdStep \/ IdStep)
TSpec == TInit /\ [][TNext]_tvars

\* evaluated at every step: the current day is an in-range ISO day
CursorOK == cur = Nil \/ InDateRange(cur.n)
NoFieldsT(c, n) == Nil
NoFindT(c, k) == 0
=============================================================================
