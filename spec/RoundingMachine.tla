-------------------------- MODULE RoundingMachine --------------------------
(* State machine over Rounding: one Round step per (x, inc, mode); the laws of the property as invariants. *)
EXTENDS Rounding

CONSTANTS Xs, Incs
VARIABLES x, inc, mode, res
vars == <<x, inc, mode, res>>
Init == x \in Xs /\ inc \in Incs /\ mode = "none" /\ res = 0
Round(m) == mode = "none" /\ mode' = m /\ res' = RoundD(x, inc, m) /\ UNCHANGED <<x, inc>>
Next == \E m \in Modes : Round(m)
Spec == Init /\ [][Next]_vars

Done == mode # "none"
Adjacent == Done => /\ res % inc = 0
                    /\ res \in {Lo(x, inc), Hi(x, inc)}
                    /\ (x % inc = 0 => res = x)
                    /\ AbsI(res - x) < inc
Direction == Done => /\ (mode = "ceil" => res >= x) /\ (mode = "floor" => res <= x)
                     /\ (mode = "expand" => AbsI(res) >= AbsI(x)) /\ (mode = "trunc" => AbsI(res) <= AbsI(x))
Nearest == (Done /\ mode \in {"halfCeil", "halfFloor", "halfExpand", "halfTrunc", "halfEven"}) =>
             /\ 2 * AbsI(res - x) <= inc
             /\ (2 * AbsI(res - x) = inc /\ mode = "halfEven" => (res \div inc) % 2 = 0)
             /\ (2 * AbsI(res - x) = inc /\ mode = "halfCeil" => res > x)
             /\ (2 * AbsI(res - x) = inc /\ mode = "halfFloor" => res < x)
             /\ (2 * AbsI(res - x) = inc /\ mode = "halfExpand" => AbsI(res) > AbsI(x))
             /\ (2 * AbsI(res - x) = inc /\ mode = "halfTrunc" => AbsI(res) < AbsI(x))
Transcriptions == Done => /\ res = RoundT(x, inc, mode)
                          /\ res = RoundA(x, inc, mode)
                          /\ FromInt(res) = RoundBig(FromInt(x), FromInt(inc), mode)
NegSym == Done => RoundD(-x, inc, NegateMode(mode)) = -res
=============================================================================
