--------------------------- MODULE RelativeRound ---------------------------
(***************************************************************************)
(* Duration round / total / compare relative to a plain date (C08).         *)
(* Temporal's algorithm: add the duration to the reference date, re-measure *)
(* with the requested largest unit (DifferenceISODateTime), nudge at the    *)
(* smallest unit using the real calendar length of that unit at that        *)
(* position (NudgeToCalendarUnit / NudgeToDayOrTime), and bubble the        *)
(* overflow into the larger units (BubbleRelativeDuration). All positions   *)
(* are compared with exact integers - never floating point.                 *)
(* Internal durations are records [y, mo, w, d : Int, t : big ns].          *)
(***************************************************************************)
EXTENDS DateTimeArith, Duration

ID(y, mo, w, d, t) == [y |-> y, mo |-> mo, w |-> w, d |-> d, t |-> t]
IDSign(r) == IF r.y # 0 THEN SgnI(r.y) ELSE IF r.mo # 0 THEN SgnI(r.mo) ELSE IF r.w # 0 THEN SgnI(r.w)
             ELSE IF r.d # 0 THEN SgnI(r.d) ELSE r.t.s
EpochNsOf(x) == Add(Mul(DayNsBig, FromInt(DFC(x.date))), TimeNsOf(x.time))
TruncTo(x, inc) == TruncDiv(x, inc) * inc
\* date + (y, mo, w, d) under constrain; generators keep everything in range (a RangeError would surface as "range")
PlusDate(date, y, mo, w, d) == AddDateI(date, y, mo, w, d, "constrain")

\* the bracket [start, end] of the smallest calendar unit around the target, per NudgeToCalendarUnit
\* -> [r1, r2, sd, ed] with sd/ed the start/end date durations (records y, mo, w, d)
Bracket(sign, r, startDT, inc, unit) ==
  CASE unit = "year" ->
         LET r1 == TruncTo(r.y, inc) IN [r1 |-> r1, r2 |-> r1 + inc * sign, sd |-> [y |-> r1, mo |-> 0, w |-> 0, d |-> 0], ed |-> [y |-> r1 + inc * sign, mo |-> 0, w |-> 0, d |-> 0]]
    [] unit = "month" ->
         LET r1 == TruncTo(r.mo, inc) IN [r1 |-> r1, r2 |-> r1 + inc * sign, sd |-> [y |-> r.y, mo |-> r1, w |-> 0, d |-> 0], ed |-> [y |-> r.y, mo |-> r1 + inc * sign, w |-> 0, d |-> 0]]
    [] unit = "week" ->
         LET ws == PlusDate(startDT.date, r.y, r.mo, 0, 0).val
             we == CivilFromDays(DFC(ws) + r.d)
             uw == Diff(ws, we, "week").w
             r1 == TruncTo(r.w + uw, inc)
         IN [r1 |-> r1, r2 |-> r1 + inc * sign, sd |-> [y |-> r.y, mo |-> r.mo, w |-> r1, d |-> 0], ed |-> [y |-> r.y, mo |-> r.mo, w |-> r1 + inc * sign, d |-> 0]]
    [] unit = "day" ->
         LET r1 == TruncTo(r.d, inc) IN [r1 |-> r1, r2 |-> r1 + inc * sign, sd |-> [y |-> r.y, mo |-> r.mo, w |-> r.w, d |-> r1], ed |-> [y |-> r.y, mo |-> r.mo, w |-> r.w, d |-> r1 + inc * sign]]

\* NudgeToCalendarUnit -> [dur, expanded, nudged (epoch ns), num, den]  (total = r1 + sign * num/den * inc)
NudgeCalendar(sign, r, destNs, startDT, inc, unit, mode) ==
  LET b == Bracket(sign, r, startDT, inc, unit)
      s == PlusDate(startDT.date, b.sd.y, b.sd.mo, b.sd.w, b.sd.d)
      e == PlusDate(startDT.date, b.ed.y, b.ed.mo, b.ed.w, b.ed.d)
  IN IF s.kind # "ok" \/ e.kind # "ok" THEN [kind |-> "range"]
     ELSE LET sNs == EpochNsOf(DT(s.val, startDT.time))
              eNs == EpochNsOf(DT(e.val, startDT.time))
              num == Abs(Sub(destNs, sNs))          \* progress = num / den, 0 <= progress <= 1
              den == Abs(Sub(eNs, sNs))
              c == Cmp(MulSmall(num, 2), den)
              um == Unsigned(mode, sign < 0)
              r1Even == (AbsI(b.r1) \div inc) % 2 = 0
              up == IF IsZero(num) THEN FALSE
                    ELSE IF Eq(num, den) THEN TRUE
                    ELSE CASE um = "zero" -> FALSE [] um = "infinity" -> TRUE
                           [] OTHER -> IF c < 0 THEN FALSE ELSE IF c > 0 THEN TRUE
                                       ELSE CASE um = "half-zero" -> FALSE [] um = "half-infinity" -> TRUE [] um = "half-even" -> ~r1Even
              pick == IF up THEN b.ed ELSE b.sd
          IN [kind |-> "ok", dur |-> ID(pick.y, pick.mo, pick.w, pick.d, Zero), expanded |-> up, nudged |-> IF up THEN eNs ELSE sNs,
              r1 |-> b.r1, num |-> num, den |-> den, startNs |-> sNs, endNs |-> eNs,
              \* Temporal asserts startEpochNs <= destEpochNs <= endEpochNs; from a constrained month end the end point can lie beyond the
              \* bracket (2020-03-31 + P30DT23H59M59.999999999S is past 03-31 + P1M = 04-30T00:00 while counting 0 whole months): unspecified
              outside |-> Cmp(num, den) > 0 \/ Sub(destNs, sNs).s = -sign]

\* NudgeToDayOrTime
NudgeDayTime(r, destNs, largest, inc, unit, mode) ==
  LET td == Add(r.t, Mul(DayNsBig, FromInt(r.d)))
      rounded == RoundBig(td, IncNs(inc, unit), mode)
      whole == TruncDivMod(td, DayNsBig).q
      rwhole == TruncDivMod(rounded, DayNsBig).q
      delta == Sub(rwhole, whole)
      expanded == delta.s # 0 /\ delta.s = td.s
      dateCat == largest \in DateUnits
      days == IF dateCat THEN ToInt(rwhole) ELSE 0
      rem == IF dateCat THEN Sub(rounded, Mul(rwhole, DayNsBig)) ELSE rounded
  IN [kind |-> "ok", dur |-> ID(r.y, r.mo, r.w, days, rem), expanded |-> expanded, nudged |-> Add(Sub(rounded, td), destNs), outside |-> FALSE]

\* BubbleRelativeDuration: carry into the larger units while the nudged end point has reached their next boundary
RECURSIVE Bubble(_, _, _, _, _, _)
Bubble(sign, r, nudged, startDT, largest, unitIdx) ==       \* unitIdx: index of the unit to try (day = 7 ... year = 10)
  IF unitIdx > UnitIdx(largest) THEN r
  ELSE LET unit == Units[unitIdx]
       IN IF unit = "week" /\ largest # "week" THEN Bubble(sign, r, nudged, startDT, largest, unitIdx + 1)
          ELSE LET ed == CASE unit = "year" -> [y |-> r.y + sign, mo |-> 0, w |-> 0, d |-> 0]
                           [] unit = "month" -> [y |-> r.y, mo |-> r.mo + sign, w |-> 0, d |-> 0]
                           [] unit = "week" -> [y |-> r.y, mo |-> r.mo, w |-> r.w + sign, d |-> 0]
                   e == PlusDate(startDT.date, ed.y, ed.mo, ed.w, ed.d)
               IN IF e.kind # "ok" THEN r      \* (not reachable from the generators; see RelativeRoundMachine!InRange)
                  ELSE LET beyond == Sub(nudged, EpochNsOf(DT(e.val, startDT.time)))
                       IN IF beyond.s # -sign THEN Bubble(sign, ID(ed.y, ed.mo, ed.w, ed.d, Zero), nudged, startDT, largest, unitIdx + 1)
                          ELSE r

\* RoundRelativeDuration
RoundRelative(r, destNs, startDT, largest, inc, unit, mode) ==
  LET sign == IF IDSign(r) < 0 THEN -1 ELSE 1
      n == IF unit \in CalendarUnits THEN NudgeCalendar(sign, r, destNs, startDT, inc, unit, mode)
           ELSE NudgeDayTime(r, destNs, largest, inc, unit, mode)
  IN IF n.kind # "ok" THEN n
     ELSE IF n.expanded /\ unit # "week" /\ largest \in DateUnits
          THEN [kind |-> "ok", dur |-> Bubble(sign, n.dur, n.nudged, startDT, largest, UnitIdx(UnitMax(unit, "day")) + 1), outside |-> n.outside]
          ELSE [kind |-> "ok", dur |-> n.dur, outside |-> n.outside]

\* target of adding D (Dur10) to the reference date at midnight
TargetOf(rel, D) ==
  LET t == AddNs(Midnight, TimeNs(D))
      dp == Add(D.d, t.days)
  IN IF ~SmallDateDur(D) \/ ~AbsLe(dp, CapD) THEN ErrRange
     ELSE LET o == PlusDate(rel, ToInt(D.y), ToInt(D.mo), ToInt(D.w), ToInt(dp))
          IN IF o.kind # "ok" THEN o ELSE IF InDTRange(DT(o.val, t.time)) THEN Ok(DT(o.val, t.time)) ELSE ErrRange

\* internal duration -> Duration record (time balanced to hours for date largest units, up to `largest` otherwise)
ToDur(r, largest) ==
  LET tb == BalanceDur(r.t, IF largest \in DateUnits THEN "day" ELSE largest)
  IN Dur10(FromInt(r.y), FromInt(r.mo), FromInt(r.w), Add(FromInt(r.d), tb.d), tb.h, tb.mi, tb.s, tb.ms, tb.us, tb.ns)

\* Duration.round({largest, smallest, inc, mode}, relativeTo: rel)  with resolved options
RoundRelValue(rel, D, largest, smallest, inc, mode) ==
  LET tg == TargetOf(rel, D)
      start == DT(rel, Midnight)
  IN IF tg.kind # "ok" THEN ErrRange
     ELSE IF CmpDT(start, tg.val) = 0 THEN Ok(ZeroDur)
     ELSE LET diff == DiffDTRec(start, tg.val, largest)
          IN IF smallest = "nanosecond" /\ inc = 1 THEN DurNew(ToDur(diff, largest))
             ELSE LET rr == RoundRelative(diff, EpochNsOf(tg.val), start, largest, inc, smallest, mode)
                  IN IF rr.kind # "ok" THEN ErrRange ELSE IF rr.outside THEN [kind |-> "any"] ELSE DurNew(ToDur(rr.dur, largest))
\* the option rule of Duration.prototype.round comes first: a date unit takes an increment above 1 only as the largest unit too
DateIncRule(largest, smallest, inc) == inc > 1 /\ largest # smallest /\ smallest \in DateUnits
RoundRel(rel, D, largest, smallest, inc, mode) == IF DateIncRule(largest, smallest, inc) THEN ErrRange ELSE RoundRelValue(rel, D, largest, smallest, inc, mode)

\* PlainDate.until / since WITH rounding options (DifferenceTemporalPlainDate): the difference a -> b in `largest`, rounded relative to a
\* (RoundRelativeDuration with destination midnight of b); since measures the same a -> b with the mode negated and negates the result
NegOut(o) == IF o.kind = "ok" THEN Ok(NegDur(o.val)) ELSE o
DateDiffRounded(a, b, largest, smallest, inc, mode, since) ==
  LET m == IF since THEN NegateMode(mode) ELSE mode
      start == DT(a, Midnight)   end == DT(b, Midnight)
      r == IF a = b THEN Ok(ZeroDur)
           ELSE LET diff == DiffDTRec(start, end, largest)
                IN IF smallest = "day" /\ inc = 1 THEN DurNew(ToDur(diff, largest))
                   ELSE LET rr == RoundRelative(diff, EpochNsOf(end), start, largest, inc, smallest, m)
                        IN IF rr.kind # "ok" THEN ErrRange ELSE IF rr.outside THEN [kind |-> "any"] ELSE DurNew(ToDur(rr.dur, largest))
  IN IF since THEN NegOut(r) ELSE r

\* PlainDateTime.until / since with rounding options (DifferencePlainDateTimeWithRounding), same scheme with full date-times
DTDiffRounded(a, b, largest, smallest, inc, mode, since) ==
  LET m == IF since THEN NegateMode(mode) ELSE mode
      r == IF CmpDT(a, b) = 0 THEN Ok(ZeroDur)
           ELSE LET diff == DiffDTRec(a, b, largest)
                IN IF smallest = "nanosecond" /\ inc = 1 THEN DurNew(ToDur(diff, largest))
                   ELSE LET rr == RoundRelative(diff, EpochNsOf(b), a, largest, inc, smallest, m)
                        IN IF rr.kind # "ok" THEN ErrRange ELSE IF rr.outside THEN [kind |-> "any"] ELSE DurNew(ToDur(rr.dur, largest))
  IN IF since THEN NegOut(r) ELSE r

\* Duration.total(unit, relativeTo: rel) as an exact rational [n, d] (d > 0)
TotalRel(rel, D, unit) ==
  LET tg == TargetOf(rel, D)
      start == DT(rel, Midnight)
  IN IF tg.kind # "ok" THEN ErrRange
     ELSE IF CmpDT(start, tg.val) = 0 THEN Ok([n |-> Zero, d |-> FromInt(1)])
     ELSE LET diff == DiffDTRec(start, tg.val, unit)
          IN IF unit \in CalendarUnits
             THEN LET sign == IF IDSign(diff) < 0 THEN -1 ELSE 1
                      n == NudgeCalendar(sign, diff, EpochNsOf(tg.val), start, 1, unit, "trunc")
                  IN IF n.kind # "ok" THEN ErrRange
                     ELSE IF n.outside THEN [kind |-> "any"]
                     ELSE Ok([n |-> Add(Mul(FromInt(n.r1), n.den), MulSmall(n.num, sign)), d |-> n.den])
             ELSE Ok([n |-> Add(diff.t, Mul(DayNsBig, FromInt(diff.d))), d |-> UnitNsBig(unit)])

\* Duration.compare(a, b, relativeTo: rel): order of the date-times they lead to
CompareRel(rel, a, b) ==
  LET ta == TargetOf(rel, a)   tb == TargetOf(rel, b)
  IN IF ta.kind # "ok" \/ tb.kind # "ok" THEN ErrRange ELSE Ok(CmpDT(ta.val, tb.val))
=============================================================================
