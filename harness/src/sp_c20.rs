//! Special runner `tvh c20 ...` for C20 (things that do not fit replay/record).
use crate::ops;
use serde_json::{json, Value};
use std::io::{BufRead, Read, Write};

pub fn main(a: &[String]) {
    match a.first().map(|s| s.as_str()).unwrap_or("") {
        "probe" => probe(),
        _ => { eprintln!("usage: tvh c20 probe"); std::process::exit(2); }
    }
}

/// stdin: one {"op","args"} per line; executes them sequentially in this process and prints
/// outcome, under-lock provider events and the poison flag after each.
fn probe() {
    temporal_rs::verif::tz::enable(true);
    for l in std::io::stdin().lock().lines() {
        let l = l.unwrap();
        if l.trim().is_empty() { continue; }
        let c: Value = serde_json::from_str(&l).expect("json");
        let out = ops::exec(c["op"].as_str().unwrap(), &c["args"]);
        let evs: Vec<Value> = temporal_rs::verif::tz::take().into_iter().map(|e| json!({"seq": e.seq, "zone": e.zone, "hit": e.hit})).collect();
        println!("{}", json!({"op": c["op"], "args": c["args"], "out": out, "evs": evs, "poisoned": temporal_rs::verif::provider_lock_poisoned()}));
    }
}
