"""C03 — no public operation panics, asserts, overflows or loops: every outcome is in the alphabet of explainable outcomes."""
import json, os, concurrent.futures
from . import lib
from .props import quick, head_of

FAMILIES = ["Date", "DateTime", "Time", "Instant", "Duration", "Zoned"]
# drivers of the other properties whose sessions are re-read against the outcome alphabet alone, in both arithmetic profiles
OTHER = ["c01", "c02", "c04", "c05", "c06", "c07", "c08", "c18r", "c09", "c11", "c12", "c13", "c14", "c17", "c18"]


def public_surface():
    """Informational: which `pub fn` names of the library the harness source refers to at all (name-based, not a failure)."""
    import re, glob
    repo = os.environ.get("VERIF_REPO", "/repo")
    files = (glob.glob(repo + "/src/builtins/core/**/*.rs", recursive=True) + glob.glob(repo + "/src/builtins/compiled/*.rs")
             + [repo + "/src/tzdb.rs", repo + "/src/options.rs", repo + "/src/epoch_nanoseconds.rs"] + glob.glob(repo + "/temporal_capi/src/*.rs"))
    names = set()
    for f in files:
        try:
            src = open(f).read().split("#[cfg(test)]")[0]
        except OSError:
            continue
        names.update(re.findall(r"^\s*pub (?:const )?fn ([a-z_0-9]+)", src, flags=re.M))
    h = "".join(open(f).read() for f in glob.glob(os.path.join(lib.ROOT, "harness/src/**/*.rs"), recursive=True))
    un = sorted(n for n in names if not re.search(r"\b" + n + r"\b", h))
    return dict(total=len(names), referenced_by_harness=len(names) - len(un), not_referenced=un)


def run(run):
    q = quick(run)
    dev = lib.build_harness("dev")
    rel = lib.build_harness("release")
    # 1. the extreme-argument machine: one case per (operation, extreme receiver, extreme argument/option) cell
    fams = FAMILIES
    with concurrent.futures.ThreadPoolExecutor(max_workers=3) as ex:
        futs = {f: ex.submit(run.gen, "mc/MC_Extremes.tla", f"gen/Gen_C03_{f}.cfg", workers=4, name="x_" + f.lower()) for f in fams}
        gens = {f: futs[f].result() for f in fams}
    for f in fams:
        cases, n = gens[f]
        for profile, b in (("dev", dev), ("release", rel)):
            run.replay(b, cases, label="x_" + f.lower(), profile=profile)
    # 2. negative controls of the replay direction: a panicking and a non-returning operation are reported
    nc = os.path.join(run.dir, "selftest.cases.ndjson")
    with open(nc, "w") as f:
        f.write(json.dumps({"op": "Selftest.panic", "cls": "selftest", "args": {"i": 3}, "out": {"kind": "any"}}) + "\n")
    rep = os.path.join(run.dir, "selftest.report.ndjson")
    run.harness(dev, ["replay", nc, rep])
    got = [json.loads(l) for l in open(rep)]
    if not (len(got) == 1 and got[0]["observed"]["kind"] == "panic"):
        raise lib.ToolError("negative control failed: an index-out-of-bounds panic was not reported by replay")
    with open(nc, "w") as f:
        f.write(json.dumps({"op": "Selftest.spin", "cls": "selftest", "args": {}, "out": {"kind": "any"}}) + "\n")
    run.harness(dev, ["replay", nc, rep], env={"VERIF_WATCHDOG_S": "2"})
    got = [json.loads(l) for l in open(rep)]
    if not (len(got) == 1 and got[0]["observed"]["kind"] == "timeout"):
        raise lib.ToolError("negative control failed: a call that never returns was not reported by the replay watchdog")
    lib.log("[negctl] replay reports a panicking call as 'panic' and a non-returning call as 'timeout'")
    run.cov["negative_controls"] += [dict(kind="replay-panic", detected=1), dict(kind="replay-watchdog", detected=1)]
    # 3. parser fuzz + every zone of the bundled database through the public ZonedDateTime API
    for profile, b in (("dev", dev), ("release", rel)):
        tr = run.record(b, "c03", (10500 if q else 150000) if profile == "dev" else (5200 if q else 75000), profile=profile)
        run.validate("trace/Trace_NoPanic.tla", "trace/Trace_NoPanic.cfg", tr, label="c03." + profile)
        if profile == "dev":
            small = head_of(run, tr, 300, "c03.small.trace.ndjson")

            def corrupt(evs):
                for e in evs:
                    if e.get("op", "").startswith("Parse.") and e["out"]["kind"] == "range":
                        e["out"] = {"kind": "panic"}
                        return True
                return False
            run.negative_control_trace("trace/Trace_NoPanic.tla", "trace/Trace_NoPanic.cfg", small, corrupt)
    # 4. sessions of the other properties' drivers, both profiles, against the alphabet only
    for profile, b in (("dev", dev), ("release", rel)):
        parts = []
        for d in OTHER:
            parts.append(run.record(b, d, 1500 if q else 12000, label="o_" + d, profile=profile))
        allp = os.path.join(run.dir, f"others.{profile}.trace.ndjson")
        with open(allp, "w") as f:
            for p_ in parts:
                f.write(open(p_).read())
                f.write(json.dumps({"op": "reset"}) + "\n")
        run.validate("trace/Trace_NoPanic.tla", "trace/Trace_NoPanic.cfg", allp, label="others." + profile)
    # 5. the rounding of durations and differences relative to zoned date-times near transitions (the bounded ZonedRound instance of
    #    C14: DST pair, 30 min, 24 h skip, 24 h repeat), here read against the outcome alphabet only and in both arithmetic profiles
    zr, _ = run.gen("mc/MC_ZonedRound.tla", "gen/Gen_C14_zround_q.cfg", workers=8, name="zround", timeout=1500)
    zo = os.path.join(run.dir, "zround_outcome.cases.ndjson")
    with open(zr) as f, open(zo, "w") as g:
        for l in f:
            c = json.loads(l)
            c["cls"] = "outcome/" + c["op"]
            c["out"] = {"kind": "any"}
            g.write(json.dumps(c) + "\n")
    for profile, b in (("dev", dev), ("release", rel)):
        run.replay(b, zo, label="zround_outcome", profile=profile)
    run.cov["public_function_names"] = public_surface()
    run.cov["rule"] = ("replay: the cross product of extreme receivers (range ends, leap days, day 31), extreme durations (2^32-1 calendar units, 2^53-1 s, 2^82 ns, i32::MAX fields), every unit x "
                      "rounding mode x increments up to 1e9 and both overflow options for every arithmetic / difference / rounding / total / compare entry point of PlainDate, PlainDateTime, PlainTime, "
                      "Instant, Duration and ZonedDateTime (synthetic zones with a DST pair, a 24 h gap, a 24 h fold and a fixed offset), in an overflow-checked build with debug assertions and in a "
                      "release build; traces: mutated and random strings into the 13 parsers, every zone of the bundled database at 10 labelled instants through 9 ZonedDateTime calls, and the sessions "
                      "of 15 other properties' drivers, all read against the outcome alphabet {ok, type, range, syntax (, generic for provider-backed calls)}; a watchdog turns a call that does not return into the outcome 'timeout'")
    run.cov["distinct_nontrivial"] = run.cov["evaluations"]
    run.assumptions += ["'whatever time-zone data': arbitrary TZif bytes are exercised under C15 (Trace_Tzif), whose trace spec also rejects panics; temporal_capi entry points under C11",
                        "memory exhaustion and stack overflow are outside catch_unwind and would end the harness (reported as a tool error, exit 2)"]
