//! C03 sessions: (a) arbitrary and mutated strings into every parser, (b) every zone of the bundled database probed through
//! the public ZonedDateTime API at extreme and transition-adjacent instants. The trace spec only asks that each outcome is in
//! the alphabet {ok, type, range, syntax, generic} - never panic / assert / timeout. (c) synthetic TZif data: `Tzdb.define` of a
//! seeded description, then `Tzdb.offset` / `Tzdb.local` queries on it.
use super::Tracer;
use crate::gen::*;
use crate::js::big;
use crate::rng::Rng;
use serde_json::{json, Value};

const PARSERS: [&str; 13] = ["Parse.PlainDate", "Parse.PlainDateTime", "Parse.PlainTime", "Parse.PlainYearMonth", "Parse.PlainMonthDay", "Parse.Instant", "Parse.Duration",
    "Parse.ZonedDateTime", "Parse.UtcOffset", "Parse.TimeZone", "Parse.TimeZoneId", "Parse.MonthCode", "Parse.Calendar"];
const SEEDS: [&str; 27] = ["2020-01-01T00:00+00:00[UTC]", "2020-06-01T12:00[America/New_York]", "1970-01-01T00:00Z[+05:30]", "+03:00", "-05:30", "+0530", "-08", "+05:30:15.5", "Etc/GMT+5", "M12", "u-ca=gregory",
    "2020-01-01", "2020-01-01T12:30:45.123456789", "-271821-04-19T00:00Z", "+275760-09-13T23:59:59.999999999+00:00[UTC]", "12:30", "T123045", "2020-02", "--02-29", "02-29",
    "P1Y2M3W4DT5H6M7.000000008S", "-PT9007199254740991S", "+05:30", "America/New_York", "M05L", "2020-01-01[u-ca=hebrew]", "2020-01-01T00:00+00:00[!u-ca=iso8601][foo=bar]"];
const ALPHA: &str = "0123456789-+:.,TZtz[]=!PYMWDHSuca/ _\u{2212}\u{e9}\u{0}\u{7f}ABC\u{660}\u{663}\u{b2}\u{ff10}\u{ff15}\u{96f}\u{bd}";
/// characters that Unicode classifies as digits / numeric without being ASCII digits (Arabic-Indic, superscript, fullwidth, Devanagari, vulgar fraction)
const ODD_DIGITS: [char; 8] = ['\u{660}', '\u{663}', '\u{669}', '\u{b2}', '\u{ff10}', '\u{ff15}', '\u{96f}', '\u{bd}'];
pub const QUICK_ZONES: [&str; 14] = ["UTC", "America/New_York", "Europe/Dublin", "Europe/London", "Australia/Sydney", "Asia/Kolkata", "Asia/Kathmandu", "Pacific/Apia", "America/St_Johns", "Africa/Casablanca",
    "Asia/Tokyo", "Etc/GMT+5", "Australia/Lord_Howe", "Antarctica/Troll"];
const CALLS: [&str; 9] = ["fields", "toString", "startOfDay", "hoursInDay", "addDay", "subMonth", "untilEpoch", "fromLocal", "withPlainTime"];

fn chars(s: &str) -> Value { Value::Array(s.chars().map(|c| json!(c.to_string())).collect()) }
fn mutate(r: &mut Rng, s: &str) -> String {
    let mut v: Vec<char> = s.chars().collect(); let al: Vec<char> = ALPHA.chars().collect();
    // a digit replaced by a non-ASCII character that is_numeric()/is_digit-like predicates accept
    if r.chance(1, 3) {
        let idx: Vec<usize> = v.iter().enumerate().filter(|(_, c)| c.is_ascii_digit()).map(|(i, _)| i).collect();
        if !idx.is_empty() { let i = *r.pick(&idx[..]); v[i] = *r.pick(&ODD_DIGITS[..]); if r.chance(1, 2) { return v.into_iter().collect(); } }
    }
    for _ in 0..r.range(1, 4) {
        let pos = if v.is_empty() { 0 } else { r.range(0, v.len() as i64 - 1) as usize };
        match r.range(0, 3) { 0 if !v.is_empty() => { v.remove(pos); } 1 => { v.insert(pos.min(v.len()), *r.pick(&al)); } 2 if !v.is_empty() => { v[pos] = *r.pick(&al); } _ => { let c = *r.pick(&al); for _ in 0..r.range(1, 40) { v.push(c); } } }
    }
    v.into_iter().collect()
}
/// exactly one edit: delete, insert, replace (ASCII or odd digit), duplicate a character, or swap two neighbours
fn mutate1(r: &mut Rng, s: &str) -> String {
    let mut v: Vec<char> = s.chars().collect(); let al: Vec<char> = ALPHA.chars().collect();
    if v.is_empty() { return r.pick(&al).to_string(); }
    let pos = r.range(0, v.len() as i64 - 1) as usize;
    match r.range(0, 5) {
        0 => { v.remove(pos); }
        1 => { v.insert(pos, *r.pick(&al)); }
        2 => { v[pos] = *r.pick(&al); }
        3 => { let idx: Vec<usize> = v.iter().enumerate().filter(|(_, c)| c.is_ascii_digit()).map(|(i, _)| i).collect();
               if idx.is_empty() { v[pos] = *r.pick(&ODD_DIGITS[..]); } else { let i = *r.pick(&idx[..]); v[i] = *r.pick(&ODD_DIGITS[..]); } }
        4 => { let c = v[pos]; v.insert(pos, c); }
        _ => { if pos + 1 < v.len() { v.swap(pos, pos + 1); } }
    }
    v.into_iter().collect()
}
fn random_string(r: &mut Rng) -> String { let al: Vec<char> = ALPHA.chars().collect(); (0..r.range(0, 40)).map(|_| *r.pick(&al)).collect() }

pub fn drive(t: &mut Tracer, r: &mut Rng, n: usize) {
    let zones: Vec<String> = if std::env::var("VERIF_TIER").ok().as_deref() == Some("thorough") {
        std::fs::read_to_string("/usr/share/zoneinfo/tzdata.zi").map(|s| s.lines().filter_map(|l| { let mut it = l.split_whitespace(); match it.next() { Some("Z") => it.next().map(|x| x.to_string()), Some("L") => { it.next(); it.next().map(|x| x.to_string()) } _ => None } }).collect()).unwrap_or_default()
    } else { QUICK_ZONES.iter().map(|s| s.to_string()).collect() };
    // instants: range ends, year 1, LMT era, classic transition seconds, after the tables, far future
    let labelled: Vec<(&str, i128)> = vec![("min", -MAX_INSTANT), ("max", MAX_INSTANT), ("year-1", -62_135_596_800_000_000_000), ("lmt-1883", -2_717_650_800_000_000_000), ("pre-1970", -1_000_000_000_123_456_789),
        ("epoch", 0), ("2021-dst", 1_615_705_200_000_000_000), ("2021-dst-1ns", 1_615_705_199_999_999_999), ("2040", 2_208_988_800_000_000_000), ("9999", 253_402_300_799_000_000_000)];
    let mut zi = 0usize;
    let mut syn = 0usize;
    while t.n < n {
        if r.chance(2, 3) {
            // valid seeds as they are, seeds with one edit, heavier damage, and arbitrary strings; every string goes to a random parser
            let s = match r.range(0, 7) {
                0 | 1 => r.pick(&SEEDS[..]).to_string(),
                2 | 3 | 4 => { let a = *r.pick(&SEEDS[..]); mutate1(r, a) }
                5 => { let a = *r.pick(&SEEDS[..]); mutate(r, a) }
                6 => { let a = *r.pick(&SEEDS[..]); let b = *r.pick(&SEEDS[..]); format!("{}{}", a, mutate1(r, b)) }
                _ => random_string(r),
            };
            t.call(*r.pick(&PARSERS[..]), json!({"chars": chars(&s)}));
        } else if r.chance(1, 6) {
            // synthetic TZif data (table and footer shapes no real file has, see rec/c15.rs): written, handed to Tzif::from_bytes,
            // then offset and wall-clock queries around its table and rule transitions
            let z = format!("synth/c03-{}", syn); let desc = super::c15::synth_desc(r, syn); syn += 1;
            t.call("Tzdb.define", json!({"zone": z, "desc": desc}));
            let tab = t.call("Tzdb.table", json!({"zone": z}));
            if tab["kind"] == "ok" {
                let qs = super::c15::queries_for(&z, &tab["val"], r, 6, false);
                for _ in 0..6 { let q = r.pick(&qs); t.call(q.op, q.args.clone()); }
            }
        } else if r.chance(1, 3) && !zones.is_empty() {
            // corrupted copies of real TZif files
            let z = &zones[r.range(0, zones.len() as i64 - 1) as usize];
            let muts: Vec<Value> = (0..r.range(0, 4)).map(|_| json!([r.range(0, 999), r.range(0, 40), if r.chance(1, 2) { r.range(0, 255) } else { *r.pick(&[0i64, 1, 127, 128, 255][..]) }])).collect();
            let mut args = json!({"zone": z, "muts": muts});
            if r.chance(1, 4) { args["trunc"] = json!(r.range(0, 999)); }
            t.call("TzifBytes.probe", args);
        } else if !zones.is_empty() {
            let z = &zones[zi % zones.len()]; zi += 1;
            let (lbl, ns) = if r.chance(1, 4) { ("random", r.range128(-MAX_INSTANT, MAX_INSTANT)) } else { *r.pick(&labelled) };
            t.call("RealZone.probe", json!({"zone": z, "ns": big(ns), "lbl": lbl, "call": *r.pick(&CALLS[..])}));
        }
        if t.n % 50 == 0 { t.reset(); }
    }
}
