SPECIFICATION Spec
CONSTANTS
  DaySec = 24
  Disk0 <- ToyDisk
  Workload <- YearQueries
  Once = FALSE
  OneStep = TRUE
INVARIANTS LawAnswer LawTable LawRules
CHECK_DEADLOCK FALSE
