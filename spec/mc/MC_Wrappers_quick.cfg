SPECIFICATION Spec
CONSTANTS
  Receivers <- QReceivers
  ArgPool <- QPool
  OneStep = TRUE
INVARIANTS DistinctFields NoOverclaim ExpectedWellFormed
CHECK_DEADLOCK FALSE
