"""C02 — every value produced is in range; out-of-range results are RangeErrors with exact boundaries."""
import json
from . import lib
from .props import quick, corrupt_first, head_of


def run(run):
    q = quick(run)
    for profile in ("dev", "release"):
        b = lib.build_harness(profile)
        if profile == "dev":
            cases, n = run.gen("mc/MC_Limits.tla", "gen/Gen_C02.cfg", workers=4, name="limits")
        run.replay(b, cases, label="limits", profile=profile)
        if profile == "dev":
            run.negative_control_replay(b, cases, corrupt_first(lambda e: e["out"]["kind"] == "range", lambda e: e["out"].__setitem__("kind", "ok")), limit=700)
        tr = run.record(b, "c02", (12000 if q else 150000) if profile == "dev" else (5000 if q else 50000), profile=profile)
        run.validate("trace/Trace_Limits.tla", "trace/Trace_Limits.cfg", tr, label="c02." + profile)
        if profile == "dev":
            small = head_of(run, tr, 400, "c02.small.trace.ndjson")
            run.negative_control_trace("trace/Trace_Limits.tla", "trace/Trace_Limits.cfg", small,
                                       corrupt_first(lambda e: e.get("op") in ("PlainDate.add", "PlainDate.subtract", "PlainDateTime.add", "PlainDateTime.subtract") and e["out"]["kind"] == "range",
                                                     lambda e: e.__setitem__("out", {"kind": "ok", "val": {"y": 275760, "m": 9, "d": 13, "h": 0, "mi": 0, "s": 0, "ms": 0, "us": 0, "ns": 0} if "DateTime" in e["op"] else {"y": 275760, "m": 9, "d": 13}})))
    run.cov["rule"] = ("replay: one case per (entry point, boundary operand) of LimitsMachine - constructors, conversions, arithmetic, rounding and parsing of PlainDate, PlainDateTime, Instant, ZonedDateTime, "
                      "Duration with exact results at limit-1u, limit, limit+1u and far beyond; traces: seeded operands within a few units of each limit; both arithmetic profiles; "
                      "in addition every trace spec of C01/C04/C05/C06/C13 keeps 'the cursor is well-formed and in range' as an invariant")
    run.cov["distinct_nontrivial"] = run.cov["evaluations"]
    run.assumptions += ["year-month limits are checked under C18, duration field limits under C09, partial-record ranges under C17"]
