--------------------------- MODULE Trace_YearMonth ---------------------------
(* impl -> spec for C18 sessions: construction routes of year-months / month-days, comparisons of routes, whole-month arithmetic. *)
EXTENDS YearMonthMachine, TraceBase

VARIABLE l
tvars == <<cur, last, l>>
Nil == [k |-> "nil", v |-> <<>>]

E == Rec[l]
Ovf(a) == Get(a, "ovf", "constrain")
YmOf(r) == YMV(r.y, r.m, Get(r, "rd", 1))
AnyOut == [kind |-> "any"]

\* a route as logged: records without "ovf" take the default; a string route carries the components it was written from,
\* and the text must be exactly what those components spell
RouteIn(r) == IF r.k \in {"partial", "new", "with"} /\ ~Has(r, "ovf") THEN r @@ [ovf |-> "constrain"] ELSE r
YmRouteOK(r) == r.k = "str" => (r.s = YmRouteStr(r))
MdRouteOK(r) == r.k = "str" => (r.s = MdRouteStr(r))
YmRouteIn(r) == LET q == RouteIn(r) IN IF q.k = "with" THEN [q EXCEPT !.recv = YmOf(q.recv)] ELSE q

CmpExpected(kind, a, b) ==
  LET oa == IF kind = "ym" THEN YmRoute(YmRouteIn(a)) ELSE MdRoute(RouteIn(a))
      ob == IF kind = "ym" THEN YmRoute(YmRouteIn(b)) ELSE MdRoute(RouteIn(b))
  IN IF oa.kind = "ok" /\ ob.kind = "ok" /\ ~Has(oa, "alt") /\ ~Has(ob, "alt")
     THEN Ok(IF kind = "ym" THEN YmCmpOut(oa.val, ob.val) ELSE MdCmpOut(oa.val, ob.val))
     ELSE IF oa.kind = "ok" /\ ob.kind = "ok" THEN AnyOut
     ELSE [kind |-> "err"]      \* one of the two routes does not exist: the comparison reports that error

Expected(e) ==
  CASE e.op = "PlainYearMonth.route" -> IF YmRouteOK(e.args.route) THEN FullOf("ym", YmRoute(YmRouteIn(e.args.route))) ELSE [kind |-> "harness-string"]
    [] e.op = "PlainMonthDay.route" -> IF MdRouteOK(e.args.route) THEN FullOf("md", MdRoute(RouteIn(e.args.route))) ELSE [kind |-> "harness-string"]
    [] e.op = "PlainYearMonth.cmp" -> IF YmRouteOK(e.args.a) /\ YmRouteOK(e.args.b) THEN CmpExpected("ym", e.args.a, e.args.b) ELSE [kind |-> "harness-string"]
    [] e.op = "PlainMonthDay.cmp" -> IF MdRouteOK(e.args.a) /\ MdRouteOK(e.args.b) THEN CmpExpected("md", e.args.a, e.args.b) ELSE [kind |-> "harness-string"]
    [] e.op = "PlainYearMonth.add" -> IF YmDurOK(e.args.dur) THEN AddYm(YmOf(e.args.recv), e.args.dur) ELSE AnyOut
    [] e.op = "PlainYearMonth.subtract" -> IF YmDurOK(e.args.dur) THEN SubYm(YmOf(e.args.recv), e.args.dur) ELSE AnyOut
    [] e.op = "PlainYearMonth.until" -> YmUntil(YmOf(e.args.recv), YmOf(e.args.other), e.args.st, 1)
    [] e.op = "PlainYearMonth.since" -> YmUntil(YmOf(e.args.recv), YmOf(e.args.other), e.args.st, -1)
KnownOp(op) == op \in {"PlainYearMonth.route", "PlainMonthDay.route", "PlainYearMonth.cmp", "PlainMonthDay.cmp",
                       "PlainYearMonth.add", "PlainYearMonth.subtract", "PlainYearMonth.until", "PlainYearMonth.since"}
AgreesT(exp, obs) == IF exp.kind = "any" THEN obs.kind \in {"ok", "type", "range"} ELSE AgreesAlt(exp, obs)

ClsOf(e) ==
  CASE e.op = "PlainYearMonth.route" -> YmRouteCls(YmRouteIn(e.args.route))
    [] e.op = "PlainMonthDay.route" -> MdRouteCls(RouteIn(e.args.route))
    [] e.op = "PlainYearMonth.cmp" -> CmpCls("ym", e.args.a, e.args.b)
    [] e.op = "PlainMonthDay.cmp" -> CmpCls("md", e.args.a, e.args.b)
    [] e.op \in {"PlainYearMonth.add", "PlainYearMonth.subtract"} ->
         ArithCls(YmOf(e.args.recv), YmOf(e.args.recv)) \o "/" \o (LET x == Expected(e) IN IF x.kind = "ok" THEN "ok" ELSE IF x.kind = "any" THEN "unspecified-duration" ELSE "beyond")
    [] e.op \in {"PlainYearMonth.until", "PlainYearMonth.since"} ->
         ArithCls(YmOf(e.args.recv), YmOf(e.args.other)) \o "/" \o (IF DiffUnitsRefused(e.args.st) THEN "refused" ELSE YmLargest(e.args.st))

IsArith(op) == op \in {"PlainYearMonth.add", "PlainYearMonth.subtract", "PlainYearMonth.until", "PlainYearMonth.since"}
\* a session follows the year-month it produced
Chained(e) == IsArith(e.op) => (cur = Nil \/ (cur.k = "ym" /\ YmOf(e.args.recv) = cur.v))
After(e) ==
  IF e.op = "PlainYearMonth.route" /\ e.out.kind = "ok" THEN [k |-> "ym", v |-> YMV(e.out.val.y, e.out.val.m, e.out.val.rd)]
  ELSE IF e.op \in {"PlainYearMonth.add", "PlainYearMonth.subtract"} /\ e.out.kind = "ok" THEN [k |-> "ym", v |-> e.out.val]
  ELSE IF IsArith(e.op) THEN cur ELSE Nil

TInit == l = 1 /\ cur = Nil /\ last = None
Reset == E.op = "reset" /\ cur' = Nil /\ last' = None
Match == /\ E.op # "reset" /\ KnownOp(E.op) /\ Chained(E)
         /\ AgreesT(Expected(E), E.out)
         /\ cur' = After(E)
         /\ last' = [op |-> E.op]
Mismatch == /\ E.op # "reset"
            /\ ~(KnownOp(E.op) /\ Chained(E) /\ AgreesT(Expected(E), E.out))
            /\ Report(l, E.op, IF KnownOp(E.op) THEN ClsOf(E) ELSE "unknown-op",
                      IF ~KnownOp(E.op) THEN "unknown-op" ELSE IF Chained(E) THEN Expected(E) ELSE "session-chain-broken", E.out)
            /\ cur' = IF KnownOp(E.op) /\ E.out.kind = "ok" /\ E.op \in {"PlainYearMonth.route", "PlainYearMonth.add", "PlainYearMonth.subtract"} THEN After(E) ELSE Nil
            /\ last' = [op |-> "mismatch"]
TNext == l <= NEv /\ l' = l + 1 /\ (Reset \/ Match \/ Mismatch)
TSpec == TInit /\ [][TNext]_tvars

\* evaluated at every step: the session's year-month is within the limits and well formed
CursorOK == cur = Nil \/ (cur.k = "ym" /\ cur.v.m \in 1..12 /\ YmInLimits(cur.v.y, cur.v.m) /\ cur.v.rd \in 1..DIM(cur.v.y, cur.v.m))
=============================================================================
