------------------------- MODULE RoundEntryMachine -------------------------
(***************************************************************************)
(* Generator machine for C07: every rounding class (sign x parity of the    *)
(* lower multiple x position of the remainder) instantiated at every        *)
(* admissible increment of every unit, for each public entry point that     *)
(* rounds: PlainTime.round, PlainTime.until/since, Instant.round,           *)
(* Instant.until/since. One step per (situation, mode).                     *)
(***************************************************************************)
EXTENDS Instant, FiniteSets

Divisors(m) == {d \in 1..m : m % d = 0}
UnitMaxInc(u) == CASE u = "hour" -> 24 [] u = "minute" -> 60 [] u = "second" -> 60 [] OTHER -> 1000
TimeIncs(u) == Divisors(UnitMaxInc(u)) \ {UnitMaxInc(u)}
\* Instant.round: increments dividing a day (inclusive); representatives incl. odd ones
InstIncs(u) == CASE u = "hour" -> Divisors(24)
                 [] u = "minute" -> {1, 2, 15, 45, 60, 90, 720, 1440}
                 [] u = "second" -> {1, 2, 27, 30, 3600, 43200, 86400}
                 [] u = "millisecond" -> {1, 5, 8, 1000, 86400000}
                 [] u = "microsecond" -> {1, 125, 1000000, 864000000}
                 [] u = "nanosecond" -> {1, 3, 5, 25, 27, 125, 512, 675, 1000, 1000000000}
RClasses == {"exact", "just-above", "below-half", "tie", "above-half", "just-below"}
RoundUnits == {"hour", "minute", "second", "millisecond", "microsecond", "nanosecond"}

Half(n) == TruncDivSmall(n, 2).q
HasClass(n, rc) == /\ (rc = "tie" => Parity(n) = 0)
                   /\ (rc # "exact" => ~Eq(n, FromInt(1)))                  \* increment 1: everything is exact
                   /\ (rc \in {"below-half", "just-below"} => Lt(FromInt(2), n))  \* need room strictly between
RemOf(n, rc) == CASE rc = "exact" -> Zero
                  [] rc = "just-above" -> FromInt(1)
                  [] rc = "below-half" -> IF Parity(n) = 0 THEN Sub(Half(n), FromInt(1)) ELSE Half(n)
                  [] rc = "tie" -> Half(n)
                  [] rc = "above-half" -> Add(Half(n), FromInt(1))
                  [] rc = "just-below" -> Sub(n, FromInt(1))
Magnitude(n, q, rc) == Add(MulSmall(n, q), RemOf(n, rc))

CONSTANTS Targets, Qs
VARIABLES sit, last           \* sit: the situation (target, unit, inc, q, rc, neg); last: the emitted case
vars == <<sit, last>>
None == [op |-> "none"]

Sits == {s \in [target : Targets, u : RoundUnits, q : Qs, rc : RClasses, neg : BOOLEAN, inc : 1..1, k : 0..1] : TRUE}
IncsFor(target, u) == IF target = "Instant.round" THEN InstIncs(u) ELSE TimeIncs(u)
\* k: PlainTime.round counts its multiples from the start of the ENCLOSING unit (RoundTime: the hour for minutes, the minute for seconds ...),
\* not from midnight; with an increment that fits an odd number of times into that unit (20 min, 12 s, 8 ms) the two counts differ in
\* parity after an odd number k of enclosing units, which is what half-even looks at: 01:10 to 20 minutes is 01:00, not 01:20
Init == /\ \E target \in Targets, u \in RoundUnits, q \in Qs, rc \in RClasses, neg \in BOOLEAN, k \in 0..1 :
             \E inc \in IncsFor(target, u) :
               /\ sit = [target |-> target, u |-> u, q |-> q, rc |-> rc, neg |-> neg, inc |-> inc, k |-> k]
               /\ (k = 1 => target = "PlainTime.round" /\ u # "hour" /\ rc = "tie" /\ Lt(Magnitude(IncNs(inc, u), q, rc), ParentNsBig(u)))
               /\ HasClass(IncNs(inc, u), rc)
               /\ (target = "PlainTime.round" => ~neg)
               /\ (target \in {"PlainTime.round", "PlainTime.diff"} => Lt(Magnitude(IncNs(inc, u), q, rc), DayNsBig))
        /\ last = None

N == IncNs(sit.inc, sit.u)
X == LET m == Add(Magnitude(N, sit.q, sit.rc), IF sit.k = 1 THEN ParentNsBig(sit.u) ELSE Zero) IN IF sit.neg THEN Neg(m) ELSE m
ClsOf(mode) == sit.u \o "/" \o RoundCls(X, N) \o "/" \o mode

CaseFor(mode) ==
  IF sit.target = "PlainTime.round" THEN
    [op |-> "PlainTime.round", cls |-> ClsOf(mode),
     args |-> [recv |-> TimeFromBig(X), st |-> [smallest |-> sit.u, inc |-> sit.inc, mode |-> mode]],
     out |-> PlainTimeRound(TimeFromBig(X), sit.u, sit.inc, mode)]
  ELSE IF sit.target = "PlainTime.diff" THEN
    \* until for one order, since for the other: both signs of the difference, both operations
    LET a == IF sit.neg THEN TimeFromBig(Abs(X)) ELSE Midnight
        b == IF sit.neg THEN Midnight ELSE TimeFromBig(X)
        since == (sit.q % 2 = 1)
    IN [op |-> IF since THEN "PlainTime.since" ELSE "PlainTime.until", cls |-> ClsOf(mode),
        args |-> [recv |-> a, other |-> b, st |-> [largest |-> "hour", smallest |-> sit.u, inc |-> sit.inc, mode |-> mode]],
        out |-> PlainTimeDiff(a, b, "hour", sit.u, sit.inc, mode, since)]
  ELSE IF sit.target = "Instant.round" THEN
    [op |-> "Instant.round", cls |-> ClsOf(mode),
     args |-> [recv |-> X, st |-> [smallest |-> sit.u, inc |-> sit.inc, mode |-> mode]],
     out |-> InstantRound(X, sit.u, sit.inc, mode)]
  ELSE
    LET since == (sit.q % 2 = 0)
    IN [op |-> IF since THEN "Instant.since" ELSE "Instant.until", cls |-> ClsOf(mode),
        args |-> [recv |-> Zero, other |-> X, st |-> [largest |-> "hour", smallest |-> sit.u, inc |-> sit.inc, mode |-> mode]],
        out |-> InstantDiff(Zero, X, "hour", sit.u, sit.inc, mode, since)]

Step(mode) == last = None /\ last' = CaseFor(mode) /\ UNCHANGED sit
Next == \E mode \in Modes : Step(mode)
Spec == Init /\ [][Next]_vars

\* the property's clauses, checked on every generated expectation
ResultBig == \* the rounded quantity recovered from the expected outcome, for the two round targets
  IF last.op = "PlainTime.round" THEN TimeNsOf(last.out.val) ELSE IF last.op = "Instant.round" THEN last.out.val ELSE Zero
AdjacentLaw == last.op \in {"Instant.round"} =>
  /\ IsZero(FloorDivMod(ResultBig, N).r)
  /\ Lt(Abs(Sub(ResultBig, X)), N)
  /\ (sit.rc = "exact" => Eq(ResultBig, X))
TimeAdjacentLaw == last.op = "PlainTime.round" =>
  \/ IsZero(FloorDivMod(ResultBig, N).r) /\ Lt(Abs(Sub(ResultBig, X)), N)
  \/ ResultBig = Zero      \* wrapped past midnight
DiffNegLaw == last.op \in {"PlainTime.since", "Instant.since"} =>
  \* since applies the mode as if negated: same magnitude as until of the swapped... checked via definition:
  SignUniform(last.out.val)
=============================================================================
