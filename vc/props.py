"""Per-property pipelines. Each one: model-check the spec instance(s), generate cases with TLC,
replay them into the real code, record seeded sessions of the real code, validate them with TLC,
run the negative controls, classify, write evidence."""
import json, os, sys, copy
from . import lib
from .lib import Run, ToolError, log


def quick(run):
    return run.tier == "quick"


# ---------------------------------------------------------------- C01
def c01(run):
    b = lib.build_harness("dev")
    for w in ("lo", "hi", "zero", "back"):
        run.mc("mc/MC_Gregorian.tla", f"mc/MC_Gregorian_{w}.cfg", workers=1, require_actions=())
    # the cycle walk is both the model check of one full 400-year period and the generator of the table
    table, n = run.gen("mc/MC_Gregorian.tla", "gen/Gen_C01_cycle.cfg", workers=1, name="cycle")
    if not quick(run):
        run.apalache("GregorianApa.tla", "Periodic", timeout=300)
        run.apalache("GregorianApa.tla", "RoundTripAndSucc", timeout=900)
    rep = os.path.join(run.dir, "c01.report.ndjson")
    out, dt = run.harness(b, ["c01", table, run.tier, rep], timeout=7200)
    summ = json.loads(out.strip().splitlines()[-1])
    mm = [json.loads(l) for l in open(rep)]
    for m in mm:
        m["direction"] = "replay"
        m["count_for_check"] = summ["mismatch_counts"].get(m["cls"])
    run.mismatches += mm
    run.cov["evaluations"] += summ["cases"]
    run.cov["replay_runs"].append(dict(label="tiled-cycle", days=summ["cases"], api_calls=summ["api_calls"], cycles=summ["cycles"],
                                       cycles_total=summ["cycles_total"], mismatch_counts=summ["mismatch_counts"], wall_s=round(dt, 1)))
    run.cov["samples"] += summ["samples"]
    run.exhaustive = bool(summ["exhaustive"])
    run.cov["distinct_nontrivial"] = summ["cases"]
    run.cov["rule"] = ("every day of each selected 400-year cycle (TLC-generated cycle table tiled by the proved periodicity) is a distinct case; "
                       "each is stepped through ~25 public calls; plus seeded sessions validated by TLC")
    log(f"[c01] {summ['cases']} days x API ({summ['api_calls']} calls) over {summ['cycles']}/{summ['cycles_total']} cycles, mismatches by check: {summ['mismatch_counts']}, {dt:.1f}s")
    # negative control for the tiled replay: corrupt one table row
    bad = os.path.join(run.dir, "cycle.bad.ndjson")
    with open(table) as f, open(bad, "w") as g:
        for i, l in enumerate(f):
            if i == 1000:
                r = json.loads(l); r["dow"] = r["dow"] % 7 + 1; l = json.dumps(r) + "\n"
            g.write(l)
    rep2 = os.path.join(run.dir, "c01.bad.report.ndjson")
    out2, _ = run.harness(b, ["c01", bad, "negctl", rep2])
    if not any(json.loads(l)["cls"] == "fields.dow" for l in open(rep2)):
        raise ToolError("negative control: corrupted cycle row not detected")
    run.cov["negative_controls"].append(dict(kind="replay", detected=True))
    # impl -> spec
    tr = run.record(b, "c01", 30000 if quick(run) else 400000)
    run.validate("trace/Trace_Date.tla", "trace/Trace_Date.cfg", tr)

    def corrupt(evs):
        for e in evs:
            if e.get("op") == "PlainDate.until" and e["out"]["kind"] == "ok" and e["out"]["val"]["d"]["l"]:
                e["out"]["val"]["d"]["l"][0] = (e["out"]["val"]["d"]["l"][0] + 1) % 10000
                return True
        return False
    small = os.path.join(run.dir, "c01.small.trace.ndjson")
    with open(tr) as f, open(small, "w") as g:
        for i, l in enumerate(f):
            if i < 600:
                g.write(l)
    run.negative_control_trace("trace/Trace_Date.tla", "trace/Trace_Date.cfg", small, corrupt)
    run.assumptions += ["the 400-year periodicity used to tile the cycle table (TLC: Cycle invariant on one full period; Apalache: Periodic for all integer years in the thorough tier)",
                        "harness arithmetic n*86400e9 in i128 and its own year padding for strings"]


# ---------------------------------------------------------------- C04
def corrupt_first(pred, mutate):
    def f(evs):
        for e in evs:
            if pred(e):
                mutate(e)
                return True
        return False
    return f


def bump_big(b):
    if b["l"]:
        b["l"][0] = (b["l"][0] + 1) % 10000
    else:
        b["s"] = 1; b["l"] = [1]


def head_of(run, path, n, name):
    small = os.path.join(run.dir, name)
    with open(path) as f, open(small, "w") as g:
        for i, l in enumerate(f):
            if i < n:
                g.write(l)
    return small


def c04(run):
    b = lib.build_harness("dev")
    q = quick(run)
    for c in (["qdiff", "ndiff", "qadd"] if q else ["tdiff", "ndiff", "tadd"]):
        # the generator run *is* the model-checking run (same module, same invariants, plus the Emit invariant)
        cases, n = run.gen("mc/MC_DateArith.tla", f"gen/Gen_C04_{c}.cfg", workers=8, name=c, timeout=3000)
        run.replay(b, cases, label=c)
        if c in ("qdiff", "tdiff"):
            run.negative_control_replay(b, cases, corrupt_first(lambda e: e["out"]["kind"] == "ok" and "d" in e["out"]["val"], lambda e: bump_big(e["out"]["val"]["d"])))
    # until / since WITH smallestUnit / roundingIncrement / roundingMode (and with the units left out): the RelativeRound instance restricted to date differences
    cases, n = run.gen("mc/MC_RelativeRound.tla", "gen/Gen_C04_rounded.cfg", workers=8, name="rounded", timeout=1500)
    run.replay(b, cases, label="rounded")
    tr = run.record(b, "c04", 40000 if q else 600000)
    run.validate("trace/Trace_Date.tla", "trace/Trace_Date.cfg", tr)
    small = head_of(run, tr, 500, "c04.small.trace.ndjson")
    run.negative_control_trace("trace/Trace_Date.tla", "trace/Trace_Date.cfg", small,
                               corrupt_first(lambda e: e.get("op") in ("PlainDate.add", "PlainDate.subtract") and e["out"]["kind"] == "ok",
                                             lambda e: e["out"]["val"].__setitem__("d", e["out"]["val"]["d"] % 28 + 1)))
    run.cov["rule"] = ("replay: every (date pair, largest unit, until|since) and every (date, duration, overflow, add|subtract) transition of the bounded DateArith instance is one distinct case; "
                      "traces: seeded sessions over the full range (distinct by construction of the PRNG stream)")
    run.cov["distinct_nontrivial"] = run.cov["evaluations"]


PROPS = {"C01": c01, "C04": c04}
REPLAYERS = {}      # optional per-property `replay_file(path, seed)` (a module p_cXX.py may define one)


def _discover():
    import importlib, glob
    here = os.path.dirname(os.path.abspath(__file__))
    for f in sorted(glob.glob(os.path.join(here, "p_c*.py"))):
        name = os.path.splitext(os.path.basename(f))[0]
        mod = importlib.import_module("vc." + name)
        PROPS[name[2:].upper()] = mod.run
        if hasattr(mod, "replay_file"):
            REPLAYERS[name[2:].upper()] = mod.replay_file


_discover()


def main(argv):
    if not argv:
        print(__doc__); return 2
    if argv[0] == "--selftest":
        return selftest()
    prop = argv[0]
    if prop not in PROPS:
        print("unknown property", prop); return 2
    seed = int(os.environ.get("VERIF_SEED", lib.DEFAULT_SEED))
    if len(argv) >= 3 and argv[1] == "--replay":
        if prop in REPLAYERS:
            return REPLAYERS[prop](argv[2], seed)
        return replay_file(prop, argv[2], seed)
    tier = argv[1] if len(argv) > 1 else os.environ.get("VERIF_TIER", "quick")
    if len(argv) > 2 and argv[2].isdigit():       # bin/vcheck Cxx quick 3  ==  VERIF_SEED=3 bin/vcheck Cxx quick
        seed = int(argv[2])
    return lib.main_wrapper(PROPS[prop], prop, tier, seed)


def replay_file(prop, path, seed):
    """Re-execute the case/event of a violation file against the current tree and re-judge it."""
    v = json.load(open(path))
    b = lib.build_harness("dev")
    first = v["first"]
    case = dict(op=first["op"], args=first.get("args") or first.get("event", {}).get("args"), out=first.get("expected"), cls=first.get("cls"))
    if first.get("direction") == "trace" and "event" in first:
        case["args"] = first["event"]["args"]
    r = lib.sh([b, "exec", json.dumps(case)])
    obs = r.stdout.strip().splitlines()[-1] if r.stdout.strip() else ""
    print("case:", json.dumps(case))
    print("observed now:", obs)
    try:
        same = json.loads(obs) == first.get("observed")
    except Exception:
        same = False
    exp = first.get("expected")
    ok = False
    try:
        o = json.loads(obs)
        ok = isinstance(exp, dict) and o == exp
    except Exception:
        pass
    if ok:
        print("now matches the specification's expectation")
        return 0
    print(f"VIOLATION property={prop} replay={path}")
    return 1


def selftest():
    import glob, subprocess
    bad = 0
    env = dict(os.environ, JAVA_TOOL_OPTIONS="-DTLA-Library=" + ":".join([lib.SPEC, lib.SPEC + "/mc", lib.SPEC + "/gen", lib.SPEC + "/trace"]))
    for f in sorted(glob.glob(lib.SPEC + "/*.tla") + glob.glob(lib.SPEC + "/mc/*.tla") + glob.glob(lib.SPEC + "/trace/*.tla")):
        r = subprocess.run(["tla-sany", f], cwd=os.path.dirname(f), env=env, capture_output=True, text=True)
        ok = r.returncode == 0 and "Semantic errors" not in r.stdout and "Fatal errors" not in r.stdout
        print(("ok   " if ok else "FAIL ") + os.path.relpath(f, lib.ROOT))
        bad += (not ok)
    return 0 if bad == 0 else 2
