//! Operations for C18: PlainYearMonth / PlainMonthDay construction routes, canonical hidden part,
//! whole-month arithmetic.
//!
//! A *route* is a JSON object describing one way of obtaining a value:
//!   {"k":"str","s":"2020-05-17"}                       from_str
//!   {"k":"date","d":{"y","m","d"}}                     PlainDate::to_plain_year_month / to_plain_month_day
//!   {"k":"partial","p":{partial},"ovf":"constrain"}    PlainYearMonth::from_partial
//!   {"k":"new","y","m","ovf"[,"rd"]}                   PlainYearMonth::new_with_overflow (rd = explicit reference day)
//!   {"k":"new","m","d","ovf"[,"ry"]}                   PlainMonthDay::new_with_overflow (ry = explicit reference year)
//!   {"k":"with","recv":{y,m[,rd]},"p":{partial},"ovf"} PlainYearMonth::with
use crate::js::{self, big, int};
use crate::ops::{utc, FS};
use crate::ops_partial::{arg_ym, partial_date, ym_ref_day};
use crate::proj::*;
use serde_json::{json, Value};
use std::str::FromStr;
use temporal_rs::options::*;
use temporal_rs::*;

fn r_ovf(r: &Value) -> ArithmeticOverflow { arg_ovf(r).unwrap_or(ArithmeticOverflow::Constrain) }

pub fn ym_route(r: &Value) -> TemporalResult<PlainYearMonth> {
    match js::s(r, "k") {
        "str" => PlainYearMonth::from_str(js::s(r, "s")),
        "date" => arg_date(&r["d"])?.to_plain_year_month(),
        "partial" => PlainYearMonth::from_partial(partial_date(&r["p"])?, r_ovf(r)),
        "new" => PlainYearMonth::new_with_overflow(js::i(r, "y") as i32, js::i(r, "m") as u8, r.get("rd").and_then(|x| x.as_i64()).map(|x| x as u8), iso(), r_ovf(r)),
        "with" => arg_ym(&r["recv"])?.with(partial_date(&r["p"])?, arg_ovf(r)),
        "default" => Ok(PlainYearMonth::default()),
        k => panic!("year-month route {}", k),
    }
}
pub fn md_route(r: &Value) -> TemporalResult<PlainMonthDay> {
    match js::s(r, "k") {
        "str" => PlainMonthDay::from_str(js::s(r, "s")),
        "date" => arg_date(&r["d"])?.to_plain_month_day(),
        "new" => PlainMonthDay::new_with_overflow(js::i(r, "m") as u8, js::i(r, "d") as u8, iso(), r_ovf(r), r.get("ry").and_then(|x| x.as_i64()).map(|x| x as i32)),
        "default" => Ok(PlainMonthDay::default()),
        "partial" => iso().month_day_from_partial(&partial_date(&r["p"])?, r_ovf(r)),
        k => panic!("month-day route {}", k),
    }
}

/// visible fields, hidden reference day, both strings, month code
pub fn p_ym_full(ym: &PlainYearMonth) -> Value {
    json!({"y": int(ym.year() as i64), "m": int(ym.month() as i64), "rd": int(ym_ref_day(ym)),
           "s": ym.to_ixdtf_string(DisplayCalendar::Auto), "sa": ym.to_ixdtf_string(DisplayCalendar::Always),
           "mc": ym.month_code().as_str()})
}
pub fn p_md_full(md: &PlainMonthDay) -> Value {
    json!({"m": int(md.iso_month() as i64), "d": int(md.iso_day() as i64), "ry": int(md.iso_year() as i64),
           "s": md.to_ixdtf_string(DisplayCalendar::Auto), "sa": md.to_ixdtf_string(DisplayCalendar::Always),
           "mc": md.month_code().as_str()})
}
fn p_ym3(ym: &PlainYearMonth) -> Value { crate::ops_partial::p_ym(ym) }

pub fn exec(op: &str, a: &Value) -> Option<Value> {
    Some(match op {
        "PlainYearMonth.route" => run(|| ym_route(&a["route"]), p_ym_full),
        "PlainMonthDay.route" => run(|| md_route(&a["route"]), p_md_full),
        // two routes -> compare_iso, PartialEq, and whether the two print identically (both display modes)
        "PlainYearMonth.cmp" => run(|| Ok((ym_route(&a["a"])?, ym_route(&a["b"])?)), |(x, y)| {
            json!({"cmp": x.compare_iso(y) as i8, "eq": x == y,
                   "same_s": x.to_ixdtf_string(DisplayCalendar::Auto) == y.to_ixdtf_string(DisplayCalendar::Auto),
                   "same_sa": x.to_ixdtf_string(DisplayCalendar::Always) == y.to_ixdtf_string(DisplayCalendar::Always)})
        }),
        "PlainMonthDay.cmp" => run(|| Ok((md_route(&a["a"])?, md_route(&a["b"])?)), |(x, y)| {
            json!({"eq": x == y,
                   "same_s": x.to_ixdtf_string(DisplayCalendar::Auto) == y.to_ixdtf_string(DisplayCalendar::Auto),
                   "same_sa": x.to_ixdtf_string(DisplayCalendar::Always) == y.to_ixdtf_string(DisplayCalendar::Always)})
        }),
        "PlainYearMonth.add" => run(|| arg_ym(&a["recv"])?.add(&arg_duration(&a["dur"])?, r_ovf(a)), p_ym3),
        "PlainYearMonth.subtract" => run(|| arg_ym(&a["recv"])?.subtract(&arg_duration(&a["dur"])?, r_ovf(a)), p_ym3),
        "PlainYearMonth.until" => run(|| arg_ym(&a["recv"])?.until(&arg_ym(&a["other"])?, arg_settings(&a["st"])?), p_duration),
        "PlainYearMonth.since" => run(|| arg_ym(&a["recv"])?.since(&arg_ym(&a["other"])?, arg_settings(&a["st"])?), p_duration),
        _ => return None,
    })
}
