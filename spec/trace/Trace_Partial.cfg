SPECIFICATION TSpec
CONSTANTS
  Receivers = {}
  PartialsOf <- NoPartials
  FromTypes = {}
  NewArgs = {}
  IdentityOn = FALSE
  OneStep = FALSE
INVARIANT CursorOK
POSTCONDITION Accepted
CHECK_DEADLOCK FALSE
