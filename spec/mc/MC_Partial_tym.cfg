SPECIFICATION Spec
CONSTANTS
  Receivers <- TYmReceivers
  PartialsOf <- TYmP
  FromTypes <- FromYm
  NewArgs <- NoSet
  IdentityOn = TRUE
  OneStep = TRUE
INVARIANTS UsesOnlySupplied DefaultsAreZero IdentityLaw ClampNearest RejectSound RejectComplete ConstrainComplete RejectRefinesConstrain TypeErrorIff WellFormed
CHECK_DEADLOCK FALSE
