//! Input generation helpers (independent of the code under test).
use crate::js::big;
use crate::rng::Rng;
use serde_json::{json, Value};

pub const MIN_DAY: i64 = -100_000_001;
pub const MAX_DAY: i64 = 100_000_000;

/// Hinnant's civil_from_days; used only to pick inputs.
pub fn civil(n: i64) -> (i64, i64, i64) {
    let z = n + 719_468;
    let era = z.div_euclid(146_097);
    let doe = z.rem_euclid(146_097);
    let yoe = (doe - doe / 1460 + doe / 36_524 - doe / 146_096) / 365;
    let y = yoe + era * 400;
    let doy = doe - (365 * yoe + yoe / 4 - yoe / 100);
    let mp = (5 * doy + 2) / 153;
    let d = doy - (153 * mp + 2) / 5 + 1;
    let m = if mp < 10 { mp + 3 } else { mp - 9 };
    (if m <= 2 { y + 1 } else { y }, m, d)
}
pub fn date_json(n: i64) -> Value { let (y, m, d) = civil(n); json!({"y": y, "m": m, "d": d}) }

/// a day number anywhere in range, biased towards edges, the epoch, year 0 and month ends
pub fn any_day(r: &mut Rng) -> i64 {
    match r.range(0, 9) {
        0 => MIN_DAY + r.range(0, 400),
        1 => MAX_DAY - r.range(0, 400),
        2 => r.range(-800, 800),
        3 => -719_528 + r.range(-800, 800), // around year 0
        4 => { // a month end
            let n = r.range(MIN_DAY + 40, MAX_DAY - 40);
            let (_, _, d) = civil(n);
            let mut k = n - d + 1 + 27;
            while civil(k + 1).2 != 1 { k += 1; }
            k
        }
        5 => r.range(-40_000, 40_000),
        _ => r.range(MIN_DAY, MAX_DAY),
    }
}

pub fn dur10(y: i128, mo: i128, w: i128, d: i128, h: i128, mi: i128, s: i128, ms: i128, us: i128, ns: i128) -> Value {
    json!({"y": big(y), "mo": big(mo), "w": big(w), "d": big(d), "h": big(h), "mi": big(mi), "s": big(s), "ms": big(ms), "us": big(us), "ns": big(ns)})
}
pub fn date_dur(y: i128, mo: i128, w: i128, d: i128) -> Value { dur10(y, mo, w, d, 0, 0, 0, 0, 0, 0) }

pub fn days_from_civil(y: i64, m: i64, d: i64) -> i64 {
    let y2 = if m <= 2 { y - 1 } else { y };
    let era = y2.div_euclid(400);
    let yoe = y2.rem_euclid(400);
    let mp = (m + 9) % 12;
    let doy = (153 * mp + 2) / 5 + d - 1;
    let doe = yoe * 365 + yoe / 4 - yoe / 100 + doy;
    era * 146_097 + doe - 719_468
}
