#!/usr/bin/env python3
"""Development aid for C11/C12: turn the violation groups of a run (out/<prop>/violations/*.json) into
known_findings.d/<prop>.json entries. Every (op, cls, observed kind) group must be explained by one of the root causes
below (matched on op and on the reason part of the class label); an unexplained group is NOT written and stays a VIOLATION.
usage: python3 vc/kf_c1112.py C12 [more violation dirs ...]   (merges with the existing file, never drops entries)"""
import glob, json, os, re, sys
ROOT = os.path.dirname(os.path.dirname(os.path.abspath(__file__)))

def untok(a):
    return "".join(chr(int(t[2:], 16)) if len(t) > 2 and t.startswith("U+") else t for t in a)

OFFSET_OPS = ("Parse.UtcOffset", "Parse.TimeZoneId")
LENIENT = " [reached through TimeZone::try_from_str / Calendar::from_str, whose ISO-string fallbacks use ixdtf's lenient entry points]"
# (regex on reason, predicate on op or None, root cause id, text)
CAUSES = [
    (r"^fraction-over-9-digits$", None, "time-fraction-10-digits", "a time fraction of more than nine digits is accepted: date-only goals discard the time they parsed, Instant drops the digits (ixdtf reports the overflow only through Fraction::to_nanoseconds)"),
    (r"^offset-fraction-over-9-digits$", None, "offset-fraction-10-digits", "a UTC-offset fraction of more than nine digits is accepted (never checked; Instant silently drops it)"),
    (r"^offset-(second|minute|separator-mixing|trailing-junk)$", lambda op: op in OFFSET_OPS or op == "Parse.TimeZone", "offset-identifier-parser", "parse_offset (UtcOffset::from_str, TimeZone identifiers) accepts malformed offsets: trailing ':' (+05:, +05:30:), mixed separators (+05:3012), a truncated or out-of-range seconds part (+05301, +053099), junk after the minutes (+03:04.31); in ISO strings ixdtf accepts offset seconds 60 and +HH:MMSS"),
    (r"^offset-second$", None, "offset-second-60", "offset seconds 60 accepted in date-time strings (ixdtf parses offset seconds with the leap-second range 0..=60)"),
    (r"^offset-separator-mixing$", None, "offset-mixed-separators", "offset with mixed separators (+HH:MMSS) accepted in date-time strings (ixdtf parse_date_time_utc)"),
    (r"^sub-minute-offset-as-time-zone$", None, "sub-minute-offset-identifier", "a sub-minute offset (+053015, or the offset of an ISO string) is accepted as a time-zone identifier and silently truncated to minutes"),
    (r"^(non-ascii|time-zone-name)$", lambda op: op in ("Parse.TimeZoneId", "Parse.TimeZone"), "tz-identifier-non-ascii", "time-zone identifiers accept non-ASCII letters (char::is_alphabetic) / ill-formed ISO strings are accepted by the lenient fallbacks"),
    (r"^(non-ascii/)?annotation-value$", None, "annotation-value-unchecked-ends", "ixdtf does not check the first and last character of an annotation value ([foo=-bar], [foo=bar-], [foo=ba!], [u-ca==x])"),
    (r"^(annotation-key|time-zone-annotation-not-first)$", None, "annotation-key-unchecked-end", "ixdtf does not check the last character of an annotation key ([fo =bar], [u-cM=x], [u-c:=x], even ']' as in [u-]=x])"),
    (r"^accepts:annotation-key-of-one-character$", None, "annotation-key-1-char", "a one-character annotation key ([k=v]) is rejected by ixdtf"),
    (r"^accepts:annotation-value-of-one-character$", None, "annotation-value-1-char", "a one-character annotation value ([foo=b]) is rejected by ixdtf"),
    (r"^accepts:annotation-value-with-one-character-component$", None, "annotation-value-1-char-component", "an annotation value with a one-character component after a hyphen ([foo=ba-r]) is rejected by ixdtf"),
    (r"^accepts:time-zone-name-of-annotation-key-characters$", None, "tz-name-of-key-characters", "a bracketed time-zone name made only of annotation-key characters ([utc], [a], [z21]) is rejected by ixdtf's time-zone / key-value disambiguation"),
    (r"^tz-annotation-name$", None, "tz-annotation-name-lenient", "ixdtf accepts a bracketed zone name with a trailing '/' or a component starting with a digit, '+' or '-' ([UTC/], [Etc/+5]); ZonedDateTime then reports the provider's Generic error instead of RangeError"),
    (r"^(trailing-junk|non-ascii)$", None, "junk-after-annotations", "junk after a complete annotation set is accepted: ixdtf's year-month / month-day parsers do not require end of input after the annotations (PlainTime, Calendar and TimeZone reach them through their fallbacks), and an annotation value swallows an extra ']' ([foo=b]])"),
    (r"^calendar-annotations-critical-conflict$", lambda op: op in ("Parse.Calendar", "Parse.TimeZone"), "lenient-iso-fallback", "conflicting critical calendar annotations accepted" + LENIENT),
    (r"^(unknown-calendar|no-time-zone-in-string|time-zone-name)$", lambda op: op in ("Parse.Calendar", "Parse.TimeZone"), "lenient-iso-fallback", "a string that is no ISO string of any type (day 32, YYYY-MM read as time + offset) is accepted" + LENIENT),
    (r"^time-ambiguous-with-(year-month|month-day)$", None, "time-ambiguity", "PlainTime::from_str accepts strings that are also a valid YYYY-MM / MM-DD without the T prefix (2020-01 -> 20:20, 01-01 -> 01:00, 1231)"),
    (r"^accepts:full-date-form$", lambda op: op == "Parse.PlainMonthDay", "monthday-full-date", "PlainMonthDay::from_str rejects full date strings (only the MM-DD production is tried), so the text printed with calendarName always/critical or for a non-ISO calendar cannot be read back"),
    (r"^accepts:full-date-form-non-iso-calendar$", None, "yearmonth-monthday-non-iso", "PlainYearMonth / PlainMonthDay from_str reject a full date string with a non-ISO calendar annotation (the ISO-only rule belongs to the YYYY-MM / MM-DD forms), so a non-ISO year-month or month-day cannot be read back"),
    (r"^accepts:offset-with-non-zero-minutes$", None, "zdt-offset-seconds-from-minutes", "ZonedDateTime::from_str_with_provider builds the seconds of the string's offset from the minutes field: every offset with non-zero minutes (+05:30[+05:30]) fails under offset: reject"),
    (r"^(accepts:utc-designator-with-time-zone-annotation|instant-outside-limits)$", lambda op: op == "Parse.ZonedDateTime", "zdt-z-ignored", "ZonedDateTime::from_str_with_provider ignores the Z designator and reads the date-time as wall time in the annotated zone (silently different instant)"),
    (r"^accepts:year-at-limit$", lambda op: op == "Parse.ZonedDateTime", "zdt-last-day", "ZonedDateTime::from_str_with_provider range-checks the UTC reading of the wall time, rejecting valid wall times on the last day of the range"),
    (r"^named-time-zone$", None, "named-zone-error-kind", "a named zone the provider does not know gives a Generic error (not RangeError); some known zones panic inside the provider (C15: Tzif::get index underflow)"),
    (r"^duration-empty$", None, "duration-bare-P", "a duration string without any component (P, -P) is accepted as zero"),
    (r"^duration-fraction-over-9-digits$", None, "duration-fraction-10-digits", "a duration fraction of more than nine digits is accepted and silently dropped (PT0.0000000001S -> PT0S)"),
    (r"^duration-unit-repeated$", None, "duration-unit-repeated", "a repeated duration unit (P1Y1Y, PT7S7S) is accepted by ixdtf, the last value wins"),
    (r"^accepts:field-of-4294967295$", None, "duration-2p32-minus-1", "a years/months/weeks field of 2^32-1 is rejected (is_valid_duration compares with u32::MAX; C09)"),
    (r"^millisecond-name$", None, "unit-millisecond-name", "Unit::Millisecond displays as \"millsecond\"; FromStr does not accept that spelling"),
    (r"^subseconds-without-seconds-under-larger-unit/", None, "duration-subseconds-dropped", "Duration to_string drops the sub-second part when the whole seconds are zero and a larger unit is present (PT1H0.5S prints as PT1H), so the value does not survive a print/parse round trip"),
    (r"^before-epoch,truncating/", None, "instant-trunc-toward-zero", "Instant to_ixdtf_string truncates instants before the epoch toward zero (i.e. up) instead of toward the past: -1 ns at second precision prints 1970-01-01T00:00:00Z"),
    (r"^9999$", lambda op: op == "Fmt.YearPad", "pad-iso-year-9999", "pad_iso_year uses 0..9999: year 9999 prints as +009999 (padded_iso_year_string)"),
]

def explain(op, cls, obs):
    if op == "Parse.ZonedDateTime" and obs in ("generic", "panic"):
        return "named-zone-error-kind", ("a named zone the provider does not know gives a Generic error (not RangeError), also when the string is invalid for another reason that ixdtf does not notice; "
                                         "some known zones panic inside the provider (C15: Tzif::get index underflow)")
    reason = cls.split("/", 1)[1] if "/" in cls else cls
    if reason.startswith("display:"):
        reason = reason
    if cls.startswith("display:"):
        reason = cls[len("display:"):].split("/", 1)[1]
    for rx, pred, rc, text in CAUSES:
        if re.search(rx, reason) and (pred is None or pred(op)):
            return rc, text
    if op in ("Parse.Calendar", "Parse.TimeZone") and obs == "ok":
        return "lenient-iso-fallback", "a string that is no valid ISO string of any type is accepted" + LENIENT
    return None

def main():
    prop = sys.argv[1]
    dirs = sys.argv[2:] or [os.path.join(ROOT, "out", prop, "violations")]
    path = os.path.join(ROOT, "known_findings.d", prop + ".json")
    cur = json.load(open(path)) if os.path.exists(path) else {"findings": [], "fixed": []}
    have = {(e["key"]["op"], e["key"]["cls"], e["key"].get("observed")) for e in cur["findings"]}
    unexplained = 0
    for d in dirs:
        for f in sorted(glob.glob(os.path.join(d, "*.json"))):
            v = json.load(open(f))
            fr = v["first"]
            op, cls = v["op"], v["cls"]
            obs = (fr.get("observed") or {}).get("kind") if isinstance(fr.get("observed"), dict) else None
            if (op, cls, obs) in have:
                continue
            ex = explain(op, cls, obs)
            if ex is None:
                print("UNEXPLAINED", op, cls, obs, f)
                unexplained += 1
                continue
            rc, text = ex
            a = fr.get("args") or fr.get("event", {}).get("args") or {}
            inp = untok(a["chars"]) if "chars" in a else json.dumps(a, sort_keys=True)
            if len(inp) > 160:
                inp = inp[:157] + "..."
            slug = re.sub(r"[^A-Za-z0-9]+", "-", op.split(".", 1)[1] + "-" + cls).strip("-")
            cur["findings"].append({"id": f"{prop}-{slug}-{obs}", "property": prop, "root_cause": rc,
                                    "key": {"op": op, "cls": cls, "observed": obs},
                                    "what": f"{text}. Failing input ({op}): {inp!r}; specification expects {json.dumps(fr.get('expected'))[:120]}, implementation returned {json.dumps(fr.get('observed'))[:120]}"})
            have.add((op, cls, obs))
    cur["findings"].sort(key=lambda e: (e["root_cause"], e["id"]))
    os.makedirs(os.path.dirname(path), exist_ok=True)
    json.dump(cur, open(path, "w"), indent=1, ensure_ascii=True)
    print(f"{path}: {len(cur['findings'])} entries, {unexplained} unexplained groups")

if __name__ == "__main__":
    main()
