----------------------------- MODULE Trace_Time -----------------------------
(* impl -> spec for PlainTime and Instant sessions (C06, C07): every logged call must be the step the specification allows. *)
EXTENDS Instant, TraceBase

VARIABLES l, curT, curI
tvars == <<l, curT, curI>>
NilT == [h |-> -1]
NilI == [s |-> 9]

E == Rec[l]
St(e) == Get(e.args, "st", [x |-> 0])
Smallest(e) == Get(St(e), "smallest", "nanosecond")
DefLargest(e) == IF e.op \in {"PlainTime.until", "PlainTime.since"} THEN "hour" ELSE "second"
Largest(e) == LET u == Get(St(e), "largest", "auto") IN IF u = "auto" THEN UnitMax(DefLargest(e), Smallest(e)) ELSE u
Inc(e) == Get(St(e), "inc", 1)
DiffMode(e) == Get(St(e), "mode", "trunc")
RoundMode(e) == Get(St(e), "mode", "halfExpand")

Expected(e) ==
  CASE e.op = "PlainTime.add" -> PlainTimeAdd(e.args.recv, e.args.dur)
    [] e.op = "PlainTime.subtract" -> PlainTimeSub(e.args.recv, e.args.dur)
    [] e.op = "PlainTime.until" -> PlainTimeDiff(e.args.recv, e.args.other, Largest(e), Smallest(e), Inc(e), DiffMode(e), FALSE)
    [] e.op = "PlainTime.since" -> PlainTimeDiff(e.args.recv, e.args.other, Largest(e), Smallest(e), Inc(e), DiffMode(e), TRUE)
    [] e.op = "PlainTime.round" -> PlainTimeRound(e.args.recv, Smallest(e), Inc(e), RoundMode(e))
    [] e.op = "Instant.new" -> InstantNew(e.args.ns)
    [] e.op = "Instant.add" -> InstantAdd(e.args.recv, e.args.dur)
    [] e.op = "Instant.subtract" -> InstantSub(e.args.recv, e.args.dur)
    [] e.op = "Instant.until" -> InstantDiff(e.args.recv, e.args.other, Largest(e), Smallest(e), Inc(e), DiffMode(e), FALSE)
    [] e.op = "Instant.since" -> InstantDiff(e.args.recv, e.args.other, Largest(e), Smallest(e), Inc(e), DiffMode(e), TRUE)
    [] e.op = "Instant.round" -> InstantRound(e.args.recv, Smallest(e), Inc(e), RoundMode(e))
    [] e.op = "Instant.epochMs" -> Ok(EpochMs(e.args.recv))
    [] e.op = "Instant.fromEpochMs" -> FromEpochMs(e.args.ms)
    [] e.op = "Round.i128" -> Ok(RoundBig(e.args.x, e.args.inc, e.args.mode))

IsT(e) == e.op \in {"PlainTime.add", "PlainTime.subtract", "PlainTime.until", "PlainTime.since", "PlainTime.round"}
IsI(e) == e.op \in {"Instant.add", "Instant.subtract", "Instant.until", "Instant.since", "Instant.round", "Instant.epochMs"}
MovesT(e) == e.op \in {"PlainTime.add", "PlainTime.subtract", "PlainTime.round"}
MovesI(e) == e.op \in {"Instant.add", "Instant.subtract", "Instant.round"}
Chained(e) == /\ (IsT(e) => (curT = NilT \/ e.args.recv = curT))
              /\ (IsI(e) => (curI = NilI \/ e.args.recv = curI))

DiffX(e) == IF IsT(e) THEN Sub(TimeNsOf(e.args.other), TimeNsOf(e.args.recv)) ELSE Sub(e.args.other, e.args.recv)
ClsOf(e) ==
  CASE e.op \in {"PlainTime.round"} -> Smallest(e) \o "/" \o RoundCls(RoundQuantity(e.args.recv, Smallest(e)), IncNs(Inc(e), Smallest(e))) \o "/" \o RoundMode(e)
    [] e.op \in {"Instant.round"} -> Smallest(e) \o "/" \o RoundCls(e.args.recv, IncNs(Inc(e), Smallest(e))) \o "/" \o RoundMode(e)
    [] e.op \in {"PlainTime.until", "PlainTime.since", "Instant.until", "Instant.since"} ->
         Smallest(e) \o "/" \o RoundCls(DiffX(e), IncNs(Inc(e), Smallest(e))) \o "/" \o DiffMode(e) \o "/lg-" \o Largest(e)
    [] e.op \in {"PlainTime.add", "PlainTime.subtract", "Instant.add", "Instant.subtract"} ->
         (IF HasDateUnits(e.args.dur) THEN "date-units" ELSE "time-only")
           \o (IF Lt(MulSmall(Pow10(18), 9), Abs(TimeNs(e.args.dur))) THEN "/above-2^63" ELSE "/below-2^63")
    [] e.op = "Round.i128" -> RoundCls(e.args.x, e.args.inc) \o "/" \o e.args.mode
    [] e.op = "Instant.epochMs" -> IF e.args.recv.s < 0 THEN "neg" ELSE "nonneg"
    [] OTHER -> "-"

TInit == l = 1 /\ curT = NilT /\ curI = NilI
Reset == E.op = "reset" /\ curT' = NilT /\ curI' = NilI
OkVal(e) == e.out.kind = "ok"
Match == /\ E.op # "reset" /\ Chained(E) /\ Expected(E) = E.out
         /\ curT' = IF MovesT(E) /\ OkVal(E) THEN E.out.val ELSE curT
         /\ curI' = IF MovesI(E) /\ OkVal(E) THEN E.out.val ELSE curI
Mismatch == /\ E.op # "reset" /\ ~(Chained(E) /\ Expected(E) = E.out)
            /\ Report(l, E.op, ClsOf(E), IF Chained(E) THEN Expected(E) ELSE "session-chain-broken", E.out)
            /\ curT' = IF MovesT(E) /\ OkVal(E) /\ "h" \in DOMAIN E.out.val /\ ValidTime(E.out.val) THEN E.out.val ELSE IF IsT(E) THEN NilT ELSE curT
            /\ curI' = IF MovesI(E) /\ OkVal(E) /\ "l" \in DOMAIN E.out.val /\ InInstantRange(E.out.val) THEN E.out.val ELSE IF IsI(E) THEN NilI ELSE curI
TNext == l <= NEv /\ l' = l + 1 /\ (Reset \/ Match \/ Mismatch)
TSpec == TInit /\ [][TNext]_tvars

\* invariants evaluated at every step: the cursors are always well-formed and in range (C02 for these types)
CursorOK == (curT = NilT \/ ValidTime(curT)) /\ (curI = NilI \/ (IsBig(curI) /\ InInstantRange(curI)))
=============================================================================
