------------------------------ MODULE Rounding ------------------------------
(***************************************************************************)
(* RoundNumberToIncrement: a declarative definition (adjacent multiples,    *)
(* direction / nearest / tie rules), Temporal's GetUnsignedRoundingMode +   *)
(* ApplyUnsignedRoundingMode transcription, the class abstraction used to   *)
(* instantiate cases at every unit, and the BigInt version used wherever    *)
(* values exceed 32 bits. The state machine is RoundingMachine.             *)
(***************************************************************************)
EXTENDS Integers, Sequences, BigInt, TemporalBase

Lo(x, n) == (x \div n) * n                       \* TLA+ \div is floor
Hi(x, n) == IF x % n = 0 THEN x ELSE Lo(x, n) + n

\* declarative: which of the two adjacent multiples
RoundD(x, n, mode) ==
  IF x % n = 0 THEN x
  ELSE LET lo == Lo(x, n)   hi == lo + n
           dlo == x - lo    dhi == hi - x
           awayFromZero == IF x < 0 THEN lo ELSE hi
           towardZero == IF x < 0 THEN hi ELSE lo
           evenOne == IF (lo \div n) % 2 = 0 THEN lo ELSE hi
           tie(t) == IF dlo < dhi THEN lo ELSE IF dhi < dlo THEN hi ELSE t
       IN CASE mode = "ceil" -> hi
            [] mode = "floor" -> lo
            [] mode = "expand" -> awayFromZero
            [] mode = "trunc" -> towardZero
            [] mode = "halfCeil" -> tie(hi)
            [] mode = "halfFloor" -> tie(lo)
            [] mode = "halfExpand" -> tie(awayFromZero)
            [] mode = "halfTrunc" -> tie(towardZero)
            [] mode = "halfEven" -> tie(evenOne)

\* Temporal: GetUnsignedRoundingMode / ApplyUnsignedRoundingMode on |x|
Unsigned(mode, neg) ==
  CASE mode = "ceil" -> IF neg THEN "zero" ELSE "infinity"
    [] mode = "floor" -> IF neg THEN "infinity" ELSE "zero"
    [] mode = "expand" -> "infinity"
    [] mode = "trunc" -> "zero"
    [] mode = "halfCeil" -> IF neg THEN "half-zero" ELSE "half-infinity"
    [] mode = "halfFloor" -> IF neg THEN "half-infinity" ELSE "half-zero"
    [] mode = "halfExpand" -> "half-infinity"
    [] mode = "halfTrunc" -> "half-zero"
    [] mode = "halfEven" -> "half-even"
ApplyUnsigned(ax, n, um) ==      \* ax >= 0 ; returns the chosen quotient index
  LET r1 == ax \div n   r2 == r1 + 1   rem == ax % n
  IN IF rem = 0 THEN r1
     ELSE IF um = "zero" THEN r1 ELSE IF um = "infinity" THEN r2
     ELSE IF 2 * rem < n THEN r1 ELSE IF 2 * rem > n THEN r2
     ELSE IF um = "half-zero" THEN r1 ELSE IF um = "half-infinity" THEN r2
     ELSE IF r1 % 2 = 0 THEN r1 ELSE r2
RoundT(x, n, mode) == LET neg == x < 0
                      IN (IF neg THEN -1 ELSE 1) * ApplyUnsigned(AbsI(x), n, Unsigned(mode, neg)) * n

\* abstraction: with q = floor(x/n), r = x mod n # 0, the result is n*(q + 1) iff Up(...)
\* c = sign(2r - n)
Up(neg, qEven, c, mode) ==
  CASE mode = "ceil" -> TRUE
    [] mode = "floor" -> FALSE
    [] mode = "expand" -> ~neg
    [] mode = "trunc" -> neg
    [] OTHER -> IF c > 0 THEN TRUE ELSE IF c < 0 THEN FALSE
                ELSE CASE mode = "halfCeil" -> TRUE
                       [] mode = "halfFloor" -> FALSE
                       [] mode = "halfExpand" -> ~neg
                       [] mode = "halfTrunc" -> neg
                       [] mode = "halfEven" -> ~qEven
RoundA(x, n, mode) == LET q == x \div n   r == x % n
                      IN IF r = 0 THEN x ELSE n * (q + (IF Up(x < 0, q % 2 = 0, SgnI(2 * r - n), mode) THEN 1 ELSE 0))

\* BigInt version (x any big, n a positive big)
RoundBig(x, n, mode) ==
  LET dm == FloorDivMod(x, n)
  IN IF IsZero(dm.r) THEN x
     ELSE LET up == Up(x.s < 0, Parity(dm.q) = 0, Cmp(MulSmall(dm.r, 2), n), mode)
          IN Mul(n, IF up THEN Add(dm.q, FromInt(1)) ELSE dm.q)

\* Duration fields are IEEE doubles: an exact integer field value v is stored as the double nearest to v
\* (ties to even mantissa) - identical to v whenever |v| <= 2^53.
RECURSIVE Pow2(_)
Pow2(k) == IF k = 0 THEN FromInt(1) ELSE MulSmall(Pow2(k - 1), 2)
TwoTo53 == [s |-> 1, l |-> <<992, 5474, 1992, 9007>>]
RECURSIVE UlpExp(_, _)
UlpExp(a, k) == IF Lt(a, MulSmall(Mul(TwoTo53, Pow2(k)), 1)) THEN k ELSE UlpExp(a, k + 1)   \* least k with |v| < 2^(53+k)
F64Nearest(v) == IF Le(Abs(v), TwoTo53) THEN v
                 ELSE RoundBig(v, Pow2(UlpExp(Abs(v), 1)), "halfEven")
DurF64(D) == Dur10(F64Nearest(D.y), F64Nearest(D.mo), F64Nearest(D.w), F64Nearest(D.d), F64Nearest(D.h), F64Nearest(D.mi),
                   F64Nearest(D.s), F64Nearest(D.ms), F64Nearest(D.us), F64Nearest(D.ns))

\* RoundNumberToIncrementAsIfPositive (used for instants): the mode is applied as for a positive number whatever the sign,
\* i.e. trunc = floor and expand = ceil on the epoch line; halfEven looks at the parity of the floor quotient.
RoundBigAsIfPositive(x, n, mode) ==
  LET dm == FloorDivMod(x, n)
  IN IF IsZero(dm.r) THEN x
     ELSE LET up == Up(FALSE, Parity(dm.q) = 0, Cmp(MulSmall(dm.r, 2), n), mode)
          IN Mul(n, IF up THEN Add(dm.q, FromInt(1)) ELSE dm.q)

\* class label of a rounding situation (used for known-finding keys and for instantiating cases)
RoundCls(x, n) ==
  LET dm == FloorDivMod(x, n)   c == Cmp(MulSmall(dm.r, 2), n)
  IN (IF x.s < 0 THEN "neg" ELSE "pos") \o (IF Parity(dm.q) = 0 THEN "/qeven" ELSE "/qodd")
     \o (IF IsZero(dm.r) THEN "/exact" ELSE IF c < 0 THEN "/below-half" ELSE IF c = 0 THEN "/tie" ELSE "/above-half")
     \o (IF Parity(n) = 1 THEN "/odd-inc" ELSE "/even-inc")
=============================================================================
