//! C06 sessions: wall-clock times as integers mod 24 h and instants on the epoch line.
use super::Tracer;
use crate::gen::*;
use crate::js::big;
use crate::rng::Rng;
use serde_json::{json, Value};

/// a valid time duration (total < 2^53 s) with fields from zero to far above 2^63 ns, one sign
fn time_dur(r: &mut Rng, with_date: bool) -> Value {
    let sg: i128 = if r.chance(1, 2) { 1 } else { -1 };
    let lim_s: i128 = 1 << 50; // each field at most 2^50 s worth, so that six fields stay below 2^53 s
    let f = |r: &mut Rng, per_s_num: i128, per_s_den: i128| -> i128 {
        match r.range(0, 9) { 0..=3 => 0, 4 | 5 => r.range(0, 100) as i128, 6 | 7 => r.range(0, 2_000_000_000) as i128, _ => exact_f64_int(r, lim_s * per_s_num / per_s_den) }
    };
    let h = f(r, 1, 3600); let mi = f(r, 1, 60); let s = f(r, 1, 1); let ms = f(r, 1000, 1); let us = f(r, 1_000_000, 1); let ns = f(r, 1_000_000_000, 1);
    let (y, mo, w, d) = if with_date && r.chance(1, 5) { (r.range(0, 1) as i128, r.range(0, 1) as i128, r.range(0, 1) as i128, r.range(0, 3) as i128) } else { (0, 0, 0, 0) };
    dur10(sg * y, sg * mo, sg * w, sg * d, sg * h, sg * mi, sg * s, sg * ms, sg * us, sg * ns)
}

fn rand_time(r: &mut Rng) -> i128 {
    match r.range(0, 5) { 0 => 0, 1 => DAY_NS - 1, 2 => r.range(0, 1000) as i128, 3 => DAY_NS - 1 - r.range(0, 1000) as i128, _ => r.range128(0, DAY_NS - 1) }
}
fn rand_inst(r: &mut Rng) -> i128 {
    match r.range(0, 7) { 0 => MAX_INSTANT - r.range(0, 1_000_000) as i128, 1 => -MAX_INSTANT + r.range(0, 1_000_000) as i128, 2 => r.range(-2_000_000, 2_000_000) as i128,
        3 => -r.range128(0, MAX_INSTANT), _ => r.range128(-MAX_INSTANT, MAX_INSTANT) }
}
fn val_time(v: &Value) -> Option<i128> {
    let g = |k: &str| v[k].as_i64();
    Some((((g("h")? * 60 + g("mi")?) * 60 + g("s")?) as i128) * 1_000_000_000 + ((g("ms")? * 1000 + g("us")?) * 1000 + g("ns")?) as i128)
}

pub fn drive(t: &mut Tracer, r: &mut Rng, n: usize) {
    while t.n < n {
        if r.chance(1, 2) {
            let mut cur = rand_time(r);
            for _ in 0..r.range(3, 12) {
                if r.chance(3, 5) {
                    let op = if r.chance(1, 2) { "PlainTime.add" } else { "PlainTime.subtract" };
                    // (durations with date units are not generated for PlainTime: the property is silent on them)
                    let out = t.call(op, json!({"recv": time_json(cur), "dur": time_dur(r, false)}));
                    match (out["kind"].as_str(), val_time(&out["val"])) { (Some("ok"), Some(v)) if (0..DAY_NS).contains(&v) => cur = v, _ => break }
                } else {
                    let other = if r.chance(1, 3) { (cur + r.range(-5, 5) as i128).rem_euclid(DAY_NS) } else { rand_time(r) };
                    let op = if r.chance(1, 2) { "PlainTime.until" } else { "PlainTime.since" };
                    let st = if r.chance(1, 4) { json!({}) } else { json!({"largest": *r.pick(&TIME_UNITS)}) };
                    t.call(op, json!({"recv": time_json(cur), "other": time_json(other), "st": st}));
                }
            }
        } else {
            let mut cur = rand_inst(r);
            for _ in 0..r.range(3, 12) {
                match r.range(0, 9) {
                    0..=4 => {
                        let op = if r.chance(1, 2) { "Instant.add" } else { "Instant.subtract" };
                        let out = t.call(op, json!({"recv": big(cur), "dur": time_dur(r, true)}));
                        if out["kind"] == "ok" { let v = crate::js::unbig(&out["val"]); if v.abs() <= MAX_INSTANT { cur = v } else { break } }
                    }
                    5 | 6 => {
                        let other = if r.chance(1, 3) { (cur + r.range(-3_000_000, 3_000_000) as i128).clamp(-MAX_INSTANT, MAX_INSTANT) } else { rand_inst(r) };
                        let op = if r.chance(1, 2) { "Instant.until" } else { "Instant.since" };
                        let st = if r.chance(1, 4) { json!({}) } else { json!({"largest": *r.pick(&TIME_UNITS)}) };
                        t.call(op, json!({"recv": big(cur), "other": big(other), "st": st}));
                    }
                    7 => { t.call("Instant.epochMs", json!({"recv": big(cur)})); }
                    8 => { let ms = match r.range(0, 3) { 0 => 8_640_000_000_000_000i128 + r.range(-2, 2) as i128, 1 => -8_640_000_000_000_000i128 + r.range(-2, 2) as i128, _ => r.range128(-9_000_000_000_000_000, 9_000_000_000_000_000) };
                           t.call("Instant.fromEpochMs", json!({"ms": big(ms)})); }
                    _ => { let v = match r.range(0, 2) { 0 => MAX_INSTANT + r.range(-2, 2) as i128, 1 => -MAX_INSTANT + r.range(-2, 2) as i128, _ => r.range128(-2 * MAX_INSTANT, 2 * MAX_INSTANT) };
                           t.call("Instant.new", json!({"ns": big(v)})); }
                }
            }
        }
        t.reset();
    }
}
