----------------------------- MODULE Primitives -----------------------------
(***************************************************************************)
(* The numeric primitives of the public API (src/primitive.rs,              *)
(* src/epoch_nanoseconds.rs): conversions into EpochNanoseconds from the    *)
(* three number types it accepts, and FiniteF64's integer views.            *)
(* A double is modelled by the exact integer v plus an optional half        *)
(* (frac): the doubles that matter here are integers or integers + 1/2.     *)
(***************************************************************************)
EXTENDS Instant

\* EpochNanoseconds::try_from: i128 / u128 / f64 (a fraction is dropped, NaN and the infinities are out of range)
EpochNsFrom(src, v, frac, special) ==
  IF special # "" THEN ErrRange
  ELSE IF Le(Abs(v), MaxInstantBig) THEN Ok(v) ELSE ErrRange

\* integer types FiniteF64 is read as
M16(x) == MulSmall(x, 65536)
P2to31 == MulSmall(M16(FromInt(1)), 32768)
P2to32 == M16(M16(FromInt(1)))
P2to63 == MulSmall(M16(M16(M16(FromInt(1)))), 32768)
TyMin(ty) == CASE ty = "u8" -> Zero [] ty = "u32" -> Zero [] ty = "i32" -> Neg(P2to31) [] ty = "i64" -> Neg(P2to63)
TyMax(ty) == CASE ty = "u8" -> FromInt(255) [] ty = "u32" -> Sub(P2to32, FromInt(1)) [] ty = "i32" -> Sub(P2to31, FromInt(1)) [] ty = "i64" -> Sub(P2to63, FromInt(1))
ClampBig(v, lo, hi) == IF Lt(v, lo) THEN lo ELSE IF Lt(hi, v) THEN hi ELSE v
\* as_integer_with_truncation: toward zero, then clamped to the type
Truncated(ty, v) == Ok(ClampBig(v, TyMin(ty), TyMax(ty)))
\* as_integer_if_integral: a fraction is a RangeError; an integer beyond the type saturates (Rust's float-to-int conversion)
Integral(ty, v, frac) == IF frac THEN ErrRange ELSE Truncated(ty, v)
\* as_positive_integer_with_truncation
Positive(ty, v) == LET t == ClampBig(v, TyMin(ty), TyMax(ty)) IN IF Le(t, Zero) THEN ErrRange ELSE Ok(t)
=============================================================================
