//! Operations for C19 (see ops.rs): wrapper-vs-core pairs.
//!
//! `Wrap.<row>` executes the wrapper function named by the row (`ZonedDateTime.year` = the compiled-data
//! convenience method, `capi.PlainDate.year` = the `temporal_capi` FFI function called from Rust) and the
//! core function named by `args.twin` (`ZonedDateTime.year_with_provider`, `PlainDate.year`, ...) on the same
//! arguments, and returns both outcomes: `{"wrapper": outcome, "core": outcome}`.
//!
//! The three dispatch tables (ops_wrap/compiled.rs, ops_wrap/twins.rs, ops_wrap/capi.rs) are each keyed by the
//! name of the one function the entry calls; *which* wrapper belongs to *which* twin is not decided here but by
//! the method table of spec/Wrappers.tla (generated cases carry `twin`; the trace spec checks the driver's pairing).
use crate::js::{self, big, big_f64, int};
use crate::proj::*;
use serde_json::{json, Value};
use std::str::FromStr;
use temporal_rs::options::*;
use temporal_rs::partial::*;
use temporal_rs::primitive::FiniteF64;
use temporal_rs::provider::TransitionDirection;
use temporal_rs::*;

mod capi;
mod compiled;
mod enums;
mod twins;

pub fn exec(op: &str, a: &Value) -> Option<Value> {
    let row = op.strip_prefix("Wrap.")?;
    let twin = a.get("twin").and_then(|t| t.as_str()).unwrap_or("");
    // the core twin runs first (fresh provider, no shared state)
    let c = twins::call(twin, a).unwrap_or_else(|| json!({"kind": "unknown-twin", "name": twin}));
    let w = match row.strip_prefix("capi.") {
        Some(r) => capi::call(r, a),
        // A compiled-data wrapper runs while holding the process-wide TZ_PROVIDER mutex: a panic in there poisons it and
        // every later compiled call of this process fails. Where the core twin has just panicked on the same arguments the
        // wrapper is therefore not run (outcome presumed equal; panics are C03's subject), and nothing is run on a poisoned lock.
        None if c["kind"] == "panic" => Some(json!({"kind": "panic", "presumed": true})),
        None if temporal_rs::verif::provider_lock_poisoned() => Some(json!({"kind": "lock-poisoned"})),
        None => compiled::call(row, a),
    };
    Some(json!({"wrapper": w.unwrap_or_else(|| json!({"kind": "unknown-wrapper", "name": row})), "core": c}))
}

/// names known to the three tables (for the pipeline's table cross-check)
pub fn known(table: &str, name: &str) -> bool {
    let probe = json!({});
    let r = std::panic::catch_unwind(|| match table {
        "compiled" => compiled::call(name, &probe).is_some(),
        "capi" => capi::call(name, &probe).is_some(),
        _ => twins::call(name, &probe).is_some(),
    });
    r.unwrap_or(true)
}

// ---------------------------------------------------------------- arguments (core types)
pub const NS_DAY: i128 = 86_400_000_000_000;

/// (epoch day, second of day, sub-second ns) -> epoch nanoseconds
pub fn ens(v: &Value) -> i128 {
    (js::i(v, "day") as i128 * 86_400 + js::i(v, "sec") as i128) * 1_000_000_000 + js::i(v, "ns") as i128
}
pub fn j_eparts(n: i128) -> Value {
    let day = n.div_euclid(NS_DAY);
    let rem = n.rem_euclid(NS_DAY);
    json!({"day": int(day as i64), "sec": int((rem / 1_000_000_000) as i64), "ns": int((rem % 1_000_000_000) as i64)})
}
pub fn a_cal(v: &Value) -> TemporalResult<Calendar> {
    match v.get("cal").and_then(|c| c.as_str()) { Some(c) => Calendar::from_str(c), None => Ok(Calendar::default()) }
}
pub fn a_tz(s: &str) -> TemporalResult<TimeZone> { TimeZone::try_from_str(s) }
pub fn a_zdt(v: &Value) -> TemporalResult<ZonedDateTime> { ZonedDateTime::try_new(ens(v), a_cal(v)?, a_tz(js::s(v, "tz"))?) }
pub fn a_inst(v: &Value) -> TemporalResult<Instant> { Instant::try_new(ens(v)) }
pub fn a_date(v: &Value) -> TemporalResult<PlainDate> {
    PlainDate::try_new(js::i(v, "y") as i32, js::i(v, "m") as u8, js::i(v, "d") as u8, a_cal(v)?)
}
pub fn a_time(v: &Value) -> TemporalResult<PlainTime> { arg_time(v) }
pub fn a_dt(v: &Value) -> TemporalResult<PlainDateTime> {
    PlainDateTime::try_new(js::i(v, "y") as i32, js::i(v, "m") as u8, js::i(v, "d") as u8,
        js::i(v, "h") as u8, js::i(v, "mi") as u8, js::i(v, "s") as u8,
        js::i(v, "ms") as u16, js::i(v, "us") as u16, js::i(v, "ns") as u16, a_cal(v)?)
}
/// a record whose days and time part have opposite signs (and no calendar units) stands for the value of the unchecked public
/// constructor from_day_and_time - the only way to such a duration, in the core as in the FFI
pub fn dur_is_mixed(v: &Value) -> bool {
    let sg = |k: &str| v.get(k).map(|x| crate::ops_wrap::f64_exact(x)).unwrap_or(0.0);
    let t = ["h", "mi", "s", "ms", "us", "ns"].iter().map(|k| sg(k)).find(|x| *x != 0.0).unwrap_or(0.0);
    sg("y") == 0.0 && sg("mo") == 0.0 && sg("w") == 0.0 && sg("d") * t < 0.0
}
pub fn a_dur(v: &Value) -> TemporalResult<Duration> {
    if dur_is_mixed(v) {
        let f = |k: &str| v.get(k).map(ff).unwrap_or(temporal_rs::primitive::FiniteF64::from(0i8));
        return Ok(Duration::from_day_and_time(f("d"), &TimeDuration::new(f("h"), f("mi"), f("s"), f("ms"), f("us"), f("ns"))?));
    }
    arg_duration(v)
}
pub fn a_ym(v: &Value) -> TemporalResult<PlainYearMonth> {
    PlainYearMonth::new_with_overflow(js::i(v, "y") as i32, js::i(v, "m") as u8, None, a_cal(v)?, ArithmeticOverflow::Reject)
}
pub fn a_md(v: &Value) -> TemporalResult<PlainMonthDay> {
    PlainMonthDay::new_with_overflow(js::i(v, "m") as u8, js::i(v, "d") as u8, a_cal(v)?, ArithmeticOverflow::Reject, v.get("y").and_then(|y| y.as_i64()).map(|y| y as i32))
}
pub fn a_isodate(v: &Value) -> iso::IsoDate {
    let mut d = iso::IsoDate::default();
    d.year = js::i(v, "y") as i32; d.month = js::i(v, "m") as u8; d.day = js::i(v, "d") as u8;
    d
}
/// f64 argument: an exact integer (int or big); non-finite values travel out of band (see `special`)
pub fn a_f64(v: &Value) -> f64 { f64_exact(v) }
pub fn special(s: &str) -> f64 { match s { "NaN" => f64::NAN, "inf" => f64::INFINITY, "-inf" => f64::NEG_INFINITY, _ => panic!("special {}", s) } }
/// `a[key]` = array of n exact integers; `a.special` = {"at": 1-based index, "val": "NaN"|"inf"|"-inf"} overrides one of them
pub fn f_array(a: &Value, key: &str, n: usize) -> Vec<f64> {
    let x = a[key].as_array().expect("number array");
    assert!(x.len() == n, "array length");
    let mut out: Vec<f64> = x.iter().map(f64_exact).collect();
    if let Some(sp) = a.get("special") { out[js::i(sp, "at") as usize - 1] = special(js::s(sp, "val")); }
    out
}
/// scalar with optional override `a.special.val`
pub fn f_scalar(a: &Value, key: &str) -> f64 { match a.get("special") { Some(sp) => special(js::s(sp, "val")), None => f64_exact(&a[key]) } }
pub fn a_ff(v: &Value) -> TemporalResult<FiniteF64> { FiniteF64::try_from(a_f64(v)) }

pub fn unit_name(s: &str) -> Unit {
    match s { "auto" => Unit::Auto, "nanosecond" => Unit::Nanosecond, "microsecond" => Unit::Microsecond, "millisecond" => Unit::Millisecond,
        "second" => Unit::Second, "minute" => Unit::Minute, "hour" => Unit::Hour, "day" => Unit::Day, "week" => Unit::Week,
        "month" => Unit::Month, "year" => Unit::Year, _ => panic!("unit {}", s) }
}
pub fn mode_name(s: &str) -> RoundingMode {
    match s { "ceil" => RoundingMode::Ceil, "floor" => RoundingMode::Floor, "expand" => RoundingMode::Expand, "trunc" => RoundingMode::Trunc,
        "halfCeil" => RoundingMode::HalfCeil, "halfFloor" => RoundingMode::HalfFloor, "halfExpand" => RoundingMode::HalfExpand,
        "halfTrunc" => RoundingMode::HalfTrunc, "halfEven" => RoundingMode::HalfEven, _ => panic!("mode {}", s) }
}
pub fn ovf_name(s: &str) -> ArithmeticOverflow { match s { "constrain" => ArithmeticOverflow::Constrain, "reject" => ArithmeticOverflow::Reject, _ => panic!("ovf {}", s) } }
pub fn a_ovf_opt(a: &Value) -> Option<ArithmeticOverflow> { js::opt_s(a, "ovf").map(ovf_name) }
pub fn a_ovf(a: &Value) -> ArithmeticOverflow { ovf_name(js::s(a, "ovf")) }
pub fn a_settings(v: &Value) -> TemporalResult<DifferenceSettings> {
    let mut st = DifferenceSettings::default();
    if let Some(u) = js::opt_s(v, "largest") { st.largest_unit = Some(unit_name(u)); }
    if let Some(u) = js::opt_s(v, "smallest") { st.smallest_unit = Some(unit_name(u)); }
    if let Some(m) = js::opt_s(v, "mode") { st.rounding_mode = Some(mode_name(m)); }
    if js::has(v, "inc") { st.increment = Some(RoundingIncrement::try_new(js::i(v, "inc") as u32)?); }
    Ok(st)
}
pub fn a_rounding(v: &Value) -> TemporalResult<RoundingOptions> {
    let mut st = RoundingOptions::default();
    st.largest_unit = js::opt_s(v, "largest").map(unit_name);
    st.smallest_unit = js::opt_s(v, "smallest").map(unit_name);
    st.rounding_mode = js::opt_s(v, "mode").map(mode_name);
    st.increment = if js::has(v, "inc") { Some(RoundingIncrement::try_new(js::i(v, "inc") as u32)?) } else { None };
    Ok(st)
}
/// {"precision": "auto" | "minute" | 0..9, "smallest"?, "mode"?}
pub fn a_tsro(v: &Value) -> ToStringRoundingOptions {
    let precision = match v.get("precision") {
        Some(p) if p.as_str() == Some("minute") => parsers::Precision::Minute,
        Some(p) if p.is_i64() => parsers::Precision::Digit(p.as_i64().unwrap() as u8),
        _ => parsers::Precision::Auto,
    };
    ToStringRoundingOptions { precision, smallest_unit: js::opt_s(v, "smallest").map(unit_name), rounding_mode: js::opt_s(v, "mode").map(mode_name) }
}
pub fn dcal_name(s: &str) -> DisplayCalendar { match s { "auto" => DisplayCalendar::Auto, "always" => DisplayCalendar::Always, "never" => DisplayCalendar::Never, "critical" => DisplayCalendar::Critical, _ => panic!("dcal {}", s) } }
pub fn doff_name(s: &str) -> DisplayOffset { match s { "auto" => DisplayOffset::Auto, "never" => DisplayOffset::Never, _ => panic!("doff {}", s) } }
pub fn dtz_name(s: &str) -> DisplayTimeZone { match s { "auto" => DisplayTimeZone::Auto, "never" => DisplayTimeZone::Never, "critical" => DisplayTimeZone::Critical, _ => panic!("dtz {}", s) } }
pub fn disamb_name(s: &str) -> Disambiguation { match s { "compatible" => Disambiguation::Compatible, "earlier" => Disambiguation::Earlier, "later" => Disambiguation::Later, "reject" => Disambiguation::Reject, _ => panic!("disamb {}", s) } }
pub fn offdis_name(s: &str) -> OffsetDisambiguation { match s { "use" => OffsetDisambiguation::Use, "prefer" => OffsetDisambiguation::Prefer, "ignore" => OffsetDisambiguation::Ignore, "reject" => OffsetDisambiguation::Reject, _ => panic!("offdis {}", s) } }
pub fn dir_name(s: &str) -> TransitionDirection { match s { "next" => TransitionDirection::Next, "previous" => TransitionDirection::Previous, _ => panic!("dir {}", s) } }

fn opt_i(v: &Value, k: &str) -> Option<i64> { v.get(k).and_then(|x| x.as_i64()) }
/// partial date {"year"?, "month"?, "month_code"?, "day"?, "era"?, "era_year"?, "cal"?}
pub fn a_pdate(v: &Value) -> TemporalResult<PartialDate> {
    Ok(PartialDate {
        year: opt_i(v, "year").map(|x| x as i32),
        month: opt_i(v, "month").map(|x| x as u8),
        // the core parser of month codes, with the core's own error kind
        month_code: match js::opt_s(v, "month_code") { Some(s) => Some(MonthCode::try_from_utf8(s.as_bytes())?), None => None },
        day: opt_i(v, "day").map(|x| x as u8),
        era: match js::opt_s(v, "era") { Some(s) => Some(TinyAsciiStr::try_from_utf8(s.as_bytes()).map_err(|_| TemporalError::syntax())?), None => None },
        era_year: opt_i(v, "era_year").map(|x| x as i32),
        calendar: a_cal(v)?,
    })
}
pub fn a_ptime(v: &Value) -> PartialTime {
    PartialTime { hour: opt_i(v, "hour").map(|x| x as u8), minute: opt_i(v, "minute").map(|x| x as u8), second: opt_i(v, "second").map(|x| x as u8),
        millisecond: opt_i(v, "millisecond").map(|x| x as u16), microsecond: opt_i(v, "microsecond").map(|x| x as u16), nanosecond: opt_i(v, "nanosecond").map(|x| x as u16) }
}
pub const PDUR_KEYS: [&str; 10] = ["years", "months", "weeks", "days", "hours", "minutes", "seconds", "milliseconds", "microseconds", "nanoseconds"];
/// value of partial-duration field k: present number, or the out-of-band special {"key": k, "val": ...}
pub fn pdur_field(v: &Value, k: &str) -> Option<f64> {
    if let Some(sp) = v.get("special") { if js::s(sp, "key") == k { return Some(special(js::s(sp, "val"))); } }
    match v.get(k) { Some(x) if !x.is_null() => Some(f64_exact(x)), _ => None }
}
pub fn a_pdur(v: &Value) -> TemporalResult<PartialDuration> {
    let f = |k: &str| -> TemporalResult<Option<FiniteF64>> { match pdur_field(v, k) { Some(x) => Ok(Some(FiniteF64::try_from(x)?)), None => Ok(None) } };
    Ok(PartialDuration { years: f("years")?, months: f("months")?, weeks: f("weeks")?, days: f("days")?, hours: f("hours")?, minutes: f("minutes")?,
        seconds: f("seconds")?, milliseconds: f("milliseconds")?, microseconds: f("microseconds")?, nanoseconds: f("nanoseconds")? })
}
/// relativeTo: null | {"date": {...}} | {"zdt": {...}}
pub fn a_relto(v: &Value) -> TemporalResult<Option<RelativeTo>> {
    if let Some(d) = v.get("date") { return Ok(Some(RelativeTo::PlainDate(a_date(d)?))); }
    if let Some(z) = v.get("zdt") { return Ok(Some(RelativeTo::ZonedDateTime(a_zdt(z)?))); }
    Ok(None)
}

// ---------------------------------------------------------------- projections (core types, public getters)
pub fn ji<T: Copy + Into<i64>>(v: &T) -> Value { int((*v).into()) }
/// Option<T> is projected as a 0/1-element array (TLC's JSON has no null)
pub fn jo<T: Copy + Into<i64>>(v: &Option<T>) -> Value { match v { Some(x) => json!([int((*x).into())]), None => json!([]) } }
pub fn jb(v: &bool) -> Value { json!(*v) }
pub fn js_(v: &String) -> Value { json!(v) }
pub fn j_i64(v: &i64) -> Value { big(*v as i128) }
pub fn j_f64(x: f64) -> Value { json!({"f64bits": format!("{:016x}", x.to_bits())}) }
fn with_cal(mut o: Value, id: &str) -> Value { if id != "iso8601" { o["cal"] = json!(id); } o }
pub fn j_date(d: &PlainDate) -> Value { with_cal(json!({"y": int(d.iso_year() as i64), "m": d.iso_month(), "d": d.iso_day()}), d.calendar().identifier()) }
pub fn j_time(t: &PlainTime) -> Value { p_time(t) }
pub fn j_dt(t: &PlainDateTime) -> Value {
    with_cal(json!({"y": int(t.iso_year() as i64), "m": t.iso_month(), "d": t.iso_day(), "h": t.hour(), "mi": t.minute(), "s": t.second(),
        "ms": t.millisecond(), "us": t.microsecond(), "ns": t.nanosecond()}), t.calendar().identifier())
}
pub fn j_dur(d: &Duration) -> Value { p_duration(d) }
pub fn j_inst(i: &Instant) -> Value { j_eparts(i.as_i128()) }
pub fn j_zdt(z: &ZonedDateTime) -> Value {
    let mut o = j_eparts(z.epoch_nanoseconds().as_i128());
    o["tz"] = json!(z.timezone().identifier().unwrap_or_else(|_| "?".into()));
    with_cal(o, z.calendar().identifier())
}
pub fn j_ozdt(z: &Option<ZonedDateTime>) -> Value { match z { Some(z) => json!([j_zdt(z)]), None => json!([]) } }
pub fn j_ym(d: &PlainYearMonth) -> Value { with_cal(json!({"y": int(d.iso_year() as i64), "m": d.iso_month()}), d.calendar().identifier()) }
pub fn j_md(d: &PlainMonthDay) -> Value { with_cal(json!({"y": int(d.iso_year() as i64), "m": d.iso_month(), "d": d.iso_day()}), d.calendar().identifier()) }
pub fn j_sign(s: &Sign) -> Value { json!(*s as i8) }
pub fn j_era<const N: usize>(e: &Option<TinyAsciiStr<N>>) -> Value { match e { Some(s) => json!([s.as_str()]), None => json!([]) } }
