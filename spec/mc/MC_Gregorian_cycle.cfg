SPECIFICATION Spec
CONSTANTS
  StartDay <- CycleStart
  StartDate <- CycleDate
  Lo <- CycleStart
  Hi <- CycleHi
INVARIANTS ClosedFormAgrees WellFormed Cycle DoyRule WeekRules OrderIso RangeEnds 
CHECK_DEADLOCK FALSE
