"""C05 — PlainDateTime arithmetic, difference and rounding compose date and exact time."""
from . import lib
from .props import quick, corrupt_first, bump_big, head_of


def run(run):
    b = lib.build_harness("dev")
    q = quick(run)
    for c in (["qdiff", "limdiff", "add", "round"] if q else ["tdiff", "qdiff", "limdiff", "add", "round"]):
        cases, n = run.gen("mc/MC_DateTimeArith.tla", f"gen/Gen_C05_{c}.cfg", workers=8, name=c, timeout=3000)
        run.replay(b, cases, label=c)
        if c == "add":
            run.negative_control_replay(b, cases, corrupt_first(lambda e: e["out"]["kind"] == "ok", lambda e: e["out"]["val"].__setitem__("ns", (e["out"]["val"]["ns"] + 1) % 1000)))
    # until / since WITH smallestUnit / roundingIncrement / roundingMode (also with the mode left out, and under the gregory calendar):
    # the RelativeRound instance restricted to date-time differences
    cases, n = run.gen("mc/MC_RelativeRound.tla", "gen/Gen_C05_rounded.cfg", workers=8, name="rounded", timeout=2400)
    run.replay(b, cases, label="rounded")
    tr = run.record(b, "c05", 15000 if q else 250000)
    run.validate("trace/Trace_DateTime.tla", "trace/Trace_DateTime.cfg", tr)
    small = head_of(run, tr, 400, "c05.small.trace.ndjson")
    run.negative_control_trace("trace/Trace_DateTime.tla", "trace/Trace_DateTime.cfg", small,
                               corrupt_first(lambda e: e.get("op") in ("PlainDateTime.until", "PlainDateTime.since") and e["out"]["kind"] == "ok",
                                             lambda e: bump_big(e["out"]["val"]["ns"])))
    run.cov["rule"] = ("replay: every (pair, largest unit, until|since), (date-time, duration, overflow, add|subtract) and (date-time, unit, increment, mode) transition of the bounded "
                      "DateTimeArith instances incl. both range limits; traces: seeded full-range sessions with opposite time/date order over-sampled")
    run.cov["distinct_nontrivial"] = run.cov["evaluations"]
