SPECIFICATION GSpec
CONSTANTS
  GenForms <- FTime
  GenYears <- OneYear
  Budget = 2
INVARIANTS StructureRecovered DurationRecovered GeneratedAccepted MutationsRejected SmallGoals OutcomesWellFormed
CHECK_DEADLOCK FALSE
