---------------------------- MODULE MC_TimeOfDay ----------------------------
EXTENDS TimeOfDayMachine, TLC, Json
MCTimes == {Time(0, 0, 0, 0, 0, 0), Time(0, 0, 0, 0, 0, 1), Time(11, 59, 59, 999, 999, 999), Time(12, 0, 0, 0, 0, 0),
            Time(23, 59, 59, 999, 999, 999), Time(23, 59, 59, 0, 0, 0), Time(0, 0, 59, 999, 999, 999), Time(13, 14, 15, 16, 17, 18),
            Time(1, 0, 0, 0, 0, 0), Time(0, 59, 59, 999, 999, 999)}
MCDurs == [h : {0, 1, 23, 24, 25, 1000}, mi : {0, 1, 59, 60}, s : {0, 1, 3600}, ms : {0, 999, 1000}, us : {0, 1}, ns : {0, 1, 999, 1000, 1000000000}]
NoDurs == {}
NoTimes == {}
TD(D) == DurI(D)
CaseOf ==
  IF last.op = "add" THEN [op |-> "PlainTime.add", cls |-> "add/" \o last.via, args |-> [recv |-> last.a, dur |-> TD(last.dur), via |-> last.via], out |-> last.out]
  ELSE IF last.op = "subtract" THEN [op |-> "PlainTime.subtract", cls |-> "subtract/" \o last.via, args |-> [recv |-> last.a, dur |-> TD(last.dur), via |-> last.via], out |-> last.out]
  ELSE IF last.op = "until" THEN [op |-> "PlainTime.until", cls |-> "until/" \o last.lg, args |-> [recv |-> last.a, other |-> last.b, st |-> [largest |-> last.lg]], out |-> last.out]
  ELSE [op |-> "PlainTime.since", cls |-> "since/" \o last.lg, args |-> [recv |-> last.a, other |-> last.b, st |-> [largest |-> last.lg]], out |-> last.out]
Emit == last.op = "none" \/ PrintT("CASE " \o ToJson(CaseOf))
=============================================================================
