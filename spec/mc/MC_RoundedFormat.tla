--------------------------- MODULE MC_RoundedFormat ---------------------------
EXTENDS RoundedFormatMachine, Json
Bg(s, l) == [s |-> s, l |-> l]
MCTimes == {Time(0, 0, 0, 0, 0, 0), Time(23, 59, 59, 999, 999, 999), Time(23, 59, 30, 0, 0, 0), Time(12, 34, 56, 500, 0, 0), Time(12, 34, 56, 499, 999, 999), Time(1, 2, 3, 4, 5, 6),
            Time(0, 0, 0, 0, 0, 1), Time(8, 29, 59, 950, 0, 0), Time(8, 30, 29, 999, 500, 0), Time(23, 59, 59, 999, 999, 500), Time(5, 5, 5, 555, 555, 555), Time(5, 5, 5, 5, 50, 500)}
MCDates == {Date(2020, 2, 28), Date(1999, 12, 31), Date(275760, 9, 13), Date(-271821, 4, 20), Date(-1, 12, 31), Date(9999, 12, 31)}
\* instants: around the epoch on both sides (as-if-positive matters before the epoch), ties at each precision, the limits
MCInstants == {Zero, FromInt(1), FromInt(-1), FromInt(500000000), FromInt(-500000000), FromInt(-1500000000), FromInt(1500000000), FromInt(-999999999), FromInt(999999999),
               Bg(-1, <<5000, 5000, 4>>), Bg(1, <<5555, 5555, 5555, 1>>), Bg(-1, <<5555, 5555, 5555, 1>>), Bg(-1, <<0, 3000, 0>>), Bg(1, <<0, 3000, 0>>),
               Bg(1, <<0, 0, 0, 0, 4000, 86>>), Bg(-1, <<0, 0, 0, 0, 4000, 86>>), Bg(1, <<9999, 9999, 9999, 9999, 3999, 86>>), Bg(-1, <<9999, 9999, 9999, 9999, 3999, 86>>)}
MCPrecs == {-2, 0, 1, 2, 3, 4, 5, 6, 7, 8, 9}
D10(y, mo, w, d, h, mi, sec, ms, us, ns) == Dur10(FromInt(y), FromInt(mo), FromInt(w), FromInt(d), FromInt(h), FromInt(mi), FromInt(sec), FromInt(ms), FromInt(us), FromInt(ns))
MCDursPos == {D10(0, 0, 0, 0, 0, 0, 0, 0, 0, 0), D10(0, 0, 0, 0, 0, 0, 0, 500, 0, 0), D10(0, 0, 0, 0, 0, 0, 1, 499, 999, 999), D10(0, 0, 0, 0, 0, 0, 59, 999, 999, 999), D10(0, 0, 0, 0, 0, 59, 59, 999, 999, 500),
              D10(0, 0, 0, 0, 23, 59, 59, 950, 0, 0), D10(0, 0, 0, 1, 23, 59, 59, 999, 999, 999), D10(1, 2, 3, 4, 5, 6, 7, 8, 9, 10), D10(0, 0, 0, 0, 0, 90, 0, 0, 0, 5), D10(0, 0, 0, 0, 0, 0, 0, 0, 0, 1),
              D10(0, 0, 0, 0, 0, 0, 0, 1, 500, 0), D10(0, 0, 0, 0, 100, 0, 0, 0, 555, 555), D10(0, 0, 0, 0, 0, 0, 3599, 999, 999, 999), D10(0, 0, 1, 0, 0, 0, 86399, 999, 999, 999),
              [D10(0, 0, 0, 0, 0, 0, 0, 0, 0, 0) EXCEPT !.s = Bg(1, <<991, 5474, 1992, 9007>>), !.ms = FromInt(999), !.us = FromInt(999), !.ns = FromInt(999)]}
MCDurs == MCDursPos \cup {NegDur(D) : D \in MCDursPos}
MCZones == {"UTC", "+05:30", "-08:00"}
Emit == last.op = "none" \/ PrintT("CASE " \o ToJson([op |-> last.op, cls |-> last.cls, args |-> last.args, out |-> last.out]))
=============================================================================
