"""C10 — each operation accepts exactly the option combinations Temporal allows, with the specified defaults."""
from . import lib
from .props import quick, corrupt_first, bump_big


def run(run):
    b = lib.build_harness("dev")
    q = quick(run)
    # the generator run is the model-checking run of the full matrix (AcceptanceIgnoresMode, ResolvedCoherent + Emit)
    cases, n = run.gen("mc/MC_Options.tla", "gen/Gen_C10_all.cfg", workers=8, name="matrix", timeout=1500)
    run.replay(b, cases, label="matrix")
    cases2, n2 = run.gen("mc/MC_Options.tla", "gen/Gen_C10_badinc.cfg", workers=4, name="badinc")
    run.replay(b, cases2, label="badinc")
    run.negative_control_replay(b, cases, corrupt_first(lambda e: e["out"]["kind"] == "range", lambda e: e["out"].__setitem__("kind", "ok")), limit=5000)
    run.exhaustive = True
    run.cov["rule"] = ("one case per cell of the full finite matrix {16 operations incl. ZonedDateTime.until / since, these also with the argument in another time zone} x {largestUnit: 10 units, auto, absent} x {smallestUnit: 10 units, absent} x {23 increments incl. 1, divisors, "
                      "non-divisors, maxima, day lengths, 1e9; plus 0 and 1e9+1} x {mode absent and all 9 modes}; accepted cells compare the *result* on separating operands "
                      "wherever the value-level specs decide it, so the resolved defaults (auto largest unit, trunc for differences, halfExpand for round, since negates) are observed")
    run.cov["distinct_nontrivial"] = run.cov["evaluations"]
    run.assumptions += ["no trace leg: the space is finite and enumerated completely (exhaustive: true)",
                        "Duration.round cells with a calendar smallest/largest unit and no relativeTo are RangeErrors by C09's rule and are expected as such only through kind comparison"]
