SPECIFICATION Spec
CONSTANTS
  Times <- MCTimes
  Durs <- MCDurs
  OneStep = TRUE
INVARIANTS CurValid AddIsBalance SubIsBalance DiffLaws
CHECK_DEADLOCK FALSE
