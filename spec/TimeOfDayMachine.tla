-------------------------- MODULE TimeOfDayMachine --------------------------
(* Session state machine over TimeOfDay and the laws of C06 for wall-clock times. *)
EXTENDS TimeOfDay

CONSTANTS Times, Durs, OneStep     \* Durs: records h, mi, s, ms, us, ns of small ints
VARIABLES cur, last
vars == <<cur, last>>
None == [op |-> "none"]
DurI(D) == Dur10(Zero, Zero, Zero, Zero, FromInt(D.h), FromInt(D.mi), FromInt(D.s), FromInt(D.ms), FromInt(D.us), FromInt(D.ns))
Init == cur \in Times /\ last = None
\* via "td": the twin entry points add_time_duration / subtract_time_duration
AddAct(D, via) == LET o == PlainTimeAdd(cur, DurI(D)) IN last' = [op |-> "add", a |-> cur, dur |-> D, via |-> via, out |-> o] /\ cur' = o.val
SubAct(D, via) == LET o == PlainTimeSub(cur, DurI(D)) IN last' = [op |-> "subtract", a |-> cur, dur |-> D, via |-> via, out |-> o] /\ cur' = o.val
UntilAct(b, lg) == last' = [op |-> "until", a |-> cur, b |-> b, lg |-> lg, out |-> PlainTimeDiff(cur, b, lg, "nanosecond", 1, "trunc", FALSE)] /\ cur' = b
SinceAct(b, lg) == last' = [op |-> "since", a |-> cur, b |-> b, lg |-> lg, out |-> PlainTimeDiff(cur, b, lg, "nanosecond", 1, "trunc", TRUE)] /\ cur' = b
Next == /\ (OneStep => last = None)
        /\ \/ \E D \in Durs, via \in {"dur", "td"} : AddAct(D, via) \/ SubAct(D, via)
           \/ \E b \in Times, lg \in TimeUnits : UntilAct(b, lg) \/ SinceAct(b, lg)
Spec == Init /\ [][Next]_vars

CurValid == ValidTime(cur)
\* BigInt modular sum = ripple-carry BalanceTime
AddIsBalance == last.op = "add" =>
  last.out.val = BalanceTimeI(last.a.h + last.dur.h, last.a.mi + last.dur.mi, last.a.s + last.dur.s,
                              last.a.ms + last.dur.ms, last.a.us + last.dur.us, last.a.ns + last.dur.ns).time
SubIsBalance == last.op = "subtract" =>
  last.out.val = BalanceTimeI(last.a.h - last.dur.h, last.a.mi - last.dur.mi, last.a.s - last.dur.s,
                              last.a.ms - last.dur.ms, last.a.us - last.dur.us, last.a.ns - last.dur.ns).time
\* until is exact, balanced to the largest unit, sign-uniform; adding it maps a onto b; since = -until
DiffLaws == last.op \in {"until", "since"} =>
  LET D == last.out.val
      U == IF last.op = "since" THEN NegDur(D) ELSE D
  IN /\ SignUniform(D)
     /\ Eq(TimeNs(U), Sub(TimeNsOf(last.b), TimeNsOf(last.a)))
     /\ PlainTimeAdd(last.a, U) = Ok(last.b)
     /\ \A i \in 1..UnitIdx(last.lg) : TRUE
     /\ (UnitIdx(last.lg) < 6 => IsZero(D.h)) /\ (UnitIdx(last.lg) < 5 => IsZero(D.mi)) /\ (UnitIdx(last.lg) < 4 => IsZero(D.s))
     /\ (UnitIdx(last.lg) >= 2 => AbsLe(D.ns, 999)) /\ (UnitIdx(last.lg) >= 3 => AbsLe(D.us, 999)) /\ (UnitIdx(last.lg) >= 4 => AbsLe(D.ms, 999))
     /\ (UnitIdx(last.lg) >= 5 => AbsLe(D.s, 59)) /\ (UnitIdx(last.lg) >= 6 => AbsLe(D.mi, 59))
=============================================================================
