SPECIFICATION Spec
CONSTANTS
  Window <- TWindow
  DurSet <- NoDur
  LargestSet <- AllLargest
  OneStep = TRUE
INVARIANTS InverseLaw ClosedEqualsLiteral DiffShape DayIsDistance AddWellFormed SubIsAddNeg RejectRule 
CHECK_DEADLOCK FALSE
