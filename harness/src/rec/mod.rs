//! impl -> spec: seeded drivers that run sessions against the real API and write NDJSON traces.
use crate::ops;
use crate::rng::Rng;
use serde_json::{json, Value};
use std::io::Write;

pub mod c01;
pub mod c04;

pub struct Tracer { f: std::io::BufWriter<std::fs::File>, pub n: usize }
impl Tracer {
    pub fn call(&mut self, op: &str, args: Value) -> Value {
        let out = ops::exec(op, &args);
        writeln!(self.f, "{}", json!({"op": op, "args": args, "out": out})).unwrap();
        self.n += 1;
        out
    }
    pub fn reset(&mut self) { writeln!(self.f, "{}", json!({"op": "reset"})).unwrap(); self.n += 1; }
}

pub fn main(a: &[String]) {
    let driver = a[0].as_str();
    let seed: u64 = a[1].parse().expect("seed");
    let n: usize = a[2].parse().expect("n");
    let mut t = Tracer { f: std::io::BufWriter::new(std::fs::File::create(&a[3]).expect("out")), n: 0 };
    let mut r = Rng::new(seed);
    match driver {
        "c01" => c01::drive(&mut t, &mut r, n),
        "c04" => c04::drive(&mut t, &mut r, n),
        _ => { eprintln!("unknown driver {}", driver); std::process::exit(2); }
    }
    t.f.flush().unwrap();
    println!("{}", json!({"events": t.n}));
}
