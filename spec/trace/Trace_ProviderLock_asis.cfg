\* as-is model: what the code does today (lock().map_err(..)?) - informational
SPECIFICATION TSpec
CONSTANTS
  Threads = {}
  Zones = {}
  ZoneOpts = {}
  PanicZones = {}
  Kinds = {}
  NCalls = 0
  KeepHist = FALSE
  PoisonBehaviour = "error"
INVARIANTS LockFree CacheOnlyKnown
POSTCONDITION AcceptedC20
CHECK_DEADLOCK FALSE
