//! PlainDate operations.
use crate::js::{self, big, int};
use crate::ops::{utc, FS};
use crate::proj::*;
use serde_json::{json, Value};
use temporal_rs::options::*;
use temporal_rs::*;

pub fn exec(op: &str, a: &Value) -> Option<Value> {
    Some(match op {
        "PlainDate.new" => run(|| arg_date(&a["d"]), p_date),
        "PlainDate.add" => run(|| arg_date(&a["recv"])?.add(&arg_duration(&a["dur"])?, arg_ovf(a)), p_date),
        "PlainDate.subtract" => run(|| arg_date(&a["recv"])?.subtract(&arg_duration(&a["dur"])?, arg_ovf(a)), p_date),
        "PlainDate.until" => run(|| arg_date(&a["recv"])?.until(&arg_date(&a["other"])?, arg_settings(&a["st"])?), p_duration),
        "PlainDate.since" => run(|| arg_date(&a["recv"])?.since(&arg_date(&a["other"])?, arg_settings(&a["st"])?), p_duration),
        "PlainDate.compare" => run(|| Ok(arg_date(&a["recv"])?.compare_iso(&arg_date(&a["other"])?)), |o| p_ord(*o)),
        // midnight UTC of the date as an instant (epoch ns), via ZonedDateTime in the +00:00 zone
        "PlainDate.epochNsUtc" => run(|| FS.with(|p| arg_date(&a["recv"])?.to_zoned_date_time_with_provider(utc(), None, p)), |z| big(z.epoch_nanoseconds().as_i128())),
        // instant -> calendar date in UTC
        "Instant.toDateUtc" => run(|| FS.with(|p| arg_instant(&a["ns"])?.to_zoned_date_time_iso(utc()).to_plain_date_with_provider(p)), p_date),
        "PlainDate.fields" => run(|| arg_date(&a["recv"]), |d| {
            json!({"y": int(d.year() as i64), "m": d.month(), "d": d.day(), "dow": d.day_of_week(), "doy": d.day_of_year(),
                   "week": d.week_of_year().ok().flatten(), "wy": d.year_of_week().ok().flatten(),
                   "diw": d.days_in_week().ok(), "dim": d.days_in_month(), "diy": d.days_in_year(),
                   "miy": d.months_in_year(), "leap": d.in_leap_year()})
        }),
        _ => return None,
    })
}
