SPECIFICATION Spec
CONSTANTS
  DaySec = 24
  Disk0 <- ProvDisk
  Workload <- ProvWorkload
  Once = TRUE
  OneStep = FALSE
INVARIANTS PureMemo HistoryIndependent LastRight FailLeavesNoTrace
VIEW ProvView
CHECK_DEADLOCK FALSE
