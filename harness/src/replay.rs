//! spec -> impl: step the real API through TLC-generated cases and compare outcomes.
use crate::ops;
use serde_json::{json, Value};
use std::io::{BufRead, BufReader, Write};
use std::sync::atomic::{AtomicUsize, Ordering};
use std::sync::Mutex;

/// expected "out" may be {"kind":"any"} (any non-panicking outcome), {"kind":"err"} (any Type/Range error) or
/// {"kind":"within","lo":a,"hi":b} (an integer-typed answer to a fractional quantity: a <= value <= b)
pub fn matches(expected: &Value, observed: &Value) -> bool {
    let ek = expected["kind"].as_str().unwrap_or("");
    let ok_ = observed["kind"].as_str().unwrap_or("");
    match ek {
        "any" => matches!(ok_, "ok" | "type" | "range" | "syntax"),
        "err" => matches!(ok_, "type" | "range" | "syntax"),
        "within" => ok_ == "ok" && observed["val"].as_i64().map_or(false, |v| expected["lo"].as_i64().map_or(false, |lo| lo <= v) && expected["hi"].as_i64().map_or(false, |hi| v <= hi)),
        "ratio" => ok_ == "ok" && ratio_ok(&observed["val"], &expected["n"], &expected["d"]),
        "ok" => ok_ == "ok" && (expected.get("val").is_none() || expected["val"] == observed["val"]),
        k => k == ok_,
    }
}

pub fn main(a: &[String]) {
    let cases = &a[0];
    let report = &a[1];
    let lines: Vec<String> = BufReader::new(std::fs::File::open(cases).expect("cases")).lines().map(|l| l.unwrap()).filter(|l| !l.trim().is_empty()).collect();
    let n = lines.len();
    let next = AtomicUsize::new(0);
    let out = Mutex::new(Vec::<(usize, Value)>::new());
    let samples = Mutex::new(Vec::<Value>::new());
    let threads = std::thread::available_parallelism().map(|x| x.get()).unwrap_or(4).min(16);
    // watchdog ("no operation loops without bound"): a case that runs longer than the limit is reported with the observed
    // outcome kind "timeout"; the report written then contains what was decided up to that point and the replay ends
    let in_flight: Vec<Mutex<Option<(std::time::Instant, usize)>>> = (0..threads).map(|_| Mutex::new(None)).collect();
    let done = std::sync::atomic::AtomicBool::new(false);
    let limit = crate::rec::watchdog_secs();
    std::thread::scope(|s| {
        s.spawn(|| while !done.load(Ordering::Relaxed) {
            std::thread::sleep(std::time::Duration::from_millis(300));
            for slot in &in_flight {
                let stuck = slot.lock().unwrap().as_ref().filter(|(t0, _)| t0.elapsed().as_secs() >= limit).map(|x| x.1);
                if let Some(i) = stuck {
                    let c: Value = serde_json::from_str(&lines[i]).expect("case json");
                    let mut mm: Vec<(usize, Value)> = out.lock().unwrap_or_else(|e| e.into_inner()).clone();
                    mm.push((i, json!({"i": i + 1, "op": c["op"], "cls": c.get("cls").cloned().unwrap_or(Value::Null), "args": c["args"], "expected": c["out"], "observed": {"kind": "timeout"}})));
                    mm.sort_by_key(|x| x.0);
                    let mut f = std::fs::File::create(report).expect("report");
                    for (_, m) in &mm { writeln!(f, "{}", m).unwrap(); }
                    println!("{}", json!({"cases": next.load(Ordering::Relaxed).min(n), "mismatches": mm.len(), "samples": [], "timeout": true}));
                    std::process::exit(0);
                }
            }
        });
        let workers: Vec<_> = (0..threads).map(|w| { let (next, out, samples, lines, in_flight) = (&next, &out, &samples, &lines, &in_flight);
            s.spawn(move || loop {
                let i = next.fetch_add(1, Ordering::Relaxed);
                if i >= n { break; }
                let c: Value = serde_json::from_str(&lines[i]).expect("case json");
                let op = c["op"].as_str().expect("op");
                *in_flight[w].lock().unwrap() = Some((std::time::Instant::now(), i));
                // every call into the code under test is already under catch_unwind (proj::run); a panic that arrives here comes from
                // the harness glue itself (bad case, missing argument) and must not silently drop the case
                let obs = std::panic::catch_unwind(std::panic::AssertUnwindSafe(|| ops::exec(op, &c["args"])))
                    .unwrap_or_else(|p| json!({"kind": "harness-error", "what": p.downcast_ref::<String>().cloned().or_else(|| p.downcast_ref::<&str>().map(|s| s.to_string())).unwrap_or_default()}));
                *in_flight[w].lock().unwrap() = None;
                if i % (n / 3 + 1) == 0 {
                    samples.lock().unwrap().push(json!({"op": op, "args": c["args"], "expected": c["out"], "observed": obs}));
                }
                if !matches(&c["out"], &obs) {
                    out.lock().unwrap().push((i, json!({"i": i + 1, "op": op, "cls": c.get("cls").cloned().unwrap_or(Value::Null),
                        "args": c["args"], "expected": c["out"], "observed": obs})));
                }
            }) }).collect();
        for w in workers { if w.join().is_err() { eprintln!("HARNESS replay worker died"); std::process::exit(3); } }
        done.store(true, Ordering::Relaxed);
    });
    let mut mm = out.into_inner().unwrap();
    mm.sort_by_key(|x| x.0);
    let mut f = std::fs::File::create(report).expect("report");
    for (_, m) in &mm { writeln!(f, "{}", m).unwrap(); }
    println!("{}", json!({"cases": n, "mismatches": mm.len(), "samples": samples.into_inner().unwrap()}));
}

/// the observed double m*2^e must render the exact rational n/d: exactly when n/d is an integer of magnitude <= 2^53,
/// otherwise within a relative error of 2^-50 (replay-side mirror of Duration!F64Approximates, which the trace specs evaluate exactly)
pub fn ratio_ok(val: &Value, n: &Value, d: &Value) -> bool {
    let (m, e) = (crate::js::unbig(&val["m"]), val["e"].as_i64().unwrap_or(0));
    let (n, d) = (crate::js::unbig(n), crate::js::unbig(d));
    let obs = (m as f64) * (2.0f64).powi(e as i32);
    if n % d == 0 && (n / d).abs() <= (1i128 << 53) { return obs == (n / d) as f64; }
    let exact = (n as f64) / (d as f64);
    (obs - exact).abs() <= exact.abs() * (2.0f64).powi(-50)
}
