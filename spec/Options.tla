------------------------------ MODULE Options ------------------------------
(***************************************************************************)
(* Which (largestUnit, smallestUnit, roundingIncrement, roundingMode)       *)
(* combinations each operation accepts, and what omitted options resolve to *)
(* (C10): GetDifferenceSettings, Duration.round, PlainDateTime /            *)
(* ZonedDateTime / Instant / PlainTime round, ValidateTemporalRounding-     *)
(* Increment, toString precision. "absent" models an omitted option.        *)
(***************************************************************************)
EXTENDS TemporalBase

Absent == "absent"
UnitGroupOf(g) == CASE g = "date" -> DateUnits [] g = "time" -> TimeUnits [] g = "datetime" -> UnitSet
MaxInc(u) == CASE u = "hour" -> 24 [] u \in {"minute", "second"} -> 60
               [] u \in {"millisecond", "microsecond", "nanosecond"} -> 1000 [] OTHER -> 0      \* 0: no maximum
\* ValidateTemporalRoundingIncrement(increment, dividend, inclusive)
IncOK(inc, dividend, inclusive) == inc <= (IF inclusive THEN dividend ELSE dividend - 1) /\ dividend % inc = 0
IncInRange(inc) == inc >= 1 /\ inc <= 1000000000
Resolved(lg, sm, inc, mode) == [kind |-> "ok", largest |-> lg, smallest |-> sm, inc |-> inc, mode |-> mode]

\* difference operations: table of (unit group, disallowed units, fallback smallest, smallest-largest default)
DiffOps == {"PlainDate", "PlainTime", "PlainDateTime", "Instant", "ZonedDateTime", "PlainYearMonth"}
DiffGroup(t) == CASE t \in {"PlainDate", "PlainYearMonth"} -> "date" [] t \in {"PlainTime", "Instant"} -> "time" [] OTHER -> "datetime"
DiffDisallowed(t) == IF t = "PlainYearMonth" THEN {"week", "day"} ELSE {}
DiffFallbackSmallest(t) == CASE t = "PlainDate" -> "day" [] t = "PlainYearMonth" -> "month" [] OTHER -> "nanosecond"
DiffDefaultLargest(t) == CASE t \in {"PlainDate", "PlainDateTime"} -> "day" [] t \in {"PlainTime", "ZonedDateTime"} -> "hour"
                           [] t = "Instant" -> "second" [] t = "PlainYearMonth" -> "year"
\* GetDifferenceSettings; isSince negates the mode
ResolveDiff(t, isSince, lg, sm, inc, mode) ==
  LET allowed == UnitGroupOf(DiffGroup(t)) \ DiffDisallowed(t)
      sm2 == IF sm = Absent THEN DiffFallbackSmallest(t) ELSE sm
      m0 == IF mode = Absent THEN "trunc" ELSE mode
      m2 == IF isSince THEN NegateMode(m0) ELSE m0
  IN IF ~IncInRange(inc) THEN ErrRange
     ELSE IF lg \notin allowed \cup {Absent, "auto"} \/ sm \notin allowed \cup {Absent} THEN ErrRange
     ELSE LET lg2 == IF lg \in {Absent, "auto"} THEN UnitMax(DiffDefaultLargest(t), sm2) ELSE lg
          IN IF ~UnitLe(sm2, lg2) THEN ErrRange
             ELSE IF MaxInc(sm2) # 0 /\ ~IncOK(inc, MaxInc(sm2), FALSE) THEN ErrRange
             ELSE Resolved(lg2, sm2, inc, m2)

\* Duration.round (existing = the duration's own largest unit)
ResolveDurationRound(existing, lg, sm, inc, mode) ==
  IF ~IncInRange(inc) THEN ErrRange
  ELSE IF lg = Absent /\ sm = Absent THEN ErrRange
  ELSE IF sm = "auto" THEN ErrRange                       \* auto is a value of largestUnit only
  ELSE LET sm2 == IF sm = Absent THEN "nanosecond" ELSE sm
           lg2 == IF lg \in {Absent, "auto"} THEN UnitMax(existing, sm2) ELSE lg
       IN IF ~UnitLe(sm2, lg2) THEN ErrRange
          ELSE IF MaxInc(sm2) # 0 /\ ~IncOK(inc, MaxInc(sm2), FALSE) THEN ErrRange
          \* a date unit can be rounded to an increment above 1 only as the largest unit as well (Duration.prototype.round:
          \* "roundingIncrement > 1 and largestUnit is not smallestUnit and the category of smallestUnit is date" is a RangeError)
          ELSE IF inc > 1 /\ lg2 # sm2 /\ sm2 \in DateUnits THEN ErrRange
          ELSE Resolved(lg2, sm2, inc, IF mode = Absent THEN "halfExpand" ELSE mode)

\* PlainDateTime.round / ZonedDateTime.round: smallestUnit required, a time unit or day (day: increment 1 only)
ResolveDateTimeRound(sm, inc, mode) ==
  IF ~IncInRange(inc) THEN ErrRange
  ELSE IF sm \notin TimeUnits \cup {"day"} THEN ErrRange
  ELSE IF sm = "day" /\ inc # 1 THEN ErrRange
  ELSE IF sm # "day" /\ ~IncOK(inc, MaxInc(sm), FALSE) THEN ErrRange
  ELSE Resolved("auto", sm, inc, IF mode = Absent THEN "halfExpand" ELSE mode)
\* PlainTime.round: smallestUnit required, a time unit
ResolveTimeRound(sm, inc, mode) ==
  IF ~IncInRange(inc) THEN ErrRange
  ELSE IF sm \notin TimeUnits THEN ErrRange
  ELSE IF ~IncOK(inc, MaxInc(sm), FALSE) THEN ErrRange
  ELSE Resolved("auto", sm, inc, IF mode = Absent THEN "halfExpand" ELSE mode)
\* Instant.round: time unit required; the increment may reach the whole day (inclusive maxima), and must divide it.
\* The day length in that unit is computed without leaving 32 bits: only divisibility and the bound are needed.
DayLenSmall(u) == CASE u = "hour" -> 24 [] u = "minute" -> 1440 [] u = "second" -> 86400 [] u = "millisecond" -> 86400000 [] OTHER -> 0
RECURSIVE GCD(_, _)
GCD(a, b) == IF b = 0 THEN a ELSE GCD(b, a % b)
InstantIncOK(u, inc) ==
  IF DayLenSmall(u) # 0 THEN IncOK(inc, DayLenSmall(u), TRUE)
  ELSE \* microsecond: 8.64e10 = 86400000 * 10^3, nanosecond: 8.64e13 = 86400000 * 10^6; inc <= 1e9 is below both, so only
       \* divisibility matters:  inc | A*k  <=>  (inc / gcd(inc, k)) | A   (the cofactors are coprime)
       LET k == IF u = "microsecond" THEN 1000 ELSE 1000000
       IN 86400000 % (inc \div GCD(inc, k)) = 0
ResolveInstantRound(sm, inc, mode) ==
  IF ~IncInRange(inc) THEN ErrRange
  ELSE IF sm \notin TimeUnits THEN ErrRange
  ELSE IF ~InstantIncOK(sm, inc) THEN ErrRange
  ELSE Resolved("auto", sm, inc, IF mode = Absent THEN "halfExpand" ELSE mode)
=============================================================================
