SPECIFICATION TSpec
CONSTANTS
  Receivers = {}
  OneStep = FALSE
  ArgPool <- NoPool
INVARIANT TableSane
POSTCONDITION AcceptedC19
CHECK_DEADLOCK FALSE
