------------------------------ MODULE Grammar ------------------------------
(* The token-level string generator (state machine) on top of the recognizer operators of GrammarOps. *)
EXTENDS GrammarOps
(* ======================= Part 3: token-level generator ======================= *)
(* A string is assembled slot by slot. Every slot offers options <<text, cost, mutation class, field updates>>.   *)
(* Cost 0 = the canonical choice; a behaviour may spend at most Budget on deviations, at most one of which is a  *)
(* catalogued mutation (bad # ""). The generator keeps, next to the characters, the STRUCTURE it put into the     *)
(* string (field by field), so that TLC can check generator <= recognizer with the structure recovered exactly.  *)
CONSTANTS GenForms,      \* subset of {"dt","time","ym","md","dur","off","tzname","mcode","calid"}
          GenYears,      \* years offered to the year slot
          Budget         \* maximal total cost of deviations per string
VARIABLES cur, last
gvars == <<cur, last>>
None == [op |-> "none"]

Opt(t, c, bad, set) == [t |-> t, c |-> c, bad |-> bad, set |-> set]
Nop == [nop |-> 0]
C(s) == Chars(s)
Cost(b) == IF b THEN 0 ELSE 1

Start(f) ==
  [form |-> f, st |-> CASE f \in {"dt", "time", "ym", "md"} -> "lead" [] f = "dur" -> "dsign" [] OTHER -> "whole",
   cs |-> <<>>, nv |-> 0, bad |-> "", nop |-> 0,
   y |-> 0, m |-> 0, d |-> 0, hasTime |-> FALSE, tform |-> "", h |-> 0, mi |-> 0, s |-> 0, fr |-> 0, hasfr |-> FALSE,
   offk |-> "none", osg |-> 1, oh |-> 0, om |-> 0, os |-> 0, ofr |-> 0, osub |-> FALSE, oform |-> "",
   tzk |-> "none", tzid |-> <<>>, tzmin |-> 0, tzcrit |-> FALSE,
   cal |-> <<>>, k1 |-> FALSE, v1 |-> FALSE, vc1 |-> FALSE, des |-> FALSE,
   dsg |-> 1, dy |-> -1, dmo |-> -1, dw |-> -1, dd |-> -1, dh |-> -1, dmi |-> -1, ds |-> -1, dfu |-> 0, dfr |-> 0, dT |-> FALSE,
   whole |-> ""]

YearText(y, six) == IF six THEN (IF y < 0 THEN "-" ELSE "+") \o PadN(AbsI(y), 6) ELSE PadN(y, 4)
YearOpts ==
  LET ys == SortedSeq(GenYears)
      four == SelectSeq(ys, LAMBDA y : y >= 0 /\ y <= 9999)
  IN [i \in 1..Len(four) |-> Opt(C(YearText(four[i], FALSE)), Cost(four[i] = 2020), "", [y |-> four[i]])]
     \o [i \in 1..Len(ys) |-> Opt(C(YearText(ys[i], TRUE)), 1 + Cost(ys[i] = 2020), "", [y |-> ys[i]])]
     \o <<Opt(C("-000000"), 1, "negative-zero-year", [y |-> 0]),
          Opt(C("202"), 1, "year-digits", [y |-> 202]),
          Opt(C("+02020"), 1, "year-digits", [y |-> 2020])>>

GenMD == <<<<1, 1>>, <<12, 31>>, <<2, 29>>, <<2, 28>>, <<6, 30>>>>
MDText(m, d, ext, lead) == (IF ext /\ lead THEN "-" ELSE "") \o Pad2(m) \o (IF ext THEN "-" ELSE "") \o Pad2(d)
\* month and day after a year (lead separator included) or on their own (month-day strings)
MDOpts(y, lead) ==
  LET one(md, ext) == Opt(C(MDText(md[1], md[2], ext, lead)), Cost(ext) + Cost(md = <<1, 1>>),
                          IF md[2] > DIM(y, md[1]) THEN "day-exceeds-month" ELSE "", [m |-> md[1], d |-> md[2]])
  IN [i \in 1..Len(GenMD) |-> one(GenMD[i], TRUE)] \o [i \in 1..Len(GenMD) |-> one(GenMD[i], FALSE)]
     \o <<Opt(C(MDText(13, 1, TRUE, lead)), 1, "month-range", Nop), Opt(C(MDText(0, 1, FALSE, lead)), 1, "month-range", Nop),
          Opt(C(MDText(1, 32, TRUE, lead)), 1, "day-range", Nop), Opt(C(MDText(1, 0, TRUE, lead)), 1, "day-range", Nop),
          Opt(C(MDText(4, 31, TRUE, lead)), 1, "day-exceeds-month", Nop),
          Opt(C(MDText(2, 30, FALSE, lead)), 1, "day-exceeds-month", Nop)>>
     \o (IF lead THEN <<Opt(C("-0101"), 1, "date-separator-mixing", Nop), Opt(C("01-01"), 1, "date-separator-mixing", Nop),
                        Opt(C("-1-01"), 1, "month-digits", Nop)>> ELSE <<>>)
MonOpts == <<Opt(C("-01"), 0, "", [m |-> 1, d |-> 1]), Opt(C("-12"), 1, "", [m |-> 12, d |-> 1]), Opt(C("01"), 1, "", [m |-> 1, d |-> 1]),
             Opt(C("09"), 2, "", [m |-> 9, d |-> 1]), Opt(C("-04"), 1, "", [m |-> 4, d |-> 1]),
             Opt(C("-13"), 1, "month-range", Nop), Opt(C("00"), 1, "month-range", Nop), Opt(C("-1"), 1, "month-digits", Nop)>>

SepOpts == <<Opt(<<"T">>, 0, "", [hasTime |-> TRUE]), Opt(<<"t">>, 1, "", [hasTime |-> TRUE]), Opt(<<" ">>, 1, "", [hasTime |-> TRUE]),
             Opt(<<>>, 1, "", [hasTime |-> FALSE])>>
DesOpts == <<Opt(<<>>, 0, "", [des |-> FALSE, hasTime |-> TRUE]), Opt(<<"T">>, 1, "", [des |-> TRUE, hasTime |-> TRUE]),
             Opt(<<"t">>, 1, "", [des |-> TRUE, hasTime |-> TRUE])>>

GenHMS == <<<<12, 30, 45>>, <<0, 0, 0>>, <<23, 59, 59>>, <<23, 59, 60>>, <<20, 20, 1>>>>
GenHM == <<<<12, 30>>, <<0, 0>>, <<23, 59>>, <<20, 20>>, <<1, 1>>, <<2, 30>>>>
GenH == <<12, 0, 23, 1>>
TimeOpts ==
  [i \in 1..Len(GenHMS) |-> LET v == GenHMS[i] IN
     Opt(C(Pad2(v[1]) \o ":" \o Pad2(v[2]) \o ":" \o Pad2(v[3])), Cost(i = 1), "", [tform |-> "H:M:S", h |-> v[1], mi |-> v[2], s |-> v[3]])]
  \o [i \in 1..Len(GenHMS) |-> LET v == GenHMS[i] IN
     Opt(C(Pad2(v[1]) \o Pad2(v[2]) \o Pad2(v[3])), 1 + Cost(i = 1), "", [tform |-> "HMS", h |-> v[1], mi |-> v[2], s |-> v[3]])]
  \o [i \in 1..Len(GenHM) |-> LET v == GenHM[i] IN
     Opt(C(Pad2(v[1]) \o ":" \o Pad2(v[2])), 1 + Cost(i = 1), "", [tform |-> "H:M", h |-> v[1], mi |-> v[2], s |-> 0])]
  \o [i \in 1..Len(GenHM) |-> LET v == GenHM[i] IN
     Opt(C(Pad2(v[1]) \o Pad2(v[2])), 1 + Cost(i = 1), "", [tform |-> "HM", h |-> v[1], mi |-> v[2], s |-> 0])]
  \o [i \in 1..Len(GenH) |-> Opt(C(Pad2(GenH[i])), 1 + Cost(i = 1), "", [tform |-> "H", h |-> GenH[i], mi |-> 0, s |-> 0])]
  \o <<Opt(C("24:00:00"), 1, "hour-24", Nop), Opt(C("2400"), 1, "hour-24", Nop), Opt(C("25:00"), 1, "hour-range", Nop),
       Opt(C("12:60:00"), 1, "minute", Nop), Opt(C("12:30:61"), 1, "second", Nop), Opt(C("123061"), 1, "second", Nop),
       Opt(C("12:3045"), 1, "time-separator-mixing", Nop), Opt(C("1230:45"), 1, "time-separator-mixing", Nop),
       Opt(C("1:30"), 1, "hour-digits", Nop), Opt(C("12:3"), 1, "minute", Nop), Opt(C("12:30:"), 1, "second", Nop)>>

GenFracs == <<"5", "123", "000000001", "999999999", "120", "000001">>
FracNs(t) == DV(C(t), 1, Len(t)) * Pow10I(9 - Len(t))
FracOpts ==
  <<Opt(<<>>, 0, "", [hasfr |-> FALSE, fr |-> 0])>>
  \o [i \in 1..Len(GenFracs) |-> Opt(C("." \o GenFracs[i]), 1, "", [hasfr |-> TRUE, fr |-> FracNs(GenFracs[i])])]
  \o [i \in 1..Len(GenFracs) |-> Opt(C("," \o GenFracs[i]), 2, "", [hasfr |-> TRUE, fr |-> FracNs(GenFracs[i])])]
  \o <<Opt(C(".1234567891"), 1, "fraction-over-9-digits", Nop), Opt(C(",0000000000"), 1, "fraction-over-9-digits", Nop),
       Opt(C("."), 1, "fraction-no-digits", Nop)>>

GenOffs == <<<<1, 0, 0>>, <<-1, 0, 0>>, <<1, 5, 30>>, <<-1, 12, 45>>, <<-1, 1, 0>>, <<1, 23, 59>>, <<-1, 5, 0>>>>
SgT(sg) == IF sg < 0 THEN "-" ELSE "+"
NumOff(v, form, s, fr, t) ==
  Opt(C(t), 1 + Cost(form = "H:M") + Cost(s = 0 /\ fr = 0), "",
      [offk |-> "num", osg |-> v[1], oh |-> v[2], om |-> v[3], os |-> s, ofr |-> fr, osub |-> form \in {"H:M:S", "HMS"}, oform |-> form])
OffOptsNum ==
  [i \in 1..Len(GenOffs) |-> LET v == GenOffs[i] IN NumOff(v, "H:M", 0, 0, SgT(v[1]) \o Pad2(v[2]) \o ":" \o Pad2(v[3]))]
  \o [i \in 1..Len(GenOffs) |-> LET v == GenOffs[i] IN NumOff(v, "HM", 0, 0, SgT(v[1]) \o Pad2(v[2]) \o Pad2(v[3]))]
  \o [i \in 1..Len(GenOffs) |-> LET v == GenOffs[i] IN
        IF v[3] = 0 THEN NumOff(v, "H", 0, 0, SgT(v[1]) \o Pad2(v[2])) ELSE NumOff(v, "H:M:S", 0, 0, SgT(v[1]) \o Pad2(v[2]) \o ":" \o Pad2(v[3]) \o ":00")]
  \o [i \in 1..Len(GenOffs) |-> LET v == GenOffs[i] IN NumOff(v, "H:M:S", 15, 0, SgT(v[1]) \o Pad2(v[2]) \o ":" \o Pad2(v[3]) \o ":15")]
  \o [i \in 1..Len(GenOffs) |-> LET v == GenOffs[i] IN NumOff(v, "HMS", 59, 500000000, SgT(v[1]) \o Pad2(v[2]) \o Pad2(v[3]) \o "59.5")]
  \o [i \in 1..Len(GenOffs) |-> LET v == GenOffs[i] IN NumOff(v, "H:M:S", 0, 1, SgT(v[1]) \o Pad2(v[2]) \o ":" \o Pad2(v[3]) \o ":00,000000001")]
OffBad == <<Opt(C("+24:00"), 1, "offset-hour", Nop), Opt(C("+05:60"), 1, "offset-minute", Nop), Opt(C("+05:30:60"), 1, "offset-second", Nop),
            Opt(C("+0530:15"), 1, "offset-separator-mixing", Nop), Opt(C("+05:3015"), 1, "offset-separator-mixing", Nop),
            Opt(C("+05:30:15.1234567891"), 1, "offset-fraction-over-9-digits", Nop), Opt(C("+5:30"), 1, "offset-hour", Nop),
            Opt(C("+05:"), 1, "offset-minute", Nop), Opt(C("+05:30:"), 1, "offset-second", Nop), Opt(C("+05301"), 1, "offset-second", Nop),
            Opt(C("+053099"), 1, "offset-second", Nop)>>
OffOpts == <<Opt(<<>>, 0, "", [offk |-> "none"]), Opt(<<"Z">>, 1, "", [offk |-> "z"]), Opt(<<"z">>, 2, "", [offk |-> "z"])>> \o OffOptsNum \o OffBad

GenZoneNames == <<"UTC", "America/New_York", "Etc/GMT+5", "Europe/Isle_of_Man", "a", "_x/.y-z", "America/Argentina/ComodRivadavia">>
TzText(crit, t) == C("[" \o (IF crit THEN "!" ELSE "") \o t \o "]")
TzOpts(c) ==
  <<Opt(<<>>, 0, "", [tzk |-> "none"])>>
  \o (IF c.offk = "num" /\ c.os = 0 /\ c.ofr = 0
      THEN <<Opt(TzText(FALSE, OffsetText(c.osg * (c.oh * 60 + c.om))), 1, "", [tzk |-> "offset", tzmin |-> c.osg * (c.oh * 60 + c.om), tzcrit |-> FALSE])>>
      ELSE <<>>)
  \o [i \in 1..Len(GenZoneNames) |-> Opt(TzText(FALSE, GenZoneNames[i]), 1 + Cost(i = 1), "", [tzk |-> "name", tzid |-> C(GenZoneNames[i]), tzcrit |-> FALSE])]
  \o <<Opt(TzText(TRUE, "UTC"), 2, "", [tzk |-> "name", tzid |-> C("UTC"), tzcrit |-> TRUE])>>
  \o [i \in 1..Len(GenOffs) |-> LET v == GenOffs[i] IN
        Opt(TzText(FALSE, SgT(v[1]) \o Pad2(v[2]) \o ":" \o Pad2(v[3])), 2, "", [tzk |-> "offset", tzmin |-> v[1] * (v[2] * 60 + v[3]), tzcrit |-> FALSE])]
  \o <<Opt(TzText(TRUE, "+05:30"), 2, "", [tzk |-> "offset", tzmin |-> 330, tzcrit |-> TRUE]),
       Opt(TzText(FALSE, "+0530"), 2, "", [tzk |-> "offset", tzmin |-> 330, tzcrit |-> FALSE]),
       Opt(TzText(FALSE, "-05"), 2, "", [tzk |-> "offset", tzmin |-> -300, tzcrit |-> FALSE]),
       Opt(TzText(FALSE, "+05:30:15"), 1, "tz-annotation-sub-minute-offset", Nop), Opt(TzText(FALSE, "+053015"), 1, "tz-annotation-sub-minute-offset", Nop),
       Opt(C("[UTC"), 1, "annotation-unclosed", Nop), Opt(C("[]"), 1, "annotation-empty", Nop), Opt(C("[!]"), 1, "annotation-empty", Nop),
       Opt(TzText(FALSE, "U TC"), 1, "tz-annotation-name", Nop), Opt(TzText(FALSE, "America//X"), 1, "tz-annotation-name", Nop),
       Opt(TzText(FALSE, "/UTC"), 1, "tz-annotation-name", Nop), Opt(TzText(FALSE, "UTC/"), 1, "tz-annotation-name", Nop),
       Opt(TzText(FALSE, "Etc/+5"), 1, "tz-annotation-name", Nop), Opt(TzText(FALSE, "1UTC"), 1, "tz-annotation-name", Nop),
       Opt(TzText(FALSE, "+05:30x"), 1, "tz-annotation-offset-junk", Nop), Opt(TzText(FALSE, "+24:00"), 1, "tz-annotation-offset-hour", Nop),
       Opt(C("[UTC]]"), 1, "trailing-junk", Nop), Opt(C("[[UTC]"), 1, "tz-annotation-name", Nop)>>

AnnGood == <<  \* text, cost, first calendar value (lower-cased), one-character key?, one-character value?
  <<"[u-ca=iso8601]", 1, "iso8601", FALSE, FALSE>>, <<"[u-ca=gregory]", 1, "gregory", FALSE, FALSE>>, <<"[u-ca=hebrew]", 2, "hebrew", FALSE, FALSE>>,
  <<"[!u-ca=iso8601]", 2, "iso8601", FALSE, FALSE>>, <<"[!u-ca=gregory]", 2, "gregory", FALSE, FALSE>>,
  <<"[u-ca=ISO8601]", 2, "iso8601", FALSE, FALSE>>, <<"[u-ca=Gregory]", 2, "gregory", FALSE, FALSE>>,
  <<"[u-ca=islamic-civil]", 2, "islamic-civil", FALSE, FALSE>>, <<"[u-ca=foobar]", 2, "foobar", FALSE, FALSE>>,
  <<"[u-ca=iso8601][u-ca=gregory]", 2, "iso8601", FALSE, FALSE>>, <<"[u-ca=gregory][u-ca=iso8601]", 2, "gregory", FALSE, FALSE>>,
  <<"[foo=bar]", 1, "", FALSE, FALSE>>, <<"[foo=bar][u-ca=gregory]", 2, "gregory", FALSE, FALSE>>, <<"[u-ca=iso8601][foo=bar]", 2, "iso8601", FALSE, FALSE>>,
  <<"[_x-1=a1-B2]", 2, "", FALSE, FALSE>>, <<"[foo=ba-r]", 2, "", FALSE, FALSE>>, <<"[x=bar]", 2, "", TRUE, FALSE>>, <<"[foo=b]", 2, "", FALSE, TRUE>>, <<"[u-cal=gregory]", 2, "", FALSE, FALSE>> >>
AnnBad == <<
  <<"[!foo=bar]", "unknown-critical-annotation">>, <<"[u-ca=iso8601][!foo=bar]", "unknown-critical-annotation">>,
  <<"[u-ca=iso8601][!u-ca=gregory]", "calendar-annotations-critical-conflict">>, <<"[!u-ca=iso8601][u-ca=gregory]", "calendar-annotations-critical-conflict">>,
  <<"[!u-ca=iso8601][!u-ca=iso8601]", "calendar-annotations-critical-conflict">>, <<"[u-ca=gregory][foo=bar][!u-ca=gregory]", "calendar-annotations-critical-conflict">>,
  <<"[Foo=bar]", "annotation-key">>, <<"[1foo=bar]", "annotation-key">>, <<"[fo.o=bar]", "annotation-key">>, <<"[=bar]", "annotation-key">>, <<"[U-CA=iso8601]", "annotation-key">>,
  <<"[foo=]", "annotation-value">>, <<"[foo=ba_r]", "annotation-value">>, <<"[foo=-bar]", "annotation-value">>, <<"[foo=bar-]", "annotation-value">>,
  <<"[foo=ba--r]", "annotation-value">>, <<"[foo=b=r]", "annotation-value">>, <<"[foo=bar!]", "annotation-value">>, <<"[!!foo=bar]", "annotation-key">>,
  <<"[foo=bar][UTC]", "time-zone-annotation-not-first">>, <<"[u-ca=iso8601][+05:30]", "time-zone-annotation-not-first">>,
  <<"[u-ca=iso8601", "annotation-unclosed">>, <<"[foo=bar]]", "trailing-junk">>, <<"[foo=bar] ", "trailing-junk">> >>
AnnOpts ==
  <<Opt(<<>>, 0, "", [cal |-> <<>>])>>
  \o [i \in 1..Len(AnnGood) |-> LET a == AnnGood[i] IN Opt(C(a[1]), a[2], "", [cal |-> C(a[3]), k1 |-> a[4], v1 |-> a[5], vc1 |-> a[1] = "[foo=ba-r]"])]
  \o [i \in 1..Len(AnnBad) |-> Opt(C(AnnBad[i][1]), 1, AnnBad[i][2], Nop)]

LeadOpts == <<Opt(<<>>, 0, "", Nop), Opt(<<" ">>, 1, "leading-space", Nop), Opt(<<"U+00A0">>, 1, "non-ascii", Nop)>>
TailOpts == <<Opt(<<>>, 0, "", Nop), Opt(<<"x">>, 1, "trailing-junk", Nop), Opt(<<" ">>, 1, "trailing-junk", Nop),
              Opt(<<"U+00E9">>, 1, "non-ascii", Nop), Opt(<<"]">>, 1, "trailing-junk", Nop), Opt(<<"U+0000">>, 1, "non-ascii", Nop)>>
PreOpts == <<Opt(<<>>, 0, "", [des |-> FALSE]), Opt(C("--"), 1, "", [des |-> TRUE]), Opt(C("-"), 1, "month-day-single-hyphen", Nop)>>

(* ---- durations ---- *)
\* one unit slot: absent / a number with its designator (upper or lower case) / mutations
DurNum == <<"1", "0", "15", "00012", "4294967295">>
DurNumVal == <<1, 0, 15, 12, -2>>            \* -2 stands for 2^32 - 1 (resolved in DurStruct)
UnitOpts(field, des, dflt, timeUnit, c) ==
  LET fracBefore == c.dfu # 0
      badLater == IF fracBefore THEN "duration-fraction-not-on-last-unit" ELSE ""
      T == IF timeUnit /\ ~c.dT THEN "T" ELSE ""
      present(txt, val, cost, up) == Opt(C(T \o txt \o (IF up THEN des ELSE LowCh(des))), cost + Cost(fracBefore = FALSE), badLater,
                                         (field :> val) @@ [dT |-> c.dT \/ timeUnit])
  IN <<Opt(<<>>, 1, "", Nop), present(ToString(dflt), dflt, 0, TRUE), present(ToString(dflt), dflt, 1, FALSE)>>
     \o [i \in 1..Len(DurNum) |-> present(DurNum[i], DurNumVal[i], 1 + Cost(~(DurNumVal[i] = -2 /\ timeUnit)), TRUE)]
     \o (IF timeUnit /\ ~fracBefore
         THEN <<Opt(C(T \o ToString(dflt) \o ".5" \o des), 1, "", (field :> dflt) @@ [dT |-> TRUE, dfu |-> (CASE des = "H" -> 5 [] des = "M" -> 6 [] OTHER -> 7), dfr |-> 500000000]),
                Opt(C(T \o "0,000000001" \o des), 2, "", (field :> 0) @@ [dT |-> TRUE, dfu |-> (CASE des = "H" -> 5 [] des = "M" -> 6 [] OTHER -> 7), dfr |-> 1]),
                Opt(C(T \o ToString(dflt) \o ".999999999" \o LowCh(des)), 2, "", (field :> dflt) @@ [dT |-> TRUE, dfu |-> (CASE des = "H" -> 5 [] des = "M" -> 6 [] OTHER -> 7), dfr |-> 999999999]),
                Opt(C(T \o ToString(dflt) \o ".1234567891" \o des), 1, "duration-fraction-over-9-digits", Nop),
                Opt(C(T \o "0.0000000001" \o des), 1, "duration-fraction-over-9-digits", Nop),
                Opt(C(T \o ToString(dflt) \o "." \o des), 1, "duration-fraction-no-digits", Nop)>>
         ELSE <<>>)
     \o (IF ~timeUnit THEN <<Opt(C(ToString(dflt) \o ".5" \o des), 1, "duration-fraction-on-date-unit", Nop)>> ELSE <<>>)
     \o <<Opt(C(T \o ToString(dflt) \o des \o ToString(dflt) \o des), 1, "duration-unit-repeated", Nop),
          Opt(C(T \o des), 1, "duration-junk", Nop),
          Opt(C(T \o ToString(dflt) \o " " \o des), 1, "duration-designator", Nop)>>
DSignOpts == <<Opt(<<>>, 0, "", [dsg |-> 1]), Opt(<<"+">>, 1, "", [dsg |-> 1]), Opt(<<"-">>, 1, "", [dsg |-> -1]), Opt(C("--"), 1, "duration-designator-P", Nop)>>
DPOpts == <<Opt(<<"P">>, 0, "", Nop), Opt(<<"p">>, 1, "", Nop), Opt(<<>>, 1, "duration-designator-P", Nop), Opt(C("PP"), 1, "duration-junk", Nop),
            Opt(C("P"), 1, "duration-empty", [st |-> "done"]), Opt(C("PT"), 1, "duration-T-without-time-part", [st |-> "done"]),
            Opt(C("P1YT"), 1, "duration-T-without-time-part", [st |-> "done"]), Opt(C("P1M1Y"), 1, "duration-unit-order", [st |-> "done"]),
            Opt(C("PT1S1H"), 1, "duration-unit-order", [st |-> "done"]), Opt(C("P1DT1D"), 1, "duration-designator", [st |-> "done"]),
            Opt(C("P1H"), 1, "duration-designator", [st |-> "done"]), Opt(C("P1"), 1, "duration-designator", [st |-> "done"]), Opt(C("PT5"), 1, "duration-designator", [st |-> "done"]), Opt(C("PT1Y"), 1, "duration-designator", [st |-> "done"]),
            Opt(C("P4294967296Y"), 1, "duration-outside-limits", [st |-> "done"]), Opt(C("PT9007199254740992S"), 1, "duration-outside-limits", [st |-> "done"]),
            Opt(C("PT1.5H30M"), 1, "duration-fraction-not-on-last-unit", [st |-> "done"]), Opt(C("PT1.5M2S"), 1, "duration-fraction-not-on-last-unit", [st |-> "done"])>>

(* ---- whole-string goals ---- *)
Whole(f) ==
  CASE f = "off" ->
         <<<<"+00:00", "">>, <<"-00:00", "">>, <<"+05:30", "">>, <<"-12:45", "">>, <<"+0530", "">>, <<"-05", "">>, <<"+23:59", "">>, <<"-2359", "">>,
           <<"+05:30:15", "">>, <<"+053015", "">>, <<"+05:30:00", "">>, <<"-00:00:00.5", "">>,
           <<"+05:30:15.123456789", "">>, <<"-053015,000000001", "">>, <<"+01:30:15.12345678", "">>, <<"+00:00:00,999999999", "">>,
           <<"+05:", "offset-minute">>, <<"+05:30:", "offset-second">>, <<"+05:3012", "offset-separator-mixing">>, <<"+0530:12", "offset-separator-mixing">>,
           <<"+05301", "offset-second">>, <<"+053099", "offset-second">>, <<"+05:30:60", "offset-second">>, <<"05:30", "offset-sign">>, <<"+5", "offset-hour">>, <<"+24:00", "offset-hour">>,
           <<"+05:60", "offset-minute">>, <<"+05:30x", "offset-trailing-junk">>, <<"+05:30 ", "offset-trailing-junk">>, <<" +05:30", "offset-sign">>, <<"+", "offset-hour">>, <<"", "offset-sign">>,
           <<"+05:30:15.", "offset-fraction-no-digits">>, <<"+05:30:15.1234567891", "offset-fraction-over-9-digits">>, <<"+05:30[UTC]", "offset-trailing-junk">>>>
    [] f = "tzname" ->
         <<<<"UTC", "">>, <<"America/New_York", "">>, <<"Etc/GMT+5", "">>, <<"Europe/Isle_of_Man", "">>, <<"a", "">>, <<"_x/.y-z", "">>, <<"utc", "">>, <<"Z", "">>,
           <<"America/Argentina/ComodRivadavia", "">>, <<"America/", "time-zone-name">>, <<"/UTC", "time-zone-name">>, <<"Amer ica", "time-zone-name">>,
           <<"1UTC", "time-zone-name">>, <<"Etc/+5", "time-zone-name">>, <<"UTC]", "time-zone-name">>, <<"[UTC]", "time-zone-name">>, <<"America//New_York", "time-zone-name">>,
           <<"UTC ", "time-zone-name">>, <<"", "time-zone-name">>, <<"U+00DC" , "non-ascii">>>>
    [] f = "mcode" ->
         <<<<"M01", "">>, <<"M12", "">>, <<"M13", "">>, <<"M05L", "">>, <<"M00", "">>, <<"M14", "">>, <<"M99L", "">>,
           <<"m01", "month-code-M">>, <<"M1", "month-code-length">>, <<"M001", "month-code-L">>, <<"M01l", "month-code-L">>, <<"M0A", "month-code-digits">>,
           <<"", "month-code-length">>, <<"M01LL", "month-code-length">>, <<"01M", "month-code-M">>, <<"M 1", "month-code-digits">>, <<"M01 ", "month-code-L">>>>
    [] f = "calid" ->
         [i \in 1..Len(KnownCalSeq) |-> <<KnownCalSeq[i], "">>]
         \o <<<<"ISO8601", "">>, <<"Gregory", "">>, <<"HEBREW", "">>, <<"foo", "unknown-calendar">>, <<"", "unknown-calendar">>, <<"iso-8601", "unknown-calendar">>,
              <<"gregory ", "unknown-calendar">>, <<"iso8601x", "unknown-calendar">>, <<"u-ca=iso8601", "unknown-calendar">>>>
WholeChars(t) == IF t = "U+00DC" THEN <<"U+00DC", "n", "i">> ELSE C(t)
WholeOpts(f) == LET w == Whole(f) IN [i \in 1..Len(w) |-> Opt(WholeChars(w[i][1]), 0, w[i][2], [whole |-> w[i][1]])]

HasSec(c) == c.tform \in {"H:M:S", "HMS"}
OptsOf(c) ==
  CASE c.st = "lead" -> LeadOpts
    [] c.st = "year" -> YearOpts
    [] c.st = "md" -> MDOpts(c.y, TRUE)
    [] c.st = "mdd" -> MDOpts(1972, FALSE)
    [] c.st = "mon" -> MonOpts
    [] c.st = "pre" -> PreOpts
    [] c.st = "sep" -> SepOpts
    [] c.st = "des" -> DesOpts
    [] c.st = "time" -> TimeOpts
    [] c.st = "frac" -> FracOpts
    [] c.st = "off" -> OffOpts
    [] c.st = "tz" -> TzOpts(c)
    [] c.st = "ann" -> AnnOpts
    [] c.st = "tail" -> TailOpts
    [] c.st = "dsign" -> DSignOpts
    [] c.st = "dP" -> DPOpts
    [] c.st = "dY" -> UnitOpts("dy", "Y", 1, FALSE, c)
    [] c.st = "dMo" -> UnitOpts("dmo", "M", 2, FALSE, c)
    [] c.st = "dW" -> UnitOpts("dw", "W", 3, FALSE, c)
    [] c.st = "dD" -> UnitOpts("dd", "D", 4, FALSE, c)
    [] c.st = "dH" -> UnitOpts("dh", "H", 5, TRUE, c)
    [] c.st = "dMi" -> UnitOpts("dmi", "M", 6, TRUE, c)
    [] c.st = "dS" -> UnitOpts("ds", "S", 7, TRUE, c)
    [] c.st = "dtail" -> <<Opt(<<>>, 0, "", Nop), Opt(<<"x">>, 1, "duration-junk", Nop), Opt(<<" ">>, 1, "duration-junk", Nop), Opt(<<"U+00E9">>, 1, "non-ascii", Nop)>>
    [] c.st = "whole" -> WholeOpts(c.form)
    [] OTHER -> <<>>

\* the slot after st, given the state AFTER the choice
NextSt(c) ==
  CASE c.st = "lead" -> (CASE c.form = "dt" -> "year" [] c.form = "time" -> "des" [] c.form = "ym" -> "year" [] OTHER -> "pre")
    [] c.st = "year" -> IF c.form = "dt" THEN "md" ELSE "mon"
    [] c.st = "md" -> "sep"
    [] c.st \in {"mdd", "mon"} -> "tz"
    [] c.st = "pre" -> "mdd"
    [] c.st = "sep" -> IF c.hasTime THEN "time" ELSE "tz"
    [] c.st = "des" -> "time"
    [] c.st = "time" -> IF HasSec(c) THEN "frac" ELSE "off"
    [] c.st = "frac" -> "off"
    [] c.st = "off" -> "tz"
    [] c.st = "tz" -> "ann"
    [] c.st = "ann" -> "tail"
    [] c.st = "tail" -> "done"
    [] c.st = "dsign" -> "dP" [] c.st = "dP" -> "dY" [] c.st = "dY" -> "dMo" [] c.st = "dMo" -> "dW" [] c.st = "dW" -> "dD"
    [] c.st = "dD" -> "dH" [] c.st = "dH" -> "dMi" [] c.st = "dMi" -> "dS" [] c.st = "dS" -> "dtail" [] c.st = "dtail" -> "done"
    [] c.st = "whole" -> "done"

Choose(o) ==
  /\ cur.nv + o.c <= Budget
  /\ o.bad = "" \/ cur.bad = ""
  /\ LET c1 == o.set @@ cur
         c2 == [c1 EXCEPT !.cs = cur.cs \o o.t, !.nv = cur.nv + o.c, !.bad = IF o.bad # "" THEN o.bad ELSE cur.bad]
     IN cur' = IF "st" \in DOMAIN o.set THEN c2 ELSE [c2 EXCEPT !.st = NextSt(c2)]
  /\ UNCHANGED last

GInit == cur \in {Start(f) : f \in GenForms} /\ last = None
GNext == cur.st # "done" /\ \E i \in 1..Len(OptsOf(cur)) : Choose(OptsOf(cur)[i])
GSpec == GInit /\ [][GNext]_gvars
Done == cur.st = "done"

(* ---- what the generator knows about the string it built ---- *)
\* an all-absent duration is the mutation "P alone"
DurEmpty(c) == c.form = "dur" /\ c.dy = -1 /\ c.dmo = -1 /\ c.dw = -1 /\ c.dd = -1 /\ c.dh = -1 /\ c.dmi = -1 /\ c.ds = -1
IsBad(c) == c.bad # "" \/ (c.st = "done" /\ DurEmpty(c) /\ "P" \in {c.cs[k] : k \in 1..Len(c.cs)} \cup {"p"})
GenStruct(c) ==
  [ok |-> TRUE, form |-> c.form,
   date |-> CASE c.form = "dt" -> Date(c.y, c.m, c.d) [] c.form = "ym" -> Date(c.y, c.m, 1) [] c.form = "md" -> Date(1972, c.m, c.d) [] OTHER -> Date(0, 0, 0),
   time |-> IF c.hasTime THEN [has |-> TRUE, h |-> c.h, mi |-> c.mi, s |-> c.s, fr |-> c.fr] ELSE NoTime,
   off |-> IF c.offk = "num" THEN [k |-> "num", sg |-> c.osg, h |-> c.oh, m |-> c.om, s |-> c.os, fr |-> c.ofr, sub |-> c.osub] ELSE [k |-> c.offk],
   tz |-> CASE c.tzk = "none" -> NoTz [] c.tzk = "offset" -> [k |-> "offset", min |-> c.tzmin, crit |-> c.tzcrit]
            [] OTHER -> [k |-> "name", id |-> c.tzid, crit |-> c.tzcrit],
   cal |-> c.cal, des |-> c.des, k1 |-> c.k1, v1 |-> c.v1, vc1 |-> c.vc1]
\* duration fields the generator put in, as exact totals
DVal32(v) == IF v = -2 THEN Sub(Two32, FromInt(1)) ELSE IF v = -1 THEN Zero ELSE FromInt(v)
DurFracNs(c) == MulSmall(FromInt(c.dfr), CASE c.dfu = 5 -> 3600 [] c.dfu = 6 -> 60 [] OTHER -> 1)
GenDurTimeNs(c) == Add(K9(Add(Add(MulSmall(DVal32(c.dh), 3600), MulSmall(DVal32(c.dmi), 60)), DVal32(c.ds))), DurFracNs(c))

\* time string without designator that also reads as a year-month or month-day (computed from the parts, not from characters)
GenAmbiguous(c) ==
  /\ c.form = "time" /\ ~c.des /\ ~c.hasfr
  /\ \/ c.tform = "H" /\ c.offk = "num" /\ c.osg = -1 /\ c.oform = "H" /\ c.h \in 1..12 /\ c.oh >= 1 /\ c.oh <= DIM(1972, c.h)
     \/ c.tform = "HM" /\ c.offk = "none" /\ c.h \in 1..12 /\ c.mi >= 1 /\ c.mi <= DIM(1972, c.h)
     \/ c.tform = "HM" /\ c.offk = "num" /\ c.osg = -1 /\ c.oform = "H" /\ c.oh \in 1..12
     \/ c.tform = "HMS" /\ c.offk = "none" /\ c.s \in 1..12
CalKnownG(c) == c.cal = <<>> \/ c.cal \in KnownCalChars
CalIsoG(c) == c.cal = <<>> \/ c.cal = C("iso8601")
MidYear(c) == c.y > -200000 /\ c.y < 200000
OffsetAgrees(c) == c.offk \in {"none", "z"} \/ (c.offk = "num" /\ c.osg * (c.oh * 3600 + c.om * 60 + c.os) = c.tzmin * 60 /\ c.ofr = 0)
DateTypes == Types \ {"Duration"}
\* types whose parser must accept / must reject the finished string, from the generator's own knowledge
MustAccept(c) ==
  IF IsBad(c) THEN {} ELSE
  CASE c.form = "dt" ->
         (IF c.offk # "z" /\ CalKnownG(c) /\ MidYear(c) THEN {"PlainDate", "PlainDateTime", "PlainYearMonth", "PlainMonthDay"} ELSE {})
         \cup (IF c.offk # "z" /\ c.hasTime THEN {"PlainTime"} ELSE {})
         \cup (IF c.hasTime /\ c.offk # "none" /\ MidYear(c) THEN {"Instant"} ELSE {})
         \cup (IF c.tzk = "offset" /\ OffsetAgrees(c) /\ CalKnownG(c) /\ MidYear(c) THEN {"ZonedDateTime"} ELSE {})
    [] c.form = "time" -> IF c.offk # "z" /\ ~GenAmbiguous(c) THEN {"PlainTime"} ELSE {}
    [] c.form = "ym" -> IF CalIsoG(c) /\ MidYear(c) THEN {"PlainYearMonth"} ELSE {}
    [] c.form = "md" -> IF CalIsoG(c) THEN {"PlainMonthDay"} ELSE {}
    [] c.form = "dur" -> {"Duration"}
    [] OTHER -> {}
MustReject(c) ==
  IF c.form \in {"off", "tzname", "mcode", "calid"} THEN {}
  ELSE IF IsBad(c) THEN  \* a mutated string must be refused by every parser whose grammar contains the mutated production
    (CASE c.form = "dt" -> DateTypes \ {"PlainTime"} [] c.form = "time" -> {"PlainTime", "PlainDate", "PlainDateTime", "Instant", "ZonedDateTime"}
       [] c.form = "ym" -> DateTypes \ {"PlainTime", "PlainMonthDay"} [] c.form = "md" -> DateTypes \ {"PlainTime", "PlainYearMonth"} [] OTHER -> Types)
    \cup {"Duration"}
  ELSE IF c.form = "dur" THEN DateTypes
  ELSE {"Duration"}
       \cup (IF c.offk = "z" THEN {"PlainDate", "PlainDateTime", "PlainTime", "PlainYearMonth", "PlainMonthDay"} ELSE {})
       \cup (IF c.form # "dt" THEN {"PlainDate", "PlainDateTime", "Instant", "ZonedDateTime"} ELSE {})
       \cup (IF ~c.hasTime \/ c.offk = "none" THEN {"Instant"} ELSE {})
       \cup (IF c.tzk = "none" THEN {"ZonedDateTime"} ELSE {})
       \cup (IF c.form = "ym" /\ ~CalIsoG(c) THEN {"PlainYearMonth"} ELSE {})
       \cup (IF c.form = "md" /\ ~CalIsoG(c) THEN {"PlainMonthDay"} ELSE {})
       \cup (IF GenAmbiguous(c) THEN {"PlainTime"} ELSE {})
       \cup (IF c.tzk = "offset" /\ ~OffsetAgrees(c) THEN {"ZonedDateTime"} ELSE {})

(* ---- invariants of the generator model: generator <= recognizer, mutations rejected ---- *)
FormGoal(f) == CASE f = "dt" -> "PlainDate" [] f = "time" -> "PlainTime" [] f = "ym" -> "PlainYearMonth" [] f = "md" -> "PlainMonthDay"
FormParse(f, c) == CASE f = "dt" -> ParseDT(c) [] f = "time" -> ParseTimeForm(c) [] f = "ym" -> ParseYMForm(c) [] f = "md" -> ParseMDForm(c)
\* the recognizer recovers from the characters exactly the structure the generator put in
StructureRecovered ==
  (Done /\ ~IsBad(cur) /\ cur.form \in {"dt", "time", "ym", "md"} /\ ~GenAmbiguous(cur)) => FormParse(cur.form, cur.cs) = GenStruct(cur)
DurationRecovered ==
  (Done /\ ~IsBad(cur) /\ cur.form = "dur") =>
     LET R == ParseDur(cur.cs)
         D == R.dur
         S(b) == IF cur.dsg = -1 THEN Neg(b) ELSE b
     IN /\ R.ok
        /\ D.y = S(DVal32(cur.dy)) /\ D.mo = S(DVal32(cur.dmo)) /\ D.w = S(DVal32(cur.dw)) /\ D.d = S(DVal32(cur.dd)) /\ D.h = S(DVal32(cur.dh))
        /\ TimeNs(D) = S(GenDurTimeNs(cur))
        /\ SignUniform(D)
        /\ AbsLe(D.ms, 999) /\ AbsLe(D.us, 999) /\ AbsLe(D.ns, 999)
        /\ (cur.dfu = 5 => AbsLe(D.mi, 59) /\ AbsLe(D.s, 59)) /\ (cur.dfu = 6 => AbsLe(D.s, 59))
GeneratedAccepted == Done => \A ty \in MustAccept(cur) : Outcome(ty, cur.cs).kind = "ok"
MutationsRejected == Done => \A ty \in MustReject(cur) : Outcome(ty, cur.cs).kind = "range"
SmallGoals ==
  (Done /\ cur.form \in {"off", "tzname", "mcode", "calid"}) =>
    LET goals == CASE cur.form = "off" -> {"UtcOffset", "TimeZoneId"} [] cur.form = "tzname" -> {"TimeZoneId", "TimeZone"}
                   [] cur.form = "mcode" -> {"MonthCode"} [] OTHER -> {"Calendar"}
    IN \A g \in goals : LET o == Outcome(g, cur.cs) IN
         IF cur.bad # "" THEN o.kind = "range" \/ (g = "TimeZone" /\ cur.form = "off")
         ELSE o.kind \in {"ok", "any"} \/ (g = "TimeZoneId" /\ cur.form = "off" /\ o.why = "sub-minute-offset-as-time-zone")
\* every outcome is one of the three kinds and an accepted value is well-formed
OutcomesWellFormed ==
  (Done /\ cur.form \in {"dt", "time", "ym", "md", "dur"}) =>
     \A ty \in Types : LET o == Outcome(ty, cur.cs) IN
        /\ o.kind \in {"ok", "range", "any"}
        /\ (ty = "PlainDate" /\ o.kind = "ok") => ValidDate(o.val) /\ InDateRange(DFC(o.val))
        /\ (ty = "Instant" /\ o.kind = "ok") => IsBig(o.val) /\ InstantOK(o.val)

\* goals a finished string is replayed against
GoalsOf(c) == CASE c.form \in {"dt", "time", "ym", "md"} -> Types \cup {"TimeZone", "Calendar"}
                [] c.form = "dur" -> Types
                [] c.form = "off" -> {"UtcOffset", "TimeZoneId", "TimeZone"}
                [] c.form = "tzname" -> {"TimeZoneId", "TimeZone"}
                [] c.form = "mcode" -> {"MonthCode"}
                [] OTHER -> {"Calendar"}
=============================================================================
