----------------------------- MODULE MC_Instant -----------------------------
EXTENDS InstantMachine, TLC, Json
One == FromInt(1)
P63 == [s |-> 1, l |-> <<5808, 5477, 368, 3372, 922>>]
MCInsts == {Zero, One, Neg(One), FromInt(999999), FromInt(-999999), FromInt(1000000), FromInt(-1000000), FromInt(-1000001),
            MaxInstantBig, Neg(MaxInstantBig), Sub(MaxInstantBig, One), Add(Neg(MaxInstantBig), One),
            K9(FromInt(1700000000)), Neg(K9(FromInt(1700000000))), Add(K9(FromInt(-86400)), FromInt(-1)),
            \* +-2^63 ns and 2^63 - 1: differences from zero that are the extremes of a 64-bit integer
            P63, Neg(P63), Sub(P63, One),
            \* differences between 2^53 and 2^54 ns (104 to 208 days) with every kind of ending (...999, ...001, ...500): not exactly
            \* representable as doubles, and not at a power of two either
            [s |-> 1, l |-> <<4999, 123, 6789, 2345, 1>>], [s |-> -1, l |-> <<4999, 123, 6789, 2345, 1>>], [s |-> 1, l |-> <<4001, 123, 6789, 2345, 1>>], [s |-> 1, l |-> <<500, 0, 0, 5000, 1>>]}
TD(h, mi, s, ms, us, ns) == Dur10(Zero, Zero, Zero, Zero, h, mi, s, ms, us, ns)
\* exactly representable as doubles: 2^70, 2^52, 3 * 2^60 (literal limbs: deep recursion is not available at constant level)
P70 == [s |-> 1, l |-> <<3424, 1130, 7174, 1620, 8059, 11>>]
P52 == [s |-> 1, l |-> <<496, 2737, 5996, 4503>>]
P60x3 == [s |-> 1, l |-> <<928, 2054, 5138, 8764, 345>>]
MCDurs == {TD(Zero, Zero, Zero, Zero, Zero, Zero), TD(Zero, Zero, Zero, Zero, Zero, One), TD(Zero, Zero, Zero, Zero, Zero, Neg(One)),
           TD(One, Zero, Zero, Zero, Zero, Zero), TD(FromInt(-25), Zero, Zero, Zero, Zero, Zero),
           TD(Zero, Zero, Zero, Zero, Zero, P70), TD(Zero, Zero, Zero, Zero, Zero, Neg(P70)),
           TD(Zero, Zero, P52, Zero, Zero, Zero), TD(Zero, Zero, Zero, Zero, Zero, P60x3),
           \* milliseconds, microseconds and nanoseconds all large at once (each below 2^52 ns, together above 2^53 ns, an odd total)
           TD(Zero, Zero, Zero, [s |-> 1, l |-> <<0, 0, 40>>], [s |-> 1, l |-> <<0, 0, 0, 4>>], [s |-> 1, l |-> <<1, 0, 0, 4000>>]),
           TD(Zero, Zero, Zero, [s |-> -1, l |-> <<0, 0, 40>>], [s |-> -1, l |-> <<0, 0, 0, 4>>], [s |-> -1, l |-> <<1, 0, 0, 4000>>]),
           TD(FromInt(2000000000), Zero, Zero, Zero, Zero, Zero), TD(Zero, FromInt(-7), FromInt(-8), FromInt(-9), FromInt(-10), FromInt(-11)),
           Dur10(Zero, Zero, Zero, One, Zero, Zero, Zero, Zero, Zero, Zero), Dur10(Zero, Zero, One, Zero, Zero, Zero, Zero, Zero, Zero, Zero),
           Dur10(Zero, One, Zero, Zero, One, Zero, Zero, Zero, Zero, Zero), Dur10(Neg(One), Zero, Zero, Zero, Zero, Zero, Zero, Zero, Zero, Zero)}
CaseOf ==
  IF last.op = "add" THEN [op |-> "Instant.add", cls |-> "add/" \o last.via, args |-> [recv |-> last.a, dur |-> last.dur, via |-> last.via], out |-> last.out]
  ELSE IF last.op = "subtract" THEN [op |-> "Instant.subtract", cls |-> "subtract/" \o last.via, args |-> [recv |-> last.a, dur |-> last.dur, via |-> last.via], out |-> last.out]
  ELSE IF last.op = "epochMs" THEN [op |-> "Instant.epochMs", cls |-> IF last.a.s < 0 THEN "neg" ELSE "nonneg", args |-> [recv |-> last.a], out |-> last.out]
  ELSE [op |-> "Instant." \o last.op, cls |-> last.op \o "/" \o last.lg, args |-> [recv |-> last.a, other |-> last.b, st |-> [largest |-> last.lg]], out |-> last.out]
Emit == last.op = "none" \/ PrintT("CASE " \o ToJson(CaseOf))
=============================================================================
