------------------------------ MODULE TimeZone ------------------------------
(***************************************************************************)
(* Wall-clock <-> instant conversion in a time zone (C13).                  *)
(* A zone is [init |-> offset, trans |-> <<[at |-> instant, off |-> new     *)
(* offset], ...>>] with strictly increasing `at`. Instants, wall readings    *)
(* and offsets are whole SECONDS relative to a base day (everything fits 32 *)
(* bits); the sub-second part of a value is carried unchanged by every      *)
(* operation here and handled by the callers.                               *)
(* Possible(z, w) is defined by brute force over the zone's offsets - no    *)
(* probing window - and Disambiguate follows Temporal's steps literally.    *)
(***************************************************************************)
EXTENDS Integers, Sequences, FiniteSets, TemporalBase

NT(z) == Len(z.trans)
\* offset in force at instant t: that of the last transition with at <= t, else the initial offset
OffsetAt(z, t) == LET S == {i \in 1..NT(z) : z.trans[i].at <= t}
                  IN IF S = {} THEN z.init ELSE z.trans[CHOOSE i \in S : \A j \in S : j <= i].off
AllOffsets(z) == {z.init} \cup {z.trans[i].off : i \in 1..NT(z)}
Wall(z, t) == t + OffsetAt(z, t)
\* all instants whose wall reading is w (ascending)
PossibleSet(z, w) == {w - o : o \in {o \in AllOffsets(z) : OffsetAt(z, w - o) = o}}
RECURSIVE SortAsc(_)
SortAsc(S) == IF S = {} THEN <<>> ELSE LET m == CHOOSE x \in S : \A y \in S : x <= y IN <<m>> \o SortAsc(S \ {m})
Possible(z, w) == SortAsc(PossibleSet(z, w))

\* segments: i = 0 (before the first transition) .. NT; segment i has offset Off(i), starts at instant Start(i) (or -inf), ends at End(i) (or +inf)
SegOff(z, i) == IF i = 0 THEN z.init ELSE z.trans[i].off
\* wall readings that exist just before / from each transition
\* latest existing wall reading strictly below w, and earliest strictly above w (only used when w itself does not exist)
WallEnds(z) == {z.trans[i].at + SegOff(z, i - 1) - 1 : i \in 1..NT(z)}      \* last wall second of each segment that ends
WallStarts(z) == {z.trans[i].at + z.trans[i].off : i \in 1..NT(z)}           \* first wall second of each segment that starts
Before(z, w) == LET C == {x \in WallEnds(z) : x < w /\ PossibleSet(z, x) # {}} IN CHOOSE x \in C : \A y \in C : y <= x
After(z, w) == LET C == {x \in WallStarts(z) : x > w /\ PossibleSet(z, x) # {}} IN CHOOSE x \in C : \A y \in C : x <= y
\* size of the gap that swallowed w: offsetAfter - offsetBefore (Temporal steps 6-14)
GapOf(z, w) == OffsetAt(z, Possible(z, After(z, w))[1]) - OffsetAt(z, Possible(z, Before(z, w))[1])

\* DisambiguatePossibleEpochNanoseconds
Disambiguate(z, w, dis) ==
  LET P == Possible(z, w)   n == Len(P)
  IN IF n = 1 THEN Ok(P[1])
     ELSE IF n > 1 THEN (IF dis \in {"compatible", "earlier"} THEN Ok(P[1]) ELSE IF dis = "later" THEN Ok(P[n]) ELSE ErrRange)
     ELSE IF dis = "reject" THEN ErrRange
     ELSE LET g == GapOf(z, w)
              Q == Possible(z, IF dis = "earlier" THEN w - g ELSE w + g)
          \* Temporal asserts that the shifted reading exists. In zones whose transitions are packed so tightly that it does not
          \* (the shifted reading falls into another gap) the proposal says nothing: outcome kind "any".
          IN IF Len(Q) = 0 THEN [kind |-> "any"]
             ELSE IF dis = "earlier" THEN Ok(Q[1]) ELSE Ok(Q[Len(Q)])
Classify(z, w) == LET n == Cardinality(PossibleSet(z, w)) IN IF n = 0 THEN "gap" ELSE IF n = 1 THEN "unique" ELSE "overlap"

\* InterpretISODateTimeOffset, whole-second part. offKind: "none" | "z" | "offset" (then `off` is the explicit offset in seconds,
\* exact to the second; matchMinutes: an explicit offset also matches a candidate whose offset rounds (half-expand) to it at minute precision)
RoundToMinute(o) == LET a == AbsI(o)  r == ((a + 30) \div 60) * 60 IN IF o < 0 THEN -r ELSE r
Interpret(z, w, offKind, off, dis, offOpt, matchMinutes) ==
  IF offKind = "z" THEN Ok(w)                                   \* Z denotes the exact UTC instant
  ELSE IF offKind = "none" \/ offOpt = "ignore" THEN Disambiguate(z, w, dis)
  ELSE IF offOpt = "use" THEN Ok(w - off)
  ELSE LET P == Possible(z, w)
           M == {i \in 1..Len(P) : (w - P[i]) = off \/ (matchMinutes /\ RoundToMinute(w - P[i]) = off)}
       IN IF M # {} THEN Ok(P[CHOOSE i \in M : \A j \in M : i <= j])
          ELSE IF offOpt = "reject" THEN ErrRange
          ELSE Disambiguate(z, w, dis)                           \* prefer

\* the same for a property bag (from_partial): the explicit offset has minute precision. Temporal matches it exactly against the
\* candidates' offsets, this crate passes match-minutes; where the two readings differ (a candidate offset with seconds that rounds to
\* the given minutes) nothing is asserted
InterpretBag(z, w, offKind, off, dis, offOpt) ==
  LET exact == Interpret(z, w, offKind, off, dis, offOpt, FALSE)
      rounded == Interpret(z, w, offKind, off, dis, offOpt, TRUE)
  IN IF exact = rounded THEN exact ELSE [kind |-> "any"]

\* two transitions less than a day apart: engines (and Temporal's reference implementation) find the offsets around a gap by
\* looking one day before and after, which is only right when no other transition is that close
CloseTransitions(z) == \E i, j \in 1..NT(z) : i # j /\ AbsI(z.trans[i].at - z.trans[j].at) < 86400

\* first instant of the local calendar day that starts at wall reading d0 (a multiple of 86400 relative to the base)
StartOfDay(z, d0) ==
  LET P == Possible(z, d0)
  IN IF Len(P) > 0 THEN P[1]
     ELSE \* midnight is skipped: the first instant whose wall reading is past d0 = the transition that swallowed it
          LET C == {z.trans[i].at : i \in {i \in 1..NT(z) : z.trans[i].at + SegOff(z, i - 1) <= d0 /\ z.trans[i].at + z.trans[i].off > d0}}
          IN CHOOSE a \in C : \A b \in C : a <= b
\* views of an instant in a zone: toPlainDateTime / toPlainDate / toPlainTime, the offset, Temporal.Now.* with explicit system
\* information, Instant.toZonedDateTimeISO and withTimeZone all read the same wall reading of the same instant
\* (day: whole days relative to the base day; sod: second of the local day)
\* (ti: to_instant; cmp: compare_instant with the zoned date-times one second earlier, equal, one second later - whatever their zone says)
Views(z, t) == LET w == Wall(z, t) IN [t |-> t, w |-> w, day |-> w \div 86400, sod |-> w % 86400, off |-> OffsetAt(z, t), ti |-> t, cmp |-> <<1, 0, -1>>]
\* toString then from_str (offset option reject): the printed offset has minute precision and is matched at minute precision
StringTrip(z, t) == Interpret(z, Wall(z, t), "offset", RoundToMinute(OffsetAt(z, t)), "compatible", "reject", TRUE)
\* toString with a rounding precision (smallestUnit minute / second and a rounding mode): the INSTANT is rounded first, as if positive,
\* and the text shows the wall-clock reading and the (minute-rounded) offset the zone has AT THE ROUNDED INSTANT - which may lie on the
\* other side of a transition.  fd: the tenths of a second the instant carries; unit: 1 or 60 seconds.
RoundedSec(t, fd, unit, mode) ==
  LET rem == (t % unit) * 10 + fd
      up == CASE mode \in {"ceil", "expand"} -> rem > 0
              [] mode \in {"halfExpand", "halfCeil"} -> 2 * rem >= unit * 10
              [] mode \in {"halfTrunc", "halfFloor"} -> 2 * rem > unit * 10
              [] OTHER -> FALSE
  IN t - (t % unit) + (IF up THEN unit ELSE 0)
\* (at minute precision the text has no seconds: those of the wall reading - an offset may have seconds - are dropped)
RoundedText(z, t, fd, unit, mode) == LET r == RoundedSec(t, fd, unit, mode)  w == Wall(z, r) IN [w |-> w - (w % unit), off |-> RoundToMinute(OffsetAt(z, r))]
=============================================================================
