SPECIFICATION Spec
CONSTANTS
  Receivers <- TDateReceivers
  PartialsOf <- TDateP
  FromTypes <- FromDate
  NewArgs <- TDateNew
  IdentityOn = TRUE
  OneStep = TRUE
INVARIANTS UsesOnlySupplied DefaultsAreZero IdentityLaw ClampNearest RejectSound RejectComplete ConstrainComplete RejectRefinesConstrain TypeErrorIff WellFormed
CHECK_DEADLOCK FALSE
