----------------------------- MODULE MC_Duration -----------------------------
EXTENDS DurationMachine, MC_Duration_sets, TLC, Json
NoCands == {}
MCRoundOpts == {o \in [lg : {"day", "hour", "minute", "second", "nanosecond", "absent"}, sm : {"day", "hour", "minute", "second", "millisecond", "nanosecond"}, inc : {1, 2, 3, 5, 8, 30, 250000, 1000000000}, mode : {"halfExpand", "ceil", "floor", "trunc", "halfEven", "halfTrunc"}] :
                  /\ (o.lg = "absent" \/ UnitLe(o.sm, o.lg)) /\ (o.lg = "absent" => o.mode \in {"halfExpand", "trunc"})
                  /\ (o.sm = "hour" => o.inc \in {1, 2, 3, 8}) /\ (o.sm = "day" => o.inc \in {1, 2, 5, 250000, 1000000000}) /\ (o.inc >= 250000 => o.sm = "day" /\ o.lg = "day")
                  \* (8 h: three multiples a day - the parity of a multiple differs between the day and the total)
                  /\ (o.inc \in {3, 8} => o.sm = "hour")
                  /\ (o.sm = "millisecond" => o.inc \in {1, 2, 5}) /\ (o.sm = "nanosecond" => o.inc \in {1, 2, 5})}
Cls == CASE last.op = "new" -> (IF SignUniform(last.d) THEN "uniform" ELSE "mixed") \o (IF last.out.kind = "ok" THEN "/valid" ELSE "/invalid")
         [] last.op = "fromDayAndTime" -> (IF SignUniform(last.d) THEN "uniform" ELSE "mixed") \o (IF last.out.kind = "ok" THEN "/valid" ELSE "/invalid")
         [] last.op = "fromPartial" -> (IF DOMAIN last.p = {} THEN "empty" ELSE IF DOMAIN last.p = DurKeySet THEN "full" ELSE "some") \o "/" \o last.out.kind
         [] last.op \in {"add", "subtract", "compare"} -> (IF HasCalendarUnits(last.a) \/ HasCalendarUnits(last.b) THEN "calendar" ELSE "time") \o "/" \o last.out.kind
         [] last.op = "round" -> last.o.sm \o "/" \o last.o.lg \o "/" \o last.out.kind
         [] last.op = "total" -> last.u \o "/" \o last.out.kind
         [] OTHER -> "-"
Nz == "nz" \in DOMAIN last
CaseOf ==
  CASE last.op = "new" /\ "half" \in DOMAIN last -> [op |-> "Duration.new", cls |-> "non-integral/" \o last.half, args |-> [dur |-> last.d, half |-> last.half], out |-> last.out]
    [] last.op = "new" /\ Nz -> [op |-> "Duration.new", cls |-> Cls \o "/negative-zero", args |-> [dur |-> last.d, nz |-> TRUE], out |-> last.out]
    [] last.op \in {"negated", "abs", "sign"} /\ Nz -> [op |-> "Duration." \o last.op, cls |-> Cls \o "/negative-zero", args |-> [recv |-> last.a, nz |-> TRUE], out |-> last.out]
    [] last.op = "new" -> [op |-> "Duration.new", cls |-> Cls, args |-> [dur |-> last.d], out |-> last.out]
    [] last.op = "fromDayAndTime" -> [op |-> "Duration.fromDayAndTime", cls |-> Cls, args |-> [dur |-> last.d], out |-> last.out]
    [] last.op = "fromPartial" -> [op |-> "Duration.fromPartial", cls |-> Cls, args |-> [p |-> last.p], out |-> last.out]
    [] last.op = "timeInRange" -> [op |-> "Duration.timeInRange", cls |-> IF last.out.val THEN "balanced" ELSE "unbalanced", args |-> [recv |-> last.a], out |-> last.out]
    [] last.op \in {"negated", "abs", "sign"} -> [op |-> "Duration." \o last.op, cls |-> Cls, args |-> [recv |-> last.a], out |-> last.out]
    [] last.op \in {"add", "subtract", "compare"} -> [op |-> "Duration." \o last.op, cls |-> Cls, args |-> [recv |-> last.a, other |-> last.b], out |-> last.out]
    [] last.op = "round" -> [op |-> "Duration.round", cls |-> Cls, args |-> [recv |-> last.a, st |-> IF last.o.lg = "absent" THEN [smallest |-> last.o.sm, inc |-> last.o.inc, mode |-> last.o.mode]
                                                                   ELSE [largest |-> last.o.lg, smallest |-> last.o.sm, inc |-> last.o.inc, mode |-> last.o.mode]], out |-> last.out]
    [] last.op = "total" -> [op |-> "Duration.total", cls |-> Cls, args |-> [recv |-> last.a, unit |-> last.u],
                             out |-> IF last.out.kind = "ok" THEN [kind |-> "ratio", n |-> last.out.val.n, d |-> last.out.val.d] ELSE last.out]
Emit == last.op = "none" \/ PrintT("CASE " \o ToJson(CaseOf))
=============================================================================
