//! Input generation helpers (independent of the code under test).
use crate::js::big;
use crate::rng::Rng;
use serde_json::{json, Value};

pub const MIN_DAY: i64 = -100_000_001;
pub const MAX_DAY: i64 = 100_000_000;

/// Hinnant's civil_from_days; used only to pick inputs.
pub fn civil(n: i64) -> (i64, i64, i64) {
    let z = n + 719_468;
    let era = z.div_euclid(146_097);
    let doe = z.rem_euclid(146_097);
    let yoe = (doe - doe / 1460 + doe / 36_524 - doe / 146_096) / 365;
    let y = yoe + era * 400;
    let doy = doe - (365 * yoe + yoe / 4 - yoe / 100);
    let mp = (5 * doy + 2) / 153;
    let d = doy - (153 * mp + 2) / 5 + 1;
    let m = if mp < 10 { mp + 3 } else { mp - 9 };
    (if m <= 2 { y + 1 } else { y }, m, d)
}
pub fn date_json(n: i64) -> Value { let (y, m, d) = civil(n); json!({"y": y, "m": m, "d": d}) }

/// a day number anywhere in range, biased towards edges, the epoch, year 0 and month ends
pub fn any_day(r: &mut Rng) -> i64 {
    match r.range(0, 9) {
        0 => MIN_DAY + r.range(0, 400),
        1 => MAX_DAY - r.range(0, 400),
        2 => r.range(-800, 800),
        3 => -719_528 + r.range(-800, 800), // around year 0
        4 => { // a month end
            let n = r.range(MIN_DAY + 40, MAX_DAY - 40);
            let (_, _, d) = civil(n);
            let mut k = n - d + 1 + 27;
            while civil(k + 1).2 != 1 { k += 1; }
            k
        }
        5 => r.range(-40_000, 40_000),
        _ => r.range(MIN_DAY, MAX_DAY),
    }
}

pub fn dur10(y: i128, mo: i128, w: i128, d: i128, h: i128, mi: i128, s: i128, ms: i128, us: i128, ns: i128) -> Value {
    json!({"y": big(y), "mo": big(mo), "w": big(w), "d": big(d), "h": big(h), "mi": big(mi), "s": big(s), "ms": big(ms), "us": big(us), "ns": big(ns)})
}
pub fn date_dur(y: i128, mo: i128, w: i128, d: i128) -> Value { dur10(y, mo, w, d, 0, 0, 0, 0, 0, 0) }

pub fn days_from_civil(y: i64, m: i64, d: i64) -> i64 {
    let y2 = if m <= 2 { y - 1 } else { y };
    let era = y2.div_euclid(400);
    let yoe = y2.rem_euclid(400);
    let mp = (m + 9) % 12;
    let doy = (153 * mp + 2) / 5 + d - 1;
    let doe = yoe * 365 + yoe / 4 - yoe / 100 + doy;
    era * 146_097 + doe - 719_468
}

pub const DAY_NS: i128 = 86_400_000_000_000;
pub const MAX_INSTANT: i128 = 8_640_000_000_000_000_000_000;
pub const TIME_UNITS: [&str; 6] = ["hour", "minute", "second", "millisecond", "microsecond", "nanosecond"];
pub fn unit_ns(u: &str) -> i128 {
    match u { "nanosecond" => 1, "microsecond" => 1_000, "millisecond" => 1_000_000, "second" => 1_000_000_000,
              "minute" => 60_000_000_000, "hour" => 3_600_000_000_000, "day" => DAY_NS, _ => panic!("unit") }
}
pub fn unit_rank(u: &str) -> usize { ["nanosecond", "microsecond", "millisecond", "second", "minute", "hour", "day", "week", "month", "year"].iter().position(|x| *x == u).unwrap() }
pub fn time_json(ns: i128) -> Value {
    assert!((0..DAY_NS).contains(&ns));
    let sod = ns / 1_000_000_000; let sub = ns % 1_000_000_000;
    json!({"h": (sod / 3600) as i64, "mi": ((sod / 60) % 60) as i64, "s": (sod % 60) as i64, "ms": (sub / 1_000_000) as i64, "us": ((sub / 1000) % 1000) as i64, "ns": (sub % 1000) as i64})
}
/// an integer exactly representable as f64, magnitude <= cap: k * 2^e with k < 2^20
pub fn exact_f64_int(r: &mut Rng, cap: i128) -> i128 {
    if cap <= 0 { return 0; }
    let k = r.range(0, (1 << 20) - 1) as i128;
    let mut v = k;
    let e = r.range(0, 70);
    for _ in 0..e { if v * 2 > cap { break; } v *= 2; }
    v.min(cap)
}
pub fn divisors(m: i64) -> Vec<i64> { (1..=m).filter(|d| m % d == 0).collect() }
/// admissible rounding increments of a unit for time-of-day style rounding (divide the parent, exclusive)
pub fn time_incs(u: &str) -> Vec<i64> {
    let m = match u { "hour" => 24, "minute" | "second" => 60, _ => 1000 };
    divisors(m).into_iter().filter(|d| *d < m).collect()
}
pub const MODES: [&str; 9] = ["ceil", "floor", "expand", "trunc", "halfCeil", "halfFloor", "halfExpand", "halfTrunc", "halfEven"];
/// a remainder in [0, n) with exact multiples, ties and tie +- 1 over-sampled
pub fn tie_biased_rem(r: &mut Rng, n: i128) -> i128 {
    let v = match r.range(0, 9) { 0 => 0, 1 => 1, 2 => n / 2, 3 => n / 2 - 1, 4 => n / 2 + 1, 5 => n - 1, 6 => (n - 1) / 2, _ => r.range128(0, n - 1) };
    v.clamp(0, n - 1)
}
