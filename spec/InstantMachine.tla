--------------------------- MODULE InstantMachine ---------------------------
(* Session state machine over Instant and the laws of C06 for instants. *)
EXTENDS Instant
CONSTANTS Insts, Durs, OneStep        \* Insts: bigs; Durs: Dur10 records
VARIABLES cur, last
vars == <<cur, last>>
None == [op |-> "none"]
Init == cur \in Insts /\ last = None
Move(o) == IF o.kind = "ok" THEN o.val ELSE cur
\* via "td": the twin entry points add_time_duration / subtract_time_duration, which take the time part alone
AddAct(D, via) == (via = "td" => ~HasDateUnits(D)) /\ LET o == InstantAdd(cur, D) IN last' = [op |-> "add", a |-> cur, dur |-> D, via |-> via, out |-> o] /\ cur' = Move(o)
SubAct(D, via) == (via = "td" => ~HasDateUnits(D)) /\ LET o == InstantSub(cur, D) IN last' = [op |-> "subtract", a |-> cur, dur |-> D, via |-> via, out |-> o] /\ cur' = Move(o)
DiffAct(b, lg, since) == /\ last' = [op |-> IF since THEN "since" ELSE "until", a |-> cur, b |-> b, lg |-> lg,
                                    out |-> InstantDiff(cur, b, lg, "nanosecond", 1, "trunc", since)]
                         /\ cur' = b
MsAct == last' = [op |-> "epochMs", a |-> cur, out |-> Ok(EpochMs(cur))] /\ cur' = cur
Next == /\ (OneStep => last = None)
        /\ \/ \E D \in Durs, via \in {"dur", "td"} : AddAct(D, via) \/ SubAct(D, via)
           \/ \E b \in Insts, lg \in {"hour", "minute", "second", "millisecond", "microsecond", "nanosecond"}, s \in BOOLEAN : DiffAct(b, lg, s)
           \/ MsAct
Spec == Init /\ [][Next]_vars

CurInRange == InInstantRange(cur)
AddLaws == last.op \in {"add", "subtract"} =>
  /\ (HasDateUnits(last.dur) => last.out = ErrRange)
  /\ (last.out.kind = "ok" => /\ InInstantRange(last.out.val)
                              /\ Eq(Sub(last.out.val, last.a), IF last.op = "add" THEN TimeNs(last.dur) ELSE Neg(TimeNs(last.dur))))
  /\ (last.op = "subtract" => last.out = InstantAdd(last.a, NegDur(last.dur)))
FieldsExact(D) == \A f \in {D.h, D.mi, D.s, D.ms, D.us, D.ns} : Le(Abs(f), TwoTo53)
DiffLaws == last.op \in {"until", "since"} =>
  LET D == last.out.val   U == IF last.op = "since" THEN NegDur(D) ELSE D   exact == Sub(last.b, last.a)
  IN /\ SignUniform(D) /\ ~HasDateUnits(D)
     \* fields are doubles: exact whenever every field is within 2^53, otherwise within relative error 2^-53
     /\ (FieldsExact(D) => Eq(TimeNs(U), exact) /\ InstantAdd(last.a, U) = Ok(last.b))
     /\ Le(Mul(Abs(Sub(TimeNs(U), exact)), TwoTo53), Abs(exact))
\* floor, not truncate: ms * 1e6 <= ns < (ms + 1) * 1e6
MsLaw == last.op = "epochMs" =>
  /\ Le(K6(last.out.val), last.a) /\ Lt(last.a, K6(Add(last.out.val, FromInt(1))))
=============================================================================
