//! impl -> spec: seeded drivers that run sessions against the real API and write NDJSON traces.
use crate::ops;
use crate::rng::Rng;
use serde_json::{json, Value};
use std::io::Write;

pub mod c01;
pub mod c02;
pub mod c03;
pub mod c04;
pub mod c05;
pub mod c06;
pub mod c07;
pub mod c08;
pub mod c09;
pub mod c10;
pub mod c11;
pub mod c12;
pub mod c13;
pub mod c14;
pub mod c15;
pub mod c16;
pub mod c17;
pub mod c18;
pub mod c19;
pub mod c20;

pub struct Tracer { f: std::io::BufWriter<std::fs::File>, pub n: usize }
/// the call in flight (for the watchdog): a call that does not return within WATCHDOG_S is logged with outcome kind
/// "timeout" (the property "no operation loops without bound") and the recording ends there
static IN_FLIGHT: std::sync::Mutex<Option<(std::time::Instant, String)>> = std::sync::Mutex::new(None);
pub fn watchdog_secs() -> u64 { std::env::var("VERIF_WATCHDOG_S").ok().and_then(|s| s.parse().ok()).unwrap_or(60) }
impl Tracer {
    pub fn call(&mut self, op: &str, args: Value) -> Value {
        *IN_FLIGHT.lock().unwrap_or_else(|e| e.into_inner()) = Some((std::time::Instant::now(), json!({"op": op, "args": args, "out": {"kind": "timeout"}}).to_string()));
        let out = std::panic::catch_unwind(std::panic::AssertUnwindSafe(|| ops::exec(op, &args)))
            .unwrap_or_else(|p| json!({"kind": "harness-error", "what": p.downcast_ref::<String>().cloned().or_else(|| p.downcast_ref::<&str>().map(|s| s.to_string())).unwrap_or_default()}));
        *IN_FLIGHT.lock().unwrap_or_else(|e| e.into_inner()) = None;
        writeln!(self.f, "{}", json!({"op": op, "args": args, "out": out})).unwrap();
        self.n += 1;
        out
    }
    pub fn reset(&mut self) { writeln!(self.f, "{}", json!({"op": "reset"})).unwrap(); self.n += 1; self.f.flush().unwrap(); }
}

pub fn main(a: &[String]) {
    let driver = a[0].as_str();
    let seed: u64 = a[1].parse().expect("seed");
    let n: usize = a[2].parse().expect("n");
    let mut t = Tracer { f: std::io::BufWriter::new(std::fs::File::create(&a[3]).expect("out")), n: 0 };
    let mut r = Rng::new(seed);
    let f: fn(&mut Tracer, &mut Rng, usize) = match driver {
        "c01" => c01::drive,
        "c02" => c02::drive,
        "c03" => c03::drive,
        "c04" => c04::drive,
        "c05" => c05::drive,
        "c06" => c06::drive,
        "c07" => c07::drive,
        "c07f" => c07::drive_tostring,
        "c08" => c08::drive,
        "c18r" => c08::drive_ym,
        "c09" => c09::drive,
        "c10" => c10::drive,
        "c11" => c11::drive,
        "c12" => c12::drive,
        "c13" => c13::drive,
        "c14" => c14::drive,
        "c15" => c15::drive,
        "c16" => c16::drive,
        "c17" => c17::drive,
        "c18" => c18::drive,
        "c19" => c19::drive,
        "c20" => c20::drive,
        _ => { eprintln!("unknown driver {}", driver); std::process::exit(2); }
    };
    // watchdog: the events written so far are in the BufWriter of the stuck thread, so the driver flushes every 64 events
    // (see Tracer::reset) and the watchdog appends the timed-out event to a side file that the pipeline concatenates
    let side = format!("{}.timeout", &a[3]);
    let _ = std::fs::remove_file(&side);
    std::thread::spawn(move || loop {
        std::thread::sleep(std::time::Duration::from_millis(500));
        let g = IN_FLIGHT.lock().unwrap_or_else(|e| e.into_inner());
        if let Some((t0, line)) = g.as_ref() {
            if t0.elapsed().as_secs() >= watchdog_secs() {
                std::fs::write(&side, format!("{}\n", line)).unwrap();
                println!("{}", json!({"events": 0, "timeout": true}));
                std::process::exit(0);
            }
        }
    });
    f(&mut t, &mut r, n);
    t.f.flush().unwrap();
    println!("{}", json!({"events": t.n}));
}
