----------------------------- MODULE DateArith -----------------------------
(***************************************************************************)
(* Temporal ISO-calendar date arithmetic: AddISODate, DifferenceISODate.    *)
(* Operators in closed form plus a literal transcription of the proposal's  *)
(* candidate loops (checked equal on the model). Pure operators; the        *)
(* session state machine and the laws are in DateArithMachine.              *)
(***************************************************************************)
EXTENDS Gregorian, TemporalBase

BalYM(y, m) == [y |-> y + (m - 1) \div 12, m |-> ((m - 1) % 12) + 1]

\* caps beyond which a single sign-uniform field certainly leaves the range (span = 200 000 001 days)
CapY == 600000
CapMo == 7200000
CapW == 30000000
CapD == 210000000
SmallDateDur(D) == AbsLe(D.y, CapY) /\ AbsLe(D.mo, CapMo) /\ AbsLe(D.w, CapW)

\* whole days contributed by the day + time fields (time balanced into days, truncating): a big
DayPart(D) == Add(D.d, NsToDaysTrunc(TimeNs(D)))

\* AddISODate with ints
AddDateI(a, yrs, mons, wks, days, ovf) ==
  LET ym == BalYM(a.y + yrs, a.m + mons)
      dim == DIM(ym.y, ym.m)
  IN IF ovf = "reject" /\ a.d > dim THEN ErrRange
     ELSE LET d == IF a.d > dim THEN dim ELSE a.d
              n == DaysFromCivil(ym.y, ym.m, d) + 7 * wks + days
          IN IF InDateRange(n) THEN Ok(CivilFromDays(n)) ELSE ErrRange

\* PlainDate.add(duration, overflow): duration must be valid (sign-uniform) - guaranteed by construction of Duration
AddDate(a, D, ovf) ==
  LET dp == DayPart(D)
  IN IF ~SmallDateDur(D) \/ ~AbsLe(dp, CapD) THEN ErrRange
     ELSE AddDateI(a, ToInt(D.y), ToInt(D.mo), ToInt(D.w), ToInt(dp), ovf)
SubDate(a, D, ovf) == AddDate(a, NegDur(D), ovf)

Surpasses(sign, y, m, d, b) == sign * CmpDate(Date(y, m, d), b) = 1     \* unconstrained start day

\* closed form: largest |M| (in direction sign) such that a + M months (day unconstrained) does not surpass b
WholeMonths(a, b, sign) ==
  LET raw == (b.y - a.y) * 12 + (b.m - a.m)
      ym == BalYM(a.y, a.m + raw)
  IN IF Surpasses(sign, ym.y, ym.m, a.d, b) THEN raw - sign ELSE raw

TruncDiv(x, k) == IF x >= 0 THEN x \div k ELSE -((-x) \div k)

\* DifferenceISODate(a, b, largest) -> [y, mo, w, d] ints
Diff(a, b, largest) ==
  LET sign == -CmpDate(a, b)
  IN IF sign = 0 THEN [y |-> 0, mo |-> 0, w |-> 0, d |-> 0]
     ELSE LET M == IF largest \in {"year", "month"} THEN WholeMonths(a, b, sign) ELSE 0
              yrs == IF largest = "year" THEN TruncDiv(M, 12) ELSE 0
              mons == M - 12 * yrs
              ym == BalYM(a.y + yrs, a.m + mons)
              cd == IF a.d > DIM(ym.y, ym.m) THEN DIM(ym.y, ym.m) ELSE a.d
              rest == DFC(b) - DaysFromCivil(ym.y, ym.m, cd)
              wks == IF largest = "week" THEN TruncDiv(rest, 7) ELSE 0
          IN [y |-> yrs, mo |-> mons, w |-> wks, d |-> rest - 7 * wks]

(* literal transcription of the proposal's loops, for checking the closed form on the model *)
RECURSIVE YearsLoop(_, _, _, _, _)
YearsLoop(a, b, sign, cand, acc) ==
  IF Surpasses(sign, a.y + cand, a.m, a.d, b) THEN acc ELSE YearsLoop(a, b, sign, cand + sign, cand)
RECURSIVE MonthsLoop(_, _, _, _, _, _)
MonthsLoop(a, b, sign, yrs, cand, acc) ==
  LET im == BalYM(a.y + yrs, a.m + cand)
  IN IF Surpasses(sign, im.y, im.m, a.d, b) THEN acc ELSE MonthsLoop(a, b, sign, yrs, cand + sign, cand)
RECURSIVE StepLoop(_, _, _, _, _, _)   \* weeks / days: base day number, step size
StepLoop(base, step, bn, sign, cand, acc) ==
  IF sign * (base + step * cand - bn) > 0 THEN acc ELSE StepLoop(base, step, bn, sign, cand + sign, cand)
DiffLiteral(a, b, largest) ==
  LET sign == -CmpDate(a, b)
  IN IF sign = 0 THEN [y |-> 0, mo |-> 0, w |-> 0, d |-> 0]
     ELSE LET cy0 == b.y - a.y
              yrs0 == IF largest \in {"year", "month"}
                      THEN YearsLoop(a, b, sign, IF cy0 # 0 THEN cy0 - sign ELSE 0, 0) ELSE 0
              mons0 == IF largest \in {"year", "month"} THEN MonthsLoop(a, b, sign, yrs0, sign, 0) ELSE 0
              yrs == IF largest = "month" THEN 0 ELSE yrs0
              mons == IF largest = "month" THEN mons0 + 12 * yrs0 ELSE mons0
              ym == BalYM(a.y + yrs, a.m + mons)
              cd == IF a.d > DIM(ym.y, ym.m) THEN DIM(ym.y, ym.m) ELSE a.d
              base == DaysFromCivil(ym.y, ym.m, cd)
              wks == IF largest = "week" THEN StepLoop(base, 7, DFC(b), sign, sign, 0) ELSE 0
              dys == StepLoop(base + 7 * wks, 1, DFC(b), sign, sign, 0)
          IN [y |-> yrs, mo |-> mons, w |-> wks, d |-> dys]

DiffDur(a, b, largest) == LET r == Diff(a, b, largest) IN DateDur(r.y, r.mo, r.w, r.d)
\* since = negated until of the same pair (receiver first), with largest unit
SinceDur(a, b, largest) == LET r == Diff(a, b, largest) IN DateDur(-r.y, -r.mo, -r.w, -r.d)

Balanced(r, largest) ==   \* top-heavy: no lower field could have filled the next unit
  /\ (largest = "year" => AbsI(r.mo) < 12)
  /\ (largest \in {"year", "month"} => AbsI(r.d) <= 31 /\ r.w = 0)
  /\ (largest = "week" => AbsI(r.d) < 7 /\ r.y = 0 /\ r.mo = 0)
  /\ (largest = "day" => r.y = 0 /\ r.mo = 0 /\ r.w = 0)
  /\ (largest = "month" => r.y = 0)
SignOK(r, sign) == \A x \in {r.y, r.mo, r.w, r.d} : x = 0 \/ SgnI(x) = sign
=============================================================================
