---------------------------- MODULE MC_DateArith ----------------------------
EXTENDS DateArithMachine, TLC, Json

Days(lo, hi) == {CivilFromDays(n) : n \in DFC(lo)..DFC(hi)}

\* quick window: dense around a leap and a common February and two year changes, plus all month ends of 2020
QWindow == Days(Date(2019, 12, 28), Date(2020, 3, 2)) \cup Days(Date(2020, 12, 28), Date(2021, 3, 2))
           \cup {Date(2020, m, DIM(2020, m)) : m \in 1..12} \cup {Date(2020, m, 30) : m \in {4, 6, 8, 9, 11}}
\* thorough window: four contiguous years including a leap year
\* (a four-year window is 17 million transitions - hours of TLC; 15 months around a leap day and two year ends is 1.7 million)
TWindow == Days(Date(2019, 12, 1), Date(2021, 3, 5))
\* negative-year window (astronomical year 0 is leap, -1 is not)
NWindow == Days(Date(-1, 12, 25), Date(0, 3, 3)) \cup {Date(-1, 1, 31), Date(-1, 2, 28), Date(0, 12, 31), Date(1, 1, 1), Date(1, 2, 28)}

AllLargest == {"day", "week", "month", "year"}
NoDur == {}
SameSign(a, b) == a = 0 \/ b = 0 \/ SgnI(a) = SgnI(b)
Uniform(D) == SameSign(D.y, D.mo) /\ SameSign(D.y, D.w) /\ SameSign(D.y, D.d) /\ SameSign(D.mo, D.w) /\ SameSign(D.mo, D.d) /\ SameSign(D.w, D.d)
QDurSet == {D \in [y : {-1, 0, 1}, mo : {-14, -13, -12, -11, -2, -1, 0, 1, 2, 11, 12, 13, 14}, w : {-1, 0, 1}, d : {-40, -1, 0, 1, 40}] : Uniform(D)}
TDurSet == {D \in [y : -2..2, mo : -14..14, w : {-1, 0, 1}, d : {-40, -29, -1, 0, 1, 29, 40}] : Uniform(D)}
AddWindow == {Date(2020, m, d) : m \in {1, 2, 3, 12}, d \in {1, 28, 29}} \cup {Date(2020, m, DIM(2020, m)) : m \in 1..12}
             \cup {Date(2019, 12, 31), Date(2021, 1, 31), Date(2021, 2, 28), Date(2020, 8, 30), Date(0, 2, 29), Date(-1, 1, 31)}

Cls == IF last.op \in {"until", "since"}
       THEN last.u \o (IF last.a.d > 28 THEN "/eom" ELSE "/mid") \o (IF CmpDate(last.a, last.b) = 1 THEN "/neg" ELSE "/pos")
       ELSE last.ovf \o (IF last.a.d > 28 THEN "/eom" ELSE "/mid") \o (IF last.out.kind = "ok" THEN "/ok" ELSE "/err")
DI(D) == DateDur(D.y, D.mo, D.w, D.d)
CaseOf ==
  IF last.op = "until" THEN
    [op |-> "PlainDate.until", cls |-> Cls, args |-> [recv |-> last.a, other |-> last.b, st |-> [largest |-> last.u]],
     out |-> Ok(DateDur(last.r.y, last.r.mo, last.r.w, last.r.d))]
  ELSE IF last.op = "since" THEN
    [op |-> "PlainDate.since", cls |-> Cls, args |-> [recv |-> last.a, other |-> last.b, st |-> [largest |-> last.u]],
     out |-> Ok(DateDur(-last.r.y, -last.r.mo, -last.r.w, -last.r.d))]
  ELSE IF last.op = "addTime" THEN
    [op |-> "PlainDate.add", cls |-> "with-time-part/" \o (IF last.tf.short THEN "one-ns-short" ELSE "whole-hours"),
     args |-> [recv |-> last.a, ovf |-> last.ovf,
               dur |-> LET g == last.sg   t == last.tf
                       IN IF t.short THEN Dur10(FromInt(last.dur.y), FromInt(last.dur.mo), FromInt(last.dur.w), FromInt(last.dur.d), FromInt(g * (t.h - 1)), FromInt(g * 59), FromInt(g * 59), FromInt(g * 999), FromInt(g * 999), FromInt(g * 999))
                          ELSE Dur10(FromInt(last.dur.y), FromInt(last.dur.mo), FromInt(last.dur.w), FromInt(last.dur.d), FromInt(g * t.h), Zero, Zero, Zero, Zero, Zero)],
     out |-> last.out]
  ELSE IF last.op = "add" THEN
    [op |-> "PlainDate.add", cls |-> Cls, args |-> [recv |-> last.a, dur |-> DI(last.dur), ovf |-> last.ovf], out |-> last.out]
  ELSE
    [op |-> "PlainDate.subtract", cls |-> Cls, args |-> [recv |-> last.a, dur |-> DI(last.dur), ovf |-> last.ovf], out |-> last.out]
Emit == last.op = "none" \/ PrintT("CASE " \o ToJson(CaseOf))
=============================================================================
