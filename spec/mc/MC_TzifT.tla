------------------------------ MODULE MC_TzifT ------------------------------
(* thorough-tier workloads for the toy instances of MC_Tzif (kept apart: TLC evaluates every constant   *)
(* definition of the root module at start-up, and these sets are large)                                 *)
EXTENDS MC_Tzif

\* lookup window: every tick from before the first toy transition to May 1970, and from October 1970 to April 1971
\* (all table transitions and the first rule transitions of every toy zone)
LookupW == Ticks(-2, 125) \cup Ticks(272, 462)
OffsetQueries == {[zone |-> z, kind |-> "offset", at |-> t] : z \in ToyZones, t \in LookupW}
\* local queries: every wall-clock tick within a day of a table transition or of a rule transition of 1970/71
Centres == {1, 3, 5, 10, 20, 40, 93, 100, 310, 276, 294, 297, 300, 424, 437, 448, 451, 458}
LocalW == UNION {Ticks(c - 1, c + 1) : c \in Centres}
LocalQueries == {[zone |-> z, kind |-> "local", at |-> t] : z \in ToyZones, t \in LocalW}
\* one query per (zone, year): rule laws over every tick of that year
RuleYears == {1972, 2100}
RuleZones == {z \in ToyZones : ToyDisk[z].footer.kind = "rule"}
YearQueries == {[zone |-> z, kind |-> "offset", at |-> P(DaysFromCivil(y, 1, 1), 0)] : z \in ToyZones, y \in RuleYears}
=============================================================================
