//! C02 sessions: operands within a few units of each range limit, results just inside / just outside, durations with huge fields.
use super::Tracer;
use crate::gen::*;
use crate::js::big;
use crate::rng::Rng;
use serde_json::{json, Value};

fn edge_day(r: &mut Rng) -> i64 { if r.chance(1, 2) { MIN_DAY + r.range(0, 40) } else { MAX_DAY - r.range(0, 40) } }
fn dt_json(day: i64, tns: i128) -> Value { let (y, m, d) = civil(day); let t = time_json(tns); json!({"y": y, "m": m, "d": d, "h": t["h"], "mi": t["mi"], "s": t["s"], "ms": t["ms"], "us": t["us"], "ns": t["ns"]}) }
fn edge_tns(r: &mut Rng) -> i128 { match r.range(0, 4) { 0 => 0, 1 => 1, 2 => DAY_NS - 1, 3 => DAY_NS - 1 - r.range(0, 5000) as i128, _ => r.range128(0, DAY_NS - 1) } }
fn in_dt(day: i64, t: i128) -> bool { (day > MIN_DAY || (day == MIN_DAY && t > 0)) && day <= MAX_DAY }

pub fn drive(t: &mut Tracer, r: &mut Rng, n: usize) {
    while t.n < n {
        match r.range(0, 11) {
            0 => { let d = if r.chance(1, 2) { MIN_DAY + r.range(-5, 5) } else { MAX_DAY + r.range(-5, 5) }; t.call("PlainDate.new", json!({"d": date_json(d)})); }
            1 | 2 => { let d = edge_day(r); let target = if r.chance(1, 2) { MIN_DAY + r.range(-3, 3) } else { MAX_DAY + r.range(-3, 3) };
                let delta = if r.chance(1, 6) { *r.pick(&[2147483647i64, -2147483647, 4_000_000_000, 90_000_000_000, -90_000_000_000]) } else { target - d };
                let (op, dd) = if r.chance(1, 2) { ("PlainDate.add", delta) } else { ("PlainDate.subtract", -delta) };
                t.call(op, json!({"recv": date_json(d), "dur": date_dur(0, 0, 0, dd as i128)})); }
            3 => { let d = if r.chance(1, 2) { MIN_DAY + r.range(-2, 2) } else { MAX_DAY + r.range(-2, 2) }; t.call("PlainDateTime.new", json!({"dt": dt_json(d, edge_tns(r))})); }
            4 | 5 => { let mut d = edge_day(r); let mut tn = edge_tns(r); if !in_dt(d, tn) { d = MIN_DAY; tn = 1; }
                // aim at the limit +- a few ns
                let cur = d as i128 * DAY_NS + tn;
                let lim = if r.chance(1, 2) { MIN_DAY as i128 * DAY_NS } else { (MAX_DAY as i128 + 1) * DAY_NS - 1 };
                let delta = lim - cur + r.range(-3, 3) as i128;
                let (op, dd) = if r.chance(1, 2) { ("PlainDateTime.add", delta) } else { ("PlainDateTime.subtract", -delta) };
                // split into days + ns so that the ns field stays exactly representable
                let days = dd / DAY_NS; let rest = dd % DAY_NS;
                t.call(op, json!({"recv": dt_json(d, tn), "dur": dur10(0, 0, 0, days, 0, 0, 0, 0, 0, rest)})); }
            6 => { let d = if r.chance(1, 2) { MAX_DAY - r.range(0, 1) } else { MIN_DAY + r.range(0, 1) }; let u = *r.pick(&["day", "hour", "minute", "second", "millisecond", "microsecond", "nanosecond"]);
                let mut tn = edge_tns(r); if !in_dt(d, tn) { tn = 1; }
                let inc = if u == "day" { 1 } else { *r.pick(&time_incs(u)) };
                t.call("PlainDateTime.round", json!({"recv": dt_json(d, tn), "st": {"smallest": u, "inc": inc, "mode": *r.pick(&MODES)}})); }
            7 => { let d = if r.chance(1, 2) { MIN_DAY + r.range(0, 1) } else { MAX_DAY };
                t.call(*r.pick(&["PlainDate.toPlainDateTime", "PlainDateTime.fromDateAndTime", "PlainDateTime.withTime"]), json!({"recv": date_json(d), "time": time_json(edge_tns(r))}));
                t.call("PlainDate.epochNsUtc", json!({"recv": date_json(d)})); }
            8 => { let v = (if r.chance(1, 2) { MAX_INSTANT } else { -MAX_INSTANT }) + r.range(-3, 3) as i128;
                t.call(if r.chance(1, 2) { "Instant.new" } else { "ZonedDateTime.new" }, json!({"ns": big(v)}));
                let ms = (if r.chance(1, 2) { 8_640_000_000_000_000i128 } else { -8_640_000_000_000_000 }) + r.range(-2, 2) as i128;
                t.call("Instant.fromEpochMs", json!({"ms": big(ms)})); }
            9 => { let cur = (if r.chance(1, 2) { MAX_INSTANT } else { -MAX_INSTANT }) - (if r.chance(1, 2) { 1 } else { -1 }) * 0 + 0;
                let cur = cur.clamp(-MAX_INSTANT, MAX_INSTANT) - cur.signum() * r.range(0, 5000) as i128;
                let lim = if r.chance(1, 2) { MAX_INSTANT } else { -MAX_INSTANT };
                let delta = lim - cur + r.range(-3, 3) as i128;
                // exactly representable pieces: hours + ns
                let h = delta / 3_600_000_000_000; let rest = delta % 3_600_000_000_000;
                let (op, sg) = if r.chance(1, 2) { ("Instant.add", 1) } else { ("Instant.subtract", -1) };
                t.call(op, json!({"recv": big(cur), "dur": dur10(0, 0, 0, 0, sg * h, 0, 0, 0, 0, sg * rest)})); }
            10 => { let u = *r.pick(&["hour", "minute", "second", "millisecond", "microsecond", "nanosecond"]);
                let per_day = DAY_NS / unit_ns(u);
                let cands: Vec<i128> = [1i128, 2, 3, 4, 6, 8, 12, 24, 30, 60, 1000, 3600, 86400].iter().cloned().filter(|d| per_day % d == 0).collect();
                let inc = *r.pick(&cands);
                let cur = (if r.chance(1, 2) { MAX_INSTANT } else { -MAX_INSTANT }); let cur = cur - cur.signum() * r.range128(0, inc * unit_ns(u));
                t.call("Instant.round", json!({"recv": big(cur), "st": {"smallest": u, "inc": inc as i64, "mode": *r.pick(&MODES)}})); }
            _ => { // durations at the limit
                let p53: i128 = 1 << 53;
                let s = p53 - 1 - r.range(0, 2) as i128; let sg: i128 = if r.chance(1, 2) { 1 } else { -1 };
                let a = dur10(0, 0, 0, 0, 0, 0, sg * s, 0, 0, 0);
                let b = dur10(0, 0, 0, 0, 0, 0, sg * r.range(0, 3) as i128, sg * r.range(0, 1000) as i128, 0, sg * r.range(0, 1_000_000_000) as i128);
                t.call("Duration.add", json!({"recv": a, "other": b}));
                t.call("Duration.new", json!({"dur": dur10(0, 0, 0, 0, 0, 0, sg * s, sg * r.range(990, 1010) as i128, sg * 999, sg * r.range(990, 1010) as i128)})); }
        }
        t.reset();
    }
}
