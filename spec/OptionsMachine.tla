--------------------------- MODULE OptionsMachine ---------------------------
(***************************************************************************)
(* Enumerates the option matrix of C10: one state per (operation, largest,  *)
(* smallest, increment) cell, one step per rounding mode (or absent). For   *)
(* accepted cells the expected *result* on separating operands is computed  *)
(* with the value-level specifications, so that the resolved defaults are   *)
(* observable (1.6 units apart: trunc /= halfExpand; since negates).        *)
(***************************************************************************)
EXTENDS Options, DateTimeArith, Duration

OpsAll == {"PlainDate.until", "PlainDate.since", "PlainTime.until", "PlainTime.since", "PlainDateTime.until", "PlainDateTime.since",
           "Instant.until", "Instant.since", "PlainYearMonth.until", "PlainYearMonth.since", "ZonedDateTime.until", "ZonedDateTime.since",
           "Duration.round", "PlainDateTime.round", "PlainTime.round", "Instant.round"}
UnitOpts == UnitSet \cup {Absent, "auto"}
CONSTANTS Ops, Incs, ModeOpts
VARIABLES cell, last
vars == <<cell, last>>
None == [op |-> "none"]
\* (smallestUnit "auto" is enumerated too: it must be rejected everywhere)
Init == cell \in [op : Ops, lg : UnitOpts, sm : UnitOpts, inc : Incs] /\ last = None

IsSince(op) == op \in {"PlainDate.since", "PlainTime.since", "PlainDateTime.since", "Instant.since", "PlainYearMonth.since", "ZonedDateTime.since"}
TypeOf(op) == CASE op \in {"PlainDate.until", "PlainDate.since"} -> "PlainDate" [] op \in {"PlainTime.until", "PlainTime.since"} -> "PlainTime"
                [] op \in {"PlainDateTime.until", "PlainDateTime.since"} -> "PlainDateTime" [] op \in {"Instant.until", "Instant.since"} -> "Instant"
                [] op \in {"ZonedDateTime.until", "ZonedDateTime.since"} -> "ZonedDateTime"
                [] OTHER -> "PlainYearMonth"
\* the duration rounded by Duration.round always has days as its largest unit (existing largest unit day)
ResolveCell(c, mode) ==
  CASE c.op \in {"Duration.round"} -> ResolveDurationRound("day", c.lg, c.sm, c.inc, mode)
    [] c.op = "PlainDateTime.round" -> ResolveDateTimeRound(c.sm, c.inc, mode)
    [] c.op = "PlainTime.round" -> ResolveTimeRound(c.sm, c.inc, mode)
    [] c.op = "Instant.round" -> ResolveInstantRound(c.sm, c.inc, mode)
    [] OTHER -> ResolveDiff(TypeOf(c.op), IsSince(c.op), c.lg, c.sm, c.inc, mode)

\* Operands. They are chosen by the model for each cell, exactly HALF-WAY between two multiples of the resolved increment
\* (value = (m + 1/2) * n with n = increment * unit length; (3n+1)/2 when n is odd), so that every rounding mode - including the
\* half modes, whose negation by `since` only shows on a tie - gives a distinguishable result, and so do the defaults
\* (trunc for differences, halfExpand for round). The harness executes the call on the operands carried by the case.
NsOfCell(r) == IF r.smallest \in TimeUnits \cup {"day"} THEN IncNs(r.inc, r.smallest) ELSE FromInt(1)
HalfUp(n) == TruncDivSmall(Add(n, FromInt(Parity(n))), 2).q                  \* ceil(n / 2)
HalfPastB(n, mB) == Add(Mul(n, mB), HalfUp(n))                                 \* (m + 1/2) * n, rounded up to an integer; m a big
HalfPast(n, m) == HalfPastB(n, FromInt(m))
TA == Time(1, 0, 0, 0, 0, 0)
TimeB(r) == AddNs(TA, HalfPast(NsOfCell(r), 1)).time            \* 1.5 increments after 01:00 (at most 18 h later)
TieTime(r) == AddNs(Midnight, HalfPast(NsOfCell(r), 1)).time     \* 1.5 increments after midnight (within the enclosing unit)
IA == K9(FromInt(1000000))
InstB(r) == Add(IA, HalfPast(NsOfCell(r), 1))
TieInst(r) == Add(Mul(NsOfCell(r), FromInt(1000)), HalfPast(NsOfCell(r), 1))
DA == DT(Date(2020, 1, 15), TA)
DB == DT(Date(2020, 1, 16), Time(2, 36, 36, 600, 600, 600))
TieDT(r) == IF r.smallest = "day" THEN DT(Date(2020, 1, 16), Time(12, 0, 0, 0, 0, 0)) ELSE DT(Date(2020, 1, 16), TieTime(r))
\* a duration of at least one day whose total is (m + 1/2) increments: days + nanoseconds fields
FixedDur(r) == LET n == NsOfCell(r)
                   mB == Add(TruncDivMod(DayNsBig, n).q, FromInt(1))             \* smallest m with (m + 1/2) n >= one day
                   dm == TruncDivMod(HalfPastB(n, mB), DayNsBig)
               IN Dur10(Zero, Zero, Zero, dm.q, Zero, Zero, Zero, Zero, Zero, dm.r)
DefaultDur == Dur10(Zero, Zero, Zero, FromInt(1), FromInt(1), FromInt(36), FromInt(36), FromInt(600), FromInt(600), FromInt(600))
DTJ(x) == [y |-> x.date.y, m |-> x.date.m, d |-> x.date.d, h |-> x.time.h, mi |-> x.time.mi, s |-> x.time.s, ms |-> x.time.ms, us |-> x.time.us, ns |-> x.time.ns]
\* the operands of a cell (defaults when the options are rejected: the call must fail before looking at them)
Rz(r) == IF r.kind = "ok" THEN r ELSE [kind |-> "ok", largest |-> "hour", smallest |-> "nanosecond", inc |-> 1, mode |-> "trunc"]
ZonedOps == {"ZonedDateTime.until", "ZonedDateTime.since"}
Operands(c, r) ==
  CASE c.op \in {"PlainTime.until", "PlainTime.since"} -> [a |-> TA, b |-> TimeB(Rz(r))]
    [] c.op \in {"Instant.until", "Instant.since"} -> [a |-> IA, b |-> InstB(Rz(r))]
    [] c.op \in ZonedOps -> [a |-> IA, b |-> InstB(Rz(r)), oz |-> FALSE]      \* both in UTC; oz: the argument is in +01:00 instead
    [] c.op = "PlainTime.round" -> [a |-> TieTime(Rz(r))]
    [] c.op = "Instant.round" -> [a |-> TieInst(Rz(r))]
    [] c.op = "PlainDateTime.round" -> [a |-> DTJ(TieDT(Rz(r)))]
    [] c.op = "Duration.round" -> [a |-> IF r.kind = "ok" /\ r.smallest \notin CalendarUnits THEN FixedDur(r) ELSE DefaultDur]
    [] c.op \in {"PlainDateTime.until", "PlainDateTime.since"} -> [a |-> DTJ(DA), b |-> DTJ(DB)]
    [] OTHER -> [a |-> 0]
\* expected outcome of the call: a value where the value-level specs decide it, otherwise "ok" (kind only)
OkAny == [kind |-> "ok"]
ExpectedOut(c, r) ==
  IF r.kind # "ok" THEN r
  ELSE CASE c.op \in {"PlainTime.until", "PlainTime.since"} -> PlainTimeDiff(TA, TimeB(r), r.largest, r.smallest, r.inc, IF IsSince(c.op) THEN NegateMode(r.mode) ELSE r.mode, IsSince(c.op))
         [] c.op \in {"Instant.until", "Instant.since"} -> InstantDiff(IA, InstB(r), r.largest, r.smallest, r.inc, IF IsSince(c.op) THEN NegateMode(r.mode) ELSE r.mode, IsSince(c.op))
         \* a zoned difference with a time largest unit is the difference of the two instants, whatever the zones
         [] c.op \in ZonedOps /\ r.largest \in TimeUnits -> InstantDiff(IA, InstB(r), r.largest, r.smallest, r.inc, IF IsSince(c.op) THEN NegateMode(r.mode) ELSE r.mode, IsSince(c.op))
         [] c.op = "PlainTime.round" -> PlainTimeRound(TieTime(r), r.smallest, r.inc, r.mode)
         [] c.op = "Instant.round" -> InstantRound(TieInst(r), r.smallest, r.inc, r.mode)
         [] c.op = "PlainDateTime.round" -> LET o == RoundDT(TieDT(r), r.smallest, r.inc, r.mode) IN Ok(DTJ(o.val))
         [] c.op = "Duration.round" /\ r.largest \notin CalendarUnits /\ r.smallest \notin CalendarUnits -> DurRound(FixedDur(r), r.largest, r.smallest, r.inc, r.mode)
         [] (c.op \in {"PlainDateTime.until", "PlainDateTime.since"} /\ r.smallest = "nanosecond" /\ r.inc = 1) ->
              IF IsSince(c.op) THEN SinceDT(DA, DB, r.largest) ELSE UntilDT(DA, DB, r.largest)
         [] (c.op \in {"PlainDate.until", "PlainDate.since"} /\ r.smallest = "day" /\ r.inc = 1) ->
              Ok(IF IsSince(c.op) THEN SinceDur(Date(2020, 1, 15), Date(2021, 3, 20), r.largest) ELSE DiffDur(Date(2020, 1, 15), Date(2021, 3, 20), r.largest))
         \* no maximum exists for date units: a huge increment is accepted as an option but the computation may leave the range
         [] r.smallest \in DateUnits /\ r.inc >= 1000 -> [kind |-> "any"]
         [] OTHER -> OkAny
\* note: PlainTimeDiff / InstantDiff take the *unnegated* user mode and negate internally for since; ResolveDiff already
\* returned the negated mode for since, hence the double negation above (NegateMode is an involution).

Step(mode) == /\ last = None
              /\ LET r == ResolveCell(cell, mode)
                 IN last' = [op |-> cell.op, mode |-> mode, res |-> r, out |-> ExpectedOut(cell, r), operands |-> Operands(cell, r), same |-> FALSE]
              /\ UNCHANGED cell
\* the same call with the receiver as its own argument: the options are validated all the same (before any shortcut for equal
\* operands), and an accepted call returns the zero duration
DifferenceOps == OpsAll \ {"Duration.round", "PlainDateTime.round", "PlainTime.round", "Instant.round"}
StepSame == /\ last = None /\ cell.op \in DifferenceOps
            /\ LET r == ResolveCell(cell, Absent)
                   o == Operands(cell, r)
               IN last' = [op |-> cell.op, mode |-> Absent, res |-> r, out |-> IF r.kind = "ok" THEN Ok(ZeroDur) ELSE r,
                           operands |-> IF "b" \in DOMAIN o THEN [a |-> o.a, b |-> o.a] ELSE o, same |-> TRUE]
            /\ UNCHANGED cell
\* ZonedDateTime.until / since with the argument in ANOTHER time zone: the *resolved* largest unit decides - a date unit (given, or reached
\* through the default largestUnit = max(hour, smallestUnit)) is a RangeError, a time unit gives the instants' difference
StepOtherZone == /\ last = None /\ cell.op \in ZonedOps
                 /\ LET r == ResolveCell(cell, Absent)
                    IN last' = [op |-> cell.op, mode |-> Absent, res |-> r,
                                out |-> IF r.kind # "ok" THEN r ELSE IF r.largest \in DateUnits THEN ErrRange ELSE ExpectedOut(cell, r),
                                operands |-> [Operands(cell, r) EXCEPT !.oz = TRUE], same |-> FALSE]
                 /\ UNCHANGED cell
\* PlainDateTime.until / since between two times of the SAME calendar date: the options are those of a date-time difference all the same
\* (date units are valid largest and smallest units; the default largest unit is day)
DASame == DT(Date(2020, 1, 15), Time(3, 36, 36, 600, 600, 600))
StepSameDate == /\ last = None /\ cell.op \in {"PlainDateTime.until", "PlainDateTime.since"}
                /\ LET r == ResolveCell(cell, Absent)
                   IN last' = [op |-> cell.op, mode |-> Absent, res |-> r,
                               out |-> IF r.kind # "ok" THEN r ELSE IF r.smallest \in DateUnits /\ r.inc >= 1000 THEN [kind |-> "any"] ELSE OkAny,
                               operands |-> [a |-> DTJ(DA), b |-> DTJ(DASame)], same |-> FALSE]
                /\ UNCHANGED cell
\* the public helper tables of the option enums (Unit::as_nanoseconds / to_maximum_rounding_increment / is_*_unit,
\* RoundingMode::negate / get_unsigned_round_mode): one step per unit (incl. auto) and per mode, independent of the cell
AnchorCell == CHOOSE c \in [op : Ops, lg : UnitOpts, sm : UnitOpts, inc : Incs] : TRUE
UnitInfo(u) == [ns |-> IF u \in TimeUnits \cup {"day"} THEN UnitNsBig(u) ELSE Zero,          \* 0 stands for "none"
                max |-> IF u = "auto" THEN 0 ELSE MaxInc(u),
                cal |-> u \in CalendarUnits, date |-> u \in DateUnits, time |-> u \in TimeUnits]
ModeInfo(m) == [neg |-> NegateMode(m), pos |-> Unsigned(m, FALSE), negative |-> Unsigned(m, TRUE)]
TableUnit(u) == /\ last = None /\ cell = AnchorCell
                /\ last' = [op |-> "table.unit", mode |-> Absent, res |-> [kind |-> "ok"], out |-> Ok(UnitInfo(u)), operands |-> [unit |-> u], same |-> FALSE]
                /\ UNCHANGED cell
TableMode(m) == /\ last = None /\ cell = AnchorCell
                /\ last' = [op |-> "table.mode", mode |-> Absent, res |-> [kind |-> "ok"], out |-> Ok(ModeInfo(m)), operands |-> [mode |-> m], same |-> FALSE]
                /\ UNCHANGED cell
\* Unit + n (impl Add<usize>): the unit n places up the table nanosecond .. year; anything beyond (also a sum beyond the integer type; n = -1 stands for usize::MAX) is auto
UnitIndex(u) == IF u = "auto" THEN 0 ELSE CHOOSE i \in 1..Len(Units) : Units[i] = u
UnitPlus(u, n) == IF n = -1 \/ UnitIndex(u) + n > Len(Units) \/ UnitIndex(u) + n = 0 THEN "auto" ELSE Units[UnitIndex(u) + n]
TableUnitAdd(u, n) == /\ last = None /\ cell = AnchorCell
                      /\ last' = [op |-> "table.unitAdd", mode |-> Absent, res |-> [kind |-> "ok"], out |-> Ok(UnitPlus(u, n)), operands |-> [unit |-> u, n |-> n], same |-> FALSE]
                      /\ UNCHANGED cell
Next == (\E mode \in ModeOpts : Step(mode)) \/ StepSame \/ StepSameDate \/ StepOtherZone \/ (\E u \in UnitSet \cup {"auto"}, n \in {0, 1, 3, 10, 11, -1} : TableUnitAdd(u, n)) \/ (\E u \in UnitSet \cup {"auto"} : TableUnit(u)) \/ (\E m \in Modes : TableMode(m))
\* laws on the tables: negation is an involution that swaps the two signs' unsigned modes; the three unit classes partition as Temporal says
TableLaws == /\ (last.op = "table.mode" => LET m == last.operands.mode IN
                    /\ NegateMode(NegateMode(m)) = m
                    /\ Unsigned(NegateMode(m), FALSE) = Unsigned(m, TRUE) /\ Unsigned(NegateMode(m), TRUE) = Unsigned(m, FALSE))
             /\ (last.op = "table.unit" => LET i == last.out.val IN
                    /\ (i.cal => i.date) /\ (i.date = ~i.time \/ last.operands.unit = "auto")
                    /\ (i.max # 0 => i.time) /\ (i.time => ~IsZero(i.ns)))
Spec == Init /\ [][Next]_vars

Done == last.op # "none"
\* acceptance never depends on the rounding mode
IsTable == last.op \in {"table.unit", "table.mode", "table.unitAdd"}
AcceptanceIgnoresMode == (Done /\ ~IsTable) => (last.res.kind = ResolveCell(cell, Absent).kind)
\* resolved settings are coherent
ResolvedCoherent == (Done /\ ~IsTable /\ last.res.kind = "ok") =>
  /\ (last.res.largest # "auto" => UnitLe(last.res.smallest, last.res.largest))
  /\ (MaxInc(last.res.smallest) # 0 /\ cell.op # "Instant.round" => MaxInc(last.res.smallest) % last.res.inc = 0 /\ last.res.inc < MaxInc(last.res.smallest))
  /\ (last.mode # Absent /\ ~IsSince(cell.op) => last.res.mode = last.mode)
  /\ (last.mode # Absent /\ IsSince(cell.op) => last.res.mode = NegateMode(last.mode))
  /\ (last.mode = Absent /\ cell.op \in {"Duration.round", "PlainDateTime.round", "PlainTime.round", "Instant.round"} => last.res.mode = "halfExpand")
  /\ (last.mode = Absent /\ cell.op \notin {"Duration.round", "PlainDateTime.round", "PlainTime.round", "Instant.round"} => last.res.mode = "trunc")
=============================================================================
