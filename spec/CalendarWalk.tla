---------------------------- MODULE CalendarWalk ----------------------------
(***************************************************************************)
(* C16: calendar fields describe the same day as the ISO date.              *)
(*                                                                          *)
(* Deliberately GENERIC: no Hebrew or Chinese astronomy here.  A calendar   *)
(* is any assignment of fields                                              *)
(*   (era, eraYear, year, month, monthCode, day, doy, dim, diy, miy, leap)  *)
(* to ISO days n such that consecutive ISO days are related by exactly one  *)
(* of SameMonth / NextMonth / NextYear, the bounds hold, the month code is  *)
(* consistent with the ordinal month, Rebuild(fields) is the identity and   *)
(* WithCalendar leaves n unchanged.  For the fixed-offset solar calendars   *)
(* (gregory, iso8601, roc, buddhist, japanese/japanext from Meiji 6 on) the *)
(* fields are additionally DEFINED from the ISO date (Gregorian.tla + era   *)
(* tables), so a wrong era name or year offset is caught directly.          *)
(*                                                                          *)
(* A field record:                                                          *)
(*   [cal, n, era, ey, year, month, mc, day, doy, dim, diy, miy, leap]      *)
(* era / ey are 0-or-1-element sequences (<<>> = the calendar has no era),  *)
(* mc is the month code as a sequence of 1-character strings.               *)
(***************************************************************************)
EXTENDS Gregorian, TemporalBase, FiniteSets

(* ---------------- month codes ---------------- *)
Digits == <<"0", "1", "2", "3", "4", "5", "6", "7", "8", "9">>
IsDigit(c) == \E i \in 1..10 : Digits[i] = c
DigitVal(c) == (CHOOSE i \in 1..10 : Digits[i] = c) - 1
McWF(mc) == /\ Len(mc) \in {3, 4} /\ mc[1] = "M" /\ IsDigit(mc[2]) /\ IsDigit(mc[3])
            /\ (Len(mc) = 4 => mc[4] = "L")
McNum(mc) == 10 * DigitVal(mc[2]) + DigitVal(mc[3])
McLeap(mc) == Len(mc) = 4
MC(num, leap) == <<"M", Digits[(num \div 10) + 1], Digits[(num % 10) + 1]>> \o (IF leap THEN <<"L">> ELSE <<>>)
\* the code of the month that follows a month with code a (a leap month repeats the number of the month before it)
McFollows(a, b) == \/ (~McLeap(b) /\ McNum(b) = McNum(a) + 1)
                   \/ (McLeap(b) /\ ~McLeap(a) /\ McNum(b) = McNum(a))
\* month = ordinal position: the code number plus the number of leap months of this year up to and including this one
\* (leaps = leap months of this year that ended before the current month)
McOrdinal(f, leaps) == f.month = McNum(f.mc) + leaps + (IF McLeap(f.mc) THEN 1 ELSE 0)
\* what a session that starts in the middle of a year can deduce
LeapsFrom(f) == f.month - McNum(f.mc) - (IF McLeap(f.mc) THEN 1 ELSE 0)
Shape(f) == IF McLeap(f.mc) THEN "leap" ELSE IF f.month # McNum(f.mc) THEN "after-leap"
            ELSE IF McNum(f.mc) > 12 THEN "m13" ELSE "plain"

(* ---------------- well-formedness of one day (first failing rule, "" = fine) ---------------- *)
WFFail(f) ==
  IF ~(Len(f.era) <= 1 /\ Len(f.ey) = Len(f.era)) THEN "wf:era-pair"
  ELSE IF ~(1 <= f.day /\ f.day <= f.dim) THEN "wf:day-bound"
  ELSE IF ~(1 <= f.month /\ f.month <= f.miy) THEN "wf:month-bound"
  ELSE IF ~(1 <= f.doy /\ f.doy <= f.diy) THEN "wf:doy-bound"
  ELSE IF ~McWF(f.mc) THEN "wf:mc-syntax"
  ELSE IF ~(McNum(f.mc) >= 1 /\ f.month - McNum(f.mc) >= (IF McLeap(f.mc) THEN 1 ELSE 0)) THEN "wf:mc-ordinal"
  ELSE ""
WF(f) == WFFail(f) = ""

(* ---------------- era rule ---------------- *)
EraKeep(s, t) == t.era = s.era /\ t.ey = s.ey
EraStart(s, t) == s.era # <<>> /\ t.era # <<>> /\ t.era # s.era /\ t.ey = <<1>>     \* a new era starts counting at 1
EraWithinYear(s, t) == EraKeep(s, t) \/ EraStart(s, t)
\* dir: the direction this era has been counting in so far (0 = not yet known, 1 = forward, -1 = an inverse era counting down to 1)
EraNewYear(s, t, dir) == \/ (s.era = <<>> /\ t.era = <<>> /\ t.ey = <<>>)
                         \/ (s.era # <<>> /\ t.era = s.era /\ Len(t.ey) = 1 /\ Len(s.ey) = 1
                             /\ (t.ey[1] = s.ey[1] + 1 \/ (t.ey[1] = s.ey[1] - 1 /\ t.ey[1] >= 1))
                             /\ (dir = 0 \/ t.ey[1] - s.ey[1] = dir))
                         \/ EraStart(s, t)
DirAfter(s, t, dir) == IF t.era # s.era \/ s.era = <<>> THEN 0 ELSE IF t.year # s.year THEN t.ey[1] - s.ey[1] ELSE dir

(* ---------------- the three ways one ISO day follows another ---------------- *)
YearConst(s, t) == t.year = s.year /\ t.diy = s.diy /\ t.miy = s.miy /\ t.leap = s.leap
SameMonth(s, t) == /\ s.day < s.dim /\ s.doy < s.diy /\ t.day = s.day + 1
                   /\ t.month = s.month /\ t.mc = s.mc /\ t.dim = s.dim
                   /\ YearConst(s, t) /\ t.doy = s.doy + 1 /\ EraWithinYear(s, t)
NextMonth(s, t) == /\ s.day = s.dim /\ s.month < s.miy /\ s.doy < s.diy /\ t.day = 1
                   /\ t.month = s.month + 1 /\ McFollows(s.mc, t.mc)
                   /\ YearConst(s, t) /\ t.doy = s.doy + 1 /\ EraWithinYear(s, t)
NextYear(s, t, dir) == /\ s.day = s.dim /\ s.month = s.miy /\ s.doy = s.diy
                       /\ t.day = 1 /\ t.month = 1 /\ t.mc = MC(1, FALSE) /\ t.doy = 1
                       /\ t.year = s.year + 1 /\ EraNewYear(s, t, dir)
NextIsoDay(s, t, dir) == /\ t.n = s.n + 1 /\ t.cal = s.cal
                         /\ (SameMonth(s, t) \/ NextMonth(s, t) \/ NextYear(s, t, dir))

\* the same relation with a diagnosis: which step the first day calls for, and the first conjunct that fails
StepKind(s) == IF s.day < s.dim THEN "same-month" ELSE IF s.month < s.miy THEN "next-month" ELSE "next-year"
YearConstFail(s, t) == IF t.year # s.year THEN "year" ELSE IF t.diy # s.diy THEN "diy" ELSE IF t.miy # s.miy THEN "miy"
                       ELSE IF t.leap # s.leap THEN "leap" ELSE ""
StepFail(s, t, dir) ==
  LET k == StepKind(s)
      f == IF k = "same-month" THEN
             (IF s.doy >= s.diy THEN "diy-exceeded" ELSE IF t.day # s.day + 1 THEN "day" ELSE IF t.month # s.month THEN "month" ELSE IF t.mc # s.mc THEN "mc"
              ELSE IF t.dim # s.dim THEN "dim" ELSE IF YearConstFail(s, t) # "" THEN YearConstFail(s, t)
              ELSE IF t.doy # s.doy + 1 THEN "doy" ELSE IF ~EraWithinYear(s, t) THEN "era" ELSE "")
           ELSE IF k = "next-month" THEN
             (IF s.doy >= s.diy THEN "diy-exceeded" ELSE IF t.day # 1 THEN "day" ELSE IF t.month # s.month + 1 THEN "month" ELSE IF ~McFollows(s.mc, t.mc) THEN "mc"
              ELSE IF YearConstFail(s, t) # "" THEN YearConstFail(s, t)
              ELSE IF t.doy # s.doy + 1 THEN "doy" ELSE IF ~EraWithinYear(s, t) THEN "era" ELSE "")
           ELSE
             (IF s.doy # s.diy THEN "diy-not-reached" ELSE IF t.day # 1 THEN "day" ELSE IF t.month # 1 THEN "month"
              ELSE IF t.mc # MC(1, FALSE) THEN "mc" ELSE IF t.doy # 1 THEN "doy" ELSE IF t.year # s.year + 1 THEN "year"
              ELSE IF ~EraNewYear(s, t, dir) THEN "era" ELSE "")
  IN IF t.cal # s.cal \/ t.n # s.n + 1 THEN "not-consecutive" ELSE IF f = "" THEN "" ELSE "step:" \o k \o ":" \o f

(* ---------------- era names: rows of synonyms per calendar ---------------- *)
(* The table the crate's era.rs was copied from (intl-era-monthcode), plus the names the calendrical library   *)
(* reports today. Era names are only ever compared as members of a row, so the check does not depend on which *)
(* synonym the library prefers.                                                                               *)
GregRows == {{"gregory", "ce", "ad"}, {"gregory-inverse", "bc", "bce"}}
JpRows == {{"japanese", "gregory", "ce", "ad"}, {"japanese-inverse", "gregory-inverse", "bc", "bce"},
           {"meiji"}, {"taisho"}, {"showa"}, {"heisei"}, {"reiwa"}}
IslamicRows(id) == {{id, "ah"}}
EraRows(cal) ==
  CASE cal = "gregory" -> GregRows
    [] cal = "japanese" -> JpRows
    [] cal = "japanext" -> JpRows
    [] cal = "roc" -> {{"roc", "minguo"}, {"roc-inverse", "before-roc"}}
    [] cal = "buddhist" -> {{"buddhist", "be"}}
    [] cal = "coptic" -> {{"coptic"}, {"coptic-inverse"}}
    [] cal = "ethiopic" -> {{"ethiopic", "incar"}, {"ethiopic-inverse"}}
    [] cal = "ethioaa" -> {{"ethioaa", "ethiopic-amete-alem", "mundi"}}
    [] cal = "hebrew" -> {{"hebrew", "am"}}
    [] cal = "indian" -> {{"indian", "saka"}}
    [] cal = "persian" -> {{"persian", "ap"}}
    [] cal = "islamic" -> IslamicRows("islamic")
    [] cal = "islamic-civil" -> {{"islamic-civil", "islamicc", "ah"}}
    [] cal = "islamic-tbla" -> IslamicRows("islamic-tbla")
    [] cal = "islamic-umalqura" -> IslamicRows("islamic-umalqura")
    [] OTHER -> {}
KnownEra(cal, a) == \E R \in EraRows(cal) : a \in R
SameEra(cal, a, e) == a = e \/ \E R \in EraRows(cal) : a \in R /\ e \in R
\* an era that describes the same days by another year count: eraYear = year + off, for year <= maxYear
AltEras(cal) == IF cal = "ethiopic" THEN {[names |-> {"ethioaa", "ethiopic-amete-alem", "mundi"}, off |-> 5500, maxYear |-> 0]} ELSE {}

(* ---------------- fixed-offset solar calendars: fields defined from the ISO date ---------------- *)
Meiji6 == DaysFromCivil(1873, 1, 1)      \* Japan adopts the Gregorian calendar; every source agrees on eras from here on
JpEras == << [name |-> "reiwa", from |-> DaysFromCivil(2019, 5, 1), y0 |-> 2018],
             [name |-> "heisei", from |-> DaysFromCivil(1989, 1, 8), y0 |-> 1988],
             [name |-> "showa", from |-> DaysFromCivil(1926, 12, 25), y0 |-> 1925],
             [name |-> "taisho", from |-> DaysFromCivil(1912, 7, 30), y0 |-> 1911],
             [name |-> "meiji", from |-> Meiji6, y0 |-> 1867] >>
JpEra(n) == JpEras[CHOOSE i \in 1..Len(JpEras) : JpEras[i].from <= n /\ \A j \in 1..(i - 1) : JpEras[j].from > n]
Defined(cal, n) == \/ cal \in {"iso8601", "gregory", "roc", "buddhist"}
                   \/ (cal \in {"japanese", "japanext"} /\ n >= Meiji6)
YearOffset(cal) == CASE cal = "roc" -> -1911 [] cal = "buddhist" -> 543 [] OTHER -> 0
\* era as a canonical row member + era year, from the ISO year / day
DefEra(cal, n, y) ==
  CASE cal = "iso8601" -> [era |-> <<>>, ey |-> <<>>]
    [] cal = "gregory" -> IF y >= 1 THEN [era |-> <<"gregory">>, ey |-> <<y>>] ELSE [era |-> <<"gregory-inverse">>, ey |-> <<1 - y>>]
    [] cal = "roc" -> IF y >= 1912 THEN [era |-> <<"roc">>, ey |-> <<y - 1911>>] ELSE [era |-> <<"roc-inverse">>, ey |-> <<1912 - y>>]
    [] cal = "buddhist" -> [era |-> <<"buddhist">>, ey |-> <<y + 543>>]
    [] OTHER -> [era |-> <<JpEra(n).name>>, ey |-> <<y - JpEra(n).y0>>]
Def(cal, n) ==
  LET g == CivilFromDays(n)
      e == DefEra(cal, n, g.y)
  IN [cal |-> cal, n |-> n, era |-> e.era, ey |-> e.ey, year |-> g.y + YearOffset(cal), month |-> g.m, mc |-> MC(g.m, FALSE),
      day |-> g.d, doy |-> DayOfYear(g), dim |-> DIM(g.y, g.m), diy |-> DIY(g.y), miy |-> 12, leap |-> IsLeap(g.y)]
\* first field of a reported record that disagrees with the definition ("" = agrees); era names compared by row
DefFail(f) ==
  LET d == Def(f.cal, f.n)
  IN IF f.year # d.year THEN "def:year" ELSE IF f.month # d.month THEN "def:month" ELSE IF f.mc # d.mc THEN "def:mc"
     ELSE IF f.day # d.day THEN "def:day" ELSE IF f.doy # d.doy THEN "def:doy" ELSE IF f.dim # d.dim THEN "def:dim"
     ELSE IF f.diy # d.diy THEN "def:diy" ELSE IF f.miy # d.miy THEN "def:miy" ELSE IF f.leap # d.leap THEN "def:leap"
     ELSE IF f.ey # d.ey THEN "def:era-year"
     ELSE IF ~(Len(f.era) = Len(d.era) /\ (d.era # <<>> => SameEra(f.cal, f.era[1], d.era[1]))) THEN "def:era-name"
     ELSE ""

(* ---------------- Rebuild / WithCalendar: what the property demands ---------------- *)
IsoOf(n) == CivilFromDays(n)
\* rebuilding from the reported fields, in any supported combination, returns the same day in the same calendar
RebuildExpected(f) == Ok([iso |-> IsoOf(f.n), id |-> f.cal])
\* class label of a rebuild request: which year part, and (only where the month part is not trivially the code
\* "M<month>") which month part on which shape of month
YearPart(cal, reported, args) ==
  IF "year" \in DOMAIN args THEN "year"
  ELSE IF KnownEra(cal, args.era) \/ (\E A \in AltEras(cal) : args.era \in A.names) THEN "era:" \o args.era
  ELSE IF reported = <<args.era>> THEN "era:reported" ELSE "era:unknown"
MonthPart(args) == IF "month" \in DOMAIN args THEN (IF "mc" \in DOMAIN args THEN "m+mc" ELSE "m") ELSE "mc"
RebuildCls(f, args) == f.cal \o "/rebuild/" \o YearPart(f.cal, f.era, args)
                       \o (IF Shape(f) = "plain" THEN "" ELSE IF Shape(f) = "m13" THEN "@m13"
                           ELSE "/" \o MonthPart(args) \o "@" \o Shape(f))
\* the reported numbers denote a position in a month and a year at all
InBounds(f) == 1 <= f.day /\ f.day <= f.dim /\ 1 <= f.month /\ f.month <= f.miy /\ 1 <= f.doy /\ f.doy <= f.diy

(* ======================= state machine (model checking and case generation) ======================= *)
CONSTANTS Free,                 \* TRUE: every successor the walk rules allow (within small bounds); FALSE: FieldsOf decides
          FieldsOf(_, _),       \* (cal, n) -> field record: the calendar being walked (toy table / definitions above)
          Find(_, _),           \* (cal, key record) -> n: the inverse lookup used by Rebuild
          Starts,               \* set of [f: field record, hi: last n] to start walks from
          OtherCals,            \* calendars WithCalendar may switch to
          MaxDim, DiySet, MaxEraChanges \* bounds of the free model
VARIABLES cur, prev, hi, leaps, edir, hist, last
vars == <<cur, prev, hi, leaps, edir, hist, last>>
Nil == [cal |-> "-"]
None == [op |-> "none"]
Key(f) == <<f.year, f.month, f.day>>

Init == \E s \in Starts : cur = s.f /\ hi = s.hi /\ prev = Nil /\ leaps = LeapsFrom(s.f) /\ edir = 0 /\ hist = <<s.f>> /\ last = None

\* free model: the successors allowed by the rules, with every free choice taken from a small domain
Dims == 2..MaxDim
FreeSucc(s) ==
  LET same == {[s EXCEPT !.n = s.n + 1, !.day = s.day + 1, !.doy = s.doy + 1, !.era = e.era, !.ey = e.ey] :
                 e \in {[era |-> s.era, ey |-> s.ey]} \cup (IF s.era # <<>> THEN {[era |-> <<x>>, ey |-> <<1>>] : x \in {"a", "b"} \ {s.era[1]}} ELSE {})}
      month == {[s EXCEPT !.n = s.n + 1, !.day = 1, !.doy = s.doy + 1, !.month = s.month + 1, !.mc = c, !.dim = d] :
                 d \in Dims, c \in {MC(McNum(s.mc) + 1, FALSE)} \cup (IF McLeap(s.mc) THEN {} ELSE {MC(McNum(s.mc), TRUE)})}
      year == {[s EXCEPT !.n = s.n + 1, !.day = 1, !.doy = 1, !.month = 1, !.mc = MC(1, FALSE), !.year = s.year + 1,
                         !.dim = d, !.diy = y, !.miy = m, !.leap = l, !.era = e.era, !.ey = e.ey] :
                 d \in Dims, y \in DiySet, m \in {3, 4}, l \in {s.leap},
                 e \in IF s.era = <<>> THEN {[era |-> <<>>, ey |-> <<>>]}
                       ELSE {[era |-> s.era, ey |-> <<s.ey[1] + 1>>]} \cup (IF s.ey[1] > 1 THEN {[era |-> s.era, ey |-> <<s.ey[1] - 1>>]} ELSE {})
                            \cup {[era |-> <<x>>, ey |-> <<1>>] : x \in {"a", "b"} \ {s.era[1]}}}
  IN {t \in same \cup month \cup year : NextIsoDay(s, t, edir)}
EraChanges(h) == Cardinality({i \in 1..(Len(h) - 1) : h[i].era # h[i + 1].era})

\* one ISO day forward: the successor must satisfy NextIsoDay (free model: every such successor; otherwise the
\* calendar's own next record, and WalkRule checks that it is related to the current one by NextIsoDay)
Step == /\ cur.n < hi
        /\ \E t \in (IF Free THEN FreeSucc(cur) ELSE {FieldsOf(cur.cal, cur.n + 1)}) :
             /\ cur' = t /\ prev' = cur
             /\ leaps' = IF t.year # cur.year THEN 0 ELSE IF t.month # cur.month /\ McLeap(cur.mc) THEN leaps + 1 ELSE leaps
             /\ edir' = DirAfter(cur, t, edir)
             /\ hist' = Append(hist, t)
             /\ (Free => EraChanges(hist') <= MaxEraChanges)
        /\ last' = [op |-> "day", dir |-> edir] /\ UNCHANGED hi

\* Rebuild(fields): look the day up again from a projection of the reported fields
Projections == {"year-mc", "year-m", "era-mc", "era-m"}
Project(f, p) == CASE p = "year-mc" -> [year |-> f.year, mc |-> f.mc, day |-> f.day]
                   [] p = "year-m" -> [year |-> f.year, month |-> f.month, day |-> f.day]
                   [] p = "era-mc" -> [era |-> f.era, ey |-> f.ey, mc |-> f.mc, day |-> f.day]
                   [] p = "era-m" -> [era |-> f.era, ey |-> f.ey, month |-> f.month, day |-> f.day]
Rebuild(p) == /\ ~Free /\ (p \in {"era-mc", "era-m"} => cur.era # <<>>)
              /\ cur' = FieldsOf(cur.cal, Find(cur.cal, Project(cur, p)))
              /\ last' = [op |-> "rebuild", p |-> p, before |-> cur]
              /\ UNCHANGED <<prev, hi, leaps, edir, hist>>
WithCalendar(c) == /\ ~Free
                   /\ cur' = FieldsOf(c, cur.n)
                   /\ last' = [op |-> "with-calendar", to |-> c, before |-> cur]
                   /\ prev' = Nil /\ leaps' = LeapsFrom(FieldsOf(c, cur.n)) /\ edir' = 0 /\ hist' = <<FieldsOf(c, cur.n)>>
                   /\ UNCHANGED hi

Next == Step \/ (\E p \in Projections : Rebuild(p)) \/ (\E c \in OtherCals : WithCalendar(c))
Spec == Init /\ [][Next]_vars

(* ---------------- properties ---------------- *)
\* the walk rules hold on every step of the calendar being walked, and the diagnosis agrees with the relation
WalkRule == (last.op = "day" /\ prev # Nil) => (NextIsoDay(prev, cur, last.dir) /\ StepFail(prev, cur, last.dir) = "")
DiagnosisAgrees == (last.op = "day" /\ prev # Nil) => (NextIsoDay(prev, cur, last.dir) <=> StepFail(prev, cur, last.dir) = "")
\* "exactly one of": the three kinds of step exclude each other
StepExclusive == (last.op = "day" /\ prev # Nil) =>
  Cardinality({k \in {"same-month", "next-month", "next-year"} :
                 IF k = "same-month" THEN SameMonth(prev, cur) ELSE IF k = "next-month" THEN NextMonth(prev, cur)
                 ELSE NextYear(prev, cur, last.dir)}) = 1
Bounds == cur # Nil => (WF(cur) /\ McOrdinal(cur, leaps))
RebuildIdentity == last.op = "rebuild" => cur = last.before
WithCalendarKeepsDay == last.op = "with-calendar" => (cur.n = last.before.n /\ cur.cal = last.to)
\* order-preserving bijection between days and (year, month, day): strictly increasing over the whole walk ...
LexLess(a, b) == a[1] < b[1] \/ (a[1] = b[1] /\ (a[2] < b[2] \/ (a[2] = b[2] /\ a[3] < b[3])))
OrderIso == \A i, j \in 1..Len(hist) : i < j => (hist[i].n < hist[j].n /\ LexLess(Key(hist[i]), Key(hist[j])))
\* ... and onto: day of year counts the days since the year began, a completed year has diy days and miy months,
\* a completed month has dim days
FirstOfYear(i) == hist[i].month = 1 /\ hist[i].day = 1
YearStartBefore(i) == {j \in 1..i : FirstOfYear(j) /\ hist[j].year = hist[i].year}
DoyCounts == \A i \in 1..Len(hist) : \A j \in YearStartBefore(i) : hist[i].doy = i - j + 1
YearTotals == \A i \in 1..(Len(hist) - 1) :
                hist[i + 1].year # hist[i].year =>
                  \A j \in YearStartBefore(i) : /\ i - j + 1 = hist[i].diy
                                                /\ Cardinality({hist[k].month : k \in j..i}) = hist[i].miy
                                                /\ Cardinality({hist[k].mc : k \in j..i}) = hist[i].miy
MonthTotals == \A i \in 1..(Len(hist) - 1) :
                 (hist[i + 1].month # hist[i].month \/ hist[i + 1].year # hist[i].year) => hist[i].day = hist[i].dim
\* the keys Rebuild uses identify a day uniquely
RebuildKeysInjective ==
  \A i, j \in 1..Len(hist) : i # j =>
     /\ <<hist[i].year, hist[i].mc, hist[i].day>> # <<hist[j].year, hist[j].mc, hist[j].day>>
     /\ (hist[i].era # <<>> => <<hist[i].era, hist[i].ey, hist[i].mc, hist[i].day>> # <<hist[j].era, hist[j].ey, hist[j].mc, hist[j].day>>)
\* year and era year move together inside an era
EraAffine == \A i, j \in 1..Len(hist) :
               (hist[i].era # <<>> /\ hist[i].era = hist[j].era /\ j = i + 1) =>
                  (hist[j].year - hist[i].year) \in {hist[j].ey[1] - hist[i].ey[1], hist[i].ey[1] - hist[j].ey[1]}
=============================================================================
