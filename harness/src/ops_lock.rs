//! Operations for C20: the convenience ("compiled") API, which goes through the process-wide
//! `TZ_PROVIDER: LazyLock<Mutex<FsTzdbProvider>>`.
//!
//! Granularity rule: every op performs EXACTLY ONE wrapper call (= one acquisition of the provider
//! lock = one critical section of `ProviderLock.tla`). Receivers are built with provider-free
//! constructors (`ZonedDateTime::try_new`, `TimeZone::try_from_str`) and results are projected with
//! provider-free getters (`epoch_nanoseconds`, `timezone().identifier()`), so the under-lock
//! provider events of one logged call all belong to one critical section.
use crate::js::{self, big, int};
use crate::proj::*;
use serde_json::{json, Value};
use std::str::FromStr;
use temporal_rs::options::*;
use temporal_rs::*;

fn tz(a: &Value) -> TemporalResult<TimeZone> { TimeZone::try_from_str(js::s(a, "tz")) }
/// provider-free receiver
fn zdt(a: &Value) -> TemporalResult<ZonedDateTime> { ZonedDateTime::try_new(num(&a["ns"]), iso(), tz(a)?) }
fn p_zdt(z: &ZonedDateTime) -> Value {
    json!({"ns": big(z.epoch_nanoseconds().as_i128()), "tz": z.timezone().identifier().unwrap_or_else(|_| "?".into())})
}
fn rel(a: &Value) -> TemporalResult<Option<RelativeTo>> {
    if js::has(a, "rel") { Ok(Some(RelativeTo::ZonedDateTime(zdt(&a["rel"])?))) } else { Ok(None) }
}
fn dis(a: &Value) -> Disambiguation {
    js::opt_s(a, "dis").map(|s| Disambiguation::from_str(s).expect("dis")).unwrap_or(Disambiguation::Compatible)
}
fn off(a: &Value) -> OffsetDisambiguation {
    js::opt_s(a, "off").map(|s| OffsetDisambiguation::from_str(s).expect("off")).unwrap_or(OffsetDisambiguation::Reject)
}
fn f64_bits(x: f64) -> Value { json!(format!("{:016x}", x.to_bits())) }

pub fn exec(op: &str, a: &Value) -> Option<Value> {
    Some(match op {
        "CZ.fromStr" => run(|| ZonedDateTime::from_str(js::s(a, "s"), dis(a), off(a)), p_zdt),
        "CZ.get" => {
            let f = js::s(a, "f").to_string();
            run(|| {
                let z = zdt(a)?;
                Ok(match f.as_str() {
                    "year" => z.year()? as i64,
                    "month" => z.month()? as i64,
                    "day" => z.day()? as i64,
                    "hour" => z.hour()? as i64,
                    "minute" => z.minute()? as i64,
                    "second" => z.second()? as i64,
                    "millisecond" => z.millisecond()? as i64,
                    "dayOfWeek" => z.day_of_week()? as i64,
                    "dayOfYear" => z.day_of_year()? as i64,
                    "daysInMonth" => z.days_in_month()? as i64,
                    "inLeapYear" => z.in_leap_year()? as i64,
                    "hoursInDay" => z.hours_in_day()? as i64,
                    "offsetSeconds" => z.offset_nanoseconds()? / 1_000_000_000,
                    _ => panic!("field {}", f),
                })
            }, |v| int(*v))
        }
        "CZ.offset" => run(|| zdt(a)?.offset(), |s| p_str(s)),
        // many offset reads in a tight loop over a few (zone, instant) pairs: a pure function of the arguments, so any element that
        // differs from the serial answer shows state shared outside the provider lock
        "CZ.offsetLoop" => run(|| {
            let items = a["items"].as_array().expect("HARNESS items");
            let zs: Vec<ZonedDateTime> = items.iter().map(zdt).collect::<TemporalResult<Vec<_>>>()?;
            let reps = a["reps"].as_u64().unwrap_or(100) as usize;
            let mut out = Vec::with_capacity(reps);
            for i in 0..reps { out.push(zs[i % zs.len()].offset_nanoseconds()? / 1_000_000_000); }
            Ok(out)
        }, |v| Value::Array(v.iter().map(|x| int(*x)).collect())),
        // the current date / date-time / time in a zone (system clock; only that the call returns is projected)
        "CNow.date" => run(|| Now::plain_date_iso(Some(tz(a)?)), |_| p_str("now")),
        "CNow.dateTime" => run(|| Now::plain_datetime_iso(Some(tz(a)?)), |_| p_str("now")),
        "CNow.time" => run(|| Now::plain_time_iso(Some(tz(a)?)), |_| p_str("now")),
        "CZ.startOfDay" => run(|| zdt(a)?.start_of_day(), p_zdt),
        "CZ.toPlainDateTime" => run(|| zdt(a)?.to_plain_datetime(), p_datetime),
        // the Display implementation of the convenience layer (a separate code path from to_ixdtf_string)
        "CZ.display" => run(|| Ok(zdt(a)?.to_string()), |s| p_str(s)),
        "CZ.toString" => run(|| zdt(a)?.to_ixdtf_string(DisplayOffset::Auto, DisplayTimeZone::Auto, DisplayCalendar::Auto, ToStringRoundingOptions::default()), |s| p_str(s)),
        "CZ.add" => run(|| zdt(a)?.add(&arg_duration(&a["dur"])?, arg_ovf(a)), p_zdt),
        "CZ.subtract" => run(|| zdt(a)?.subtract(&arg_duration(&a["dur"])?, arg_ovf(a)), p_zdt),
        "CZ.until" => run(|| zdt(a)?.until(&zdt(&a["other"])?, arg_settings(&a["st"])?), p_duration),
        "CZ.withPlainTime" => run(|| zdt(a)?.with_plain_time(arg_time(&a["time"])?), p_zdt),
        "CDur.round" => run(|| arg_duration(&a["dur"])?.round(arg_rounding(&a["st"])?, rel(a)?), p_duration),
        "CDur.compare" => run(|| arg_duration(&a["dur"])?.compare(&arg_duration(&a["other"])?, rel(a)?), |o| p_ord(*o)),
        "CDur.total" => run(|| arg_duration(&a["dur"])?.total(arg_unit(js::s(a, "unit")), rel(a)?), |f| f64_bits(f.as_inner())),
        "CInstant.toString" => run(|| arg_instant(&a["ns"])?.to_ixdtf_string(Some(&tz(a)?), ToStringRoundingOptions::default()), |s| p_str(s)),
        "CRelTo.fromStr" => run(|| RelativeTo::try_from_str(js::s(a, "s")), |r| match r {
            RelativeTo::PlainDate(d) => json!({"date": p_date(d)}),
            RelativeTo::ZonedDateTime(z) => json!({"zdt": p_zdt(z)}),
        }),
        "CPDT.toZoned" => run(|| arg_datetime(&a["dt"])?.to_zoned_date_time(&tz(a)?, dis(a)), p_zdt),
        // fault injection (verification hook): panics while holding TZ_PROVIDER
        "Lock.panic" => run_inf(|| temporal_rs::verif::panic_holding_provider_lock(), |_| Value::Null),
        // one step of a model history, re-run from scratch in a fresh process (used by `vcheck C20 --replay`)
        "ProviderLock.call" => crate::sp_c20::exec_history_step(a),
        // observation, not a call of the API under test
        "Lock.poisoned" => json!({"kind": "ok", "val": temporal_rs::verif::provider_lock_poisoned()}),
        _ => return None,
    })
}
