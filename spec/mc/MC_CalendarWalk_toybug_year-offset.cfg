SPECIFICATION Spec
CONSTANTS
  Free = FALSE
  FieldsOf <- ToyFieldsOf
  Find <- ToyFind
  Starts <- ToyStarts
  OtherCals <- ToyOthers
  MaxDim = 3
  DiySet = {6, 7, 8}
  FreeHi = 9
  MaxEraChanges = 9
  Bug = "year-offset"
INVARIANTS WalkRule DiagnosisAgrees Bounds OrderIso DoyCounts YearTotals MonthTotals RebuildKeysInjective EraAffine RebuildIdentity WithCalendarKeepsDay ToyRebuildUnique
CHECK_DEADLOCK FALSE
