-------------------------- MODULE DateArithMachine --------------------------
(* Session state machine over DateArith (used by model checking, case generation and trace validation) and the laws of C04. *)
EXTENDS DateArith

CONSTANTS Window, DurSet, LargestSet,    \* dates explored, durations (records y,mo,w,d) tried, largest units tried
          OneStep                          \* TRUE: explore every single transition from every window date once (model checking);
                                           \* FALSE: unbounded sessions (trace validation)
VARIABLES cur, last
vars == <<cur, last>>

None == [op |-> "none"]
Init == cur \in Window /\ last = None

Until(b, u) == /\ last' = [op |-> "until", a |-> cur, b |-> b, u |-> u, r |-> Diff(cur, b, u)]
               /\ cur' = b
Since(b, u) == /\ last' = [op |-> "since", a |-> cur, b |-> b, u |-> u, r |-> Diff(cur, b, u)]
               /\ cur' = b
AddAct(D, ovf) == LET o == AddDateI(cur, D.y, D.mo, D.w, D.d, ovf)
                  IN /\ last' = [op |-> "add", a |-> cur, dur |-> D, ovf |-> ovf, out |-> o]
                     /\ cur' = IF o.kind = "ok" /\ o.val \in Window THEN o.val ELSE cur
SubAct(D, ovf) == LET o == AddDateI(cur, -D.y, -D.mo, -D.w, -D.d, ovf)
                  IN /\ last' = [op |-> "subtract", a |-> cur, dur |-> D, ovf |-> ovf, out |-> o]
                     /\ cur' = IF o.kind = "ok" /\ o.val \in Window THEN o.val ELSE cur

Next == /\ (OneStep => last = None)
        /\ \/ \E b \in Window, u \in LargestSet : Until(b, u) \/ Since(b, u)
           \/ \E D \in DurSet, ovf \in {"constrain", "reject"} : AddAct(D, ovf) \/ SubAct(D, ovf)
Spec == Init /\ [][Next]_vars

(* ---------------- properties (state invariants over the last transition) ---------------- *)
IsDiff == last.op \in {"until", "since"}
InverseLaw == IsDiff =>
  LET r == last.r IN AddDateI(last.a, r.y, r.mo, r.w, r.d, "constrain") = Ok(last.b)
ClosedEqualsLiteral == IsDiff => last.r = DiffLiteral(last.a, last.b, last.u)
DiffShape == IsDiff => /\ Balanced(last.r, last.u)
                       /\ SignOK(last.r, -CmpDate(last.a, last.b))
DayIsDistance == (IsDiff /\ last.u = "day") => last.r.d = DFC(last.b) - DFC(last.a)
\* a.since(b) = -(a.until(b)) by definition here; the cross-law is: b.until(a) relates to a.until(b) only through add
AddWellFormed == (last.op \in {"add", "subtract"} /\ last.out.kind = "ok") =>
                    ValidDate(last.out.val) /\ InDateRange(DFC(last.out.val))
SubIsAddNeg == last.op = "subtract" =>
  last.out = AddDateI(last.a, -last.dur.y, -last.dur.mo, -last.dur.w, -last.dur.d, last.ovf)
RejectRule == (last.op = "add" /\ last.ovf = "reject") =>
  LET ym == BalYM(last.a.y + last.dur.y, last.a.m + last.dur.mo)
  IN (last.a.d > DIM(ym.y, ym.m)) => last.out = ErrRange

=============================================================================
