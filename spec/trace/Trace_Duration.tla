--------------------------- MODULE Trace_Duration ---------------------------
(* impl -> spec for Duration calls without a reference date (C09). *)
EXTENDS Duration, TraceBase
VARIABLES l
tvars == <<l>>
E == Rec[l]
St(e) == e.args.st
Expected(e) ==
  CASE e.op = "Duration.new" -> DurNew(e.args.dur)
    [] e.op = "Duration.fromPartial" -> DurFromPartial(e.args.p)
    [] e.op = "Duration.negated" -> Ok(NegDur(e.args.recv))
    [] e.op = "Duration.abs" -> Ok(AbsDur(e.args.recv))
    [] e.op = "Duration.sign" -> Ok(DurSign(e.args.recv))
    [] e.op = "Duration.timeInRange" -> Ok(TimeFieldsInRange(e.args.recv))
    [] e.op = "Duration.add" -> DurAdd(e.args.recv, e.args.other)
    [] e.op = "Duration.subtract" -> DurSub(e.args.recv, e.args.other)
    [] e.op = "Duration.compare" -> DurCompare(e.args.recv, e.args.other)
    [] e.op = "Duration.round" -> DurRound(e.args.recv, St(e).largest, St(e).smallest, St(e).inc, St(e).mode)
    [] e.op = "Duration.total" -> DurTotal(e.args.recv, e.args.unit)
Matches(e) ==
  LET x == Expected(e)
  IN IF e.op = "Duration.total" /\ x.kind = "ok"
     THEN e.out.kind = "ok" /\ F64Approximates(e.out.val.m, e.out.val.e, x.val.n, x.val.d)
     ELSE x = e.out
Bucket(D) == IF Le(Abs(DayTimeNs(D)), MulSmall(Pow10(18), 9)) THEN "below-2^63" ELSE "above-2^63"
ClsOf(e) ==
  CASE e.op = "Duration.new" -> (IF SignUniform(e.args.dur) THEN "uniform" ELSE "mixed") \o (IF ValidDur(e.args.dur) THEN "/valid" ELSE "/invalid")
    [] e.op = "Duration.fromPartial" -> IF DOMAIN e.args.p = {} THEN "empty" ELSE (IF SignUniform(FillDur(e.args.p)) THEN "uniform" ELSE "mixed") \o (IF ValidDur(FillDur(e.args.p)) THEN "/valid" ELSE "/invalid")
    [] e.op \in {"Duration.add", "Duration.subtract", "Duration.compare"} ->
         (IF HasCalendarUnits(e.args.recv) \/ HasCalendarUnits(e.args.other) THEN "calendar" ELSE "time/" \o Bucket(e.args.recv))
    [] e.op = "Duration.round" -> St(e).smallest \o "/" \o St(e).largest \o "/" \o (IF HasCalendarUnits(e.args.recv) THEN "calendar" ELSE RoundCls(DayTimeNs(e.args.recv), IncNs(St(e).inc, St(e).smallest)) \o "/" \o St(e).mode)
    [] e.op = "Duration.total" -> e.args.unit \o "/" \o (IF HasCalendarUnits(e.args.recv) THEN "calendar" ELSE IF IsZero(e.args.recv.d) THEN "no-days" ELSE "with-days")
    [] OTHER -> "-"
TInit == l = 1
TNext == /\ l <= NEv /\ l' = l + 1
         /\ \/ E.op = "reset"
            \/ E.op # "reset" /\ Matches(E)
            \/ E.op # "reset" /\ ~Matches(E) /\ Report(l, E.op, ClsOf(E), Expected(E), E.out)
TSpec == TInit /\ [][TNext]_tvars
=============================================================================
