------------------------------- MODULE FormatOps -------------------------------
(***************************************************************************)
(* Canonical Temporal / RFC 9557 writer as operators over abstract values,  *)
(* and the session state machine  value --Format--> text --Parse--> value   *)
(* whose laws (round trip, idempotence, canonical shape) are invariants     *)
(* over `last`. The reader is Grammar's recognizer.                         *)
(*   dates {y,m,d,cal}; times six fields; date-times nine fields + cal;     *)
(*   year-months {y,m,cal[,rd]}; month-days {m,d,cal[,ry]};                 *)
(*   instants = exact epoch nanoseconds (BigInt);                           *)
(*   durations = ten BigInt fields; zoned = {ns, tz (characters), cal}.     *)
(* Precision: -1 = auto, 0..9 = that many fractional digits, -2 = minute.   *)
(***************************************************************************)
EXTENDS GrammarOps

(* ---------------- pieces ---------------- *)
PadYear(y) == IF y >= 0 /\ y <= 9999 THEN PadN(y, 4) ELSE (IF y < 0 THEN "-" ELSE "+") \o PadN(AbsI(y), 6)
RECURSIVE StripZeros(_)
StripZeros(s) == IF Len(s) > 0 /\ SubSeq(s, Len(s), Len(s)) = "0" THEN StripZeros(SubSeq(s, 1, Len(s) - 1)) ELSE s
\* fractional part of a second: minimal digits under auto, exactly p digits (truncating) otherwise
Frac(ns, p) == IF p = -1 THEN (IF ns = 0 THEN "" ELSE "." \o StripZeros(PadN(ns, 9)))
               ELSE IF p <= 0 THEN "" ELSE "." \o SubSeq(PadN(ns, 9), 1, p)
\* the precision a smallest-unit option stands for
EffPrec(p, su) == CASE su = "minute" -> -2 [] su = "second" -> 0 [] su = "millisecond" -> 3 [] su = "microsecond" -> 6
                    [] su = "nanosecond" -> 9 [] OTHER -> p
SubNs(t) == t.ms * 1000000 + t.us * 1000 + t.ns
FmtTime(t, p) == Pad2(t.h) \o ":" \o Pad2(t.mi) \o (IF p = -2 THEN "" ELSE ":" \o Pad2(t.s) \o Frac(SubNs(t), p))
FmtDate(d) == PadYear(d.y) \o "-" \o Pad2(d.m) \o "-" \o Pad2(d.d)
Offset(min) == OffsetText(min)                                   \* +HH:MM / -HH:MM
CalAnn(cal, show) == IF show = "never" \/ (show = "auto" /\ cal = "iso8601") THEN ""
                     ELSE "[" \o (IF show = "critical" THEN "!" ELSE "") \o "u-ca=" \o cal \o "]"
TzAnn(id, show) == IF show = "never" THEN "" ELSE "[" \o (IF show = "critical" THEN "!" ELSE "") \o id \o "]"

\* decimal text of a non-negative big
RECURSIVE LimbText(_, _)
LimbText(l, i) == IF i = 0 THEN "" ELSE PadN(l[i], 4) \o LimbText(l, i - 1)
BigText(b) == IF b.s = 0 THEN "0" ELSE ToString(b.l[Len(b.l)]) \o LimbText(b.l, Len(b.l) - 1)

\* exact epoch nanoseconds -> [day, sod, sub]
SplitEpoch(b) == LET a1 == FloorDivSmall(b, 1000)
                     a2 == FloorDivSmall(a1.q, 1000)
                     a3 == FloorDivSmall(a2.q, 1000)
                     a4 == FloorDivSmall(a3.q, 86400)
                 IN [day |-> ToInt(a4.q), sod |-> a4.r, sub |-> a3.r * 1000000 + a2.r * 1000 + a1.r]
WallOf(b, offmin) == LET e == SplitEpoch(Add(b, K9(FromInt(offmin * 60))))
                         d == CivilFromDays(e.day)
                     IN [y |-> d.y, m |-> d.m, d |-> d.d, h |-> e.sod \div 3600, mi |-> (e.sod \div 60) % 60, s |-> e.sod % 60,
                         ms |-> e.sub \div 1000000, us |-> (e.sub \div 1000) % 1000, ns |-> e.sub % 1000]
\* minutes of a fixed-offset zone identifier / of "UTC" (characters)
ZoneMinutes(tz) == IF tz = Chars("UTC") THEN 0 ELSE OffMinutes(OffAt(tz, 1))

\* canonical identifier of a zone: +HH:MM for offset zones, the name otherwise
ZoneText(tz) == IF Ch(tz, 1) \in {"+", "-"} THEN Offset(ZoneMinutes(tz)) ELSE Join(tz)

(* ---------------- per type ---------------- *)
FmtPlainDate(v, cd) == FmtDate(v) \o CalAnn(v.cal, cd)
FmtPlainDateTime(v, p, cd) == FmtDate(v) \o "T" \o FmtTime(v, p) \o CalAnn(v.cal, cd)
FmtPlainTime(v, p) == FmtTime(v, p)
RefDay(v) == IF "rd" \in DOMAIN v THEN v.rd ELSE 1
RefYear(v) == IF "ry" \in DOMAIN v THEN v.ry ELSE 1972
ShowsReference(cal, cd) == cd \in {"always", "critical"} \/ cal # "iso8601"
FmtYearMonth(v, cd) == PadYear(v.y) \o "-" \o Pad2(v.m) \o (IF ShowsReference(v.cal, cd) THEN "-" \o Pad2(RefDay(v)) ELSE "") \o CalAnn(v.cal, cd)
FmtMonthDay(v, cd) == (IF ShowsReference(v.cal, cd) THEN PadYear(RefYear(v)) \o "-" ELSE "") \o Pad2(v.m) \o "-" \o Pad2(v.d) \o CalAnn(v.cal, cd)
\* truncation of the sub-second part / of an instant (towards the past) to precision p
TruncSub(x, p) == IF p = -1 THEN x ELSE IF p = -2 THEN 0 ELSE (x \div Pow10I(9 - p)) * Pow10I(9 - p)
FloorBig(b, p) == \* instant truncated (towards the past) to precision p
  IF p = -1 \/ p = 9 THEN b
  ELSE LET e == SplitEpoch(b)
           s2 == IF p = -2 THEN (e.sod \div 60) * 60 ELSE e.sod
       IN EpochNs(e.day, s2, TruncSub(e.sub, p), 0, 0)
\* tz = <<>>: UTC with the Z designator; otherwise a fixed-offset zone whose offset is printed
FmtInstant(b, p, tz) == LET off == IF tz = <<>> THEN 0 ELSE ZoneMinutes(tz)
                            w == WallOf(b, off)
                        IN FmtDate(w) \o "T" \o FmtTime(w, p) \o (IF tz = <<>> THEN "Z" ELSE Offset(off))
\* offmin: the zone's offset at that instant (computed for fixed-offset zones, supplied for named ones)
FmtZonedAt(v, offmin, p, od, zd, cd) ==
  LET w == WallOf(FloorBig(v.ns, p), offmin)      \* the instant is rounded first (RoundTemporalInstant), then read in the zone
  IN FmtDate(w) \o "T" \o FmtTime(w, p) \o (IF od = "never" THEN "" ELSE Offset(offmin)) \o TzAnn(ZoneText(v.tz), zd) \o CalAnn(v.cal, cd)
FmtZoned(v, p, od, zd, cd) == FmtZonedAt(v, ZoneMinutes(v.tz), p, od, zd, cd)

(* ---------------- durations ---------------- *)
AbsDur(D) == IF DurSign(D) = -1 THEN NegDur(D) ELSE D
\* seconds and sub-second fields as one exact count of nanoseconds (>= 0 for an absolute duration)
SecNs(D) == Add(Add(K9(D.s), K6(D.ms)), Add(K3(D.us), D.ns))
SplitSec(b) == LET a1 == TruncDivSmall(b, 1000)
                   a2 == TruncDivSmall(a1.q, 1000)
                   a3 == TruncDivSmall(a2.q, 1000)
               IN [secs |-> a3.q, sub |-> a3.r * 1000000 + a2.r * 1000 + a1.r]
DefaultLargest(A) == IF A.y.s # 0 THEN "year" ELSE IF A.mo.s # 0 THEN "month" ELSE IF A.w.s # 0 THEN "week" ELSE IF A.d.s # 0 THEN "day"
                     ELSE IF A.h.s # 0 THEN "hour" ELSE IF A.mi.s # 0 THEN "minute" ELSE "second"
\* the time part tt = [secs, sub] (already cut to the precision) re-balanced up to the default largest unit of A
BalanceWith(A, tt) ==
  LET lg == DefaultLargest(A)
      qm == TruncDivSmall(tt.secs, 60)
      qh == TruncDivSmall(qm.q, 60)
      qd == TruncDivSmall(qh.q, 24)
      fs(x) == [A EXCEPT !.ms = FromInt(x \div 1000000), !.us = FromInt((x \div 1000) % 1000), !.ns = FromInt(x % 1000)]
  IN IF lg \in {"year", "month", "week", "day"} THEN [fs(tt.sub) EXCEPT !.d = Add(A.d, qd.q), !.h = FromInt(qd.r), !.mi = FromInt(qh.r), !.s = FromInt(qm.r)]
     ELSE IF lg = "hour" THEN [fs(tt.sub) EXCEPT !.h = qh.q, !.mi = FromInt(qh.r), !.s = FromInt(qm.r)]
     ELSE IF lg = "minute" THEN [fs(tt.sub) EXCEPT !.mi = qm.q, !.s = FromInt(qm.r)]
     ELSE [fs(tt.sub) EXCEPT !.s = tt.secs]
\* fixed precision below nanoseconds: the time part is truncated to the precision and re-balanced up to the default largest unit
BalanceFor(A, p) ==
  IF p = -1 \/ p = 9 THEN A ELSE
  LET tt == SplitSec(TimeNs(A)) IN BalanceWith(A, [secs |-> tt.secs, sub |-> (tt.sub \div Pow10I(9 - p)) * Pow10I(9 - p)])
Part(b, des) == IF b.s = 0 THEN "" ELSE BigText(b) \o des
\* D: the duration (for its sign), A: its balanced absolute value
FmtDurationA(D, A, p) ==
  LET ss == SplitSec(SecNs(A))
      datePart == Part(A.y, "Y") \o Part(A.mo, "M") \o Part(A.w, "W") \o Part(A.d, "D")
      secPart == IF SecNs(A).s # 0 \/ DefaultLargest(A) = "second" \/ p # -1
                 THEN BigText(ss.secs) \o Frac(ss.sub, p) \o "S" ELSE ""
      timePart == Part(A.h, "H") \o Part(A.mi, "M") \o secPart
  IN (IF DurSign(D) = -1 /\ DurSign(A) # 0 THEN "-" ELSE "") \o "P" \o datePart \o (IF timePart = "" THEN "" ELSE "T" \o timePart)
FmtDuration(D, p) == FmtDurationA(D, BalanceFor(AbsDur(D), p), p)
\* the value a duration string stands for: sub-second fields folded into seconds and re-split
Fold(D) == LET A == AbsDur(D)
               ss == SplitSec(SecNs(A))
               F == [A EXCEPT !.s = ss.secs, !.ms = FromInt(ss.sub \div 1000000), !.us = FromInt((ss.sub \div 1000) % 1000), !.ns = FromInt(ss.sub % 1000)]
           IN IF DurSign(D) = -1 THEN NegDur(F) ELSE F

(* ---------------- one entry point ---------------- *)
\* o = [p, su, cd, od, zd, tz]  (fields a type does not use are ignored)
Format(ty, v, o) ==
  LET p == EffPrec(o.p, o.su) IN
  CASE ty = "PlainDate" -> FmtPlainDate(v, o.cd)
    [] ty = "PlainDateTime" -> FmtPlainDateTime(v, p, o.cd)
    [] ty = "PlainTime" -> FmtPlainTime(v, p)
    [] ty = "PlainYearMonth" -> FmtYearMonth(v, o.cd)
    [] ty = "PlainMonthDay" -> FmtMonthDay(v, o.cd)
    [] ty = "Instant" -> FmtInstant(v, p, o.tz)
    [] ty = "ZonedDateTime" -> FmtZoned(v, p, o.od, o.zd, o.cd)
    [] ty = "Duration" -> FmtDuration(v, p)
DefaultOpts == [p |-> -1, su |-> "", cd |-> "auto", od |-> "auto", zd |-> "auto", tz |-> <<>>]
\* options a formatter accepts: durations refuse hour/minute as smallest unit; digits are 0..9
OptsValid(ty, o) == o.p \in -1..9 /\ ~(ty = "Duration" /\ o.su = "minute")

\* the value the printed text still determines (what a parse of it must return), or "lost" if the type cannot be read back
TruncTime(t, p) == LET x == TruncSub(SubNs(t), p) IN
                   [h |-> t.h, mi |-> t.mi, s |-> IF p = -2 THEN 0 ELSE t.s, ms |-> x \div 1000000, us |-> (x \div 1000) % 1000, ns |-> x % 1000]
ShownCal(cal, cd) == IF cd = "never" THEN "iso8601" ELSE cal
Readback(ty, v, o) ==
  LET p == EffPrec(o.p, o.su) IN
  CASE ty = "PlainDate" -> [y |-> v.y, m |-> v.m, d |-> v.d, cal |-> ShownCal(v.cal, o.cd)]
    [] ty = "PlainDateTime" -> [y |-> v.y, m |-> v.m, d |-> v.d, cal |-> ShownCal(v.cal, o.cd)] @@ TruncTime(v, p)
    [] ty = "PlainTime" -> TruncTime(v, p)
    [] ty = "PlainYearMonth" -> [y |-> v.y, m |-> v.m, cal |-> ShownCal(v.cal, o.cd)]
    [] ty = "PlainMonthDay" -> [m |-> v.m, d |-> v.d, cal |-> ShownCal(v.cal, o.cd)]
    [] ty = "Instant" -> FloorBig(v, p)
    [] ty = "ZonedDateTime" -> [ns |-> FloorBig(v.ns, p), tz |-> Chars(ZoneText(v.tz)), cal |-> ShownCal(v.cal, o.cd)]
    [] ty = "Duration" -> LET X == Fold(BalanceFor(AbsDur(v), p)) IN IF DurSign(v) = -1 THEN NegDur(X) ELSE X
KeepsInfo(ty, v, o) ==
  LET p == EffPrec(o.p, o.su) IN
  /\ (ty \in {"PlainDate", "PlainDateTime", "PlainYearMonth", "PlainMonthDay", "ZonedDateTime"} => (o.cd # "never" \/ v.cal = "iso8601"))
  /\ (ty = "ZonedDateTime" => o.zd # "never")
  /\ (ty \in {"PlainDateTime", "PlainTime"} => TruncTime(v, p) = [h |-> v.h, mi |-> v.mi, s |-> v.s, ms |-> v.ms, us |-> v.us, ns |-> v.ns])
  /\ (ty = "Instant" => FloorBig(v, p) = v)
  /\ (ty = "ZonedDateTime" => FloorBig(v.ns, p) = v.ns)
  /\ (ty = "Duration" => p \in {-1, 9})
\* the value itself in the shape the parsers report (durations: folded; reference fields are not part of the value)
Canon(ty, v) == CASE ty = "Duration" -> Fold(v)
                  [] ty = "PlainYearMonth" -> [y |-> v.y, m |-> v.m, cal |-> v.cal]
                  [] ty = "PlainMonthDay" -> [m |-> v.m, d |-> v.d, cal |-> v.cal]
                  [] ty = "ZonedDateTime" -> [v EXCEPT !.tz = Chars(ZoneText(v.tz))]
                  [] OTHER -> v

\* a formatter call fails exactly when the options are invalid or truncation leaves the type's range
FormatFails(ty, v, o) ==
  LET t == TruncTime(v, EffPrec(o.p, o.su)) IN
  ty = "PlainDateTime" /\ ~DateTimeInRange(DFC(v), [h |-> t.h, mi |-> t.mi, s |-> t.s, fr |-> SubNs(t)])
FormatOut(ty, v, o) == IF ~OptsValid(ty, o) \/ FormatFails(ty, v, o) THEN ErrRange ELSE Ok(Chars(Format(ty, v, o)))

(* ---------------- enum names ---------------- *)
EnumTable ==
  [Unit |-> <<<<"Auto", "auto">>, <<"Nanosecond", "nanosecond">>, <<"Microsecond", "microsecond">>, <<"Millisecond", "millisecond">>,
              <<"Second", "second">>, <<"Minute", "minute">>, <<"Hour", "hour">>, <<"Day", "day">>, <<"Week", "week">>, <<"Month", "month">>, <<"Year", "year">>>>,
   RoundingMode |-> <<<<"Ceil", "ceil">>, <<"Floor", "floor">>, <<"Expand", "expand">>, <<"Trunc", "trunc">>, <<"HalfCeil", "halfCeil">>,
                      <<"HalfFloor", "halfFloor">>, <<"HalfExpand", "halfExpand">>, <<"HalfTrunc", "halfTrunc">>, <<"HalfEven", "halfEven">>>>,
   ArithmeticOverflow |-> <<<<"Constrain", "constrain">>, <<"Reject", "reject">>>>,
   DurationOverflow |-> <<<<"Constrain", "constrain">>, <<"Balance", "balance">>>>,
   Disambiguation |-> <<<<"Compatible", "compatible">>, <<"Earlier", "earlier">>, <<"Later", "later">>, <<"Reject", "reject">>>>,
   OffsetDisambiguation |-> <<<<"Use", "use">>, <<"Prefer", "prefer">>, <<"Ignore", "ignore">>, <<"Reject", "reject">>>>,
   DisplayCalendar |-> <<<<"Auto", "auto">>, <<"Always", "always">>, <<"Never", "never">>, <<"Critical", "critical">>>>,
   DisplayOffset |-> <<<<"Auto", "auto">>, <<"Never", "never">>>>,
   DisplayTimeZone |-> <<<<"Auto", "auto">>, <<"Never", "never">>, <<"Critical", "critical">>>>]
Enums == DOMAIN EnumTable
EnumText(e, variant) == LET t == EnumTable[e] IN t[CHOOSE i \in 1..Len(t) : t[i][1] = variant][2]
\* the variant a name stands for ("" if none); unit names also have a plural form
EnumParse(e, text) ==
  LET t == EnumTable[e]
      hit == {i \in 1..Len(t) : t[i][2] = text \/ (e = "Unit" /\ t[i][1] # "Auto" /\ t[i][2] \o "s" = text)}
  IN IF hit = {} THEN "" ELSE t[CHOOSE i \in hit : TRUE][1]

=============================================================================
