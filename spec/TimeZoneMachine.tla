--------------------------- MODULE TimeZoneMachine ---------------------------
(* Enumerates (zone, wall reading) situations and steps through the conversion operations; C13's clauses as laws. *)
EXTENDS TimeZone
CONSTANTS Zones, Walls, IWalls, Instants, OneStep      \* IWalls: wall readings used with explicit offsets / offset options
VARIABLES cur, last
vars == <<cur, last>>
None == [op |-> "none"]
Diss == {"compatible", "earlier", "later", "reject"}
OffOpts == {"use", "ignore", "prefer", "reject"}
Init == cur \in Zones /\ last = None
FromLocal(w, dis) == last' = [op |-> "fromLocal", z |-> cur, w |-> w, dis |-> dis, out |-> Disambiguate(cur, w, dis)] /\ UNCHANGED cur
ToWall(t) == last' = [op |-> "wall", z |-> cur, t |-> t, out |-> Ok([w |-> Wall(cur, t), off |-> OffsetAt(cur, t)])] /\ UNCHANGED cur
\* explicit offsets tried: every zone offset exact, its minute rounding, a wrong one
OffCands(z, w) == {[k |-> "none", o |-> 0], [k |-> "z", o |-> 0], [k |-> "offset", o |-> 3600 * 7 + 60 * 13]}
                  \cup {[k |-> "offset", o |-> o] : o \in AllOffsets(z)} \cup {[k |-> "offset", o |-> RoundToMinute(o)] : o \in AllOffsets(z)}
                  \* the two whole minutes around each offset: at a 30 s tie only the one away from zero matches (half-expand)
                  \cup {[k |-> "offset", o |-> (o \div 60) * 60] : o \in AllOffsets(z)} \cup {[k |-> "offset", o |-> (o \div 60) * 60 + 60] : o \in AllOffsets(z)}
FromString(w, oc, dis, oo) == last' = [op |-> "interpret", z |-> cur, w |-> w, oc |-> oc, dis |-> dis, oo |-> oo,
                                       out |-> Interpret(cur, w, oc.k, oc.o, dis, oo, TRUE)] /\ UNCHANGED cur
\* the same string as a relativeTo option (RelativeTo::try_from_str): a second entry point with fixed options compatible / reject
RelTo(w, oc) == last' = [op |-> "relto", z |-> cur, w |-> w, oc |-> oc, dis |-> "compatible", oo |-> "reject",
                         out |-> Interpret(cur, w, oc.k, oc.o, "compatible", "reject", TRUE)] /\ UNCHANGED cur
\* PlainDate.toZonedDateTime: without a time the start of the day (the first instant of the local day, also when midnight is skipped);
\* with the time 00:00 the wall-clock reading midnight under compatible (pushed forward by the gap)
FromDate(day, tt) == last' = [op |-> "fromDate", z |-> cur, day |-> day, tt |-> tt,
                              out |-> IF tt = "none" THEN Ok(StartOfDay(cur, day * 86400)) ELSE Disambiguate(cur, day * 86400, "compatible")] /\ UNCHANGED cur
\* property bags: offsets of whole minutes only, never Z
BagCands(z, w) == {c \in OffCands(z, w) : c.k # "z" /\ c.o % 60 = 0}
FromBag(w, oc, dis, oo) == last' = [op |-> "bag", z |-> cur, w |-> w, oc |-> oc, dis |-> dis, oo |-> oo,
                                    out |-> InterpretBag(cur, w, oc.k, oc.o, dis, oo)] /\ UNCHANGED cur
\* a property bag with date fields only (tf = "none") or with time fields that are all zero (tf = "zero"), no offset: InterpretTemporalDateTimeFields
\* gives the time record 00:00 in both cases (never the start-of-day marker, which belongs to date-only *strings*), so the result is
\* midnight's wall-clock reading under the caller's disambiguation - also when midnight is skipped or repeated
FromBagDate(day, tf, dis) == last' = [op |-> "bagDate", z |-> cur, day |-> day, tf |-> tf, dis |-> dis, out |-> Disambiguate(cur, day * 86400, dis)] /\ UNCHANGED cur
Vias == {"direct", "now", "instant", "rezone", "string"}
View(t, via) == last' = [op |-> "views", z |-> cur, t |-> t, via |-> via,
                         out |-> IF via = "string" THEN (LET r == StringTrip(cur, t) IN IF r.kind = "ok" THEN Ok(Views(cur, r.val)) ELSE r) ELSE Ok(Views(cur, t))] /\ UNCHANGED cur
\* toString with smallestUnit and a rounding mode, of the zoned date-time and of the instant shown in the zone
Text(t, fd, unit, mode, via) == last' = [op |-> "text", z |-> cur, t |-> t, fd |-> fd, unit |-> unit, mode |-> mode, via |-> via,
                                        out |-> Ok(RoundedText(cur, t, fd, unit, mode))] /\ UNCHANGED cur
TextModes == {"trunc", "ceil", "halfExpand", "floor", "halfTrunc"}
\* instants one second / a fraction of a second before every transition, and the grid
TextInstants(z) == Instants \cup {z.trans[i].at - 1 : i \in 1..NT(z)} \cup {z.trans[i].at - 20 : i \in 1..NT(z)}
Next == /\ (OneStep => last = None)
        /\ \/ \E w \in Walls, dis \in Diss : FromLocal(w, dis)
           \/ \E t \in Instants : ToWall(t)
           \/ \E t \in Instants, via \in Vias : View(t, via)
           \/ \E t \in TextInstants(cur), fd \in {0, 4, 5, 6}, unit \in {1, 60}, mode \in TextModes, via \in {"zoned", "instant"} : Text(t, fd, unit, mode, via)
           \/ \E w \in IWalls, dis \in {"compatible", "reject"}, oo \in OffOpts : \E oc \in OffCands(cur, w) : FromString(w, oc, dis, oo)
           \/ \E w \in IWalls, dis \in {"compatible", "later"}, oo \in OffOpts : \E oc \in BagCands(cur, w) : FromBag(w, oc, dis, oo)
           \/ \E w \in IWalls : \E oc \in OffCands(cur, w) : RelTo(w, oc)
           \/ \E day \in {-1, 0, 1, 2}, tt \in {"none", "midnight"} : FromDate(day, tt)
           \/ \E day \in {-1, 0, 1, 2}, tf \in {"none", "zero"}, dis \in Diss : FromBagDate(day, tf, dis)
Spec == Init /\ [][Next]_vars
\* the property-bag steps alone (C17: a zoned record reads only the fields it is given; absent time fields are zero, and so is a supplied zero)
NextBag == /\ (OneStep => last = None)
           /\ \/ \E day \in {-1, 0, 1, 2}, tf \in {"none", "zero"}, dis \in Diss : FromBagDate(day, tf, dis)
              \/ \E w \in IWalls, dis \in {"compatible", "later"}, oo \in OffOpts : \E oc \in BagCands(cur, w) : FromBag(w, oc, dis, oo)
SpecBag == Init /\ [][NextBag]_vars
\* the text steps alone (C11: what is printed is the rounded value as its zone reads it)
NextText == /\ (OneStep => last = None)
            /\ \E t \in TextInstants(cur), fd \in {0, 4, 5, 6}, unit \in {1, 60}, mode \in TextModes, via \in {"zoned", "instant"} : Text(t, fd, unit, mode, via)
SpecText == Init /\ [][NextText]_vars

\* the text of a rounded value is a reading of its own zone: the wall reading minus an offset of the zone (up to the minute rounding) never
\* moves the instant by more than the rounding unit
TextLaw == last.op = "text" /\ (\A o \in AllOffsets(last.z) : o % 60 = 0) =>
  \E oo \in AllOffsets(last.z) : /\ RoundToMinute(oo) = last.out.val.off
                                  /\ LET r == last.out.val.w - oo IN /\ r - last.t \in (-last.unit)..last.unit /\ r % last.unit = 0
                                                                     /\ (last.mode \in {"trunc", "floor"} => r <= last.t) /\ (last.mode = "ceil" => r >= last.t)
                                                                     /\ OffsetAt(last.z, r) = oo
\* every candidate maps back to the reading
MapsBack == last.op = "fromLocal" => \A i \in 1..Len(Possible(last.z, last.w)) : Wall(last.z, Possible(last.z, last.w)[i]) = last.w
\* unique / repeated / skipped, as the property states it (on READINGS, never on instants)
DisLaw == (last.op = "fromLocal") =>
  LET c == Classify(last.z, last.w)   P == Possible(last.z, last.w)
  IN /\ (c = "unique" => last.out = Ok(P[1]))
     /\ (c = "overlap" => /\ (last.dis \in {"compatible", "earlier"} => last.out = Ok(P[1]))
                          /\ (last.dis = "later" => last.out = Ok(P[Len(P)]))
                          /\ (last.dis = "reject" => last.out = ErrRange)
                          /\ P[1] < P[Len(P)])
     /\ (c = "gap" /\ last.out.kind # "any" => /\ (last.dis = "reject" => last.out = ErrRange)
                      /\ GapOf(last.z, last.w) > 0
                      \* shifted forward by the gap under compatible/later, backward under earlier - whatever its size
                      /\ (last.dis \in {"compatible", "later"} => Wall(last.z, last.out.val) = last.w + GapOf(last.z, last.w))
                      /\ (last.dis = "earlier" => Wall(last.z, last.out.val) = last.w - GapOf(last.z, last.w)))
\* both readings of a date land on that local day or, in a gap, just past it; without a time nothing of the day comes earlier
FromDateLaw == last.op = "fromDate" /\ last.out.kind = "ok" =>
  /\ Wall(last.z, last.out.val) >= last.day * 86400
  /\ (last.tt = "none" => \A t \in (last.out.val - 7200)..(last.out.val - 1) : Wall(last.z, t) < last.day * 86400 \/ Wall(last.z, t) >= last.day * 86400 + 86400)
WallLaw == last.op = "wall" => last.out.val.w = last.t + last.out.val.off /\ last.out.val.off \in AllOffsets(last.z)
InterpretLaw == last.op \in {"interpret", "relto"} =>
  /\ (last.oc.k = "z" => last.out = Ok(last.w))
  /\ (last.oc.k = "offset" /\ last.oo = "use" => last.out = Ok(last.w - last.oc.o))
  /\ (last.oc.k = "offset" /\ last.oo = "ignore" => last.out = Disambiguate(last.z, last.w, last.dis))
  /\ (last.oc.k = "offset" /\ last.oo = "reject" /\ last.out.kind = "ok" =>
        Wall(last.z, last.out.val) = last.w /\ (last.w - last.out.val = last.oc.o \/ RoundToMinute(last.w - last.out.val) = last.oc.o))
  \* (candidates are tried in ascending order and each by both tests: an earlier candidate whose offset merely ROUNDS to the given one
  \* wins over a later exact one - refuted without this condition on the zone +01:00:12 -> +01:00)
  /\ (last.oc.k = "offset" /\ last.oo = "prefer" /\ (\E p \in PossibleSet(last.z, last.w) : last.w - p = last.oc.o)
        /\ ~(\E q \in PossibleSet(last.z, last.w) : q < last.w - last.oc.o /\ RoundToMinute(last.w - q) = last.oc.o) => last.out = Ok(last.w - last.oc.o))
\* every view of an instant is the same instant read through the offset in force; date and time split the wall reading
ViewLaw == last.op = "views" /\ last.via # "string" =>
  LET v == last.out.val IN /\ v.t = last.t /\ v.w = v.t + v.off /\ v.off = OffsetAt(last.z, last.t)
                           /\ v.day * 86400 + v.sod = v.w /\ v.sod \in 0..86399
\* a printed zoned date-time reads back as the same instant (also inside a repeated hour: the offset tells the two apart) unless the
\* two candidates' offsets agree at minute precision
StringTripLaw == last.op = "views" /\ last.via = "string" =>
  LET P == Possible(last.z, Wall(last.z, last.t))
  IN (\A i, j \in 1..Len(P) : i # j => RoundToMinute(Wall(last.z, last.t) - P[i]) # RoundToMinute(Wall(last.z, last.t) - P[j])) => last.out = Ok(Views(last.z, last.t))
=============================================================================
