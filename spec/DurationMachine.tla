-------------------------- MODULE DurationMachine --------------------------
(* State machine over Duration: `cur` is the current duration of a session; one action per public operation; C09's laws. *)
EXTENDS Duration
CONSTANTS Durs, Candidates, RoundOpts, OneStep   \* Durs: valid durations; Candidates: arbitrary ten-field vectors for New; RoundOpts: [lg, sm, inc, mode]
VARIABLES cur, last
vars == <<cur, last>>
None == [op |-> "none"]
Init == cur \in Durs /\ last = None
Move(o) == IF o.kind = "ok" THEN o.val ELSE cur
NewAct(D) == last' = [op |-> "new", d |-> D, out |-> DurNew(D)] /\ cur' = cur
\* the same candidate vectors as property bags: only the fields in S are supplied
KeySets == {{}, DurKeySet, {"y", "ns"}, {"d", "h"}, {"mo", "w", "s"}} \cup {{k} : k \in DurKeySet}
\* (independent of the session's current duration: explored from one anchor only)
Anchor == CHOOSE c \in Durs : TRUE
FromPartialAct(D, S) == cur = Anchor /\ LET p == [k \in S |-> D[k]] IN last' = [op |-> "fromPartial", d |-> D, p |-> p, out |-> DurFromPartial(p)] /\ cur' = cur
\* Duration::from_day_and_time(day, time): a duration exists only if its fields share one sign and stay inside the limits - whichever constructor built it
DayTimeOnly(D) == IsZero(D.y) /\ IsZero(D.mo) /\ IsZero(D.w)
FromDayTimeAct(D) == cur = Anchor /\ DayTimeOnly(D) /\ last' = [op |-> "fromDayAndTime", d |-> D, out |-> DurNew(D)] /\ cur' = cur
NegAct == last' = [op |-> "negated", a |-> cur, out |-> Ok(NegDur(cur))] /\ cur' = NegDur(cur)
AbsAct == last' = [op |-> "abs", a |-> cur, out |-> Ok(AbsDur(cur))] /\ cur' = AbsDur(cur)
SignAct == last' = [op |-> "sign", a |-> cur, out |-> Ok(DurSign(cur))] /\ cur' = cur
\* the same calls with every zero field handed over as the double -0.0: a duration's fields are mathematical integers, and -0.0 IS zero -
\* it has no sign, does not make a duration negative or mixed-sign, and a duration of such fields is the zero duration
NewNzAct(D) == last' = [op |-> "new", d |-> D, nz |-> TRUE, out |-> DurNew(D)] /\ cur' = cur
NegNzAct == last' = [op |-> "negated", a |-> cur, nz |-> TRUE, out |-> Ok(NegDur(cur))] /\ cur' = cur
AbsNzAct == last' = [op |-> "abs", a |-> cur, nz |-> TRUE, out |-> Ok(AbsDur(cur))] /\ cur' = cur
SignNzAct == last' = [op |-> "sign", a |-> cur, nz |-> TRUE, out |-> Ok(DurSign(cur))] /\ cur' = cur
\* ... and with half a unit added to one field: the fields of a duration are integers, anything else is refused
NewHalfAct(D, k) == last' = [op |-> "new", d |-> D, half |-> k, out |-> ErrRange] /\ cur' = cur
InRangeAct == last' = [op |-> "timeInRange", a |-> cur, out |-> Ok(TimeFieldsInRange(cur))] /\ cur' = cur
AddAct(b) == LET o == DurAdd(cur, b) IN last' = [op |-> "add", a |-> cur, b |-> b, out |-> o] /\ cur' = Move(o)
SubAct(b) == LET o == DurSub(cur, b) IN last' = [op |-> "subtract", a |-> cur, b |-> b, out |-> o] /\ cur' = Move(o)
CmpAct(b) == last' = [op |-> "compare", a |-> cur, b |-> b, out |-> DurCompare(cur, b)] /\ cur' = cur
\* (largest unit "absent": the call leaves it out - the larger of the duration's own largest unit and the smallest unit)
RoundAct(o) == LET r == DurRound(cur, IF o.lg = "absent" THEN UnitMax(DefaultLargest(cur), o.sm) ELSE o.lg, o.sm, o.inc, o.mode)
               IN last' = [op |-> "round", a |-> cur, o |-> o, out |-> r] /\ cur' = Move(r)
TotalAct(u) == last' = [op |-> "total", a |-> cur, u |-> u, out |-> DurTotal(cur, u)] /\ cur' = cur
Next == /\ (OneStep => last = None)
        /\ \/ \E D \in Candidates : NewAct(D)
           \/ \E D \in Candidates, S \in KeySets : FromPartialAct(D, S)
           \/ \E D \in Candidates : FromDayTimeAct(D)
           \/ NegAct \/ AbsAct \/ SignAct \/ InRangeAct
           \/ NegNzAct \/ AbsNzAct \/ SignNzAct \/ (\E D \in Candidates : NewNzAct(D))
           \/ (cur = Anchor /\ \E D \in Candidates, k \in {"y", "d", "h", "s", "ns"} : NewHalfAct(D, k))
           \/ \E b \in Durs : AddAct(b) \/ SubAct(b) \/ CmpAct(b)
           \/ \E o \in RoundOpts : RoundAct(o)
           \/ \E u \in {"day", "hour", "minute", "second", "millisecond", "microsecond", "nanosecond", "week", "auto"} : TotalAct(u)
Spec == Init /\ [][Next]_vars

CurValid == ValidDur(cur)
OutValid == (last.op \in {"negated", "abs", "add", "subtract", "round"} /\ last.out.kind = "ok") => ValidDur(last.out.val)
SignLaws == /\ (last.op = "negated" => NegDur(last.out.val) = last.a /\ DurSign(last.out.val) = -DurSign(last.a))
            /\ (last.op = "abs" => DurSign(last.out.val) = AbsI(DurSign(last.a)) /\ (DurSign(last.a) >= 0 => last.out.val = last.a)
                                   /\ (DurSign(last.a) < 0 => last.out.val = NegDur(last.a)))
            /\ (last.op = "sign" => last.out.val \in {-1, 0, 1})
FieldsExactAll(D) == \A i \in 1..10 : Le(Abs(DurFields(D)[i]), TwoTo53)
AddLaws == last.op \in {"add", "subtract"} =>
  /\ (last.op = "add" => last.out = DurAdd(last.b, last.a))                              \* commutative
  /\ (last.op = "subtract" => last.out = DurAdd(last.a, NegDur(last.b)))
  /\ (last.out.kind = "ok" =>
        LET exact == IF last.op = "add" THEN Add(DayTimeNs(last.a), DayTimeNs(last.b)) ELSE Sub(DayTimeNs(last.a), DayTimeNs(last.b))
        IN /\ ~HasCalendarUnits(last.out.val)
           /\ (FieldsExactAll(last.out.val) => Eq(DayTimeNs(last.out.val), exact))
           /\ UnitLe(DefaultLargest(last.out.val), UnitMax(DefaultLargest(last.a), DefaultLargest(last.b))))
  /\ ((HasCalendarUnits(last.a) \/ HasCalendarUnits(last.b)) => last.out = ErrRange)
CmpLaws == last.op = "compare" =>
  /\ (last.out.kind = "ok" => DurCompare(last.b, last.a) = Ok(-last.out.val))                         \* antisymmetric
  /\ (last.out.kind = "ok" /\ last.out.val = 0 /\ last.a # last.b => Eq(DayTimeNs(last.a), DayTimeNs(last.b)))
RoundLaws == last.op = "round" =>
  \* round(-d) = -round(d) with ceil/floor-type modes mirrored
  LET m == DurRound(NegDur(last.a), IF last.o.lg = "absent" THEN UnitMax(DefaultLargest(last.a), last.o.sm) ELSE last.o.lg, last.o.sm, last.o.inc, NegateMode(last.o.mode))
  IN IF last.out.kind = "ok" THEN m = Ok(NegDur(last.out.val)) ELSE m = last.out
TotalLaws == last.op = "total" => (last.out.kind = "ok" =>
  /\ Eq(Mul(last.out.val.d, FromInt(1)), UnitNsBig(last.u))
  /\ DurTotal(NegDur(last.a), last.u) = Ok([n |-> Neg(last.out.val.n), d |-> last.out.val.d]))
NewLaws == last.op = "new" /\ "half" \notin DOMAIN last => (last.out.kind = "ok") = ValidDur(last.d)
\* a bag is a TypeError exactly when it is empty; a full bag is the constructor; absent fields never turn a valid vector invalid
PartialLaws == last.op = "fromPartial" =>
  /\ (last.out.kind = "type") = (DOMAIN last.p = {})
  /\ (DOMAIN last.p = DurKeySet => last.out = DurNew(last.d))
  /\ (DOMAIN last.p # {} /\ ValidDur(last.d) => last.out = Ok(FillDur(last.p)))
  /\ (last.out.kind = "ok" => \A k \in DurKeySet \ DOMAIN last.p : IsZero(last.out.val[k]))
=============================================================================
