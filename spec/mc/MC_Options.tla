----------------------------- MODULE MC_Options -----------------------------
EXTENDS OptionsMachine, TLC, Json
AllIncs == {1, 2, 3, 4, 5, 7, 10, 12, 24, 25, 30, 59, 60, 100, 500, 999, 1000, 1440, 86400, 86400000, 864000000, 999999999, 1000000000}
BadIncs == {0, 1000000001}
AllModeOpts == Modes \cup {Absent}
FewModeOpts == {Absent, "ceil", "halfEven"}
St == LET b0 == [inc |-> cell.inc]
          b1 == IF cell.lg = Absent THEN b0 ELSE [b0 EXCEPT !.inc = cell.inc] @@ [largest |-> cell.lg]
          b2 == IF cell.sm = Absent THEN b1 ELSE b1 @@ [smallest |-> cell.sm]
      IN IF last.mode = Absent THEN b2 ELSE b2 @@ [mode |-> last.mode]
Cls == cell.op \o (IF last.same THEN "/same-operands/" ELSE IF "oz" \in DOMAIN last.operands /\ last.operands.oz THEN "/other-zone/" ELSE "/") \o (IF last.res.kind = "ok" THEN "accepted" ELSE "rejected") \o "/sm-" \o cell.sm \o "/lg-" \o cell.lg
CaseOf == IF IsTable THEN [op |-> "Opt." \o last.op, cls |-> last.op, args |-> last.operands, out |-> last.out] ELSE
          [op |-> "Opt." \o cell.op, cls |-> Cls, args |-> [st |-> St, operands |-> last.operands, same |-> last.same], out |-> last.out]
Emit == ~Done \/ PrintT("CASE " \o ToJson(CaseOf))
=============================================================================
