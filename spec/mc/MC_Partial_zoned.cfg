SPECIFICATION Spec
CONSTANTS
  Receivers <- NoSet
  PartialsOf <- ZonedP
  FromTypes <- FromZoned
  NewArgs <- NoSet
  IdentityOn = FALSE
  OneStep = TRUE
INVARIANTS UsesOnlySupplied DefaultsAreZero IdentityLaw ClampNearest RejectSound RejectComplete ConstrainComplete RejectRefinesConstrain TypeErrorIff WellFormed
CHECK_DEADLOCK FALSE
