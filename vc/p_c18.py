"""C18 - year-months and month-days are canonical and count whole months.
YearMonth.tla / YearMonthMachine.tla model checked on bounded instances (all construction routes at both limits and ordinary months,
pairwise route comparison, all year/month durations of a window, week/day units, month-days), every transition replayed,
seeded full-range sessions judged by Trace_YearMonth."""
import json, os
from . import lib
from .lib import ToolError, log


def corrupt_case(lines):
    for e in lines:
        if e["op"] == "PlainYearMonth.route" and e["out"].get("kind") == "ok":
            e["out"]["val"]["rd"] = e["out"]["val"]["rd"] % 28 + 1
            return True
    return False


def corrupt_event(evs):
    for e in evs:
        if e.get("op") in ("PlainYearMonth.add", "PlainYearMonth.subtract") and e["out"]["kind"] == "ok":
            e["out"]["val"]["m"] = e["out"]["val"]["m"] % 12 + 1
            return True
    return False


OPS = {"PlainYearMonth.route", "PlainYearMonth.cmp", "PlainYearMonth.add", "PlainYearMonth.subtract", "PlainYearMonth.until", "PlainYearMonth.since",
       "PlainMonthDay.route", "PlainMonthDay.cmp"}
NEEDLES = ["str/min", "str/max", "str+day/", "str+day+time/", "date/min", "date/max", "partial/", "partial+day/", "new/", "new+ref/", "with/", "beyond", "feb29",
           "explicit~plain", "canonical/in-range/ok", "canonical/in-range/beyond", "canonical/min-month/", "explicit-ref/", "/refused", "/year", "/month"]


def _vacuity(paths):
    """non-vacuity: every operation, every kind of route (at both limits), both arithmetic outcomes, the refused units occur"""
    ops, classes = set(), set()
    for p in paths:
        with open(p) as f:
            for l in f:
                c = json.loads(l)
                ops.add(c["op"]); classes.add(c["cls"])
    missing = sorted(OPS - ops) + [n for n in NEEDLES if not any(n in c for c in classes)]
    if missing:
        raise ToolError(f"vacuous C18 instance: never generated {missing}")


def _nontrivial(path):
    seen = set()
    with open(path) as f:
        for l in f:
            c = json.loads(l)
            op, cls = c["op"], c.get("cls", "")
            plain = op.endswith(".route") and (cls.startswith("new/mid") or cls.startswith("str/mid"))
            if not plain:
                seen.add(l)
    return len(seen)


def run(run):
    b = lib.build_harness("dev")
    q = run.tier == "quick"
    nontrivial = 0
    first = None
    files = []
    for c in (["routes", "qarith"] if q else ["routes", "tarith"]):
        cases, n = run.gen("mc/MC_YearMonth.tla", f"gen/Gen_C18_{c}.cfg", workers=4, name=c, timeout=1500)
        run.replay(b, cases, label=c)
        nontrivial += _nontrivial(cases)
        first = first or cases
        files.append(cases)
    _vacuity(files)
    run.negative_control_replay(b, first, corrupt_case, limit=4000)
    tr = run.record(b, "c18", 40000 if q else 600000)
    run.validate("trace/Trace_YearMonth.tla", "trace/Trace_YearMonth.cfg", tr)
    small = os.path.join(run.dir, "c18.small.trace.ndjson")
    with open(tr) as f, open(small, "w") as g:
        for i, l in enumerate(f):
            if i < 800:
                g.write(l)
    run.negative_control_trace("trace/Trace_YearMonth.tla", "trace/Trace_YearMonth.cfg", small, corrupt_event)
    with open(tr) as f:
        nontrivial += sum(1 for l in f if '"reset"' not in l)
    # second trace leg: until/since with year/month smallest units, increments > 1 and all rounding modes, judged by the
    # relative-rounding specification applied to the first of the month (RelativeRound via Trace_Relative)
    tr2 = run.record(b, "c18r", 3000 if run.tier == "quick" else 40000, label="c18r")
    run.validate("trace/Trace_Relative.tla", "trace/Trace_Relative.cfg", tr2, label="c18r")
    run.cov["rule"] = ("replay: every construction route, every ordered pair of routes to the same month, every (year-month, duration, overflow, add|subtract) and "
                       "(year-month, year-month, settings, until|since) transition of the bounded YearMonthMachine instances is one distinct case (TLC distinct states); "
                       "trivial = constructor / bare YYYY-MM string of an ordinary month; traces: seeded sessions over the whole range (distinct by the PRNG stream)")
    run.cov["distinct_nontrivial"] = nontrivial
    run.assumptions += ["the hidden reference day of a year-month is read from to_ixdtf_string(DisplayCalendar::Always) (there is no getter); a month-day's reference year from iso_year()",
                        "durations added to a year-month have years and months only (the property is silent about other fields)",
                        "for -271821-04, whose first day is not a representable plain date, arithmetic may either give the whole-month answer or a RangeError",
                        "acceptance of a full date string as a month-day string is a grammar question (C12): either a RangeError or the canonical month-day is accepted",
                        "ISO calendar only"]
