-------------------------- MODULE ZonedArithMachine --------------------------
(* (zone, instant) sessions over ZonedArith; C14's clauses as laws. *)
EXTENDS ZonedArith
CONSTANTS Zones, Instants, Durs, Largests, OneStep
VARIABLES cur, last
vars == <<cur, last>>
None == [op |-> "none"]
Init == cur \in [z : Zones, t : Instants] /\ last = None
AddAct(D, ovf) == LET o == ZAdd(cur.z, cur.t, D, ovf) IN last' = [op |-> "add", z |-> cur.z, t |-> cur.t, dur |-> D, ovf |-> ovf, out |-> o] /\ cur' = [cur EXCEPT !.t = IF o.kind = "ok" /\ o.val \in Instants THEN o.val ELSE cur.t]
SubAct(D, ovf) == LET o == ZSub(cur.z, cur.t, D, ovf) IN last' = [op |-> "subtract", z |-> cur.z, t |-> cur.t, dur |-> D, ovf |-> ovf, out |-> o] /\ UNCHANGED cur
DiffAct(t2, lg, since) == /\ last' = [op |-> IF since THEN "since" ELSE "until", z |-> cur.z, t |-> cur.t, t2 |-> t2, lg |-> lg,
                                     out |-> IF since THEN ZSince(cur.z, cur.t, t2, lg) ELSE ZUntil(cur.z, cur.t, t2, lg)]
                          /\ cur' = [cur EXCEPT !.t = t2]
\* the other operand in ANOTHER time zone (same instant t2): a time largest unit still gives the exact elapsed time - zones play no part in it -
\* and a date largest unit is a RangeError (day lengths differ between zones)
OtherZone(same, lg) == IF lg \in DateUnits /\ IsOtherZone(cur.z, "+03:00") THEN ErrRange ELSE same
DiffOzAct(t2, lg, since) == /\ last' = [op |-> IF since THEN "since" ELSE "until", z |-> cur.z, t |-> cur.t, t2 |-> t2, lg |-> lg, oz |-> "+03:00",
                                       out |-> OtherZone(IF since THEN ZSince(cur.z, cur.t, t2, lg) ELSE ZUntil(cur.z, cur.t, t2, lg), lg)]
                            /\ UNCHANGED cur
SodAct == last' = [op |-> "startOfDay", z |-> cur.z, t |-> cur.t, out |-> Ok(ZStartOfDay(cur.z, cur.t))] /\ UNCHANGED cur
WptAct(sod) == last' = [op |-> "withPlainTime", z |-> cur.z, t |-> cur.t, sod |-> sod, out |-> ZWithPlainTime(cur.z, cur.t, sod)] /\ UNCHANGED cur
HidAct == last' = [op |-> "dayLength", z |-> cur.z, t |-> cur.t, out |-> Ok(DayLength(cur.z, cur.t))] /\ UNCHANGED cur
Next == /\ (OneStep => last = None)
        /\ \/ \E D \in Durs, ovf \in {"constrain", "reject"} : AddAct(D, ovf) \/ SubAct(D, ovf)
           \/ \E t2 \in Instants, lg \in Largests, s \in BOOLEAN : DiffAct(t2, lg, s)
           \/ \E t2 \in Instants, lg \in Largests, s \in BOOLEAN : DiffOzAct(t2, lg, s)
           \/ SodAct \/ HidAct
           \/ \E sod \in {0, 1800, 2 * 3600 + 1800, 3 * 3600, 12 * 3600, 86399} : WptAct(sod)
           \* ... and the time the receiver already shows: inside a repeated interval the answer is the EARLIER occurrence, not the receiver
           \/ WptAct(Wall(cur.z, cur.t) % 86400)
Spec == Init /\ [][Next]_vars

IsDiff == last.op \in {"until", "since"} /\ last.out.kind = "ok"
DiffLaws == IsDiff =>
  LET D == last.out.val   U == IF last.op = "since" THEN NegDur(D) ELSE D
      sec == TimeSec(U)
  IN /\ SignUniform(D)
     \* add() maps the receiver exactly onto the other instant. (Stated for receivers that are the `compatible` reading of their own
     \* wall time: from the second occurrence of a repeated wall time Temporal's day-correction re-resolves the start to the first
     \* occurrence, so the law cannot hold there - TLC's counterexample: fall-back at 01:00, receiver = the later 01:00, other = 18 h earlier.)
     /\ (Disambiguate(last.z, Wall(last.z, last.t), "compatible") = Ok(last.t) /\ (last.lg \in DateUnits => Disambiguate(last.z, Wall(last.z, last.t2), "compatible") = Ok(last.t2))
           => ZAdd(last.z, last.t, U, "constrain") = Ok(last.t2))
     \* a time largest unit gives the exact elapsed time
     /\ (last.lg \in TimeUnits => ~HasDatePart(D) /\ sec = last.t2 - last.t)
     \* with a date largest unit the time part is shorter than the local day it falls in (never more than 2 days even across a 24 h skip)
     /\ (last.lg \in DateUnits => AbsI(sec) < 2 * 86400)
\* withPlainTime keeps the local date and sets the time - unless that wall-clock time is skipped, when it is shifted forward by the gap
WptLaws == (last.op = "withPlainTime" /\ last.out.kind = "ok") =>
  LET w == Wall(last.z, last.out.val)   d0 == (Wall(last.z, last.t) \div 86400) * 86400
  IN IF Classify(last.z, d0 + last.sod) = "gap" THEN w = d0 + last.sod + GapOf(last.z, d0 + last.sod) ELSE w = d0 + last.sod
SodLaws == last.op = "startOfDay" =>
  LET s == last.out.val   d0 == (Wall(last.z, last.t) \div 86400) * 86400
  IN /\ s <= last.t
     /\ Wall(last.z, s) >= d0 /\ Wall(last.z, s) < d0 + 86400                  \* it is an instant of that local day
     /\ \A u \in Instants : (u < s => ~(Wall(last.z, u) >= d0 /\ Wall(last.z, u) < d0 + 86400 /\ \A v \in Instants : (u <= v /\ v <= s) => Wall(last.z, v) >= d0))
LenLaws == last.op = "dayLength" => last.out.val >= 0 /\ last.out.val <= 48 * 3600
=============================================================================
