----------------------------- MODULE MC_TimeZone -----------------------------
EXTENDS TimeZoneMachine, TLC, Json
H == 3600
\* offsets and changes incl. 30 min, LMT-like seconds, +-23 h / 24 h / 26 h jumps
\* -(44 min 30 s): a negative offset exactly half-way between two minutes (Africa/Monrovia until 1972) - the tie of match-minutes rounding
Offs == {0, H, -5 * H, 5 * H + 1800, -(4 * H + 56 * 60 + 2), -10 * H, 14 * H, -12 * H, -(44 * 60 + 30)}
Ats == {-86400, 0, 7200, 86400 + 1800, 2 * 86400}
Z0 == {[init |-> o, trans |-> <<>>] : o \in {0, 5 * H + 1800, -(4 * H + 56 * 60 + 2), -(44 * 60 + 30), 5 * H + 30}}
Z1 == {[init |-> a, trans |-> <<[at |-> t, off |-> b]>>] : a \in Offs, b \in Offs, t \in {0, 7200}} 
\* two transitions: big jumps two days apart (date-line style skip and the reverse), small DST-like pairs two hours apart
Z2 == {[init |-> a, trans |-> <<[at |-> 0, off |-> b], [at |-> 2 * 86400, off |-> c]>>] : a \in {0, -5 * H, -10 * H}, b \in {H, -4 * H, 14 * H, 16 * H}, c \in {0, -5 * H, -10 * H}}
      \cup {[init |-> a, trans |-> <<[at |-> 0, off |-> a + d1], [at |-> 7200, off |-> a + d1 + d2]>>] : a \in {0, -5 * H}, d1 \in {H, -H, 1800}, d2 \in {H, -H, -1800}}
\* a repeated interval of 12 s whose two offsets print as the same minute (+01:00:12 -> +01:00, as Africa/Ndjamena in 1911): an explicit
\* +01:00 matches the EARLIER instant (after rounding) before the later one (exactly) - candidates are tried in order
ZSameMinute == {[init |-> H + 12, trans |-> <<[at |-> 7200, off |-> H]>>], [init |-> -(H + 12), trans |-> <<[at |-> 7200, off |-> -(H + 20)]>>]}
\* gaps that swallow midnight and begin before it (23:30 -> 00:30, 23:00 -> 01:00), and a repeated midnight
ZMidnight == {[init |-> -5 * H, trans |-> <<[at |-> 4 * H + 1800, off |-> -4 * H]>>], [init |-> -5 * H, trans |-> <<[at |-> 4 * H, off |-> -3 * H]>>],
              [init |-> -4 * H, trans |-> <<[at |-> 4 * H + 1800, off |-> -5 * H]>>]}
\* two fall-backs twenty minutes apart (+02:00 -> +01:30 -> +01:00): a wall-clock time that occurs THREE times - earlier is the first, later the LAST
ZTriple == {[init |-> 2 * H, trans |-> <<[at |-> 0, off |-> H + 1800], [at |-> 1200, off |-> H]>>]}
QZones == ZTriple \cup ZMidnight \cup ZSameMinute \cup Z0 \cup {z \in Z1 : z.init # z.trans[1].off} \cup {z \in Z2 : z.init # z.trans[1].off /\ z.trans[1].off # z.trans[2].off}
Grid(lo, hi, step) == {lo + k * step : k \in 0..((hi - lo) \div step)}
QWalls == Grid(-2 * 86400, 4 * 86400, 1800) \cup {-17762, 7199, 7200, 7201}
QIWalls == {7200 + H + 5, 7200 - H - 15} \cup Grid(-20 * H, 20 * H, 3 * H) \cup Grid(2 * 86400 - 16 * H, 2 * 86400 + 16 * H, 4 * H) \cup {7199, 7200, -17762}
GWalls == Grid(-86400 - 12 * H, 3 * 86400, 1800) \cup {-17762, 7199, 7200, 7201}
QInstants == Grid(-86400 - 3600, 2 * 86400 + 3600, 3600) \cup {-1, 0, 1, 7199, 7200}
CloseTag == IF Classify(last.z, last.w) = "gap" /\ CloseTransitions(last.z) THEN "/close-transitions" ELSE ""
Cls == CASE last.op = "fromLocal" -> Classify(last.z, last.w) \o "/" \o last.dis \o (IF Classify(last.z, last.w) = "gap" THEN (IF GapOf(last.z, last.w) > 3 * H THEN "/gap>3h" ELSE "/gap<=3h") ELSE "") \o CloseTag
         [] last.op = "wall" -> IF \E i \in 1..NT(last.z) : last.z.trans[i].at = last.t THEN "at-transition" ELSE "between"
         [] last.op = "views" -> "views/" \o last.via \o "/" \o (IF \E i \in 1..NT(last.z) : last.z.trans[i].at = last.t THEN "at-transition" ELSE "between")
         [] last.op = "text" -> "text/" \o last.via \o "/" \o (IF last.unit = 60 THEN "minute" ELSE "second") \o "/" \o last.mode \o "/"
                                \o (IF OffsetAt(last.z, last.t) # OffsetAt(last.z, RoundedSec(last.t, last.fd, last.unit, last.mode)) THEN "rounds-across-transition" ELSE "same-offset")
         [] last.op = "bag" -> "bag/" \o last.oc.k \o "/" \o last.oo \o "/" \o Classify(last.z, last.w) \o CloseTag
         [] last.op = "fromDate" -> "fromDate/" \o last.tt \o "/" \o Classify(last.z, last.day * 86400) \o (IF CloseTransitions(last.z) THEN "/close-transitions" ELSE "")
         [] last.op = "relto" -> "relativeTo/" \o last.oc.k \o "/" \o Classify(last.z, last.w) \o CloseTag
         [] last.op = "bagDate" -> "bagDate/" \o last.tf \o "/" \o last.dis \o "/" \o Classify(last.z, last.day * 86400) \o (IF CloseTransitions(last.z) THEN "/close-transitions" ELSE "")
         [] last.op = "interpret" -> last.oc.k \o "/" \o last.oo \o "/" \o Classify(last.z, last.w) \o CloseTag
CaseOf ==
  CASE last.op = "fromLocal" -> [op |-> "Zoned.fromLocal", cls |-> Cls, args |-> [zone |-> last.z, w |-> last.w, dis |-> last.dis], out |-> last.out]
    [] last.op = "wall" -> [op |-> "Zoned.wall", cls |-> Cls, args |-> [zone |-> last.z, t |-> last.t], out |-> last.out]
    [] last.op = "views" -> [op |-> "Zoned.views", cls |-> Cls, args |-> [zone |-> last.z, t |-> last.t, via |-> last.via], out |-> last.out]
    [] last.op = "text" -> [op |-> "Zoned.text", cls |-> Cls, args |-> [zone |-> last.z, t |-> last.t, fd |-> last.fd, unit |-> last.unit, mode |-> last.mode, via |-> last.via], out |-> last.out]
    [] last.op = "bag" -> [op |-> "Zoned.fromPartial", cls |-> Cls, args |-> [zone |-> last.z, w |-> last.w, offk |-> last.oc.k, offmin |-> last.oc.o \div 60, dis |-> last.dis, offopt |-> last.oo], out |-> last.out]
    [] last.op = "fromDate" -> [op |-> "Zoned.fromDate", cls |-> Cls, args |-> [zone |-> last.z, day |-> last.day, tt |-> last.tt], out |-> last.out]
    [] last.op = "bagDate" -> [op |-> "Zoned.fromBagDate", cls |-> Cls, args |-> [zone |-> last.z, day |-> last.day, tf |-> last.tf, dis |-> last.dis], out |-> last.out]
    [] last.op = "relto" -> [op |-> "Zoned.relTo", cls |-> Cls, args |-> [zone |-> last.z, w |-> last.w, offk |-> last.oc.k, off |-> last.oc.o], out |-> last.out]
    [] last.op = "interpret" -> [op |-> "Zoned.fromStr", cls |-> Cls, args |-> [zone |-> last.z, w |-> last.w, offk |-> last.oc.k, off |-> last.oc.o, dis |-> last.dis, offopt |-> last.oo], out |-> last.out]
Emit == last.op = "none" \/ PrintT("CASE " \o ToJson(CaseOf))
=============================================================================
