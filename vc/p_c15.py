"""C15 - the bundled tz provider reports what the TZif data say, whatever the history.

1. TLC model-checks the Tzif specification on toy tables (24 ticks per day): lookup laws, wall-clock preimages,
   POSIX rule evaluation against the calendar, and the provider memo (history independence, all orders of a
   3-zone x 3-query workload with failing queries).
2. spec -> impl: the harness writes the tables of real zones (tzif crate's parser only); TLC computes what the data
   say and enumerates every order of a small workload; every order is replayed against a fresh FsTzdbProvider.
3. impl -> spec: seeded sessions (table event + offset / local queries around every kind of transition, identifier
   checks) are validated by TLC against Trace_Tzif; mismatches carry the spec-computed class label. Besides the real
   files: synthetic TZif data (close transitions, many types, offsets with seconds, +-25 h, empty tables, Jn / n /
   mixed / out-of-day rule footers, all-year DST), written by the harness and read back by the same parser.
4. Negative controls: a corrupted expectation must fail replay, a corrupted recorded answer must be flagged.
"""
import json, os, re, collections, hashlib
from . import lib
from .lib import ToolError, log

TRACE = ("trace/Trace_Tzif.tla", "trace/Trace_Tzif.cfg")
QUERY_OPS = ("Tzdb.offset", "Tzdb.local", "Tzdb.check")

# classes that every run must have exercised (accepted or mismatched): vacuity guard for the trace side
REQUIRED_PREFIXES = ["offset/between", "offset/before-first", "offset/at-transition/std-to-dst", "offset/at-transition/dst-to-std",
                     "offset/at-transition/non-dst-change", "offset/after-last-footer/fixed", "offset/after-last-footer/north",
                     "offset/after-last-footer/south", "offset/after-last-footer/negative-dst", "offset/no-transitions-footer",
                     "local-unique/between", "local-gap/near-transition", "local-overlap/near-transition", "local-unique/before-first",
                     "local-gap/after-last-footer", "local-overlap/after-last-footer", "unknown-zone",
                     "check/iana-name/as-listed", "check/iana-name/other-case", "check/non-name"]


# synthetic zones: 84 = the full cross product of 7 table shapes x 12 footer shapes (rec/c15.rs synth_desc)
SYNTH_ZONES_QUICK = 84
SYNTH_ZONES_THOROUGH = 588


# label parts that only synthetic data reach (vacuity guard: the synthetic part must have exercised them)
REQUIRED_PARTS = ["/rule-J/", "/rule-N/", "/rule-mixed/", "/several-transitions", "/and-rule-transition", "offset/no-transitions-footer/north",
                  "offset/no-transitions-footer/south", "offset/no-transitions-footer/negative-dst"]


def key_of(e):
    return hashlib.sha1(json.dumps([e.get("op"), e.get("args")], sort_keys=True).encode()).hexdigest()


def perms_replay(run, b, cases, label, record=True):
    """every generated order of the workload against a fresh provider"""
    rep = os.path.join(run.dir, f"{label}.report.ndjson")
    out, dt = run.harness(b, ["c15", "perms", cases, rep])
    summ = json.loads(out.strip().splitlines()[-1])
    mm = [json.loads(l) for l in open(rep)]
    if record:
        for m in mm:
            m["direction"] = "replay"
            m["source"] = os.path.relpath(cases, lib.ROOT)
        run.mismatches += mm
        run.cov["evaluations"] += summ["calls"]
        run.cov["replay_runs"].append(dict(label=label, orders=summ["cases"], queries=summ["queries"], provider_calls=summ["calls"],
                                           mismatch_lines=len(mm), wall_s=round(dt, 1)))
        for s in summ["samples"][:2]:
            run._sample(s)
        for l in open(cases):
            c = json.loads(l)
            if c["op"] == "Tzdb.session":
                run.distinct("order:" + json.dumps(c["args"]["order"]))
        log(f"[replay] {label}: {summ['cases']} orders x {summ['queries']} queries = {summ['calls']} provider calls, {len(mm)} mismatch lines, {dt:.1f}s")
    return summ, mm


def class_table(run, label, classes):
    """accepted / mismatched counts per class label, from the validator's output"""
    outp = os.path.join(run.dir, "val_" + label + ".tlc.out")
    for line in open(outp, errors="replace"):
        if line.startswith('"CLS '):
            classes[json.loads(line)[4:]]["accepted"] += 1
        elif line.startswith('"MISMATCH '):
            m = json.loads(json.loads(line)[9:])
            classes[m["cls"]]["mismatched"] += 1


def count_distinct(run, tr):
    with open(tr) as f:
        for l in f:
            e = json.loads(l)
            if e.get("op") in QUERY_OPS:
                run.distinct(key_of(e))


def validate_part(run, b, label, n, extra, classes):
    tr = run.record(b, "c15", n, label=label, extra=extra)
    ok, mm = run.validate(*TRACE, tr, label=label)
    class_table(run, label, classes)
    count_distinct(run, tr)
    return tr, mm


def validate_parts_parallel(run, b, parts, classes, jobs=4):
    """Thorough tier: one TLC process per part, `jobs` at a time. The TLC runs are concurrent; all bookkeeping
    (same as Run.validate) is done afterwards in this thread."""
    from concurrent.futures import ThreadPoolExecutor
    traces = [(label, run.record(b, "c15", n, label=label, extra=extra)) for (label, n, extra) in parts]
    env = lambda tr: {"TRACE": tr, "JAVA_TOOL_OPTIONS": "-Dtlc2.tool.queue.IStateQueue=StateDeque"}
    mod, cfg = (os.path.join(lib.SPEC, x) for x in TRACE)
    with ThreadPoolExecutor(max_workers=jobs) as ex:
        outs = list(ex.map(lambda lt: run._tlc(mod, cfg, 1, 3000, extra_env=env(lt[1]), tag="val_" + lt[0]), traces))
    res = []
    for (label, tr), (rc, txt, outp, dt) in zip(traces, outs):
        if not ("TRACE-ACCEPTED" in txt and "No error has been found" in txt):
            raise ToolError(f"trace validation did not complete for {tr} (rc={rc}); see {outp}\n" + lib._tail(txt))
        evs = [json.loads(l) for l in open(tr)]
        mm = [json.loads(json.loads(line)[9:]) for line in txt.splitlines() if line.startswith('"MISMATCH ')]
        for m in mm:
            m["direction"] = "trace"
            m["source"] = os.path.relpath(tr, lib.ROOT)
            if 1 <= m.get("i", 0) <= len(evs):
                m["event"] = evs[m["i"] - 1]
        sessions = sum(1 for e in evs if e.get("op") == "reset") + 1
        run.mismatches += mm
        run.cov["traces_validated_against_impl"] += sessions
        run.cov["evaluations"] += len(evs)
        run.cov["trace_runs"].append(dict(label=label, events=len(evs), sessions=sessions, mismatches=len(mm), wall_s=round(dt, 1)))
        log(f"[validate] {label}: {len(evs)} events in {sessions} sessions, {len(mm)} mismatches, {dt:.1f}s")
        class_table(run, label, classes)
        for e in evs:
            if e.get("op") in QUERY_OPS:
                run.distinct(key_of(e))
        res.append((tr, mm))
    return res


def negative_control_trace(run, tr, mm):
    """A trace that the spec accepts without any mismatch; one recorded answer corrupted -> must be flagged, and at that event."""
    bad_idx = {m["i"] for m in mm}
    evs = []
    with open(tr) as f:
        for i, l in enumerate(f, 1):
            if i > 700:
                break
            if i not in bad_idx:
                evs.append(json.loads(l))
    clean = os.path.join(run.dir, "negctl.clean.trace.ndjson")
    with open(clean, "w") as f:
        for e in evs:
            f.write(json.dumps(e) + "\n")
    ok, mm0 = run.validate(*TRACE, clean, label="negctl_clean", count=False)
    if mm0:
        raise ToolError("negative control: the cleaned trace still has mismatches")
    done = []
    for want in ("Tzdb.offset", "Tzdb.local"):
        for k, e in enumerate(evs):
            if e.get("op") == want and e["out"]["kind"] == "ok" and (want == "Tzdb.offset" or e["out"]["val"]):
                if want == "Tzdb.offset":
                    e["out"]["val"]["off"] += 1
                else:
                    e["out"]["val"][0]["s"] = (e["out"]["val"][0]["s"] + 1) % 86400
                done.append(k + 1)
                break
    if len(done) != 2:
        raise ToolError("negative control could not find events to corrupt")
    bad = os.path.join(run.dir, "negctl.corrupt.trace.ndjson")
    with open(bad, "w") as f:
        for e in evs:
            f.write(json.dumps(e) + "\n")
    rejected, mm1 = run.validate(*TRACE, bad, label="negctl_corrupt", count=False, expect_reject=True)
    flagged = sorted(m["i"] for m in mm1)
    run.cov["negative_controls"].append(dict(kind="trace", corrupted_events=done, flagged_events=flagged, rejected=bool(rejected)))
    if flagged != sorted(done):
        raise ToolError(f"negative control: corrupted events {done} but the trace spec flagged {flagged}")
    log(f"[negctl] corrupted recorded answers at events {done} flagged by the trace spec")


def negative_control_replay(run, b, cases):
    lines = [json.loads(l) for l in open(cases)]
    hit = None
    for c in lines:
        if c["op"] == "Tzdb.expect" and c["cls"] == "offset/between" and c["out"]["kind"] == "ok":
            c["out"]["val"]["off"] += 60
            hit = c["args"]["id"]
            break
    if hit is None:
        raise ToolError("negative control could not find an expectation to corrupt")
    bad = os.path.join(run.dir, "negctl.cases.ndjson")
    with open(bad, "w") as f:
        for c in lines:
            f.write(json.dumps(c) + "\n")
    summ, mm = perms_replay(run, b, bad, "negctl_perms", record=False)
    det = [m for m in mm if m["i"] == hit and m["cls"] == "offset/between"]
    run.cov["negative_controls"].append(dict(kind="replay", corrupted_query=hit, detected=len(det)))
    if not det:
        raise ToolError("negative control: corrupted expectation was NOT detected by the permutation replay")
    log(f"[negctl] corrupted expectation of query {hit} detected by replay in {det[0].get('count')} orders")


def run(run):
    b = lib.build_harness("dev")
    q = run.tier == "quick"
    # ---- 1. model checking (toy world: 24 ticks per day, real calendar)
    for c in (["lookup_q", "local_q", "rules_q", "cache"] if q else ["lookup", "local", "rules", "cache"]):
        mod = "mc/MC_Tzif.tla" if (q or c == "cache") else "mc/MC_TzifT.tla"
        run.mc(mod, f"mc/MC_Tzif_{c}.cfg", workers=4, timeout=900, require_actions=("Next",))
    # ---- 2. spec -> impl: all orders of a workload over real tables
    wl = os.path.join(run.dir, "workload.json")
    run.harness(b, ["c15", "workload", wl, run.tier])
    os.environ["C15_WORKLOAD"] = wl
    cases, n = run.gen("mc/MC_TzifReal.tla", "gen/Gen_C15_perms.cfg", workers=4, name="perms", timeout=1500)
    perms_replay(run, b, cases, "perms")
    negative_control_replay(run, b, cases)
    # ---- 3. impl -> spec
    classes = collections.defaultdict(lambda: dict(accepted=0, mismatched=0))
    validate_part(run, b, "ids", 0, ("ids",), classes)
    if q:
        tr, mm = validate_part(run, b, "lookup", 24, ("lookup", 0, 1), classes)
        first = (tr, mm)
    else:
        # every Zone/Link name of tzdata.zi, in parts (one TLC process per part, four at a time)
        nparts = 16
        res = validate_parts_parallel(run, b, [(f"lookup{p:02d}", 100000, ("lookup", p, nparts)) for p in range(nparts)], classes)
        first = res[0]
    negative_control_trace(run, *first)
    # ---- 3b. synthetic TZif data: table and footer shapes that no real file has (harness/src/synth_tzif.rs writes the bytes,
    #          the tzif crate's parser reads the table back, the library's lookups run on its own reading of the same bytes)
    if q:
        validate_part(run, b, "synth", 24, ("synth", SYNTH_ZONES_QUICK), classes)
    else:
        nparts = 4
        validate_parts_parallel(run, b, [(f"synth{p}", 40, ("synth", SYNTH_ZONES_THOROUGH, p, nparts)) for p in range(nparts)], classes)
    run.cov["classes"] = {k: v for k, v in sorted(classes.items())}
    missing = [p for p in REQUIRED_PREFIXES if not any(k.startswith(p) for k in classes)]
    missing += [p for p in REQUIRED_PARTS if not any(p in k for k in classes)]
    if missing:
        raise ToolError(f"vacuity guard: no recorded query fell into the classes {missing}")
    run.cov["rule"] = ("replay: every order of the workload (queries against real zone tables, incl. an unknown zone) is one distinct case, run against a fresh provider; "
                      "traces: one case per distinct (operation, zone, instant | wall-clock reading | identifier spelling) event, chosen around every kind of table and rule "
                      "transition; class labels (coverage.classes) are computed by the specification from the table")
    run.assumptions += [
        "the tzif crate's parser (shared with the code under test) and the files under /usr/share/zoneinfo are trusted: the property is about lookup logic relative to those data",
        "harness glue: (day, second, nanosecond) <-> epoch nanoseconds, wall-clock fields <-> IsoDateTime, POSIX offsets negated to seconds east",
        "error kinds are not asserted: a query in a zone without a file must fail with some error (generic today)",
        "check_identifier('Factory') is left unasserted (tzdata's placeholder zone is listed in tzdata.zi but is absent from the baked normalizer)",
        "the list returned for a wall-clock reading is compared as a set of instants; for real zones (the provider's own wrapper) the list must also be in ascending order "
        "(class instants-not-ascending), for synthetic zones the order is not observed (the wrapper is replicated in the harness)",
        "synthetic TZif data: the TZif version 2 writer (harness/src/synth_tzif.rs; checked by re-writing real files and parsing them back, and by comparing every parse with the description) and the "
        "replica of FsTzdbProvider's two thin lookup wrappers (floor to seconds + Tzif::get; v2_estimate_tz_pair + offset subtraction) in harness/src/ops_tzdb.rs, needed because the provider only reads "
        "/usr/share/zoneinfo; type offsets are kept within RFC 8536's recommended range [-89999, 93599]; files with an empty footer are rejected by the tzif crate's parser (no table: queries must fail)",
    ]
