SPECIFICATION GSpec
CONSTANTS
  GenForms <- FShort
  GenYears <- FewYears
  Budget = 2
INVARIANTS StructureRecovered DurationRecovered GeneratedAccepted MutationsRejected SmallGoals OutcomesWellFormed
CHECK_DEADLOCK FALSE
