//! C11 sessions (seeded driver). Fill in.
use super::Tracer;
use crate::gen::*;
use crate::rng::Rng;
use serde_json::json;

pub fn drive(t: &mut Tracer, r: &mut Rng, n: usize) {
    let _ = (t, r, n);
}
