------------------------------- MODULE Instant -------------------------------
(***************************************************************************)
(* Instants as integers on the epoch-nanosecond line (BigInt), range        *)
(* +-8.64e21 ns. Pure operators; the machine is InstantMachine.             *)
(***************************************************************************)
EXTENDS TimeOfDay

MaxInstantBig == MulSmall(Pow10(19), 864)          \* 8.64e21
InInstantRange(b) == Le(Abs(b), MaxInstantBig)
HasDateUnits(D) == ~IsZero(D.y) \/ ~IsZero(D.mo) \/ ~IsZero(D.w) \/ ~IsZero(D.d)

InstantNew(b) == IF InInstantRange(b) THEN Ok(b) ELSE ErrRange
\* add/subtract refuse calendar and day units; otherwise exact integer addition, range-checked
InstantAdd(i, D) == IF HasDateUnits(D) THEN ErrRange ELSE InstantNew(Add(i, TimeNs(D)))
InstantSub(i, D) == IF HasDateUnits(D) THEN ErrRange ELSE InstantNew(Sub(i, TimeNs(D)))
\* until/since with resolved settings (largest in hour..nanosecond)
InstantDiff(i1, i2, largest, smallest, inc, mode, isSince) ==
  LET diff == Sub(i2, i1)
      m == IF isSince THEN NegateMode(mode) ELSE mode
      bal == BalanceDur(RoundBig(diff, IncNs(inc, smallest), m), largest)
  IN Ok(IF isSince THEN NegDur(bal) ELSE bal)
\* round: Temporal's RoundTemporalInstant = RoundNumberToIncrementAsIfPositive on the epoch value (an instant before the epoch
\* rounds in the same timeline direction as one after it: trunc goes toward the past)
InstantRound(i, u, inc, mode) == InstantNew(RoundBigAsIfPositive(i, IncNs(inc, u), mode))
EpochMs(i) == FloorDivSmall(FloorDivSmall(i, 1000).q, 1000).q
FromEpochMs(ms) == InstantNew(K6(ms))
=============================================================================
