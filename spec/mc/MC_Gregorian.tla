---------------------------- MODULE MC_Gregorian ----------------------------
EXTENDS GregorianWalk, TLC, Json

\* window 1: one full 400-year cycle, walked forward from 2000-01-01
CycleStart == 10957
CycleDate  == Date(2000, 1, 1)
CycleHi    == 10957 + 146097

\* window 2: the lower end of Temporal's range (anchor two days outside it)
LoStart == -100000003
LoDate  == Date(-271821, 4, 17)
LoHi    == -100000003 + 1200

\* window 3: the upper end (walk forward to two days past +275760-09-13)
HiStart == 100000002 - 1200
HiDate  == CivilFromDays(100000002 - 1200)
HiHi    == 100000002

\* window 4: years -1, 0, 1 (astronomical year numbering, year 0 is leap)
ZStart == DaysFromCivil(-2, 12, 25)
ZDate  == Date(-2, 12, 25)
ZHi    == DaysFromCivil(1, 3, 5)

\* window 5: backwards from the epoch
BStart == 0
BDate  == Date(1970, 1, 1)
BLo    == -1500

Row == [n |-> n, y |-> date.y, m |-> date.m, d |-> date.d,
        dow |-> DayOfWeek(n), doy |-> DayOfYear(date),
        dim |-> DIM(date.y, date.m), diy |-> DIY(date.y),
        leap |-> IsLeap(date.y), week |-> wk.week, wyoff |-> wk.year - date.y]
EmitRow == PrintT("CASE " \o ToJson(Row))

RangeEnds == /\ (n = MinDay => date = Date(-271821, 4, 19))
             /\ (n = MaxDay => date = Date(275760, 9, 13))
             /\ (n = 0 => date = Date(1970, 1, 1))
=============================================================================
