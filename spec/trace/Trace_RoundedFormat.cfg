SPECIFICATION TSpec
POSTCONDITION Accepted
CHECK_DEADLOCK FALSE
