SPECIFICATION Spec
CONSTANTS
  DaySec = 24
  Disk0 <- ToyDisk
  Workload <- QLocalQueries
  Once = FALSE
  OneStep = TRUE
INVARIANTS LawAnswer LawLocal
CHECK_DEADLOCK FALSE
