//! Synthetic TZif data (C15, C03 "whatever time-zone data it is given"): a TZif version 2 writer (RFC 8536) and a
//! registry of named byte strings ("the disk" of the synthetic zones `synth/<n>`).
//!
//! A description has the shape of the table the specification reads, except that the footer is the POSIX TZ string itself:
//!   {"types": [{"off": seconds east, "dst": bool}, ...],            type 0 of the file is the first one
//!    "trans": [{"d": epoch day, "s": second of day, "ty": 1-based index into types}, ...],   strictly increasing
//!    "footer": "<POSIX TZ string, or empty>"}
//! The bytes are what the code under test gets (`Tzif::from_bytes`); the table the specification judges by is the
//! tzif crate's parse of the same bytes (`ops_tzdb::table_of`), never the description.
use crate::js;
use serde_json::Value;
use std::cell::RefCell;
use std::collections::BTreeMap;
use temporal_rs::tzdb::Tzif;

#[derive(Clone, Debug, PartialEq)]
pub struct Desc { pub types: Vec<(i32, bool)>, pub trans: Vec<(i64, usize)>, pub footer: String }

pub fn desc_from_json(v: &Value) -> Result<Desc, String> {
    let types: Vec<(i32, bool)> = v["types"].as_array().ok_or("types")?.iter()
        .map(|t| (t["off"].as_i64().expect("off") as i32, t["dst"].as_bool().expect("dst"))).collect();
    let trans: Vec<(i64, usize)> = v["trans"].as_array().ok_or("trans")?.iter()
        .map(|t| (js::i(t, "d") * 86_400 + js::i(t, "s"), (js::i(t, "ty") - 1) as usize)).collect();
    if types.is_empty() || types.len() > 120 { return Err("1..120 types".into()); }
    if trans.iter().any(|(_, ty)| *ty >= types.len()) { return Err("type index".into()); }
    Ok(Desc { types, trans, footer: v["footer"].as_str().ok_or("footer")?.to_string() })
}

fn header(out: &mut Vec<u8>, version: u8, timecnt: u32, typecnt: u32, charcnt: u32) {
    out.extend_from_slice(b"TZif");
    out.push(version);
    out.extend_from_slice(&[0u8; 15]);
    for c in [0u32, 0, 0, timecnt, typecnt, charcnt] { out.extend_from_slice(&c.to_be_bytes()); }   // isutcnt, isstdcnt, leapcnt, timecnt, typecnt, charcnt
}

/// designation table shared by all synthetic files: "STD\0DST\0"
const DESIG: &[u8] = b"STD\0DST\0";

/// RFC 8536: version-1 header and data block (the minimal legal one: no transitions, one type, since typecnt and
/// charcnt must not be zero), version-2 header, 64-bit data block, footer.
pub fn write_v2(d: &Desc) -> Vec<u8> {
    let mut o = Vec::new();
    // v1 block: readers of version 2+ files ignore it
    header(&mut o, b'2', 0, 1, 4);
    o.extend_from_slice(&0i32.to_be_bytes()); o.push(0); o.push(0);
    o.extend_from_slice(b"STD\0");
    // v2 block
    header(&mut o, b'2', d.trans.len() as u32, d.types.len() as u32, DESIG.len() as u32);
    for (t, _) in &d.trans { o.extend_from_slice(&t.to_be_bytes()); }
    for (_, ty) in &d.trans { o.push(*ty as u8); }
    for (off, dst) in &d.types { o.extend_from_slice(&off.to_be_bytes()); o.push(*dst as u8); o.push(if *dst { 4 } else { 0 }); }
    o.extend_from_slice(DESIG);
    o.push(b'\n'); o.extend_from_slice(d.footer.as_bytes()); o.push(b'\n');
    o
}

/// what the tzif crate's parser reads from the bytes, as a description again (footer: the parsed footer is not turned
/// back into a string; None when the parser rejects the bytes)
pub fn parse_back(bytes: &[u8]) -> Option<(Vec<(i32, bool)>, Vec<(i64, usize)>)> {
    use combine::Parser;
    let (data, _) = tzif::parse::tzif::tzif().parse(bytes).ok()?;
    let db = data.data_block2?;
    Some((db.local_time_type_records.iter().map(|r| (r.utoff.0 as i32, r.is_dst)).collect(),
          db.transition_times.iter().zip(db.transition_types.iter()).map(|(t, ty)| (t.0, *ty)).collect()))
}

pub struct Entry { pub bytes: Vec<u8>, pub tzif: Option<Tzif> }
thread_local! {
    /// name -> bytes (and the library's own reading of them, when it accepts them). Never cleared by `Tzdb.fresh`.
    pub static REG: RefCell<BTreeMap<String, Entry>> = RefCell::new(BTreeMap::new());
}
pub fn is_synth(zone: &str) -> bool { zone.starts_with("synth/") }

/// self-check of the writer: a real file re-written from its parsed content must parse to the same content
pub fn roundtrip_real(zone: &str) -> Result<(), String> {
    let path = std::path::Path::new(crate::ops_tzdb::ZONEINFO).join(zone);
    let data = tzif::parse_tzif_file(&path).map_err(|e| e.to_string())?;
    let raw = std::fs::read(&path).map_err(|e| e.to_string())?;
    let db = data.data_block2.as_ref().ok_or("no v2 block")?;
    // the footer text of the real file: between the last two newlines
    let end = raw.len() - 1;
    let start = raw[..end].iter().rposition(|b| *b == b'\n').ok_or("no footer")?;
    let d = Desc { types: db.local_time_type_records.iter().map(|r| (r.utoff.0 as i32, r.is_dst)).collect(),
                   trans: db.transition_times.iter().zip(db.transition_types.iter()).map(|(t, ty)| (t.0, *ty)).collect(),
                   footer: String::from_utf8_lossy(&raw[start + 1..end]).into_owned() };
    let bytes = write_v2(&d);
    use combine::Parser;
    let (again, _) = tzif::parse::tzif::tzif().parse(&bytes[..]).map_err(|_| "re-written file rejected".to_string())?;
    let a = crate::ops_tzdb::table_of(&data)?; let b = crate::ops_tzdb::table_of(&again)?;
    if a != b { return Err(format!("tables differ for {}", zone)); }
    Ok(())
}
