SPECIFICATION Spec
CONSTANTS
  DTs <- QDTs
  Durs <- NoDurs
  Largests <- AllLargest
  RoundOpts <- NoOpts
  OneStep = TRUE
INVARIANTS CurOK DiffLaws AddLaws RoundLaws 
CHECK_DEADLOCK FALSE
