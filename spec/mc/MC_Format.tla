----------------------------- MODULE MC_Format -----------------------------
(* Bounded instance of Format: boundary-rich values of all eight types x display options / precisions. *)
(* The same runs emit the replay cases (Fmt.<Type> with the canonical text, Parse.<Type> of that text). *)
EXTENDS Format, Json

Fr == {0, 1, 100000000, 1000, 999999999, 120000000}       \* 0, 1 ns, .1, .000001, .999999999, .12
T6(h, mi, s, x) == [h |-> h, mi |-> mi, s |-> s, ms |-> x \div 1000000, us |-> (x \div 1000) % 1000, ns |-> x % 1000]
DatesB == {Date(-271821, 4, 19), Date(-271821, 12, 31), Date(-1, 1, 1), Date(0, 2, 29), Date(1, 1, 1), Date(999, 12, 31), Date(1000, 1, 1),
           Date(9999, 12, 31), Date(10000, 1, 1), Date(275760, 9, 13), Date(2020, 2, 29)}
WithCal(d, cal) == [y |-> d.y, m |-> d.m, d |-> d.d, cal |-> cal]
VDate == {[ty |-> "PlainDate", v |-> WithCal(d, "iso8601")] : d \in DatesB}
         \cup {[ty |-> "PlainDate", v |-> WithCal(d, cal)] : d \in {Date(2020, 2, 29), Date(9999, 12, 31), Date(-1, 1, 1)}, cal \in {"gregory", "hebrew"}}
VTime == {[ty |-> "PlainTime", v |-> T6(23, 59, 59, x)] : x \in Fr} \cup {[ty |-> "PlainTime", v |-> T6(0, 0, 0, x)] : x \in {0, 1}}
         \cup {[ty |-> "PlainTime", v |-> T6(12, 30, 0, 0)]}
VDateTime == {[ty |-> "PlainDateTime", v |-> WithCal(d, "iso8601") @@ T6(23, 59, 59, x)] : d \in DatesB, x \in {0, 999999999}}
             \cup {[ty |-> "PlainDateTime", v |-> WithCal(d, "iso8601") @@ T6(0, 0, 0, x)] : d \in DatesB \ {Date(-271821, 4, 19)}, x \in {0}}
             \cup {[ty |-> "PlainDateTime", v |-> WithCal(Date(-271821, 4, 19), "iso8601") @@ T6(0, 0, 0, 1)]}
             \cup {[ty |-> "PlainDateTime", v |-> WithCal(Date(2020, 2, 29), cal) @@ T6(12, 30, 45, x)] : cal \in {"iso8601", "gregory"}, x \in Fr}
VYearMonth == {[ty |-> "PlainYearMonth", v |-> [y |-> d.y, m |-> d.m, cal |-> "iso8601"]] : d \in DatesB}
              \cup {[ty |-> "PlainYearMonth", v |-> [y |-> 2020, m |-> 2, cal |-> "gregory", rd |-> 1]]}
VMonthDay == {[ty |-> "PlainMonthDay", v |-> [m |-> md[1], d |-> md[2], cal |-> "iso8601"]] : md \in {<<1, 1>>, <<2, 29>>, <<12, 31>>, <<6, 30>>}}
             \cup {[ty |-> "PlainMonthDay", v |-> [m |-> 2, d |-> 29, cal |-> "gregory", ry |-> 1972]]}
\* instants as (epoch day, second of day, ns): epoch, both range ends, around year 0 / 10000, negative with fraction
InstTriples == {<<0, 0, 0>>, <<0, 0, 1>>, <<-1, 86399, 999999999>>, <<-100000000, 0, 0>>, <<100000000, 0, 0>>, <<99999999, 86399, 999999999>>,
                <<-719528, 0, 0>>, <<-719529, 86399, 100000000>>, <<2932896, 86399, 1000>>, <<2932897, 0, 0>>, <<18321, 45045, 120000000>>, <<-719163, 3600, 0>>}
BigOf(t) == EpochNs(t[1], t[2], t[3], 0, 0)
VInstant == {[ty |-> "Instant", v |-> BigOf(t)] : t \in InstTriples}
ZoneIds == {Chars("+00:00"), Chars("+05:30"), Chars("-12:45"), Chars("UTC")}
VZoned == {[ty |-> "ZonedDateTime", v |-> [ns |-> BigOf(t), tz |-> z, cal |-> "iso8601"]] :
              t \in {<<0, 0, 0>>, <<18321, 45045, 120000000>>, <<-719529, 86399, 100000000>>, <<2932896, 86399, 1000>>, <<-1, 86399, 999999999>>}, z \in ZoneIds}
          \cup {[ty |-> "ZonedDateTime", v |-> [ns |-> BigOf(<<18321, 45045, 1>>), tz |-> z, cal |-> "gregory"]] : z \in {Chars("+05:30"), Chars("UTC")}}
          \cup {[ty |-> "ZonedDateTime", v |-> [ns |-> BigOf(t), tz |-> Chars("+00:00"), cal |-> "iso8601"]] : t \in {<<-100000000, 0, 0>>, <<100000000, 0, 0>>}}
DI(y, mo, w, d, h, mi, s, ms, us, ns) == Dur10(FromInt(y), FromInt(mo), FromInt(w), FromInt(d), FromInt(h), FromInt(mi), FromInt(s), FromInt(ms), FromInt(us), FromInt(ns))
DurBase == {DI(0,0,0,0,0,0,0,0,0,0), DI(1,0,0,0,0,0,0,0,0,0), DI(0,1,0,0,0,0,0,0,0,0), DI(0,0,1,0,0,0,0,0,0,0), DI(0,0,0,1,0,0,0,0,0,0),
            DI(0,0,0,0,1,0,0,0,0,0), DI(0,0,0,0,0,1,0,0,0,0), DI(0,0,0,0,0,0,1,0,0,0), DI(0,0,0,0,0,0,0,1,0,0), DI(0,0,0,0,0,0,0,0,1,0), DI(0,0,0,0,0,0,0,0,0,1),
            DI(1,2,3,4,5,6,7,8,9,10), DI(0,0,0,0,1,0,0,500,0,0), DI(0,0,0,1,0,0,0,0,0,1), DI(0,0,0,0,0,1,0,0,1,999), DI(0,0,0,0,0,0,0,1001,0,0),
            DI(0,0,0,0,0,0,0,999,999,999), DI(0,0,0,0,0,0,59,999,999,1000), DI(0,0,0,0,0,1,120,0,0,0), DI(0,0,0,1,25,0,3661,0,0,0), DI(0,0,0,0,0,0,0,0,0,1000000001),
            DI(1,0,0,0,0,0,0,0,0,0), DI(0,0,0,0,100,0,0,0,0,0), DI(0,0,0,0,0,0,0,100000000,0,0), DI(0,0,0,0,0,0,0,0,1000,0)}
VDuration == {[ty |-> "Duration", v |-> D] : D \in DurBase} \cup {[ty |-> "Duration", v |-> NegDur(D)] : D \in DurBase}
             \cup {[ty |-> "Duration", v |-> [ZeroDur EXCEPT !.s = [s |-> 1, l |-> <<991, 5474, 1992, 9007>>]]]}     \* 2^53 - 1 seconds

AllValues == VDate \cup VTime \cup VDateTime \cup VYearMonth \cup VMonthDay \cup VInstant \cup VZoned \cup VDuration
PlainValues == VDate \cup VTime \cup VDateTime \cup VYearMonth \cup VMonthDay
ExactValues == VInstant \cup VZoned
DurValues == VDuration

O(p, su, cd, od, zd, tz) == [p |-> p, su |-> su, cd |-> cd, od |-> od, zd |-> zd, tz |-> tz]
CalShows == {"auto", "always", "never", "critical"}
SubUnits == {"second", "millisecond", "microsecond", "nanosecond"}
MCOpts(ty) ==
  CASE ty \in {"PlainDate", "PlainYearMonth", "PlainMonthDay"} -> {O(-1, "", cd, "auto", "auto", <<>>) : cd \in CalShows}
    [] ty = "PlainDateTime" -> {O(-1, "", cd, "auto", "auto", <<>>) : cd \in CalShows} \cup {O(p, "", "auto", "auto", "auto", <<>>) : p \in {0, 1, 3, 6, 9}}
                               \cup {O(-1, su, "auto", "auto", "auto", <<>>) : su \in SubUnits \cup {"minute"}}
    [] ty = "PlainTime" -> {O(p, "", "auto", "auto", "auto", <<>>) : p \in -1..9} \cup {O(-1, su, "auto", "auto", "auto", <<>>) : su \in SubUnits \cup {"minute"}}
    [] ty = "Instant" -> {O(p, "", "auto", "auto", "auto", tz) : p \in {-1, 0, 3, 9}, tz \in {<<>>, Chars("+00:00"), Chars("+05:30"), Chars("-12:45")}}
                         \cup {O(-1, "minute", "auto", "auto", "auto", <<>>), O(7, "", "auto", "auto", "auto", <<>>)}
    [] ty = "ZonedDateTime" -> {O(-1, "", cd, od, zd, <<>>) : cd \in CalShows, od \in {"auto", "never"}, zd \in {"auto", "never", "critical"}}
                               \cup {O(p, "", "auto", "auto", "auto", <<>>) : p \in {0, 3, 9}} \cup {O(-1, "minute", "auto", "auto", "auto", <<>>)}
    [] ty = "Duration" -> {O(p, "", "auto", "auto", "auto", <<>>) : p \in -1..9} \cup {O(-1, su, "auto", "auto", "auto", <<>>) : su \in SubUnits}

\* replay cases: the formatter call with the canonical text, and the parser call on that text
Args(l) == [v |-> l.v, prec |-> l.o.p, su |-> l.o.su, cd |-> l.o.cd, od |-> l.o.od, zd |-> l.o.zd]
           @@ (IF l.ty = "Instant" /\ l.o.tz # <<>> THEN [tz |-> l.o.tz] ELSE [via |-> "ixdtf"])
FmtCase(l) == [op |-> "Fmt." \o l.ty, cls |-> FmtCls(l.ty, l.v, l.o), args |-> Args(l), out |-> l.out]
ParseCase(l) == [op |-> "Parse." \o l.ty, cls |-> ParseCls(l.ty, Chars(l.str)), args |-> [chars |-> Chars(l.str)], out |-> Expected(l.ty, Chars(l.str))]
\* Display (to_string) must equal the default-option text
DisplayCase(l) == [op |-> "Fmt." \o l.ty, cls |-> "display:" \o FmtCls(l.ty, l.v, l.o), args |-> [v |-> l.v, via |-> "display"], out |-> Ok(Chars(l.str))]
Emit == ~(last.op = "format" /\ last.first)
        \/ /\ PrintT("CASE " \o ToJson(FmtCase(last)))
           /\ last.out.kind = "ok" => PrintT("CASE " \o ToJson(ParseCase(last)))
           /\ (last.out.kind = "ok" /\ last.o = DefaultOpts /\ last.ty \notin {"PlainTime", "Instant"}) => PrintT("CASE " \o ToJson(DisplayCase(last)))

(* enum names, year padding, offsets, identifiers, month codes, calendars: a one-state model that only emits the tables *)
TableCases(dummy) ==
  /\ \A e \in Enums : \A i \in 1..Len(EnumTable[e]) : LET row == EnumTable[e][i] IN
       /\ PrintT("CASE " \o ToJson([op |-> "Enum.display", cls |-> e \o "/" \o row[2] \o "-name", args |-> [enum |-> e, variant |-> row[1]], out |-> Ok(Chars(row[2]))]))
       /\ PrintT("CASE " \o ToJson([op |-> "Enum.parse", cls |-> e \o "/" \o row[2] \o "-name", args |-> [enum |-> e, chars |-> Chars(row[2])], out |-> Ok(row[1])]))
       /\ PrintT("CASE " \o ToJson([op |-> "Enum.parse", cls |-> e \o "/capitalised-name", args |-> [enum |-> e, chars |-> Chars(row[1])], out |-> [kind |-> "err"]]))
  /\ \A u \in {"nanoseconds", "hours", "years", "milliseconds"} :
       PrintT("CASE " \o ToJson([op |-> "Enum.parse", cls |-> "Unit/plural-name", args |-> [enum |-> "Unit", chars |-> Chars(u)], out |-> Ok(EnumParse("Unit", u))]))
  /\ \A y \in {-271821, -1, 0, 1, 999, 1000, 9998, 9999, 10000, 275760} :
       PrintT("CASE " \o ToJson([op |-> "Fmt.YearPad", cls |-> "year/" \o ToString(y), args |-> [y |-> y, m |-> IF y = -271821 THEN 5 ELSE 1], out |-> Ok(Chars(PadYear(y)))]))
  /\ \A min \in {0, 330, -765, 60, -60, 1439, -1439, 1} :
       /\ PrintT("CASE " \o ToJson([op |-> "Parse.UtcOffset", cls |-> "UtcOffset/print-parse", args |-> [chars |-> Chars(Offset(min))], out |-> Ok([min |-> min, str |-> Chars(Offset(min))])]))
       /\ PrintT("CASE " \o ToJson([op |-> "Fmt.TimeZone", cls |-> "TimeZone/offset-identifier", args |-> [tz |-> Chars(Offset(min))], out |-> Ok(Chars(Offset(min)))]))
       /\ PrintT("CASE " \o ToJson([op |-> "Parse.TimeZone", cls |-> "TimeZone/offset-identifier", args |-> [chars |-> Chars(Offset(min))], out |-> Ok([k |-> "offset", min |-> min, str |-> Chars(Offset(min))])]))
  /\ \A id \in {"UTC", "America/New_York", "Europe/Isle_of_Man", "Etc/GMT+5"} :
       /\ PrintT("CASE " \o ToJson([op |-> "Fmt.TimeZone", cls |-> "TimeZone/name-identifier", args |-> [tz |-> Chars(id)], out |-> Ok(Chars(id))]))
       /\ PrintT("CASE " \o ToJson([op |-> "Parse.TimeZone", cls |-> "TimeZone/name-identifier", args |-> [chars |-> Chars(id)], out |-> Ok([k |-> "name", str |-> Chars(id)])]))
  /\ \A n \in 1..13 : \A lp \in {"", "L"} : LET mc == "M" \o Pad2(n) \o lp IN
       /\ PrintT("CASE " \o ToJson([op |-> "Fmt.MonthCode", cls |-> "MonthCode/print-parse", args |-> [chars |-> Chars(mc)], out |-> Ok(Chars(mc))]))
       /\ PrintT("CASE " \o ToJson([op |-> "Parse.MonthCode", cls |-> "MonthCode/print-parse", args |-> [chars |-> Chars(mc)], out |-> Ok([str |-> Chars(mc), n |-> n, leap |-> lp = "L"])]))
  /\ \A i \in 1..Len(KnownCalSeq) : LET id == KnownCalSeq[i] IN
       /\ PrintT("CASE " \o ToJson([op |-> "Fmt.Calendar", cls |-> "Calendar/identifier", args |-> [chars |-> Chars(id)], out |-> Ok(Chars(id))]))
       /\ PrintT("CASE " \o ToJson([op |-> "Parse.Calendar", cls |-> "Calendar/identifier", args |-> [chars |-> Chars(id)], out |-> Ok(Chars(id))]))
TInit == cur = [ph |-> "end"] /\ last = None
TNext == FALSE /\ UNCHANGED gvars
TSpecTables == TInit /\ [][TNext]_gvars
EmitTables == TableCases(cur)
=============================================================================
