SPECIFICATION TSpec
CONSTANTS
  Free = FALSE
  FieldsOf <- NoFieldsT
  Find <- NoFindT
  Starts = {}
  OtherCals = {}
  MaxDim = 3
  DiySet = {}
  MaxEraChanges = 0
INVARIANT CursorOK
POSTCONDITION Accepted
CHECK_DEADLOCK FALSE
