------------------------- MODULE Trace_ProviderLock -------------------------
(***************************************************************************)
(* impl -> spec for C20.  One line of the trace = one SESSION: a fresh       *)
(* process in which N real threads called the convenience API, phase by      *)
(* phase (a barrier separates phases).  Per thread the harness logged its    *)
(* calls in program order (k = 1, 2, ...: CallStart/CallEnd numbering) with  *)
(* the projected result `out`, the poison flag read at CallEnd (`pz`) and    *)
(* the provider events of that call (`evs`: global `seq` incremented under   *)
(* the lock inside FsTzdbProvider::get, zone, hit|miss).  `f` is F(call):    *)
(* the outcome of the same call in a sequential fresh-process run.  `known`  *)
(* lists the zone identifiers that load in that reference run.               *)
(*                                                                          *)
(* TLC accepts the session iff some interleaving of ProviderLock explains    *)
(* it.  One step of this spec consumes one whole call = the model's          *)
(* Acquire ; Lookup* ; Compute ; (Release | Panic) collapsed (holder goes    *)
(* None -> t -> None), chosen so that                                        *)
(*   - program order and the phase barriers are respected,                   *)
(*   - critical sections follow the global seq: the provider events of the   *)
(*     call are exactly the next unconsumed seq numbers, contiguously        *)
(*     (= mutual exclusion: nobody else was inside the provider meanwhile),  *)
(*   - every event is what LookupKind says for the model's cache (first      *)
(*     lookup of a loadable zone misses, later ones hit; an identifier that  *)
(*     does not load always misses and inserts nothing),                     *)
(*   - the result is F(call) (PoisonBehaviour = "recover", the property), or *)
(*     what Outcome allows for the "error" design (as-is model).             *)
(* Calls without provider events commute with everything in the model (they  *)
(* touch neither cache nor seq), so taking them first is complete: if any    *)
(* interleaving explains the session, the canonical one does.                *)
(* Only program order, barriers and seq are used - never wall-clock.         *)
(***************************************************************************)
EXTENDS ProviderLock, TraceBase

VARIABLES s,      \* session being consumed (0 before the first)
          idx,    \* idx[t]: next call of thread t
          g,      \* next unconsumed provider seq
          pan     \* the panicking calls of the session, <<thread, phase, k>> (computed once when the session is opened)
tvars == <<s, idx, g, pan, holder, poisoned, cache>>
modelRest == <<pc, failed, panicked, order, n, cl, res, lk, afterFail, slot>>   \* PlusCal bookkeeping, not used at this grain

S == Rec[s]
NT == Len(S.thr)
Known == {S.known[i] : i \in 1..Len(S.known)}
Pending(th) == idx[th] <= Len(S.thr[th])
Nxt(th) == S.thr[th][idx[th]]
SessionDone == IF s = 0 THEN TRUE ELSE \A th \in 1..NT : ~Pending(th)

Min(X) == CHOOSE x \in X : \A y \in X : x <= y
\* the canonical schedule: within the earliest unfinished phase, a call without provider events first
\* (lowest thread), otherwise the call whose first provider event has the smallest seq
Chosen == LET pend == {x \in 1..NT : Pending(x)}
              cp   == Min({Nxt(x).ph : x \in pend})
              elig == {x \in pend : Nxt(x).ph = cp}
              noev == {x \in elig : Len(Nxt(x).evs) = 0}
              low  == Min({Nxt(x).evs[1].seq : x \in elig})
          IN IF noev # {} THEN Min(noev) ELSE CHOOSE x \in elig : Nxt(x).evs[1].seq = low

\* ---- happens-before available from the log: program order and barriers
IsPanic(c) == c.f.kind = "panic" \/ c.out.kind = "panic"
PanicsOf(r) == UNION {{<<t2, r.thr[t2][j].ph, r.thr[t2][j].k>> : j \in {x \in 1..Len(r.thr[t2]) : IsPanic(r.thr[t2][x])}} : t2 \in 1..Len(r.thr)}
PanicSurelyBefore(th, c) == \E d \in pan : d[2] < c.ph \/ (d[1] = th /\ d[3] < c.k)
PanicMaybeBefore(th, c) == \E d \in pan : d[2] < c.ph \/ (d[1] = th /\ d[3] < c.k) \/ (d[1] # th /\ d[2] = c.ph)

\* ---- the checks on one call
OrderOK(th, c) == c.k = idx[th] /\ (idx[th] > 1 => S.thr[th][idx[th] - 1].ph <= c.ph)
SeqStartOK(c) == Len(c.evs) = 0 \/ c.evs[1].seq = g
Contiguous(c) == \A i \in 1..Len(c.evs) : c.evs[i].seq = c.evs[1].seq + i - 1
\* cache as it stands before event i of the call
CacheAt(c, i) == cache \cup {c.evs[j].zone : j \in {x \in 1..(i-1) : c.evs[x].zone \in Known}}
MemoOK(c) == \A i \in 1..Len(c.evs) :
   LET kind == LookupKind(CacheAt(c, i), c.evs[i].zone, Known) IN c.evs[i].hit <=> (kind = "hit")
\* "calls never deadlock": a call that did not return (the harness gave up on the process) is explained by nothing,
\* not even by a reference run that hangs as well
Returned(c) == c.out.kind # "timeout"
SameOut(c) == c.out.kind = c.f.kind /\ c.out.s = c.f.s
ResultOK(th, c) ==
   IF PoisonBehaviour = "recover" THEN SameOut(c)
   ELSE IF PanicSurelyBefore(th, c) THEN c.out.kind = "generic"                  \* Outcome(F, TRUE) = LockErr
   ELSE IF PanicMaybeBefore(th, c) THEN SameOut(c) \/ c.out.kind = "generic"
   ELSE SameOut(c)
\* errors never poison; only a panic under the lock may (whether a recovered lock stays flagged is not the property's business)
FlagOK(th, c) == c.pz => (IsPanic(c) \/ PanicMaybeBefore(th, c))

\* spec-computed class of a disagreement (keys of known findings)
ClsOf(th, c) ==
   IF ~Returned(c) THEN "deadlock"
   ELSE IF ~OrderOK(th, c) THEN "program-order"
   ELSE IF ~SeqStartOK(c) THEN "seq-gap"
   ELSE IF ~Contiguous(c) THEN "overlap"
   ELSE IF ~MemoOK(c) THEN "cache-memo"
   ELSE IF ~ResultOK(th, c) THEN
        (IF c.out.kind = "generic" /\ PanicMaybeBefore(th, c) THEN "after-panic/lock-error" ELSE "result-differs")
   ELSE IF ~FlagOK(th, c) THEN "spurious-poison"
   ELSE "-"

LastSeq(c) == IF Len(c.evs) = 0 THEN g - 1 ELSE Min({x \in {g - 1} \cup {c.evs[i].seq : i \in 1..Len(c.evs)} :
                                                      \A i \in 1..Len(c.evs) : c.evs[i].seq <= x})
Explained(th, c) == ClsOf(th, c) = "-"

TInit == /\ Init
         /\ s = 0 /\ idx = << >> /\ g = 1 /\ pan = {}

Open == /\ SessionDone /\ s < NEv
        /\ s' = s + 1
        /\ idx' = [th \in 1..Len(Rec[s + 1].thr) |-> 1]
        /\ pan' = PanicsOf(Rec[s + 1])
        /\ g' = 1 /\ cache' = {} /\ poisoned' = FALSE /\ holder' = None      \* a fresh process

Consume == /\ ~SessionDone
           /\ LET th == Chosen
                  c == Nxt(th)
              IN /\ holder = None                       \* Acquire ... Release of thread th, collapsed
                 /\ holder' = None
                 /\ \/ Explained(th, c)
                    \/ /\ ~Explained(th, c)
                       /\ PrintT("MISMATCH " \o ToJson([i |-> 0, sid |-> S.sid, t |-> th, k |-> c.k, op |-> "ProviderLock.call",
                                                        cls |-> ClsOf(th, c), call |-> c.op, expected |-> c.f, observed |-> c.out]))
                 /\ idx' = [idx EXCEPT ![th] = @ + 1]
                 /\ cache' = cache \cup {c.evs[i].zone : i \in {x \in 1..Len(c.evs) : c.evs[x].zone \in Known}}
                 /\ poisoned' = (poisoned \/ IsPanic(c))
                 /\ g' = LastSeq(c) + 1
                 /\ s' = s /\ pan' = pan

TNext == (Open \/ Consume) /\ UNCHANGED modelRest
TSpec == TInit /\ [][TNext]_<<tvars, modelRest>>

\* state invariants, evaluated after every consumed call
LockFree == holder = None
CacheOnlyKnown == IF s = 0 THEN TRUE ELSE cache \subseteq Known
RECURSIVE CallsUpTo(_)
CallsOf(r) == LET RECURSIVE Add(_) Add(th) == IF th = 0 THEN 0 ELSE Add(th - 1) + Len(r.thr[th]) IN Add(Len(r.thr))
CallsUpTo(i) == IF i = 0 THEN 0 ELSE CallsUpTo(i - 1) + CallsOf(Rec[i])

\* POSTCONDITION: every session was opened and every call of every thread consumed
AcceptedC20 == LET d == TLCGet("stats").diameter
                   want == NEv + CallsUpTo(NEv)
               IN IF d - 1 = want THEN PrintT("TRACE-ACCEPTED " \o ToString(want))
                  ELSE Print(<<"TRACE-STUCK after steps", d - 1, "of", want>>, FALSE)
=============================================================================
