//! Special runner `tvh c20 ...` for C20.
//!
//! The provider under test is a process-wide static and poisoning it is permanent for the
//! process, so every history / session runs in a FRESH child process (`current_exe() c20 <sub>`),
//! talking JSON over stdin/stdout:
//!
//!   c20 hist     one model history: real threads, a coordinator hands the turn from thread to thread
//!                (channels) so that the lock acquisition order follows the behaviour; after every
//!                step: outcome, under-lock provider events, poison flag.
//!   c20 run      one concurrent session: N threads x phases (barriers between phases) hammer the
//!                compiled API; per-thread CallStart/CallEnd order, under-lock TzEvents per call.
//!   c20 ref      sequential execution of a list of calls (graph of F), stops when the lock is poisoned.
//!   c20 replay <cases> <report>     spec -> impl: parent, replays TLC-generated histories
//!   c20 probe    stdin calls, sequential, for experiments
//!
//! Ordering information used anywhere: per-thread program order, barriers between phases, and the
//! global `seq` of provider events (a counter incremented inside FsTzdbProvider::get, i.e. under the
//! lock). Never wall-clock.
use crate::ops;
use serde_json::{json, Value};
use std::collections::{BTreeMap, HashMap};
use std::io::{BufRead, Read, Write};
use std::process::{Command, Stdio};
use std::sync::atomic::{AtomicUsize, Ordering};
use std::sync::{mpsc, Arc, Barrier, Mutex};
use temporal_rs::verif;

pub fn main(a: &[String]) {
    match a.first().map(|s| s.as_str()).unwrap_or("") {
        "probe" => probe(),
        "hist" => child_hist(),
        "run" => child_run(),
        "ref" => child_ref(),
        "replay" => replay_main(&a[1..]),
        _ => { eprintln!("usage: tvh c20 probe|hist|run|ref|replay <cases> <report>"); std::process::exit(2); }
    }
}

fn stdin_json() -> Value {
    let mut s = String::new();
    std::io::stdin().read_to_string(&mut s).expect("stdin");
    serde_json::from_str(&s).expect("stdin json")
}

/// how long a child may run before it is declared hung (a deadlock is an outcome, not a tool error)
const CHILD_DEADLINE_MS: u64 = 30_000;

/// run a sub-command of this executable in a fresh process; None = it did not finish (killed)
pub fn child_opt(sub: &str, input: &Value) -> Option<Value> {
    let exe = std::env::current_exe().expect("current_exe");
    let mut ch = Command::new(exe).args(["c20", sub]).stdin(Stdio::piped()).stdout(Stdio::piped()).stderr(Stdio::null()).spawn().expect("spawn");
    let text = input.to_string();
    let mut si = ch.stdin.take().unwrap();
    let w = std::thread::spawn(move || { let _ = si.write_all(text.as_bytes()); });
    let mut so = ch.stdout.take().unwrap();
    let rd = std::thread::spawn(move || { let mut b = Vec::new(); let _ = so.read_to_end(&mut b); b });
    let t0 = std::time::Instant::now();
    let mut spins = 0u32;
    let status = loop {
        if let Some(st) = ch.try_wait().expect("try_wait") { break Some(st); }
        if t0.elapsed().as_millis() as u64 > CHILD_DEADLINE_MS { let _ = ch.kill(); let _ = ch.wait(); break None; }
        spins += 1;
        std::thread::sleep(std::time::Duration::from_micros(if spins < 200 { 200 } else { 5_000 }));
    };
    let _ = w.join();
    let out = rd.join().unwrap_or_default();
    let status = status?;
    if !status.success() { panic!("child c20 {} failed: {:?}", sub, status); }
    Some(serde_json::from_slice(&out).unwrap_or_else(|e| panic!("child c20 {} wrote no json ({})", sub, e)))
}
pub fn child(sub: &str, input: &Value) -> Value {
    child_opt(sub, input).unwrap_or_else(|| panic!("child c20 {} hung (reference runs must terminate)", sub))
}

/// outcome in the form the trace spec compares: kind + canonical JSON text (type-safe for TLC)
pub fn canon(out: &Value) -> Value { json!({"kind": out["kind"], "s": out.to_string()}) }

fn ev_json(e: &verif::tz::TzEvent) -> Value { json!({"seq": crate::js::int(e.seq as i64 + 1), "zone": e.zone, "hit": e.hit}) }

// ------------------------------------------------------------------ probe
fn probe() {
    if std::env::var("C20_PANIC_MSG").is_ok() { std::panic::set_hook(Box::new(|i| eprintln!("PANIC {}", i))); }
    verif::tz::enable(true);
    for l in std::io::stdin().lock().lines() {
        let l = l.unwrap();
        if l.trim().is_empty() { continue; }
        let c: Value = serde_json::from_str(&l).expect("json");
        let out = ops::exec(c["op"].as_str().unwrap(), &c["args"]);
        let evs: Vec<Value> = verif::tz::take().iter().map(ev_json).collect();
        println!("{}", json!({"op": c["op"], "args": c["args"], "out": out, "evs": evs, "poisoned": verif::provider_lock_poisoned()}));
    }
}

// ------------------------------------------------------------------ hist (child)
/// stdin: {"threads": T, "steps": [{"t": 1.., "op", "args"}]}; stdout: [{"out", "evs", "poisoned"}] per step.
/// Thread t executes its steps when the coordinator hands it the turn, so critical sections happen
/// in exactly the order of `steps`, each on its own real thread.
fn child_hist() {
    let h = stdin_json();
    let nt = h["threads"].as_u64().unwrap() as usize;
    let steps = h["steps"].as_array().unwrap().clone();
    verif::tz::enable(true);
    let (res_tx, res_rx) = mpsc::channel::<Value>();
    let mut go = Vec::new();
    let mut hs = Vec::new();
    for _ in 0..nt {
        let (tx, rx) = mpsc::channel::<Option<Value>>();
        go.push(tx);
        let res_tx = res_tx.clone();
        hs.push(std::thread::spawn(move || {
            while let Ok(Some(c)) = rx.recv() {
                let out = ops::exec(c["op"].as_str().unwrap(), &c["args"]);
                res_tx.send(out).unwrap();
            }
        }));
    }
    let mut obs = Vec::new();
    for s in &steps {
        let t = s["t"].as_u64().unwrap() as usize - 1;
        go[t].send(Some(s.clone())).unwrap();
        let out = res_rx.recv().unwrap();
        let evs: Vec<Value> = verif::tz::take().iter().map(|e| json!({"zone": e.zone, "hit": e.hit})).collect();
        obs.push(json!({"out": out, "evs": evs, "poisoned": verif::provider_lock_poisoned()}));
    }
    for g in &go { let _ = g.send(None); }
    for h in hs { let _ = h.join(); }
    println!("{}", Value::Array(obs));
}

// ------------------------------------------------------------------ ref (child)
/// stdin: {"calls": [{"op","args"}], "zones": [..]}; executes sequentially on one thread; stops after
/// the call that leaves the lock poisoned (the parent continues in another fresh process).
fn child_ref() {
    let p = stdin_json();
    let mut outs = Vec::new();
    for c in p["calls"].as_array().unwrap() {
        outs.push(ops::exec(c["op"].as_str().unwrap(), &c["args"]));
        if verif::provider_lock_poisoned() { break; }
    }
    // which zone identifiers load at all (graph of the lookup), asked of a private provider
    let mut loadable = serde_json::Map::new();
    for z in p["zones"].as_array().map(|v| v.as_slice()).unwrap_or(&[]) {
        let z = z.as_str().unwrap();
        let okz = std::panic::catch_unwind(|| temporal_rs::tzdb::FsTzdbProvider::default().get(z).is_ok()).unwrap_or(false);
        loadable.insert(z.to_string(), json!(okz));
    }
    println!("{}", json!({"outs": outs, "loadable": loadable}));
}

/// F for a list of distinct calls: sequential runs in fresh processes (a new one after every poisoning).
/// A call that does not return even when run alone has the outcome "timeout" (which no specification
/// action matches).
pub fn reference(calls: &[Value], zones: &[String]) -> (Vec<Value>, Value) {
    let mut outs: Vec<Value> = Vec::new();
    let mut loadable = child("ref", &json!({"calls": [], "zones": zones}))["loadable"].clone();
    if loadable.is_null() { loadable = json!({}); }
    while outs.len() < calls.len() {
        match child_opt("ref", &json!({"calls": &calls[outs.len()..], "zones": []})) {
            Some(r) => {
                let got = r["outs"].as_array().unwrap();
                if got.is_empty() { panic!("reference run made no progress"); }
                outs.extend(got.iter().cloned());
            }
            None => {
                // something in the batch hangs: find out which, one call per process
                let rest: Vec<Value> = calls[outs.len()..].to_vec();
                for c in rest {
                    outs.push(match child_opt("ref", &json!({"calls": [c], "zones": []})) { Some(r) => r["outs"][0].clone(), None => json!({"kind": "timeout"}) });
                }
            }
        }
    }
    (outs, loadable)
}

// ------------------------------------------------------------------ run (child)
/// stdin: {"n": N, "phases": [[[call..] per thread] per phase]}; call = {"op","args"}.
/// stdout: {"thr": [[{"ph","k","op","args","out","pz","evs"}]]}
fn child_run() {
    let p = stdin_json();
    let n = p["n"].as_u64().unwrap() as usize;
    let phases: Vec<Value> = p["phases"].as_array().unwrap().clone();
    verif::tz::enable(true);
    struct Coll { evs: Vec<verif::tz::TzEvent>, count: HashMap<std::thread::ThreadId, usize> }
    let coll = Arc::new(Mutex::new(Coll { evs: Vec::new(), count: HashMap::new() }));
    let bar = Arc::new(Barrier::new(n));
    let phases = Arc::new(phases);
    let mut hs = Vec::new();
    for t in 0..n {
        let (coll, bar, phases) = (coll.clone(), bar.clone(), phases.clone());
        hs.push(std::thread::spawn(move || {
            let me = std::thread::current().id();
            let mut log: Vec<Value> = Vec::new();   // CallEnd records of this thread, in program order
            let mut k = 0usize;
            for (pi, ph) in phases.iter().enumerate() {
                bar.wait();   // all calls of the previous phase have returned before any call of this one starts
                for c in ph[t].as_array().unwrap() {
                    k += 1;
                    let out = ops::exec(c["op"].as_str().unwrap(), &c["args"]);
                    // CallEnd: move everything emitted so far into the collector (atomically w.r.t. other
                    // threads doing the same); all provider events of THIS call were emitted before it
                    // returned, so my event count now is the boundary between call k and call k+1.
                    let mut g = coll.lock().unwrap();
                    for e in verif::tz::take() { *g.count.entry(e.thread).or_insert(0) += 1; g.evs.push(e); }
                    let upto = *g.count.get(&me).unwrap_or(&0);
                    drop(g);
                    log.push(json!({"ph": pi + 1, "k": k, "op": c["op"], "args": c["args"], "out": out,
                                    "pz": verif::provider_lock_poisoned(), "upto": upto}));
                }
            }
            (me, log)
        }));
    }
    let mut thr = Vec::new();
    let logs: Vec<(std::thread::ThreadId, Vec<Value>)> = hs.into_iter().map(|h| h.join().expect("worker thread")).collect();
    let mut g = coll.lock().unwrap();
    for e in verif::tz::take() { g.evs.push(e); }
    for (me, log) in logs {
        let mine: Vec<&verif::tz::TzEvent> = g.evs.iter().filter(|e| e.thread == me).collect();
        let mut from = 0usize;
        let mut calls = Vec::new();
        for mut c in log {
            let upto = c["upto"].as_u64().unwrap() as usize;
            let evs: Vec<Value> = mine[from..upto].iter().map(|e| ev_json(e)).collect();
            from = upto;
            c.as_object_mut().unwrap().remove("upto");
            c["evs"] = Value::Array(evs);
            calls.push(c);
        }
        assert_eq!(from, mine.len(), "provider events after the last call of a thread");
        thr.push(Value::Array(calls));
    }
    println!("{}", json!({"thr": thr}));
}

/// zone identifiers mentioned anywhere in a call's arguments
fn zones_of(v: &Value, acc: &mut Vec<String>) {
    match v {
        Value::Object(m) => for (k, x) in m { if k == "tz" { if let Some(s) = x.as_str() { acc.push(s.to_string()); } } else { zones_of(x, acc); } },
        Value::Array(a) => for x in a { zones_of(x, acc); },
        Value::String(s) => if let (Some(i), Some(j)) = (s.rfind('['), s.rfind(']')) { if i < j { acc.push(s[i + 1..j].to_string()); } },
        _ => {}
    }
}

/// One concurrent session against the real global provider (fresh process), joined with the graph
/// of F from sequential fresh-process runs of the same calls. Returns the trace line.
pub fn run_session(sid: usize, plan: &Value) -> Value {
    // distinct calls of the plan
    let mut distinct: BTreeMap<String, Value> = BTreeMap::new();
    let mut zones = Vec::new();
    for ph in plan["phases"].as_array().unwrap() { for th in ph.as_array().unwrap() { for c in th.as_array().unwrap() {
        distinct.entry(json!({"op": c["op"], "args": c["args"]}).to_string()).or_insert_with(|| c.clone());
        zones_of(&c["args"], &mut zones);
    } } }
    zones.sort(); zones.dedup();
    // the injected fault is a panic by definition; everything else is asked of the real code, alone & sequentially
    let keys: Vec<String> = distinct.keys().filter(|k| distinct[*k]["op"] != "Lock.panic").cloned().collect();
    let calls: Vec<Value> = keys.iter().map(|k| distinct[k].clone()).collect();
    let (outs, loadable) = reference(&calls, &zones);
    let mut f: HashMap<String, Value> = keys.into_iter().zip(outs).collect();
    for (k, c) in &distinct { if c["op"] == "Lock.panic" { f.insert(k.clone(), json!({"kind": "panic"})); } }
    let mut rec = match child_opt("run", plan) {
        Some(r) => r,
        None => {
            // the session did not finish (deadlock): every planned call is observed as "timeout"
            let n = plan["n"].as_u64().unwrap() as usize;
            let mut thr: Vec<Vec<Value>> = vec![Vec::new(); n];
            for (pi, ph) in plan["phases"].as_array().unwrap().iter().enumerate() { for t in 0..n { for c in ph[t].as_array().unwrap() {
                let k = thr[t].len() + 1;
                thr[t].push(json!({"ph": pi + 1, "k": k, "op": c["op"], "args": c["args"], "out": {"kind": "timeout"}, "pz": false, "evs": []}));
            } } }
            json!({"thr": thr})
        }
    };
    for th in rec["thr"].as_array_mut().unwrap() { for c in th.as_array_mut().unwrap() {
        let key = json!({"op": c["op"], "args": c["args"]}).to_string();
        c["f"] = canon(&f[&key]);
        c["out"] = canon(&c["out"]);
    } }
    let known: Vec<&String> = zones.iter().filter(|z| loadable[z.as_str()] == true).collect();
    json!({"op": "session", "sid": sid, "n": plan["n"], "nph": plan["phases"].as_array().unwrap().len(),
           "known": known, "thr": rec["thr"], "plan": plan})
}

// ------------------------------------------------------------------ replay (spec -> impl)
const ZA: &str = "America/New_York";
const ZB: &str = "Europe/Berlin";
const ZC: &str = "Asia/Tokyo";
const FIXED: &str = "+05:30";
const BAD: &str = "Nowhere/Land";

fn zone_name(z: &str) -> &'static str {
    match z { "za" => ZA, "zb" => ZB, "zc" => ZC, "-" => FIXED, "?" => BAD, _ => panic!("zone {}", z) }
}

/// the binding of an abstract call [kind, zone] to one convenience-API call (i varies the wrapper used)
pub fn concrete(kind: &str, zone: &str, i: usize) -> Value {
    let ns = json!({"s": 1, "l": [789, 3456, 2012, 5678, 141]});   // 2014-11, far from any transition
    let tz = zone_name(zone);
    match kind {
        "ok" | "unknown" => match i % 4 {
            0 => json!({"op": "CZ.get", "args": {"ns": ns, "tz": tz, "f": "hour"}}),
            1 => json!({"op": "CZ.startOfDay", "args": {"ns": ns, "tz": tz}}),
            2 => json!({"op": "CDur.round", "args": {"dur": {"d": 40, "h": 30}, "st": {"largest": "month", "smallest": "day"}, "rel": {"ns": ns, "tz": tz}}}),
            _ => json!({"op": "CZ.fromStr", "args": {"s": format!("2020-03-08T12:00[{}]", tz)}}),
        },
        // out-of-range value: the sum leaves the representable range (after the zone was consulted)
        "range" => if i % 2 == 0 { json!({"op": "CDur.round", "args": {"dur": {"y": 300000, "d": 40}, "st": {"largest": "month", "smallest": "day"}, "rel": {"ns": ns, "tz": tz}}}) }
                   else { json!({"op": "CZ.add", "args": {"ns": ns, "tz": tz, "dur": {"y": 300000}}}) },
        "panic" => json!({"op": "Lock.panic", "args": {}}),
        _ => panic!("kind {}", kind),
    }
}

fn lookup_class(evs: &[Value]) -> &'static str {
    if evs.is_empty() { return "none"; }
    let first_hit = evs[0]["hit"] == true;
    let rest_hit = evs[1..].iter().all(|e| e["hit"] == true);
    match (first_hit, rest_hit) {
        (true, true) => "hit",
        (false, true) => "miss",     // first lookup missed (loaded, or failed to load), any further ones hit
        _ => "inconsistent",
    }
}

pub fn run_history(order: &[Value]) -> (Vec<Value>, Vec<Value>) {
    let nt = order.iter().map(|s| s["t"].as_u64().unwrap()).max().unwrap_or(1);
    let steps: Vec<Value> = order.iter().enumerate().map(|(i, s)| {
        let c = concrete(s["kind"].as_str().unwrap(), s["zone"].as_str().unwrap(), i);
        json!({"t": s["t"], "op": c["op"], "args": c["args"]})
    }).collect();
    let obs = match child_opt("hist", &json!({"threads": nt, "steps": steps})) {
        Some(o) => o.as_array().unwrap().clone(),
        // the process did not finish (deadlock): every step is observed as "timeout"
        None => steps.iter().map(|_| json!({"out": {"kind": "timeout"}, "evs": [], "poisoned": false})).collect(),
    };
    (steps, obs)
}

/// tvh c20 replay <cases.ndjson> <report.ndjson>
fn replay_main(a: &[String]) {
    let lines: Vec<Value> = std::io::BufReader::new(std::fs::File::open(&a[0]).expect("cases")).lines()
        .map(|l| l.unwrap()).filter(|l| !l.trim().is_empty()).map(|l| serde_json::from_str(&l).expect("case json")).collect();
    // graph of F for the concrete calls: each one ALONE in a fresh process
    let fmap: Mutex<HashMap<String, Value>> = Mutex::new(HashMap::new());
    let alone = |c: &Value| -> Value {
        let key = c.to_string();
        if let Some(v) = fmap.lock().unwrap().get(&key) { return v.clone(); }
        let v = if c["op"] == "Lock.panic" { json!({"kind": "panic"}) }
                else { match child_opt("ref", &json!({"calls": [c], "zones": []})) { Some(r) => r["outs"][0].clone(), None => json!({"kind": "timeout"}) } };
        fmap.lock().unwrap().insert(key, v.clone());
        v
    };
    let n = lines.len();
    let next = AtomicUsize::new(0);
    let report = Mutex::new(Vec::<(usize, usize, Value)>::new());
    let samples = Mutex::new(Vec::<Value>::new());
    let steps_total = AtomicUsize::new(0);
    let binding_errors = Mutex::new(Vec::<String>::new());
    let workers = std::thread::available_parallelism().map(|x| x.get()).unwrap_or(4).min(8);
    // every deadlocked history costs the child deadline; after a few of them the verdict is clear and the remaining
    // histories are not run (the report says how many were)
    let deadlocked = AtomicUsize::new(0);
    std::thread::scope(|s| {
        for _ in 0..workers {
            s.spawn(|| loop {
                if deadlocked.load(Ordering::Relaxed) >= 16 { break; }
                let hi = next.fetch_add(1, Ordering::Relaxed);
                if hi >= n { break; }
                let order = lines[hi]["order"].as_array().unwrap();
                let (steps, obs) = run_history(order);
                if obs.iter().all(|o| o["out"]["kind"] == "timeout") { deadlocked.fetch_add(1, Ordering::Relaxed); }
                steps_total.fetch_add(order.len(), Ordering::Relaxed);
                for (i, st) in order.iter().enumerate() {
                    let c = json!({"op": steps[i]["op"], "args": steps[i]["args"]});
                    let fc = alone(&c);
                    // binding sanity: the concrete call, alone, must be of the abstract kind
                    let fk = fc["kind"].as_str().unwrap_or("");
                    let kind = st["kind"].as_str().unwrap();
                    let bound = fk == "timeout" || match kind { "ok" => fk == "ok", "panic" => fk == "panic", _ => fk != "ok" && fk != "panic" };
                    if !bound { binding_errors.lock().unwrap().push(format!("{} alone gives {} for abstract kind {}", c, fk, kind)); }
                    // expected concrete outcome of this step according to the model
                    let mres = st["res"]["kind"].as_str().unwrap();
                    let exp_out = if mres == "lockerr" { json!({"kind": "generic"}) } else { fc.clone() };
                    // model lookup outcome in observable terms: a failed load is a miss too (that nothing was
                    // inserted shows at the next lookup of that zone, which the model again expects to miss)
                    let exp_lk = match st["lk"].as_str().unwrap() { "fail" => "miss", x => x };
                    let o = &obs[i];
                    let evs = o["evs"].as_array().unwrap();
                    let olk = lookup_class(evs);
                    // a call refused at the lock never reaches the provider
                    let exp_lk = if mres == "lockerr" { "none" } else { exp_lk };
                    let lk_ok = olk == exp_lk;
                    // poison flag: only a panic under the lock may set it (the property does not say whether a recovered lock stays flagged)
                    let pz_ok = !(o["poisoned"] == true) || st["pz"] == true;
                    let hung = o["out"]["kind"] == "timeout";   // never acceptable, whatever the call does alone
                    let out_ok = o["out"] == exp_out && !hung;
                    let expected = json!({"kind": exp_out["kind"], "val": exp_out.get("val"), "lk": exp_lk, "pz": st["pz"]});
                    // (the flag is judged one way only, so an acceptable flag is reported as the model's)
                    let observed = json!({"kind": o["out"]["kind"], "val": o["out"].get("val"), "lk": olk, "pz": if pz_ok { st["pz"].clone() } else { o["poisoned"].clone() }});
                    if hi % (n / 3 + 1) == 0 && i + 1 == order.len() {
                        samples.lock().unwrap().push(json!({"op": "ProviderLock.history", "order": order, "concrete_last": c, "expected_last": expected, "observed_last": observed}));
                    }
                    if !(out_ok && lk_ok && pz_ok) {
                        let what = if hung { "deadlock" } else if !out_ok { "result" } else if !lk_ok { "cache" } else { "poison-flag" };
                        report.lock().unwrap().push((hi, i, json!({"i": hi + 1, "op": "ProviderLock.call", "cls": st["cls"], "differs": what,
                            "args": {"order": order, "step": i + 1}, "concrete": c, "expected": expected, "observed": observed})));
                    }
                }
            });
        }
    });
    let be = binding_errors.into_inner().unwrap();
    if !be.is_empty() { eprintln!("binding error: {}", be[0]); println!("binding error: {}", be[0]); std::process::exit(3); }
    let mut mm = report.into_inner().unwrap();
    mm.sort_by_key(|x| (x.0, x.1));
    let mut f = std::fs::File::create(&a[1]).expect("report");
    for (_, _, m) in &mm { writeln!(f, "{}", m).unwrap(); }
    let failing: std::collections::BTreeSet<usize> = mm.iter().map(|x| x.0).collect();
    println!("{}", json!({"cases": n, "histories_run": next.load(Ordering::Relaxed).min(n), "deadlocked_histories": deadlocked.load(Ordering::Relaxed),
                          "steps": steps_total.load(Ordering::Relaxed), "mismatches": mm.len(), "failing_histories": failing.len(),
                          "distinct_concrete_calls": fmap.lock().unwrap().len(), "samples": samples.into_inner().unwrap()}));
}

/// `tvh exec` entry for op "ProviderLock.call": re-run a history (fresh process) and return step `step`
pub fn exec_history_step(a: &Value) -> Value {
    if a.get("plan").is_some() {
        // a call of a recorded concurrent session: re-run the whole session (fresh process), return call (t, k)
        let line = run_session(0, &a["plan"]);
        let (t, k) = (a["t"].as_u64().expect("t") as usize, a["k"].as_u64().expect("k") as usize);
        return line["thr"][t - 1][k - 1]["out"].clone();
    }
    let order = a["order"].as_array().expect("order");
    let step = a["step"].as_u64().expect("step") as usize;
    let (_, obs) = run_history(&order[..step]);
    let o = &obs[step - 1];
    let mpz = &order[step - 1]["pz"];
    let pz_ok = !(o["poisoned"] == true) || *mpz == true;
    json!({"kind": o["out"]["kind"], "val": o["out"].get("val"), "lk": lookup_class(o["evs"].as_array().unwrap()), "pz": if pz_ok { mpz.clone() } else { o["poisoned"].clone() }})
}
