SPECIFICATION Spec
CONSTANTS
  Receivers <- DateTimeReceivers
  PartialsOf <- DateTimeP
  FromTypes <- FromDateTime
  NewArgs <- DateTimeNew
  IdentityOn = TRUE
  OneStep = TRUE
INVARIANTS UsesOnlySupplied DefaultsAreZero IdentityLaw ClampNearest RejectSound RejectComplete ConstrainComplete RejectRefinesConstrain TypeErrorIff WellFormed
CHECK_DEADLOCK FALSE
