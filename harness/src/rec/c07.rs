//! C07 sessions: values constructed as q*n + r with exact multiples, ties and tie +- 1 ns over-sampled, through every rounding entry point.
use super::Tracer;
use crate::gen::*;
use crate::js::big;
use crate::rng::Rng;
use serde_json::json;

pub fn drive(t: &mut Tracer, r: &mut Rng, n: usize) {
    while t.n < n {
        let u = *r.pick(&TIME_UNITS);
        let mode = *r.pick(&MODES);
        match r.range(0, 5) {
            0 => { // PlainTime.round
                let inc = *r.pick(&time_incs(u)); let nn = inc as i128 * unit_ns(u);
                let q = r.range128(0, DAY_NS / nn - 1);
                let x = q * nn + tie_biased_rem(r, nn);
                let mut st = json!({"smallest": u, "inc": inc, "mode": mode});
                if r.chance(1, 8) { st.as_object_mut().unwrap().remove("mode"); }
                if inc == 1 && r.chance(1, 2) { st.as_object_mut().unwrap().remove("inc"); }
                t.call("PlainTime.round", json!({"recv": time_json(x), "st": st}));
            }
            1 => { // Instant.round: increments dividing a day
                let per_day = DAY_NS / unit_ns(u);
                let cands: Vec<i128> = [1i128, 2, 3, 4, 5, 6, 8, 10, 12, 15, 20, 24, 25, 27, 30, 45, 60, 90, 125, 512, 675, 720, 1000, 1440, 3600, 43200, 86400, 1_000_000, 86_400_000, 864_000_000, 1_000_000_000]
                    .iter().cloned().filter(|d| per_day % d == 0 && *d <= 1_000_000_000).collect();
                let inc = *r.pick(&cands); let nn = inc * unit_ns(u);
                let qmax = MAX_INSTANT / nn;
                let q = match r.range(0, 3) { 0 => r.range128(0, 3), 1 => qmax - r.range128(0, 1).min(qmax), _ => r.range128(0, qmax - 1) };
                let mut x = q * nn + tie_biased_rem(r, nn);
                if x > MAX_INSTANT { x = MAX_INSTANT; }
                if r.chance(1, 2) { x = -x; }
                t.call("Instant.round", json!({"recv": big(x), "st": {"smallest": u, "inc": inc as i64, "mode": mode}}));
            }
            2 | 3 => { // until / since with rounding
                let inc = *r.pick(&time_incs(u)); let nn = inc as i128 * unit_ns(u);
                let lgs: Vec<&str> = TIME_UNITS.iter().cloned().filter(|l| unit_rank(l) >= unit_rank(u)).collect();
                let lg = *r.pick(&lgs);
                let since = r.chance(1, 2);
                if r.chance(1, 2) {
                    let q = r.range128(0, DAY_NS / nn - 1);
                    let x = q * nn + tie_biased_rem(r, nn);
                    let a = r.range128(0, DAY_NS - 1 - x);
                    let (recv, other) = if r.chance(1, 2) { (a, a + x) } else { (a + x, a) };
                    t.call(if since { "PlainTime.since" } else { "PlainTime.until" }, json!({"recv": time_json(recv), "other": time_json(other), "st": {"largest": lg, "smallest": u, "inc": inc, "mode": mode}}));
                } else {
                    let q = r.range128(0, (MAX_INSTANT / nn).min(1 << 40));
                    let x = q * nn + tie_biased_rem(r, nn);
                    let a = r.range128(-MAX_INSTANT, MAX_INSTANT - x);
                    let (recv, other) = if r.chance(1, 2) { (a, a + x) } else { (a + x, a) };
                    t.call(if since { "Instant.since" } else { "Instant.until" }, json!({"recv": big(recv), "other": big(other), "st": {"largest": lg, "smallest": u, "inc": inc, "mode": mode}}));
                }
            }
            _ => { // the rounder itself through the hook
                let nn = match r.range(0, 3) { 0 => r.range(1, 20) as i128, 1 => r.range(1, 1_000_000_000) as i128 * unit_ns(u), _ => r.range128(1, 1_000_000_000_000_000_000_000) };
                let q = r.range128(0, 9_000_000_000_000_000_000_000_000 / nn);
                let mut x = q * nn + tie_biased_rem(r, nn);
                if r.chance(1, 2) { x = -x; }
                t.call("Round.i128", json!({"x": big(x), "inc": big(nn), "mode": mode}));
            }
        }
        t.reset();
    }
}

/// toString with a precision and a rounding mode (validated by Trace_RoundedFormat): values with ties at the precision over-sampled
pub fn drive_tostring(t: &mut Tracer, r: &mut Rng, n: usize) {
    while t.n < n {
        let mode = *r.pick(&MODES);
        let p: i64 = *r.pick(&[-2i64, 0, 1, 2, 3, 4, 5, 6, 7, 8, 9][..]);
        let nn: i128 = if p == -2 { 60_000_000_000 } else { 10i128.pow((9 - p) as u32) };
        let mut args = json!({"prec": if p == -2 { -1 } else { p }, "su": if p == -2 { "minute" } else { "" }, "mode": mode});
        if r.chance(1, 10) { args.as_object_mut().unwrap().remove("mode"); }
        match r.range(0, 4) {
            4 => {
                // a duration whose time total sits on / next to a tie of the precision; days and larger units ride along unrounded
                if p == -2 { continue; }
                let qmax = if r.chance(1, 2) { 200_000 } else { 9_000_000_000_000_000 / nn.max(1_000_000) };
                let q = r.range128(0, qmax);
                let total = q * nn + tie_biased_rem(r, nn);
                let neg = r.chance(1, 2);
                // spread the total over hours/minutes/seconds/sub-seconds in a random (unbalanced) way
                let mut rest = total;
                let h = if r.chance(1, 2) { let x = rest / 3_600_000_000_000; let x = if x > 0 { r.range128(0, x) } else { 0 }; rest -= x * 3_600_000_000_000; x } else { 0 };
                let mi = if r.chance(1, 2) { let x = rest / 60_000_000_000; let x = if x > 0 { r.range128(0, x) } else { 0 }; rest -= x * 60_000_000_000; x } else { 0 };
                let sec = rest / 1_000_000_000; rest %= 1_000_000_000;
                let (ms, us, ns) = (rest / 1_000_000, rest / 1000 % 1000, rest % 1000);
                let sg = |x: i128| big(if neg { -x } else { x });
                let date = if r.chance(1, 3) { (r.range(0, 3) as i128, r.range(0, 14) as i128, r.range(0, 5) as i128, r.range(0, 40) as i128) } else { (0, 0, 0, 0) };
                args["v"] = json!({"y": sg(date.0), "mo": sg(date.1), "w": sg(date.2), "d": sg(date.3), "h": sg(h), "mi": sg(mi), "s": sg(sec), "ms": sg(ms), "us": sg(us), "ns": sg(ns)});
                t.call("Fmt.Duration", args);
            }
            0 => {
                let q = r.range128(0, DAY_NS / nn - 1);
                let x = (q * nn + tie_biased_rem(r, nn)).min(DAY_NS - 1);
                args["v"] = time_json(if r.chance(1, 6) { DAY_NS - 1 - r.range128(0, nn.min(DAY_NS - 1)) } else { x });
                t.call("Fmt.PlainTime", args);
            }
            1 => {
                let q = r.range128(0, DAY_NS / nn - 1);
                let x = if r.chance(1, 4) { DAY_NS - 1 - r.range128(0, (nn / 2 + 2).min(DAY_NS - 1)) } else { (q * nn + tie_biased_rem(r, nn)).min(DAY_NS - 1) };
                let day = match r.range(0, 5) { 0 => MAX_DAY, 1 => -MAX_DAY + 1, 2 => days_from_civil(9999, 12, 31), 3 => days_from_civil(-1, 12, 31), _ => any_day(r) };
                let (y, m, d) = civil(day);
                let mut v = time_json(x);
                v["y"] = json!(y); v["m"] = json!(m); v["d"] = json!(d); v["cal"] = json!("iso8601");
                args["v"] = v;
                t.call("Fmt.PlainDateTime", args);
            }
            k => {
                let qmax = MAX_INSTANT / nn;
                let q = match r.range(0, 3) { 0 => r.range128(0, 3), 1 => qmax - r.range128(0, 1).min(qmax), _ => r.range128(0, qmax - 1) };
                let mut x = q * nn + tie_biased_rem(r, nn);
                if x > MAX_INSTANT { x = MAX_INSTANT; }
                if r.chance(1, 2) { x = -x; }
                if k == 2 { args["v"] = big(x); t.call("Fmt.Instant", args); }
                else {
                    let tz = *r.pick(&["UTC", "+05:30", "-08:00", "+14:00", "-00:01"][..]);
                    args["v"] = json!({"ns": big(x), "tz": tz.chars().map(|c| c.to_string()).collect::<Vec<_>>(), "cal": "iso8601"});
                    t.call("Fmt.ZonedDateTime", args);
                }
            }
        }
        if t.n % 50 == 0 { t.reset(); }
    }
}
