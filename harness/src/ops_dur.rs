//! Duration operations (C09 without a reference, C08 relative to a plain date).
use crate::js::{self, big, int};
use crate::ops::{utc, FS};
use crate::proj::*;
use serde_json::{json, Value};
use temporal_rs::options::*;
use temporal_rs::*;

fn nz(a: &Value) -> bool { a.get("nz").and_then(|b| b.as_bool()).unwrap_or(false) }
/// the duration with every zero field handed over as -0.0
fn arg_duration_nz(v: &Value) -> TemporalResult<Duration> {
    let f = |k: &str| { let x = v.get(k).map(ff).unwrap_or(temporal_rs::primitive::FiniteF64::from(0i8)); if x.as_inner() == 0.0 { temporal_rs::primitive::FiniteF64::try_from(-0.0f64).expect("-0.0 is finite") } else { x } };
    Duration::new(f("y"), f("mo"), f("w"), f("d"), f("h"), f("mi"), f("s"), f("ms"), f("us"), f("ns"))
}
fn recv_dur(a: &Value) -> TemporalResult<Duration> { if nz(a) { arg_duration_nz(&a["recv"]) } else { arg_duration(&a["recv"]) } }
pub fn exec(op: &str, a: &Value) -> Option<Value> {
    let rel = |a: &Value| arg_relative(a.get("rel").unwrap_or(&Value::Null));
    Some(match op {
        "Duration.new" => run(|| if let Some(h) = js::opt_s(a, "half") {
                // one field with half a unit added (the double nearest to it: for large fields that is the integer itself - skipped as not constructible)
                let v = &a["dur"]; let f = |k: &str| { let x = v.get(k).map(ff).unwrap_or(temporal_rs::primitive::FiniteF64::from(0i8)).as_inner(); if k == h { x + 0.5 } else { x } };
                if f(h).fract() == 0.0 { return Err(TemporalError::range().with_message("HARNESS: half not representable")); }
                let g = |k: &str| temporal_rs::primitive::FiniteF64::try_from(f(k)).expect("finite");
                Duration::new(g("y"), g("mo"), g("w"), g("d"), g("h"), g("mi"), g("s"), g("ms"), g("us"), g("ns"))
            } else if nz(a) { arg_duration_nz(&a["dur"]) } else { arg_duration(&a["dur"]) }, p_duration),
        // a property bag: only the keys present are supplied ({} or [] = empty bag)
        "Duration.fromPartial" => run(|| { let p = &a["p"]; let g = |k: &str| p.get(k).map(ff);
            Duration::from_partial_duration(temporal_rs::partial::PartialDuration { years: g("y"), months: g("mo"), weeks: g("w"), days: g("d"), hours: g("h"), minutes: g("mi"),
                seconds: g("s"), milliseconds: g("ms"), microseconds: g("us"), nanoseconds: g("ns") }) }, p_duration),
        "DateDuration.new" => run(|| { let d = &a["dur"]; DateDuration::new(ff(&d["y"]), ff(&d["mo"]), ff(&d["w"]), ff(&d["d"])) },
            |d| json!({"y": js::big_f64(d.years.as_inner()), "mo": js::big_f64(d.months.as_inner()), "w": js::big_f64(d.weeks.as_inner()), "d": js::big_f64(d.days.as_inner())})),
        "TimeDuration.new" => run(|| { let d = &a["dur"]; TimeDuration::new(ff(&d["h"]), ff(&d["mi"]), ff(&d["s"]), ff(&d["ms"]), ff(&d["us"]), ff(&d["ns"])) },
            |d| json!({"h": js::big_f64(d.hours.as_inner()), "mi": js::big_f64(d.minutes.as_inner()), "s": js::big_f64(d.seconds.as_inner()), "ms": js::big_f64(d.milliseconds.as_inner()), "us": js::big_f64(d.microseconds.as_inner()), "ns": js::big_f64(d.nanoseconds.as_inner())})),
        "Duration.negated" => run(|| Ok(recv_dur(a)?.negated()), p_duration),
        // the public unchecked constructor: a day count and a time part (the time part alone is validated by TimeDuration::new)
        "Duration.fromDayAndTime" => run(|| { let d = &a["dur"]; let t = TimeDuration::new(ff(&d["h"]), ff(&d["mi"]), ff(&d["s"]), ff(&d["ms"]), ff(&d["us"]), ff(&d["ns"]))?;
            Ok(Duration::from_day_and_time(ff(&d["d"]), &t)) }, p_duration),
        "Duration.timeInRange" => run(|| Ok(arg_duration(&a["recv"])?.is_time_within_range()), |b| json!(*b)),
        "Duration.abs" => run(|| Ok(recv_dur(a)?.abs()), p_duration),
        "Duration.sign" => run(|| { let d = recv_dur(a)?; let s = d.sign();
            // (the zero test is the same fact seen through another accessor)
            Ok((s, d.is_zero())) }, |(s, z)| if *z != (*s == Sign::Zero) { json!("is_zero disagrees with sign") } else { json!(*s as i8) }),
        "Duration.add" => run(|| arg_duration(&a["recv"])?.add(&arg_duration(&a["other"])?), p_duration),
        "Duration.subtract" => run(|| arg_duration(&a["recv"])?.subtract(&arg_duration(&a["other"])?), p_duration),
        "Duration.compare" => run(|| FS.with(|p| arg_duration(&a["recv"])?.compare_with_provider(&arg_duration(&a["other"])?, rel(a)?, p)), |o| p_ord(*o)),
        "Duration.round" => run(|| FS.with(|p| arg_duration(&a["recv"])?.round_with_provider(arg_rounding(&a["st"])?, rel(a)?, p)), p_duration),
        "Duration.total" => run(|| FS.with(|p| arg_duration(&a["recv"])?.total_with_provider(arg_unit(js::s(a, "unit")), rel(a)?, p)), |t| p_f64(t.as_inner())),
        _ => return None,
    })
}
