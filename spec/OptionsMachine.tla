--------------------------- MODULE OptionsMachine ---------------------------
(***************************************************************************)
(* Enumerates the option matrix of C10: one state per (operation, largest,  *)
(* smallest, increment) cell, one step per rounding mode (or absent). For   *)
(* accepted cells the expected *result* on separating operands is computed  *)
(* with the value-level specifications, so that the resolved defaults are   *)
(* observable (1.6 units apart: trunc /= halfExpand; since negates).        *)
(***************************************************************************)
EXTENDS Options, DateTimeArith, Duration

OpsAll == {"PlainDate.until", "PlainDate.since", "PlainTime.until", "PlainTime.since", "PlainDateTime.until", "PlainDateTime.since",
           "Instant.until", "Instant.since", "PlainYearMonth.until", "PlainYearMonth.since",
           "Duration.round", "PlainDateTime.round", "PlainTime.round", "Instant.round"}
UnitOpts == UnitSet \cup {Absent, "auto"}
CONSTANTS Ops, Incs, ModeOpts
VARIABLES cell, last
vars == <<cell, last>>
None == [op |-> "none"]
Init == cell \in [op : Ops, lg : UnitOpts, sm : UnitSet \cup {Absent}, inc : Incs] /\ last = None

IsSince(op) == op \in {"PlainDate.since", "PlainTime.since", "PlainDateTime.since", "Instant.since", "PlainYearMonth.since"}
TypeOf(op) == CASE op \in {"PlainDate.until", "PlainDate.since"} -> "PlainDate" [] op \in {"PlainTime.until", "PlainTime.since"} -> "PlainTime"
                [] op \in {"PlainDateTime.until", "PlainDateTime.since"} -> "PlainDateTime" [] op \in {"Instant.until", "Instant.since"} -> "Instant"
                [] OTHER -> "PlainYearMonth"
\* the fixed duration rounded by Duration.round: P1DT1H36M36.6006006S -> existing largest unit day
FixedDur == Dur10(Zero, Zero, Zero, FromInt(1), FromInt(1), FromInt(36), FromInt(36), FromInt(600), FromInt(600), FromInt(600))
ResolveCell(c, mode) ==
  CASE c.op \in {"Duration.round"} -> ResolveDurationRound("day", c.lg, c.sm, c.inc, mode)
    [] c.op = "PlainDateTime.round" -> ResolveDateTimeRound(c.sm, c.inc, mode)
    [] c.op = "PlainTime.round" -> ResolveTimeRound(c.sm, c.inc, mode)
    [] c.op = "Instant.round" -> ResolveInstantRound(c.sm, c.inc, mode)
    [] OTHER -> ResolveDiff(TypeOf(c.op), IsSince(c.op), c.lg, c.sm, c.inc, mode)

\* separating operands
TA == Time(1, 0, 0, 0, 0, 0)
TB == Time(2, 36, 36, 600, 600, 600)          \* 1.6 hours / minutes / seconds / ms / us later
IA == K9(FromInt(1000000))
IB == Add(IA, TimeNsOf(Time(1, 36, 36, 600, 600, 600)))
DA == DT(Date(2020, 1, 15), TA)
DB == DT(Date(2020, 1, 16), TB)
\* expected outcome of the call: a value where the value-level specs decide it, otherwise "ok" (kind only)
OkAny == [kind |-> "ok"]
TimeOnly(r) == r.largest \in TimeUnits
ExpectedOut(c, r) ==
  IF r.kind # "ok" THEN r
  ELSE CASE c.op \in {"PlainTime.until", "PlainTime.since"} -> PlainTimeDiff(TA, TB, r.largest, r.smallest, r.inc, IF IsSince(c.op) THEN NegateMode(r.mode) ELSE r.mode, IsSince(c.op))
         [] c.op \in {"Instant.until", "Instant.since"} -> InstantDiff(IA, IB, r.largest, r.smallest, r.inc, IF IsSince(c.op) THEN NegateMode(r.mode) ELSE r.mode, IsSince(c.op))
         [] c.op = "PlainTime.round" -> PlainTimeRound(TB, r.smallest, r.inc, r.mode)
         [] c.op = "Instant.round" -> InstantRound(IB, r.smallest, r.inc, r.mode)
         [] c.op = "PlainDateTime.round" -> LET o == RoundDT(DB, r.smallest, r.inc, r.mode)
                                            IN Ok([y |-> o.val.date.y, m |-> o.val.date.m, d |-> o.val.date.d, h |-> o.val.time.h, mi |-> o.val.time.mi,
                                                   s |-> o.val.time.s, ms |-> o.val.time.ms, us |-> o.val.time.us, ns |-> o.val.time.ns])
         [] c.op = "Duration.round" /\ r.largest \notin CalendarUnits /\ r.smallest \notin CalendarUnits -> DurRound(FixedDur, r.largest, r.smallest, r.inc, r.mode)
         [] (c.op \in {"PlainDateTime.until", "PlainDateTime.since"} /\ r.smallest = "nanosecond" /\ r.inc = 1) ->
              IF IsSince(c.op) THEN SinceDT(DA, DB, r.largest) ELSE UntilDT(DA, DB, r.largest)
         [] (c.op \in {"PlainDate.until", "PlainDate.since"} /\ r.smallest = "day" /\ r.inc = 1) ->
              Ok(IF IsSince(c.op) THEN SinceDur(Date(2020, 1, 15), Date(2021, 3, 20), r.largest) ELSE DiffDur(Date(2020, 1, 15), Date(2021, 3, 20), r.largest))
         \* no maximum exists for date units: a huge increment is accepted as an option but the computation may leave the range
         [] r.smallest \in DateUnits /\ r.inc >= 1000 -> [kind |-> "any"]
         [] OTHER -> OkAny
\* note: PlainTimeDiff / InstantDiff take the *unnegated* user mode and negate internally for since; ResolveDiff already
\* returned the negated mode for since, hence the double negation above (NegateMode is an involution).

Step(mode) == /\ last = None
              /\ LET r == ResolveCell(cell, mode)
                 IN last' = [op |-> cell.op, mode |-> mode, res |-> r, out |-> ExpectedOut(cell, r)]
              /\ UNCHANGED cell
Next == \E mode \in ModeOpts : Step(mode)
Spec == Init /\ [][Next]_vars

Done == last.op # "none"
\* acceptance never depends on the rounding mode
AcceptanceIgnoresMode == Done => (last.res.kind = ResolveCell(cell, Absent).kind)
\* resolved settings are coherent
ResolvedCoherent == (Done /\ last.res.kind = "ok") =>
  /\ (last.res.largest # "auto" => UnitLe(last.res.smallest, last.res.largest))
  /\ (MaxInc(last.res.smallest) # 0 /\ cell.op # "Instant.round" => MaxInc(last.res.smallest) % last.res.inc = 0 /\ last.res.inc < MaxInc(last.res.smallest))
  /\ (last.mode # Absent /\ ~IsSince(cell.op) => last.res.mode = last.mode)
  /\ (last.mode # Absent /\ IsSince(cell.op) => last.res.mode = NegateMode(last.mode))
  /\ (last.mode = Absent /\ cell.op \in {"Duration.round", "PlainDateTime.round", "PlainTime.round", "Instant.round"} => last.res.mode = "halfExpand")
  /\ (last.mode = Absent /\ cell.op \notin {"Duration.round", "PlainDateTime.round", "PlainTime.round", "Instant.round"} => last.res.mode = "trunc")
=============================================================================
