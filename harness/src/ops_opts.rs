//! C10: each operation with fixed "separating" operands (the same as OptionsMachine.tla) and the option set of the case.
use crate::js::{self, big, int};
use crate::ops::FS;
use crate::proj::*;
use serde_json::{json, Value};
use std::str::FromStr;
use temporal_rs::options::*;
use temporal_rs::*;

fn ta() -> TemporalResult<PlainTime> { PlainTime::try_new(1, 0, 0, 0, 0, 0) }
fn tb() -> TemporalResult<PlainTime> { PlainTime::try_new(2, 36, 36, 600, 600, 600) }
const IA: i128 = 1_000_000_000_000_000;
const IB: i128 = IA + 5_796_600_600_600;
fn da() -> TemporalResult<PlainDateTime> { PlainDateTime::try_new(2020, 1, 15, 1, 0, 0, 0, 0, 0, iso()) }
fn db() -> TemporalResult<PlainDateTime> { PlainDateTime::try_new(2020, 1, 16, 2, 36, 36, 600, 600, 600, iso()) }
fn fixed_dur() -> TemporalResult<Duration> {
    use temporal_rs::primitive::FiniteF64 as F;
    Duration::new(F::from(0i8), F::from(0i8), F::from(0i8), F::from(1i8), F::from(1i8), F::from(36i8), F::from(36i8), F::from(600i16), F::from(600i16), F::from(600i16))
}

pub fn exec(op: &str, a: &Value) -> Option<Value> {
    let st = &a["st"];
    // operands chosen by the model (OptionsMachine!Operands): half-way between two multiples of the resolved increment
    let o = &a["operands"];
    let same = a.get("same").and_then(|x| x.as_bool()).unwrap_or(false);   // the receiver is also the argument
    let (d2, ym2) = if same { ((2020, 1, 15), "2020-01") } else { ((2021, 3, 20), "2021-03") };
    Some(match op {
        // the option enums' own helper tables
        "Opt.table.unit" => run(|| Ok(arg_unit(js::s(a, "unit"))), |u| json!({"ns": big(u.as_nanoseconds().unwrap_or(0) as i128), "max": int(u.to_maximum_rounding_increment().unwrap_or(0) as i64),
            "cal": u.is_calendar_unit(), "date": u.is_date_unit(), "time": u.is_time_unit()})),
        "Opt.table.unitAdd" => run(|| Ok(arg_unit(js::s(a, "unit")) + if js::i(a, "n") < 0 { usize::MAX } else { js::i(a, "n") as usize }), |u| json!(u.to_string())),
        "Opt.table.mode" => run(|| Ok(arg_mode(js::s(a, "mode"))), |m| { let un = |p: bool| match m.get_unsigned_round_mode(p) {
                UnsignedRoundingMode::Infinity => "infinity", UnsignedRoundingMode::Zero => "zero", UnsignedRoundingMode::HalfInfinity => "half-infinity",
                UnsignedRoundingMode::HalfZero => "half-zero", UnsignedRoundingMode::HalfEven => "half-even" };
            json!({"neg": m.negate().to_string(), "pos": un(true), "negative": un(false)}) }),
        "Opt.PlainDate.until" => run(|| PlainDate::try_new(2020, 1, 15, iso())?.until(&PlainDate::try_new(d2.0, d2.1, d2.2, iso())?, arg_settings(st)?), p_duration),
        "Opt.PlainDate.since" => run(|| PlainDate::try_new(2020, 1, 15, iso())?.since(&PlainDate::try_new(d2.0, d2.1, d2.2, iso())?, arg_settings(st)?), p_duration),
        "Opt.PlainTime.until" => run(|| arg_time(&o["a"])?.until(&arg_time(&o["b"])?, arg_settings(st)?), p_duration),
        "Opt.PlainTime.since" => run(|| arg_time(&o["a"])?.since(&arg_time(&o["b"])?, arg_settings(st)?), p_duration),
        "Opt.PlainDateTime.until" => run(|| arg_datetime(&o["a"])?.until(&arg_datetime(&o["b"])?, arg_settings(st)?), p_duration),
        "Opt.PlainDateTime.since" => run(|| arg_datetime(&o["a"])?.since(&arg_datetime(&o["b"])?, arg_settings(st)?), p_duration),
        "Opt.Instant.until" => run(|| arg_instant(&o["a"])?.until(&arg_instant(&o["b"])?, arg_settings(st)?), p_duration),
        "Opt.Instant.since" => run(|| arg_instant(&o["a"])?.since(&arg_instant(&o["b"])?, arg_settings(st)?), p_duration),
        // both operands in UTC, or (oz) the argument in +01:00: the zones of the operands matter only when the resolved largest unit is a date unit
        "Opt.ZonedDateTime.until" | "Opt.ZonedDateTime.since" => run(|| {
            let oz = o.get("oz").and_then(|x| x.as_bool()).unwrap_or(false);
            let z1 = ZonedDateTime::try_new(num(&o["a"]), iso(), TimeZone::try_from_str("UTC")?)?;
            let z2 = ZonedDateTime::try_new(num(&o[if same { "a" } else { "b" }]), iso(), TimeZone::try_from_str(if oz { "+01:00" } else { "UTC" })?)?;
            FS.with(|p| if op.ends_with("until") { z1.until_with_provider(&z2, arg_settings(st)?, p) } else { z1.since_with_provider(&z2, arg_settings(st)?, p) })
        }, p_duration),
        "Opt.PlainYearMonth.until" => run(|| PlainYearMonth::from_str("2020-01")?.until(&PlainYearMonth::from_str(ym2)?, arg_settings(st)?), p_duration),
        "Opt.PlainYearMonth.since" => run(|| PlainYearMonth::from_str("2020-01")?.since(&PlainYearMonth::from_str(ym2)?, arg_settings(st)?), p_duration),
        "Opt.Duration.round" => run(|| {
            // calendar units need a reference date (C09): supply one exactly when the option set names a calendar unit
            let cal = |k: &str| matches!(js::opt_s(st, k), Some("week") | Some("month") | Some("year"));
            let rel = if cal("largest") || cal("smallest") { Some(RelativeTo::PlainDate(PlainDate::try_new(2020, 1, 15, iso())?)) } else { None };
            FS.with(|p| arg_duration(&o["a"])?.round_with_provider(arg_rounding(st)?, rel, p))
        }, p_duration),
        "Opt.PlainDateTime.round" => run(|| arg_datetime(&o["a"])?.round(arg_rounding(st)?), p_datetime),
        "Opt.Instant.round" => run(|| arg_instant(&o["a"])?.round(arg_rounding(st)?), p_instant),
        "Opt.PlainTime.round" => run(|| {
            // PlainTime::round takes the unit positionally; an absent smallest unit cannot be expressed -> Unit::Auto
            let u = js::opt_s(st, "smallest").map(arg_unit).unwrap_or(Unit::Auto);
            let inc = st.get("inc").and_then(|x| x.as_i64()).map(|x| x as f64);
            arg_time(&o["a"])?.round(u, inc, js::opt_s(st, "mode").map(arg_mode))
        }, p_time),
        _ => return None,
    })
}
