#!/usr/bin/env python3
"""Regenerates the seeded-change table in DESIGN.md (between the SEEDTABLE markers) from seeded/*/meta.json and seeded/verdicts.json."""
import json, os, re
ROOT = os.path.dirname(os.path.dirname(os.path.abspath(__file__)))
V = json.load(open(os.path.join(ROOT, "seeded", "verdicts.json")))


def first_sentence(s, n=170):
    s = " ".join(s.split())
    return (s[:n].rsplit(" ", 1)[0] + " …") if len(s) > n else s


def main():
    rows = ["| Seed | File | Change (needs) | Caught by (quick tier) |", "|---|---|---|---|"]
    for d in sorted(os.listdir(os.path.join(ROOT, "seeded"))):
        p = os.path.join(ROOT, "seeded", d, "meta.json")
        if not os.path.exists(p):
            continue
        m = json.load(open(p))
        f = m.get("files")
        f = f[0] if isinstance(f, list) and f else str(f)
        v = V.get(d, {})
        prop = d.split("-")[0]
        rc = (m.get("vcheck") or {}).get(f"vcheck_{prop}_rc")
        caught = v.get("caught_by") or ([prop] if rc == "1" else [])
        verdict = ", ".join(caught) if caught else "**not caught**"
        if v.get("note"):
            verdict += " — " + v["note"]
        rows.append(f"| {d} | `{f}` | {first_sentence(m['summary'])} | {verdict} |")
    table = "\n".join(rows)
    path = os.path.join(ROOT, "DESIGN.md")
    s = open(path).read()
    if "<!-- SEEDTABLE -->" in s and "<!-- /SEEDTABLE -->" not in s:
        s = s.replace("<!-- SEEDTABLE -->", "<!-- SEEDTABLE -->\n" + table + "\n<!-- /SEEDTABLE -->")
    else:
        s = re.sub(r"<!-- SEEDTABLE -->.*?<!-- /SEEDTABLE -->", lambda _: "<!-- SEEDTABLE -->\n" + table + "\n<!-- /SEEDTABLE -->", s, flags=re.S)
    open(path, "w").write(s)
    total = len(rows) - 2
    missed = sum(1 for r in rows if "**not caught**" in r)
    print(f"{total} seeded changes, {missed} not caught")


if __name__ == "__main__":
    main()
