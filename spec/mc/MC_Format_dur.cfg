SPECIFICATION FSpec
CONSTANTS
  FValues <- DurValues
  FOpts <- MCOpts
  GenForms = {}
  GenYears = {}
  Budget = 0
INVARIANTS RoundTrip Readable Idempotent YearShape FractionShape AnnotationOrder EnumRoundTrip
CHECK_DEADLOCK FALSE
