SPECIFICATION GSpec
CONSTANTS
  GenForms <- FDur
  GenYears <- OneYear
  Budget = 3
INVARIANTS StructureRecovered DurationRecovered GeneratedAccepted MutationsRejected SmallGoals OutcomesWellFormed
CHECK_DEADLOCK FALSE
