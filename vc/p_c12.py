"""C12 - parsers accept exactly the Temporal grammar of their type.
TLC explores the token-level generator of spec/Grammar.tla (every string with at most Budget deviations from the canonical
form, at most one of them a catalogued mutation), checks generator <= recognizer / mutations rejected on it and emits one
case per (string, parser); the cases are replayed into the real from_str functions; seeded mutated and arbitrary strings are
parsed by the real code and judged by the character-level recognizer (Trace_Grammar)."""
import json, os
from . import lib
from .lib import ToolError, log
from .props import corrupt_first


def clean_prefix(run, trace, mm, n, name):
    """first n events of a trace that were NOT reported as mismatches (basis for the trace negative control)"""
    bad = {m.get("i") for m in mm}
    out = os.path.join(run.dir, name)
    k = 0
    with open(trace) as f, open(out, "w") as g:
        for i, l in enumerate(f, 1):
            if i in bad:
                continue
            g.write(l)
            k += 1
            if k >= n:
                break
    return out


def strict_negctl_replay(run, binp, cases, pred, mutate, limit=600):
    """replay negative control on cases that currently MATCH: the one corrupted expectation must be the one reported"""
    lines = []
    with open(cases) as f:
        for i, l in enumerate(f):
            if i >= limit:
                break
            lines.append(json.loads(l))
    base = os.path.join(run.dir, "negctl.base.ndjson")
    with open(base, "w") as f:
        for e in lines:
            f.write(json.dumps(e) + "\n")
    rep = os.path.join(run.dir, "negctl.base.report.ndjson")
    run.harness(binp, ["replay", base, rep])
    bad = {json.loads(l)["i"] for l in open(rep)}
    good = [e for i, e in enumerate(lines, 1) if i not in bad]
    target = None
    for k, e in enumerate(good, 1):
        if pred(e):
            mutate(e)
            target = k
            break
    if target is None:
        raise ToolError("negative control could not find a case to corrupt")
    badf = os.path.join(run.dir, "negctl.cases.ndjson")
    with open(badf, "w") as f:
        for e in good:
            f.write(json.dumps(e) + "\n")
    rep2 = os.path.join(run.dir, "negctl.report.ndjson")
    run.harness(binp, ["replay", badf, rep2])
    got = [json.loads(l)["i"] for l in open(rep2)]
    run.cov["negative_controls"].append(dict(kind="replay", detected=len(got), corrupted_case=target))
    if got != [target]:
        raise ToolError(f"negative control: corrupted expectation #{target} not (only) detected by replay: {got}")
    log(f"[negctl] corrupted case #{target} detected by replay, {len(good) - 1} untouched cases still pass")


def count_distinct(run, path):
    with open(path) as f:
        for l in f:
            c = json.loads(l)
            run.distinct(lib.hashlib.md5((c.get("op", "") + json.dumps(c.get("args"), sort_keys=True)).encode()).hexdigest())


def run(run):
    b = lib.build_harness("dev")
    q = run.tier == "quick"
    cfgs = ["small", "qshort", "qtime", "qdur", "qdt"] if q else ["small", "tshort", "ttime", "tdur", "tdt", "tdty"]
    first = None
    for c in cfgs:
        # the generator run is the model-checking run: StructureRecovered, DurationRecovered, GeneratedAccepted,
        # MutationsRejected, SmallGoals, OutcomesWellFormed are invariants of the same cfg
        cases, n = run.gen("mc/MC_Grammar.tla", f"gen/Gen_C12_{c}.cfg", workers=4, name=c, timeout=1500)
        count_distinct(run, cases)
        run.replay(b, cases, label=c)
        first = first or cases
        if c in ("qdt", "tdt"):
            strict_negctl_replay(run, b, cases, lambda e: e["op"] == "Parse.PlainDate" and e["out"]["kind"] == "ok",
                                 lambda e: e["out"]["val"].__setitem__("d", e["out"]["val"]["d"] % 28 + 1))
    tr = run.record(b, "c12", 60000 if q else 400000)
    count_distinct(run, tr)
    ok, mm = run.validate("trace/Trace_Grammar.tla", "trace/Trace_Grammar.cfg", tr, timeout=1500)
    small = clean_prefix(run, tr, mm, 400, "c12.clean.trace.ndjson")

    def flip(e):
        e["out"] = {"kind": "range"}
    run.negative_control_trace("trace/Trace_Grammar.tla", "trace/Trace_Grammar.cfg", small,
                               corrupt_first(lambda e: e.get("op", "").startswith("Parse.") and e["out"]["kind"] == "ok", flip))
    run.cov["rule"] = ("replay: every finished string of the bounded generator instance x every parser it concerns is one case, distinct by (parser, characters); "
                       "traces: seeded valid / mutated / arbitrary strings, distinct by (parser, characters); non-trivial = the recognizer had to read the whole string "
                       "(all strings; counted after de-duplication)")
    run.assumptions += ["the recognizer is my transcription of the proposal's grammar (ParseISODateTime, ParseTemporalDurationString, ParseTimeZoneIdentifier); "
                        "generator <= recognizer and mutation rejection are model checked on it",
                        "unasserted on purpose: U+2212 as a sign, month codes 00/>13, the minute value kept for a sub-minute UtcOffset string (acceptance is asserted), calendar aliases, named zones other than UTC in ZonedDateTime values",
                        "strings travel as arrays of 1-character strings, non-ASCII as U+XXXX tokens (ops_parse::chars_tok)"]
