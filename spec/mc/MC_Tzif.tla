------------------------------ MODULE MC_Tzif ------------------------------
(***************************************************************************)
(* Bounded instances of Tzif. The toy world has 24 ticks per day (DaySec =  *)
(* 24): offsets, rule times and transition times are in ticks, so TLC can   *)
(* visit every tick of whole years. The calendar is the real one.           *)
(***************************************************************************)
EXTENDS Tzif, TLC

Ty(o, dst) == [off |-> o, dst |-> dst]
Tr(d, s, ty) == [d |-> d, s |-> s, ty |-> ty]
M(m, w, d, t) == [k |-> "M", m |-> m, w |-> w, d |-> d, t |-> t]
J(n, t) == [k |-> "J", n |-> n, t |-> t]
N(n, t) == [k |-> "N", n |-> n, t |-> t]
Rule(std, dst, st, en) == [kind |-> "rule", std |-> std, dst |-> dst, start |-> st, end |-> en]
Fixed(std) == [kind |-> "fixed", std |-> std]
NoFooter == [kind |-> "none"]
Tab(types, trans, footer) == [types |-> types, trans |-> trans, footer |-> footer]

\* day 0 = Thu 1970-01-01; 10 = Jan 11; 100 = Apr 11; 310 = Nov 7 (after the first Sunday of November)
ZN == Tab(<<Ty(-4, FALSE), Ty(-5, FALSE), Ty(-4, TRUE)>>,
          <<Tr(10, 5, 2), Tr(100, 7, 3), Tr(310, 6, 2)>>,
          Rule(-5, -4, M(3, 2, 0, 2), M(11, 1, 0, 2)))                    \* northern, LMT-like type 0
ZS == Tab(<<Ty(10, FALSE), Ty(11, TRUE)>>,
          <<Tr(5, 3, 2), Tr(93, 16, 1)>>,
          Rule(10, 11, M(10, 1, 0, 2), M(4, 1, 0, 3)))                    \* southern: start > end within a year
ZD == Tab(<<Ty(-1, FALSE), Ty(1, FALSE), Ty(0, TRUE)>>,
          <<Tr(3, 0, 3)>>,
          Rule(1, 0, M(10, 5, 0, 2), M(3, 5, 0, 1)))                      \* negative DST (Europe/Dublin shape)
ZF == Tab(<<Ty(-5, FALSE)>>, <<>>, Fixed(-5))                             \* no transitions, fixed footer
ZU == Tab(<<Ty(0, FALSE)>>, <<>>, NoFooter)                               \* no transitions, no footer
ZL == Tab(<<Ty(-11, FALSE), Ty(13, FALSE), Ty(14, TRUE), Ty(13, FALSE)>>,
          <<Tr(20, 10, 2), Tr(40, 11, 3), Tr(40, 13, 4)>>, NoFooter)     \* a whole day skipped; two close transitions
ZJ == Tab(<<Ty(2, FALSE), Ty(3, TRUE)>>, <<Tr(1, 0, 1)>>,
          Rule(2, 3, J(60, 0), N(300, -1)))                               \* Jn and n rules, negative rule time
ZP == Tab(<<Ty(1, TRUE)>>, <<>>, Rule(0, 1, N(0, 0), J(365, 25)))         \* permanent DST written as a rule
ZW == Tab(<<Ty(2, FALSE), Ty(3, TRUE)>>, <<>>,
          Rule(2, 3, M(3, 4, 4, 50), M(10, 4, 4, 50)))                    \* rule times beyond a day (Gaza shape)

ToyDisk == [z \in {"ZN", "ZS", "ZD", "ZF", "ZU", "ZL", "ZJ", "ZP", "ZW"} |->
             CASE z = "ZN" -> ZN [] z = "ZS" -> ZS [] z = "ZD" -> ZD [] z = "ZF" -> ZF [] z = "ZU" -> ZU
               [] z = "ZL" -> ZL [] z = "ZJ" -> ZJ [] z = "ZP" -> ZP [] z = "ZW" -> ZW]
ToyZones == DOMAIN ToyDisk

Ticks(d0, d1) == {P(d, s) : d \in d0..d1, s \in 0..(DaySec - 1)}
ManyYears == {1, 1600, 1900, 2400, 9999} \cup 1969..2110

\* quick-tier windows (the thorough ones, supersets, are in MC_TzifT)
QLookupW == Ticks(-2, 45) \cup Ticks(90, 104) \cup Ticks(290, 314) \cup Ticks(420, 460)
QOffsetQueries == {[zone |-> z, kind |-> "offset", at |-> t] : z \in ToyZones, t \in QLookupW}
QCentres == {3, 10, 20, 40, 93, 100, 310, 297, 300, 437, 448}
QLocalQueries == {[zone |-> z, kind |-> "local", at |-> t] : z \in ToyZones, t \in UNION {Ticks(c - 1, c + 1) : c \in QCentres}}
QYearQueries == {[zone |-> z, kind |-> "offset", at |-> P(DaysFromCivil(y, 1, 1), 0)] : z \in ToyZones, y \in {1972, 2100}}

(* ---- laws as invariants over the last transition (depth-1 exploration) ---- *)
IsQ == last.op = "query"
LZ == disk[last.q.zone]
LT == last.q.at
Around(t, k) == {Shift(t, j) : j \in (-k)..k}
MaxOff == 14      \* no toy offset is larger

LawIdx == (IsQ /\ last.q.kind = "offset") => Idx(LZ, LT) = IdxDecl(LZ, LT)
LawAnswer == IsQ => last.ans = DataSay(disk, last.q)
LawPiecewise == (IsQ /\ last.q.kind = "offset") => ChangesOnlyAtEvents(LZ, {LT})
LawBeforeFirst == (IsQ /\ last.q.kind = "offset") => BeforeFirstIsType0(LZ, {LT})
\* brute force over the zone's offsets = brute force over all instants that could possibly read LT
LawLocal == (IsQ /\ last.q.kind = "local") =>
  LET pre == {t \in Around(LT, MaxOff + 1) : Eq(Wall(LZ, t), LT)}
      n == Cardinality(pre)
  IN /\ \A o \in Offsets(LZ) : o <= MaxOff /\ -o <= MaxOff
     /\ last.ans.val = pre
     /\ LocalKind(LZ, LT) = (IF n = 0 THEN "gap" ELSE IF n = 1 THEN "unique" ELSE "overlap")
\* coverage marker: the three kinds all occur in the toy world
KindsSeen == {LocalKind(ToyDisk[z], t) : z \in {"ZN", "ZL"}, t \in Ticks(20, 21) \cup Ticks(100, 100) \cup Ticks(310, 310)}
ASSUME KindsSeen = {"gap", "unique", "overlap"}

\* per zone (and year): table laws, and for rule footers the rule laws over every tick of the year
YearTicks(y) == Ticks(DaysFromCivil(y, 1, 1), DaysFromCivil(y, 12, 31))
LawTable == IsQ => ChangesAtTransitions(LZ) /\ WellFormed(LZ) /\ GapOverlapRule(LZ)
\* quick tier: only the ticks within three days of a rule transition of the year, and the first and last two days
NearTicks(F, y) == LET dd == {e.at.d : e \in RuleEvents(F, y)} \cup {DaysFromCivil(y, 1, 2), DaysFromCivil(y, 12, 30)}
                   IN {t \in UNION {Ticks(d - 3, d + 3) : d \in dd} : YearOf(t) = y}
RuleLaws(F, y, ticks) ==
  LET evs == RuleEvents(F, y)                       \* YearOf(t) = y for every tick of the year
      dstIn == [u \in ticks \cup {Shift(u, 1) : u \in ticks} |-> InDst(F, u)]
      past(t) == {e \in evs : Le(e.at, t)}
      real == {e.at : e \in {e \in evs : ~\E f \in evs : Eq(f.at, e.at) /\ f.toDst # e.toDst}}
  IN /\ F.std # F.dst
     /\ \A yy \in ManyYears : RuleDayRight(F.start, yy) /\ RuleDayRight(F.end, yy) /\ RuleAlternates(F, yy)
     \* the interval reading of the rule = "the most recent rule transition decides" (Tzif!RuleReadingsAgree, events hoisted)
     /\ \A t \in ticks : dstIn[t] = (past(t) # {} /\ MaxEvent(past(t)).toDst)
     \* the offset changes exactly at the rule transitions that fall in the year (an end that coincides with
     \* the next start - permanent DST written as a rule - is no change)
     /\ {Shift(u, 1) : u \in {u \in ticks : dstIn[u] # dstIn[Shift(u, 1)]}} = {p \in real : Shift(p, -1) \in ticks}
LawRules == (IsQ /\ LZ.footer.kind = "rule") => RuleLaws(LZ.footer, YearOf(LT), YearTicks(YearOf(LT)))
LawRulesNear == (IsQ /\ LZ.footer.kind = "rule") => RuleLaws(LZ.footer, YearOf(LT), NearTicks(LZ.footer, YearOf(LT)))

(* ---- provider instance: all orders of a 3-zone x 3-query workload plus failing queries ---- *)
ProvDisk == [z \in {"ZN", "ZS", "ZL"} |-> ToyDisk[z]]
ProvWorkload == {[zone |-> z, kind |-> "offset", at |-> P(100, 7)] : z \in {"ZN", "ZS", "ZL", "Nowhere"}}
                \cup {[zone |-> z, kind |-> "offset", at |-> P(40, 12)] : z \in {"ZN", "ZS", "ZL"}}
                \cup {[zone |-> z, kind |-> "local", at |-> P(100, 3)] : z \in {"ZN", "ZS", "ZL", "Elsewhere"}}
\* the order in which the history was produced is irrelevant to the model's future: identify histories by their set
ProvView == <<cache, Range(hist), last>>
AllDone == Len(hist) <= Cardinality(ProvWorkload)
=============================================================================
