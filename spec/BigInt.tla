------------------------------- MODULE BigInt -------------------------------
(***************************************************************************)
(* Arbitrary-precision signed integers for TLC (whose integers are 32-bit). *)
(* A big is a record [s |-> -1|0|1, l |-> little-endian base-10^4 limbs]    *)
(* in normal form: no most-significant zero limb, s = 0 iff l = <<>>.       *)
(* The same shape is what the Rust harness logs (proj.rs: big()).           *)
(***************************************************************************)
EXTENDS Integers, Sequences

B == 10000

Max2(a, b) == IF a >= b THEN a ELSE b
Min2(a, b) == IF a <= b THEN a ELSE b
AbsI(x) == IF x < 0 THEN -x ELSE x
SgnI(x) == IF x < 0 THEN -1 ELSE IF x > 0 THEN 1 ELSE 0

At(l, i) == IF i <= Len(l) THEN l[i] ELSE 0

RECURSIVE Strip(_)
Strip(l) == IF l = <<>> THEN <<>>
            ELSE IF l[Len(l)] = 0 THEN Strip(SubSeq(l, 1, Len(l) - 1)) ELSE l

(* ---- magnitudes (limb sequences) ---- *)
RECURSIVE MCmpR(_, _, _)
MCmpR(a, b, i) == IF i = 0 THEN 0
                  ELSE IF At(a, i) > At(b, i) THEN 1
                  ELSE IF At(a, i) < At(b, i) THEN -1
                  ELSE MCmpR(a, b, i - 1)
MCmp(a, b) == MCmpR(a, b, Max2(Len(a), Len(b)))

RECURSIVE MAddR(_, _, _, _)
MAddR(a, b, i, c) ==
  IF i > Len(a) /\ i > Len(b) THEN (IF c = 0 THEN <<>> ELSE <<c>>)
  ELSE LET x == At(a, i) + At(b, i) + c IN <<x % B>> \o MAddR(a, b, i + 1, x \div B)
MAdd(a, b) == MAddR(a, b, 1, 0)

\* a >= b required
RECURSIVE MSubR(_, _, _, _)
MSubR(a, b, i, br) ==
  IF i > Len(a) THEN <<>>
  ELSE LET x == At(a, i) - At(b, i) - br
       IN IF x < 0 THEN <<x + B>> \o MSubR(a, b, i + 1, 1)
                   ELSE <<x>> \o MSubR(a, b, i + 1, 0)
MSub(a, b) == Strip(MSubR(a, b, 1, 0))

\* 0 <= m <= 200000
RECURSIVE MMulSmallR(_, _, _, _)
MMulSmallR(a, m, i, c) ==
  IF i > Len(a) THEN (IF c = 0 THEN <<>> ELSE IF c < B THEN <<c>> ELSE <<c % B, c \div B>>)
  ELSE LET x == a[i] * m + c IN <<x % B>> \o MMulSmallR(a, m, i + 1, x \div B)
MMulSmall(a, m) == Strip(MMulSmallR(a, m, 1, 0))

\* 1 <= d <= 200000 ; returns [q |-> limbs, r |-> int]
RECURSIVE MDivSmallR(_, _, _, _)
MDivSmallR(a, d, i, r) ==
  IF i = 0 THEN [q |-> <<>>, r |-> r]
  ELSE LET x == r * B + a[i]
           rest == MDivSmallR(a, d, i - 1, x % d)
       IN [q |-> rest.q \o <<x \div d>>, r |-> rest.r]
MDivSmall(a, d) == LET t == MDivSmallR(a, d, Len(a), 0) IN [q |-> Strip(t.q), r |-> t.r]

RECURSIVE MShift(_, _)
MShift(a, k) == IF k = 0 \/ a = <<>> THEN a ELSE <<0>> \o MShift(a, k - 1)

RECURSIVE MMulR(_, _, _)
MMulR(a, b, j) == IF j > Len(b) THEN <<>>
                  ELSE MAdd(MShift(MMulSmall(a, b[j]), j - 1), MMulR(a, b, j + 1))
MMul(a, b) == Strip(MMulR(a, b, 1))

\* general long division of magnitudes: [q |-> limbs, r |-> limbs], b # <<>>
\* quotient limb = largest d in 0..B-1 with b*d <= rem, found by bisection
RECURSIVE MDigit(_, _, _, _)
MDigit(rem, b, lo, hi) ==   \* invariant: b*lo <= rem < b*(hi+1)
  IF lo = hi THEN lo
  ELSE LET mid == (lo + hi + 1) \div 2
       IN IF MCmp(MMulSmall(b, mid), rem) <= 0 THEN MDigit(rem, b, mid, hi) ELSE MDigit(rem, b, lo, mid - 1)
RECURSIVE MDivModR(_, _, _, _)
MDivModR(a, b, i, rem) ==
  IF i = 0 THEN [q |-> <<>>, r |-> rem]
  ELSE LET cur == Strip(<<a[i]>> \o rem)
           d == MDigit(cur, b, 0, B - 1)
           nrem == MSub(cur, MMulSmall(b, d))
           rest == MDivModR(a, b, i - 1, nrem)
       IN [q |-> rest.q \o <<d>>, r |-> rest.r]
MDivMod(a, b) == LET t == MDivModR(a, b, Len(a), <<>>) IN [q |-> Strip(t.q), r |-> t.r]

(* ---- signed ---- *)
Zero == [s |-> 0, l |-> <<>>]
Mk(s, l) == LET n == Strip(l) IN IF n = <<>> THEN Zero ELSE [s |-> s, l |-> n]

IsBig(b) == /\ b.s \in {-1, 0, 1}
            /\ \A i \in 1..Len(b.l) : b.l[i] \in 0..(B - 1)
            /\ (b.s = 0) = (b.l = <<>>)
            /\ (b.l # <<>> => b.l[Len(b.l)] # 0)

RECURSIVE NatLimbs(_)
NatLimbs(n) == IF n = 0 THEN <<>> ELSE <<n % B>> \o NatLimbs(n \div B)
FromInt(n) == IF n = 0 THEN Zero ELSE [s |-> SgnI(n), l |-> NatLimbs(AbsI(n))]

\* magnitude <= 2147483647  (3 limbs, top <= 21, with exact check)
FitsInt(b) == \/ Len(b.l) <= 2
              \/ (Len(b.l) = 3 /\ (b.l[3] < 21 \/ (b.l[3] = 21 /\ (b.l[2] < 4748 \/ (b.l[2] = 4748 /\ b.l[1] <= 3647)))))
ToInt(b) == b.s * (At(b.l, 1) + At(b.l, 2) * B + At(b.l, 3) * B * B)

Neg(b) == [s |-> -b.s, l |-> b.l]
Abs(b) == [s |-> AbsI(b.s), l |-> b.l]
Sign(b) == b.s
IsZero(b) == b.s = 0

Cmp(a, b) == IF a.s # b.s THEN (IF a.s > b.s THEN 1 ELSE -1)
             ELSE IF a.s = 0 THEN 0 ELSE a.s * MCmp(a.l, b.l)
Lt(a, b) == Cmp(a, b) = -1
Le(a, b) == Cmp(a, b) # 1
Eq(a, b) == Cmp(a, b) = 0

Add(a, b) == IF a.s = 0 THEN b ELSE IF b.s = 0 THEN a
             ELSE IF a.s = b.s THEN [s |-> a.s, l |-> MAdd(a.l, b.l)]
             ELSE LET c == MCmp(a.l, b.l)
                  IN IF c = 0 THEN Zero
                     ELSE IF c = 1 THEN [s |-> a.s, l |-> MSub(a.l, b.l)]
                     ELSE [s |-> b.s, l |-> MSub(b.l, a.l)]
Sub(a, b) == Add(a, Neg(b))

\* m any int with |m| <= 200000
MulSmall(a, m) == IF m = 0 \/ a.s = 0 THEN Zero
                  ELSE [s |-> a.s * SgnI(m), l |-> MMulSmall(a.l, AbsI(m))]
Mul(a, b) == IF a.s = 0 \/ b.s = 0 THEN Zero ELSE [s |-> a.s * b.s, l |-> MMul(a.l, b.l)]

\* truncating division by 1 <= d <= 200000: [q |-> big, r |-> int with sign of a]
TruncDivSmall(a, d) == LET t == MDivSmall(a.l, d)
                       IN [q |-> Mk(a.s, t.q), r |-> a.s * t.r]
\* floor division: 0 <= r < d
FloorDivSmall(a, d) == LET t == TruncDivSmall(a, d)
                       IN IF t.r < 0 THEN [q |-> Sub(t.q, FromInt(1)), r |-> t.r + d] ELSE t

\* general division by a positive big d: truncating and floor variants, r as big
TruncDivMod(a, d) == LET t == MDivMod(a.l, d.l) IN [q |-> Mk(a.s, t.q), r |-> Mk(a.s, t.r)]
FloorDivMod(a, d) == LET t == TruncDivMod(a, d)
                     IN IF t.r.s < 0 THEN [q |-> Sub(t.q, FromInt(1)), r |-> Add(t.r, d)] ELSE t

Parity(b) == At(b.l, 1) % 2

RECURSIVE Pow10(_)
Pow10(k) == IF k = 0 THEN FromInt(1) ELSE MulSmall(Pow10(k - 1), 10)

\* |b| <= cap (cap a non-negative int)
AbsLe(b, cap) == FitsInt(b) /\ AbsI(ToInt(b)) <= cap
=============================================================================
