"""C20 - the shared time-zone provider is thread-safe and survives failed calls.

  model     spec/ProviderLock.tla (PlusCal): exhaustive 3 threads x 2 calls x 3 zones, PoisonBehaviour = "recover"
            (the property: all invariants + Termination) and = "error" (the code today: everything but
            FailureIsolation); an EXPECTED-VIOLATION run documents the defect on the model.
  S -> I    every complete behaviour of a bounded instance (lock-acquisition order + fault placement) is replayed
            with real threads against the real global provider, each history in a fresh process.
  I -> S    2..16 real threads hammer the convenience API in fresh processes; TLC (Trace_ProviderLock) accepts a
            session iff some interleaving of the model explains the under-lock provider events and every result
            equals F(call) (sequential fresh-process run).
"""
import json, os, re, hashlib, copy
from . import lib
from .lib import ToolError, log

MC = "mc/MC_ProviderLock.tla"
TRACE = "trace/Trace_ProviderLock.tla"
STEPS = ("Acquire", "Lookup", "Compute", "Release", "Panic")


def expected_violation(run):
    """PoisonBehaviour = "error": TLC MUST find the counterexample to FailureIsolation (else tool error)."""
    cfg = os.path.join(lib.SPEC, "mc/MC_ProviderLock_error_FI.cfg")
    rc, txt, outp, dt = run._tlc(os.path.join(lib.SPEC, MC), cfg, 4, 300)
    states, trans = run._stats(txt)
    found = "Invariant FailureIsolation is violated" in txt
    # the counterexample must be the defect: a lock error on a poisoned lock after a panic
    shape = 'kind |-> "lockerr"' in txt and "poisoned = TRUE" in txt and 'kind |-> "panic"' in txt
    m = re.findall(r"^State (\d+):", txt, re.M)
    depth = int(m[-1]) if m else 0
    if not (found and shape):
        raise ToolError(f"expected-violation model check did NOT produce the FailureIsolation counterexample (rc={rc}); see {outp}\n" + lib._tail(txt))
    run.cov["mc_runs"].append(dict(cfg=os.path.relpath(cfg, lib.ROOT), expected_violation="FailureIsolation", found=True,
                                   counterexample_states=depth, states=states, transitions=trans, wall_s=round(dt, 1)))
    log(f"[mc] MC_ProviderLock_error_FI.cfg: EXPECTED violation of FailureIsolation found (counterexample of {depth} states: panic under the lock, next call -> lock error), {dt:.1f}s")


def dedupe(path):
    """distinct behaviours in a fixed order (TLC workers print them in a run-dependent order)"""
    out = sorted(set(open(path)))
    with open(path, "w") as f:
        f.writelines(out)
    return len(out)


def canon_threads(path):
    """threads are interchangeable (in the model and in the code): keep one representative per renaming class,
    numbering threads by first appearance; distinct, sorted"""
    out = set()
    for l in open(path):
        c = json.loads(l)
        ren = {}
        for s in c["order"]:
            s["t"] = ren.setdefault(s["t"], len(ren) + 1)
        out.add(json.dumps(c, sort_keys=True) + "\n")
    out = sorted(out)
    with open(path, "w") as f:
        f.writelines(out)
    return len(out)


def replay_histories(run, b, cases, label):
    rep = os.path.join(run.dir, f"{label}.report.ndjson")
    out, dt = run.harness(b, ["c20", "replay", cases, rep], timeout=3000)
    summ = json.loads(out.strip().splitlines()[-1])
    mm = [json.loads(l) for l in open(rep)]
    for m in mm:
        m["direction"] = "replay"
        m["source"] = os.path.relpath(cases, lib.ROOT)
    run.mismatches += mm
    run.cov["evaluations"] += summ["steps"]
    run.cov["replay_runs"].append(dict(label=label, histories=summ["cases"], steps=summ["steps"], failing_histories=summ["failing_histories"],
                                       mismatches=len(mm), fresh_processes=summ["cases"] + summ["distinct_concrete_calls"], wall_s=round(dt, 1)))
    for s in summ.get("samples", [])[:2]:
        run._sample(s)
    for l in open(cases):
        c = json.loads(l)
        # non-trivial: a failing call or a warm (cache-hit) lookup somewhere in the history
        if any(s["res"]["kind"] != "ok" or s["lk"] == "hit" for s in c["order"]):
            run.distinct("h:" + hashlib.sha1(l.encode()).hexdigest())
    log(f"[replay] {label}: {summ['cases']} histories / {summ['steps']} steps in fresh processes, {summ['failing_histories']} failing histories, {len(mm)} step mismatches, {dt:.1f}s")
    if mm:
        m = next((x for x in mm if x["differs"] == "result"), mm[0])
        hist = " ; ".join(f"T{s['t']}:{s['kind']}({s['zone']})" for s in m["args"]["order"][:m["args"]["step"]])
        log(f"[c20] failing history against the real provider: {hist}  -> step {m['args']['step']} {json.dumps(m['concrete'])} expected {m['expected']['kind']} observed {m['observed']['kind']} (cls={m['cls']})")
    return summ, mm


def negctl_replay(run, b, cases):
    """corrupt one expectation (first lookup of a zone 'hit' instead of 'miss'): the replay must report exactly that step"""
    allc = [json.loads(l) for l in open(cases)]
    first = next((i for i, c in enumerate(allc) if any(s["lk"] == "miss" and s["cls"] == "no-fault" and s["kind"] == "ok" for s in c["order"])), None)
    if first is None:
        raise ToolError("negative control (replay): no step to corrupt")
    lines = allc[first:first + 40]
    target = None
    for hi, c in enumerate(lines):
        for si, s in enumerate(c["order"]):
            if s["lk"] == "miss" and s["cls"] == "no-fault" and s["kind"] == "ok":
                s["lk"] = "hit"; target = (hi + 1, si + 1); break
        if target:
            break
    if not target:
        raise ToolError("negative control (replay): no step to corrupt")
    bad = os.path.join(run.dir, "negctl.cases.ndjson")
    with open(bad, "w") as f:
        for c in lines:
            f.write(json.dumps(c) + "\n")
    rep = os.path.join(run.dir, "negctl.report.ndjson")
    run.harness(b, ["c20", "replay", bad, rep])
    hits = [m for m in map(json.loads, open(rep)) if (m["i"], m["args"]["step"]) == target and m["differs"] == "cache"]
    run.cov["negative_controls"].append(dict(kind="replay", corrupted="lk miss->hit", detected=len(hits)))
    if not hits:
        raise ToolError("negative control: corrupted history expectation was NOT detected by the replay")
    log("[negctl] corrupted history expectation detected by replay")


def validate(run, trace, cfg="trace/Trace_ProviderLock.cfg", label="c20", count=True, timeout=1500):
    env = {"TRACE": trace, "JAVA_TOOL_OPTIONS": "-Dtlc2.tool.queue.IStateQueue=StateDeque"}
    rc, txt, outp, dt = run._tlc(os.path.join(lib.SPEC, TRACE), os.path.join(lib.SPEC, cfg), 1, timeout, extra_env=env, tag="val_" + label)
    mm = [json.loads(json.loads(l)[9:]) for l in txt.splitlines() if l.startswith('"MISMATCH ')]
    accepted = "TRACE-ACCEPTED" in txt and "No error has been found" in txt
    return accepted, mm, outp, dt, txt


def validate_sessions(run, trace, label):
    accepted, mm, outp, dt, txt = validate(run, trace, label=label)
    if not accepted:
        raise ToolError(f"trace validation did not complete for {trace}; see {outp}\n" + lib._tail(txt))
    sess = [json.loads(l) for l in open(trace)]
    by_sid = {s["sid"]: s for s in sess}
    ncalls = sum(len(th) for s in sess for th in s["thr"])
    nevs = sum(len(c["evs"]) for s in sess for th in s["thr"] for c in th)
    for m in mm:
        s = by_sid[m["sid"]]
        c = s["thr"][m["t"] - 1][m["k"] - 1]
        m["direction"] = "trace"
        m["source"] = os.path.relpath(trace, lib.ROOT)
        m["concrete"] = dict(op=c["op"], args=c["args"], session_kind=s["plan"]["kind"], threads=s["n"])
        m["args"] = dict(plan=s["plan"], t=m["t"], k=m["k"])     # `vcheck C20 --replay` re-runs the whole session
    run.mismatches += mm
    run.cov["traces_validated_against_impl"] += len(sess)
    run.cov["evaluations"] += ncalls
    kinds = {}
    for s in sess:
        kinds[s["plan"]["kind"]] = kinds.get(s["plan"]["kind"], 0) + 1
        multi = sum(1 for th in s["thr"] if any(c["evs"] for c in th))
        if multi >= 2:   # non-trivial: at least two threads were inside the provider in this session
            run.distinct("s:" + hashlib.sha1(json.dumps(s["thr"], sort_keys=True).encode()).hexdigest())
    run.cov["trace_runs"].append(dict(label=label, sessions=len(sess), calls=ncalls, provider_events=nevs, session_kinds=kinds,
                                      threads=sorted({s["n"] for s in sess}), mismatches=len(mm), wall_s=round(dt, 1)))
    s0 = sess[0]
    c0 = next((c for th in s0["thr"] for c in th if c["evs"]), s0["thr"][0][0])
    run._sample(dict(session=s0["sid"], threads=s0["n"], kind=s0["plan"]["kind"], call=dict(op=c0["op"], args=c0["args"], out=c0["out"], f=c0["f"], evs=c0["evs"], pz=c0["pz"])))
    log(f"[validate] {label}: {len(sess)} sessions ({kinds}), {ncalls} calls, {nevs} under-lock provider events, {len(mm)} mismatches, {dt:.1f}s")
    return sess, mm


def negctl_trace(run, sess):
    """(a) swap the seq of two provider events of different threads, (b) change one logged result:
    the trace spec must flag the session, with the right class."""
    clean = [s for s in sess if s["plan"]["kind"] == "clean" and sum(1 for th in s["thr"] if any(c["evs"] for c in th)) >= 2
             and any(sum(1 for th in s["thr"] for c in th for e in c["evs"] if e["zone"] == z and e["hit"]) >= 1 and sum(1 for th in s["thr"] for c in th if any(e["zone"] == z for e in c["evs"])) >= 2
                     for z in {e["zone"] for th in s["thr"] for c in th for e in c["evs"]})][:1]
    if not clean:
        raise ToolError("negative control (trace): no clean multi-thread session recorded")
    base = clean[0]

    def write(s, name):
        p = os.path.join(run.dir, name)
        with open(p, "w") as f:
            f.write(json.dumps(s) + "\n")
        return p
    # (a) swap seqs
    s = copy.deepcopy(base)
    evs = sorted(((e["seq"], ti, ci, ei) for ti, th in enumerate(s["thr"]) for ci, c in enumerate(th) for ei, e in enumerate(c["evs"])))
    # a swap that no interleaving of the model can explain: the first (miss) event of a zone exchanged with a later hit on the
    # same zone made by ANOTHER call -> a hit precedes the miss (cache-memo), and the calls' events are no longer contiguous.
    # (Swapping two arbitrary adjacent events of different threads can yield another valid behaviour, which made this control flaky.)
    def ev(x):
        return s["thr"][x[1]][x[2]]["evs"][x[3]]
    pair = None
    for a in evs:
        if ev(a)["hit"]:
            continue
        for b in evs:
            if b[0] > a[0] and ev(b)["hit"] and ev(b)["zone"] == ev(a)["zone"] and (b[1], b[2]) != (a[1], a[2]):
                pair = (a, b)
                break
        if pair:
            break
    if not pair:
        raise ToolError("negative control (trace): no miss followed by a hit on the same zone from another call")
    (sa, ta, ca, ea), (sb, tb, cb, eb) = pair
    s["thr"][ta][ca]["evs"][ea]["seq"], s["thr"][tb][cb]["evs"][eb]["seq"] = sb, sa
    acc, mm, outp, dt, txt = validate(run, write(s, "negctl_swap.trace.ndjson"), label="negctl_swap")
    cls_a = sorted({m["cls"] for m in mm})
    ok_a = (not acc) or any(c in ("overlap", "seq-gap", "cache-memo", "program-order") for c in cls_a)
    # (b) change one logged result
    s = copy.deepcopy(base)
    c = next(c for th in s["thr"] for c in th if c["out"]["kind"] == "ok")
    c["out"]["s"] = c["out"]["s"][:-1] + "#}"
    acc, mm, outp, dt, txt = validate(run, write(s, "negctl_result.trace.ndjson"), label="negctl_result")
    cls_b = sorted({m["cls"] for m in mm})
    ok_b = (not acc) or "result-differs" in cls_b
    run.cov["negative_controls"].append(dict(kind="trace", corrupted="swap seq of two provider events", flagged=cls_a, rejected=bool(ok_a)))
    run.cov["negative_controls"].append(dict(kind="trace", corrupted="one logged result changed", flagged=cls_b, rejected=bool(ok_b)))
    if not (ok_a and ok_b):
        raise ToolError(f"negative control: corrupted session was ACCEPTED (swap: {cls_a}, result: {cls_b})")
    log(f"[negctl] corrupted sessions rejected: swapped seq -> {cls_a}, changed result -> {cls_b}")


def run(run):
    b = lib.build_harness("dev")
    q = run.tier == "quick"
    # ---- the model
    run.mc(MC, "mc/MC_ProviderLock_recover.cfg", workers=4, require_actions=STEPS)
    run.mc(MC, "mc/MC_ProviderLock_error.cfg", workers=4, require_actions=STEPS + ("Fail",))
    expected_violation(run)
    # ---- spec -> impl
    cases, n = run.gen(MC, "gen/Gen_C20_hist.cfg", workers=4, name="hist")
    if dedupe(cases) != n:
        raise ToolError("generator printed a behaviour twice")
    nh = canon_threads(cases)
    log(f"[gen] hist: {n} complete behaviours = {nh} up to renaming of threads")
    replay_histories(run, b, cases, "hist")
    negctl_replay(run, b, cases)
    if not q:
        sim, n2 = run.gen(MC, "gen/Gen_C20_sim.cfg", workers=4, name="sim", timeout=900,
                          # a complete behaviour has at most 34 states (6 calls x 5 steps + 3 loop exits + the initial state);
                          # shorter ones stutter at AllDone and print their history again: duplicates are removed below
                          extra_args=["-simulate", "num=25000", "-depth", "34", "-seed", str(run.seed)])
        n2 = canon_threads(sim)
        log(f"[gen] sim: {n2} distinct random behaviours of the 3x2x3 instance (up to renaming of threads)")
        replay_histories(run, b, sim, "sim")
    # ---- impl -> spec
    all_sess = []
    for i in range(1 if q else 6):
        run.seed_i = run.seed + i
        tr = os.path.join(run.dir, f"c20_{i}.trace.ndjson")
        out, dt = run.harness(b, ["record", "c20", run.seed + i, 63 if q else 210, tr])
        log(f"[record] c20 seed {run.seed + i}: {sum(1 for _ in open(tr))} sessions (fresh processes, 2..16 threads), {dt:.1f}s")
        sess, mm = validate_sessions(run, tr, f"c20_{i}")
        all_sess += sess
        if i == 0:
            negctl_trace(run, sess)
            # informational: the as-is model ("error") must explain today's code completely
            acc, mm2, outp, dt2, txt = validate(run, tr, cfg="trace/Trace_ProviderLock_asis.cfg", label="asis")
            run.cov["asis_model"] = dict(cfg="spec/trace/Trace_ProviderLock_asis.cfg", accepted=bool(acc), unexplained_calls=len(mm2),
                                         note="informational only: PoisonBehaviour=\"error\" describes the code as it is; 0 unexplained calls means the defect is exactly the modelled one")
            log(f"[validate] as-is model (PoisonBehaviour=error): {len(mm2)} calls unexplained (informational), {dt2:.1f}s")
    faults = sum(1 for s in all_sess if s["plan"]["kind"] != "clean")
    if faults == 0 or faults == len(all_sess):
        raise ToolError("vacuity: the recorded sessions must contain both clean and fault histories")
    run.cov["rule"] = ("replay: one case = one complete behaviour of the bounded ProviderLock instance (lock-acquisition order + fault placement), run in a fresh process with real threads; "
                       "non-trivial = contains a failing call or a warm lookup; distinct by content. traces: one case = one fresh-process session of 2..16 threads; "
                       "non-trivial = at least two threads were inside the provider; distinct by content")
    run.cov["distinct_nontrivial"] = len(run._distinct)
    run.assumptions += [
        "exhaustive interleaving coverage is on the model; real threads are sampled (2..16 threads, seeded plans); the model's grain (one critical section per wrapper call) is what the under-lock events validate",
        "F(call) is taken from sequential fresh-process runs of the same build (the property compares concurrent results with sequential ones, not with an independent oracle)",
        "happens-before used by the trace spec: per-thread program order, barriers between phases (harness), and the provider's own seq counter incremented under the lock; no wall-clock",
        "the poison flag is compared one way only (set => a panic under the lock preceded): the property does not say whether a recovered lock stays flagged",
        "fault injection uses the cfg(temporal_verif) hook verif::panic_holding_provider_lock(); natural panicking inputs are taken as they are (F = panic) from the reference run",
    ]
