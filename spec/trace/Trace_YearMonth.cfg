SPECIFICATION TSpec
CONSTANTS
  YmRoutes = {}
  MdRoutes = {}
  CmpRoutes = {}
  MdCmpRoutes = {}
  Receivers = {}
  Others = {}
  DurSet = {}
  Settings = {}
  OneStep = FALSE
INVARIANT CursorOK
POSTCONDITION Accepted
CHECK_DEADLOCK FALSE
