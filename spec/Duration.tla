------------------------------ MODULE Duration ------------------------------
(***************************************************************************)
(* Durations as a signed quantity without a reference date (C09).           *)
(* Ten BigInt fields; a day counts 24 h; calendar units (year, month, week) *)
(* cannot be mixed into arithmetic without a reference.                     *)
(***************************************************************************)
EXTENDS Instant

TwoTo32 == [s |-> 1, l |-> <<7296, 9496, 42>>]                       \* 4294967296
MaxTimeNs == [s |-> 1, l |-> <<9999, 9999, 9919, 4740, 9925, 71, 9>>]  \* 2^53 * 10^9 - 1 = 9007199254740991999999999
\* exists iff fields share one sign and stay inside the limits
ValidDur(D) == /\ SignUniform(D)
               /\ Lt(Abs(D.y), TwoTo32) /\ Lt(Abs(D.mo), TwoTo32) /\ Lt(Abs(D.w), TwoTo32)
               /\ Le(Abs(DayTimeNs(D)), MaxTimeNs)
DurNew(D) == IF ValidDur(D) THEN Ok(D) ELSE ErrRange

\* Duration::is_time_within_range: every time field below its carry (a "balanced" time part)
TimeFieldsInRange(D) == /\ Lt(Abs(D.h), FromInt(24)) /\ Lt(Abs(D.mi), FromInt(60)) /\ Lt(Abs(D.s), FromInt(60))
                        /\ Lt(Abs(D.ms), FromInt(1000)) /\ Lt(Abs(D.us), FromInt(1000)) /\ Lt(Abs(D.ns), FromInt(1000))
\* Duration from a property bag: the fields that are absent count as zero; a bag without any duration field is a TypeError
DurKeySet == {"y", "mo", "w", "d", "h", "mi", "s", "ms", "us", "ns"}
FillDur(p) == [k \in DurKeySet |-> IF k \in DOMAIN p THEN p[k] ELSE Zero]
DurFromPartial(p) == IF DOMAIN p = {} THEN ErrType ELSE DurNew(FillDur(p))

AbsDur(D) == Dur10(Abs(D.y), Abs(D.mo), Abs(D.w), Abs(D.d), Abs(D.h), Abs(D.mi), Abs(D.s), Abs(D.ms), Abs(D.us), Abs(D.ns))
HasCalendarUnits(D) == ~IsZero(D.y) \/ ~IsZero(D.mo) \/ ~IsZero(D.w)
\* DefaultTemporalLargestUnit: the largest non-zero field (nanosecond for the zero duration)
DefaultLargest(D) ==
  LET f == DurFields(D)
      nz == {i \in 1..10 : ~IsZero(f[i])}
  IN IF nz = {} THEN "nanosecond" ELSE Units[11 - (CHOOSE i \in nz : \A j \in nz : i <= j)]

\* add / subtract of calendar-free durations: exact sum of totals balanced to the larger default unit
DurAdd(a, b) ==
  LET lg == UnitMax(DefaultLargest(a), DefaultLargest(b))
      total == Add(DayTimeNs(a), DayTimeNs(b))
  IN IF lg \in CalendarUnits THEN ErrRange
     ELSE IF ~Le(Abs(total), MaxTimeNs) THEN ErrRange
     ELSE DurNew(BalanceDur(total, lg))     \* the balanced fields are doubles: the result is re-validated
DurSub(a, b) == DurAdd(a, NegDur(b))
\* compare without a reference: order of the exact totals; calendar units need a reference
DurCompare(a, b) ==
  IF a = b THEN Ok(0)
  ELSE IF HasCalendarUnits(a) \/ HasCalendarUnits(b) THEN ErrRange
  ELSE Ok(Cmp(DayTimeNs(a), DayTimeNs(b)))
\* round without a reference, with resolved options (largest >= smallest, both time-or-day units)
DurRound(D, largest, smallest, inc, mode) ==
  IF HasCalendarUnits(D) \/ largest \in CalendarUnits \/ smallest \in CalendarUnits THEN ErrRange
  ELSE LET r == RoundBig(DayTimeNs(D), IncNs(inc, smallest), mode)
       IN IF ~Le(Abs(r), MaxTimeNs) THEN ErrRange ELSE DurNew(BalanceDur(r, largest))
\* total(unit) without a reference = exact total / unit length, as the exact rational [n, d]
DurTotal(D, unit) ==
  IF unit = "auto" THEN ErrRange                        \* the unit is required; auto is a value of largestUnit only
  ELSE IF HasCalendarUnits(D) \/ unit \in CalendarUnits THEN ErrRange
  ELSE Ok([n |-> DayTimeNs(D), d |-> UnitNsBig(unit)])

\* a double m * 2^e (m an integer big, e an int) is an acceptable rendering of the exact rational n/d:
\* exact when n/d is an integer of magnitude <= 2^53, otherwise within relative error 2^-51 (2 ulp)
F64Approximates(m, e, n, d) ==
  LET dm == TruncDivMod(n, d)
      lhs == IF e >= 0 THEN Mul(Mul(m, Pow2(e)), d) ELSE Mul(m, d)      \* scaled observed * d
      rhs == IF e >= 0 THEN n ELSE Mul(n, Pow2(-e))                      \* scaled exact numerator
      scale == IF e >= 0 THEN FromInt(1) ELSE Pow2(-e)
  IN IF IsZero(dm.r) /\ Le(Abs(dm.q), TwoTo53) THEN Eq(lhs, rhs)
     ELSE Le(Mul(Abs(Sub(lhs, rhs)), Pow2(51)), Abs(rhs))
=============================================================================
