--------------------------- MODULE DateTimeArith ---------------------------
(***************************************************************************)
(* PlainDateTime arithmetic, difference and rounding (C05): composition of  *)
(* DateArith (dates), TimeOfDay (exact time with day carry), Rounding.      *)
(* A date-time is a record [date |-> [y,m,d], time |-> six fields].         *)
(***************************************************************************)
EXTENDS DateArith, Instant

DT(date, time) == [date |-> date, time |-> time]
ValidDT(x) == ValidDate(x.date) /\ ValidTime(x.time)
\* limits: strictly after -271821-04-19T00:00 and up to +275760-09-13T23:59:59.999999999
InDTRange(x) == LET n == DFC(x.date) IN (n > MinDay \/ (n = MinDay /\ x.time # Midnight)) /\ n <= MaxDay
DTNew(x) == IF ValidDT(x) /\ InDTRange(x) THEN Ok(x) ELSE ErrRange
CmpDT(a, b) == IF CmpDate(a.date, b.date) # 0 THEN CmpDate(a.date, b.date)
               ELSE Cmp(TimeNsOf(a.time), TimeNsOf(b.time))

\* add: time part with nanosecond-exact carry into whole days, then the date part as for plain dates
AddDT(x, D, ovf) ==
  LET t == AddNs(x.time, TimeNs(D))
      dp == Add(D.d, t.days)
  IN IF ~SmallDateDur(D) \/ ~AbsLe(dp, CapD) THEN ErrRange
     ELSE LET o == AddDateI(x.date, ToInt(D.y), ToInt(D.mo), ToInt(D.w), ToInt(dp), ovf)
          IN IF o.kind # "ok" THEN o
             ELSE IF InDTRange(DT(o.val, t.time)) THEN Ok(DT(o.val, t.time)) ELSE ErrRange
SubDT(x, D, ovf) == AddDT(x, NegDur(D), ovf)

\* DifferenceISODateTime(a, b, largest) -> [y, mo, w, d (ints), t (signed ns, big)]
DiffDTRec(a, b, largest) ==
  LET t0 == Sub(TimeNsOf(b.time), TimeNsOf(a.time))
      tsign == t0.s
      dsign == CmpDate(b.date, a.date)
      adj == tsign # 0 /\ tsign = -dsign
      bdate == IF adj THEN CivilFromDays(DFC(b.date) + tsign) ELSE b.date
      t1 == IF adj THEN Sub(t0, MulSmall(DayNsBig, tsign)) ELSE t0
      dlg == UnitMax("day", largest)
      dd == Diff(a.date, bdate, dlg)
  IN IF largest = dlg THEN [y |-> dd.y, mo |-> dd.mo, w |-> dd.w, d |-> dd.d, t |-> t1]
     ELSE [y |-> 0, mo |-> 0, w |-> 0, d |-> 0, t |-> Add(t1, Mul(DayNsBig, FromInt(dd.d)))]
\* as a duration: time part balanced up to hours (date largest unit) or to the requested time unit
DiffDT(a, b, largest) ==
  LET r == DiffDTRec(a, b, largest)
      tb == BalanceDur(r.t, IF largest \in DateUnits THEN "hour" ELSE largest)
  IN Dur10(FromInt(r.y), FromInt(r.mo), FromInt(r.w), FromInt(r.d), tb.h, tb.mi, tb.s, tb.ms, tb.us, tb.ns)
UntilDT(a, b, largest) == Ok(DiffDT(a, b, largest))
SinceDT(a, b, largest) == Ok(NegDur(DiffDT(a, b, largest)))

\* round to a unit/increment: the multiple counted per Temporal's RoundTime, carrying into the next day, range-checked
RoundDT(x, u, inc, mode) ==
  LET total == IF u = "day" THEN RoundBig(TimeNsOf(x.time), DayNsBig, mode) ELSE RoundTimeTotal(x.time, u, inc, mode)
      t == AddNs(Midnight, total)
      n == DFC(x.date) + ToInt(t.days)
      r == DT(CivilFromDays(n), t.time)
  IN IF InDateRange(n) /\ InDTRange(r) THEN Ok(r) ELSE ErrRange
=============================================================================
