----------------------------- MODULE ZonedRound -----------------------------
(***************************************************************************)
(* Duration round / total / compare relative to a ZONED date-time           *)
(* (extension of C08 and C14): the duration is added on the wall clock of   *)
(* the zone (AddZonedDateTime), re-measured (DifferenceZonedDateTime) and   *)
(* nudged at the smallest unit - calendar units and days by the real length *)
(* of that unit between the two zoned end points (NudgeToCalendarUnit with  *)
(* a time zone), time units within the real length of the current day       *)
(* (NudgeToZonedTime, which may spill into the next day) - and the overflow *)
(* bubbles into the larger units with zoned end points.                     *)
(* Everything is in whole seconds relative to the synthetic base day        *)
(* (TimeZone.tla); durations carry whole seconds only.                      *)
(***************************************************************************)
EXTENDS ZonedArith, Rounding

UnitSec(u) == CASE u = "second" -> 1 [] u = "minute" -> 60 [] u = "hour" -> 3600 [] u = "day" -> 86400
\* signed RoundNumberToIncrement on integers (the BigInt version is the reference; values here are small)
RoundI(x, n, mode) == ToInt(RoundBig(FromInt(x), FromInt(n), mode))
TruncToI(x, inc) == (IF x >= 0 THEN x \div inc ELSE -((-x) \div inc)) * inc

\* instant of a wall reading (date, second of day) under the compatible rule: [kind, val]
EpochOf(z, date, sod) == Disambiguate(z, WOf(date, sod), "compatible")
AddD(date, y, mo, w, d) == AddDateI(date, y, mo, w, d, "constrain")

IDZ(y, mo, w, d, t) == [y |-> y, mo |-> mo, w |-> w, d |-> d, t |-> t]
IDZSign(r) == IF r.y # 0 THEN SgnI(r.y) ELSE IF r.mo # 0 THEN SgnI(r.mo) ELSE IF r.w # 0 THEN SgnI(r.w) ELSE IF r.d # 0 THEN SgnI(r.d) ELSE SgnI(r.t)

\* start / end date durations of the bracket around the target, per NudgeToCalendarUnit
BracketZ(sign, r, date0, inc, unit) ==
  CASE unit = "year" -> LET r1 == TruncToI(r.y, inc) IN [r1 |-> r1, sd |-> IDZ(r1, 0, 0, 0, 0), ed |-> IDZ(r1 + inc * sign, 0, 0, 0, 0)]
    [] unit = "month" -> LET r1 == TruncToI(r.mo, inc) IN [r1 |-> r1, sd |-> IDZ(r.y, r1, 0, 0, 0), ed |-> IDZ(r.y, r1 + inc * sign, 0, 0, 0)]
    [] unit = "week" ->
         LET ws == AddD(date0, r.y, r.mo, 0, 0).val
             we == CivilFromDays(DFC(ws) + r.d)
             uw == Diff(ws, we, "week").w
             r1 == TruncToI(r.w + uw, inc)
         IN [r1 |-> r1, sd |-> IDZ(r.y, r.mo, r1, 0, 0), ed |-> IDZ(r.y, r.mo, r1 + inc * sign, 0, 0)]
    [] unit = "day" -> LET r1 == TruncToI(r.d, inc) IN [r1 |-> r1, sd |-> IDZ(r.y, r.mo, r.w, r1, 0), ed |-> IDZ(r.y, r.mo, r.w, r1 + inc * sign, 0)]

\* NudgeToCalendarUnit with a time zone -> [kind, dur, expanded, nudged, r1, num, den]
NudgeCalendarZ(sign, r, dest, z, date0, sod0, inc, unit, mode) ==
  LET b == BracketZ(sign, r, date0, inc, unit)
      s == AddD(date0, b.sd.y, b.sd.mo, b.sd.w, b.sd.d)
      e == AddD(date0, b.ed.y, b.ed.mo, b.ed.w, b.ed.d)
  IN IF s.kind # "ok" \/ e.kind # "ok" THEN [kind |-> "range"]
     ELSE LET sE == EpochOf(z, s.val, sod0)   eE == EpochOf(z, e.val, sod0)
          IN IF sE.kind # "ok" \/ eE.kind # "ok" THEN [kind |-> "any"]
             ELSE LET num == AbsI(dest - sE.val)   den == AbsI(eE.val - sE.val)
                      um == Unsigned(mode, sign < 0)
                      r1Even == (AbsI(b.r1) \div inc) % 2 = 0
                      up == IF num = 0 THEN FALSE ELSE IF num = den THEN TRUE
                            ELSE CASE um = "zero" -> FALSE [] um = "infinity" -> TRUE
                                   [] OTHER -> IF 2 * num < den THEN FALSE ELSE IF 2 * num > den THEN TRUE
                                               ELSE CASE um = "half-zero" -> FALSE [] um = "half-infinity" -> TRUE [] um = "half-even" -> ~r1Even
                      pick == IF up THEN b.ed ELSE b.sd
                  \* Temporal asserts start <= dest <= end (in the direction of sign) and start # end; otherwise nothing is specified
                  IN IF den = 0 \/ num > den \/ SgnI(dest - sE.val) = -sign THEN [kind |-> "any"]
                     ELSE [kind |-> "ok", dur |-> pick, expanded |-> up, nudged |-> IF up THEN eE.val ELSE sE.val, r1 |-> b.r1, num |-> num, den |-> den]

\* NudgeToZonedTime: the time part is rounded within the real length of its day; reaching the end of the day moves to the next day
NudgeZonedTime(sign, r, z, date0, sod0, inc, unit, mode) ==
  LET start == AddD(date0, r.y, r.mo, r.w, r.d)
  IN IF start.kind # "ok" THEN [kind |-> "range"]
     ELSE LET endDate == CivilFromDays(DFC(start.val) + sign)
              sE == EpochOf(z, start.val, sod0)   eE == EpochOf(z, endDate, sod0)
          IN IF sE.kind # "ok" \/ eE.kind # "ok" THEN [kind |-> "any"]
             ELSE LET daySpan == eE.val - sE.val
                      n == inc * UnitSec(unit)
                      rounded == RoundI(r.t, n, mode)
                      beyond == rounded - daySpan
                      did == SgnI(beyond) # -sign
                      t2 == IF did THEN RoundI(beyond, n, mode) ELSE rounded
                  IN IF SgnI(daySpan) # sign THEN [kind |-> "any"]      \* Temporal asserts the day span has the sign of the duration
                     ELSE [kind |-> "ok", dur |-> IDZ(r.y, r.mo, r.w, r.d + (IF did THEN sign ELSE 0), t2), expanded |-> did,
                           nudged |-> t2 + (IF did THEN eE.val ELSE sE.val)]

\* BubbleRelativeDuration with zoned end points
RECURSIVE BubbleZ(_, _, _, _, _, _, _, _)
BubbleZ(sign, r, nudged, z, date0, sod0, largest, unitIdx) ==
  IF unitIdx > UnitIdx(largest) THEN [kind |-> "ok", dur |-> r]
  ELSE LET unit == Units[unitIdx]
       IN IF unit = "week" /\ largest # "week" THEN BubbleZ(sign, r, nudged, z, date0, sod0, largest, unitIdx + 1)
          ELSE LET ed == CASE unit = "year" -> IDZ(r.y + sign, 0, 0, 0, 0)
                           [] unit = "month" -> IDZ(r.y, r.mo + sign, 0, 0, 0)
                           [] unit = "week" -> IDZ(r.y, r.mo, r.w + sign, 0, 0)
                   e == AddD(date0, ed.y, ed.mo, ed.w, ed.d)
               IN IF e.kind # "ok" THEN [kind |-> "range"]
                  ELSE LET eE == EpochOf(z, e.val, sod0)
                       IN IF eE.kind # "ok" THEN [kind |-> "any"]
                          ELSE IF SgnI(nudged - eE.val) # -sign THEN BubbleZ(sign, ed, nudged, z, date0, sod0, largest, unitIdx + 1)
                          ELSE [kind |-> "ok", dur |-> r]

\* RoundRelativeDuration with a time zone
RoundRelativeZ(r, dest, z, date0, sod0, largest, inc, unit, mode) ==
  LET sign == IF IDZSign(r) < 0 THEN -1 ELSE 1
      n == IF unit \in DateUnits THEN NudgeCalendarZ(sign, r, dest, z, date0, sod0, inc, unit, mode)
           ELSE NudgeZonedTime(sign, r, z, date0, sod0, inc, unit, mode)
  IN IF n.kind # "ok" THEN n
     ELSE IF n.expanded /\ unit # "week" THEN BubbleZ(sign, n.dur, n.nudged, z, date0, sod0, largest, UnitIdx(UnitMax(unit, "day")) + 1)
     ELSE [kind |-> "ok", dur |-> n.dur]

\* internal record -> Duration: the time part balanced up to hours (date largest unit) or up to `largest`
ToDurZ(r, largest) ==
  LET tb == BalanceDur(K9(FromInt(r.t)), IF largest \in DateUnits THEN "hour" ELSE largest)
  IN Dur10(FromInt(r.y), FromInt(r.mo), FromInt(r.w), FromInt(r.d), tb.h, tb.mi, tb.s, tb.ms, tb.us, tb.ns)

SignConflict(r) == LET ds == IF r.y # 0 THEN SgnI(r.y) ELSE IF r.mo # 0 THEN SgnI(r.mo) ELSE IF r.w # 0 THEN SgnI(r.w) ELSE SgnI(r.d)
                   IN ds # 0 /\ SgnI(r.t) # 0 /\ ds # SgnI(r.t)

\* Duration.round({largest, smallest, inc, mode}, relativeTo: zoned(z, t)); smallest in second..year
ZRoundRel(z, t, D, largest, smallest, inc, mode) ==
  LET tg == ZAdd(z, t, D, "constrain")
  IN IF inc > 1 /\ largest # smallest /\ smallest \in DateUnits THEN ErrRange     \* the option rule of Duration.prototype.round
     ELSE IF tg.kind # "ok" THEN tg
     \* smallest unit nanosecond with increment 1: nothing is rounded, the duration is only re-measured and re-balanced
     ELSE IF smallest = "nanosecond"
          THEN (IF largest \in TimeUnits THEN Ok(BalanceDur(K9(FromInt(tg.val - t)), largest))
                ELSE LET rec == ZDiffRec(z, t, tg.val, largest)
                     IN IF ~rec.defined \/ SignConflict(rec) THEN [kind |-> "any"] ELSE Ok(ToDurZ(IDZ(rec.y, rec.mo, rec.w, rec.d, rec.t), largest)))
     ELSE IF largest \in TimeUnits
          THEN Ok(BalanceDur(K9(FromInt(RoundI(tg.val - t, inc * UnitSec(smallest), mode))), largest))   \* DifferenceInstant
          ELSE LET rec == ZDiffRec(z, t, tg.val, largest)
                   w0 == Wall(z, t)
               IN IF ~rec.defined \/ SignConflict(rec) THEN [kind |-> "any"]
                  ELSE LET rr == RoundRelativeZ(IDZ(rec.y, rec.mo, rec.w, rec.d, rec.t), tg.val, z, WDate(w0), WSod(w0), largest, inc, smallest, mode)
                       IN IF rr.kind # "ok" THEN (IF rr.kind = "range" THEN ErrRange ELSE [kind |-> "any"])
                          ELSE IF SignConflict(rr.dur) THEN [kind |-> "any"]
                          ELSE Ok(ToDurZ(rr.dur, largest))

\* ZonedDateTime.until / since with rounding options (DifferenceTemporalZonedDateTime): the difference is measured, rounded relative to the
\* receiver (since: with the negated mode) and negated at the end for since
ZDiffRounded(z, t1, t2, largest, smallest, inc, mode, isSince) ==
  LET m == IF isSince THEN NegateMode(mode) ELSE mode
      sgn(D) == IF isSince THEN NegDur(D) ELSE D
  IN IF smallest = "nanosecond" THEN (IF isSince THEN ZSince(z, t1, t2, largest) ELSE ZUntil(z, t1, t2, largest))
     ELSE IF largest \in TimeUnits THEN Ok(sgn(BalanceDur(K9(FromInt(RoundI(t2 - t1, inc * UnitSec(smallest), m))), largest)))
     ELSE IF t1 = t2 THEN Ok(ZeroDur)
     ELSE LET rec == ZDiffRec(z, t1, t2, largest)
              w0 == Wall(z, t1)
          IN IF ~rec.defined \/ SignConflict(rec) THEN [kind |-> "any"]
             ELSE LET rr == RoundRelativeZ(IDZ(rec.y, rec.mo, rec.w, rec.d, rec.t), t2, z, WDate(w0), WSod(w0), largest, inc, smallest, m)
                  IN IF rr.kind # "ok" THEN (IF rr.kind = "range" THEN ErrRange ELSE [kind |-> "any"])
                     ELSE IF SignConflict(rr.dur) THEN [kind |-> "any"]
                     ELSE Ok(sgn(ToDurZ(rr.dur, largest)))

\* Duration.total(unit, relativeTo: zoned) as an exact rational [n, d] of integers (d > 0)
ZTotalRel(z, t, D, unit) ==
  LET tg == ZAdd(z, t, D, "constrain")
  IN IF tg.kind # "ok" THEN tg
     ELSE IF unit \in TimeUnits THEN Ok([n |-> tg.val - t, d |-> UnitSec(unit)])
     ELSE LET rec == ZDiffRec(z, t, tg.val, unit)
              w0 == Wall(z, t)
              r == IDZ(rec.y, rec.mo, rec.w, rec.d, rec.t)
              sign == IF IDZSign(r) < 0 THEN -1 ELSE 1
          \* (no shortcut for an empty duration: from the second occurrence of a repeated wall-clock time the bracket starts at the
          \* first occurrence, so the total of a zero duration is the length of the repeated interval - as Temporal's steps give it)
          IN IF ~rec.defined \/ SignConflict(rec) THEN [kind |-> "any"]
             ELSE LET n == NudgeCalendarZ(sign, r, tg.val, z, WDate(w0), WSod(w0), 1, unit, "trunc")
                  IN IF n.kind # "ok" THEN (IF n.kind = "range" THEN ErrRange ELSE [kind |-> "any"])
                     ELSE Ok([n |-> n.r1 * n.den + sign * n.num, d |-> n.den])

\* Duration.compare(a, b, relativeTo: zoned): the order of the instants they lead to
ZCompareRel(z, t, a, b) ==
  LET ta == ZAdd(z, t, a, "constrain")   tb == ZAdd(z, t, b, "constrain")
  IN IF ta.kind # "ok" THEN ta ELSE IF tb.kind # "ok" THEN tb ELSE Ok(IF ta.val < tb.val THEN -1 ELSE IF ta.val > tb.val THEN 1 ELSE 0)
=============================================================================
