-------------------------- MODULE YearMonthMachine --------------------------
(* Session state machine over YearMonth (model checking, case generation, trace validation) and the laws of C18. *)
EXTENDS YearMonth

CONSTANTS YmRoutes,      \* construction routes of year-months explored (records, see YearMonth!YmRoute)
          MdRoutes,      \* construction routes of month-days explored
          CmpRoutes,     \* year-month routes compared pairwise (all ordered pairs)
          MdCmpRoutes,   \* month-day routes compared pairwise
          Receivers,     \* year-month values [y, m, rd] from which arithmetic is explored
          Others,        \* year-month values used as the other operand of until / since
          DurSet,        \* durations [y, mo] (ints, sign-uniform) added and subtracted
          Settings,      \* difference settings records tried
          OneStep
VARIABLES cur, last
vars == <<cur, last>>

None == [op |-> "none"]
Nothing == [k |-> "none", v |-> <<>>]
Ovfs == {"constrain", "reject"}
Init == cur \in ({[k |-> "ym", v |-> r] : r \in Receivers} \cup {Nothing}) /\ last = None

Stay(kind, o) == IF o.kind = "ok" THEN [k |-> kind, v |-> o.val] ELSE cur
RouteAct(kind, r) ==
  /\ cur = Nothing
  /\ LET o == IF kind = "ym" THEN YmRoute(r) ELSE MdRoute(r)
     IN /\ last' = [op |-> "route", kind |-> kind, r |-> r, out |-> o]
        /\ cur' = Stay(kind, o)
CmpAct(kind, a, b) ==
  /\ cur = Nothing
  /\ LET oa == IF kind = "ym" THEN YmRoute(a) ELSE MdRoute(a)
         ob == IF kind = "ym" THEN YmRoute(b) ELSE MdRoute(b)
     IN /\ oa.kind = "ok" /\ ob.kind = "ok" /\ "alt" \notin DOMAIN oa /\ "alt" \notin DOMAIN ob
        /\ last' = [op |-> "cmp", kind |-> kind, a |-> a, b |-> b, va |-> oa.val, vb |-> ob.val,
                    out |-> Ok(IF kind = "ym" THEN YmCmpOut(oa.val, ob.val) ELSE MdCmpOut(oa.val, ob.val))]
        /\ cur' = cur
AddAct(D, ovf, sign) ==
  /\ cur # Nothing /\ cur.k = "ym"
  /\ LET o == AddYmI(cur.v, sign * D.y, sign * D.mo)
     IN /\ last' = [op |-> IF sign = 1 THEN "add" ELSE "subtract", recv |-> cur.v, dur |-> D, ovf |-> ovf, out |-> o]
        /\ cur' = Stay("ym", o)
\* durations with weeks / days / hours (sign-uniform): the days and the whole days in the hours can carry the date into another month
FullDurs == {[y |-> 0, mo |-> 0, w |-> 0, d |-> 31, h |-> 0], [y |-> 0, mo |-> 0, w |-> 0, d |-> 0, h |-> 744], [y |-> 0, mo |-> 0, w |-> 0, d |-> 0, h |-> 24], [y |-> 0, mo |-> 0, w |-> 0, d |-> 0, h |-> 23],
             [y |-> 0, mo |-> 1, w |-> 0, d |-> 0, h |-> 48], [y |-> 0, mo |-> 0, w |-> 0, d |-> 28, h |-> 0], [y |-> 0, mo |-> 0, w |-> 5, d |-> 0, h |-> 0], [y |-> 1, mo |-> 0, w |-> 0, d |-> 366, h |-> 12],
             [y |-> 0, mo |-> 0, w |-> 0, d |-> 1, h |-> 0], [y |-> 0, mo |-> 0, w |-> 0, d |-> 30, h |-> 23]}
AddFullAct(D, ovf, sign) ==
  /\ cur # Nothing /\ cur.k = "ym"
  /\ LET o == AddYmFull(cur.v, sign * D.y, sign * D.mo, sign * D.w, sign * D.d, sign * D.h, ovf)
     IN /\ last' = [op |-> IF sign = 1 THEN "addFull" ELSE "subtractFull", recv |-> cur.v, dur |-> D, ovf |-> ovf, out |-> o]
        /\ cur' = cur
DiffAct(other, st, sign) ==
  /\ cur # Nothing /\ cur.k = "ym"
  /\ last' = [op |-> IF sign = 1 THEN "until" ELSE "since", recv |-> cur.v, other |-> other, st |-> st, out |-> YmUntil(cur.v, other, st, sign)]
  /\ cur' = [k |-> "ym", v |-> other]

Next == /\ (OneStep => last = None)
        /\ \/ \E r \in YmRoutes : RouteAct("ym", r)
           \/ \E r \in MdRoutes : RouteAct("md", r)
           \/ \E a \in CmpRoutes, b \in CmpRoutes : CmpAct("ym", a, b)
           \/ \E a \in MdCmpRoutes, b \in MdCmpRoutes : CmpAct("md", a, b)
           \/ \E D \in DurSet, ovf \in Ovfs, sign \in {1, -1} : AddAct(D, ovf, sign)
           \/ \E D \in FullDurs, ovf \in Ovfs, sign \in {1, -1} : DurSet # {} /\ AddFullAct(D, ovf, sign)
           \/ \E o \in Others, st \in Settings, sign \in {1, -1} : DiffAct(o, st, sign)
Spec == Init /\ [][Next]_vars

(* ---------------- the laws of C18, as invariants over the last transition ---------------- *)
IsRoute(kind) == last.op = "route" /\ last.kind = kind
RouteOk(kind) == IsRoute(kind) /\ last.out.kind = "ok"
\* every route but the explicit reference argument yields the canonical hidden part
Canonical ==
  /\ (RouteOk("ym") /\ ~Explicit(last.r)) => last.out.val.rd = 1
  /\ (RouteOk("md") /\ ~MdExplicit(last.r)) => last.out.val.ry = RefYear
\* the explicit reference argument is kept (regulated like a date)
ExplicitKept ==
  /\ (RouteOk("ym") /\ Explicit(last.r) /\ last.r.ovf = "reject") => last.out.val = YMV(last.r.y, last.r.m, last.r.rd)
  /\ (RouteOk("md") /\ MdExplicit(last.r) /\ last.r.ovf = "reject") => last.out.val = MDV(last.r.m, last.r.d, last.r.ry)
\* every value is within the limits of its type and well formed
ValuesInLimits ==
  /\ RouteOk("ym") => LET v == last.out.val IN YmInLimits(v.y, v.m) /\ v.m \in 1..12 /\ v.rd \in 1..DIM(v.y, v.m)
  /\ RouteOk("md") => LET v == last.out.val IN ValidDate(Date(v.ry, v.m, v.d)) /\ DateInLimits(Date(v.ry, v.m, v.d))
  /\ (last.op \in {"add", "subtract"} /\ last.out.kind = "ok") => LET v == last.out.val IN YmInLimits(v.y, v.m) /\ v.rd = 1
\* equal visible fields <=> equal value, identical strings, compare = 0 (for values of non-explicit routes)
EqualFieldsEqualValue ==
  (last.op = "cmp" /\ last.kind = "ym" /\ ~Explicit(last.a) /\ ~Explicit(last.b)) =>
     LET o == last.out.val  same == last.va.y = last.vb.y /\ last.va.m = last.vb.m
     IN /\ o.eq = same /\ (o.cmp = 0) = same /\ o.same_s = same /\ o.same_sa = same
        /\ o.cmp = (IF last.va.y # last.vb.y THEN (IF last.va.y < last.vb.y THEN -1 ELSE 1)
                    ELSE IF last.va.m # last.vb.m THEN (IF last.va.m < last.vb.m THEN -1 ELSE 1) ELSE 0)
MdEqualFieldsEqualValue ==
  (last.op = "cmp" /\ last.kind = "md" /\ ~MdExplicit(last.a) /\ ~MdExplicit(last.b)) =>
     LET o == last.out.val  same == last.va.m = last.vb.m /\ last.va.d = last.vb.d
     IN o.eq = same /\ o.same_s = same /\ o.same_sa = same
\* the plain string shows the visible fields only
StringsHideReference ==
  (last.op = "cmp") => (last.out.val.same_s = IF last.kind = "ym" THEN (last.va.y = last.vb.y /\ last.va.m = last.vb.m)
                                              ELSE (last.va.m = last.vb.m /\ last.va.d = last.vb.d))

IsAdd == last.op \in {"add", "subtract"}
AddSign == IF last.op = "add" THEN 1 ELSE -1
\* add / subtract = plain-date arithmetic from the first of the month, whenever that first is a date
AddAsDateArithmetic ==
  (IsAdd /\ FirstIsDate(last.recv.y, last.recv.m)) =>
     LET via == AddYmViaDate(last.recv, AddSign * last.dur.y, AddSign * last.dur.mo, last.ovf)
     IN IF via.kind = "ok" THEN last.out = via
        ELSE (last.out.kind = "range" \/ ("alt" \in DOMAIN last.out /\ last.out.alt = "range"))
AddInverse ==
  (IsAdd /\ last.out.kind = "ok") =>
     LET back == AddYmI(last.out.val, -AddSign * last.dur.y, -AddSign * last.dur.mo)
     IN back.kind = "ok" /\ back.val = YMV(last.recv.y, last.recv.m, 1)
IsDiff == last.op \in {"until", "since"}
DiffSign == IF last.op = "until" THEN 1 ELSE -1
UnitsRefused == (IsDiff /\ DiffUnitsRefused(last.st)) => last.out = ErrRange
DiffLaws ==
  (IsDiff /\ last.out.kind = "ok") =>
     LET r == last.out.val
         y == DiffSign * ToInt(r.y)
         mo == DiffSign * ToInt(r.mo)
         lg == YmLargest(last.st)
         fwd == AddYmI(last.recv, y, mo)
         dir == CmpDate(First(last.other), First(last.recv))
     IN /\ IsZero(r.w) /\ IsZero(r.d)
        /\ fwd.kind = "ok" /\ fwd.val = YMV(last.other.y, last.other.m, 1)          \* recv + until(recv, other) = other
        /\ (lg = "year" => AbsI(mo) < 12) /\ (lg = "month" => y = 0)                 \* balanced
        /\ (y = 0 \/ SgnI(y) = dir) /\ (mo = 0 \/ SgnI(mo) = dir)                    \* sign-uniform, in the direction of other
        /\ 12 * y + mo = 12 * (last.other.y - last.recv.y) + (last.other.m - last.recv.m)   \* whole months between the two
\* month-days: February 29 is accepted; impossible days are constrained or rejected
MonthDayDays ==
  (IsRoute("md") /\ last.r.k = "new" /\ ~MdExplicit(last.r)) =>
     LET r == last.r
     IN /\ (r.m = 2 /\ r.d = 29) => last.out = Ok(MDV(2, 29, RefYear))
        /\ (r.ovf = "reject") => (last.out.kind = "ok") = (r.m \in 1..12 /\ r.d >= 1 /\ r.d <= DIM(RefYear, r.m))
        /\ (r.ovf = "constrain") => /\ last.out.kind = "ok"
                                    /\ LET v == last.out.val IN
                                       /\ v.m = Clamp(r.m, 1, 12)
                                       /\ v.d \in 1..DIM(RefYear, v.m)
                                       /\ \A x \in 1..DIM(RefYear, v.m) : AbsI(v.d - r.d) <= AbsI(x - r.d)
=============================================================================
