----------------------------- MODULE Gregorian -----------------------------
(***************************************************************************)
(* Proleptic Gregorian calendar <-> day timeline (epoch day 0 = 1970-01-01) *)
(* Closed forms (Hinnant), an independent day-by-day walk, ISO week rules.  *)
(* Pure operators; the walking state machine is GregorianWalk.              *)
(***************************************************************************)
EXTENDS Integers, Sequences

IsLeap(y) == (y % 4 = 0 /\ y % 100 # 0) \/ y % 400 = 0
DIM(y, m) == IF m = 2 THEN (IF IsLeap(y) THEN 29 ELSE 28)
             ELSE IF m \in {4, 6, 9, 11} THEN 30 ELSE 31
DIY(y) == IF IsLeap(y) THEN 366 ELSE 365

\* TLA+ \div and % are floor / modulo, so negative years need no special casing
DaysFromCivil(y, m, d) ==
  LET y2  == IF m <= 2 THEN y - 1 ELSE y
      era == y2 \div 400
      yoe == y2 - era * 400
      mp  == (m + 9) % 12
      doy == (153 * mp + 2) \div 5 + d - 1
      doe == yoe * 365 + yoe \div 4 - yoe \div 100 + doy
  IN era * 146097 + doe - 719468

CivilFromDays(n) ==
  LET z   == n + 719468
      era == z \div 146097
      doe == z - era * 146097
      yoe == (doe - doe \div 1460 + doe \div 36524 - doe \div 146096) \div 365
      doy == doe - (365 * yoe + yoe \div 4 - yoe \div 100)
      mp  == (5 * doy + 2) \div 153
      d   == doy - (153 * mp + 2) \div 5 + 1
      m   == IF mp < 10 THEN mp + 3 ELSE mp - 9
  IN [y |-> yoe + era * 400 + (IF m <= 2 THEN 1 ELSE 0), m |-> m, d |-> d]

DFC(dt) == DaysFromCivil(dt.y, dt.m, dt.d)
Date(y, m, d) == [y |-> y, m |-> m, d |-> d]
ValidDate(dt) == dt.m \in 1..12 /\ dt.d >= 1 /\ dt.d <= DIM(dt.y, dt.m)

CmpDate(a, b) == IF a.y # b.y THEN (IF a.y < b.y THEN -1 ELSE 1)
                 ELSE IF a.m # b.m THEN (IF a.m < b.m THEN -1 ELSE 1)
                 ELSE IF a.d # b.d THEN (IF a.d < b.d THEN -1 ELSE 1) ELSE 0

\* 1 = Monday .. 7 = Sunday ; 1970-01-01 was a Thursday
DayOfWeek(n) == ((n + 3) % 7) + 1

RECURSIVE DaysBeforeMonth(_, _)
DaysBeforeMonth(y, m) == IF m = 1 THEN 0 ELSE DaysBeforeMonth(y, m - 1) + DIM(y, m - 1)
DayOfYear(dt) == DaysBeforeMonth(dt.y, dt.m) + dt.d

\* ISO 8601 week: closed form
LongYearP(y) == (y + y \div 4 - y \div 100 + y \div 400) % 7
WeeksInYear(y) == IF LongYearP(y) = 4 \/ LongYearP(y - 1) = 3 THEN 53 ELSE 52
IsoWeek(dt) ==
  LET n   == DFC(dt)
      w   == (DayOfYear(dt) - DayOfWeek(n) + 10) \div 7
  IN IF w < 1 THEN [week |-> WeeksInYear(dt.y - 1), year |-> dt.y - 1]
     ELSE IF w > WeeksInYear(dt.y) THEN [week |-> 1, year |-> dt.y + 1]
     ELSE [week |-> w, year |-> dt.y]

\* independent day-by-day successor / predecessor (no closed form involved)
Succ(dt) == IF dt.d < DIM(dt.y, dt.m) THEN [dt EXCEPT !.d = dt.d + 1]
            ELSE IF dt.m < 12 THEN [y |-> dt.y, m |-> dt.m + 1, d |-> 1]
            ELSE [y |-> dt.y + 1, m |-> 1, d |-> 1]
Pred(dt) == IF dt.d > 1 THEN [dt EXCEPT !.d = dt.d - 1]
            ELSE IF dt.m > 1 THEN [y |-> dt.y, m |-> dt.m - 1, d |-> DIM(dt.y, dt.m - 1)]
            ELSE [y |-> dt.y - 1, m |-> 12, d |-> 31]

\* Temporal limits (PlainDate)
MinDay == -100000001
MaxDay == 100000000
InDateRange(n) == MinDay <= n /\ n <= MaxDay
=============================================================================
