//! C01 sessions: a date cursor moved by day-only durations anywhere in the range, with distance / order /
//! UTC-instant probes against random other dates.
use super::Tracer;
use crate::gen::*;
use crate::js::big;
use crate::rng::Rng;
use serde_json::{json, Value};

pub fn drive(t: &mut Tracer, r: &mut Rng, n: usize) {
    while t.n < n {
        let mut cur = any_day(r);
        let steps = r.range(4, 24);
        for _ in 0..steps {
            let recv = date_json(cur);
            match r.range(0, 9) {
                0..=2 => {
                    // move by N days; mostly lands in range, sometimes far outside
                    let target = if r.chance(1, 6) { cur + r.range(-250_000_000, 250_000_000) } else if r.chance(1, 3) { cur + r.range(-3, 3) } else { any_day(r) };
                    let delta = target - cur;
                    let (op, d) = if r.chance(1, 2) { ("PlainDate.add", delta) } else { ("PlainDate.subtract", -delta) };
                    let out = t.call(op, json!({"recv": recv, "dur": date_dur(0, 0, 0, d as i128)}));
                    if out["kind"] == "ok" { cur = target; if !(MIN_DAY..=MAX_DAY).contains(&cur) { break; } }
                }
                3 | 4 => {
                    let other = if r.chance(1, 4) { cur + r.range(-2, 2) } else { any_day(r) };
                    let other = other.clamp(MIN_DAY, MAX_DAY);
                    let op = if r.chance(1, 2) { "PlainDate.until" } else { "PlainDate.since" };
                    t.call(op, json!({"recv": recv, "other": date_json(other), "st": {"largest": "day"}}));
                }
                5 | 6 => {
                    let other = if r.chance(1, 3) { cur + r.range(-1, 1) } else { any_day(r) };
                    let other = other.clamp(MIN_DAY, MAX_DAY);
                    t.call("PlainDate.compare", json!({"recv": recv, "other": date_json(other)}));
                }
                7 => { t.call("PlainDate.epochNsUtc", json!({"recv": recv})); }
                _ => {
                    let lo = -100_000_000i128 * 86_400_000_000_000;
                    let ns = if r.chance(1, 2) { cur.max(-100_000_000) as i128 * 86_400_000_000_000 + r.range(0, 86_399_999) as i128 * 1_000_000 + r.range(0, 999_999) as i128 } else { r.range128(lo, -lo) };
                    let ns = ns.clamp(lo, -lo);
                    t.call("Instant.toDateUtc", json!({"ns": big(ns)}));
                }
            }
        }
        t.reset();
    }
}
