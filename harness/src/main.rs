#![allow(unused_imports, dead_code)]
mod js;
mod rng;
mod gen;
mod synth_tz;
mod synth_tzif;
mod proj;
mod ops;
mod ops_date;
mod ops_round;
mod ops_time;
mod ops_dur;
mod ops_dt;
mod ops_zoned;
mod ops_opts;
mod ops_limits;
mod ops_cal;
mod ops_tzdb;
mod ops_lock;
mod ops_fmt;
mod ops_parse;
mod ops_wrap;
mod ops_partial;
mod ops_ym;
mod sp_c12;
mod sp_c15;
mod sp_c16;
mod sp_c19;
mod sp_c20;
mod sp_c03;
mod sp_c10;
mod replay;
mod c01;
mod rec;

fn main() {
    if std::env::var("VERIF_SHOW_PANICS").is_err() { std::panic::set_hook(Box::new(|_| {})); }
    let a: Vec<String> = std::env::args().collect();
    let cmd = a.get(1).map(|s| s.as_str()).unwrap_or("");
    match cmd {
        "replay" => replay::main(&a[2..]),
        "record" => rec::main(&a[2..]),
        "c01" => c01::main(&a[2..]),
        "c12" => sp_c12::main(&a[2..]),
        "c15" => sp_c15::main(&a[2..]),
        "c16" => sp_c16::main(&a[2..]),
        "c19" => sp_c19::main(&a[2..]),
        "c20" => sp_c20::main(&a[2..]),
        "c03" => sp_c03::main(&a[2..]),
        "c10" => sp_c10::main(&a[2..]),
        "exec" => {
            // exec one case from a replay file: tvh exec '<json line>'
            let v: serde_json::Value = serde_json::from_str(&a[2]).expect("json");
            println!("{}", ops::exec(v["op"].as_str().unwrap(), &v["args"]));
        }
        _ => {
            eprintln!("usage: tvh replay <cases> <report> | record <driver> <seed> <n> <out> | c01 <table> <tier> <report> | exec <json>");
            std::process::exit(2);
        }
    }
}
