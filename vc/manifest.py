#!/usr/bin/env python3
"""Regenerates MANIFEST.json from the table below (python3 vc/manifest.py)."""
import json, os
ROOT = os.path.dirname(os.path.dirname(os.path.abspath(__file__)))
ALL = ["C%02d" % i for i in range(1, 21)]

def load_claims():
    import glob
    out = {}
    for f in sorted(glob.glob(os.path.join(ROOT, "vc", "claims", "C*.json"))):
        out[os.path.splitext(os.path.basename(f))[0]] = json.load(open(f))
    return out

CLAIMED = load_claims()
NOT_YET = "check not built yet in this revision (build order in DESIGN.md §10); will be claimed once its TLA+ module and conformance harness exist"

def main():
    checks = []
    for p in ALL:
        if p not in CLAIMED:
            continue
        c = CLAIMED[p]
        checks.append(dict(property_id=p, quick_cmd=f"bin/vcheck {p} quick", thorough_cmd=f"bin/vcheck {p} thorough",
                           evidence_file=f"evidence/{p}.json", replay_cmd_template=f"bin/vcheck {p} --replay {{path}}", engine="vcheck",
                           level_claimed=dict(category="model_checking", text=c["text"], design_ref=c["ref"]),
                           level_note=c["note"], technique=c["technique"]))
    m = dict(version=1,
             setup_cmd="cd harness && cp -n /repo/Cargo.lock Cargo.lock; CARGO_NET_OFFLINE=true cargo build --offline -q && cd .. && bin/vcheck --selftest",
             hooks=dict(guard="cfg(temporal_verif)", enable="harness/.cargo/config.toml passes rustflags --cfg temporal_verif (RUSTFLAGS='--cfg temporal_verif --check-cfg cfg(temporal_verif)')",
                        baseline_off_cmd="cd /repo && cargo test --workspace --no-fail-fast --offline",
                        source_commits=["207d4ac", "353e56f", "7a87cc5", "41e256c"], add_only=True),
             engines=[dict(name="vcheck", path="bin/vcheck", serves_properties=sorted(CLAIMED),
                           kind_free_text="python orchestrator: TLC model checking of spec/*.tla, TLC case generation -> Rust replay harness (harness/), Rust seeded recorders -> TLC trace validation (spec/trace), Apalache lemmas (spec/apa)")],
             checks=checks,
             notes="All checks decide their property with the explicit TLA+ specification under spec/ (model checked by TLC, bound to the code by spec->impl replay and impl->spec trace validation). See DESIGN.md.",
             not_applicable=[dict(property_id=p, reason=NOT_YET) for p in ALL if p not in CLAIMED])
    json.dump(m, open(os.path.join(ROOT, "MANIFEST.json"), "w"), indent=1)

if __name__ == "__main__":
    main()
