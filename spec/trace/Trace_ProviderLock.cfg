\* the property: a poisoned lock is recovered, every result is F(call)
SPECIFICATION TSpec
CONSTANTS
  Threads = {}
  Zones = {}
  ZoneOpts = {}
  PanicZones = {}
  Kinds = {}
  NCalls = 0
  KeepHist = FALSE
  PoisonBehaviour = "recover"
INVARIANTS LockFree CacheOnlyKnown
POSTCONDITION AcceptedC20
CHECK_DEADLOCK FALSE
