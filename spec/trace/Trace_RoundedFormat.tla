------------------------- MODULE Trace_RoundedFormat -------------------------
(* impl -> spec for toString with precision and rounding mode (C07 / C11): the printed text must be the canonical text of *)
(* the value rounded by the type's own rounding rule (RoundedFormatMachine).                                               *)
EXTENDS RoundedFormat, TraceBase
VARIABLE l
tvars == <<l>>
E == Rec[l]
\* the logged options -> the machine's cell
PrecOf(a) == IF Get(a, "su", "") = "minute" THEN -2 ELSE a.prec
TimeOfV(v) == Time(v.h, v.mi, v.s, v.ms, v.us, v.ns)
CellOf(e) ==
  CASE e.op = "Fmt.PlainTime" -> [ty |-> "PlainTime", t |-> TimeOfV(e.args.v), p |-> PrecOf(e.args)]
    [] e.op = "Fmt.PlainDateTime" -> [ty |-> "PlainDateTime", d |-> Date(e.args.v.y, e.args.v.m, e.args.v.d), t |-> TimeOfV(e.args.v), p |-> PrecOf(e.args)]
    [] e.op = "Fmt.Instant" -> [ty |-> "Instant", i |-> e.args.v, p |-> PrecOf(e.args)]
    [] e.op = "Fmt.Duration" -> [ty |-> "Duration", D |-> e.args.v, p |-> PrecOf(e.args)]
    [] e.op = "Fmt.ZonedDateTime" -> [ty |-> "ZonedDateTime", i |-> e.args.v.ns, tz |-> Join(e.args.v.tz), p |-> PrecOf(e.args)]
ModeOf(e) == Get(e.args, "mode", "trunc")
Exp(e) == CaseFor(CellOf(e), ModeOf(e)).out
OutAgrees(exp, out) == IF exp.kind = "any" THEN out.kind \in OkKinds ELSE exp = out
TInit == l = 1
TNext == /\ l <= NEv /\ l' = l + 1
         /\ \/ E.op = "reset"
            \/ E.op # "reset" /\ OutAgrees(Exp(E), E.out)
            \/ E.op # "reset" /\ ~OutAgrees(Exp(E), E.out) /\ Report(l, E.op, ClsOf(CellOf(E), ModeOf(E)), Exp(E), E.out)
TSpec == TInit /\ [][TNext]_tvars
=============================================================================
