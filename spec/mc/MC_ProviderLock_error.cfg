\* what the code does today (lock().map_err(..)?): everything except failure isolation still holds -
\* mutual exclusion, deadlock freedom, termination, and results differ from F only by LockErr on a poisoned lock.
SPECIFICATION Spec
CONSTANTS
  Threads = {1, 2, 3}
  Zones = {"za", "zb", "zc"}
  ZoneOpts = {"za", "zb", "zc", "-"}
  PanicZones = {"za", "zb", "zc", "-"}
  Kinds = {"ok", "unknown", "range", "panic"}
  NCalls = 2
  KeepHist = FALSE
  PoisonBehaviour = "error"
INVARIANTS TypeOK MutualExclusion LinearizableUnlessPoisoned CacheIsMemo PoisonOnlyByPanic
PROPERTY Termination
CHECK_DEADLOCK TRUE
