//! Operations for C15: the bundled file-system time-zone provider (`FsTzdbProvider`) through the
//! `TimeZoneProvider` trait, and an independent reading of the same TZif files with the `tzif` crate's
//! *parser only* (no lookup logic of src/tzdb.rs is used to produce the tables).
//!
//! Synthetic zones `synth/<n>` (`Tzdb.define`): bytes written by synth_tzif.rs are "the disk"; the table is the tzif crate's parse of
//! those bytes, the lookups are the library's (`Tzif::from_bytes`, `Tzif::get`, `Tzif::v2_estimate_tz_pair`) behind replicas of the
//! provider's two thin wrappers (the provider itself can only read /usr/share/zoneinfo).
//!
//! Time points are `{d, s, ns}` = epoch day, second of day, nanosecond of second (TLC ints are 32-bit).
use crate::js::{self, int};
use crate::proj::*;
use serde_json::{json, Value};
use std::cell::RefCell;
use temporal_rs::iso::{IsoDate, IsoDateTime, IsoTime};
use temporal_rs::provider::TimeZoneProvider;
use temporal_rs::tzdb::FsTzdbProvider;
use tzif::data::posix::{PosixTzString, TransitionDate, TransitionDay};
use tzif::data::tzif::TzifData;

pub const ZONEINFO: &str = "/usr/share/zoneinfo";

thread_local! {
    /// the provider under test; `Tzdb.fresh` replaces it (its cache is the state C15 is about)
    static PROV: RefCell<FsTzdbProvider> = RefCell::new(FsTzdbProvider::default());
}

pub fn fresh() { PROV.with(|p| *p.borrow_mut() = FsTzdbProvider::default()); }

// ---------- glue: points <-> nanoseconds ----------
pub fn point_ns(v: &Value) -> i128 {
    (js::i(v, "d") as i128 * 86_400 + js::i(v, "s") as i128) * 1_000_000_000 + v.get("ns").and_then(|x| x.as_i64()).unwrap_or(0) as i128
}
pub fn ns_point(ns: i128) -> Value {
    let sec = ns.div_euclid(1_000_000_000);
    json!({"d": int(sec.div_euclid(86_400) as i64), "s": int(sec.rem_euclid(86_400) as i64), "ns": int(ns.rem_euclid(1_000_000_000) as i64)})
}
pub fn sec_point(sec: i64) -> (i64, i64) { (sec.div_euclid(86_400), sec.rem_euclid(86_400)) }

fn arg_iso_dt(v: &Value) -> temporal_rs::TemporalResult<IsoDateTime> {
    let mut d = IsoDate::default();
    d.year = js::i(v, "y") as i32; d.month = js::i(v, "m") as u8; d.day = js::i(v, "d") as u8;
    let mut t = IsoTime::default();
    t.hour = js::i(v, "h") as u8; t.minute = js::i(v, "mi") as u8; t.second = js::i(v, "s") as u8;
    t.millisecond = js::i(v, "ms") as u16; t.microsecond = js::i(v, "us") as u16; t.nanosecond = js::i(v, "ns") as u16;
    IsoDateTime::new(d, t)
}

// ---------- the table, from the tzif crate's parser ----------
fn rule_json(r: &TransitionDate) -> Value {
    let t = int(r.time.0);
    match r.day {
        TransitionDay::Mwd(m, w, d) => json!({"k": "M", "m": m, "w": w, "d": d, "t": t}),
        TransitionDay::NoLeap(n) => json!({"k": "J", "n": n, "t": t}),
        TransitionDay::WithLeap(n) => json!({"k": "N", "n": n, "t": t}),
    }
}
fn footer_json(f: &Option<PosixTzString>) -> Value {
    match f {
        None => json!({"kind": "none"}),
        // POSIX offsets are seconds WEST of UTC; the table uses seconds east
        Some(p) => match &p.dst_info {
            None => json!({"kind": "fixed", "std": int(-p.std_info.offset.0)}),
            Some(d) => json!({"kind": "rule", "std": int(-p.std_info.offset.0), "dst": int(-d.variant_info.offset.0),
                              "start": rule_json(&d.start_date), "end": rule_json(&d.end_date)}),
        },
    }
}
pub fn table_of(data: &TzifData) -> Result<Value, String> {
    let db = data.data_block2.as_ref().ok_or("no v2+ data block")?;
    let types: Vec<Value> = db.local_time_type_records.iter().map(|r| json!({"off": int(r.utoff.0), "dst": r.is_dst})).collect();
    let mut trans = Vec::new();
    for (i, t) in db.transition_times.iter().enumerate() {
        let (d, s) = sec_point(t.0);
        trans.push(json!({"d": int(d), "s": int(s), "ty": db.transition_types[i] + 1}));
    }
    Ok(json!({"types": types, "trans": trans, "footer": footer_json(&data.footer)}))
}
pub fn read_table(zone: &str) -> Result<Value, String> {
    let path = std::path::Path::new(ZONEINFO).join(zone);
    let data = tzif::parse_tzif_file(&path).map_err(|e| e.to_string())?;
    table_of(&data)
}

/// Zone and Link names of tzdata.zi
pub fn iana_names() -> Vec<String> {
    let txt = std::fs::read_to_string(format!("{}/tzdata.zi", ZONEINFO)).expect("tzdata.zi");
    let mut v = Vec::new();
    for l in txt.lines() {
        let p: Vec<&str> = l.split_whitespace().collect();
        match p.first() { Some(&"Z") => v.push(p[1].to_string()), Some(&"L") => v.push(p[2].to_string()), _ => {} }
    }
    v.sort(); v.dedup();
    v
}

// ---------- synthetic zones: the registered bytes are "the disk"; the library's lookups are called on its own reading of them ----------
fn define(zone: &str, desc: &Value) -> Value {
    use crate::synth_tzif::*;
    let d = match desc_from_json(desc) { Ok(d) => d, Err(e) => return json!({"kind": "harness-error", "what": e}) };
    let bytes = write_v2(&d);
    // writer self-check: whenever the tzif crate's parser accepts the bytes it reads the described types and transitions
    if let Some((ty, tr)) = parse_back(&bytes) { if ty != d.types || tr != d.trans { return json!({"kind": "harness-error", "what": "writer round trip"}); } }
    let mut parsed = None;
    let out = run(|| temporal_rs::tzdb::Tzif::from_bytes(&bytes), |t| { parsed = Some(t.clone()); json!(true) });
    REG.with(|r| r.borrow_mut().insert(zone.to_string(), Entry { bytes, tzif: parsed }));
    out
}
fn synth_table(zone: &str) -> Result<Value, String> {
    use combine::Parser;
    crate::synth_tzif::REG.with(|r| {
        let r = r.borrow();
        let e = r.get(zone).ok_or("not defined")?;
        let (data, _) = tzif::parse::tzif::tzif().parse(&e.bytes[..]).map_err(|_| "rejected by the tzif crate's parser".to_string())?;
        table_of(&data)
    })
}
fn with_synth<T>(zone: &str, f: impl FnOnce(&temporal_rs::tzdb::Tzif) -> temporal_rs::TemporalResult<T>) -> temporal_rs::TemporalResult<T> {
    crate::synth_tzif::REG.with(|r| match r.borrow().get(zone).and_then(|e| e.tzif.as_ref()) {
        Some(t) => f(t),
        None => Err(temporal_rs::TemporalError::general("no such synthetic zone / bytes rejected")),
    })
}
fn synth_offset(zone: &str, t: &Value) -> Value {
    let ns = point_ns(t);
    // FsTzdbProvider::get_named_tz_offset_nanoseconds: floor to seconds, Tzif::get
    run(|| with_synth(zone, |z| z.get(&tzif::data::time::Seconds(ns.div_euclid(1_000_000_000) as i64))), |o| json!({"off": int(o.offset)}))
}
fn synth_local(zone: &str, l: &Value) -> Value {
    use temporal_rs::time::EpochNanoseconds;
    use temporal_rs::tzdb::LocalTimeRecordResult as R;
    // FsTzdbProvider::get_named_tz_epoch_nanoseconds, line by line
    run(|| with_synth(zone, |z| {
        // utc_epoch_nanoseconds_unchecked: the UTC reading of the wall-clock value, not range-checked as an instant
        let dt = arg_iso_dt(l)?;
        let epoch_nanos = crate::gen::days_from_civil(dt.date.year as i64, dt.date.month as i64, dt.date.day as i64) as i128 * 86_400_000_000_000
            + ((dt.time.hour as i128 * 60 + dt.time.minute as i128) * 60 + dt.time.second as i128) * 1_000_000_000
            + (dt.time.millisecond as i128 * 1000 + dt.time.microsecond as i128) * 1000 + dt.time.nanosecond as i128;
        let seconds = epoch_nanos.div_euclid(1_000_000_000) as i64;
        let sub = |off: i64| EpochNanoseconds::try_from(epoch_nanos - off as i128 * 1_000_000_000);
        Ok(match z.v2_estimate_tz_pair(&tzif::data::time::Seconds(seconds))? {
            R::Empty => Vec::new(),
            R::Single(r) => vec![sub(r.offset)?],
            R::Ambiguous { std, dst } => vec![sub(std.offset)?, sub(dst.offset)?],
        })
    // the order of the list is the wrapper's business (replicated above, not under test here): projected in ascending order
    }), |v| { let mut ns: Vec<i128> = v.iter().map(|e| e.as_i128()).collect(); ns.sort();
              Value::Array(ns.into_iter().map(ns_point).collect()) })
}

fn offset(zone: &str, t: &Value) -> Value {
    if crate::synth_tzif::is_synth(zone) { return synth_offset(zone, t); }
    let ns = point_ns(t);
    PROV.with(|p| run(|| p.borrow().get_named_tz_offset_nanoseconds(zone, ns), |o| json!({"off": int(o.offset)})))
}
fn local(zone: &str, l: &Value) -> Value {
    if crate::synth_tzif::is_synth(zone) { return synth_local(zone, l); }
    PROV.with(|p| run(|| p.borrow().get_named_tz_epoch_nanoseconds(zone, arg_iso_dt(l)?),
                      // projected in the order returned: the specification compares the set and asks for ascending order
                      |v| Value::Array(v.iter().map(|e| ns_point(e.as_i128())).collect())))
}

pub fn exec(op: &str, a: &Value) -> Option<Value> {
    Some(match op {
        "Tzdb.fresh" => { fresh(); ok(json!(true)) }
        "Tzdb.define" => define(js::s(a, "zone"), &a["desc"]),
        "Tzdb.roundtrip" => match crate::synth_tzif::roundtrip_real(js::s(a, "zone")) { Ok(()) => ok(json!(true)), Err(e) => json!({"kind": "harness-error", "what": e}) },
        "Tzdb.table" if crate::synth_tzif::is_synth(js::s(a, "zone")) => match synth_table(js::s(a, "zone")) { Ok(t) => ok(t), Err(_) => err("generic") },
        // the file of the IANA name that equals the identifier up to ASCII case (identifiers are case-insensitive); names that are no
        // IANA name are looked up as they are written
        "Tzdb.table" => { let z = js::s(a, "zone"); let canon = iana_names().into_iter().find(|n| n.eq_ignore_ascii_case(z)).unwrap_or_else(|| z.to_string());
                          match read_table(&canon) { Ok(t) => ok(t), Err(_) => err("generic") } }
        "Tzdb.names" => ok(Value::Array(iana_names().iter().map(|n| p_chars(n)).collect())),
        "Tzdb.offset" => offset(js::s(a, "zone"), &a["t"]),
        "Tzdb.local" => local(js::s(a, "zone"), &a["local"]),
        "Tzdb.check" => { let id: String = a["chars"].as_array().expect("chars").iter().map(|c| c.as_str().unwrap()).collect();
                          PROV.with(|p| run_inf(|| p.borrow().check_identifier(&id), |b| json!(*b))) }
        // a whole provider life: fresh provider, then the steps in order; answers in order
        "Tzdb.session" => { fresh();
                            let outs: Vec<Value> = a["steps"].as_array().expect("steps").iter()
                                .map(|s| exec(s["op"].as_str().unwrap(), &s["args"]).unwrap_or(json!({"kind": "unknown-op"}))).collect();
                            ok(Value::Array(outs)) }
        _ => return None,
    })
}
